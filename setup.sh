#!/bin/sh
# builds the Coq development, the extracted model runner; nothing from /repo
set -e
cd "$(dirname "$0")"
mkdir -p build bin evidence replays
python3 tools/assemble.py
cd coq
coq_makefile -f _CoqProject -o Makefile
timeout 3000 make -k -j16 || true
cd ..
# extraction + OCaml build of bin/modelrun (records a stamp so that checks skip the rebuild while the model sources are unchanged)
rm -f build/modelrun.stamp
python3 -c "import sys; sys.path.insert(0, 'tools'); import vlib; ok, log = vlib.build_modelrun(); print(log[-2000:] if not ok else 'modelrun built'); sys.exit(0 if ok else 1)"
echo setup done
