#!/bin/sh
# builds the Coq development, the extracted model runner; nothing from /repo
set -e
cd "$(dirname "$0")"
mkdir -p build bin evidence replays
python3 tools/assemble.py
cd coq
coq_makefile -f _CoqProject -o Makefile
timeout 3000 make -k -j16 || true
cd extract
timeout 600 coqc -Q .. Cocls Extract.v
cd ../..
ocaml/build.sh
echo setup done
