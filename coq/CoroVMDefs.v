(* CoroVMDefs.v — "CoroVM": a small-step machine for scripted async<T> coroutines running on ONE thread
   over the per-thread ready queue (coro_queue.h), suspend points (suspend_point.h), futures/promises
   (future.h, awaiter.h) and async<T> (async.h).  Model only; proofs live in CoroVMProofs.v.

   Why a control stack: the real code nests C++ activations.
     * normal code discarding a non-empty suspend point / calling async::start():
         coro_queue::install_queue_and_call (coro_queue.h:103-111) sets `instance`, resumes the handles
         one after another (suspend_point.h:137-141, async.h:53-54), then the trailer runs flush_queue
         (coro_queue.h:63-70) and resets `instance`                                       -> frame KInst
     * async::start() called by a running coroutine: `h.resume()` nested (async.h:55-56)  -> frame KNest
   One `resume()` activation runs a chain of symmetric transfers (await_suspend returning a handle:
   pause coro_queue.h:211-219, suspend_point::await_suspend suspend_point.h:167-183, async::co_awaiter
   async.h:104-111, final_awaiter async.h:217-230) and ends when a coroutine suspends "to its resumer"
   (co_awaiter<future>::await_suspend returning true, awaiter.h:186-189; final_awaiter returning noop).
   That moment is control state CRet; the frame on top of the stack says who continues.

   Ids: 0 is normal (non-coroutine) code = the main script; coroutines are 1,2,...; futures are 0,1,...
   Other components (generators, signals, mutex ...) can reuse: `event`, `kframe`, `ctl`, `st`, `sp_dispose`,
   `finish`, `step_ret` and add instructions of their own. *)
From Cocls Require Import Base.
Local Open Scope nat_scope.

(* ---------- programs ---------- *)
Inductive res := RVal (v : Z) | RExc (e : Z) | RNone.   (* value / exception / promise dropped *)

Inductive instr :=
| IEmit (k : Z)                          (* marker *)
| IPause                                 (* co_await pause()                                   coroutine only *)
| IMake (c : nat)                        (* call the coroutine function: frame allocated, async<T> object kept *)
| IDrop (c : nat)                        (* destroy the async<T> object                         async.h:42-44 *)
| IDetach (c : nat) (aw : bool)          (* c.detach(); suspend point discarded | co_awaited    async.h:91-93 *)
| IStart (c f : nat)                     (* future f = c.start()  (also future<T>(c), c())      async.h:50-59 *)
| IStartP (c f : nat) (aw : bool)        (* c.start(promise of f); result discarded | co_awaited async.h:70-74 *)
| ICoAwait (c : nat)                     (* co_await c                                          async.h:96-122 *)
| IMkFut (f : nat)                       (* future<T> f; promise = f.get_promise()              future.h:283 *)
| IResolve (f : nat) (r : res) (aw : bool) (* promise_f(r); suspend point discarded | co_awaited future.h:644-663 *)
| IAwait (f : nat)                       (* co_await future f                                   awaiter.h:182-198 *)
| IRet (v : Z)                           (* co_return v *)
| IThrow (e : Z)                         (* throw e out of the body *)
| IGotF (f : nat)                        (* internal: await_resume after a suspension on future f *)
| IGotC (c : nat)                        (* internal: await_resume after co_await of child c *)
| IBad.

Inductive binding := BNone | BFut (f : nat) | BParent (p : nat).   (* async_promise::_future, async.h:179 *)

(* ---------- events (the observable trace; the harness logs the same ones) ---------- *)
Inductive event :=
| ERun (c : nat)                         (* c's body gets control (first time: the body starts) *)
| ESusp (c : nat)                        (* c is about to suspend *)
| EFin (c : nat) (r : res)               (* c's body finished with r *)
| EEmit (who : nat) (k : Z)
| EEnq (c by_ : nat) (why : Z)           (* c appended to the ready queue; by_ = who was running; why: see below *)
| EDeq (c : nat)                         (* c taken from the front of the ready queue *)
| EIdle (act : bool) (qlen : nat)        (* normal code again: coro_queue::is_active(), queue length *)
| EBad (who : nat)                       (* instruction rejected (precondition of the API not met) *)
| EMk (c : nat)                          (* frame of c allocated, arguments constructed *)
| EFree (c : nat)                        (* frame of c destroyed (arguments destroyed) *)
| EGot (who src : nat) (r : res)         (* await_resume delivered r to who; src = 2*f (future f) | 2*c+1 (child c) *)
| EBind (c : nat) (b : binding)          (* c leaves its async<T> object: result bound to nobody | future f | parent p *)
| ESet (who f : nat) (r : res)           (* who won promise f and stored r *)
| ERetB (who : nat) (b : bool)           (* boolean result of start(promise) / promise(...) *)
| EBack (r : nat)                        (* nested start() returned into r *)
| ENest (r c : nat)                      (* r (a coroutine) calls c.start(): child resumed nested *)
| EEnd (stuck unstarted : nat).          (* main script over: started-but-unfinished / never started frames *)

(* why codes of EEnq *)
Definition why_discard : Z := 0%Z.   (* discarded suspend point, suspend_point.h:132-135 *)
Definition why_spawait : Z := 1%Z.   (* the other handles of an awaited suspend point, suspend_point.h:174-177 *)
Definition why_self : Z := 2%Z.      (* the awaiting coroutine itself, suspend_point.h:179-181 *)
Definition why_pause : Z := 3%Z.     (* pause, coro_queue.h:214 *)
Definition why_final : Z := 4%Z.     (* remaining waiters of a finished coroutine's future, async.h:225-229 *)

(* ---------- machine state ---------- *)
Inductive cstat := Unmade | Created | Started | Done.

Record coro := mkCoro {
  stat : cstat;
  script : list instr;       (* remaining instructions *)
  bound : binding;
  result : res               (* what the body finished with (read by the co_awaiting parent) *)
}.

Inductive fstate := FNone | FPend (chain : list nat) | FReady (r : res).
(* chain: subscribed coroutines, head = last subscribed (lock-free stack, awaiter.h:121-136) *)
Record fut := mkFut { fstt : fstate; claimed : bool }.   (* claimed: promise<T>::_owner is null *)

Inductive kframe :=
| KInst (hs : list nat)     (* inside install_queue_and_call: handles still to be resumed directly; then flush *)
| KNest (r : nat).          (* r is inside async::start() *)

Inductive ctl := CMain | CRun (c : nat) | CRet | CEnd.

Record st := mkSt {
  prog : nat -> list instr;
  mainp : list instr;
  cs : nat -> coro;
  fs : nat -> fut;
  made : list nat;            (* ids in order of creation *)
  queue : list nat;           (* coro_queue::queue_impl::instance._queue *)
  active : bool;              (* coro_queue::instance != nullptr *)
  stack : list kframe;
  cur : ctl;
  log : list event            (* newest first *)
}.

Definition upd {A} (m : nat -> A) (k : nat) (v : A) : nat -> A := fun x => if Nat.eqb x k then v else m x.

Definition coro0 : coro := mkCoro Unmade [] BNone RNone.
Definition fut0 : fut := mkFut FNone false.

Definition init (p : nat -> list instr) (m : list instr) : st :=
  mkSt p m (fun _ => coro0) (fun _ => fut0) [] [] false [] CMain [].

(* setters *)
Definition set_cs (s : st) (x : nat -> coro) : st :=
  mkSt (prog s) (mainp s) x (fs s) (made s) (queue s) (active s) (stack s) (cur s) (log s).
Definition set_fs (s : st) (x : nat -> fut) : st :=
  mkSt (prog s) (mainp s) (cs s) x (made s) (queue s) (active s) (stack s) (cur s) (log s).
Definition set_queue (s : st) (x : list nat) : st :=
  mkSt (prog s) (mainp s) (cs s) (fs s) (made s) x (active s) (stack s) (cur s) (log s).
Definition set_stack (s : st) (x : list kframe) : st :=
  mkSt (prog s) (mainp s) (cs s) (fs s) (made s) (queue s) (active s) x (cur s) (log s).
Definition set_cur (s : st) (x : ctl) : st :=
  mkSt (prog s) (mainp s) (cs s) (fs s) (made s) (queue s) (active s) (stack s) x (log s).
Definition set_active (s : st) (x : bool) : st :=
  mkSt (prog s) (mainp s) (cs s) (fs s) (made s) (queue s) x (stack s) (cur s) (log s).
Definition set_mainp (s : st) (x : list instr) : st :=
  mkSt (prog s) x (cs s) (fs s) (made s) (queue s) (active s) (stack s) (cur s) (log s).
Definition set_made (s : st) (x : list nat) : st :=
  mkSt (prog s) (mainp s) (cs s) (fs s) x (queue s) (active s) (stack s) (cur s) (log s).
Definition ev (s : st) (e : event) : st :=
  mkSt (prog s) (mainp s) (cs s) (fs s) (made s) (queue s) (active s) (stack s) (cur s) (e :: log s).

Definition set_coro (s : st) (c : nat) (x : coro) : st := set_cs s (upd (cs s) c x).
Definition set_script (s : st) (c : nat) (l : list instr) : st :=
  let k := cs s c in set_coro s c (mkCoro (stat k) l (bound k) (result k)).
Definition set_started (s : st) (c : nat) (b : binding) : st :=
  let k := cs s c in ev (set_coro s c (mkCoro Started (script k) b (result k))) (EBind c b).

(* transfer control into coroutine c (symmetric transfer or h.resume()) *)
Definition run_c (s : st) (c : nat) : st := set_cur (ev s (ERun c)) (CRun c).

(* push_back on the ready queue *)
Definition enq (s : st) (c by_ : nat) (why : Z) : st := ev (set_queue s (queue s ++ [c])) (EEnq c by_ why).
Fixpoint enq_all (s : st) (l : list nat) (by_ : nat) (why : Z) : st :=
  match l with [] => s | c :: t => enq_all (enq s c by_ why) t by_ why end.

(* What happens to a suspend point holding handles hs (in array order), produced by `me`:
   aw=false: destructor -> suspend_now (suspend_point.h:97-99,130-145)
   aw=true : co_await   -> await_ready / await_suspend (suspend_point.h:148-183); only coroutines do this, and a
             running coroutine always has the queue installed (invariant run_active in the proofs). *)
Definition sp_dispose (s : st) (me : nat) (hs : list nat) (aw : bool) : st :=
  match hs with
  | [] => s                                             (* empty(): nothing, no suspension *)
  | _ =>
    if aw then
      let out := last hs 0 in                           (* pop(): last handle, symmetric transfer *)
      let s1 := ev s (ESusp me) in
      let s2 := enq_all s1 (removelast hs) me why_spawait in
      let s3 := enq s2 me me why_self in                (* me is never inside its own suspend point *)
      run_c s3 out
    else if active s then enq_all s hs me why_discard   (* coroutine mode: enqueue, in order *)
    else set_cur (set_stack (set_active s true) (KInst hs :: stack s)) CRet   (* normal mode: install, resume each, flush *)
  end.

(* make c: the coroutine function is called — frame allocated, initial_suspend = suspend_always (async.h:236) *)
Definition make (s : st) (c : nat) : st :=
  ev (set_made (set_coro s c (mkCoro Created (prog s c) BNone RNone)) (made s ++ [c])) (EMk c).

(* start instructions create the coroutine on the fly when it does not exist yet *)
Definition ensure_made (s : st) (c : nat) : st :=
  match stat (cs s c) with Unmade => if Nat.eqb c 0 then s else make s c | _ => s end.

Definition is_created (s : st) (c : nat) : bool :=
  match stat (cs s c) with Created => true | _ => false end.

Definition chain_of (x : fut) : list nat := match fstt x with FPend ch => ch | _ => [] end.

(* the body of c is over with result r: return_value/unhandled_exception store into the bound future
   (async.h:240-245), final_suspend: resolve, destroy the frame, transfer to the LAST handle, the destructor of
   the local suspend point then queues the others (async.h:217-230) *)
Definition finish (s : st) (c : nat) (r : res) : st :=
  let k := cs s c in
  let s1 := ev s (EFin c r) in
  let '(s2, sp) :=
    match bound k with
    | BNone => (s1, [])
    | BFut f => (set_fs s1 (upd (fs s1) f (mkFut (FReady r) (claimed (fs s1 f)))), chain_of (fs s1 f))
    | BParent p => (s1, [p])
    end in
  let s3 := ev (set_coro s2 c (mkCoro Done [] (bound k) r)) (EFree c) in
  match sp with
  | [] => set_cur s3 CRet                               (* noop_coroutine: back to whoever resumed us *)
  | _ => run_c (enq_all s3 (removelast sp) c why_final) (last sp 0)
  end.

Definition bad (s : st) (me : nat) : st := ev s (EBad me).

(* one instruction i executed by me (0 = normal code); the instruction was already removed from the script *)
Definition exec (s : st) (me : nat) (i : instr) : st :=
  match i with
  | IEmit k => ev s (EEmit me k)
  | IPause =>
      if Nat.eqb me 0 then bad s me else
      let s1 := enq (ev s (ESusp me)) me me why_pause in          (* coro_queue.h:214 *)
      match queue s1 with
      | x :: q => run_c (ev (set_queue s1 q) (EDeq x)) x          (* coro_queue.h:215-217 *)
      | [] => set_cur s1 CEnd                                     (* unreachable: we just pushed *)
      end
  | IMake c =>
      match stat (cs s c) with
      | Unmade => if Nat.eqb c 0 then bad s me else make s c
      | _ => bad s me
      end
  | IDrop c =>
      if is_created s c
      then ev (set_coro s c (mkCoro Done [] BNone RNone)) (EFree c)   (* ~async: _h.destroy(), async.h:42-44 *)
      else bad s me
  | IDetach c aw =>
      let s := ensure_made s c in
      if negb (is_created s c) || (aw && Nat.eqb me 0) then bad s me else
      sp_dispose (set_started s c BNone) me [c] aw               (* start_coro, async.h:137-141 *)
  | IStart c f =>
      let s := ensure_made s c in
      if negb (is_created s c) then bad s me else
      match fstt (fs s f) with
      | FNone =>
          (* future(Fn&&): promise<T>{this} claimed by start_promise (async.h:142-146), future pending *)
          let s1 := set_started (set_fs s (upd (fs s) f (mkFut (FPend []) true))) c (BFut f) in
          if active s1
          then run_c (set_stack (ev s1 (ENest me c)) (KNest me :: stack s1)) c          (* async.h:55-56 *)
          else set_cur (set_stack (set_active s1 true) (KInst [c] :: stack s1)) CRet   (* async.h:53-54 *)
      | _ => bad s me
      end
  | IStartP c f aw =>
      let s := ensure_made s c in
      if negb (is_created s c) || (aw && Nat.eqb me 0) then bad s me else
      match fstt (fs s f) with
      | FNone => bad s me
      | _ =>
          if claimed (fs s f)
          then ev s (ERetB me false)                               (* claim failed: async.h:147-149,73 *)
          else
            let s1 := set_fs s (upd (fs s) f (mkFut (fstt (fs s f)) true)) in
            sp_dispose (ev (set_started s1 c (BFut f)) (ERetB me true)) me [c] aw
      end
  | ICoAwait c =>
      if Nat.eqb me 0 then bad s me else
      let s := ensure_made s c in
      if negb (is_created s c) then bad s me else
      (* async.h:104-111: the awaiter's own future is bound, the caller is its only awaiter, transfer into c *)
      let s1 := set_script (set_started s c (BParent me)) me (IGotC c :: script (cs s me)) in
      run_c (ev s1 (ESusp me)) c
  | IMkFut f =>
      match fstt (fs s f) with
      | FNone => set_fs s (upd (fs s) f (mkFut (FPend []) false))
      | _ => bad s me
      end
  | IResolve f r aw =>
      if aw && Nat.eqb me 0 then bad s me else
      match fstt (fs s f) with
      | FNone => bad s me
      | _ =>
          if claimed (fs s f) then ev s (ERetB me false)           (* future.h:645,650 *)
          else
            let ch := chain_of (fs s f) in
            let s1 := set_fs s (upd (fs s) f (mkFut (FReady r) true)) in   (* set, resolve: future.h:647-648 *)
            sp_dispose (ev (ev s1 (ESet me f r)) (ERetB me true)) me ch aw   (* resume_chain_lk order = chain order *)
      end
  | IAwait f =>
      if Nat.eqb me 0 then bad s me else
      match fstt (fs s f) with
      | FNone => bad s me
      | FReady r => ev s (EGot me (2 * f) r)                       (* await_ready true *)
      | FPend ch =>
          let s1 := set_fs s (upd (fs s) f (mkFut (FPend (me :: ch)) (claimed (fs s f)))) in
          set_cur (ev (set_script s1 me (IGotF f :: script (cs s1 me))) (ESusp me)) CRet   (* await_suspend -> true *)
      end
  | IRet v => if Nat.eqb me 0 then bad s me else finish s me (RVal v)
  | IThrow e => if Nat.eqb me 0 then bad s me else finish s me (RExc e)
  | IGotF f =>
      match fstt (fs s f) with
      | FReady r => ev s (EGot me (2 * f) r)
      | _ => bad s me
      end
  | IGotC c => ev s (EGot me (2 * c + 1) (result (cs s c)))
  | IBad => bad s me
  end.

Definition count_stat (s : st) (started : bool) : nat :=
  length (filter (fun c => match stat (cs s c) with
                           | Started => started | Created => negb started | _ => false end) (made s)).

(* the current resume() activation returned: look at the C++ stack *)
Definition step_ret (s : st) : st :=
  match stack s with
  | [] => set_cur s CEnd                                           (* unreachable *)
  | KNest r :: rest => set_cur (ev (set_stack s rest) (EBack r)) (CRun r)
  | KInst (h :: hs) :: rest => run_c (set_stack s (KInst hs :: rest)) h
  | KInst [] :: rest =>
      match queue s with
      | x :: q => run_c (ev (set_queue s q) (EDeq x)) x            (* flush_queue, coro_queue.h:63-70 *)
      | [] =>                                                      (* trailer: instance = prev (= nullptr) *)
          let s1 := set_cur (set_stack (set_active s false) rest) CMain in
          ev s1 (EIdle (active s1) (length (queue s1)))
      end
  end.

Definition idle_if_main (s : st) : st :=
  match cur s with CMain => ev s (EIdle (active s) (length (queue s))) | _ => s end.

Definition step (s : st) : st :=
  match cur s with
  | CEnd => s
  | CRet => step_ret s
  | CMain =>
      match mainp s with
      | [] => set_cur (ev s (EEnd (count_stat s true) (count_stat s false))) CEnd
      | i :: rest => idle_if_main (exec (set_mainp s rest) 0 i)
      end
  | CRun c =>
      match script (cs s c) with
      | [] => finish s c (RVal 0)                                  (* falling off the end = co_return 0 *)
      | i :: rest => exec (set_script s c rest) c i
      end
  end.

Fixpoint steps (n : nat) (s : st) : st :=
  match n with O => s | S m => steps m (step s) end.

Definition trace (s : st) : list event := rev (log s).

(* ---------- wire format ---------- *)
Local Open Scope Z_scope.
Definition n (z : Z) : nat := Z.to_nat z.
Definition zb (z : Z) : bool := negb (z =? 0).

Definition dec_res (k v : Z) : res := if k =? 0 then RVal v else if k =? 1 then RExc v else RNone.

(* a line is  owner opcode args..  (owner 0 = main script, c>=1 = script of coroutine c) *)
Definition decode_instr (l : list Z) : instr :=
  match l with
  | [1; k] => IEmit k
  | [2] => IPause
  | [3; c] => IMake (n c)
  | [4; c] => IDrop (n c)
  | [5; c; aw] => IDetach (n c) (zb aw)
  | [6; c; f] => IStart (n c) (n f)
  | [7; c; f; aw] => IStartP (n c) (n f) (zb aw)
  | [8; c] => ICoAwait (n c)
  | [9; f] => IMkFut (n f)
  | [10; f; k; v; aw] => IResolve (n f) (dec_res k v) (zb aw)
  | [11; f] => IAwait (n f)
  | [12; v] => IRet v
  | [13; e] => IThrow e
  | _ => IBad
  end.

Definition owner_of (l : list Z) : nat := match l with o :: _ => n o | [] => O end.

Definition script_of (ops : list (list Z)) (c : nat) : list instr :=
  map (fun l => decode_instr (tl l)) (filter (fun l => Nat.eqb (owner_of l) c) ops).

Definition load (ops : list (list Z)) : st := init (script_of ops) (script_of ops O).

Definition zn (x : nat) : Z := Z.of_nat x.
Definition enc_res (r : res) : list Z :=
  match r with RVal v => [0; v] | RExc e => [1; e] | RNone => [2; 0] end.

Definition encode_event (e : event) : list Z :=
  match e with
  | ERun c => [1; zn c]
  | ESusp c => [2; zn c]
  | EFin c r => 3 :: zn c :: enc_res r
  | EEmit w k => [4; zn w; k]
  | EEnq c b w => [5; zn c; zn b; w]
  | EDeq c => [6; zn c]
  | EIdle a q => [7; b2z a; zn q]
  | EBad w => [8; zn w]
  | EMk c => [9; zn c]
  | EFree c => [10; zn c]
  | EGot w x r => 11 :: zn w :: zn x :: enc_res r
  | EBind c BNone => [16; zn c; 0; 0]
  | EBind c (BFut f) => [16; zn c; 1; zn f]
  | EBind c (BParent p) => [16; zn c; 2; zn p]
  | ESet w f r => 17 :: zn w :: zn f :: enc_res r
  | ERetB w b => [12; zn w; b2z b]
  | EBack r => [13; zn r]
  | EEnd a b => [14; zn a; zn b]
  | ENest r c => [15; zn r; zn c]
  end.

Definition decode_event (l : list Z) : option event :=
  match l with
  | [1; c] => Some (ERun (n c))
  | [2; c] => Some (ESusp (n c))
  | [3; c; k; v] => Some (EFin (n c) (dec_res k v))
  | [4; w; k] => Some (EEmit (n w) k)
  | [5; c; b; w] => Some (EEnq (n c) (n b) w)
  | [6; c] => Some (EDeq (n c))
  | [7; a; q] => Some (EIdle (zb a) (n q))
  | [8; w] => Some (EBad (n w))
  | [9; c] => Some (EMk (n c))
  | [10; c] => Some (EFree (n c))
  | [11; w; x; k; v] => Some (EGot (n w) (n x) (dec_res k v))
  | [16; c; k; x] => Some (EBind (n c) (if k =? 0 then BNone else if k =? 1 then BFut (n x) else BParent (n x)))
  | [17; w; f; k; v] => Some (ESet (n w) (n f) (dec_res k v))
  | [12; w; b] => Some (ERetB (n w) (zb b))
  | [13; r] => Some (EBack (n r))
  | [14; a; b] => Some (EEnd (n a) (n b))
  | [15; r; c] => Some (ENest (n r) (n c))
  | _ => None
  end.

Definition fuel_of (ops : list (list Z)) : nat := (40 * length ops + 200)%nat.

Definition vm_run (ops : list (list Z)) : list (list Z) :=
  map encode_event (trace (steps (fuel_of ops) (load ops))).

(* ====================================================================================================
   Decidable trace properties (run on the IMPLEMENTATION's trace; proved of the model's in CoroVMProofs.v)
   ==================================================================================================== *)
Local Open Scope nat_scope.
Fixpoint memn (x : nat) (l : list nat) : bool :=
  match l with [] => false | y :: t => Nat.eqb x y || memn x t end.
Fixpoint remn (x : nat) (l : list nat) : list nat :=
  match l with [] => [] | y :: t => if Nat.eqb x y then t else y :: remn x t end.

(* ---- C05 ----
   oq      : ready queue reconstructed from EEnq/EDeq
   orun    : coroutines that got ERun and neither ESusp nor EFin since (the running one + those inside start())
   ofin    : finished
   oblig   : (c, r): c was queued by running coroutine r through a DISCARDED suspend point and r has not
             suspended/finished since — c must not run
   opause  : (r, l): r paused when the queue held l; everybody in l must run before r does
   odeq    : the previous event was EDeq c (then this one must be ERun c) *)
Record ost := mkO { oq : list nat; orun : list nat; ofin : list nat; oblig : list (nat * nat);
                    opause : list (nat * list nat);
                    odeq : option (nat * bool);   (* previous event was EDeq c; the flag: that dequeue was done by a pause *)
                    onest : list nat;              (* coroutines inside async::start() (ENest without EBack) *)
                    ostamp : list (nat * nat);     (* coroutine -> time of its last ESusp (subscription order) *)
                    otime : nat;
                    ogrp : list nat;               (* handles of ONE suspend point queued by the immediately preceding events *)
                    opz : bool }.                  (* previous event was the self-enqueue of a pause *)
Definition ost0 : ost := mkO [] [] [] [] [] None [] [] 0 [] false.

Definition drop_waker (r : nat) (l : list (nat * nat)) : list (nat * nat) :=
  filter (fun p => negb (Nat.eqb (snd p) r)) l.
Definition drop_target (c : nat) (l : list (nat * nat)) : list (nat * nat) :=
  filter (fun p => negb (Nat.eqb (fst p) c)) l.
Definition has_target (c : nat) (l : list (nat * nat)) : bool := existsb (fun p => Nat.eqb (fst p) c) l.

Fixpoint assoc {A} (k : nat) (l : list (nat * A)) : option A :=
  match l with [] => None | (k', v) :: t => if Nat.eqb k k' then Some v else assoc k t end.
Definition stamp_of (o : ost) (c : nat) : nat := match assoc c (ostamp o) with Some t => S t | None => 0 end.

(* pause obligations when c runs: r = c must have nothing left; the others tick c off *)
Fixpoint pause_run (c : nat) (l : list (nat * list nat)) : option (list (nat * list nat)) :=
  match l with
  | [] => Some []
  | (r, rem) :: t =>
      match pause_run c t with
      | None => None
      | Some t' => if Nat.eqb r c then (match rem with [] => Some t' | _ => None end)
                   else Some ((r, remn c rem) :: t')
      end
  end.

(* handles leave a suspend point youngest subscription first; the one resumed directly is the oldest *)
Definition older_than_group (o : ost) (c : nat) : bool :=
  match rev (ogrp o) with [] => true | l :: _ => Nat.ltb (stamp_of o c) (stamp_of o l) end.

(* lenient = true (used only to CLASSIFY a failure as the known finding): a coroutine c queued by r through a discarded
   suspend point may run before r suspended ONLY IF r is at that moment blocked inside async::start() AND c was taken from the
   queue by a `pause` executed inside that nested activation — the only way the real library can get there.  Any other early
   run (e.g. a finishing nested child jumping into the queue) is a violation in both modes. *)
Definition ostep (lenient : bool) (o0 : ost) (e : event) : option ost :=
  let follows := match odeq o0 with
                 | Some (c, _) => match e with ERun c' => Nat.eqb c c' | _ => false end
                 | None => true end in
  if negb follows then None else
  let bypause := match odeq o0 with Some (_, b) => b | None => false end in
  let o := mkO (oq o0) (orun o0) (ofin o0) (oblig o0) (opause o0) None (onest o0) (ostamp o0) (otime o0) [] false in
  match e with
  | ERun c =>
      if memn c (orun o) || memn c (ofin o) || memn c (oq o) then None else
      let early_ok := lenient && bypause &&
                      forallb (fun p => negb (Nat.eqb (fst p) c) || memn (snd p) (onest o)) (oblig o) in
      if has_target c (oblig o) && negb early_ok then None else
      (* nobody else may be running, except callers blocked inside async::start() *)
      if negb (forallb (fun r => memn r (onest o)) (orun o)) then None else
      if negb (older_than_group o0 c) then None else
      match pause_run c (opause o) with
      | None => None
      | Some p => Some (mkO (oq o) (c :: orun o) (ofin o) (drop_target c (oblig o)) p None (onest o) (ostamp o) (otime o) [] false)
      end
  | ESusp c =>
      if memn c (orun o)
      then Some (mkO (oq o) (remn c (orun o)) (ofin o) (drop_waker c (oblig o)) (opause o) None (onest o)
                     ((c, otime o) :: ostamp o) (S (otime o)) [] false)
      else None
  | EFin c _ =>
      if memn c (orun o)
      then Some (mkO (oq o) (remn c (orun o)) (c :: ofin o) (drop_waker c (oblig o)) (opause o) None (onest o)
                     (ostamp o) (otime o) [] false)
      else None
  | EFree _ => Some (mkO (oq o) (orun o) (ofin o) (oblig o) (opause o) None (onest o) (ostamp o) (otime o) (ogrp o0) false)
  | EEnq c r why =>
      if memn c (oq o) || memn c (orun o) || memn c (ofin o) then None else
      let ob := if Z.eqb why why_discard && negb (Nat.eqb r 0) then (c, r) :: oblig o else oblig o in
      let pa := if Z.eqb why why_pause then (c, oq o) :: opause o else opause o in
      let grouped := Z.eqb why why_discard || Z.eqb why why_spawait || Z.eqb why why_final in
      if grouped && negb (older_than_group o0 c) then None else
      Some (mkO (oq o ++ [c]) (orun o) (ofin o) ob pa None (onest o) (ostamp o) (otime o)
                (if grouped then ogrp o0 ++ [c] else ogrp o0) (Z.eqb why why_pause))
  | EDeq c =>
      match oq o with
      | x :: q => if Nat.eqb x c
                  then Some (mkO q (orun o) (ofin o) (oblig o) (opause o) (Some (c, opz o0)) (onest o) (ostamp o) (otime o) [] false)
                  else None
      | [] => None
      end
  | EIdle a q =>
      if a || negb (Nat.eqb q 0) then None else
      match oq o, orun o with [], [] => Some o | _, _ => None end
  | EEnd _ _ => match oq o with [] => Some o | _ => None end
  | ENest r _ =>
      Some (mkO (oq o) (orun o) (ofin o) (oblig o) (opause o) None (r :: onest o) (ostamp o) (otime o) [] false)
  | EBack r => Some (mkO (oq o) (orun o) (ofin o) (oblig o) (opause o) None (remn r (onest o)) (ostamp o) (otime o) [] false)
  | _ => Some o
  end.

Fixpoint orun_all (lenient : bool) (o : ost) (t : list event) : bool :=
  match t with
  | [] => match odeq o with None => true | Some _ => false end
  | e :: t' => match ostep lenient o e with Some o' => orun_all lenient o' t' | None => false end
  end.

Definition c05_ok (lenient : bool) (t : list event) : bool := orun_all lenient ost0 t.

(* ---- C04 ----
   cmk / cfree / cfin : made, freed, finished coroutines;  cbind : bindings seen;  cres : results of finished bodies
   fres : what each future holds (written by a promise call or by the coroutine bound to it) *)
Record cst := mkC { cmk : list nat; cfree : list nat; cfin : list nat; cbind : list (nat * binding);
                    cres : list (nat * res); fres : list (nat * res) }.
Definition cst0 : cst := mkC [] [] [] [] [] [].

Definition res_eqb (a b : res) : bool :=
  match a, b with
  | RVal x, RVal y => Z.eqb x y
  | RExc x, RExc y => Z.eqb x y
  | RNone, RNone => true
  | _, _ => false
  end.

Definition cstep (o : cst) (e : event) : option cst :=
  match e with
  | EMk c => if memn c (cmk o) then None else Some (mkC (c :: cmk o) (cfree o) (cfin o) (cbind o) (cres o) (fres o))
  | EFree c =>
      if negb (memn c (cmk o)) || memn c (cfree o) then None else
      (* a started coroutine's frame goes away only after its body finished *)
      match assoc c (cbind o) with
      | Some _ => if memn c (cfin o) then Some (mkC (cmk o) (c :: cfree o) (cfin o) (cbind o) (cres o) (fres o)) else None
      | None => Some (mkC (cmk o) (c :: cfree o) (cfin o) (cbind o) (cres o) (fres o))
      end
  | EBind c b =>
      if negb (memn c (cmk o)) || memn c (cfree o) then None else
      match assoc c (cbind o) with
      | Some _ => None
      | None => Some (mkC (cmk o) (cfree o) (cfin o) ((c, b) :: cbind o) (cres o) (fres o))
      end
  | ERun c =>
      if memn c (cfree o) || memn c (cfin o) then None else
      match assoc c (cbind o) with Some _ => Some o | None => None end        (* never runs unstarted *)
  | EFin c r =>
      if memn c (cfin o) || memn c (cfree o) then None else
      match assoc c (cbind o) with
      | None => None
      | Some (BFut f) =>
          match assoc f (fres o) with
          | Some _ => None                                                     (* the bound future is written once *)
          | None => Some (mkC (cmk o) (cfree o) (c :: cfin o) (cbind o) ((c, r) :: cres o) ((f, r) :: fres o))
          end
      | Some _ => Some (mkC (cmk o) (cfree o) (c :: cfin o) (cbind o) ((c, r) :: cres o) (fres o))
      end
  | ESet _ f r =>
      match assoc f (fres o) with
      | Some _ => None
      | None => Some (mkC (cmk o) (cfree o) (cfin o) (cbind o) (cres o) ((f, r) :: fres o))
      end
  | EGot w src r =>
      if Nat.even src then
        match assoc (Nat.div2 src) (fres o) with Some r' => if res_eqb r r' then Some o else None | None => None end
      else
        let c := Nat.div2 src in
        match assoc c (cres o), assoc c (cbind o) with
        | Some r', Some (BParent p) => if res_eqb r r' && Nat.eqb p w then Some o else None
        | _, _ => None
        end
  | EEnd stuck unstarted =>
      (* complete run: every started coroutine finished and was freed; the unstarted ones are exactly the live frames *)
      if Nat.eqb stuck 0 then
        if forallb (fun p => memn (fst p) (cfin o) && memn (fst p) (cfree o)) (cbind o)
           && Nat.eqb (length (cmk o)) (length (cfree o) + unstarted)
        then Some o else None
      else Some o
  | _ => Some o
  end.

Fixpoint crun_all (o : cst) (t : list event) : bool :=
  match t with [] => true | e :: t' => match cstep o e with Some o' => crun_all o' t' | None => false end end.

Definition c04_ok (t : list event) : bool := crun_all cst0 t.

(* ---- wire-level oracles ---- *)
Fixpoint decode_all (l : list (list Z)) : option (list event) :=
  match l with
  | [] => Some []
  | x :: t => match decode_event x, decode_all t with Some e, Some r => Some (e :: r) | _, _ => None end
  end.

Definition ends_with_end (t : list event) : bool := match rev t with EEnd _ _ :: _ => true | _ => false end.

Definition vm_oracle (which : nat) (ops obs : list (list Z)) : bool :=
  match decode_all obs with
  | None => false
  | Some t =>
      ends_with_end t &&
      match which with
      | 0 => c05_ok false t
      | 1 => c05_ok true t
      | _ => c04_ok t
      end
  end.
