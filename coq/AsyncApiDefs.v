(* AsyncApiDefs.v — tiny reference model for the direct async<T> API scenarios of C04 that the scripted VM does not cover:
   join() with result types that own heap memory, and with_allocator<> frames of free / member / lambda coroutines.
   One op = one self-contained scenario; the observation is what a correct library must show. *)
From Cocls Require Import Base.
Local Open Scope Z_scope.

(* op [1; kind; susp; v]   join(): kind 0 int | 1 std::string (40 chars) | 2 std::vector<int> (20 elems) | 3 unique_ptr<int> | 4 void
                           susp 0: the body returns at once, 1: after co_await pause(), 2: after awaiting a future resolved by another coroutine
      obs [0; checksum of the value the joiner received]
   op [2; how; npar; start; a]   with_allocator<S, async<long>> coroutine, how 0 free function | 1 member function | 2 lambda,
                           npar 1..4 long parameters all equal a, start 0 join | 1 detach | 2 destroyed unstarted | 3 co_await from a free coroutine
      obs [0; frames allocated; frames deallocated; deallocations whose size differs from the allocation; result] *)
Definition chk (kind v : Z) : Z :=
  if kind =? 0 then v
  else if kind =? 1 then 40 * (97 + v mod 26)
  else if kind =? 2 then 20 * v
  else if kind =? 3 then v
  else 0.

Definition api_step (l : list Z) : list Z :=
  match l with
  | [1; kind; susp; v] =>
      if (0 <=? kind) && (kind <=? 4) && (0 <=? susp) && (susp <=? 2) then [0; chk kind v] else [1]
  | [2; how; npar; start; a] =>
      if (0 <=? how) && (how <=? 2) && (1 <=? npar) && (npar <=? 4) && (0 <=? start) && (start <=? 3) then
        let base := if how =? 1 then 100 else 0 in
        let res := if start =? 1 then 0 else if start =? 2 then 0 else base + npar * a in
        let frames := if start =? 3 then 2 else 1 in
        [0; frames; frames; 0; res]
      else [1]
  | [3; depth] =>
      (* co_await chain of the given depth started by join(): the innermost returns 0, every level adds 1; depth+1 bodies ran *)
      if (0 <=? depth) && (depth <=? 1000000) then [0; depth; depth + 1] else [1]
  | [4; kind; thr; v] =>
      (* a coroutine co_awaits an async<T> that throws (thr=1): it must see the exception (1000+v), else the value; it continues once *)
      if (0 <=? kind) && (kind <=? 4) && (0 <=? thr) && (thr <=? 1) then [0; (if thr =? 1 then 1000 + v else 0); 1] else [1]
  | [5; threads; v] =>
      (* thread_pool(threads).run(waiter) then run(setter): the waiter suspends on a future the setter resolves; result v+1, body once *)
      if (1 <=? threads) && (threads <=? 3) then [0; v + 1; 1] else [1]
  | [6; susp; v] =>
      (* self-owned operation: the coroutine frame (a shared_ptr argument) is the only owner of the state holding the future it was
         started on with start(promise); a callback awaiter is subscribed: it is called once and reads v (resolve before destroy) *)
      if (0 <=? susp) && (susp <=? 1) then [0; v; 1] else [1]
  | [7; mode; susp; v] =>
      (* result type whose constructor throws for v < 0 while `co_return v` builds it inside the bound future: the bound party
         receives that exception (1000 + |v|), in every start mode 0 join | 1 start() | 2 start(promise) | 3 future ctor | 4 co_await *)
      if (0 <=? mode) && (mode <=? 4) && (0 <=? susp) && (susp <=? 1) then [0; (if v <? 0 then 1000 - v else v)] else [1]
  | [8; mode; kind; code] =>
      (* the body ends with an exception derived from await_canceled_exception (kind 0: 3000 + code) or with await_canceled_exception
         itself from an unhandled co_await on a dropped promise (kind 1: 2000 = the future HOLDS that exception) *)
      if (0 <=? mode) && (mode <=? 4) && (0 <=? kind) && (kind <=? 1) then [0; (if kind =? 0 then 3000 + code else 2000)] else [1]
  | _ => [1]
  end.

Definition api_run (ops : list (list Z)) : list (list Z) := map api_step ops.

(* the property on an observed line: the bound party received exactly the result (value or exception), every body ran once,
   frames allocated = deallocated with matching sizes *)
Definition api_ok (op o : list Z) : bool :=
  match op, o with
  | [1; kind; _; v], [0; c] => c =? chk kind v
  | [2; _; _; _; _], [0; a; d; bad; _] => (a =? d) && (bad =? 0)
  | [3; depth], [0; r; levels] => (r =? depth) && (levels =? depth + 1)
  | [4; _; thr; v], [0; r; after] => (r =? (if thr =? 1 then 1000 + v else 0)) && (after =? 1)
  | [5; _; v], [0; r; ran] => (r =? v + 1) && (ran =? 1)
  | [6; _; v], [0; seen; calls] => (seen =? v) && (calls =? 1)
  | [7; _; _; v], [0; r] => r =? (if v <? 0 then 1000 - v else v)
  | [8; _; kind; code], [0; r] => r =? (if kind =? 0 then 3000 + code else 2000)
  | _, [1] => true
  | _, _ => false
  end.
Fixpoint api_all (ops obs : list (list Z)) : bool :=
  match ops, obs with
  | [], [] => true
  | a :: t, b :: u => api_ok a b && api_all t u
  | _, _ => false
  end.
Definition api_oracle (ops obs : list (list Z)) : bool := api_all ops obs.
