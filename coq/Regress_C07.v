(* Regress_C07.v — regression witness for defect F-C07 (repaired by /repo commit 2b1c999).
   `tstep_old` is the model step with mutex::subscribe as it was before the repair: after the publishing CAS
   the subscriber read aw->_next and took null for "the mutex was free".  An owner that hands the mutex over
   in between clears that very field (mutex.h:174), so the coroutine is resumed by the hand-over AND continues
   as if it had found the mutex free: it executes on two OS threads at once and enters the critical section
   twice for one lock request.  With the repaired step (MutexDefs.tstep) this state is unreachable
   (Properties_C07: c07_grant_once, c07_not_while_suspending). *)
From Cocls Require Import Base MutexDefs.
Local Open Scope Z_scope.

Definition tstep_old (s : st) (t : nat) : st :=
  match run (gthr s t) with
  | TIdle => s
  | TSusp c =>
      (* old mutex.h:191-194: aw->subscribe(_requests); if (aw->_next == nullptr) { build_queue(aw); return false; } *)
      match gnext s c with
      | PNull => set_run (enter (set_pc (build_queue s (PNode c)) c PCs) c) t (TRun c)
      | _ => yield s t
      end
  | TRun c =>
      match tpc (gtask s c) with
      | PPubW => match gnext s c with PNull => set_pc s c PBqS | _ => set_pc s c PFlag end
      | _ => fst (fst (tstep s t))
      end
  end.

Definition run_old (ops : list (list Z)) (threads : list nat) : st := fold_left tstep_old threads (init ops).

(* two coroutines, one lock round each; thread 1 is paused between its publishing CAS and the read of _next
   while thread 0 releases, hands over and (its own coroutine finished) runs coroutine 1 from its ready queue *)
Theorem c07_old_code_double_resume :
  let s := run_old [[1;0;0;0]; [1;0;0;0]] [0;0; 1;1;1;1; 0;0;0;0;0; 1]%nat in
  run (gthr s 0) = TRun 1%nat /\ run (gthr s 1) = TRun 1%nat /\      (* coroutine 1 executes on both threads *)
  nent (gtask s 1) = 2%nat /\ length (prog (gtask s 1)) = 0%nat /\   (* two entries for its single lock request *)
  ovl s = true /\ elog s = [(6, 0); (5, 1); (4, 0); (6, 1); (6, 1)]%nat.   (* the overlap detector fires: two entries of 1 *)
Proof. vm_compute. repeat split. Qed.
Print Assumptions c07_old_code_double_resume.

(* the same thread choices on the repaired step: one entry each, no overlap, mutex handed over once *)
Example c07_repaired_same_schedule :
  let s := fold_left (fun s t => fst (fst (tstep s t))) [0;0; 1;1;1;1; 0;0;0;0;0; 1]%nat (init [[1;0;0;0]; [1;0;0;0]]) in
  run (gthr s 1) = TIdle /\ nent (gtask s 1) = 1%nat /\ ovl s = false /\ elog s = [(6, 0); (5, 1); (4, 0); (6, 1)]%nat.
Proof. vm_compute. repeat split. Qed.
