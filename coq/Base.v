(* Base.v — shared definitions for all cocls models.
   Observations and operations cross the Coq/OCaml/C++ boundary as lists of Z. *)
From Coq Require Export List ZArith NArith Arith Lia Bool Permutation.
Export ListNotations.

(* functional list update; out-of-range index extends nothing (identity) *)
Fixpoint set_nth {A} (l : list A) (i : nat) (x : A) : list A :=
  match l, i with
  | [], _ => []
  | _ :: t, O => x :: t
  | h :: t, S j => h :: set_nth t j x
  end.

(* grow a list of options so that index i exists *)
Fixpoint ensure {A} (l : list (option A)) (i : nat) : list (option A) :=
  match i, l with
  | O, [] => [None]
  | O, _ => l
  | S j, [] => None :: ensure [] j
  | S j, h :: t => h :: ensure t j
  end.

Definition get {A} (l : list (option A)) (i : nat) : option A :=
  match nth_error l i with Some (Some x) => Some x | _ => None end.

Definition put {A} (l : list (option A)) (i : nat) (x : option A) : list (option A) :=
  set_nth (ensure l i) i x.

Definition zlen {A} (l : list A) : Z := Z.of_nat (length l).

Definition b2z (b : bool) : Z := if b then 1%Z else 0%Z.

(* remove first occurrence *)
Fixpoint remove1 (x : Z) (l : list Z) : list Z :=
  match l with
  | [] => []
  | y :: t => if Z.eqb x y then t else y :: remove1 x t
  end.

Fixpoint memz (x : Z) (l : list Z) : bool :=
  match l with [] => false | y :: t => Z.eqb x y || memz x t end.

Fixpoint count_z (x : Z) (l : list Z) : nat :=
  match l with [] => 0 | y :: t => (if Z.eqb x y then 1 else 0) + count_z x t end.

(* multiset equality on lists of Z, decidable form used by oracles *)
Fixpoint perm_b (a b : list Z) : bool :=
  match a with
  | [] => match b with [] => true | _ => false end
  | x :: t => memz x b && perm_b t (remove1 x b)
  end.

Fixpoint nodup_b (l : list Z) : bool :=
  match l with [] => true | x :: t => negb (memz x t) && nodup_b t end.
