(* AdaptersLog.v — the event log has exactly the shape the counters dictate (step lemma; depends on AdaptersInv only,
   so it builds in parallel with the AdaptersStep files) *)
From Cocls Require Import Base BaseProofs AdaptersDefs AdaptersInv.
Require Import ZifyBool.
Local Open Scope nat_scope.


Lemma loginv_init c : LogInv c (init c).
Proof. exists 0, 0, 0, 0. cbn. rewrite andb_false_r. reflexivity. Qed.

Lemma loginv_step c s i : Inv c s -> LogInv c s -> enabled s i = true -> LogInv c (fst (tstep c s i)).
Proof.
  intros I (t1 & t2 & t3 & t4 & L) E. unfold tstep, enabled in *.
  destruct I as [I1 I2 I3 I4 I5 I6 I7 I8 I9 I10 I11 I12 Itok Iph IphB Iowc Ip4 Irp Ioht Iocc I13 Ioh Iop0 Idec Iow0 Iow1 Iow2 I14 I15 I16 I17 I18 I19 I20 I21 I22 I23 I24 I25 I26 I27 I28 I29 I30 I31 I32 I33 I34 I35 Jcfg J1 J2 J3 J20 J21 J4 J5 J6 J7 Jx0 Jx1 Jx2 Jxc].
  clear I1 I3 I5 I7 I8 I21 I22 I23 I24 I25 I26 I27 I28 I29 I30 I31 I32 I33 I34 I35 Iowc Ip4 Irp Ioht Iocc Iow0 Iow1 Iow2 Iop0 Idec Ioh I13 J1 J3 J21 J5 J7 Jx0 Jx1 Jx2 Jxc.
  unfold N, expected in *.
  assert (CV : cv c <= 1) by (unfold cv, b2n; destruct (is_conv c); lia).
  assert (NF1 : nfire s <= 1) by (destruct (slot s); cbn [rdy] in I6; lia).
  assert (CVN : cv c * nfire s <= nfire s) by (unfold cv, b2n; destruct (is_conv c); lia).
  assert (CVN2 : cv c * nfire s <= cv c) by (unfold cv, b2n; destruct (is_conv c); lia).
  assert (RE1 : re c <= 1) by (unfold re; destruct (c_re c); lia).
  assert (REN : re c * nfire s <= nfire s) by (unfold re; destruct (c_re c); lia).
  assert (REN2 : re c * nfire s <= re c) by (unfold re; destruct (c_re c); lia).
  unfold LogInv, expected.
  destruct i as [|[|[|i]]]; cbn [thr] in *; [| | |discriminate].
  all: dth s.
  all: destruct ins; unfold exec, fire, fire2, deliver.
  all: red1; dflags s; red1.
  all: try (exists t1, t2, t3, t4; exact L).
  all: redch.
  (* a successful claim changes a payload, but nothing of that operation has been logged yet *)
  all: try (specialize (I20 eq_refl); rewrite I20 in *; cbn [isv] in *;
            assert (NF : nfire s = 0) by lia; assert (NC : nconv s = 0) by lia; assert (ND : ndeliv s = 0) by lia;
            assert (NF2 : nfire2 s = 0) by lia;
            rewrite NF, NC, ND, NF2 in *; cbn [Nat.eqb andb app] in *; rewrite andb_false_r in *;
            exists 0, 0, 0, 0; exact L).
  all: try (assert (NF2 : nfire2 s = 0) by (destruct (slot2 s); cbn [rdy] in *; lia); rewrite NF2 in *; cbn [Nat.eqb] in *;
            exists t1, t2, t3, 0; exact L).
  all: try (dpay s; red1; dflags s; red1; redch).
  all: try match goal with g : bool |- _ => destruct g; red1 end.
  all: try (exists t1, t2, t3, t4; exact L).
  (* completions that do not log a callback *)
  all: try (unfold atomic_cb in *; rewrite AD in *; cbn [has_cb andb] in *; exists t1, t2, t3, t4; exact L).
  (* completions with a user callback *)
  all: try (assert (NF : nfire s = 0) by lia; rewrite NF in *; cbn [Nat.eqb andb] in *;
            rewrite Nat.mul_0_r in *; assert (FR : frees s = 0) by lia;
            assert (NF2 : nfire2 s = 0) by lia; rewrite NF2 in *; cbn [Nat.eqb] in *;
            rewrite andb_false_r in L; rewrite andb_true_r;
            exists t1, t2, (S (clk s)), t4; rewrite L; rewrite !app_nil_r; rewrite <- !app_assoc; cbn [app];
            unfold atomic_cb, cb_log, hb; rewrite AD, I9, FR; unfold hb; rewrite AD; reflexivity).
  (* the handler's second run *)
  all: try (assert (R1 : re c = 1) by lia; specialize (Jcfg R1);
            assert (NF2 : nfire2 s = 0) by lia; rewrite NF2 in *; cbn [Nat.eqb] in *;
            unfold hb in *; rewrite Jcfg in *; cbn [has_helper b2n Nat.mul] in *;
            assert (FR : frees s = 0) by lia;
            exists t1, t2, t3, (S (clk s)); rewrite L, I9, FR; rewrite !app_nil_r; rewrite <- !app_assoc; reflexivity).
  (* deliveries and conversions: only the converter adapter has them *)
  all: assert (CV1 : cv c = 1) by lia.
  all: unfold cv, is_conv, atomic_cb in *; destruct (c_ad c) eqn:AD; try discriminate; cbn [has_cb andb b2n Nat.mul] in *.
  all: assert (RE0 : re c = 0) by (unfold re in *; destruct (c_re c); [specialize (Jcfg eq_refl); discriminate Jcfg | reflexivity]).
  all: rewrite RE0 in *; cbn [Nat.mul] in *; assert (NF2 : nfire2 s = 0) by lia; rewrite NF2 in *; cbn [Nat.eqb] in *.
  all: try (assert (ND : ndeliv s = 0) by lia; assert (OP : opayload s = conv_result c (payload s)) by (apply I17; lia);
            rewrite ND, OP in *; cbn [Nat.eqb] in *; exists t1, (S (clk s)), t3, t4; rewrite L, !app_nil_r; reflexivity).
  all: try (assert (NC : nconv s = 0) by (cbn [isv] in I18; lia);
            assert (ND : ndeliv s = 0) by lia;
            rewrite NC, ND in *; cbn [Nat.eqb app] in *; exists (S (clk s)), t2, t3, t4; rewrite L;
            unfold conv_log; cbn [app map]; reflexivity).
Qed.
