(* AggrDefs.v — executable model of cocls::generator_aggregator (generator_aggregator.h) over scripted source
   generators (the body semantics `exec` of GenDefs.v).  Model only; proofs are in AggrProofs.v.

   The aggregate is itself a generator<T,Arg>; how its consumer asks (next / iterator / call / co_await) is the
   subject of C13 and is abstracted here to "one access with argument a" (the style only decides which form the
   end-of-sequence answer takes, as proved in GenProofs).  What is transcribed here is the aggregator coroutine:
   GenCallback (l.19-42), the controller with its destructor (l.53-72), the start-up loop (l.98-110) and the main
   loop (l.111-131).  Pending awaits inside the sources are completed by explicit ops = the completion schedule. *)
From Cocls Require Import Base GenDefs.
Local Open Scope Z_scope.

(* one source generator: coroutine frame + the promise fields the aggregator reads *)
Record src := mkSrc {
  s_pc : list instr; s_gds : list Z; s_cur : Z; s_arg : Z; s_bst : bstat;
  s_ret : option Z; s_exn : option Z; s_done : bool
}.

Definition src0 (sc : list instr) : src := mkSrc sc [] 0 0 BInit None None false.

(* events carry the source index *)
Definition sevent := (nat * event)%type.

(* the source ran until `st`; returns the new source and whether its GenCallback was resumed (= it pushes itself) *)
Definition src_after (s : src) (r : stop * list instr * list Z * Z * list event) : src * bool * list event :=
  let '(st, p, g, c, ev) := r in
  match st with
  | SYield v => (mkSrc p g c (s_arg s) BYield (Some v) (s_exn s) (s_done s), true, ev)
  | SPend k => (mkSrc p g c (s_arg s) (BPend k) (s_ret s) (s_exn s) (s_done s), false, ev)
  | SThrow e => (mkSrc p g c (s_arg s) BFinal None (Some e) (s_done s), true, ev)
  | SRet => (mkSrc p g c (s_arg s) BFinal None (s_exn s) true, true, ev)
  end.

(* GenCallback::charge(arg): _gen.next(arg).subscribe(this) = next_async(this).resume(), l.33-35 *)
Definition charge (s : src) (a : Z) : option (src * bool * list event) :=
  match s_bst s with
  | BInit => let s1 := mkSrc (s_pc s) (s_gds s) (s_cur s) a BInit (s_ret s) (s_exn s) (s_done s) in
             Some (src_after s1 (exec (s_pc s) (s_gds s) (s_cur s) a))
  | BYield => let s1 := mkSrc (s_pc s) (s_gds s) a a BYield (s_ret s) (s_exn s) (s_done s) in
              let '(s2, b, ev) := src_after s1 (exec (s_pc s) (s_gds s) a a) in Some (s2, b, EArg a :: ev)
  | _ => None        (* next_async on a finished source throws; on a suspended one it is a misuse *)
  end.

(* the awaited future of a suspended source is resolved with v *)
Definition complete_src (s : src) (v : Z) : option (src * bool * list event) :=
  match s_bst s with
  | BPend _ => let '(s2, b, ev) := src_after s (exec (s_pc s) (s_gds s) (s_cur s) (s_arg s)) in Some (s2, b, EAw v :: ev)
  | _ => None
  end.

Inductive astat :=
| ANew                (* sources are being defined *)
| AInit               (* aggregate built, coroutine not started *)
| AYield (i : nat)    (* parked at co_yield g.value() of source i, l.120/123 *)
| AWait               (* suspended in co_await queue.pop(), l.112 *)
| AFinal
| ADying              (* ~controller is blocked in _queue.pop().wait(), l.62 *)
| ADead.

Record agg := mkAgg {
  srcs : list src;
  queue : list nat;         (* completion queue: sources whose GenCallback fired, FIFO *)
  count : nat;              (* controller::_count *)
  aexp : option Z;          (* the remembered exception, l.96 *)
  ast : astat;
  aret : option Z; aexn : option Z; adone : bool;     (* the aggregate's own promise: _ret, _exp, _done *)
  aout : option Z;          (* style of the outstanding access *)
  aerr : bool
}.

Definition agg0 : agg := mkAgg [] [] 0 None ANew None None false None false.

Definition set_src (l : list src) (i : nat) (s : src) : list src := set_nth l i s.
Definition get_src (l : list src) (i : nat) : src := nth i l (src0 []).

Inductive outcome := OYield (i : nat) (v : Z) | OWait | OThrow (e : Z) | ORet.

(* the main loop, l.111-134, from its head: runs until the aggregate yields, has to wait, or ends.
   Every iteration that does not stop consumes one queue entry, hence the recursion on the queue. *)
Fixpoint agg_loop (l : list src) (q : list nat) (cnt : nat) (exp : option Z) : outcome * list nat * nat * option Z :=
  match cnt with
  | O => (match exp with Some e => OThrow e | None => ORet end, q, cnt, exp)       (* while (cnt) fails; l.133 *)
  | S cnt' =>
    match q with
    | [] => (OWait, [], cnt, exp)                                                   (* co_await queue.pop() suspends *)
    | i :: q' =>
        let s := get_src l i in
        if s_done s then agg_loop l q' cnt' exp                                     (* g.done(): cnt.fin(), l.114-115 *)
        else match s_exn s with
             | Some e => agg_loop l q' cnt' (Some e)                                (* g.value() rethrows: catch, l.126-129 *)
             | None => match s_ret s with
                       | Some v => (OYield i v, q', cnt, exp)                        (* co_yield g.value() *)
                       | None => agg_loop l q' cnt' (Some (-1))                      (* value_not_ready_exception is caught alike *)
                       end
             end
    end
  end.

Definition tag_ev (i : nat) (l : list event) : list sevent := map (fun x => (i, x)) l.

(* charge every source in order with the first argument, l.101-109 (n = sources still to charge, i = next index) *)
Fixpoint charge_from (n i : nat) (a : Z) (l : list src) (q : list nat) (ev : list sevent) (err : bool)
  : list src * list nat * list sevent * bool :=
  match n with
  | O => (l, q, ev, err)
  | S n' =>
      match charge (get_src l i) a with
      | Some (s1, b, e) => charge_from n' (S i) a (set_src l i s1) (if b then q ++ [i] else q) (ev ++ tag_ev i e) err
      | None => charge_from n' (S i) a l q ev true
      end
  end.
Definition charge_all (l : list src) (a : Z) := charge_from (length l) 0 a l [] [] false.

(* The order in which queued completions are popped is not part of C14.  An access / completion op may carry a
   preference list: the queue is rearranged so that the preferred sources come first (in the given order), the
   others keep their order.  With an empty list this is the library's FIFO queue; with the right lists it is any
   other pop order (LIFO, priority ...).  `reorder q p` is always a permutation of q. *)
Fixpoint remove_first (x : nat) (q : list nat) : list nat :=
  match q with
  | [] => []
  | y :: t => if Nat.eqb x y then t else y :: remove_first x t
  end.
Fixpoint mem_nat (x : nat) (q : list nat) : bool :=
  match q with [] => false | y :: t => Nat.eqb x y || mem_nat x t end.
Fixpoint reorder (q : list nat) (p : list nat) : list nat :=
  match p with
  | [] => q
  | x :: p' => if mem_nat x q then x :: reorder (remove_first x q) p' else reorder q p'
  end.

(* the aggregate coroutine reached `o`: what its consumer sees and where it parks *)
Definition apply_outcome (g : agg) (l : list src) (r : outcome * list nat * nat * option Z) (y : Z) : agg * res :=
  let '(o, q, c, x) := r in
  match o with
  | OYield i v => (mkAgg l q c x (AYield i) (Some v) (aexn g) (adone g) None (aerr g), RVal v)
  | OWait => (mkAgg l q c x AWait (aret g) (aexn g) (adone g) (Some y) (aerr g), RPend)
  | OThrow e => (mkAgg l q c x AFinal None (Some e) (adone g) None (aerr g), RExc e)
  | ORet => (mkAgg l q c x AFinal None (aexn g) true None (aerr g), REndF)
  end.

(* frames of the sources are destroyed in vector order; each destroys its live locals youngest first *)
Fixpoint destroy_srcs (l : list src) (i : nat) : list sevent :=
  match l with
  | [] => []
  | s :: t => tag_ev i (map EDtor (s_gds s)) ++ destroy_srcs t (S i)
  end.

(* ~controller, l.57-66: pop one completion per active source but one.  Returns the remaining count and queue and
   whether it has to block. *)
Fixpoint drain (q : list nat) (cnt : nat) : list nat * nat * bool :=
  match cnt with
  | O => (q, cnt, false)
  | S O => (q, cnt, false)
  | S cnt' => match q with
              | [] => (q, cnt, true)
              | _ :: q' => drain q' cnt'
              end
  end.

Inductive op :=
| OSource (sc : list instr)
| OBuild
| OAccess (y a : Z) (p : list nat)
| OComplete (i : nat) (v : Z) (p : list nat)
| ODestroy
| OPeek
| OBad.

(* result kind 7 = destroyed *)
Record obs := mkObs { o_st : Z; o_res : res; o_destroyed : bool; o_done : Z; o_ev : list sevent }.
Definition rejected : obs := mkObs 1 RNone false 0 [].
Definition done_flag (g : agg) : Z :=
  match ast g with ANew | ADead | ADying => 2 | _ => b2z (adone g) end.

Definition value_of (g : agg) : res :=
  match aexn g with
  | Some e => RExc e
  | None => match aret g with Some v => RVal v | None => RNReady end
  end.

Definition idle (g : agg) : bool := match aout g with None => true | Some _ => false end.

Definition finish_destroy (g : agg) (q : list nat) (c : nat) : agg * obs :=
  let g1 := mkAgg (map (fun s => mkSrc (s_pc s) [] (s_cur s) (s_arg s) (s_bst s) (s_ret s) (s_exn s) (s_done s)) (srcs g))
                  q c (aexp g) ADead (aret g) (aexn g) (adone g) None (aerr g) in
  (g1, mkObs 0 RNone true 2 (destroy_srcs (srcs g) 0)).

Definition step (ha : bool) (g : agg) (x : op) : agg * obs :=
  match x with
  | OSource sc =>
      match ast g with
      | ANew => if Nat.ltb (length (srcs g)) 12
                then let g1 := mkAgg (srcs g ++ [src0 sc]) (queue g) (count g) (aexp g) ANew (aret g) (aexn g) (adone g) (aout g) (aerr g) in
                     (g1, mkObs 0 RNone false (done_flag g1) [])
                else (g, rejected)
      | _ => (g, rejected)
      end
  | OBuild =>
      match ast g with
      | ANew => let g1 := mkAgg (srcs g) [] (length (srcs g)) None AInit None None false None (aerr g) in
                (g1, mkObs 0 RNone false (done_flag g1) [])
      | _ => (g, rejected)
      end
  | OAccess y a p =>
      if idle g && style_ok ha y then
        match ast g with
        | AInit =>
            let '(l, q0, ev, e) := charge_all (srcs g) a in
            let q := reorder q0 p in
            let g0 := mkAgg l q (count g) (aexp g) (ast g) (aret g) (aexn g) (adone g) (aout g) (aerr g || e) in
            let '(g1, r) := apply_outcome g0 l (agg_loop l q (count g) (aexp g)) y in
            (g1, mkObs 0 r false (done_flag g1) ev)
        | AYield i =>
            match charge (get_src (srcs g) i) a with
            | Some (s1, b, e) =>
                let l := set_src (srcs g) i s1 in
                let q := reorder (if b then queue g ++ [i] else queue g) p in
                let '(g1, r) := apply_outcome g l (agg_loop l q (count g) (aexp g)) y in
                (g1, mkObs 0 r false (done_flag g1) (tag_ev i e))
            | None =>      (* next_async throws no_more_values_exception inside the try block: remembered, fin *)
                let '(g1, r) := apply_outcome g (srcs g) (agg_loop (srcs g) (queue g) (pred (count g)) (Some (-2))) y in
                (mkAgg (srcs g1) (queue g1) (count g1) (aexp g1) (ast g1) (aret g1) (aexn g1) (adone g1) (aout g1) true,
                 mkObs 0 r false (done_flag g1) [])
            end
        | AFinal =>
            let r := if adone g then (if fut_style y then REndT else REndF) else REndT in
            (g, mkObs 0 r false (done_flag g) [])
        | _ => (g, rejected)
        end
      else (g, rejected)
  | OComplete i v p =>
      match ast g with
      | ANew | ADead => (g, rejected)
      | _ =>
        if Nat.ltb i (length (srcs g)) then
          match complete_src (get_src (srcs g) i) v with
          | None => (g, rejected)
          | Some (s1, b, e) =>
              let l := set_src (srcs g) i s1 in
              let q := if b then queue g ++ [i] else queue g in
              match ast g with
              | AWait =>
                  match aout g with
                  | Some y => let '(g1, r) := apply_outcome g l (agg_loop l (reorder q p) (count g) (aexp g)) y in
                              (g1, mkObs 0 r false (done_flag g1) (tag_ev i e))
                  | None => (g, rejected)
                  end
              | ADying =>
                  let '(q1, c1, blocked) := drain q (count g) in
                  let g0 := mkAgg l q1 c1 (aexp g) ADying (aret g) (aexn g) (adone g) (aout g) (aerr g) in
                  if blocked then (g0, mkObs 0 RPend false 2 (tag_ev i e))
                  else let '(g1, o) := finish_destroy g0 q1 c1 in
                       (g1, mkObs 0 RNone true 2 (tag_ev i e ++ o_ev o))
              | _ => (mkAgg l q (count g) (aexp g) (ast g) (aret g) (aexn g) (adone g) (aout g) (aerr g),
                      mkObs 0 RNone false (done_flag g) (tag_ev i e))
              end
          end
        else (g, rejected)
      end
  | ODestroy =>
      if idle g then
        match ast g with
        | AInit => finish_destroy g (queue g) (count g)           (* never started: only the parameter vector lives *)
        | AYield _ | AFinal =>
            let '(q1, c1, blocked) := drain (queue g) (count g) in
            let g0 := mkAgg (srcs g) q1 c1 (aexp g) ADying (aret g) (aexn g) (adone g) (Some 0) (aerr g) in
            if blocked then (g0, mkObs 0 RPend false 2 [])
            else finish_destroy g0 q1 c1
        | _ => (g, rejected)
        end
      else (g, rejected)
  | OPeek =>
      if idle g then
        match ast g with
        | AInit | AYield _ | AFinal => (g, mkObs 0 (value_of g) false (done_flag g) [])
        | _ => (g, rejected)
        end
      else (g, rejected)
  | OBad => (g, rejected)
  end.

Fixpoint run_from (ha : bool) (g : agg) (l : list op) : list obs * agg :=
  match l with
  | [] => ([], g)
  | x :: t => let '(g1, o) := step ha g x in
              let '(os, g2) := run_from ha g1 t in (o :: os, g2)
  end.

(* ---------- wire ---------- *)
Definition decode (ha : bool) (l : list Z) : op :=
  match l with
  | 10 :: sc => if Nat.even (length sc) then OSource (decode_script ha sc) else OBad
  | [0] => OBuild
  | 1 :: y :: a :: p => OAccess y a (map Z.to_nat p)
  | 2 :: i :: v :: _ :: p => if 0 <=? i then OComplete (Z.to_nat i) v (map Z.to_nat p) else OBad
  | [3] => ODestroy
  | [4] => OPeek
  | _ => OBad
  end.

Fixpoint enc_sevents (ha : bool) (l : list sevent) : list Z :=
  match l with
  | [] => []
  | (i, ECtor x) :: t => 1 :: Z.of_nat i :: x :: enc_sevents ha t
  | (i, EDtor x) :: t => 2 :: Z.of_nat i :: x :: enc_sevents ha t
  | (i, EArg a) :: t => if ha then 3 :: Z.of_nat i :: a :: enc_sevents ha t else enc_sevents ha t
  | (i, EAw r) :: t => 4 :: Z.of_nat i :: r :: enc_sevents ha t
  end.

Definition encode_obs (ha : bool) (o : obs) : list Z :=
  let '(k, v) := if o_destroyed o then (7, 0) else enc_res (o_res o) in
  o_st o :: k :: v :: o_done o :: 0 :: enc_sevents ha (o_ev o).

Definition aggr_run (ha : bool) (ops : list (list Z)) : list (list Z) :=
  map (encode_obs ha) (fst (run_from ha agg0 (map (decode ha) ops))).

(* ====================================================================================================
   Specification side: what each source yields, from its script alone (arguments do not influence values
   in scripts without YieldEcho; the oracle is applied to such scripts)
   ==================================================================================================== *)
Fixpoint src_values (pc : list instr) : list Z :=
  match pc with
  | [] => []
  | IYield v :: t => v :: src_values t
  | IThrow _ :: _ => []
  | IReturn :: _ => []
  | _ :: t => src_values t
  end.

Fixpoint src_throws (pc : list instr) : option Z :=
  match pc with
  | [] => None
  | IThrow e :: _ => Some e
  | IReturn :: _ => None
  | _ :: t => src_throws t
  end.

Fixpoint has_echo (pc : list instr) : bool :=
  match pc with [] => false | IYieldEcho :: _ => true | _ :: t => has_echo t end.

(* ---------- decidable form of C14 over an observed trace ---------- *)
Definition dec_obs (l : list Z) : Z * Z * Z * Z * Z * list Z :=
  match l with
  | st :: k :: v :: d :: b :: ev => (st, k, v, d, b, ev)
  | _ => (1, 99, 0, 0, 0, [])
  end.

Definition ob_st (o : Z * Z * Z * Z * Z * list Z) : Z := let '(st, _, _, _, _, _) := o in st.
Definition ob_kind (o : Z * Z * Z * Z * Z * list Z) : Z := let '(_, k, _, _, _, _) := o in k.
Definition ob_val (o : Z * Z * Z * Z * Z * list Z) : Z := let '(_, _, v, _, _, _) := o in v.
Definition ob_bal (o : Z * Z * Z * Z * Z * list Z) : Z := let '(_, _, _, _, b, _) := o in b.
Definition ob_ev (o : Z * Z * Z * Z * Z * list Z) : list Z := let '(_, _, _, _, _, e) := o in e.

(* the scripts of the accepted Source ops *)
Definition scripts_of (ops : list op) (os : list (Z * Z * Z * Z * Z * list Z)) : list (list instr) :=
  flat_map (fun p => match fst p with OSource sc => if ob_st (snd p) =? 0 then [sc] else [] | _ => [] end) (combine ops os).

(* values delivered to the consumer, in order *)
Definition out_values (os : list (Z * Z * Z * Z * Z * list Z)) : list Z :=
  flat_map (fun o => if (ob_st o =? 0) && (ob_kind o =? 1) then [ob_val o] else []) os.

(* terminal answers (Exc = 2, End = 3/4) in order *)
Definition out_terminals (os : list (Z * Z * Z * Z * Z * list Z)) : list (Z * Z) :=
  flat_map (fun o => if (ob_st o =? 0) && ((ob_kind o =? 2) || (ob_kind o =? 3) || (ob_kind o =? 4)) then [(ob_kind o, ob_val o)] else []) os.

Fixpoint is_prefix (a b : list Z) : bool :=
  match a, b with
  | [], _ => true
  | x :: a', y :: b' => (x =? y) && is_prefix a' b'
  | _, _ => false
  end.

(* the generator gives the values of source s the form s*1000 + j *)
Definition from_src (s : nat) (v : Z) : bool := (v / 1000 =? Z.of_nat s).

Fixpoint per_source_ok (scs : list (list instr)) (i : nat) (vals : list Z) : bool :=
  match scs with
  | [] => true
  | sc :: t => is_prefix (filter (from_src i) vals) (src_values sc) && per_source_ok t (S i) vals
  end.

Fixpoint ev_triples (l : list Z) : list (Z * Z * Z) :=
  match l with c :: s :: x :: t => (c, s, x) :: ev_triples t | _ => [] end.

Definition all_triples (os : list (Z * Z * Z * Z * Z * list Z)) : list (Z * Z * Z) :=
  flat_map (fun o => ev_triples (ob_ev o)) os.

Definition count_t (c s x : Z) (l : list (Z * Z * Z)) : nat :=
  length (filter (fun t => let '(c', s', x') := t in (c =? c') && (s =? s') && (x =? x')) l).

Definition raii_balanced (l : list (Z * Z * Z)) : bool :=
  forallb (fun t => let '(c, s, x) := t in
                    if c =? 1 then Nat.eqb (count_t 1 s x l) (count_t 2 s x l) else
                    if c =? 2 then Nat.eqb (count_t 1 s x l) (count_t 2 s x l) else true) l.

(* argument routing (aggr1): the k-th argument received overall by the sources ... per access: every EArg logged
   during an accepted access carries that access's argument; after the first access exactly one source (the one
   whose value was returned last) receives it *)
Fixpoint args_ok (ops : list op) (os : list (Z * Z * Z * Z * Z * list Z)) (last_src : option Z) : bool :=
  match ops, os with
  | x :: ops', o :: os' =>
      let here :=
        match x with
        | OAccess _ a _ =>
            if ob_st o =? 0 then
              forallb (fun t => let '(c, s, v) := t in
                                if c =? 3 then (v =? a) && (match last_src with Some ls => s =? ls | None => true end) else true)
                      (ev_triples (ob_ev o))
            else true
        | _ => true
        end in
      let last' := if (ob_st o =? 0) && (ob_kind o =? 1) then Some (ob_val o / 1000) else last_src in
      here && args_ok ops' os' last'
  | _, _ => true
  end.

Definition destroyed_seen (os : list (Z * Z * Z * Z * Z * list Z)) : bool :=
  existsb (fun o => (ob_st o =? 0) && (ob_kind o =? 7)) os.

Definition any_throw (scs : list (list instr)) : bool :=
  existsb (fun sc => match src_throws sc with Some _ => true | None => false end) scs.

Definition throw_codes (scs : list (list instr)) : list Z :=
  flat_map (fun sc => match src_throws sc with Some e => [e] | None => [] end) scs.

(* closed cases (the generator completes every in-flight source): the last accepted answer is not Pending,
   i.e. neither the consumer nor the destructor is left blocked *)
Definition no_trailing_pend (os : list (Z * Z * Z * Z * Z * list Z)) : bool :=
  match filter (fun o => ob_st o =? 0) (rev os) with
  | o :: _ => negb (ob_kind o =? 5)
  | [] => true
  end.

Definition aggr_oracle (ha : bool) (wops wobs : list (list Z)) : bool :=
  let ops := map (decode ha) wops in
  let os := map dec_obs wobs in
  let scs := scripts_of ops os in
  let osd := map snd (filter (fun p => match fst p with OAccess _ _ _ | OComplete _ _ _ => true | _ => false end) (combine ops os)) in
  let vals := out_values osd in
  let terms := out_terminals osd in
  let echo := existsb has_echo scs in
  Nat.eqb (length ops) (length os)
  && forallb (fun o => negb (ob_kind o =? 99)) os
  (* per-source order + nothing invented or duplicated *)
  && (echo || (per_source_ok scs 0 vals
               && forallb (fun v => existsb (fun i => from_src i v) (seq 0 (length scs))) vals))
  (* a terminal answer only after every value of every source was delivered; the first one tells the exception *)
  && match terms with
     | [] => true
     | (k, e) :: rest =>
         (echo || perm_b vals (flat_map src_values scs))
         && (if any_throw scs then (k =? 2) && memz e (throw_codes scs) else negb (k =? 2))
         && forallb (fun t => negb (fst t =? 2)) rest
     end
  && args_ok ops os None
  && no_trailing_pend os
  && (if destroyed_seen os
      then raii_balanced (all_triples os)
           && forallb (fun o => if (ob_st o =? 0) && (ob_kind o =? 7) then ob_bal o =? 0 else true) os
      else true).
