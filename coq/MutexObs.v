(* MutexObs.v — what the scenario observes: the critical-section overlap detector never fires.
   J: ovl = false, a task is "inside the critical section" (incs) only at the cs point, and no task in a ready
   queue is inside.  Built on the protocol invariant (MutexProofs.SInv) and the location invariant
   (MutexSched.LInv). *)
From Cocls Require Import Base BaseProofs MutexDefs MutexProofs MutexSched.
Local Open Scope nat_scope.

Definition J (s : st) : Prop :=
  ovl s = false /\
  (forall x, incs (gtask s x) = true -> tpc (gtask s x) = PCs) /\
  (forall t x, In x (tq (gthr s t)) -> incs (gtask s x) = false).

Lemma j_conv s s' : tasks s' = tasks s -> thrs s' = thrs s -> ovl s' = ovl s -> J s -> J s'.
Proof. intros A B C (J1 & J2 & J3). unfold J, gtask, gthr. rewrite A, B, C. auto. Qed.

Lemma gtask_set_task_gen s c y x :
  gtask (set_task s c y) x = if Nat.eqb x c && Nat.ltb c (length (tasks s)) then y else gtask s x.
Proof. unfold gtask, set_task, s_tasks. cbn [tasks]. apply nth_set_nth_gen. Qed.

(* a task record is replaced; it may be marked "inside" only if it was and stays at the cs point *)
Lemma j_task s c y : J s -> (incs y = true -> incs (gtask s c) = true /\ tpc y = PCs) -> J (set_task s c y).
Proof.
  intros (J1 & J2 & J3) H. split; [exact J1|]. split.
  - intros x. rewrite gtask_set_task_gen. destruct (Nat.eqb x c && Nat.ltb c (length (tasks s))); [|apply J2].
    intros E. apply H. exact E.
  - intros t x Q. change (gthr (set_task s c y) t) with (gthr s t) in Q.
    rewrite gtask_set_task_gen. destruct (Nat.eqb x c && Nat.ltb c (length (tasks s))) eqn:E; [|eapply J3; exact Q].
    destruct (incs y) eqn:Iy; [|reflexivity]. destruct (H eq_refl) as [A _].
    apply andb_true_iff in E. destruct E as [E _]. apply Nat.eqb_eq in E. subst x.
    rewrite (J3 t c Q) in A. discriminate.
Qed.

Lemma tq_set_run s t r t' : tq (gthr (set_run s t r) t') = tq (gthr s t').
Proof.
  unfold gthr, set_run, s_thrs. cbn [thrs]. rewrite nth_set_nth_gen.
  destruct (Nat.eqb t' t && Nat.ltb t (length (thrs s))) eqn:E; [|reflexivity].
  apply andb_true_iff in E. destruct E as [E _]. apply Nat.eqb_eq in E. subst t'. reflexivity.
Qed.

Lemma j_set_run s t r : J s -> J (set_run s t r).
Proof.
  intros (J1 & J2 & J3). split; [exact J1|]. split; [exact J2|].
  intros t' x Q. rewrite tq_set_run in Q. change (gtask (set_run s t r) x) with (gtask s x). eapply J3; exact Q.
Qed.

Lemma j_set_tq s t q : J s -> (forall x, In x q -> incs (gtask s x) = false) -> J (set_tq s t q).
Proof.
  intros (J1 & J2 & J3) H. split; [exact J1|]. split; [exact J2|].
  intros t' x Q. change (gtask (set_tq s t q) x) with (gtask s x).
  unfold gthr, set_tq, s_thrs in Q. cbn [thrs] in Q. rewrite nth_set_nth_gen in Q.
  destruct (Nat.eqb t' t && Nat.ltb t (length (thrs s))); [cbn [tq] in Q; apply H; exact Q|eapply J3; exact Q].
Qed.

Lemma existsb_incs_false s : (forall x, incs (gtask s x) = false) -> existsb incs (tasks s) = false.
Proof.
  intros H. destruct (existsb incs (tasks s)) eqn:E; [|reflexivity]. exfalso.
  apply existsb_exists in E. destruct E as (y & Hy & Iy).
  destruct (In_nth _ _ dflt_task Hy) as (i & Li & Ei). specialize (H i). unfold gtask in H. rewrite Ei in H. congruence.
Qed.

(* entry into the critical section of the (only) owner *)
Lemma j_enter s w : J s -> SInv s -> tpc (gtask s w) = PCs -> incs (gtask s w) = false ->
  (forall t, ~ In w (tq (gthr s t))) -> J (enter s w).
Proof.
  intros (J1 & J2 & J3) [_ I] P Iw NQ.
  assert (All : forall x, incs (gtask s x) = false).
  { intros x. destruct (incs (gtask s x)) eqn:E; [|reflexivity]. exfalso.
    assert (Hx : is_hold (cls (tvs s x)) = true) by (unfold tvs, tvw; rewrite (J2 x E); reflexivity).
    assert (Hw : is_hold (cls (tvs s w)) = true) by (unfold tvs, tvw; rewrite P; reflexivity).
    apply (i_own _ I) in Hx. apply (i_own _ I) in Hw. cbn [vw v_own] in Hx, Hw.
    assert (x = w) by congruence. subst. congruence. }
  unfold enter. rewrite (existsb_incs_false s All), J1. cbn [orb].
  split; [reflexivity|]. split.
  - intros x. rewrite gtask_set_task_gen. cbn [s_scn tasks].
    destruct (Nat.eqb x w && Nat.ltb w (length (tasks s))) eqn:E.
    + intros _. cbn [t_enter tpc]. exact P.
    + intros Q. change (incs (gtask s x) = true) in Q. rewrite All in Q. discriminate.
  - intros t x Q. change (In x (tq (gthr s t))) in Q. rewrite gtask_set_task_gen. cbn [s_scn tasks].
    destruct (Nat.eqb x w && Nat.ltb w (length (tasks s))) eqn:E; [|apply All].
    apply andb_true_iff in E. destruct E as [E _]. apply Nat.eqb_eq in E. subst x. exfalso. eapply NQ; exact Q.
Qed.

Lemma veq_sym V V' : veq V V' -> veq V' V.
Proof.
  unfold veq. intros H. repeat match goal with H : _ /\ _ |- _ => destruct H end.
  repeat split; try (symmetry; assumption). intros x. symmetry. auto.
Qed.

Lemma same_sym s s' : same s s' -> same s' s.
Proof. intros (V & N & T). split; [apply veq_sym; exact V|split; congruence]. Qed.

Lemma sinv_of_enter s w : SInv (enter s w) -> SInv s.
Proof. apply sinv_same. apply same_sym. apply same_enter. Qed.

Lemma linv_of_enter s w : LInv (enter s w) -> LInv s.
Proof.
  intros H. destruct (same_enter s w) as (V & _ & T). unfold LInv in *.
  change (thrs (enter s w)) with (thrs s) in H. rewrite T in H.
  apply lv_ext with (f := tvs (enter s w)); [| |exact H];
    intros x; destruct V as (_ & _ & _ & _ & _ & _ & _ & _ & _ & _ & V); specialize (V x); cbn [vw v_tv] in V; rewrite V; reflexivity.
Qed.

Lemma run_set_run s t r : t < length (thrs s) -> run (gthr (set_run s t r) t) = r.
Proof. intros L. unfold gthr, set_run, s_thrs. cbn [thrs]. rewrite nth_set_nth_eq by exact L. reflexivity. Qed.

Lemma nq_running s t w : LInv s -> run (gthr s t) = TRun w -> forall t', ~ In w (tq (gthr s t')).
Proof.
  intros LI R. destruct (le_lt_dec (length (tasks s)) t) as [G|G].
  - rewrite gthr_out in R by (rewrite (l_len _ _ _ LI); exact G). discriminate.
  - eapply running_not_queued; eassumption.
Qed.

Lemma incs_not_cs s c : J s -> tpc (gtask s c) <> PCs -> incs (gtask s c) = false.
Proof. intros (_ & J2 & _) H. destruct (incs (gtask s c)) eqn:E; [|reflexivity]. exfalso. apply H. apply J2. exact E. Qed.

(* entering after the task was put on a thread: the state before `enter` inherits both invariants from the result *)
Lemma j_enter_from s w t : J s -> SInv (enter s w) -> LInv (enter s w) -> run (gthr s t) = TRun w ->
  tpc (gtask s w) = PCs -> incs (gtask s w) = false -> J (enter s w).
Proof.
  intros JJ SR LR R P Iw. apply j_enter; try assumption.
  - eapply sinv_of_enter; exact SR.
  - eapply nq_running; [eapply linv_of_enter; exact LR|exact R].
Qed.

Lemma j_yield s t : J s -> SInv (yield s t) -> LInv (yield s t) -> J (yield s t).
Proof.
  intros JJ SR LR. unfold yield in *. destruct (tq (gthr s t)) as [|w r] eqn:Q.
  - destruct (tk (gtask s t)); [apply j_set_run; exact JJ|]. destruct (tpc (gtask s t)); apply j_set_run; exact JJ.
  - assert (Lt : t < length (thrs s)).
    { destruct (le_lt_dec (length (thrs s)) t) as [G|G]; [|exact G]. rewrite gthr_out in Q by exact G. discriminate. }
    assert (JB : J (set_run (set_tq s t r) t (TRun w))).
    { apply j_set_run. apply j_set_tq; [exact JJ|]. intros x Hx. destruct JJ as (_ & _ & J3). apply (J3 t x).
      rewrite Q. right. exact Hx. }
    match goal with |- J (match ?p with _ => _ end) => destruct p eqn:P end; try exact JB.
    apply (j_enter_from _ w t JB SR LR).
    + apply run_set_run. unfold set_tq, s_thrs. cbn [thrs]. rewrite set_nth_len. exact Lt.
    + exact P.
    + change (incs (gtask s w) = false). destruct JJ as (_ & _ & J3). apply (J3 t w). rewrite Q. left. reflexivity.
Qed.

Lemma cwait_not_cs k p fl : cls (k, p, fl) = CWait -> p <> PCs.
Proof. intros C ->. destruct k; discriminate. Qed.

Lemma j_handover s t c vh : J s -> SInv (handover s t c) -> LInv (handover s t c) ->
  t < length (thrs s) -> c < length (tasks s) -> tpc (gtask s c) <> PCs ->
  Inv (mkV (requests s) (queue s) (next s) (dnext s) (err s) (owner s) (gstack s) (gqueue s) (alog s) (glog s)
           (upd (tvs s) c vh)) ->
  cls vh = CHold -> J (handover s t c).
Proof.
  intros JJ SR LR Lt Lc Pc I Hh. pose proof (incs_not_cs s c JJ Pc) as Ic.
  unfold handover in *. destruct (queue s) as [| |w] eqn:EQ.
  - eapply j_conv; [| | |exact JJ]; reflexivity.
  - apply j_task; [eapply j_conv; [| | |exact JJ]; reflexivity|].
    cbn [t_endround incs]. intros E. change (incs (gtask s c) = true) in E. congruence.
  - set (yc := t_endround (gtask s c) false).
    destruct (inv_handover _ c w (tvw yc) (KCoro, PCs, false) I) as (Ww & Nwc & _ & _);
      [cbn [v_tv]; rewrite upd_same; exact Hh|reflexivity|reflexivity|reflexivity|].
    cbn [v_tv] in Ww. rewrite upd_other in Ww by exact Nwc.
    assert (Pw : tpc (gtask s w) <> PCs) by (eapply cwait_not_cs; exact Ww).
    pose proof (incs_not_cs s w JJ Pw) as Iw.
    cbv zeta in *.
    set (s1 := s_mem s (requests s) (gnext s w) (set_nth (next s) w PNull) (dnext s)) in *.
    set (s2 := s_ghost s1 (Some w) (gstack s1) (tl (gqueue s1)) (alog s1) (glog s1 ++ [w])) in *.
    set (s3 := set_task s2 c (t_endround (gtask s2 c) false)) in *.
    assert (J3' : J s3).
    { apply j_task; [eapply j_conv; [| | |exact JJ]; reflexivity|].
      cbn [t_endround incs]. intros E. change (incs (gtask s c) = true) in E. congruence. }
    assert (G3 : gtask s3 w = gtask s w) by (unfold s3; rewrite gtask_set_task_other by exact Nwc; reflexivity).
    assert (G3c : gtask s3 c = yc) by (unfold s3; rewrite gtask_set_task by exact Lc; rewrite Nat.eqb_refl; reflexivity).
    rewrite G3 in *.
    destruct (tk (gtask s w)) eqn:Kw.
    + assert (J4 : J (set_pc s3 w PCs)).
      { unfold set_pc. apply j_task; [exact J3'|]. cbn [t_pc incs]. rewrite G3. congruence. }
      assert (G4c : gtask (set_pc s3 w PCs) c = yc).
      { unfold set_pc. rewrite gtask_set_task_other by auto. exact G3c. }
      assert (G4w : tpc (gtask (set_pc s3 w PCs) w) = PCs /\ incs (gtask (set_pc s3 w PCs) w) = false).
      { assert (Lw : w < length (tasks s3)).
        { unfold s3. rewrite set_task_len. apply task_lt. intro Z. change (tpc (gtask s w) = PDone) in Z. unfold tvs, tvw in Ww. rewrite Z in Ww. cbn in Ww. discriminate. }
        unfold set_pc. rewrite gtask_set_task by exact Lw. rewrite Nat.eqb_refl. cbn [t_pc tpc incs]. rewrite G3. auto. }
      destruct G4w as [P4 I4].
      rewrite G4c in *. unfold yc in SR, LR |- * at 1 2. cbn [t_endround tk crel] in *.
      assert (T4 : thrs (set_pc s3 w PCs) = thrs s) by reflexivity.
      assert (Q4 : forall x, In x (tq (gthr (set_pc s3 w PCs) t)) -> incs (gtask (set_pc s3 w PCs) x) = false).
      { intros x Hx. destruct J4 as (_ & _ & K3). eapply K3. exact Hx. }
      destruct (tk (gtask s c)) eqn:Kc; [destruct (crel (gtask s c))|].
      * apply j_set_tq; [exact J4|]. intros x Hx. apply in_app_or in Hx. destruct Hx as [Hx|[<-|[]]]; [apply Q4; exact Hx|exact I4].
      * apply j_set_tq; [exact J4|]. intros x Hx. apply in_app_or in Hx. destruct Hx as [Hx|[<-|[]]]; [apply Q4; exact Hx|exact I4].
      * apply (j_enter_from _ w t); try assumption.
        -- apply j_set_run. apply j_set_tq; [exact J4|]. intros x Hx. apply in_app_or in Hx.
           destruct Hx as [Hx|[<-|[]]]; [apply Q4; exact Hx|]. rewrite G4c. exact Ic.
        -- apply run_set_run. unfold set_tq, s_thrs. cbn [thrs]. rewrite set_nth_len, T4. exact Lt.
      * apply (j_enter_from _ w t); try assumption.
        -- apply j_set_run. exact J4.
        -- apply run_set_run. rewrite T4. exact Lt.
    + apply j_task; [exact J3'|]. cbn [t_flag incs tpc]. intros E. rewrite Iw in E. discriminate.
Qed.

Ltac jt s c JJ Ic := apply j_task; [first [exact JJ | eapply j_conv; [| | |exact JJ]; reflexivity]|];
  cbn [t_pc t_flag t_begin t_endround t_leave incs]; intros E; change (incs (gtask s c) = true) in E; congruence.

Lemma step_j s t : SInv s -> LInv s -> J s -> enabled s t = true -> J (fst (fst (tstep s t))).
Proof.
  intros SI LI JJ En.
  pose proof (step_inv s t SI En) as SR. pose proof (step_linv s t SI LI En) as LR.
  pose proof SI as [L I]. pose proof (l_len _ _ _ LI) as Ln.
  assert (Lt : t < length (thrs s)) by (apply enabled_lt; exact En).
  unfold tstep in *. destruct (run (gthr s t)) as [|c|c] eqn:R; cbn [fst] in *.
  - exact JJ.
  - destruct (tpc (gtask s c)) eqn:P; cbn [fst] in *;
      try (assert (Lc : c < length (tasks s)) by (apply task_lt; rewrite P; discriminate));
      try (assert (Ic : incs (gtask s c) = false) by (apply incs_not_cs; [exact JJ|rewrite P; discriminate])).
    + (* PStep *)
      destruct (prog (gtask s c)) as [|[a r] p]; cbn [fst] in *.
      * assert (J1 : J (set_pc s c PDone)) by (unfold set_pc; jt s c JJ Ic).
        destruct (tk (gtask s c)); [apply j_yield; assumption|apply j_set_run; exact J1].
      * jt s c JJ Ic.
    + (* PTry *)
      destruct (requests s) eqn:Rq; cbn [fst] in *.
      * apply (j_enter_from _ c t); try assumption.
        -- unfold set_pc. jt s c JJ Ic.
        -- unfold set_pc. rewrite gtask_set_task by exact Lc. rewrite Nat.eqb_refl. reflexivity.
        -- unfold set_pc. rewrite gtask_set_task by exact Lc. rewrite Nat.eqb_refl. exact Ic.
      * destruct (cacq (gtask s c)); [unfold set_pc|]; jt s c JJ Ic.
      * destruct (cacq (gtask s c)); [unfold set_pc|]; jt s c JJ Ic.
    + (* PSub *)
      cbv zeta in *. destruct (requests s) eqn:Rq; cbn [fst] in *.
      * unfold set_pc. jt s c JJ Ic.
      * destruct (tk (gtask s c)); cbn [fst] in *; [apply j_set_run; unfold set_pc|]; jt s c JJ Ic.
      * destruct (tk (gtask s c)); cbn [fst] in *; [apply j_set_run; unfold set_pc|]; jt s c JJ Ic.
    + unfold set_pc. jt s c JJ Ic.
    + unfold set_pc. jt s c JJ Ic.
    + (* PBqS *)
      unfold build_queue in *. destruct (bq_walk _ _ _ _ _ _) as [[nx dn] q].
      apply (j_enter_from _ c t); try assumption.
      * unfold set_pc. jt s c JJ Ic.
      * unfold set_pc. rewrite gtask_set_task by exact Lc. rewrite Nat.eqb_refl. reflexivity.
      * unfold set_pc. rewrite gtask_set_task by exact Lc. rewrite Nat.eqb_refl. exact Ic.
    + exact JJ.
    + (* PFlag *)
      apply (j_enter_from _ c t); try assumption.
      * jt s c JJ Ic.
      * rewrite gtask_set_task by exact Lc. rewrite Nat.eqb_refl. reflexivity.
      * rewrite gtask_set_task by exact Lc. rewrite Nat.eqb_refl. exact Ic.
    + (* PCs: leave *)
      apply j_task; [exact JJ|]. cbn [t_leave incs]. discriminate.
    + (* PUnlock *)
      assert (Hc : cls (v_tv (vw s) c) = CHold) by (cbn [vw v_tv]; unfold tvs, tvw; rewrite P; reflexivity).
      assert (Hand : J (handover s t c) \/ True) by auto.
      destruct (queue s) eqn:Q; cbn [fst] in *.
      * destruct (requests s) eqn:Rq; cbn [fst] in *; [unfold set_pc| |unfold set_pc]; jt s c JJ Ic.
      * exfalso. pose proof (i_queue _ I) as RQ. cbn [vw v_next v_q v_gq] in RQ. rewrite Q in RQ.
        destruct (repr_nil_inv _ _ _ _ RQ); [discriminate|discriminate].
      * apply j_handover with (vh := tvs s c); try assumption.
        -- rewrite P. discriminate.
        -- eapply inv_veq; [|exact I]. veq_fields. intros x. symmetry. apply upd_id.
    + (* PBqU *)
      assert (Cc : cls (v_tv (vw s) c) = CBqU) by (cbn [vw v_tv]; unfold tvs, tvw; rewrite P; reflexivity).
      destruct (inv_bq (vw s) c PDoor (length (tasks s) + 2) (tk (gtask s c), PUnlock, flag (gtask s c)) I)
        as (nx & q' & E & I2 & NE & Lnx).
      { right. split; [exact Cc|reflexivity]. }
      { reflexivity. }
      { cbn [vw v_next]. lia. }
      cbn [vw v_req v_q v_next v_dn v_err v_own v_gs v_gq v_al v_gl v_tv] in E, I2, NE, Lnx.
      rewrite (build_queue_eq s PDoor nx q' E) in *.
      apply j_handover with (vh := (tk (gtask s c), PUnlock, flag (gtask s c))); try assumption; try reflexivity.
      change (tpc (gtask s c) <> PCs). rewrite P. discriminate.
    + exact JJ.
  - apply j_yield; assumption.
Qed.

Lemma decode_task_incs l x : In x (decode_task l) -> incs x = false.
Proof.
  unfold decode_task. intros H.
  repeat match type of H with
  | In _ (match ?e with _ => _ end) => destruct e; cbn [In] in H; try contradiction
  end.
  destruct H as [<-|[]]. reflexivity.
Qed.

Lemma init_j ops : J (init ops).
Proof.
  split; [reflexivity|]. split.
  - intros x E. exfalso. unfold gtask, init in E. cbn [tasks] in E.
    destruct (nth_in_or_default x (flat_map decode_task ops) dflt_task) as [H|H].
    + apply in_flat_map in H. destruct H as (l & _ & H). rewrite (decode_task_incs _ _ H) in E. discriminate.
    + rewrite H in E. discriminate.
  - intros t x Q. exfalso. unfold gthr, init in Q. cbn [thrs] in Q.
    set (n := length (flat_map decode_task ops)) in Q.
    destruct (le_lt_dec n t) as [G|G].
    + rewrite nth_overflow in Q by (rewrite init_thrs_len; exact G). exact Q.
    + rewrite nth_init_thrs in Q by exact G. exact Q.
Qed.

Lemma reachable_j ops s : reachable ops s -> J s.
Proof.
  induction 1 as [|s t R IH En]; [apply init_j|].
  apply step_j; [eapply reachable_inv; exact R|eapply reachable_linv; exact R|exact IH|exact En].
Qed.

(* the scenario's overlap detector never fires; at most one contender is inside the critical section, it owns
   the mutex, and it is executing (not sitting in a ready queue) *)
Lemma overlap_never ops s : reachable ops s ->
  ovl s = false /\
  (forall x y, incs (gtask s x) = true -> incs (gtask s y) = true -> x = y) /\
  (forall x, incs (gtask s x) = true -> holds s x /\ tpc (gtask s x) = PCs) /\
  (forall t x, In x (tq (gthr s t)) -> incs (gtask s x) = false).
Proof.
  intros R. destruct (reachable_j _ _ R) as (J1 & J2 & J3).
  split; [exact J1|]. split; [|split; [|exact J3]].
  - intros x y A B. apply (mutual_exclusion ops s x y R); unfold holds; [rewrite (J2 x A)|rewrite (J2 y B)]; exact Logic.I.
  - intros x A. split; [unfold holds; rewrite (J2 x A); exact Logic.I|apply J2; exact A].
Qed.

(* ---------- the final observation block of a run that stopped ---------- *)
Lemma stuck_list_nil l : forall i, (forall x, In x l -> run x = TIdle) -> stuck_list l i = [].
Proof.
  induction l as [|x l IH]; intros i H; cbn [stuck_list]; [reflexivity|].
  rewrite (H x (or_introl eq_refl)). cbn [app]. apply IH. intros y Hy. apply H. right. exact Hy.
Qed.

Lemma terminal_threads_idle ops s : reachable ops s -> (forall t, enabled s t = false) -> forall t, run (gthr s t) = TIdle.
Proof.
  intros R T t. destruct (terminal_all_done _ _ R T) as (D & _).
  pose proof (reachable_linv _ _ R) as LI. destruct (reachable_inv _ _ R) as [_ I].
  pose proof (i_err _ I) as Er. cbn [vw v_err] in Er. pose proof (l_len _ _ _ LI) as Ln.
  destruct (le_lt_dec (length (thrs s)) t) as [G|G]; [rewrite gthr_out by exact G; reflexivity|].
  destruct (run (gthr s t)) as [|c|c] eqn:Rn; [reflexivity| |]; exfalso.
  - destruct (tk (gtask s c)) eqn:K.
    + destruct (lv_running _ _ _ t c LI ltac:(lia) Rn K) as (Lv & _).
      unfold tvs, tvw, pf in Lv. cbn [fst snd] in Lv. rewrite (D c) in Lv. discriminate.
    + assert (c = t) by (eapply running_plain_self; eassumption). subst c.
      destruct (l_plain _ _ _ LI t ltac:(lia) K) as [(A & B & C)|[(c2 & A & B & C)|[(c2 & A & B)|(A & B)]]].
      * apply C. unfold tvs, tvw, pf. cbn [fst snd]. apply D.
      * unfold tvs, tvw, pf in C. cbn [fst snd] in C. rewrite (D t) in C. discriminate.
      * unfold gthr in Rn. congruence.
      * unfold gthr in Rn. congruence.
  - assert (E : enabled s t = true) by (apply enabled_intro; [exact Er|exact G|left; exists c; exact Rn]).
    rewrite T in E. discriminate.
Qed.

Lemma final_block ops s : reachable ops s -> (forall t, enabled s t = false) ->
  err s = false /\ stuck_list (thrs s) 0 = [] /\
  [8; b2z (ovl s); is_null (requests s); is_null (queue s)]%Z = [8; 0; 1; 1]%Z /\
  (forall c, tpc (gtask s c) = PDone) /\ alog s = glog s.
Proof.
  intros R T. destruct (terminal_all_done _ _ R T) as (D & A & B & C).
  destruct (overlap_never _ _ R) as (O & _). destruct (reachable_inv _ _ R) as [_ I].
  split; [apply (i_err _ I)|]. split.
  - apply stuck_list_nil. intros x Hx. destruct (In_nth _ _ dflt_thr Hx) as (i & _ & <-).
    apply (terminal_threads_idle ops s R T i).
  - rewrite O, A, B. auto.
Qed.
