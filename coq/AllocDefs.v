(* AllocDefs.v — C20: cost model (allocations / frees, count and bytes) of programs over the core
   synchronisation primitives of cocls: future/promise (future.h), awaiter chains (awaiter.h),
   coroutine mutex (mutex.h), suspend_point (suspend_point.h), synchronous generator steps
   (generator.h), the per-thread ready queue (coro_queue.h) and coroutine frames (async.h).
   Model only; proofs are in AllocProofs.v.

   Every step returns THREE separate costs:
     o_cfr  coroutine frames (operator new of the frame / its delete)         async.h:177 (no operator new in
            async_promise => the compiler calls ::operator new once per frame; with_allocator.h:21 routes it
            to the storage instead: `heap = false` models a non-heap storage)
     o_csp  suspend_point heap arrays (suspend_point.h:226-270 add, :218 clear_internal, :65 operator<<)
     o_cdq  the libstdc++ std::deque behind coro_queue::queue_impl::_queue (coro_queue.h:61): 512-byte
            nodes of 64 handles, never recycled, plus the node map (bits/deque.tcc:932 _M_reallocate_map)
   The property says the last two are always zero (with <= 3 handles per suspend point). *)
From Cocls Require Import Base.
Local Open Scope Z_scope.

(* ---------- cost ---------- *)
Record cost := mkCost { c_a : Z; c_ab : Z; c_f : Z; c_fb : Z }.   (* allocs, bytes allocated, frees, bytes freed *)
Definition c0 : cost := mkCost 0 0 0 0.
Definition cadd (a b : cost) : cost := mkCost (c_a a + c_a b) (c_ab a + c_ab b) (c_f a + c_f b) (c_fb a + c_fb b).
Definition c_alloc (bytes : Z) : cost := mkCost 1 bytes 0 0.
Definition c_free (bytes : Z) : cost := mkCost 0 0 1 bytes.

Definition n (z : Z) : nat := Z.to_nat z.
Definition upd {A} (l : list A) (i : Z) (x : A) : list A := set_nth l (n i) x.
Definition inr (i bound : Z) : bool := (0 <=? i) && (i <? bound).

(* ---------- libstdc++ std::deque<coroutine_handle<>> (8-byte elements, 64 per 512-byte node) ----------
   dq_head / dq_tail are the absolute positions of _M_start / _M_finish counted in elements since the
   deque was constructed (= number of pop_front / push_back calls); the cursor offsets inside the
   current node are  head mod 64  and  tail mod 64.  dq_map = _M_map_size, dq_sn = _M_start._M_node - _M_map;
   _M_finish._M_node - _M_map = dq_sn + tail/64 - head/64.   A fresh deque: map of 8, start node 3 (stl_deque.h
   _M_initialize_map), one node — allocated by the constructor, i.e. in the warm-up outside every measured region. *)
(* dq_hw = the largest dq_tail reached so far (tail can move back: create_suspend_point uses pop_back) *)
Record deque := mkDq { dq_map : Z; dq_sn : Z; dq_head : Z; dq_tail : Z; dq_hw : Z }.
Definition dq0 : deque := mkDq 8 3 0 0 0.
Definition node_len : Z := 64.
Definition node_bytes : Z := 512.
Definition dq_fn (d : deque) : Z := dq_sn d + dq_tail d / node_len - dq_head d / node_len.

(* _M_reserve_map_at_back(1) + _M_reallocate_map(1,false), stl_deque.h:2168 / deque.tcc:932 *)
Definition dq_reserve_back (d : deque) : deque * cost :=
  if dq_map d - dq_fn d <? 2 then
    let old := dq_fn d - dq_sn d + 1 in
    let nw := old + 1 in
    if 2 * nw <? dq_map d
    then (mkDq (dq_map d) ((dq_map d - nw) / 2) (dq_head d) (dq_tail d) (dq_hw d), c0)
    else let nm := dq_map d + Z.max (dq_map d) 1 + 2 in
         (mkDq nm ((nm - nw) / 2) (dq_head d) (dq_tail d) (dq_hw d), cadd (c_alloc (8 * nm)) (c_free (8 * dq_map d)))
  else (d, c0).

(* push_back: stl_deque.h push_back / deque.tcc _M_push_back_aux: the element that fills the last slot of
   the finish node makes the deque allocate the next node *)
Definition dq_push (d : deque) : deque * cost :=
  if dq_tail d mod node_len =? node_len - 1 then
    let '(d1, c1) := dq_reserve_back d in
    (mkDq (dq_map d1) (dq_sn d1) (dq_head d1) (dq_tail d1 + 1) (Z.max (dq_hw d1) (dq_tail d1 + 1)), cadd c1 (c_alloc node_bytes))
  else (mkDq (dq_map d) (dq_sn d) (dq_head d) (dq_tail d + 1) (Z.max (dq_hw d) (dq_tail d + 1)), c0).

(* pop_front: _M_pop_front_aux frees the start node when its last element leaves *)
Definition dq_pop (d : deque) : deque * cost :=
  if dq_head d mod node_len =? node_len - 1
  then (mkDq (dq_map d) (dq_sn d + 1) (dq_head d + 1) (dq_tail d) (dq_hw d), c_free node_bytes)
  else (mkDq (dq_map d) (dq_sn d) (dq_head d + 1) (dq_tail d) (dq_hw d), c0).

(* pop_back: _M_pop_back_aux frees the finish node when the finish cursor stands at its first slot *)
Definition dq_pop_back (d : deque) : deque * cost :=
  if dq_tail d mod node_len =? 0
  then (mkDq (dq_map d) (dq_sn d) (dq_head d) (dq_tail d - 1) (dq_hw d), c_free node_bytes)
  else (mkDq (dq_map d) (dq_sn d) (dq_head d) (dq_tail d - 1) (dq_hw d), c0).

Fixpoint dq_pushes (d : deque) (k : nat) : deque * cost :=
  match k with
  | O => (d, c0)
  | S j => let '(d1, c1) := dq_push d in let '(d2, c2) := dq_pushes d1 j in (d2, cadd c1 c2)
  end.
Fixpoint dq_pops (d : deque) (k : nat) : deque * cost :=
  match k with
  | O => (d, c0)
  | S j => let '(d1, c1) := dq_pop d in let '(d2, c2) := dq_pops d1 j in (d2, cadd c1 c2)
  end.
Fixpoint dq_pop_backs (d : deque) (k : nat) : deque * cost :=
  match k with
  | O => (d, c0)
  | S j => let '(d1, c1) := dq_pop_back d in let '(d2, c2) := dq_pop_backs d1 j in (d2, cadd c1 c2)
  end.

(* ---------- suspend_point<void> ---------- *)
(* an entry of a suspend point / the ready queue: (kind, coroutine id, object):
   kind 0 = suspended in `co_await future[object]`, now ready; kind 1 = was granted mutex `object`;
   kind 2 = not started yet, will `co_await future[object]`; kind 3 = not started yet, will lock mutex `object`
   (2 and 3: `coro.detach()` discarded in coroutine mode: the start goes through the ready queue) *)
Definition item := (Z * Z * Z)%type.
Definition event := (Z * Z * Z)%type.     (* who, outcome (0 value, 1 exception, 2 no value/cancelled, 3 lock acquired), value *)

Record spt := mkSp { sp_hs : list item; sp_flag : bool; sp_cap : Z }.   (* count = length; flag = heap array in use *)
Definition sp_empty : spt := mkSp [] false 0.
Definition inline_count : Z := 3.
Definition sp_size (s : spt) : Z := zlen (sp_hs s).

(* suspend_point.h:226 add *)
Definition sp_add (s : spt) (h : item) : spt * cost :=
  let count := sp_size s in
  if sp_flag s then
    if count =? sp_cap s
    then (mkSp (sp_hs s ++ [h]) true (count * 2), cadd (c_alloc (8 * (count * 2))) (c_free (8 * sp_cap s)))
    else (mkSp (sp_hs s ++ [h]) true (sp_cap s), c0)
  else
    if count <? inline_count
    then (mkSp (sp_hs s ++ [h]) false (sp_cap s), c0)
    else (mkSp (sp_hs s ++ [h]) true (count * 2), c_alloc (8 * (count * 2))).

Fixpoint sp_add_all (s : spt) (l : list item) : spt * cost :=
  match l with
  | [] => (s, c0)
  | h :: t => let '(s1, c1) := sp_add s h in let '(s2, c2) := sp_add_all s1 t in (s2, cadd c1 c2)
  end.

(* :218 clear_internal *)
Definition sp_clear_cost (s : spt) : cost := if sp_flag s then c_free (8 * sp_cap s) else c0.
(* :65 operator<<(suspend_point&&) *)
Definition sp_merge (dst src : spt) : spt * cost :=
  let '(d, c) := sp_add_all dst (sp_hs src) in (d, cadd c (sp_clear_cost src)).

(* ---------- objects ---------- *)
(* waiter in an awaiter chain / mutex queue: (kind, index): 0 coroutine (index = its id), 1 blocking thread
   (helper index), 2 callback awaiter (slot index) *)
Definition waiter := (Z * Z)%type.
Definition who (w : waiter) : Z := let '(k, i) := w in if k =? 0 then i else if k =? 1 then 1000 + i else 2000 + i.

(* future<T>: f_st 0 absent, 1 constructed (no promise), 2 pending, 3 ready; f_ty 0 int, 1 void;
   chain = awaiter_collector as a LIFO list (head = last subscribed), awaiter.h:121 *)
Record fut := mkFut { f_st : Z; f_ty : Z; f_out : Z; f_val : Z; f_chain : list waiter }.
Definition fut0 : fut := mkFut 0 0 0 0 [].
(* mutex: m_st 0 free, 1 owned (ownership object held by the program), 2 granted to a coroutine that has
   not run yet; m_q = requests in arrival order (mutex.h:134-233: LIFO stack reversed into the FIFO _queue) *)
Record mtx := mkMtx { m_st : Z; m_q : list waiter }.
Definition mtx0 : mtx := mkMtx 0 [].

Definition NF : Z := 8.   Definition NM : Z := 4.   Definition NG : Z := 4.
Definition NS : Z := 4.   Definition NH : Z := 6.   Definition NC : Z := 32.   Definition NK : Z := 4.

Record state := mkSt {
  futs : list fut;
  mtxs : list mtx;
  gens : list (option (Z * Z * Z)); (* generator<int> / generator<int,int>: (values produced so far, or total+1 when finished; total; takes an argument) *)
  slots : list spt;               (* suspend_point<void> variables of the program *)
  rq : list item;                 (* coro_queue::instance->_queue contents (coroutine mode) *)
  dq : deque;                     (* ... and its allocation cursor *)
  hbusy : list bool;              (* helper thread blocked in wait() *)
  cbusy : list bool;              (* callback awaiter subscribed *)
  live : Z;                       (* live coroutine frames *)
  cfs : list (Z * Z)              (* call_fn_future_awaiter objects of the program: (operation pending, reads its handler still starts) *)
}.

Definition st0 : state :=
  mkSt (repeat fut0 (n NF)) (repeat mtx0 (n NM)) (repeat None (n NG)) (repeat sp_empty (n NS)) [] dq0
       (repeat false (n NH)) (repeat false (n NC)) 0 (repeat (0, 0) (n NK)).

Definition getf (st : state) (f : Z) : fut := nth (n f) (futs st) fut0.
Definition getm (st : state) (m : Z) : mtx := nth (n m) (mtxs st) mtx0.
Definition gets (st : state) (s : Z) : spt := nth (n s) (slots st) sp_empty.
Definition setf (st : state) (f : Z) (x : fut) : state :=
  mkSt (upd (futs st) f x) (mtxs st) (gens st) (slots st) (rq st) (dq st) (hbusy st) (cbusy st) (live st) (cfs st).
Definition setm (st : state) (m : Z) (x : mtx) : state :=
  mkSt (futs st) (upd (mtxs st) m x) (gens st) (slots st) (rq st) (dq st) (hbusy st) (cbusy st) (live st) (cfs st).
Definition setg (st : state) (g : Z) (x : option (Z * Z * Z)) : state :=
  mkSt (futs st) (mtxs st) (upd (gens st) g x) (slots st) (rq st) (dq st) (hbusy st) (cbusy st) (live st) (cfs st).
Definition sets (st : state) (s : Z) (x : spt) : state :=
  mkSt (futs st) (mtxs st) (gens st) (upd (slots st) s x) (rq st) (dq st) (hbusy st) (cbusy st) (live st) (cfs st).
Definition setq (st : state) (q : list item) (d : deque) : state :=
  mkSt (futs st) (mtxs st) (gens st) (slots st) q d (hbusy st) (cbusy st) (live st) (cfs st).
Definition seth (st : state) (t : Z) (b : bool) : state :=
  mkSt (futs st) (mtxs st) (gens st) (slots st) (rq st) (dq st) (upd (hbusy st) t b) (cbusy st) (live st) (cfs st).
Definition setc (st : state) (c : Z) (b : bool) : state :=
  mkSt (futs st) (mtxs st) (gens st) (slots st) (rq st) (dq st) (hbusy st) (upd (cbusy st) c b) (live st) (cfs st).
Definition setk (st : state) (k : Z) (x : Z * Z) : state :=
  mkSt (futs st) (mtxs st) (gens st) (slots st) (rq st) (dq st) (hbusy st) (cbusy st) (live st) (upd (cfs st) k x).
Definition addlive (st : state) (k : Z) : state :=
  mkSt (futs st) (mtxs st) (gens st) (slots st) (rq st) (dq st) (hbusy st) (cbusy st) (live st + k) (cfs st).

(* mark a waiter that leaves a chain / queue *)
Definition release_waiter (st : state) (w : waiter) : state :=
  let '(k, i) := w in if k =? 1 then seth st i false else if k =? 2 then setc st i false else st.

(* ---------- running ready coroutines ---------- *)
(* A resumed waiter coroutine reads its result, reports it and returns: async<void>'s final_awaiter destroys
   the frame (async.h:217-230).  A lock waiter takes the ownership it was granted.  A coroutine that starts now
   either finishes at once (future ready / mutex free) or subscribes and stays suspended.
   result: state, reports, frames freed *)
Definition run_item (st : state) (it : item) : state * list event * Z :=
  let '(k, w, o) := it in
  if k =? 0 then (addlive st (-1), [(w, f_out (getf st o), f_val (getf st o))], 1)
  else if k =? 1 then (addlive (setm st o (mkMtx 1 (m_q (getm st o)))) (-1), [(w, 3, 0)], 1)
  else if k =? 2 then
    let x := getf st o in
    if f_st x =? 3 then (addlive st (-1), [(w, f_out x, f_val x)], 1)
    else (setf st o (mkFut (f_st x) (f_ty x) (f_out x) (f_val x) ((0, w) :: f_chain x)), [], 0)
  else
    let x := getm st o in
    if m_st x =? 0 then (addlive (setm st o (mkMtx 1 (m_q x))) (-1), [(w, 3, 0)], 1)
    else (setm st o (mkMtx (m_st x) (m_q x ++ [(0, w)])), [], 0).

Fixpoint run_items (st : state) (l : list item) : state * list event * Z :=
  match l with
  | [] => (st, [], 0)
  | it :: t => let '(st1, e, k1) := run_item st it in let '(st2, es, k2) := run_items st1 t in (st2, e ++ es, k1 + k2)
  end.

(* The driver coroutine suspends: `pushed` handles and then the driver itself are appended to the ready queue,
   `first` is resumed by symmetric transfer, then flush_queue (coro_queue.h:63) pops and runs everything up to
   and including the driver.  None of the resumed coroutines enqueues anything. *)
Definition suspend_drain (st : state) (first pushed : list item) : state * list event * cost * Z :=
  let '(d1, c1) := dq_pushes (dq st) (length pushed + 1) in
  let '(d2, c2) := dq_pops d1 (length (rq st) + length pushed + 1) in
  let order := first ++ rq st ++ pushed in
  let '(st1, ev, k) := run_items (setq st [] d2) order in
  (st1, ev, cadd c1 c2, k).

(* What happens to a suspend point returned by resolve / unlock / held in a variable.
   how 0: discarded -> suspend_now (suspend_point.h:130): normal mode resumes every handle now, in array order;
          coroutine mode pushes them to the ready queue.
   how 1: co_await (coroutine mode): await_suspend (:167): pop the last, push the others, push the awaiting coroutine
   how 2: merged into the program's suspend point variable s (operator<<, :65)
   result: state, events, suspend-point cost, deque cost, frames freed, size of the largest suspend point involved
   (the returned one, or the variable after the merge) *)
Definition dispose (coro : bool) (how s : Z) (st : state) (sp : spt) : state * list event * cost * cost * Z * Z :=
  if how =? 2 then
    let '(d1, c) := sp_merge (gets st s) sp in (sets st s d1, [], c, c0, 0, sp_size d1)
  else if negb coro then
    let '(st1, ev, k) := run_items st (sp_hs sp) in (st1, ev, sp_clear_cost sp, c0, k, sp_size sp)
  else if how =? 0 then
    let '(d1, c) := dq_pushes (dq st) (length (sp_hs sp)) in
    (setq st (rq st ++ sp_hs sp) d1, [], sp_clear_cost sp, c, 0, sp_size sp)
  else
    match sp_hs sp with
    | [] => (st, [], sp_clear_cost sp, c0, 0, sp_size sp)
    | h0 :: t0 =>
        let '(st1, ev, c, k) := suspend_drain st [last (sp_hs sp) h0] (removelast (sp_hs sp)) in
        (st1, ev, sp_clear_cost sp, c, k, sp_size sp)
    end.

(* resume_chain_lk (awaiter.h:102): walk the chain from its head; a coroutine awaiter contributes its handle to
   the returned suspend point, a callback awaiter runs now, a sync awaiter wakes its thread *)
Fixpoint walk (f : Z) (out v : Z) (st : state) (sp : spt) (l : list waiter)
  : state * spt * cost * list event * list event :=
  match l with
  | [] => (st, sp, c0, [], [])
  | w :: t =>
      let st1 := release_waiter st w in
      let '(k, i) := w in
      if k =? 0 then
        let '(sp1, c1) := sp_add sp (0, i, f) in
        let '(st2, sp2, c2, cb, sy) := walk f out v st1 sp1 t in (st2, sp2, cadd c1 c2, cb, sy)
      else
        let '(st2, sp2, c2, cb, sy) := walk f out v st1 sp t in
        if k =? 2 then (st2, sp2, c2, (who w, out, v) :: cb, sy) else (st2, sp2, c2, cb, (who w, out, v) :: sy)
  end.

(* coro_queue::create_suspend_point(fn) (suspend_point.h:319) around a resolution whose own suspend point is discarded
   inside fn: the queue is active there (installed for the call in normal mode), so the handles are pushed to the ready
   queue; create_suspend_point then takes them back with back()/pop_back() into a new suspend point (reverse order).
   result: state, the new suspend point, suspend-point cost, deque cost *)
Definition csp_wrap (st : state) (sp : spt) : state * spt * cost * cost :=
  let k := length (sp_hs sp) in
  let '(d1, c1) := dq_pushes (dq st) k in
  let '(d2, c2) := dq_pop_backs d1 k in
  let '(ss, c3) := sp_add_all sp_empty (rev (sp_hs sp)) in
  (setq st (rq st) d2, ss, cadd (sp_clear_cost sp) c3, cadd c1 c2).

(* threads woken in one step report in helper order *)
Fixpoint insert_ev (e : event) (l : list event) : list event :=
  match l with
  | [] => [e]
  | x :: t => if fst (fst e) <=? fst (fst x) then e :: l else x :: insert_ev e t
  end.
Fixpoint sort_ev (l : list event) : list event :=
  match l with [] => [] | e :: t => insert_ev e (sort_ev t) end.

(* ---------- ops ---------- *)
Inductive op :=
| FNew (f ty : Z) | FGetP (f : Z)
| FAwaitCoro (f w mode : Z) | FAwaitSync (f t : Z) | FAwaitCb (f c : Z) | FAwaitCbA (f w cap : Z)
| FResolve (f kind how s v : Z) | FDestroy (f : Z)
| MTry (m : Z) | MLockCoro (m w mode : Z) | MLockSync (m t : Z) | MLockCb (m c : Z) | MUnlock (m how s : Z)
| GNew (g k a : Z) | GNext (g how arg : Z) | GDestroy (g : Z)
| SpFlush (s how : Z) | Pause | PMove (f : Z)
| CfStart (k mode v r : Z) | CfResolve (k kind v : Z) | OBad.

Record obs := mkObs { o_st : Z; o_res : Z; o_sps : Z; o_cfr : cost; o_csp : cost; o_cdq : cost; o_ev : list event }.
Definition rejected : obs := mkObs 1 0 0 c0 c0 c0 [].
Definition frame_new (heap : bool) : cost := if heap then c_alloc 0 else c0.
Definition frames_freed (heap : bool) (k : Z) : cost := if heap then mkCost 0 0 k 0 else c0.

(* how a suspend point may be disposed of in this mode *)
Definition how_ok (coro : bool) (how s : Z) : bool :=
  (how =? 0) || ((how =? 1) && coro) || ((how =? 2) && inr s NS).
Definition mode_ok (coro : bool) (mode : Z) : bool := (mode =? 0) || (((mode =? 1) || (mode =? 2)) && coro).

Definition refs_future (f : Z) (it : item) : bool := let '(k, _, o) := it in ((k =? 0) || (k =? 2)) && (o =? f).
Definition future_referenced (st : state) (f : Z) : bool :=
  existsb (refs_future f) (rq st) || existsb (fun s => existsb (refs_future f) (sp_hs s)) (slots st).

(* starting a coroutine: mode 0 = resumed at once (normal mode: detach() discarded; coroutine mode:
   detach().pop().resume()); mode 1 = `co_await coro.detach()`: the driver is queued behind it; mode 2 (coroutine
   mode) = detach() discarded: the start itself is queued *)
Definition after_start (coro : bool) (mode : Z) (st : state) (ev0 : list event) : state * list event * cost * Z :=
  if mode =? 1 then let '(st1, ev, c, k) := suspend_drain st [] [] in (st1, ev0 ++ ev, c, k)
  else (st, ev0, c0, 0).

Definition defer_start (st : state) (it : item) : state * cost :=
  let '(d1, c) := dq_push (dq st) in (addlive (setq st (rq st ++ [it]) d1) 1, c).

Definition await_coro_step (coro heap : bool) (st : state) (f w mode : Z) : state * obs :=
      let x := getf st f in
      if inr f NF && mode_ok coro mode && ((f_st x =? 2) || (f_st x =? 3)) then
        if mode =? 2 then
          let '(st1, c) := defer_start st (2, w, f) in
          (st1, mkObs 0 0 1 (frame_new heap) c0 c [])
        else if f_st x =? 3 then
          (* await_ready: the coroutine reports and returns at once: frame allocated and freed *)
          let '(st1, ev, c, k) := after_start coro mode st [(w, f_out x, f_val x)] in
          (st1, mkObs 0 0 0 (cadd (frame_new heap) (frames_freed heap (k + 1))) c0 c ev)
        else
          let st0' := addlive (setf st f (mkFut 2 (f_ty x) 0 0 ((0, w) :: f_chain x))) 1 in
          let '(st1, ev, c, k) := after_start coro mode st0' [] in
          (st1, mkObs 0 0 0 (cadd (frame_new heap) (frames_freed heap k)) c0 c ev)
      else (st, rejected)
.

(* the reads a handler starts itself: each completes synchronously with the next value *)
Fixpoint rearm_events (k v : Z) (r : nat) : list event :=
  match r with O => [] | S j => (3000 + k, 0, v + 1) :: rearm_events k (v + 1) j end.

Definition step (coro heap : bool) (st : state) (x : op) : state * obs :=
  match x with
  | FNew f ty =>
      (* ty: 0 int, 1 void, 2 int& (future<int&>), 3 a move-only struct holding an int,
         4 / 5 a trivially copyable struct of 264 / 1024 bytes (no allocation of its own) *)
      if inr f NF && inr ty 6 && (f_st (getf st f) =? 0)
      then (setf st f (mkFut 1 ty 0 0 []), mkObs 0 0 0 c0 c0 c0 [])
      else (st, rejected)
  | FGetP f =>
      if inr f NF && (f_st (getf st f) =? 1)
      then let x := getf st f in (setf st f (mkFut 2 (f_ty x) 0 0 []), mkObs 0 0 0 c0 c0 c0 [])
      else (st, rejected)
  | PMove f =>
      (* promise<T> q(std::move(p)); p = std::move(q);  — the promise is one pointer: nothing happens to the future *)
      if inr f NF && (f_st (getf st f) =? 2)
      then (st, mkObs 0 1 0 c0 c0 c0 [])
      else (st, rejected)
  | FAwaitCoro f w mode => await_coro_step coro heap st f w mode
  | FAwaitCbA f w cap =>
      (* callback_await<future<T>&>(callback, fut) / callback_await_alloc(storage, callback, fut) (callback_awaiter.h): the
         library wraps the callback into an async<void> coroutine that co_awaits the future and detaches it, i.e. a
         coroutine waiter whose start is immediate in normal mode and queued in coroutine mode; the closure of the
         callback (cap: 0 trivially copyable capture, 1 a small struct with a user-provided copy constructor, 2 a
         captured promise) lives in that frame: one frame (none under a non-heap storage), nothing else *)
      if inr cap 3 then await_coro_step coro heap st f w (if coro then 2 else 0) else (st, rejected)
  | FAwaitSync f t =>
      let x := getf st f in
      if inr f NF && inr t NH && negb (nth (n t) (hbusy st) true) && ((f_st x =? 2) || (f_st x =? 3)) then
        if f_st x =? 3 then (st, mkObs 0 0 0 c0 c0 c0 [(1000 + t, f_out x, f_val x)])
        else (seth (setf st f (mkFut 2 (f_ty x) 0 0 ((1, t) :: f_chain x))) t true, mkObs 0 0 0 c0 c0 c0 [])
      else (st, rejected)
  | FAwaitCb f c =>
      let x := getf st f in
      if inr f NF && inr c NC && negb (nth (n c) (cbusy st) true) && ((f_st x =? 2) || (f_st x =? 3)) then
        if f_st x =? 3 then (st, mkObs 0 0 0 c0 c0 c0 [(2000 + c, f_out x, f_val x)])
        else (setc (setf st f (mkFut 2 (f_ty x) 0 0 ((2, c) :: f_chain x))) c true, mkObs 0 0 0 c0 c0 c0 [])
      else (st, rejected)
  | FResolve f kind how s v =>
      (* kind: 0 value, 1 exception, 2 drop, 3 ~promise, 4 move-assignment of an empty promise over it
         how: 0/1/2 as in dispose; 10/11/12 = the same, but the resolution happens inside
         coro_queue::create_suspend_point and its result is what is disposed of *)
      let x := getf st f in
      let h := how mod 10 in
      if inr f NF && (f_st x =? 2) && inr kind 5 && ((how =? h) || (how =? h + 10)) && how_ok coro h s
         && ((kind <? 3) || (how =? 0)) then
        let out := if kind =? 0 then 0 else if kind =? 1 then 1 else 2 in
        let v' := if (kind =? 0) && negb (f_ty x =? 1) then v else 0 in
        let st1 := setf st f (mkFut 3 (f_ty x) out v' []) in
        let '(st2, sp, csp, cb, sy) := walk f out v' st1 sp_empty (f_chain x) in
        let '(st2', sp', csp1, cdq1) := if how =? h then (st2, sp, c0, c0) else csp_wrap st2 sp in
        let '(st3, ev, csp2, cdq, k, sps) := dispose coro h s st2' sp' in
        (st3, mkObs 0 1 sps (frames_freed heap k) (cadd csp (cadd csp1 csp2)) (cadd cdq1 cdq) (cb ++ ev ++ sort_ev sy))
      else (st, rejected)
  | FDestroy f =>
      let x := getf st f in
      if inr f NF && ((f_st x =? 1) || (f_st x =? 3)) && negb (future_referenced st f)
      then (setf st f fut0, mkObs 0 0 0 c0 c0 c0 [])
      else (st, rejected)
  | MTry m =>
      if inr m NM then
        let x := getm st m in
        if m_st x =? 0 then (setm st m (mkMtx 1 (m_q x)), mkObs 0 1 0 c0 c0 c0 [])
        else (st, mkObs 0 0 0 c0 c0 c0 [])
      else (st, rejected)
  | MLockCoro m w mode =>
      if inr m NM && mode_ok coro mode then
        let x := getm st m in
        if mode =? 2 then
          let '(st1, c) := defer_start st (3, w, m) in
          (st1, mkObs 0 0 1 (frame_new heap) c0 c [])
        else if m_st x =? 0 then
          let '(st1, ev, c, k) := after_start coro mode (setm st m (mkMtx 1 (m_q x))) [(w, 3, 0)] in
          (st1, mkObs 0 0 0 (cadd (frame_new heap) (frames_freed heap (k + 1))) c0 c ev)
        else
          let '(st1, ev, c, k) := after_start coro mode (addlive (setm st m (mkMtx (m_st x) (m_q x ++ [(0, w)]))) 1) [] in
          (st1, mkObs 0 0 0 (cadd (frame_new heap) (frames_freed heap k)) c0 c ev)
      else (st, rejected)
  | MLockSync m t =>
      if inr m NM && inr t NH && negb (nth (n t) (hbusy st) true) then
        let x := getm st m in
        if m_st x =? 0 then (setm st m (mkMtx 1 (m_q x)), mkObs 0 0 0 c0 c0 c0 [(1000 + t, 3, 0)])
        else (seth (setm st m (mkMtx (m_st x) (m_q x ++ [(1, t)]))) t true, mkObs 0 0 0 c0 c0 c0 [])
      else (st, rejected)
  | MLockCb m c =>
      if inr m NM && inr c NC && negb (nth (n c) (cbusy st) true) then
        let x := getm st m in
        if m_st x =? 0 then (setm st m (mkMtx 1 (m_q x)), mkObs 0 0 0 c0 c0 c0 [(2000 + c, 3, 0)])
        else (setc (setm st m (mkMtx (m_st x) (m_q x ++ [(2, c)]))) c true, mkObs 0 0 0 c0 c0 c0 [])
      else (st, rejected)
  | MUnlock m how s =>
      let x := getm st m in
      if inr m NM && (m_st x =? 1) && how_ok coro how s then
        (* mutex::unlock (mutex.h:149): hand over to the first request in arrival order *)
        match m_q x with
        | [] =>
            let '(st3, ev, csp2, cdq, k, sps) := dispose coro how s (setm st m (mkMtx 0 [])) sp_empty in
            (st3, mkObs 0 0 sps (frames_freed heap k) csp2 cdq ev)
        | w :: q =>
            let st1 := release_waiter st w in
            let '(k0, i) := w in
            if k0 =? 0 then
              let '(sp, csp) := sp_add sp_empty (1, i, m) in
              let '(st3, ev, csp2, cdq, k, sps) := dispose coro how s (setm st1 m (mkMtx 2 q)) sp in
              (st3, mkObs 0 0 sps (frames_freed heap k) (cadd csp csp2) cdq ev)
            else
              let '(st3, ev, csp2, cdq, k, sps) := dispose coro how s (setm st1 m (mkMtx 1 q)) sp_empty in
              (st3, mkObs 0 0 sps (frames_freed heap k) csp2 cdq ((who w, 3, 0) :: ev))
        end
      else (st, rejected)
  | GNew g k a =>
      if inr g NG && inr k 9 && inr a 2 && match nth (n g) (gens st) None with None => true | Some _ => false end
      then (addlive (setg st g (Some (0, k, a))) 1, mkObs 0 0 0 (frame_new heap) c0 c0 [])
      else (st, rejected)
  | GNext g how arg =>
      (* how 0..5: how mod 3 = 0 next(arg) as bool, 1 gen(arg) as future, 2 co_await next(arg); how < 3: the argument is a
         variable (passed by reference), how >= 3: it is a temporary.  how 6 / 7: through the generator's iterator
         (iterator.h): `it = gen.begin()` for the first value, afterwards `++it` (6) or `it++` (7, the proxy holding the
         previous value is discarded); how 8: `for (int v : gen)` over all remaining values (result: the last one).
         Same cost (none), same values. *)
      if inr g NG && inr how 9 && (inr (how mod 3) 2 || ((how mod 3 =? 2) && coro) || (6 <=? how)) then
        match nth (n g) (gens st) None with
        | None => (st, rejected)
        | Some (cur, k, a) =>
            if (6 <=? how) && ((a =? 1) || ((how <? 8) && (k <? cur))) then (st, rejected)
            else if how =? 8 then (setg st g (Some (k + 1, k, a)), mkObs 0 (if cur <? k then 100 * g + k else -1) 0 c0 c0 c0 [])
            else if cur <? k then (setg st g (Some (cur + 1, k, a)),
                              mkObs 0 (100 * g + cur + 1 + (if a =? 1 then 1000 * arg else 0)) 0 c0 c0 c0 [])
            else if cur =? k then (setg st g (Some (cur + 1, k, a)), mkObs 0 (-1) 0 c0 c0 c0 [])
            else if how mod 3 =? 1 then (st, rejected)
            else (st, mkObs 0 (-1) 0 c0 c0 c0 [])
        end
      else (st, rejected)
  | GDestroy g =>
      if inr g NG then
        match nth (n g) (gens st) None with
        | None => (st, rejected)
        | Some _ => (addlive (setg st g None) (-1), mkObs 0 0 0 (frames_freed heap 1) c0 c0 [])
        end
      else (st, rejected)
  | SpFlush s how =>
      if inr s NS && ((how =? 0) || ((how =? 1) && coro)) then
        let sp := gets st s in
        let '(st3, ev, csp2, cdq, k, sps) := dispose coro how 0 (sets st s sp_empty) sp in
        (st3, mkObs 0 0 sps (frames_freed heap k) csp2 cdq ev)
      else (st, rejected)
  | Pause =>
      if coro then
        let '(st1, ev, c, k) := suspend_drain st [] [] in
        (st1, mkObs 0 0 0 (frames_freed heap k) c0 c ev)
      else (st, rejected)
  | CfStart k mode v r =>
      (* call_fn_future_awaiter (future.h:1023): `awt << [&]{ return <operation>; }`.  mode 0/1/2: the operation completed
         synchronously (future already resolved with a value / an exception / no value when the awaiter subscribes):
         the handler (a member function) is called at once; mode 3: the operation is pending.  The handler reports what
         it got and then starts r more reads from a source that completes synchronously (re-arm from inside the
         handler, as such consumers do).  No coroutine, no frame, no memory anywhere on these paths. *)
      if inr k NK && inr mode 4 && inr r 6 && (fst (nth (n k) (cfs st) (1, 0)) =? 0) then
        if mode =? 3 then (setk st k (1, r), mkObs 0 0 0 c0 c0 c0 [])
        else (st, mkObs 0 0 0 c0 c0 c0 ((3000 + k, mode, if mode =? 0 then v else 0) :: rearm_events k v (n r)))
      else (st, rejected)
  | CfResolve k kind v =>
      if inr k NK && inr kind 3 && (fst (nth (n k) (cfs st) (0, 0)) =? 1) then
        (setk st k (0, 0),
         mkObs 0 1 0 c0 c0 c0 ((3000 + k, kind, if kind =? 0 then v else 0) :: rearm_events k v (Z.to_nat (snd (nth (n k) (cfs st) (0, 0))))))
      else (st, rejected)
  | OBad => (st, rejected)
  end.

Fixpoint run_from (coro heap : bool) (st : state) (l : list op) : list obs * state :=
  match l with
  | [] => ([], st)
  | x :: t => let '(st1, o) := step coro heap st x in
              let '(os, st2) := run_from coro heap st1 t in (o :: os, st2)
  end.

(* ---------- wire encoding ---------- *)
Definition decode (l : list Z) : op :=
  match l with
  | [1; f; ty] => FNew f ty
  | [2; f] => FGetP f
  | [3; f; w; mode] => FAwaitCoro f w mode
  | [4; f; t] => FAwaitSync f t
  | [5; f; c] => FAwaitCb f c
  | [6; f; kind; how; s; v] => FResolve f kind how s v
  | [7; f] => FDestroy f
  | [8; f] => PMove f
  | [9; f; w; cap] => FAwaitCbA f w cap
  | [10; m] => MTry m
  | [11; m; w; mode] => MLockCoro m w mode
  | [12; m; t] => MLockSync m t
  | [13; m; c] => MLockCb m c
  | [14; m; how; s] => MUnlock m how s
  | [20; g; k; a] => GNew g k a
  | [21; g; how; arg] => GNext g how arg
  | [22; g] => GDestroy g
  | [30; s; how] => SpFlush s how
  | [31] => Pause
  | [40; k; mode; v; r] => CfStart k mode v r
  | [41; k; kind; v] => CfResolve k kind v
  | _ => OBad
  end.

Definition encode_op (x : op) : list Z :=
  match x with
  | FNew f ty => [1; f; ty] | FGetP f => [2; f] | PMove f => [8; f] | FAwaitCbA f w cap => [9; f; w; cap]
  | FAwaitCoro f w mode => [3; f; w; mode] | FAwaitSync f t => [4; f; t] | FAwaitCb f c => [5; f; c]
  | FResolve f kind how s v => [6; f; kind; how; s; v] | FDestroy f => [7; f]
  | MTry m => [10; m] | MLockCoro m w mode => [11; m; w; mode] | MLockSync m t => [12; m; t]
  | MLockCb m c => [13; m; c] | MUnlock m how s => [14; m; how; s]
  | GNew g k a => [20; g; k; a] | GNext g how arg => [21; g; how; arg] | GDestroy g => [22; g]
  | SpFlush s how => [30; s; how] | Pause => [31] | OBad => [0]
  | CfStart k mode v r => [40; k; mode; v; r] | CfResolve k kind v => [41; k; kind; v]
  end.

Fixpoint flat_ev (l : list event) : list Z :=
  match l with [] => [] | (a, b, c) :: t => a :: b :: c :: flat_ev t end.

(* other = everything that is not a coroutine frame *)
Definition o_other (o : obs) : cost := cadd (o_csp o) (o_cdq o).

(* status, result, suspend point size, frame allocs, frame frees, other allocs, bytes, other frees, bytes, events *)
Definition encode_obs (o : obs) : list Z :=
  o_st o :: o_res o :: o_sps o :: c_a (o_cfr o) :: c_f (o_cfr o)
        :: c_a (o_other o) :: c_ab (o_other o) :: c_f (o_other o) :: c_fb (o_other o) :: flat_ev (o_ev o).

Definition al_run (coro heap : bool) (ops : list (list Z)) : list (list Z) :=
  map encode_obs (fst (run_from coro heap st0 (map decode ops))).

(* diagnostic engines al?hq / al?sq: the deque component of every step alone (used to classify a failing trace) *)
Definition al_run_dq (coro heap : bool) (ops : list (list Z)) : list (list Z) :=
  map (fun o => [c_a (o_cdq o); c_ab (o_cdq o); c_f (o_cdq o); c_fb (o_cdq o)])
      (fst (run_from coro heap st0 (map decode ops))).

(* ---------- the property as a decidable predicate over an observed trace ---------- *)
Definition frames_of (x : op) : Z :=
  match x with FAwaitCoro _ _ _ => 1 | FAwaitCbA _ _ _ => 1 | MLockCoro _ _ _ => 1 | GNew _ _ _ => 1 | _ => 0 end.

(* The only memory a suspend point may use: the documented heap array once it carries more than three handles
   (suspend_point.h:33).  It depends on handle counts alone: a suspend point that grew from empty to n handles. *)
Definition dummy : item := (0, 0, 0).
Definition mk_sp (k : Z) : spt := fst (sp_add_all sp_empty (repeat dummy (n k))).
Definition grow_cost (a b : Z) : cost := snd (sp_add_all (mk_sp a) (repeat dummy (n (b - a)))).
Definition clear_cost (k : Z) : cost := sp_clear_cost (mk_sp k).
Definition ceq (a b : cost) : bool :=
  (c_a a =? c_a b) && (c_ab a =? c_ab b) && (c_f a =? c_f b) && (c_fb a =? c_fb b).

(* what the suspend points of one accepted step may cost, given the sizes of the program's suspend point variables
   before the step and the size reported for the step; also the sizes after the step.  None = malformed *)
Definition sp_budget (sl : list Z) (x : op) (sps : Z) : option (cost * list Z) :=
  match x with
  | FResolve f kind how s v =>
      let h := how mod 10 in
      let old := if h =? 2 then nth (n s) sl 0 else 0 in
      let k := sps - old in
      if 0 <=? k then
        let once := cadd (grow_cost 0 k) (clear_cost k) in
        let made := if how =? h then once else cadd once once in
        if h =? 2 then Some (cadd made (grow_cost old sps), upd sl s sps) else Some (made, sl)
      else None
  | MUnlock m how s =>
      if how =? 2 then
        let old := nth (n s) sl 0 in
        if (0 <=? sps - old) && (sps - old <=? 1) then Some (grow_cost old sps, upd sl s sps) else None
      else if (0 <=? sps) && (sps <=? 1) then Some (c0, sl) else None
  | SpFlush s how => Some (clear_cost sps, upd sl s 0)
  | _ => Some (c0, sl)
  end.

(* one accepted step: the only allocations are the frames the op creates (none under a non-heap storage) and the
   suspend point arrays above; with at most three handles per suspend point that is: nothing but the frames *)
Definition line_ok (heap : bool) (sl : list Z) (x : op) (l : list Z) : option (list Z) :=
  match l with
  | 1 :: _ => Some sl
  | 0 :: _ :: sps :: fa :: ff :: oa :: oab :: of_ :: ofb :: _ =>
      match sp_budget sl x sps with
      | Some (c, sl') =>
          if (fa =? (if heap then frames_of x else 0)) && (0 <=? ff) && (heap || (ff =? 0))
             && ceq (mkCost oa oab of_ ofb) c
          then Some sl' else None
      | None => None
      end
  | _ => None
  end.

Fixpoint lines_ok (heap : bool) (sl : list Z) (ops : list op) (obs : list (list Z)) : bool :=
  match ops, obs with
  | [], [] => true
  | x :: t, l :: u => match line_ok heap sl x l with Some sl' => lines_ok heap sl' t u | None => false end
  | _, _ => false
  end.

Definition al_oracle (heap : bool) (ops obs : list (list Z)) : bool :=
  lines_ok heap (repeat 0 (n NS)) (map decode ops) obs.

(* ---------- the refutation witness (coroutine mode): k rounds of
   new future, take promise, a coroutine awaits it, resolve and co_await the returned suspend point, destroy ---------- *)
Definition round : list op := [FNew 0 0; FGetP 0; FAwaitCoro 0 7 0; FResolve 0 0 1 0 42; FDestroy 0].
Fixpoint rounds (k : nat) : list op := match k with O => [] | S j => round ++ rounds j end.
Definition witness : list op := rounds 64.
(* engine `alw`: prints the witness program itself, so that the check replays exactly this program on the real code *)
Definition al_witness (_ : list (list Z)) : list (list Z) := map encode_op witness.
Definition al_witness_oracle (_ _ : list (list Z)) : bool := true.

(* ---------- cross-check of the controlled-schedule harnesses of C01/C02 (ctl_cell.cpp) and C07/C08 (ctl_mutex.cpp):
   the number of operator new calls made by the scenario threads must be the number of coroutine frames the scenario
   creates (+ one node per callback waiter, which that harness allocates itself), whatever the schedule ---------- *)
(* thread kinds of ctl_cell.cpp: resolver 1 k d: k 4/5 an async coroutine (one frame), 7 a coroutine doing
   `co_await promise(d)` (one frame), 0..3 and 6 no coroutine; waiter 2 k: k 0/4 a coroutine (one frame), 2 a callback
   awaiter (that harness allocates its CbCtx node), 5 call_fn_future_awaiter: the FIRST such waiter owns the future as
   its internal future and allocates nothing — the library must not create anything for it —, further ones are plain
   callback awaiters (CbCtx node); 1/3 blocking threads (nothing).  Kinds outside these lists are never sent here. *)
Fixpoint cell_allocs (seen_callfn : bool) (ops : list (list Z)) : Z :=
  match ops with
  | [] => 0
  | [1; k; d] :: t => (if (k =? 4) || (k =? 5) || (k =? 7) then 1 else 0) + cell_allocs seen_callfn t
  | [2; k] :: t =>
      if k =? 5 then (if seen_callfn then 1 else 0) + cell_allocs true t
      else (if (k =? 0) || (k =? 4) || (k =? 2) then 1 else 0) + cell_allocs seen_callfn t
  | _ :: t => cell_allocs seen_callfn t
  end.
Fixpoint sumz (l : list Z) : Z := match l with [] => 0 | x :: t => x + sumz t end.
Definition alx_cell_run (ops : list (list Z)) : list (list Z) := [[20; cell_allocs false ops]].

Fixpoint rounds_ok (l : list Z) : bool :=
  match l with
  | [] => true
  | a :: r :: t => inr a 2 && inr r 3 && rounds_ok t
  | _ => false
  end.
Definition mutex_decl_allocs (l : list Z) : Z :=
  match l with
  | 1 :: k :: rs => if (k =? 0) && rounds_ok rs then 1 else 0   (* a coroutine contender = one frame *)
  | _ => 0
  end.
Definition alx_mutex_run (ops : list (list Z)) : list (list Z) := [[20; sumz (map mutex_decl_allocs ops)]].
(* the cross-check property itself: observed operator new calls of the scenario = frames it creates
   (no line at all = the schedule deadlocked and the process was restarted: judged by C02/C07, not here) *)
Definition alx_cell_oracle (ops obs : list (list Z)) : bool :=
  match obs with [[20; k]] => k =? cell_allocs false ops | [] => true | _ => false end.
Definition alx_mutex_oracle (ops obs : list (list Z)) : bool :=
  match obs with [[20; k]] => k =? sumz (map mutex_decl_allocs ops) | [] => true | _ => false end.
