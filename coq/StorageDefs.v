(* StorageDefs.v — executable model of the coroutine storage policies (C19):
   default_storage (with_allocator.h:81-90), reusable_storage (coro_storage.h:27-63),
   reusable_storage_mtsafe (coro_storage.h:153-182, as repaired by 1b5a79f), stack_storage
   (alloca_storage.h:26-61), placement_alloc (coro_storage.h:133-143), reusable_buffer_storage over a
   libstdc++ std::vector (coro_storage.h:196-213), and promise_extra_storage<T,Base> on top of any of
   them (coro_storage.h:221-247); custom_allocator_base (with_allocator.h:14-39) routes the promise's
   operator new / delete to alloc / dealloc.
   Memory = blocks.  A heap block has an id (fresh per ::operator new), a size, and is live until
   ::operator delete; own blocks (user buffer, alloca area) are never allocated or freed by the policy.
   Every frame starts at offset 0 of its block, so two frames overlap iff they sit in the same block.
   Model only; proofs are in StorageProofs.v. *)
From Cocls Require Import Base.
Local Open Scope Z_scope.

Inductive policy := PDef | PReu | PMts | PStk | PPlc | PBuf.
(* p_x = sizeof(T) of the extra object (0: no promise_extra_storage wrapper)
   p_a = stack: initial value of the shared size state; placement: size of the user buffer; buffer: sizeof(item)
   p_b = buffer: initial number of items of the vector *)
Record prm := mkPrm { p_pol : policy; p_x : Z; p_a : Z; p_b : Z; p_xal : Z (* alignof(T) of the extra object *) }.

(* promise_extra_storage (as repaired by fixes/C19-extra-align.patch): the extra object sits behind the frame at the next
   offset that is a multiple of alignof(T), and the size handed to the base storage is kept a multiple of the pointer
   size so that whatever the base puts behind it (owner pointer, flag byte) is aligned too *)
Definition align_up (n a : Z) : Z := (n + a - 1) / a * a.
Definition xoff (p : prm) (sz : Z) : Z := if 0 <? p_x p then align_up sz (p_xal p) else sz.
Definition nreq (p : prm) (sz : Z) : Z := if 0 <? p_x p then align_up (xoff p sz + p_x p) 8 else sz.

Inductive blk := BNull | BHeap (n : nat) | BOwn (n : nat).
Definition blk_eqb (a b : blk) : bool :=
  match a, b with
  | BNull, BNull => true | BHeap x, BHeap y => Nat.eqb x y | BOwn x, BOwn y => Nat.eqb x y | _, _ => false
  end.

(* ---------- global heap: ::operator new / ::operator delete ---------- *)
Record heap := mkHeap { h_next : nat; h_live : list (nat * Z); h_allocs : Z; h_frees : Z; h_bad : Z }.
Definition heap0 : heap := mkHeap 0 [] 0 0 0.

Fixpoint hmem (b : nat) (l : list (nat * Z)) : bool :=
  match l with [] => false | (x, _) :: t => Nat.eqb b x || hmem b t end.
Fixpoint hrem (b : nat) (l : list (nat * Z)) : list (nat * Z) :=
  match l with [] => [] | (x, z) :: t => if Nat.eqb b x then t else (x, z) :: hrem b t end.
Fixpoint hsize (b : nat) (l : list (nat * Z)) : Z :=
  match l with [] => 0 | (x, z) :: t => if Nat.eqb b x then z else hsize b t end.

Definition hnew (h : heap) (sz : Z) : heap * nat :=
  (mkHeap (S (h_next h)) ((h_next h, sz) :: h_live h) (h_allocs h + 1) (h_frees h) (h_bad h), h_next h).
(* h_bad counts deletes of something that is not a live heap block (double free / foreign pointer) *)
Definition hdel (h : heap) (b : nat) : heap :=
  if hmem b (h_live h)
  then mkHeap (h_next h) (hrem b (h_live h)) (h_allocs h) (h_frees h + 1) (h_bad h)
  else mkHeap (h_next h) (h_live h) (h_allocs h) (h_frees h) (h_bad h + 1).
(* ::operator delete(nullptr) is a no-op *)
Definition hdel_opt (h : heap) (p : option nat) : heap := match p with Some b => hdel h b | None => h end.
Definition hdel_blk (h : heap) (b : blk) : heap :=
  match b with BHeap n => hdel h n | BNull => h | BOwn _ => mkHeap (h_next h) (h_live h) (h_allocs h) (h_frees h) (h_bad h + 1) end.

(* ---------- the storage object(s) ---------- *)
Record sto := mkSto {
  s_ptr : option nat;   (* reusable_storage::_ptr  | buffer: vector data pointer *)
  s_cap : Z;            (* reusable_storage::_capacity *)
  s_busy : bool;        (* reusable_storage_mtsafe::_busy *)
  s_state : Z;          (* stack_storage: the shared size state (std::size_t &_state) *)
  s_bsize : Z;          (* buffer: vector size() in items *)
  s_bcap : Z;           (* buffer: vector capacity() in items *)
  s_ownc : nat          (* stack: number of alloca areas handed out so far *)
}.
Definition sto0 : sto := mkSto None 0 false 0 0 0 0.
Definition optblk (p : option nat) : blk := match p with Some b => BHeap b | None => BNull end.

(* what a policy's alloc returns: block, bytes available from the returned pointer to the end of that
   block, bytes the policy itself needs there (request + its trailer), and the trailer content that the
   static dealloc later reads back from the memory behind the frame *)
Record grant := mkGr { g_blk : blk; g_room : Z; g_need : Z; g_tr : bool }.

(* reusable_storage::alloc, coro_storage.h:48-55 *)
Definition reu_alloc (h : heap) (s : sto) (n : Z) : heap * sto * blk :=
  if n >? s_cap s then                                   (* :49 sz > _capacity *)
    let h1 := hdel_opt h (s_ptr s) in                    (* :50 *)
    let '(h2, id) := hnew h1 n in                        (* :51 *)
    (h2, mkSto (Some id) n (s_busy s) (s_state s) (s_bsize s) (s_bcap s) (s_ownc s), BHeap id)  (* :52 *)
  else (h, s, optblk (s_ptr s)).                         (* :54 *)

Definition ptr_sz : Z := 8.   (* size of the owner pointer stored behind the frame, LP64 *)
Definition set_busy (s : sto) (b : bool) : sto :=
  mkSto (s_ptr s) (s_cap s) b (s_state s) (s_bsize s) (s_bcap s) (s_ownc s).

(* reusable_storage_mtsafe::alloc, coro_storage.h:155-170: the branch taken when the exchange found
   _busy set (:161-162) and the branch of the thread that acquired it (:164-165); :167-168 store the trailer *)
Definition mts_lost (h : heap) (s : sto) (n : Z) : heap * sto * grant :=
  let '(h1, id) := hnew h (n + ptr_sz) in
  (h1, s, mkGr (BHeap id) (n + ptr_sz) (n + ptr_sz) false).
Definition mts_won (h : heap) (s : sto) (n : Z) : heap * sto * grant :=
  let '(h1, s1, b) := reu_alloc h s (n + ptr_sz) in
  (h1, s1, mkGr b (s_cap s1) (n + ptr_sz) true).

(* libstdc++ vector<T>::resize(items) growing from size to items: _M_default_append *)
Definition vec_resize (h : heap) (s : sto) (itemsz items : Z) : heap * sto :=
  if items >? s_bcap s then
    let ncap := Z.max (2 * s_bsize s) items in
    let '(h1, id) := hnew h (ncap * itemsz) in
    let h2 := hdel_opt h1 (s_ptr s) in
    (h2, mkSto (Some id) (s_cap s) (s_busy s) (s_state s) items ncap (s_ownc s))
  else (h, mkSto (s_ptr s) (s_cap s) (s_busy s) (s_state s) items (s_bcap s) (s_ownc s)).

(* Base::alloc(n) for each policy *)
Definition balloc (p : prm) (h : heap) (s : sto) (n : Z) : heap * sto * grant :=
  match p_pol p with
  | PDef =>                                               (* with_allocator.h:83-85 *)
      let '(h1, id) := hnew h n in (h1, s, mkGr (BHeap id) n n false)
  | PReu =>
      let '(h1, s1, b) := reu_alloc h s n in (h1, s1, mkGr b (s_cap s1) n false)
  | PMts =>
      if s_busy s then mts_lost h s n                     (* :160 exchange returned true *)
      else mts_won h (set_busy s true) n
  | PStk =>                                               (* alloca_storage.h:29 constructor, :31 operator=, :38-50 alloc *)
      let asz := s_state s in                             (* _alloc_size = _state; the caller allocas that many bytes *)
      let s0 := mkSto (s_ptr s) (s_cap s) (s_busy s) (s_state s) (s_bsize s) (s_bcap s) (S (s_ownc s)) in
      if n + 1 <=? asz then (h, s0, mkGr (BOwn (s_ownc s)) asz (n + 1) false)         (* :39-42 flag 0 *)
      else let '(h1, id) := hnew h (n + 1) in                                         (* :44 *)
           (h1, mkSto (s_ptr s) (s_cap s) (s_busy s) (n + 1) (s_bsize s) (s_bcap s) (S (s_ownc s)),   (* :45 *)
            mkGr (BHeap id) (n + 1) (n + 1) true)                                     (* :46-48 flag 1 *)
  | PPlc => (h, s, mkGr (BOwn 0) (p_a p) n false)         (* coro_storage.h:136 *)
  | PBuf =>                                               (* coro_storage.h:203-208 *)
      let itemsz := p_a p in
      let items := (n + itemsz - 1) / itemsz in
      let '(h1, s1) := if s_bsize s <? items then vec_resize h s itemsz items else (h, s) in
      (h1, s1, mkGr (optblk (s_ptr s1)) (s_bcap s1 * itemsz) n false)
  end.

(* Base::dealloc(ptr, n): static, decides from the trailer stored behind the frame *)
Definition bdealloc (p : prm) (h : heap) (s : sto) (b : blk) (tr : bool) : heap * sto :=
  match p_pol p with
  | PDef => (hdel_blk h b, s)                             (* with_allocator.h:86-88 *)
  | PReu | PPlc | PBuf => (h, s)                          (* coro_storage.h:56, :137, :209 *)
  | PMts => if tr then (h, set_busy s false)              (* :174-175 me != nullptr *)
            else (hdel_blk h b, s)                        (* :177 *)
  | PStk => if tr then (hdel_blk h b, s) else (h, s)      (* alloca_storage.h:52-55 *)
  end.

(* ---------- frames, event log ---------- *)
Record frame := mkFr { f_id : nat; f_blk : blk; f_n : Z; f_need : Z; f_room : Z; f_tr : bool; f_sz : Z (* the compiler's request *) }.

(* events: (code, frame id).  1 Base::alloc returned  2 extra object constructed  3 coroutine promise constructed
   6 coroutine promise destroyed  4 extra object destroyed  5 Base::dealloc called *)
Definition ev := (Z * nat)%type.
Definition create_evs (x : Z) (fid : nat) : list ev :=
  (1, fid) :: (if 0 <? x then [(2, fid)] else []) ++ [(3, fid)].
Definition finish_evs (x : Z) (fid : nat) : list ev :=
  (6, fid) :: (if 0 <? x then [(4, fid)] else []) ++ [(5, fid)].

Record core := mkCore {
  hp : heap; st : sto;
  frs : list (nat * frame);     (* slot -> live frame *)
  c_nfid : nat;                 (* frames created so far *)
  c_max : Z;                    (* ghost: largest n served from the reusable block / learned by the policy *)
  c_up : bool;                  (* storage object constructed and not yet destroyed *)
  c_log : list ev
}.
Definition core0 : core := mkCore heap0 sto0 [] 0 0 false [].

Fixpoint fget (l : list (nat * frame)) (i : nat) : option frame :=
  match l with [] => None | (k, f) :: t => if Nat.eqb i k then Some f else fget t i end.
Fixpoint fdel (l : list (nat * frame)) (i : nat) : list (nat * frame) :=
  match l with [] => [] | (k, f) :: t => if Nat.eqb i k then fdel t i else (k, f) :: fdel t i end.
Fixpoint overlaps (b : blk) (l : list (nat * frame)) : Z :=
  match l with [] => 0 | (_, f) :: t => (if blk_eqb b (f_blk f) then 1 else 0) + overlaps b t end.

(* construction of the storage object (and of what the caller has to provide) *)
Definition init_core (p : prm) : core :=
  match p_pol p with
  | PStk => mkCore heap0 (mkSto None 0 false (p_a p) 0 0 0) [] 0 0 true []
  | PBuf => if 0 <? p_b p   (* std::vector<item> v(n0) *)
            then let '(h, id) := hnew heap0 (p_b p * p_a p) in
                 mkCore h (mkSto (Some id) 0 false 0 (p_b p) (p_b p) 0) [] 0 0 true []
            else mkCore heap0 sto0 [] 0 0 true []
  | _ => mkCore heap0 sto0 [] 0 0 true []
  end.

(* new ghost maximum: the sizes the policy has "learned" *)
Definition learn (p : prm) (c : core) (n : Z) (g : grant) : Z :=
  match p_pol p with
  | PMts => if g_tr g then Z.max (c_max c) n else c_max c
  | _ => Z.max (c_max c) n
  end.

(* frame creation given the result of Base::alloc(sz + sizeof(T)):
   promise_extra_storage::alloc coro_storage.h:229-234 constructs T behind the frame, then the
   compiler constructs the promise in the returned memory *)
Definition mk_frame (p : prm) (c : core) (slot : nat) (sz : Z) (r : heap * sto * grant) : core * frame :=
  let '(h1, s1, g) := r in
  let n := nreq p sz in
  let f := mkFr (c_nfid c) (g_blk g) n (g_need g) (g_room g) (g_tr g) sz in
  (mkCore h1 s1 ((slot, f) :: frs c) (S (c_nfid c)) (learn p c n g) (c_up c)
          (c_log c ++ create_evs (p_x p) (c_nfid c)), f).

Definition create (p : prm) (c : core) (slot : nat) (sz : Z) : core * frame :=
  mk_frame p c slot sz (balloc p (hp c) (st c) (nreq p sz)).

(* frame destruction: promise destroyed, custom_allocator_base::operator delete (with_allocator.h:25-27) ->
   promise_extra_storage::dealloc :236-240 (x->~T(), then Base::dealloc(ptr, sz + sizeof(T))) *)
Definition finish (p : prm) (c : core) (slot : nat) (f : frame) : core :=
  let '(h1, s1) := bdealloc p (hp c) (st c) (f_blk f) (f_tr f) in
  mkCore h1 s1 (fdel (frs c) slot) (c_nfid c) (c_max c) (c_up c) (c_log c ++ finish_evs (p_x p) (f_id f)).

(* destructor of the storage (and of the caller's vector) *)
Definition destroy (p : prm) (c : core) : core :=
  let h1 := match p_pol p with
            | PReu | PMts | PBuf => hdel_opt (hp c) (s_ptr (st c))   (* coro_storage.h:45-47; ~vector *)
            | _ => hp c
            end in
  mkCore h1 (st c) (frs c) (c_nfid c) (c_max c) false (c_log c).

(* ---------- operations, guards ---------- *)
Inductive op := OInit (x a b xal : Z) | OCreate (slot : nat) (sz : Z) | OFinish (slot : nat) | ODestroy | OBad.

Definition max_slots : nat := 64.

(* structural validity: what the harness itself has to refuse (no such slot, storage not there) *)
Definition wf_op (c : core) (o : op) : bool :=
  match o with
  | OInit x a b xal => negb (c_up c) && Nat.eqb (c_nfid c) 0 && (0 <=? x) && (0 <=? a) && (0 <=? b) && (0 <? xal)
  | OCreate slot sz => c_up c && (slot <? max_slots)%nat && (0 <? sz)
                       && match fget (frs c) slot with None => true | Some _ => false end
  | OFinish slot => c_up c && match fget (frs c) slot with Some _ => true | None => false end
  | ODestroy => c_up c && match frs c with [] => true | _ => false end
  | OBad => false
  end.

(* the documented usage contract of the non-thread-safe single-block policies:
   reusable_storage / placement_alloc / reusable_buffer_storage serve one live frame at a time,
   placement memory must be large enough, buffer items have positive size *)
Definition contract (p : prm) (c : core) (o : op) : bool :=
  match o with
  | OCreate _ sz =>
      match p_pol p with
      | PReu | PBuf => match frs c with [] => true | _ => false end
      | PPlc => match frs c with [] => nreq p sz <=? p_a p | _ => false end
      | _ => true
      end
  | OInit _ a _ _ => match p_pol p with PBuf => 0 <? a | _ => true end
  | _ => true
  end.

(* observation lines *)
Definition ev_codes (l : list ev) : list Z := map fst l.
Definition rejected : list Z := [1].

Definition is_fresh (h0 : heap) (b : blk) : bool :=
  match b with BHeap n => (h_next h0 <=? n)%nat | _ => false end.
Definition released (h1 : heap) (b : blk) : bool :=
  match b with BHeap n => negb (hmem n (h_live h1)) | _ => false end.

Definition create_obs (p : prm) (c c1 : core) (f : frame) : list Z :=
  [0; h_allocs (hp c1) - h_allocs (hp c); h_frees (hp c1) - h_frees (hp c);
   b2z (is_fresh (hp c) (f_blk f)); f_room f; overlaps (f_blk f) (frs c);
   if 0 <? p_x p then Z.of_nat (f_id f) else 0; if 0 <? p_x p then xoff p (f_sz f) else 0] ++ ev_codes (create_evs (p_x p) (f_id f)).
Definition finish_obs (p : prm) (c c1 : core) (f : frame) : list Z :=
  [0; h_allocs (hp c1) - h_allocs (hp c); h_frees (hp c1) - h_frees (hp c);
   b2z (released (hp c1) (f_blk f)); 1; f_sz f] ++ ev_codes (finish_evs (p_x p) (f_id f)).

(* one op, executed unconditionally when structurally valid (no contract check) *)
Definition exec (p : prm) (c : core) (o : op) : core * list Z :=
  match o with
  | OInit _ _ _ _ => let c1 := init_core p in (c1, [0; h_allocs (hp c1); 0])
  | OCreate slot sz => let '(c1, f) := create p c slot sz in (c1, create_obs p c c1 f)
  | OFinish slot =>
      match fget (frs c) slot with
      | Some f => let c1 := finish p c slot f in (c1, finish_obs p c c1 f)
      | None => (c, rejected)
      end
  | ODestroy => let c1 := destroy p c in (c1, [0; 0; h_frees (hp c1) - h_frees (hp c)])
  | OBad => (c, rejected)
  end.

(* the parameters travel in the Init op *)
Definition prm_of (pol : policy) (p : prm) (o : op) : prm :=
  match o with OInit x a b xal => mkPrm pol x a b xal | _ => p end.

(* ustep: only the structural guard (histories that may break the contract);  gstep: both guards *)
Definition ustep (p : prm) (c : core) (o : op) : core * list Z :=
  if wf_op c o then exec p c o else (c, rejected).
Definition gstep (p : prm) (c : core) (o : op) : core * list Z :=
  if wf_op c o && contract p c o then exec p c o else (c, rejected).

Fixpoint run_with (stp : prm -> core -> op -> core * list Z) (pol : policy) (p : prm) (c : core) (l : list op)
  : list (list Z) * (prm * core) :=
  match l with
  | [] => ([], (p, c))
  | o :: t => let p1 := if wf_op c o then prm_of pol p o else p in
              let '(c1, ob) := stp p1 c o in
              let '(obs, r) := run_with stp pol p1 c1 t in (ob :: obs, r)
  end.
Definition prm0 (pol : policy) : prm := mkPrm pol 0 0 0 8.
Definition run_u pol l := run_with ustep pol (prm0 pol) core0 l.
Definition run_g pol l := run_with gstep pol (prm0 pol) core0 l.

(* does a history respect the contract?  (every structurally valid op also passes `contract`) *)
Fixpoint contract_ok_from (pol : policy) (p : prm) (c : core) (l : list op) : bool :=
  match l with
  | [] => true
  | o :: t => let p1 := if wf_op c o then prm_of pol p o else p in
              (negb (wf_op c o) || contract p1 c o) && contract_ok_from pol p1 (fst (ustep p1 c o)) t
  end.
Definition contract_ok pol l := contract_ok_from pol (prm0 pol) core0 l.

(* ---------- wire ---------- *)
Definition n (z : Z) : nat := Z.to_nat z.
Definition decode (l : list Z) : op :=
  match l with
  | [0; x; a; b] => OInit x a b 8
  | [0; x; a; b; xal] => OInit x a b xal
  | [1; slot; _; sz] => if 0 <=? slot then OCreate (n slot) sz else OBad
  | [2; slot] => if 0 <=? slot then OFinish (n slot) else OBad
  | [9] => ODestroy
  | _ => OBad
  end.

Definition st_run (pol : policy) (ops : list (list Z)) : list (list Z) :=
  fst (run_g pol (map decode ops)).

(* ---------- decidable form of C19 on an observed trace (run on the implementation's output) ---------- *)
Definition trailer (pol : policy) : Z :=
  match pol with PMts => ptr_sz | PStk => 1 | _ => 0 end.
Definition reuses (pol : policy) : bool :=
  match pol with PReu | PMts | PStk | PBuf | PPlc => true | PDef => false end.

Record ost := mkO {
  o_x : Z; o_up : bool; o_live : list (Z * Z);   (* live frames: slot, requested size *)
  o_max : Z; o_nc : Z; o_allocs : Z; o_frees : Z; o_ok : bool; o_xal : Z
}.
Fixpoint zassoc_mem (k : Z) (l : list (Z * Z)) : bool :=
  match l with [] => false | (a, _) :: t => Z.eqb k a || zassoc_mem k t end.
Fixpoint zassoc_get (k : Z) (l : list (Z * Z)) : Z :=
  match l with [] => -1 | (a, b) :: t => if Z.eqb k a then b else zassoc_get k t end.
Fixpoint zassoc_del (k : Z) (l : list (Z * Z)) : list (Z * Z) :=
  match l with [] => [] | (a, b) :: t => if Z.eqb k a then t else (a, b) :: zassoc_del k t end.
Definition zlist_eqb (a b : list Z) : bool :=
  Nat.eqb (length a) (length b) && forallb (fun q => Z.eqb (fst q) (snd q)) (combine a b).

(* one (op, observation) pair.  That rejected ops are rejected for a reason visible in the ops themselves is
   not checked here (that is the correspondence check); the oracle checks the property on accepted ops:
   size      room behind the frame covers the request, the extra object at its observed offset and the policy's trailer;
             the extra object lies behind the frame at an offset that is a multiple of its alignment
   exclusive overlap count 0
   freed     finish frees at most one block, and exactly when the frame's block was released; the storage's dealloc is
             told the size its alloc was asked for; allocations = frees at the end
   warm      a create no larger than an earlier one, at a moment when the policy's block is free, costs 0 allocations
   extra     event order alloc < ctor < promise | promise dtor < dtor < dealloc, each once; value readable at once *)
Definition oinit (s : ost) (x xal al fr : Z) : ost :=
  mkO x true [] 0 0 (o_allocs s + al) (o_frees s + fr) (o_ok s && (fr =? 0) && (0 <=? al)) xal.

Definition ostep (pol : policy) (s : ost) (q : list Z * list Z) : ost :=
  let '(o, ob) := q in
  let bad := mkO (o_x s) (o_up s) (o_live s) (o_max s) (o_nc s) (o_allocs s) (o_frees s) false (o_xal s) in
  match o, ob with
  | _, [1] => s
  | [0; x; a; b], [0; al; fr] => oinit s x 8 al fr
  | [0; x; a; b; xal], [0; al; fr] => oinit s x xal al fr
  | [1; slot; _; sz], 0 :: al :: fr :: fresh :: room :: ovl :: xv :: xo :: evs =>
      let n := if 0 <? o_x s then align_up (align_up sz (o_xal s) + o_x s) 8 else sz in
      let block_free := match pol with PMts => match o_live s with [] => true | _ => false end | _ => true end in
      let warm := reuses pol && block_free && (n <=? o_max s) in
      let placed := if 0 <? o_x s
                    then (sz <=? xo) && (xo mod o_xal s =? 0) && (trailer pol <=? room - (xo + o_x s))
                    else (xo =? 0) && (trailer pol <=? room - sz) in
      let ok := placed && (ovl =? 0) && (0 <=? al) && (0 <=? fr)
                && (if warm then al =? 0 else true)
                && (if fresh =? 0 then al =? 0 else true)
                && zlist_eqb evs (ev_codes (create_evs (o_x s) 0))
                && (xv =? (if 0 <? o_x s then o_nc s else 0)) in
      mkO (o_x s) (o_up s) ((slot, sz) :: o_live s)
          (if block_free then Z.max (o_max s) n else o_max s) (o_nc s + 1)
          (o_allocs s + al) (o_frees s + fr) (o_ok s && ok) (o_xal s)
  | [2; slot], 0 :: al :: fr :: rel :: can :: dsz :: evs =>
      let ok := zassoc_mem slot (o_live s) && (al =? 0) && (fr =? rel) && ((rel =? 0) || (rel =? 1)) && (can =? 1)
                && (dsz =? zassoc_get slot (o_live s))      (* dealloc is told the size alloc was asked for *)
                && zlist_eqb evs (ev_codes (finish_evs (o_x s) 0)) in
      mkO (o_x s) (o_up s) (zassoc_del slot (o_live s)) (o_max s) (o_nc s) (o_allocs s + al) (o_frees s + fr) (o_ok s && ok) (o_xal s)
  | [9], [0; al; fr] =>
      mkO (o_x s) false (o_live s) (o_max s) (o_nc s) (o_allocs s + al) (o_frees s + fr)
          (o_ok s && (al =? 0) && (0 <=? fr) && (o_allocs s + al =? o_frees s + fr)
           && match o_live s with [] => true | _ => false end) (o_xal s)
  | _, _ => bad
  end.

Definition st_oracle (pol : policy) (ops obs : list (list Z)) : bool :=
  let s := fold_left (ostep pol) (combine ops obs) (mkO 0 false [] 0 0 0 0 true 8) in
  Nat.eqb (length ops) (length obs) && o_ok s && negb (o_up s).

(* ====================================================================================================
   Interleaving model of reusable_storage_mtsafe: any number of threads, each running a program of
   creations / completions of its own coroutines on ONE shared storage.  One model step = the code between
   two hook points:  busy_x (40) just before `_busy.exchange` (:160);  busy_g (42) in the winner's branch just
   before reusable_storage::alloc touches _ptr/_capacity (:164);  busy_n (43) inside reusable_storage::alloc between
   `::operator delete(_ptr)` (:50) and `_ptr = ::operator new(sz)` (:51), where _ptr dangles;  busy_s (41) at the top of
   dealloc (:172). *)
Inductive act := ACreate (sz : Z) | AFin (newest : bool).
Record thread := mkTh {
  t_prog : list act;
  t_won : option Z;        (* Some sz: won the exchange, pending at busy_g *)
  t_own : list nat;        (* slots of its live frames, oldest first *)
  t_done : nat;            (* actions completed *)
  t_res : list (list Z);   (* one result line per completed action *)
  t_grow : option Z        (* Some k: holder paused at busy_n, inside reusable_storage::alloc between :50 and :51 (k frees done) *)
}.
Record cst := mkC { c_core : core; c_thr : list thread }.

Definition pm : prm := mkPrm PMts 0 0 0 8.

Definition pick (nw : bool) (l : list nat) : option (nat * list nat) :=
  match l with [] => None | x :: t => if nw then Some (last l x, removelast l) else Some (x, t) end.

Definition with_busy (c : core) (b : bool) : core :=
  mkCore (hp c) (set_busy (st c) b) (frs c) (c_nfid c) (c_max c) (c_up c) (c_log c).

Definition cres (i : nat) (t : thread) (c c1 : core) (f : frame) (xfr : Z) : list Z :=
  [Z.of_nat i; Z.of_nat (t_done t); 1; h_allocs (hp c1) - h_allocs (hp c); h_frees (hp c1) - h_frees (hp c) + xfr;
   b2z (is_fresh (hp c) (f_blk f)); f_room f; overlaps (f_blk f) (frs c)].
Definition fres (i : nat) (t : thread) (c c1 : core) (f : frame) : list Z :=
  [Z.of_nat i; Z.of_nat (t_done t); 2; h_allocs (hp c1) - h_allocs (hp c); h_frees (hp c1) - h_frees (hp c);
   b2z (released (hp c1) (f_blk f)); 1; f_sz f].

Definition upd (s : cst) (c : core) (i : nat) (t : thread) : cst := mkC c (set_nth (c_thr s) i t).

Definition tstep (s : cst) (i : nat) : cst * Z :=
  match nth_error (c_thr s) i with
  | None => (s, 0)
  | Some t =>
      let c := c_core s in
      match t_won t with
      | Some sz =>
          let slot := c_nfid c in
          match t_grow t with
          | None =>                                   (* busy_g: reusable_storage::alloc(sz + 8), :49 *)
              if sz + ptr_sz >? s_cap (st c) then     (* :50 delete the old block; _ptr keeps its value until :51 *)
                let c1 := mkCore (hdel_opt (hp c) (s_ptr (st c))) (st c) (frs c) (c_nfid c) (c_max c) (c_up c) (c_log c) in
                (upd s c1 i (mkTh (t_prog t) (Some sz) (t_own t) (t_done t) (t_res t)
                                  (Some (h_frees (hp c1) - h_frees (hp c)))), 42)
              else
                let '(c1, f) := mk_frame pm c slot sz (mts_won (hp c) (st c) sz) in
                (upd s c1 i (mkTh (t_prog t) None (t_own t ++ [slot]) (S (t_done t)) (t_res t ++ [cres i t c c1 f 0]) None), 42)
          | Some fr =>                                (* busy_n: :51-52, then the trailer :167-168 *)
              let '(h1, id) := hnew (hp c) (sz + ptr_sz) in
              let s1 := mkSto (Some id) (sz + ptr_sz) (s_busy (st c)) (s_state (st c)) (s_bsize (st c)) (s_bcap (st c)) (s_ownc (st c)) in
              let '(c1, f) := mk_frame pm c slot sz (h1, s1, mkGr (BHeap id) (sz + ptr_sz) (sz + ptr_sz) true) in
              (upd s c1 i (mkTh (t_prog t) None (t_own t ++ [slot]) (S (t_done t)) (t_res t ++ [cres i t c c1 f fr]) None), 43)
          end
      | None =>
          match t_prog t with
          | [] => (s, 0)
          | ACreate sz :: r =>
              if s_busy (st c) then
                let slot := c_nfid c in
                let '(c1, f) := mk_frame pm c slot sz (mts_lost (hp c) (st c) sz) in
                (upd s c1 i (mkTh r None (t_own t ++ [slot]) (S (t_done t)) (t_res t ++ [cres i t c c1 f 0]) None), 40)
              else (upd s (with_busy c true) i (mkTh r (Some sz) (t_own t) (t_done t) (t_res t) None), 40)
          | AFin nw :: r =>
              let skip := (upd s c i (mkTh r None (t_own t) (S (t_done t))
                                       (t_res t ++ [[Z.of_nat i; Z.of_nat (t_done t); 0]]) None), 41) in
              match pick nw (t_own t) with
              | None => skip
              | Some (slot, rest) =>
                  match fget (frs c) slot with
                  | None => skip
                  | Some f =>
                      let c1 := finish pm c slot f in
                      (upd s c1 i (mkTh r None rest (S (t_done t)) (t_res t ++ [fres i t c c1 f]) None), 41)
                  end
              end
          end
      end
  end.

Definition t_enabled (t : thread) : bool :=
  match t_won t, t_prog t with None, [] => false | _, _ => true end.
Fixpoint enabled_from (l : list thread) (from : nat) : list nat :=
  match l with [] => [] | t :: r => (if t_enabled t then [from] else []) ++ enabled_from r (S from) end.
Definition all_enabled (s : cst) : list nat := enabled_from (c_thr s) 0.

(* choice k picks the (k mod |enabled|)-th enabled thread; an exhausted schedule continues with 0 *)
Fixpoint run_sched (fuel : nat) (s : cst) (sched : list Z) (tr : list (nat * Z)) : cst * list (nat * Z) :=
  match fuel with
  | O => (s, tr)
  | S f =>
      match all_enabled s with
      | [] => (s, tr)
      | en =>
          let k := match sched with [] => 0 | x :: _ => Z.abs x end in
          let i := nth (Z.to_nat (k mod zlen en)) en 0%nat in
          let '(s1, pt) := tstep s i in
          run_sched f s1 (tl sched) (tr ++ [(i, pt)])
      end
  end.

(* programs: a finish with nothing to finish is dropped, creations of size <= 0 are dropped,
   and every thread finishes what it created *)
Fixpoint sanitize (live : nat) (l : list act) : list act :=
  match l with
  | [] => repeat (AFin false) live
  | ACreate sz :: t => if 0 <? sz then ACreate sz :: sanitize (S live) t else sanitize live t
  | AFin b :: t => match live with O => sanitize O t | S m => AFin b :: sanitize m t end
  end.
Fixpoint decode_prog (l : list Z) : list act :=
  match l with
  | k :: sz :: t =>
      (if 0 <=? k then [ACreate sz] else if k =? -1 then [AFin false] else if k =? -2 then [AFin true] else [])
      ++ decode_prog t
  | _ => []
  end.
Definition decode_thread (l : list Z) : list thread :=
  match l with 2 :: r => [mkTh (sanitize 0 (decode_prog r)) None [] 0 [] None] | _ => [] end.
Definition decode_sched (l : list Z) : list Z := match l with 9 :: r => r | _ => [] end.

Definition cinit (ops : list (list Z)) : cst := mkC (init_core pm) (flat_map decode_thread ops).
Fixpoint sumlen (l : list thread) : nat :=
  match l with [] => O | t :: r => (length (t_prog t) + sumlen r)%nat end.

Definition mt_final (ops : list (list Z)) : cst * list (nat * Z) :=
  let s0 := cinit ops in
  run_sched (3 * sumlen (c_thr s0) + 2) s0 (flat_map decode_sched ops) [].

Definition mt_run (ops : list (list Z)) : list (list Z) :=
  let '(s, tr) := mt_final ops in
  let c1 := destroy pm (c_core s) in
  map (fun q => [Z.of_nat (fst q); snd q]) tr
  ++ flat_map t_res (c_thr s)
  ++ [[10; h_allocs (hp c1); h_frees (hp c1); zlen (frs c1)]].

(* oracle on the observed result block: size, exclusivity, release discipline, balance *)
Definition is_trace_line (l : list Z) : bool := match l with [_; _] => true | _ => false end.
Definition act_size (ths : list thread) (tid j : Z) : Z :=
  match nth_error ths (n tid) with
  | Some t => match nth_error (t_prog t) (n j) with Some (ACreate sz) => sz | _ => 0 end
  | None => 0
  end.
Definition mt_line_ok (ths : list thread) (l : list Z) : bool :=
  match l with
  | [tid; j; 1; al; fr; fresh; room; ovl] => (0 <=? al) && (al <=? 1) && (fr <=? 1) && (0 <=? fr) && (ovl =? 0)
                                           && (if fresh =? 0 then al =? 0 else true)
                                           && (0 <? act_size ths tid j) && (ptr_sz <=? room - act_size ths tid j)
  | [_; _; 2; al; fr; rel; can; dsz] => (al =? 0) && (fr =? rel) && ((rel =? 0) || (rel =? 1)) && (can =? 1) && (0 <? dsz)
  | [10; a; f; lv] => (a =? f) && (lv =? 0)
  | _ => false
  end.
Definition mt_oracle (ops obs : list (list Z)) : bool :=
  let res := filter (fun l => negb (is_trace_line l)) obs in
  let nact := sumlen (c_thr (cinit ops)) in
  forallb (mt_line_ok (c_thr (cinit ops))) res
  && Nat.eqb (length res) (S nact)
  && existsb (fun l => match l with 10 :: _ => true | _ => false end) res.
