(* AdaptersStep2.v — the invariant is preserved by every step of thread 2
   (one file per thread so that the three case analyses build in parallel; same script in all three) *)
From Cocls Require Import Base BaseProofs AdaptersDefs AdaptersInv.
Require Import ZifyBool.
Local Open Scope nat_scope.

Lemma inv_step2 c s : Inv c s -> enabled s 2 = true -> Inv c (fst (tstep c s 2)).
Proof.
  intros I E. unfold tstep, enabled in *.
  destruct I as [I1 I2 I3 I4 I5 I6 I7 I8 I9 I10 I11 I12 I13 I14 I15 I16 I17 I18 I19 I20 I21 I22 I23 I24 I25 [I26 I26b] [I27 I27b] I28 I29 I30 I31 I32 I33 I34 I35].
  unfold N, expected, wout in *.
  assert (CV : cv c <= 1) by (unfold cv, b2n; destruct (is_conv c); lia).
  assert (NF1 : nfire s <= 1) by (destruct (slot s); cbn [rdy] in I6; lia).
  assert (CVN : cv c * nfire s <= nfire s) by (unfold cv, b2n; destruct (is_conv c); lia).
  cbn [thr] in *.
  dth s.
  (* instruction x shared flags x adapter *)
  destruct ins; unfold exec, fire, deliver.
  all: red1; dflags s; red1.
  all: redch.
  all: try (dpay s; red1).
  all: try match goal with
       | H : context[outcome_eqb ?r ?e] |- _ =>
           let Q := fresh "Q" in destruct (outcome_eqb r e) eqn:Q; [apply outcome_eqb_eq in Q; subst r|]; redch
       end.
  all: try match goal with g : bool |- _ => destruct g; redch end.
  all: try match goal with who : nat |- _ => destruct who as [|[|[|who]]]; red1 end.
  all: try (specialize (I20 eq_refl); rewrite I20 in *; cbn [isv] in * ).
  all: try (specialize (I22 eq_refl); destruct I22 as [I22 I22b]).
  all: try (specialize (I23 eq_refl)).
  all: try (specialize (I3 eq_refl)).
  all: try (destruct I21 as [I21|I21]).
  all: try match goal with T0 : _ = IClaim _ :: _ |- _ => try (rewrite I26b in * by lia; cbn [rn] in * ); try (rewrite I27b in * by lia; cbn [rn] in * ) end.
  all: try (unfold hb, cv, is_conv in *; rewrite AD in *; cbn [has_helper b2n Nat.mul] in * ).
  all: constructor; unfold N, expected, wout; red1; try (unfold hb, cv, is_conv; rewrite AD; cbn [has_helper b2n Nat.mul]); redc;
       cbn [conv_result]; rewrite ?outcome_eqb_refl; redc.
  all: fin.
Qed.
