(* AdaptersStep2.v — the invariant is preserved by every step of thread 2
   (one file per thread so that the three case analyses build in parallel; same script in all three) *)
From Cocls Require Import Base BaseProofs AdaptersDefs AdaptersInv.
Require Import ZifyBool.
Local Open Scope nat_scope.

Lemma inv_step2 c s : Inv c s -> enabled s 2 = true -> Inv c (fst (tstep c s 2)).
Proof.
  intros I E. unfold tstep, enabled in *.
  destruct I as [I1 I2 I3 I4 I5 I6 I7 I8 I9 I10 I11 I12 Itok Iph IphB Iowc Ip4 Irp Ioht Iocc I13 Ioh Iop0 Idec Iow0 Iow1 Iow2 I14 I15 I16 I17 I18 I19 I20 I21 I22 I23 I24 I25 [I26 I26b] [I27 I27b] I28 I29 I30 I31 I32 I33 I34 I35].
  unfold N, expected, wout in *.
  assert (CV : cv c <= 1) by (unfold cv, b2n; destruct (is_conv c); lia).
  assert (NF1 : nfire s <= 1) by (destruct (slot s); cbn [rdy] in I6; lia).
  assert (CVN : cv c * nfire s <= nfire s) by (unfold cv, b2n; destruct (is_conv c); lia).
  assert (RP1 : b2n (rp c) <= 1) by (destruct (rp c); cbn [b2n]; lia).
  assert (CVN2 : cv c * nfire s <= cv c) by (unfold cv, b2n; destruct (is_conv c); lia).
  cbn [thr] in *.
  dth s.
  (* instruction x shared flags x adapter *)
  destruct ins; unfold exec, fire, deliver.
  all: red1; dflags s; red1.
  all: redch.
  (* a late resolver that was woken without a forwarded promise: the outer future is ready *)
  all: try match goal with T0 : _ = IOWait :: _ |- _ => cbn beta iota in E; destruct (oslot s) eqn:FOS; try discriminate E; redch end.
  all: try (dpay s; red1; dflags s; red1; redch).
  all: try match goal with
       | H : context[outcome_eqb ?r ?e] |- _ =>
           let Q := fresh "Q" in destruct (outcome_eqb r e) eqn:Q; [apply outcome_eqb_eq in Q; subst r|]; redch
       end.
  all: try match goal with g : bool |- _ => destruct g; redch end.
  all: try match goal with who : nat |- _ => destruct who as [|[|[|who]]]; red1 end.
  all: try (specialize (I20 eq_refl); rewrite I20 in *; cbn [isv] in * ).
  all: try (specialize (I22 eq_refl); destruct I22 as [I22 I22b]).
  all: try (specialize (I23 eq_refl)).
  all: try (specialize (I3 eq_refl)).
  all: try match goal with T0 : _ = IDtorP :: _ |- _ => destruct I21 as [I21|I21] end.
  all: try match goal with T0 : _ = IClaim _ :: _ |- _ => try (rewrite I26b in * by lia; cbn [rn] in * ); try (rewrite I27b in * by lia; cbn [rn] in * ) end.
  all: try match goal with T0 : th2 _ = _ |- _ => destruct Iow2 as [Iow2|Iow2]; [first [discriminate Iow2 | inversion Iow2; subst]|]; redch end.
  all: try (unfold hb, cv, is_conv in *; rewrite AD in *; cbn [has_helper b2n Nat.mul] in * ).
  (* one obligation per invariant field; the source-cell fields do not need the converter's hypotheses *)
  all: constructor; unfold N, expected, wout; red1; try (unfold hb, cv, is_conv; rewrite AD; cbn [has_helper b2n Nat.mul]); redc;
       rewrite ?outcome_eqb_refl; redc.
  all: try (first [assumption | reflexivity]).
  all: try (solve [clear I11 I12 Itok Iph IphB Iowc Ip4 Irp Ioht Iocc I13 Ioh Iop0 Idec Iow0 Iow1 Iow2 I14 I15 I16 I17 I18 I19; fin]).
  all: fin.
  (* a declined promise: the outer future completes without a value, which is what the converter's choice means *)
  all: try (intros; cbn [conv_result]; rewrite ?CB; reflexivity).
  all: try (intros; rewrite Iop0 by lia; rewrite Idec by (first [reflexivity | lia]); reflexivity).
  all: try (destruct I21 as [I21|I21]; [left; lia|right; exact I21]).
  (* a converter that forwards the promise exists only in the configuration that has the late resolver *)
  all: try (unfold rp, cv in *; rewrite CB in *; cbn [Nat.eqb] in *; rewrite ?andb_true_r in *; lia).
Qed.
