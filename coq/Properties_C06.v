(* Properties_C06.v — C06: a suspend point never loses or duplicates a ready coroutine.
   Only statements; every proof is `exact <lemma of SuspendPointProofs>`.
   Quantification: any op sequence (any length), any number of objects (suspend_point<void> and suspend_point<X>)
   and handles, both modes; the awaiting coroutine's own handle may be inside the awaited list at any position. *)
From Cocls Require Import Base BaseProofs SuspendPointDefs SuspendPointProofs.
Local Open Scope Z_scope.

(* handles handed in (+ the awaiter, once per await) = handles resumed ⊎ handles still held by live objects or the ready queue *)
Theorem c06_conservation : forall coro ops e, wf_env e ->
  let r := run_from coro e ops in
  Permutation (handed_run ops (fst r) ++ spush_run coro e ops ++ held e) (resumed_run (fst r) ++ held (snd r)).
Proof. exact conservation. Qed.
Print Assumptions c06_conservation.

(* the same for the ready coroutines alone *)
Theorem c06_conservation_ready : forall coro ops e, wf_env e ->
  let r := run_from coro e ops in
  Permutation (filter not_drv (handed_run ops (fst r) ++ held e)) (filter not_drv (resumed_run (fst r) ++ held (snd r))).
Proof. exact conservation_ready. Qed.
Print Assumptions c06_conservation_ready.

(* once every object is destroyed and the queue drained, each ready coroutine was resumed exactly as often as handed in *)
Theorem c06_resumed_as_often_as_handed : forall coro ops h,
  let r := run_from coro env0 ops in
  held (snd r) = [] -> h <> driver ->
  count_z h (resumed_run (fst r)) = count_z h (handed_run ops (fst r)).
Proof. exact resumed_as_often_as_handed. Qed.
Print Assumptions c06_resumed_as_often_as_handed.

Theorem c06_all_resumed_once : forall coro ops h,
  let r := run_from coro env0 ops in
  held (snd r) = [] -> h <> driver -> count_z h (handed_run ops (fst r)) = 1%nat ->
  count_z h (resumed_run (fst r)) = 1%nat.
Proof. exact resumed_exactly_once. Qed.
Print Assumptions c06_all_resumed_once.

Theorem c06_nothing_invented : forall coro ops h,
  let r := run_from coro env0 ops in
  h <> driver -> In h (resumed_run (fst r)) -> In h (handed_run ops (fst r)).
Proof. exact never_resumed_unless_handed. Qed.
Print Assumptions c06_nothing_invented.

(* the awaiting coroutine: continued exactly once per accepted co_await (own handle in the list or not, at any position,
   after everything that ran in between), never resumed by any other op ... *)
Theorem c06_awaiter_resumed_once : forall coro ops e, wf_env e -> drv_run_ok ops (fst (run_from coro e ops)).
Proof. exact awaiter_once. Qed.
Print Assumptions c06_awaiter_resumed_once.

(* ... and never left behind in the ready queue while it runs (no later second resume); its handle is in at most one place *)
Theorem c06_awaiter_not_left_queued : forall coro ops,
  let e := snd (run_from coro env0 ops) in
  ~ In driver (queue e) /\ (count_z driver (held e) <= 1)%nat.
Proof. exact awaiter_not_left_queued. Qed.
Print Assumptions c06_awaiter_not_left_queued.

(* moved-from / merged-from / cleared / awaited objects are empty, and an empty object's destructor does nothing *)
Theorem c06_source_emptied : forall coro e x o,
  src_of x = Some o -> o_st (snd (step coro e x)) = 0 ->
  exists s, get (objs (fst (step coro e x))) o = Some s /\ cf s = 0.
Proof. exact source_is_emptied. Qed.
Print Assumptions c06_source_emptied.

Theorem c06_emptied_resumes_nothing : forall coro e o s,
  wf_env e -> get (objs e) o = Some s -> cf s = 0 ->
  let r := step coro e (ODestroy o) in
  o_st (snd r) = 0 /\ o_res (snd r) = [] /\ o_cost (snd r) = (0, 0) /\ queue (fst r) = queue e.
Proof. exact emptied_resumes_nothing. Qed.
Print Assumptions c06_emptied_resumes_nothing.

(* heap arrays allocated - freed = arrays owned by live objects: nothing leaks, nothing is freed twice *)
Theorem c06_no_leak : forall coro ops,
  let r := run_from coro env0 ops in
  allocs_run (fst r) - frees_run (fst r) = arrs (objs (snd r)).
Proof. exact no_leak. Qed.
Print Assumptions c06_no_leak.

(* count never exceeds the capacity of the active array (no out-of-bounds slot), in every reachable state *)
Theorem c06_capacity_sound : forall coro ops i s,
  get (objs (snd (run_from coro env0 ops))) i = Some s ->
  zlen (hs s) = sp_count s /\ (sp_flag s = true -> sp_count s <= cap s) /\
  (sp_flag s = false -> sp_count s <= inline_count).
Proof. exact capacity_sound. Qed.
Print Assumptions c06_capacity_sound.

(* value clause: in every history, the value shown after each op / returned by each conversion / by each co_await is the
   one the independent account `vstep` assigns: set only by a construction, replaced by `moved` only when the object is
   the source of a move construction or move assignment, carried along by moves/swaps, untouched by everything else *)
Theorem c06_typed_value : forall coro ops,
  vals_ok [] ops (map encode_obs (fst (run_from coro env0 ops))) = true.
Proof. exact values_as_supplied. Qed.
Print Assumptions c06_typed_value.

(* reads return the stored value and change nothing: any number of reads, at any point *)
Theorem c06_read_changes_nothing : forall coro e o k s,
  get (objs e) o = Some s -> typed s = true -> k = 0 \/ k = 1 ->
  step coro e (ORead o k) = (e, ok_obs (sp_count s) (val s) (0, 0) []).
Proof. exact read_changes_nothing. Qed.
Print Assumptions c06_read_changes_nothing.

(* exception paths: an add() whose array allocation throws std::bad_alloc changes nothing and does not take the handle *)
Theorem c06_failed_add_changes_nothing : forall coro e o h s,
  get (objs e) o = Some s -> 0 < h ->
  (if sp_flag s then sp_count s =? cap s else negb (sp_count s <? inline_count)) = true ->
  let r := step coro e (OAddFail o h) in
  fst r = e /\ o_st (snd r) = 2 /\ o_size (snd r) = sp_count s /\ handed_op (OAddFail o h) (snd r) = [] /\ o_res (snd r) = [].
Proof. exact failed_add_changes_nothing. Qed.
Print Assumptions c06_failed_add_changes_nothing.

(* ... and a create_suspend_point whose callback throws loses neither the coroutines already queued nor the ones it readied
   (they are also covered by c06_conservation: the op hands in l) *)
Theorem c06_throwing_create_loses_nothing : forall coro e o t v l,
  forallb (fun h => 0 <? h) l = true -> get (objs e) o = None ->
  let r := step coro e (OCreateThrow o t v l) in
  objs (fst r) = objs e /\ o_st (snd r) = 0 /\
  if coro then queue (fst r) = queue e ++ l /\ o_res (snd r) = [] else queue (fst r) = queue e /\ o_res (snd r) = l.
Proof. exact throwing_create_loses_nothing. Qed.
Print Assumptions c06_throwing_create_loses_nothing.

(* the decidable trace property used on the implementation's output holds of every closed run of the model *)
Theorem c06_oracle_sound : forall coro ops,
  let r := run_from coro env0 (map decode ops) in
  (forall i, get (objs (snd r)) i = None) -> queue (snd r) = [] ->
  sp_oracle ops (sp_run coro ops) = true.
Proof. exact oracle_sound. Qed.
Print Assumptions c06_oracle_sound.

(* non-vacuity: a concrete coroutine-mode run — typed object read twice, inline->heap, the awaiter's own handle in the
   middle of the awaited list, something already queued, merge, swap, pop — is closed and meets the hypotheses *)
Example c06_nonvacuous :
  let ops := [ONewV 0 7; ORead 0 0; ORead 0 1; OAdd 0 1; OAdd 0 2; OAddSelf 0; OAdd 0 3; OAdd 0 4;
              ONewVoidH 1 5; OClear 1; OCreate 2 true 9 [6; 8]; OSwap 0 2; OAwaitL 2; OPop 0; OMerge 1 0;
              ODestroy 0; ODestroy 1; ODestroy 2; OFlush] in
  let r := run_from true env0 ops in
  held (snd r) = [] /\ (forall i, get (objs (snd r)) i = None) /\
  filter not_drv (handed_run ops (fst r)) = [1;2;3;4;5;6;8] /\
  resumed_run (fst r) = [4;5;1;2;0;6;3;8;0] /\ allocs_run (fst r) = 2 /\
  map o_val (firstn 3 (fst r)) = [7;7;7].
Proof.
  vm_compute. repeat split; try reflexivity. intros i. do 3 (destruct i as [|i]; [reflexivity|]). destruct i; reflexivity.
Qed.
