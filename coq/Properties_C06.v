(* Properties_C06.v — C06: a suspend point never loses or duplicates a ready coroutine.
   Only statements; every proof is `exact <lemma of SuspendPointProofs>`.
   Quantification: any op sequence (any length), any number of objects and handles, both modes. *)
From Cocls Require Import Base BaseProofs SuspendPointDefs SuspendPointProofs.
Local Open Scope Z_scope.

(* handles handed in = handles resumed (+ popped) ⊎ handles still held by live objects or the ready queue *)
Theorem c06_conservation : forall coro ops e, wf_env e ->
  let r := run_from coro e ops in
  Permutation (handed_run ops (fst r) ++ held e) (resumed_run (fst r) ++ held (snd r)).
Proof. exact conservation. Qed.
Print Assumptions c06_conservation.

(* once every object is destroyed and the queue drained, each handed handle was resumed exactly once *)
Theorem c06_all_resumed_once : forall coro ops h,
  let r := run_from coro env0 ops in
  held (snd r) = [] -> NoDup (handed_run ops (fst r)) -> In h (handed_run ops (fst r)) ->
  count_z h (resumed_run (fst r)) = 1%nat.
Proof. exact resumed_exactly_once. Qed.
Print Assumptions c06_all_resumed_once.

Theorem c06_nothing_invented : forall coro ops h,
  let r := run_from coro env0 ops in
  In h (resumed_run (fst r)) -> In h (handed_run ops (fst r)).
Proof. exact never_resumed_unless_handed. Qed.
Print Assumptions c06_nothing_invented.

(* moved-from / merged-from / cleared / awaited objects are empty, and an empty object's destructor does nothing *)
Theorem c06_source_emptied : forall coro e x o,
  src_of x = Some o -> o_st (snd (step coro e x)) = 0 ->
  exists s, get (objs (fst (step coro e x))) o = Some s /\ cf s = 0.
Proof. exact source_is_emptied. Qed.
Print Assumptions c06_source_emptied.

Theorem c06_emptied_resumes_nothing : forall coro e o s,
  wf_env e -> get (objs e) o = Some s -> cf s = 0 ->
  let r := step coro e (ODestroy o) in
  o_res (snd r) = [] /\ o_cost (snd r) = (0, 0) /\ queue (fst r) = queue e.
Proof. exact emptied_resumes_nothing. Qed.
Print Assumptions c06_emptied_resumes_nothing.

(* heap arrays allocated - freed = arrays owned by live objects: nothing leaks, nothing is freed twice *)
Theorem c06_no_leak : forall coro ops,
  let r := run_from coro env0 ops in
  allocs_run (fst r) - frees_run (fst r) = arrs (objs (snd r)).
Proof. exact no_leak. Qed.
Print Assumptions c06_no_leak.

(* count never exceeds the capacity of the active array (no out-of-bounds slot), in every reachable state *)
Theorem c06_capacity_sound : forall coro ops i s,
  get (objs (snd (run_from coro env0 ops))) i = Some s ->
  zlen (hs s) = sp_count s /\ (sp_flag s = true -> sp_count s <= cap s) /\
  (sp_flag s = false -> sp_count s <= inline_count).
Proof. exact capacity_sound. Qed.
Print Assumptions c06_capacity_sound.

(* the attached value is the constructor argument and no operation but an assignment changes it *)
Theorem c06_typed_value : forall coro e x i s s',
  wf_env e -> ~ assigns x i ->
  get (objs e) i = Some s -> get (objs (fst (step coro e x))) i = Some s' -> val s' = val s.
Proof. exact value_preserved. Qed.
Print Assumptions c06_typed_value.

(* non-vacuity: a concrete run that crosses inline->heap, merges, pops and closes meets the hypotheses *)
Example c06_nonvacuous :
  let ops := [ONewV 0 7; OAdd 0 1; OAdd 0 2; OAdd 0 3; OAdd 0 4; ONewH 1 5 8; OMerge 1 0; OPop 1; ODestroy 1; ODestroy 0] in
  let r := run_from false env0 ops in
  held (snd r) = [] /\ NoDup (handed_run ops (fst r)) /\ handed_run ops (fst r) = [1;2;3;4;5]
  /\ resumed_run (fst r) = [4;5;1;2;3] /\ allocs_run (fst r) = 2.
Proof. vm_compute. split; [reflexivity|]. split; [apply (proj1 (nodup_b_NoDup _)); reflexivity|]. repeat split; reflexivity. Qed.
