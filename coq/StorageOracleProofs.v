(* StorageOracleProofs.v — the trace oracle st_oracle accepts every trace the model itself produces for a closed history:
   forall ops, (the storage ends destroyed) -> st_oracle pol ops (st_run pol ops) = true.
   So an oracle failure on an implementation trace is a genuine deviation from every behaviour the theorems cover. *)
From Cocls Require Import Base BaseProofs StorageDefs StorageProofs.
Require Import ZifyBool.
Local Open Scope Z_scope.
Ltac Zify.zify_post_hook ::= Z.div_mod_to_equations.

Ltac crack := repeat match goal with |- context [match ?x with _ => _ end] => destruct x end.

Lemma decode_cases o :
  decode o = OBad \/ (exists x a b, o = [0; x; a; b]) \/ (exists x a b xal, o = [0; x; a; b; xal]) \/
  (exists slot k sz, o = [1; slot; k; sz]) \/ (exists slot, o = [2; slot]) \/ o = [9].
Proof.
  unfold decode.
  destruct o as [|z o]; [left; reflexivity|].
  destruct z as [|q|q]; [| |left; reflexivity].
  - destruct o as [|x [|a [|b [|xal [|? ?]]]]]; try (left; reflexivity).
    + right; left. eauto.
    + right; right; left. eauto.
  - destruct q as [q|q|].
    + (* odd: 9 = xI (xO (xO xH)) *)
      destruct q as [q|q|]; try (left; reflexivity). destruct q as [q|q|]; try (left; reflexivity).
      destruct q as [q|q|]; try (left; reflexivity). destruct o; [|left; reflexivity]. right; right; right; right; right. reflexivity.
    + (* even: 2 = xO xH *)
      destruct q as [q|q|]; try (left; reflexivity). destruct o as [|slot [|? ?]]; try (left; reflexivity).
      right; right; right; right; left. eauto.
    + (* 1 *)
      destruct o as [|slot [|k [|sz [|? ?]]]]; try (left; reflexivity). right; right; right; left. eauto.
Qed.

Lemma ostep_rej pol s o : ostep pol s (o, [1]) = s.
Proof.
  unfold ostep.
  destruct o as [|z o]; [reflexivity|].
  destruct z as [|q|q]; [| |reflexivity].
  - destruct o as [|x [|a [|b [|xal [|? ?]]]]]; reflexivity.
  - destruct q as [q|q|].
    + destruct q as [q|q|]; try reflexivity. destruct q as [q|q|]; try reflexivity.
      destruct q as [q|q|]; try reflexivity. destruct o; reflexivity.
    + destruct q as [q|q|]; try reflexivity. destruct o as [|slot [|? ?]]; reflexivity.
    + destruct o as [|slot [|k [|sz [|? ?]]]]; reflexivity.
Qed.

(* ---------- small facts about the observation fields ---------- *)
Lemma blk_eqb_true a b : blk_eqb a b = true -> a = b.
Proof. destruct a, b; cbn [blk_eqb]; try discriminate; auto; intros H; apply Nat.eqb_eq in H; congruence. Qed.

Lemma overlaps_zero b l : ~ In b (blocks l) -> overlaps b l = 0.
Proof.
  induction l as [|[k f] l IH]; cbn [overlaps blocks map snd In]; [reflexivity|]. intros N.
  destruct (blk_eqb b (f_blk f)) eqn:E; [apply blk_eqb_true in E; exfalso; apply N; left; congruence|].
  rewrite IH; [reflexivity|]. intros A. apply N. right. exact A.
Qed.

Lemma zlist_eqb_refl l : zlist_eqb l l = true.
Proof.
  unfold zlist_eqb. rewrite Nat.eqb_refl. cbn [andb]. induction l as [|x l IH]; cbn [combine forallb fst snd]; [reflexivity|].
  rewrite Z.eqb_refl, IH. reflexivity.
Qed.

Lemma create_codes x a b : ev_codes (create_evs x a) = ev_codes (create_evs x b).
Proof. unfold create_evs, ev_codes. destruct (0 <? x); reflexivity. Qed.
Lemma finish_codes x a b : ev_codes (finish_evs x a) = ev_codes (finish_evs x b).
Proof. unfold finish_evs, ev_codes. destruct (0 <? x); reflexivity. Qed.

Lemma hdel_mono h b : h_allocs (hdel h b) = h_allocs h /\ h_frees h <= h_frees (hdel h b) /\ h_next (hdel h b) = h_next h.
Proof. unfold hdel. destruct (hmem b (h_live h)); cbn; lia. Qed.
Lemma hdel_opt_mono h p : h_allocs (hdel_opt h p) = h_allocs h /\ h_frees h <= h_frees (hdel_opt h p) /\ h_next (hdel_opt h p) = h_next h.
Proof. destruct p; [apply hdel_mono|cbn; lia]. Qed.

(* allocation never decreases the counters; a block that is not fresh cost no allocation *)
Lemma balloc_counts p h s n :
  let r := balloc p h s n in
  h_allocs h <= h_allocs (fst (fst r)) /\ h_frees h <= h_frees (fst (fst r)) /\
  (is_fresh h (g_blk (snd r)) = false -> h_allocs (fst (fst r)) = h_allocs h).
Proof.
  cbn zeta. unfold balloc.
  assert (REU : forall s0 m, let r := reu_alloc h s0 m in
            h_allocs h <= h_allocs (fst (fst r)) /\ h_frees h <= h_frees (fst (fst r)) /\
            (is_fresh h (snd r) = false -> h_allocs (fst (fst r)) = h_allocs h)).
  { intros s0 m. cbn zeta. unfold reu_alloc. destruct (m >? s_cap s0).
    - pose proof (hdel_opt_mono h (s_ptr s0)) as (A & B & C). unfold hnew. cbn [fst snd h_allocs h_frees is_fresh].
      rewrite C, Nat.leb_refl. repeat split; try lia; try discriminate.
    - cbn [fst snd]. repeat split; lia. }
  destruct (p_pol p).
  - unfold hnew. cbn [fst snd g_blk h_allocs h_frees is_fresh]. rewrite Nat.leb_refl. repeat split; try lia; try discriminate.
  - specialize (REU s n). cbn zeta in REU. destruct (reu_alloc h s n) as [[h1 s1] b]. cbn [fst snd g_blk] in *. exact REU.
  - destruct (s_busy s).
    + unfold mts_lost, hnew. cbn [fst snd g_blk h_allocs h_frees is_fresh]. rewrite Nat.leb_refl. repeat split; try lia; try discriminate.
    + unfold mts_won. specialize (REU (set_busy s true) (n + ptr_sz)). cbn zeta in REU.
      destruct (reu_alloc h (set_busy s true) (n + ptr_sz)) as [[h1 s1] b]. cbn [fst snd g_blk] in *. exact REU.
  - destruct (n + 1 <=? s_state s).
    + cbn [fst snd g_blk is_fresh]. repeat split; lia.
    + unfold hnew. cbn [fst snd g_blk h_allocs h_frees is_fresh]. rewrite Nat.leb_refl. repeat split; try lia; try discriminate.
  - cbn [fst snd]. repeat split; lia.
  - destruct (s_bsize s <? (n + p_a p - 1) / p_a p); [|cbn [fst snd]; repeat split; lia].
    unfold vec_resize. destruct ((n + p_a p - 1) / p_a p >? s_bcap s); [|cbn [fst snd]; repeat split; lia].
    unfold hnew. cbn [fst snd g_blk s_ptr optblk is_fresh].
    pose proof (hdel_opt_mono (mkHeap (S (h_next h)) ((h_next h, Z.max (2 * s_bsize s) ((n + p_a p - 1) / p_a p) * p_a p) :: h_live h) (h_allocs h + 1) (h_frees h) (h_bad h)) (s_ptr s)) as (A & B & C).
    cbn [h_allocs h_frees] in *. rewrite Nat.leb_refl. repeat split; try lia; try discriminate.
Qed.

(* destruction: no allocation, and exactly one free iff the frame's block is gone afterwards *)
Lemma bdealloc_counts p h s f : heap_ok h -> frame_ok p h s f ->
  let r := bdealloc p h s (f_blk f) (f_tr f) in
  h_allocs (fst r) = h_allocs h /\ h_frees (fst r) - h_frees h = b2z (released (fst r) (f_blk f)).
Proof.
  intros HK (F1 & F2 & F3 & V & R). cbn zeta.
  assert (KEEP : h_allocs h = h_allocs h /\ h_frees h - h_frees h = b2z (released h (f_blk f))).
  { split; [reflexivity|]. unfold released. destruct (f_blk f) as [|b|j]; cbn [b2z]; try lia.
    rewrite (hmem_In _ _ _ V). cbn. lia. }
  assert (DEL : forall b, f_blk f = BHeap b ->
            h_allocs (hdel_blk h (BHeap b)) = h_allocs h /\ h_frees (hdel_blk h (BHeap b)) - h_frees h = b2z (released (hdel_blk h (BHeap b)) (BHeap b))).
  { intros b E. rewrite E in V. cbn [hdel_blk]. destruct (hdel_live _ _ _ V) as (L1 & _ & L3 & L4).
    unfold released. rewrite L1, (hrem_gone b _ (hk_nd _ HK)), L3, L4. cbn. lia. }
  unfold bdealloc. destruct (p_pol p).
  - destruct R as [b E]. rewrite E. cbn [fst]. exact (DEL b E).
  - cbn [fst]. exact KEEP.
  - destruct (f_tr f); cbn [fst]; [exact KEEP|]. destruct R as [b [E _]]. rewrite E. exact (DEL b E).
  - destruct (f_tr f); cbn [fst]; [|exact KEEP]. destruct R as [b E]. rewrite E. exact (DEL b E).
  - cbn [fst]. exact KEEP.
  - cbn [fst]. exact KEEP.
Qed.

(* ---------- the oracle's table of live frames mirrors the model's ---------- *)
Definition olive (l : list (nat * frame)) : list (Z * Z) := map (fun q => (Z.of_nat (fst q), f_sz (snd q))) l.

Lemma olive_mem l i f : fget l i = Some f -> zassoc_mem (Z.of_nat i) (olive l) = true /\ zassoc_get (Z.of_nat i) (olive l) = f_sz f.
Proof.
  induction l as [|[k g] l IH]; cbn [fget olive map fst snd zassoc_mem zassoc_get]; [discriminate|].
  destruct (Nat.eqb_spec i k) as [E|E]; intros H.
  - inversion H; subst. rewrite Z.eqb_refl. auto.
  - destruct (Z.eqb_spec (Z.of_nat i) (Z.of_nat k)) as [E2|E2]; [lia|]. cbn [orb]. exact (IH H).
Qed.

Lemma olive_del l i : NoDup (keys l) -> zassoc_del (Z.of_nat i) (olive l) = olive (fdel l i).
Proof.
  induction l as [|[k g] l IH]; cbn [fdel olive map fst snd zassoc_del keys]; [reflexivity|]. intros H.
  inversion H as [|? ? N D]; subst.
  destruct (Nat.eqb_spec i k) as [E|E].
  - subst. rewrite Z.eqb_refl.
    assert (fdel l k = l) as ->; [|reflexivity].
    clear -N. induction l as [|[k' g'] l IH]; cbn [fdel]; [reflexivity|].
    cbn [keys map fst In] in N. destruct (Nat.eqb_spec k k') as [E|E]; [exfalso; apply N; left; congruence|].
    rewrite IH; [reflexivity|]. intros A. apply N. right. exact A.
  - destruct (Z.eqb_spec (Z.of_nat i) (Z.of_nat k)) as [E2|E2]; [lia|]. cbn [olive map fst snd]. f_equal. exact (IH D).
Qed.

(* ---------- simulation between the model state and the oracle's fold state ---------- *)
Record Sim (p : prm) (c : core) (s : ost) : Prop := {
  sm_ok : o_ok s = true;
  sm_up : o_up s = c_up c;
  sm_prm : c_up c = true -> o_x s = p_x p /\ o_xal s = p_xal p;
  sm_live : o_live s = olive (frs c);
  sm_nc : c_up c = true -> o_nc s = Z.of_nat (c_nfid c);
  sm_diff : o_allocs s - o_frees s = h_allocs (hp c) - h_frees (hp c);
  sm_max : c_up c = true -> 0 <= o_max s <= c_max c
}.

Lemma ostep_create pol s slot k sz al fr fresh room ovl xv xo evs :
  ostep pol s ([1; slot; k; sz], 0 :: al :: fr :: fresh :: room :: ovl :: xv :: xo :: evs) =
      let n := if 0 <? o_x s then align_up (align_up sz (o_xal s) + o_x s) 8 else sz in
      let block_free := match pol with PMts => match o_live s with [] => true | _ => false end | _ => true end in
      let warm := reuses pol && block_free && (n <=? o_max s) in
      let placed := if 0 <? o_x s
                    then (sz <=? xo) && (xo mod o_xal s =? 0) && (trailer pol <=? room - (xo + o_x s))
                    else (xo =? 0) && (trailer pol <=? room - sz) in
      let ok := placed && (ovl =? 0) && (0 <=? al) && (0 <=? fr)
                && (if warm then al =? 0 else true)
                && (if fresh =? 0 then al =? 0 else true)
                && zlist_eqb evs (ev_codes (create_evs (o_x s) 0))
                && (xv =? (if 0 <? o_x s then o_nc s else 0)) in
      mkO (o_x s) (o_up s) ((slot, sz) :: o_live s)
          (if block_free then Z.max (o_max s) n else o_max s) (o_nc s + 1)
          (o_allocs s + al) (o_frees s + fr) (o_ok s && ok) (o_xal s).
Proof. reflexivity. Qed.

Lemma ostep_finish pol s slot al fr rel can dsz evs :
  ostep pol s ([2; slot], 0 :: al :: fr :: rel :: can :: dsz :: evs) =
      let ok := zassoc_mem slot (o_live s) && (al =? 0) && (fr =? rel) && ((rel =? 0) || (rel =? 1)) && (can =? 1)
                && (dsz =? zassoc_get slot (o_live s))
                && zlist_eqb evs (ev_codes (finish_evs (o_x s) 0)) in
      mkO (o_x s) (o_up s) (zassoc_del slot (o_live s)) (o_max s) (o_nc s) (o_allocs s + al) (o_frees s + fr) (o_ok s && ok) (o_xal s).
Proof. reflexivity. Qed.

Lemma and8 a b c d e f g h : a = true -> b = true -> c = true -> d = true -> e = true -> f = true -> g = true -> h = true ->
  a && b && c && d && e && f && g && h = true.
Proof. intros; subst; reflexivity. Qed.
Lemma and7 a b c d e f g : a = true -> b = true -> c = true -> d = true -> e = true -> f = true -> g = true ->
  a && b && c && d && e && f && g = true.
Proof. intros; subst; reflexivity. Qed.
Lemma and6 a b c d e f : a = true -> b = true -> c = true -> d = true -> e = true -> f = true ->
  a && b && c && d && e && f = true.
Proof. intros; subst; reflexivity. Qed.
Lemma and3 a b c : a = true -> b = true -> c = true -> a && b && c = true.
Proof. intros; subst; reflexivity. Qed.

Lemma nreq_oracle p sz : (if 0 <? p_x p then align_up (align_up sz (p_xal p) + p_x p) 8 else sz) = nreq p sz.
Proof. unfold nreq, xoff. destruct (0 <? p_x p); reflexivity. Qed.

Lemma sim_create pol p c s slot k sz :
  RI pol p c -> WR p c -> Sim p c s ->
  wf_op c (OCreate (n slot) sz) = true -> contract p c (OCreate (n slot) sz) = true -> 0 <= slot ->
  Sim p (fst (create p c (n slot) sz))
      (ostep pol s ([1; slot; k; sz], create_obs p c (fst (create p c (n slot) sz)) (snd (create p c (n slot) sz)))).
Proof.
  intros R W S WF CT SL.
  pose proof (gstep_RI pol p c (OCreate (n slot) sz) R) as R1. cbn zeta in R1. rewrite WF in R1. cbn [prm_of] in R1.
  unfold gstep in R1. rewrite WF, CT in R1. cbn [andb exec] in R1.
  destruct R as (EP & HK & UP & DN). cbn [wf_op] in WF. repeat (apply andb_prop in WF; destruct WF as [WF ?]).
  destruct (fget (frs c) (n slot)) eqn:G; [discriminate|].
  specialize (UP WF). specialize (W WF). destruct S as [SO SU SP SL' SN SD SM].
  destruct (SP WF) as [SX SA]. specialize (SN WF). specialize (SM WF).
  pose proof (i_pos _ _ _ _ _ UP) as XA.
  pose proof (balloc_counts p (hp c) (st c) (nreq p sz)) as BC. cbn zeta in BC.
  assert (PB : p_pol p = PBuf -> 0 < p_a p).
  { intros E. pose proof (i_sto _ _ _ _ _ UP) as ST. unfold sto_ok in ST. rewrite E in ST. tauto. }
  pose proof (balloc_warm p (hp c) (st c) (nreq p sz) (c_max c) W (nreq_pos p sz XA ltac:(lia))) as BW.
  pose proof (balloc_learned p (hp c) (st c) (nreq p sz) (c_max c)) as BL.
  assert (BUSY : frs c = [] -> p_pol p = PMts -> s_busy (st c) = false).
  { intros E EM. pose proof (i_busy _ _ _ _ _ UP) as B. rewrite EM, E, sumw_nil in B. destruct (s_busy (st c)); cbn [b2z] in B; [lia|reflexivity]. }
  unfold create, mk_frame in *. unfold learn' in BL.
  destruct (balloc p (hp c) (st c) (nreq p sz)) as [[h1 s1] g] eqn:EB. cbn [fst snd] in *.
  destruct R1 as (_ & HK1 & UP1 & _). cbn [c_up hp st frs] in *. specialize (UP1 WF).
  pose proof (i_frames _ _ _ _ _ UP1 _ _ (in_eq _ _)) as (F1 & F2 & F3 & V & _). cbn [f_n f_need f_room f_blk] in *.
  pose proof (i_blocks _ _ _ _ _ UP1) as NB. cbn [blocks map snd f_blk] in NB. apply NoDup_cons_iff in NB. destruct NB as [NIN _].
  pose proof (nreq_ge p sz XA) as [G1 G2].
  unfold create_obs. cbn [app f_blk f_room f_id f_sz hp frs]. rewrite ostep_create. cbn zeta.
  rewrite SX, SA, (nreq_oracle p sz), SL', SN.
  destruct BC as (BC1 & BC2 & BC3).
  constructor; cbn [o_ok o_up o_x o_xal o_live o_nc o_allocs o_frees o_max c_up frs c_nfid hp c_max].
  - rewrite SO. cbn [andb]. apply and8.
    + (* placed *)
      rewrite EP in F2. unfold xoff in *. destruct (0 <? p_x p) eqn:GX.
      * pose proof (align_up_mod sz (p_xal p) (proj2 XA)). apply and3; lia.
      * apply andb_true_intro; split; lia.
    + rewrite (overlaps_zero _ _ NIN). reflexivity.
    + lia.
    + lia.
    + (* warm *)
      destruct (reuses pol && match pol with PMts => match olive (frs c) with [] => true | _ => false end | _ => true end
                && (nreq p sz <=? o_max s)) eqn:WM; [|reflexivity].
      apply andb_prop in WM. destruct WM as [WM LE]. apply andb_prop in WM. destruct WM as [RU BF].
      assert (h1 = hp c); [|subst; lia].
      apply BW; try lia; try exact PB.
      * intros EM. apply BUSY; [|exact EM]. rewrite EM in EP. subst pol. destruct (frs c); [reflexivity|discriminate].
      * intros ED. rewrite ED in EP. subst pol. discriminate.
    + (* not fresh => no allocation *)
      destruct (b2z (is_fresh (hp c) (g_blk g)) =? 0) eqn:FR; [|reflexivity].
      destruct (is_fresh (hp c) (g_blk g)); cbn [b2z] in FR; [discriminate|]. specialize (BC3 eq_refl). lia.
    + rewrite (create_codes _ (c_nfid c) 0). apply zlist_eqb_refl.
    + destruct (0 <? p_x p); lia.
  - exact SU.
  - intros _. auto.
  - cbn [olive map fst snd f_sz]. rewrite Z2Nat.id by lia. reflexivity.
  - intros _. lia.
  - lia.
  - intros _. unfold learn.
    destruct (match pol with PMts => match olive (frs c) with [] => true | _ => false end | _ => true end) eqn:BF.
    + assert (nreq p sz <= (match p_pol p with PMts => if g_tr g then Z.max (c_max c) (nreq p sz) else c_max c | _ => Z.max (c_max c) (nreq p sz) end)).
      { apply BL. intros EM. apply BUSY; [|exact EM]. rewrite EM in EP. subst pol. destruct (frs c); [reflexivity|discriminate]. }
      destruct (p_pol p); try lia. destruct (g_tr g); lia.
    + destruct (p_pol p); try lia. destruct (g_tr g); lia.
Qed.

Lemma sim_finish pol p c s slot f :
  RI pol p c -> Sim p c s -> c_up c = true -> fget (frs c) (n slot) = Some f -> 0 <= slot ->
  Sim p (finish p c (n slot) f) (ostep pol s ([2; slot], finish_obs p c (finish p c (n slot) f) f)).
Proof.
  intros R S U G SL. destruct R as (EP & HK & UP & DN). specialize (UP U).
  destruct S as [SO SU SP SL' SN SD SM]. destruct (SP U) as [SX SA].
  pose proof (i_frames _ _ _ _ _ UP _ _ (fget_In _ _ _ G)) as FO.
  pose proof (bdealloc_counts p (hp c) (st c) f HK FO) as BC. cbn zeta in BC.
  destruct (olive_mem _ _ _ G) as [M1 M2]. rewrite Z2Nat.id in M1, M2 by lia.
  pose proof (olive_del (frs c) (n slot) (i_keys _ _ _ _ _ UP)) as OD. rewrite Z2Nat.id in OD by lia.
  unfold finish in *. destruct (bdealloc p (hp c) (st c) (f_blk f) (f_tr f)) as [h1 s1]. cbn [fst] in BC.
  destruct BC as [BA BF].
  unfold finish_obs. cbn [app hp]. rewrite ostep_finish. cbn zeta. rewrite SL', SX, M1, M2, OD.
  constructor; cbn [o_ok o_up o_x o_xal o_live o_nc o_allocs o_frees o_max c_up frs c_nfid hp c_max].
  - rewrite SO. cbn [andb]. apply and6; try lia.
    + destruct (released h1 (f_blk f)); reflexivity.
    + rewrite (finish_codes _ (f_id f) 0). apply zlist_eqb_refl.
  - exact SU.
  - intros _. auto.
  - reflexivity.
  - exact SN.
  - lia.
  - exact SM.
Qed.

Lemma ostep_init4 pol s x a b al fr : ostep pol s ([0; x; a; b], [0; al; fr]) = oinit s x 8 al fr.
Proof. reflexivity. Qed.
Lemma ostep_init5 pol s x a b xal al fr : ostep pol s ([0; x; a; b; xal], [0; al; fr]) = oinit s x xal al fr.
Proof. reflexivity. Qed.
Lemma ostep_destroy pol s al fr : ostep pol s ([9], [0; al; fr]) =
  mkO (o_x s) false (o_live s) (o_max s) (o_nc s) (o_allocs s + al) (o_frees s + fr)
      (o_ok s && (al =? 0) && (0 <=? fr) && (o_allocs s + al =? o_frees s + fr)
       && match o_live s with [] => true | _ => false end) (o_xal s).
Proof. reflexivity. Qed.

Lemma sim_init pol p c s x a b xal :
  RI pol p c -> Sim p c s -> c_up c = false ->
  let p1 := mkPrm pol x a b xal in
  Sim p1 (init_core p1) (oinit s x xal (h_allocs (hp (init_core p1))) 0).
Proof.
  intros R S U p1. destruct R as (EP & HK & UP & DN). destruct (DN U) as [E1 E2].
  destruct S as [SO SU SP SL' SN SD SM].
  assert (D0 : o_allocs s - o_frees s = 0).
  { rewrite SD. pose proof (hk_cnt _ HK) as C. rewrite E2 in C. unfold zlen in C. cbn [length] in C. lia. }
  assert (IC : c_up (init_core p1) = true /\ frs (init_core p1) = [] /\ c_nfid (init_core p1) = 0%nat /\ c_max (init_core p1) = 0 /\
               h_frees (hp (init_core p1)) = 0 /\ 0 <= h_allocs (hp (init_core p1))).
  { unfold init_core, p1. cbn [p_pol p_b p_a]. destruct pol; cbn; try (repeat split; lia).
    destruct (0 <? b); cbn; repeat split; lia. }
  destruct IC as (I1 & I2 & I3 & I4 & I5 & I6).
  unfold oinit. constructor; cbn [o_ok o_up o_x o_xal o_live o_nc o_allocs o_frees o_max].
  - rewrite SO. cbn [andb]. apply andb_true_intro; split; lia.
  - rewrite I1. reflexivity.
  - intros _. split; reflexivity.
  - rewrite I2. reflexivity.
  - intros _. rewrite I3. reflexivity.
  - lia.
  - intros _. rewrite I4. lia.
Qed.

Lemma sim_destroy pol p c s :
  RI pol p c -> Sim p c s -> wf_op c ODestroy = true ->
  Sim p (destroy p c) (ostep pol s ([9], [0; 0; h_frees (hp (destroy p c)) - h_frees (hp c)])).
Proof.
  intros R S WF.
  pose proof (gstep_RI pol p c ODestroy R) as R1. cbn zeta in R1. rewrite WF in R1. cbn [prm_of] in R1.
  unfold gstep in R1. rewrite WF in R1. cbn [andb contract exec fst] in R1.
  destruct R1 as (_ & HK1 & _ & DN1).
  assert (U1 : c_up (destroy p c) = false) by reflexivity. destruct (DN1 U1) as [_ L1].
  pose proof (hk_cnt _ HK1) as C1. rewrite L1 in C1. unfold zlen in C1. cbn [length] in C1.
  cbn [wf_op] in WF. apply andb_prop in WF. destruct WF as [U G]. destruct (frs c) eqn:EF; [|discriminate].
  destruct S as [SO SU SP SL' SN SD SM].
  assert (AL : h_allocs (hp (destroy p c)) = h_allocs (hp c) /\ h_frees (hp c) <= h_frees (hp (destroy p c))).
  { unfold destroy. cbn [hp]. pose proof (hdel_opt_mono (hp c) (s_ptr (st c))). destruct (p_pol p); lia. }
  rewrite ostep_destroy. rewrite SL', EF. cbn [olive map].
  constructor; cbn [o_ok o_up o_x o_xal o_live o_nc o_allocs o_frees o_max].
  - rewrite SO. cbn [andb]. rewrite andb_true_r. apply and3; lia.
  - reflexivity.
  - intros X. discriminate.
  - unfold destroy. cbn [frs]. rewrite EF. reflexivity.
  - intros X. discriminate.
  - lia.
  - intros X. discriminate.
Qed.

Lemma sim_step pol p c s o :
  RI pol p c -> WR p c -> Sim p c s ->
  let p1 := if wf_op c (decode o) then prm_of pol p (decode o) else p in
  Sim p1 (fst (gstep p1 c (decode o))) (ostep pol s (o, snd (gstep p1 c (decode o)))).
Proof.
  intros R W S. cbn zeta. unfold gstep.
  destruct (wf_op c (decode o)) eqn:WF; cbn [andb]; [|cbn [fst snd]; rewrite ostep_rej; exact S].
  destruct (contract (prm_of pol p (decode o)) c (decode o)) eqn:CT; cbn [fst snd].
  2:{ rewrite ostep_rej. destruct (decode o) eqn:D; cbn [prm_of] in *; try exact S.
      cbn [wf_op] in WF. repeat (apply andb_prop in WF; destruct WF as [WF ?]). apply negb_true_iff in WF.
      destruct S as [SO SU SP SL' SN SD SM]. constructor; auto; intros X; congruence. }
  destruct (decode_cases o) as [D|[(x & a & b & ->)|[(x & a & b & xal & ->)|[(slot & k & sz & ->)|[(slot & ->)| ->]]]]].
  - rewrite D in WF. discriminate.
  - cbn [decode prm_of exec fst snd] in *. rewrite ostep_init4.
    cbn [wf_op] in WF. repeat (apply andb_prop in WF; destruct WF as [WF ?]). apply negb_true_iff in WF.
    exact (sim_init pol p c s x a b 8 R S WF).
  - cbn [decode prm_of exec fst snd] in *. rewrite ostep_init5.
    cbn [wf_op] in WF. repeat (apply andb_prop in WF; destruct WF as [WF ?]). apply negb_true_iff in WF.
    exact (sim_init pol p c s x a b xal R S WF).
  - cbn [decode] in *. destruct (0 <=? slot) eqn:SL; [|discriminate]. cbn [prm_of exec] in *.
    pose proof (sim_create pol p c s slot k sz R W S WF CT ltac:(lia)) as SC.
    destruct (create p c (n slot) sz) as [c1 f]. cbn [fst snd] in *. exact SC.
  - cbn [decode] in *. destruct (0 <=? slot) eqn:SL; [|discriminate]. cbn [prm_of exec] in *.
    cbn [wf_op] in WF. apply andb_prop in WF. destruct WF as [U G].
    destruct (fget (frs c) (n slot)) as [f|] eqn:GF; [|discriminate]. cbn [fst snd].
    exact (sim_finish pol p c s slot f R S U GF ltac:(lia)).
  - cbn [decode prm_of exec fst snd] in *. exact (sim_destroy pol p c s R S WF).
Qed.

Lemma core0_Sim pol : Sim (prm0 pol) core0 (mkO 0 false [] 0 0 0 0 true 8).
Proof. constructor; cbn; auto; try discriminate. Qed.

Lemma run_sim pol : forall ops p c s, RI pol p c -> WR p c -> Sim p c s ->
  let r := run_with gstep pol p c (map decode ops) in
  length (fst r) = length ops /\
  Sim (fst (snd r)) (snd (snd r)) (fold_left (ostep pol) (combine ops (fst r)) s).
Proof.
  induction ops as [|o ops IH]; intros p c s R W S; cbn [map run_with]; [cbn; split; [reflexivity|exact S]|].
  pose proof (gstep_RI pol p c (decode o) R) as R1. pose proof (gstep_WR pol p c (decode o) R W) as W1.
  pose proof (sim_step pol p c s o R W S) as S1. cbn zeta in R1, W1, S1.
  destruct (gstep (if wf_op c (decode o) then prm_of pol p (decode o) else p) c (decode o)) as [c1 ob]. cbn [fst snd] in *.
  specialize (IH _ _ _ R1 W1 S1). cbn zeta in IH.
  destruct (run_with gstep pol (if wf_op c (decode o) then prm_of pol p (decode o) else p) c1 (map decode ops)) as [obs r].
  cbn [fst snd combine fold_left length] in *. destruct IH as [L SS]. split; [lia|exact SS].
Qed.

(* the oracle accepts the model's own trace of every history that ends with the storage destroyed (or never built) *)
Theorem oracle_sound pol ops :
  c_up (snd (snd (run_g pol (map decode ops)))) = false -> st_oracle pol ops (st_run pol ops) = true.
Proof.
  intros U. unfold st_oracle, st_run.
  pose proof (run_sim pol ops (prm0 pol) core0 _ (core0_RI pol) ltac:(unfold WR; cbn; discriminate) (core0_Sim pol)) as RS.
  cbn zeta in RS. unfold run_g in *. destruct RS as [L S]. rewrite L, Nat.eqb_refl. cbn [andb].
  rewrite (sm_ok _ _ _ S), (sm_up _ _ _ S), U. reflexivity.
Qed.
