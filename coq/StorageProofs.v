(* StorageProofs.v — invariants of the storage-policy model and the run-level theorems of C19,
   for every policy, every history (any length, any sizes) and, for reusable_storage_mtsafe, every
   schedule of any number of threads. *)
From Cocls Require Import Base BaseProofs StorageDefs.
Require Import ZifyBool.
Local Open Scope Z_scope.
Ltac Zify.zify_post_hook ::= Z.div_mod_to_equations.

(* ---------- association list of live frames ---------- *)
Fixpoint sumw (w : frame -> Z) (l : list (nat * frame)) : Z :=
  match l with [] => 0 | (_, f) :: t => w f + sumw w t end.
Arguments sumw : simpl never.

Lemma sumw_cons w k f l : sumw w ((k, f) :: l) = w f + sumw w l.
Proof. reflexivity. Qed.
Lemma sumw_nil w : sumw w [] = 0.
Proof. reflexivity. Qed.

Definition keys (l : list (nat * frame)) := map fst l.
Definition blocks (l : list (nat * frame)) := map (fun q => f_blk (snd q)) l.

Lemma fget_In l i f : fget l i = Some f -> In (i, f) l.
Proof.
  induction l as [|[k g] l IH]; cbn [fget]; [discriminate|].
  destruct (Nat.eqb_spec i k) as [E|E]; intros H.
  - inversion H; subst. left; reflexivity.
  - right. apply IH, H.
Qed.

Lemma fget_None_keys l i : fget l i = None -> ~ In i (keys l).
Proof.
  induction l as [|[k g] l IH]; cbn [fget keys map fst]; [tauto|].
  destruct (Nat.eqb_spec i k) as [E|E]; [discriminate|]. intros H [A|A]; [congruence|]. exact (IH H A).
Qed.

Lemma In_fdel l i k g : In (k, g) (fdel l i) <-> In (k, g) l /\ k <> i.
Proof.
  induction l as [|[k' g'] l IH]; cbn [fdel In]; [tauto|].
  destruct (Nat.eqb_spec i k') as [E|E]; cbn [In]; rewrite ?IH; split.
  - intros [A B]; split; auto.
  - intros [[A|A] B]; [inversion A; subst; congruence|auto].
  - intros [A|[A B]]; [inversion A; subst; split; [auto|congruence]|split; auto].
  - intros [[A|A] B]; auto.
Qed.

Lemma keys_fdel_In l i k : In k (keys (fdel l i)) -> In k (keys l) /\ k <> i.
Proof.
  unfold keys. rewrite !in_map_iff. intros [[k' g] [E H]]. cbn [fst] in E; subst k'.
  apply In_fdel in H. destruct H as [H N]. split; [|exact N]. exists (k, g); auto.
Qed.

Lemma keys_fdel_nodup l i : NoDup (keys l) -> NoDup (keys (fdel l i)).
Proof.
  induction l as [|[k g] l IH]; cbn [fdel keys map fst]; [auto|].
  intros H. inversion H as [|? ? N D]; subst.
  destruct (Nat.eqb_spec i k) as [E|E]; [apply IH, D|].
  cbn [keys map fst]. constructor; [|apply IH, D].
  intros A. apply keys_fdel_In in A. tauto.
Qed.

Lemma blocks_fdel_In l i b : In b (blocks (fdel l i)) -> In b (blocks l).
Proof.
  unfold blocks. rewrite !in_map_iff. intros [[k g] [E H]]. apply In_fdel in H. exists (k, g). tauto.
Qed.

Lemma blocks_fdel_nodup l i : NoDup (blocks l) -> NoDup (blocks (fdel l i)).
Proof.
  induction l as [|[k g] l IH]; cbn [fdel blocks map snd]; [auto|].
  intros H. inversion H as [|? ? N D]; subst.
  destruct (Nat.eqb_spec i k) as [E|E]; [apply IH, D|].
  cbn [blocks map snd]. constructor; [|apply IH, D].
  intros A. apply blocks_fdel_In in A. exact (N A).
Qed.

Lemma sumw_fdel w l i f : NoDup (keys l) -> fget l i = Some f -> sumw w l = w f + sumw w (fdel l i).
Proof.
  induction l as [|[k g] l IH]; cbn [fget fdel keys map fst]; [discriminate|].
  intros H G. inversion H as [|? ? N D]; subst. rewrite sumw_cons.
  destruct (Nat.eqb_spec i k) as [E|E].
  - inversion G; subst.
    assert (fdel l k = l) as ->; [|reflexivity].
    clear -N. induction l as [|[k' g'] l IH]; cbn [fdel]; [reflexivity|].
    cbn [keys map fst In] in N. destruct (Nat.eqb_spec k k') as [E|E]; [exfalso; apply N; left; congruence|].
    rewrite IH; [reflexivity|]. intros A. apply N. right. exact A.
  - rewrite sumw_cons, (IH D G). lia.
Qed.

Lemma fdel_length l i : (length (fdel l i) <= length l)%nat.
Proof. induction l as [|[k g] l IH]; cbn [fdel length]; [lia|]. destruct (Nat.eqb i k); cbn [length]; lia. Qed.

Lemma fget_unique l i f g : NoDup (keys l) -> fget l i = Some f -> In (i, g) l -> g = f.
Proof.
  induction l as [|[k h] l IH]; cbn [fget keys map fst In]; [tauto|].
  intros H G A. inversion H as [|? ? N D]; subst.
  destruct (Nat.eqb_spec i k) as [E|E].
  - inversion G; subst. destruct A as [A|A]; [congruence|].
    exfalso. apply N. change (In k (map fst l)). apply in_map_iff. exists (k, g); auto.
  - destruct A as [A|A]; [congruence|]. exact (IH D G A).
Qed.

(* two different slots hold frames in different blocks *)
Lemma blocks_distinct l i j fi fj :
  NoDup (blocks l) -> fget l i = Some fi -> fget l j = Some fj -> i <> j -> f_blk fi <> f_blk fj.
Proof.
  induction l as [|[k h] l IH]; cbn [fget blocks map snd]; [discriminate|].
  intros H Gi Gj N. inversion H as [|? ? NB D]; subst.
  destruct (Nat.eqb_spec i k) as [Ei|Ei]; destruct (Nat.eqb_spec j k) as [Ej|Ej]; subst; try congruence.
  - inversion Gi; subst. intros E. apply NB. rewrite E. apply fget_In in Gj.
    change (In (f_blk fj) (blocks l)). unfold blocks. apply in_map_iff. exists (j, fj); auto.
  - inversion Gj; subst. intros E. apply NB. rewrite <- E. apply fget_In in Gi.
    change (In (f_blk fi) (blocks l)). unfold blocks. apply in_map_iff. exists (i, fi); auto.
  - exact (IH D Gi Gj N).
Qed.

(* ---------- heap ---------- *)
Definition ids (h : heap) : list nat := map fst (h_live h).

Record heap_ok (h : heap) : Prop := {
  hk_bad : h_bad h = 0;
  hk_cnt : h_allocs h - h_frees h = zlen (h_live h);
  hk_lt : forall b z, In (b, z) (h_live h) -> (b < h_next h)%nat;
  hk_nd : NoDup (ids h)
}.

Lemma hmem_In b l z : In (b, z) l -> hmem b l = true.
Proof.
  induction l as [|[x y] l IH]; cbn [In hmem]; [tauto|].
  intros [A|A]; [inversion A; subst; rewrite Nat.eqb_refl; reflexivity|]. rewrite (IH A). apply orb_true_r.
Qed.

Lemma hrem_In b l x z : In (x, z) l -> x <> b -> In (x, z) (hrem b l).
Proof.
  induction l as [|[x' y] l IH]; cbn [In hrem]; [tauto|].
  intros [A|A] N; destruct (Nat.eqb_spec b x') as [E|E]; subst.
  - inversion A; subst. congruence.
  - left; exact A.
  - exact A.
  - right. exact (IH A N).
Qed.

Lemma hrem_In_inv b l x z : In (x, z) (hrem b l) -> In (x, z) l.
Proof.
  induction l as [|[x' y] l IH]; cbn [In hrem]; [tauto|].
  destruct (Nat.eqb_spec b x'); cbn [In]; [tauto|]. intros [A|A]; [left; exact A|right; exact (IH A)].
Qed.

Lemma hrem_length b l : hmem b l = true -> zlen (hrem b l) = zlen l - 1.
Proof.
  unfold zlen. induction l as [|[x y] l IH]; cbn [hmem hrem length]; [discriminate|].
  destruct (Nat.eqb_spec b x); cbn [orb length]; [lia|]. intros H. specialize (IH H). lia.
Qed.

Lemma hrem_ids_In b l x : In x (map fst (hrem b l)) -> In x (map fst l).
Proof.
  rewrite !in_map_iff. intros [[y z] [E A]]. exists (y, z). split; [exact E|exact (hrem_In_inv _ _ _ _ A)].
Qed.

Lemma hrem_nodup b l : NoDup (map fst l) -> NoDup (map fst (hrem b l)).
Proof.
  induction l as [|[x y] l IH]; cbn [hrem map fst]; [auto|]. intros H. inversion H as [|? ? N D]; subst.
  destruct (Nat.eqb b x); [exact D|]. cbn [map fst]. constructor; [|exact (IH D)].
  intros A. apply N. exact (hrem_ids_In _ _ _ A).
Qed.

Lemma hrem_gone b l : NoDup (map fst l) -> hmem b (hrem b l) = false.
Proof.
  induction l as [|[x y] l IH]; cbn [hrem map fst hmem]; [auto|]. intros H. inversion H as [|? ? N D]; subst.
  destruct (Nat.eqb_spec b x) as [E|E].
  - subst. destruct (hmem x l) eqn:M; [|reflexivity]. exfalso. apply N.
    clear -M. induction l as [|[a c] l IH]; cbn [hmem map fst In] in *; [discriminate|].
    destruct (Nat.eqb_spec x a); [left; congruence|right; apply IH; exact M].
  - cbn [hmem]. destruct (Nat.eqb_spec b x); [congruence|]. exact (IH D).
Qed.

Lemma hnew_ok h sz : heap_ok h -> heap_ok (fst (hnew h sz)).
Proof.
  intros [B C L ND]. unfold hnew. cbn [fst]. constructor; unfold ids in *; cbn [h_bad h_allocs h_frees h_live h_next map fst].
  - exact B.
  - unfold zlen in *. cbn [length]. lia.
  - intros b z [A|A]; [inversion A; lia|]. specialize (L _ _ A). lia.
  - constructor; [|exact ND]. intros A. apply in_map_iff in A. destruct A as [[b z] [E A]]. cbn [fst] in E. subst.
    specialize (L _ _ A). lia.
Qed.

Lemma hdel_ok h b z : heap_ok h -> In (b, z) (h_live h) -> heap_ok (hdel h b).
Proof.
  intros [B C L ND] I. unfold hdel. rewrite (hmem_In _ _ _ I). constructor; unfold ids in *; cbn [h_bad h_allocs h_frees h_live h_next].
  - exact B.
  - rewrite hrem_length by exact (hmem_In _ _ _ I). lia.
  - intros x y A. apply hrem_In_inv in A. exact (L _ _ A).
  - exact (hrem_nodup _ _ ND).
Qed.

Lemma hdel_live h b z : In (b, z) (h_live h) ->
  h_live (hdel h b) = hrem b (h_live h) /\ h_next (hdel h b) = h_next h /\
  h_allocs (hdel h b) = h_allocs h /\ h_frees (hdel h b) = h_frees h + 1.
Proof. intros I. unfold hdel. rewrite (hmem_In _ _ _ I). cbn. auto. Qed.

(* ---------- the invariant ---------- *)
Definition single (pol : policy) : bool := match pol with PReu | PPlc | PBuf => true | _ => false end.

Definition nsown (pol : policy) (s : sto) : Z :=
  match pol with
  | PReu | PMts | PBuf => match s_ptr s with Some _ => 1 | None => 0 end
  | _ => 0
  end.
(* 1 if the frame's dealloc has to free the frame's block *)
Definition owns (pol : policy) (f : frame) : Z :=
  match pol with
  | PDef => 1 | PMts => if f_tr f then 0 else 1 | PStk => if f_tr f then 1 else 0 | _ => 0
  end.
Definition trw (f : frame) : Z := if f_tr f then 1 else 0.

Definition frame_ok (p : prm) (h : heap) (s : sto) (f : frame) : Prop :=
  0 < f_n f /\ f_need f = f_n f + trailer (p_pol p) /\ f_need f <= f_room f /\
  match f_blk f with
  | BHeap b => In (b, f_room f) (h_live h)
  | BOwn j => match p_pol p with PStk => (j < s_ownc s)%nat | PPlc => j = O /\ f_room f = p_a p | _ => False end
  | BNull => False
  end /\
  match p_pol p with
  | PDef => exists b, f_blk f = BHeap b
  | PReu | PBuf => f_blk f = optblk (s_ptr s)
  | PMts => if f_tr f then f_blk f = optblk (s_ptr s) else exists b, f_blk f = BHeap b /\ s_ptr s <> Some b
  | PStk => if f_tr f then exists b, f_blk f = BHeap b else exists j, f_blk f = BOwn j
  | PPlc => f_blk f = BOwn 0
  end.

Definition sto_ok (p : prm) (h : heap) (s : sto) : Prop :=
  match p_pol p with
  | PReu | PMts => 0 <= s_cap s /\ match s_ptr s with Some b => In (b, s_cap s) (h_live h) | None => s_cap s = 0 end
  | PBuf => 0 < p_a p /\ 0 <= s_bsize s <= s_bcap s /\
            match s_ptr s with Some b => In (b, s_bcap s * p_a p) (h_live h) | None => s_bcap s = 0 end
  | _ => True
  end.

Record InvT (p : prm) (k : Z) (h : heap) (s : sto) (l : list (nat * frame)) : Prop := {
  i_heap : heap_ok h;
  i_cnt : zlen (h_live h) = nsown (p_pol p) s + sumw (owns (p_pol p)) l;
  i_frames : forall i f, In (i, f) l -> frame_ok p h s f;
  i_blocks : NoDup (blocks l);
  i_keys : NoDup (keys l);
  i_sto : sto_ok p h s;
  i_busy : match p_pol p with PMts => 0 <= k /\ k + sumw trw l = b2z (s_busy s) | _ => k = 0 end;
  i_single : single (p_pol p) = true -> (length l <= 1)%nat;
  i_pos : 0 <= p_x p /\ 0 < p_xal p
}.

Lemma sumw_nonneg w l : (forall f, 0 <= w f) -> 0 <= sumw w l.
Proof.
  intros W. induction l as [|[k f] l IH]; [rewrite sumw_nil; lia|]. rewrite sumw_cons. specialize (W f). lia.
Qed.
Lemma trw_eq f : trw f = if f_tr f then 1 else 0. Proof. reflexivity. Qed.
Lemma trw_nonneg f : 0 <= trw f. Proof. unfold trw. destruct (f_tr f); lia. Qed.

Lemma sumw_trw_zero l i f : sumw trw l = 0 -> In (i, f) l -> f_tr f = false.
Proof.
  induction l as [|[k g] l IH]; cbn [In]; [tauto|]. rewrite sumw_cons.
  pose proof (trw_nonneg g). pose proof (sumw_nonneg trw l trw_nonneg).
  intros E [A|A].
  - inversion A; subst. unfold trw in *. destruct (f_tr f); [lia|reflexivity].
  - apply IH; [lia|exact A].
Qed.

(* a frame whose block lies in the heap is below the allocation cursor *)
Lemma frame_blk_lt p h s f b : heap_ok h -> frame_ok p h s f -> f_blk f = BHeap b -> (b < h_next h)%nat.
Proof.
  intros H (_ & _ & _ & V & _) E. rewrite E in V. exact (hk_lt _ H _ _ V).
Qed.

Lemma fresh_not_in_blocks p h s l : heap_ok h -> (forall i f, In (i, f) l -> frame_ok p h s f) ->
  ~ In (BHeap (h_next h)) (blocks l).
Proof.
  intros H F A. unfold blocks in A. apply in_map_iff in A. destruct A as [[i f] [E I]]. cbn [snd] in E.
  pose proof (frame_blk_lt _ _ _ _ _ H (F _ _ I) E). lia.
Qed.

(* frames are unaffected by a new heap block *)
Lemma frame_ok_hnew p h s f z : frame_ok p h s f -> frame_ok p (fst (hnew h z)) s f.
Proof.
  intros (A & B & C & V & R). repeat split; auto.
  destruct (f_blk f); auto. unfold hnew; cbn [fst h_live]. right. exact V.
Qed.

Lemma frame_ok_hdel p h s f b z : frame_ok p h s f -> In (b, z) (h_live h) -> f_blk f <> BHeap b ->
  frame_ok p (hdel h b) s f.
Proof.
  intros (A & B & C & V & R) I N. repeat split; auto.
  destruct (f_blk f) as [|x|x]; auto. destruct (hdel_live _ _ _ I) as [-> _].
  apply hrem_In; [exact V|congruence].
Qed.

Lemma In_fget l k g : NoDup (keys l) -> In (k, g) l -> fget l k = Some g.
Proof.
  induction l as [|[k' g'] l IH]; cbn [keys map fst In fget]; [tauto|].
  intros H A. inversion H as [|? ? N D]; subst.
  destruct (Nat.eqb_spec k k') as [E|E].
  - destruct A as [A|A]; [congruence|]. exfalso. apply N. subst. change (In k' (map fst l)).
    apply in_map_iff. exists (k', g); auto.
  - destruct A as [A|A]; [congruence|]. exact (IH D A).
Qed.

Lemma frame_ok_sto p h s s' f : s_ptr s' = s_ptr s -> (s_ownc s <= s_ownc s')%nat -> frame_ok p h s f -> frame_ok p h s' f.
Proof.
  intros EP EO (A & B & C & V & R). repeat split; auto.
  - destruct (f_blk f); auto. destruct (p_pol p); auto. lia.
  - rewrite EP. exact R.
Qed.

Lemma own_not_in_blocks p h s l : (forall i f, In (i, f) l -> frame_ok p h s f) -> p_pol p = PStk ->
  ~ In (BOwn (s_ownc s)) (blocks l).
Proof.
  intros F EP A. unfold blocks in A. apply in_map_iff in A. destruct A as [[i f] [E I]]. cbn [snd] in E.
  destruct (F _ _ I) as (_ & _ & _ & V & _). rewrite E, EP in V. lia.
Qed.

Lemma zlen_cons {A} (x : A) l : zlen (x :: l) = zlen l + 1.
Proof. unfold zlen. cbn [length]. lia. Qed.

(* ---------- reusable_storage_mtsafe: the three atomic pieces ---------- *)
Lemma mts_lost_inv p k h s l slot fid n fsz :
  p_pol p = PMts -> InvT p k h s l -> 0 < n -> ~ In slot (keys l) ->
  let '(h1, s1, g) := mts_lost h s n in
  InvT p k h1 s1 ((slot, mkFr fid (g_blk g) n (g_need g) (g_room g) (g_tr g) fsz) :: l).
Proof.
  intros EP I N K. unfold mts_lost, hnew. cbn [g_blk g_need g_room g_tr].
  destruct I as [IH IC IF IB IK IS IBZ ISG IX].
  constructor.
  - exact (hnew_ok h (n + ptr_sz) IH).
  - cbn [h_live]. rewrite zlen_cons, sumw_cons, IC, EP. cbn [owns f_tr nsown]. lia.
  - intros i f [A|A].
    + inversion A; subst. unfold frame_ok. cbn [f_n f_need f_room f_blk f_tr h_live]. rewrite EP. cbn [trailer].
      unfold ptr_sz. repeat split; try lia; [left; reflexivity|].
      exists (h_next h). split; [reflexivity|]. intros E. unfold sto_ok in IS. rewrite EP, E in IS.
      destruct IS as [_ IS]. pose proof (hk_lt _ IH _ _ IS). lia.
    + exact (frame_ok_hnew p h s f (n + ptr_sz) (IF _ _ A)).
  - cbn [blocks map snd f_blk]. constructor; [|exact IB]. exact (fresh_not_in_blocks p h s l IH IF).
  - cbn [keys map fst]. constructor; assumption.
  - unfold sto_ok in *. rewrite EP in *. destruct IS as [C0 IS]. split; [exact C0|].
    destruct (s_ptr s); [right; exact IS|exact IS].
  - rewrite EP in *. rewrite sumw_cons. unfold trw at 1. cbn [f_tr]. lia.
  - rewrite EP. discriminate.
  - exact IX.
Qed.

Lemma mts_claim_inv p k h s l :
  p_pol p = PMts -> InvT p k h s l -> s_busy s = false -> k = 0 /\ InvT p 1 h (set_busy s true) l.
Proof.
  intros EP I B. destruct I as [IH IC IF IB IK IS IBZ ISG IX]. rewrite EP in IBZ. rewrite B in IBZ. cbn [b2z] in IBZ.
  pose proof (sumw_nonneg trw l trw_nonneg) as NN. split; [lia|].
  constructor.
  - exact IH.
  - rewrite EP in *. exact IC.
  - intros i f A. apply (frame_ok_sto p h s); [reflexivity|cbn; lia|exact (IF _ _ A)].
  - exact IB.
  - exact IK.
  - unfold sto_ok in *. rewrite EP in *. exact IS.
  - rewrite EP. cbn [set_busy s_busy b2z]. lia.
  - exact ISG.
  - exact IX.
Qed.

Lemma mts_won_inv p k h s l slot fid n fsz :
  p_pol p = PMts -> 0 <= k -> InvT p (k + 1) h s l -> 0 < n -> ~ In slot (keys l) ->
  let '(h1, s1, g) := mts_won h s n in
  InvT p k h1 s1 ((slot, mkFr fid (g_blk g) n (g_need g) (g_room g) (g_tr g) fsz) :: l).
Proof.
  intros EP K0 I N K. destruct I as [IH IC IF IB IK IS IBZ ISG IX].
  rewrite EP in IBZ. pose proof (sumw_nonneg trw l trw_nonneg) as NN.
  assert (s_busy s = true /\ sumw trw l = 0) as [BT TZ].
  { destruct (s_busy s); cbn [b2z] in IBZ; split; auto; lia. }
  rewrite BT in IBZ. cbn [b2z] in IBZ.
  assert (HF : forall i f, In (i, f) l -> exists b, f_blk f = BHeap b /\ s_ptr s <> Some b /\ In (b, f_room f) (h_live h)).
  { intros i f A. pose proof (sumw_trw_zero _ _ _ TZ A) as T. destruct (IF _ _ A) as (_ & _ & _ & V & R).
    rewrite EP, T in R. destruct R as [b [E NE]]. exists b. rewrite E in V. auto. }
  unfold sto_ok in IS. rewrite EP in IS. destruct IS as [C0 IS].
  unfold mts_won, reu_alloc. destruct (n + ptr_sz >? s_cap s) eqn:G.
  - (* grow *)
    set (h' := hdel_opt h (s_ptr s)).
    assert (H' : heap_ok h' /\ h_next h' = h_next h /\
                 zlen (h_live h') = zlen (h_live h) - nsown PMts s /\
                 (forall x z, In (x, z) (h_live h) -> s_ptr s <> Some x -> In (x, z) (h_live h'))).
    { unfold h', hdel_opt, nsown. destruct (s_ptr s) as [b0|] eqn:EP0.
      - destruct (hdel_live _ _ _ IS) as (L1 & L2 & _). refine (conj _ (conj _ (conj _ _))).
        + exact (hdel_ok _ _ _ IH IS).
        + exact L2.
        + rewrite L1. rewrite hrem_length by exact (hmem_In _ _ _ IS). lia.
        + intros x z A NE. rewrite L1. apply hrem_In; [exact A|congruence].
      - refine (conj IH (conj eq_refl (conj _ _))); [lia|auto]. }
    destruct H' as (H1 & H2 & H3 & H4).
    unfold hnew. cbn [g_blk g_need g_room g_tr s_cap]. rewrite H2.
    constructor.
    + pose proof (hnew_ok h' (n + ptr_sz) H1) as X. unfold hnew in X. cbn [fst] in X. rewrite H2 in X. exact X.
    + cbn [h_live]. rewrite zlen_cons, sumw_cons, H3, IC, EP. cbn [owns f_tr nsown s_ptr]. lia.
    + intros i f [A|A].
      * inversion A; subst. unfold frame_ok. cbn [f_n f_need f_room f_blk f_tr h_live s_ptr]. rewrite EP. cbn [trailer optblk].
        unfold ptr_sz. repeat split; try lia. apply in_eq.
      * destruct (HF _ _ A) as [b [E [NE V]]]. destruct (IF _ _ A) as (F1 & F2 & F3 & _ & F5).
        pose proof (sumw_trw_zero _ _ _ TZ A) as T.
        unfold frame_ok. rewrite E, EP, T. cbn [h_live s_ptr]. rewrite EP in F2.
        refine (conj F1 (conj F2 (conj F3 (conj _ _)))).
        -- apply in_cons, H4; assumption.
        -- exists b. split; [reflexivity|]. pose proof (hk_lt _ IH _ _ V). intros X. inversion X. lia.
    + cbn [blocks map snd f_blk]. constructor; [|exact IB]. exact (fresh_not_in_blocks p h s l IH IF).
    + cbn [keys map fst]. constructor; assumption.
    + unfold sto_ok. rewrite EP. cbn [s_cap s_ptr h_live]. unfold ptr_sz. split; [lia|]. apply in_eq.
    + rewrite EP, sumw_cons. unfold trw at 1. cbn [f_tr s_busy]. rewrite BT. cbn [b2z]. lia.
    + rewrite EP. discriminate.
    + exact IX.
  - (* reuse *)
    cbn [g_blk g_need g_room g_tr].
    destruct (s_ptr s) as [b0|] eqn:EP0; [|unfold ptr_sz in *; lia].
    cbn [optblk]. constructor.
    + exact IH.
    + rewrite sumw_cons, IC, EP. cbn [owns f_tr]. lia.
    + intros i f [A|A]; [|exact (IF _ _ A)].
      inversion A; subst. unfold frame_ok. cbn [f_n f_need f_room f_blk f_tr]. rewrite EP, EP0. cbn [trailer optblk].
      unfold ptr_sz in *. repeat split; try lia. exact IS.
    + cbn [blocks map snd f_blk]. constructor; [|exact IB].
      intros A. unfold blocks in A. apply in_map_iff in A. destruct A as [[i f] [E A]]. cbn [snd] in E.
      destruct (HF _ _ A) as [b [E2 [NE _]]]. congruence.
    + cbn [keys map fst]. constructor; assumption.
    + unfold sto_ok. rewrite EP, EP0. auto.
    + rewrite EP, sumw_cons. unfold trw at 1. cbn [f_tr]. rewrite BT. cbn [b2z]. lia.
    + rewrite EP. discriminate.
    + exact IX.
Qed.

(* ---------- destruction of a frame, every policy ---------- *)
Lemma others_distinct l slot f k g : NoDup (blocks l) -> NoDup (keys l) -> fget l slot = Some f ->
  In (k, g) (fdel l slot) -> In (k, g) l /\ f_blk g <> f_blk f.
Proof.
  intros B K G A. apply In_fdel in A. destruct A as [A N]. split; [exact A|].
  exact (blocks_distinct l k slot g f B (In_fget _ _ _ K A) G N).
Qed.

Lemma finish_inv p k h s l slot f :
  InvT p k h s l -> fget l slot = Some f ->
  let '(h1, s1) := bdealloc p h s (f_blk f) (f_tr f) in InvT p k h1 s1 (fdel l slot).
Proof.
  intros I G. destruct I as [IH IC IF IB IK IS IBZ ISG IX].
  pose proof (fget_In _ _ _ G) as GI. pose proof (IF _ _ GI) as FO.
  pose proof (sumw_fdel (owns (p_pol p)) l slot f IK G) as SO.
  pose proof (sumw_fdel trw l slot f IK G) as ST.
  pose proof (blocks_fdel_nodup l slot IB) as B'. pose proof (keys_fdel_nodup l slot IK) as K'.
  assert (LEN : single (p_pol p) = true -> (length (fdel l slot) <= 1)%nat).
  { intros X. specialize (ISG X). pose proof (fdel_length l slot). lia. }
  assert (SUB : forall i g, In (i, g) (fdel l slot) -> frame_ok p h s g).
  { intros i g A. apply In_fdel in A. apply (IF i g), A. }
  (* the case "the block of f is released": common to Def, Mts(heap), Stk(heap) *)
  assert (REL : forall b, f_blk f = BHeap b -> owns (p_pol p) f = 1 -> (p_pol p = PMts -> s_ptr s <> Some b) ->
                InvT p k (hdel h b) s (fdel l slot)).
  { intros b E OW NP. destruct FO as (_ & _ & _ & V & _). rewrite E in V.
    destruct (hdel_live _ _ _ V) as (L1 & L2 & L3 & L4).
    constructor; auto.
    - exact (hdel_ok _ _ _ IH V).
    - rewrite L1, hrem_length by exact (hmem_In _ _ _ V). lia.
    - intros i g A. destruct (others_distinct _ _ _ _ _ IB IK G A) as [A1 A2].
      apply (frame_ok_hdel p h s g b (f_room f)); [exact (IF _ _ A1)|exact V|congruence].
    - unfold sto_ok in *. destruct (p_pol p) eqn:EP; auto; cbn [owns] in OW; try lia.
      destruct IS as [C0 IS]. split; [exact C0|]. destruct (s_ptr s) as [b0|] eqn:E0; [|exact IS].
      rewrite L1. apply hrem_In; [exact IS|]. intros X. apply (NP eq_refl). congruence.
    - destruct (p_pol p) eqn:EP; auto. cbn [owns] in OW. rewrite (trw_eq f) in ST. destruct (f_tr f); lia. }
  unfold bdealloc. unfold frame_ok in FO. destruct (p_pol p) eqn:EP; try rewrite EP in FO; try rewrite EP in IBZ.
  - (* PDef *) destruct FO as (F1 & F2 & F3 & V & [b E]). rewrite E. cbn [hdel_blk].
    apply REL; [exact E|reflexivity|discriminate].
  - (* PReu *) constructor; rewrite ?EP; [exact IH| |exact SUB|exact B'|exact K'|exact IS|exact IBZ|exact LEN|exact IX].
    cbn [owns] in *. lia.
  - (* PMts *) destruct (f_tr f) eqn:T.
    + assert (sumw trw (fdel l slot) = 0 /\ k = 0 /\ s_busy s = true) as (Z1 & Z2 & Z3).
      { rewrite (trw_eq f) in ST; try rewrite T in ST. pose proof (sumw_nonneg trw (fdel l slot) trw_nonneg).
        destruct (s_busy s); cbn [b2z] in IBZ; repeat split; lia. }
      constructor; rewrite ?EP; [exact IH| | |exact B'|exact K'| | |exact LEN|exact IX].
      * cbn [owns] in *. try rewrite T in SO. cbn [nsown set_busy s_ptr] in *. lia.
      * intros i g A. apply (frame_ok_sto p h s); [reflexivity|cbn; lia|exact (SUB _ _ A)].
      * unfold sto_ok in *. exact IS.
      * cbn [set_busy s_busy b2z]. lia.
    + destruct FO as (F1 & F2 & F3 & V & R). try rewrite T in R. destruct R as [b [E NE]]. rewrite E. cbn [hdel_blk].
      apply REL; [exact E|cbn [owns]; try rewrite T; reflexivity|auto].
  - (* PStk *) destruct (f_tr f) eqn:T.
    + destruct FO as (F1 & F2 & F3 & V & R). try rewrite T in R. destruct R as [b E]. rewrite E. cbn [hdel_blk].
      apply REL; [exact E|cbn [owns]; try rewrite T; reflexivity|discriminate].
    + constructor; rewrite ?EP; [exact IH| |exact SUB|exact B'|exact K'|exact IS|exact IBZ|exact LEN|exact IX].
      cbn [owns] in *. try rewrite T in SO. lia.
  - (* PPlc *) constructor; rewrite ?EP; [exact IH| |exact SUB|exact B'|exact K'|exact IS|exact IBZ|exact LEN|exact IX].
    cbn [owns] in *. lia.
  - (* PBuf *) constructor; rewrite ?EP; [exact IH| |exact SUB|exact B'|exact K'|exact IS|exact IBZ|exact LEN|exact IX].
    cbn [owns] in *. lia.
Qed.

(* ---------- creation of a frame, every policy (sequential use) ---------- *)
Lemma ceil_mul n a : 0 < a -> n <= (n + a - 1) / a * a.
Proof.
  intros A. pose proof (Z.div_mod (n + a - 1) a ltac:(lia)) as D.
  pose proof (Z.mod_pos_bound (n + a - 1) a A) as M. lia.
Qed.

Lemma align_up_ge n a : 0 < a -> n <= align_up n a.
Proof. exact (ceil_mul n a). Qed.
Lemma align_up_mod n a : 0 < a -> align_up n a mod a = 0.
Proof. intros A. unfold align_up. apply Z.mod_mul. lia. Qed.
Lemma nreq_ge p sz : 0 <= p_x p /\ 0 < p_xal p -> sz <= xoff p sz /\ xoff p sz + (if 0 <? p_x p then p_x p else 0) <= nreq p sz.
Proof.
  intros [X A]. unfold nreq, xoff. destruct (0 <? p_x p) eqn:G; [|lia].
  pose proof (align_up_ge sz (p_xal p) A). pose proof (align_up_ge (align_up sz (p_xal p) + p_x p) 8 ltac:(lia)). lia.
Qed.
Lemma nreq_pos p sz : 0 <= p_x p /\ 0 < p_xal p -> 0 < sz -> 0 < nreq p sz.
Proof. intros H S. pose proof (nreq_ge p sz H). destruct (0 <? p_x p); lia. Qed.

Lemma balloc_inv p h s l slot fid n fsz :
  InvT p 0 h s l -> 0 < n -> ~ In slot (keys l) ->
  (single (p_pol p) = true -> l = []) -> (p_pol p = PPlc -> n <= p_a p) ->
  let '(h1, s1, g) := balloc p h s n in
  InvT p 0 h1 s1 ((slot, mkFr fid (g_blk g) n (g_need g) (g_room g) (g_tr g) fsz) :: l).
Proof.
  intros I N K SG PL. unfold balloc. destruct (p_pol p) eqn:EP.
  - (* PDef *)
    destruct I as [IH IC IF IB IK IS IBZ ISG IX]. unfold hnew. cbn [g_blk g_need g_room g_tr].
    constructor; rewrite ?EP.
    + exact (hnew_ok h n IH).
    + cbn [h_live]. rewrite zlen_cons, sumw_cons, IC, EP. cbn [owns nsown]. lia.
    + intros i f [A|A]; [|exact (frame_ok_hnew p h s f n (IF _ _ A))].
      inversion A; subst. unfold frame_ok. cbn [f_n f_need f_room f_blk f_tr h_live]. rewrite EP. cbn [trailer].
      refine (conj N (conj _ (conj _ (conj _ _)))); try lia; [apply in_eq|eexists; reflexivity].
    + cbn [blocks map snd f_blk]. constructor; [|exact IB]. exact (fresh_not_in_blocks p h s l IH IF).
    + cbn [keys map fst]. constructor; assumption.
    + unfold sto_ok. rewrite EP. exact Logic.I.
    + reflexivity.
    + discriminate.
    + exact IX.
  - (* PReu *)
    specialize (SG eq_refl). subst l.
    destruct I as [IH IC IF IB IK IS IBZ ISG IX]. unfold sto_ok in IS. rewrite EP in IS, IC. destruct IS as [C0 IS].
    rewrite sumw_nil in IC. cbn [nsown] in IC.
    unfold reu_alloc. destruct (n >? s_cap s) eqn:G.
    + set (h' := hdel_opt h (s_ptr s)).
      assert (H' : heap_ok h' /\ h_next h' = h_next h /\ zlen (h_live h') = 0).
      { unfold h', hdel_opt. destruct (s_ptr s) as [b0|] eqn:EP0.
        - destruct (hdel_live _ _ _ IS) as (L1 & L2 & _). refine (conj (hdel_ok _ _ _ IH IS) (conj L2 _)).
          rewrite L1, hrem_length by exact (hmem_In _ _ _ IS). lia.
        - refine (conj IH (conj eq_refl _)). lia. }
      destruct H' as (H1 & H2 & H3). unfold hnew. cbn [g_blk g_need g_room g_tr s_cap]. rewrite H2.
      constructor; rewrite ?EP.
      * pose proof (hnew_ok h' n H1) as X. unfold hnew in X. cbn [fst] in X. rewrite H2 in X. exact X.
      * cbn [h_live]. rewrite zlen_cons, sumw_cons, sumw_nil, H3. cbn [owns nsown s_ptr]. lia.
      * intros i f [A|[]]. inversion A; subst. unfold frame_ok. cbn [f_n f_need f_room f_blk f_tr h_live s_ptr]. rewrite EP.
        cbn [trailer optblk]. refine (conj N (conj _ (conj _ (conj _ _)))); try lia; [apply in_eq|reflexivity].
      * cbn [blocks map]. constructor; [intros []|constructor].
      * cbn [keys map]. constructor; [intros []|constructor].
      * unfold sto_ok. rewrite EP. cbn [s_cap s_ptr h_live]. split; [lia|apply in_eq].
      * reflexivity.
      * cbn [length]. lia.
      * exact IX.
    + cbn [g_blk g_need g_room g_tr]. destruct (s_ptr s) as [b0|] eqn:EP0; [|lia]. cbn [optblk].
      constructor; rewrite ?EP.
      * exact IH.
      * rewrite sumw_cons, sumw_nil. cbn [owns nsown]. rewrite EP0. lia.
      * intros i f [A|[]]. inversion A; subst. unfold frame_ok. cbn [f_n f_need f_room f_blk f_tr]. rewrite EP, EP0.
        cbn [trailer optblk]. refine (conj N (conj _ (conj _ (conj IS eq_refl)))); lia.
      * cbn [blocks map]. constructor; [intros []|constructor].
      * cbn [keys map]. constructor; [intros []|constructor].
      * unfold sto_ok. rewrite EP, EP0. auto.
      * reflexivity.
      * cbn [length]. lia.
      * exact IX.
  - (* PMts *)
    destruct (s_busy s) eqn:B.
    + exact (mts_lost_inv p 0 h s l slot fid n fsz EP I N K).
    + destruct (mts_claim_inv p 0 h s l EP I B) as [_ I1].
      exact (mts_won_inv p 0 h (set_busy s true) l slot fid n fsz EP ltac:(lia) I1 N K).
  - (* PStk *)
    destruct I as [IH IC IF IB IK IS IBZ ISG IX].
    assert (OLD : forall s', s_ptr s' = s_ptr s -> s_ownc s' = S (s_ownc s) ->
                  forall i f, In (i, f) l -> frame_ok p h s' f).
    { intros s' E1 E2 i f A. apply (frame_ok_sto p h s); [exact E1|lia|exact (IF _ _ A)]. }
    destruct (n + 1 <=? s_state s) eqn:G.
    + cbn [g_blk g_need g_room g_tr]. constructor; rewrite ?EP.
      * exact IH.
      * rewrite sumw_cons, IC, EP. cbn [owns nsown f_tr]. lia.
      * intros i f [A|A]; [|apply OLD with (i := i); [reflexivity|reflexivity|exact A]].
        inversion A; subst. unfold frame_ok. cbn [f_n f_need f_room f_blk f_tr s_ownc]. rewrite EP. cbn [trailer].
        refine (conj N (conj _ (conj _ (conj _ _)))); try lia. eexists; reflexivity.
      * cbn [blocks map snd f_blk]. constructor; [|exact IB]. exact (own_not_in_blocks p h s l IF EP).
      * cbn [keys map fst]. constructor; assumption.
      * unfold sto_ok. rewrite EP. exact Logic.I.
      * reflexivity.
      * discriminate.
      * exact IX.
    + unfold hnew. cbn [g_blk g_need g_room g_tr]. constructor; rewrite ?EP.
      * exact (hnew_ok h (n + 1) IH).
      * cbn [h_live]. rewrite zlen_cons, sumw_cons, IC, EP. cbn [owns nsown f_tr]. lia.
      * intros i f [A|A].
        -- inversion A; subst. unfold frame_ok. cbn [f_n f_need f_room f_blk f_tr h_live]. rewrite EP. cbn [trailer].
           refine (conj N (conj _ (conj _ (conj _ _)))); try lia; [apply in_eq|eexists; reflexivity].
        -- apply (frame_ok_hnew p h _ f (n + 1)). apply OLD with (i := i); [reflexivity|reflexivity|exact A].
      * cbn [blocks map snd f_blk]. constructor; [|exact IB]. exact (fresh_not_in_blocks p h s l IH IF).
      * cbn [keys map fst]. constructor; assumption.
      * unfold sto_ok. rewrite EP. exact Logic.I.
      * reflexivity.
      * discriminate.
      * exact IX.
  - (* PPlc *)
    specialize (SG eq_refl). subst l. specialize (PL eq_refl).
    destruct I as [IH IC IF IB IK IS IBZ ISG IX]. cbn [g_blk g_need g_room g_tr].
    constructor; rewrite ?EP.
    + exact IH.
    + rewrite sumw_cons, IC, EP. cbn [owns nsown]. lia.
    + intros i f [A|[]]. inversion A; subst. unfold frame_ok. cbn [f_n f_need f_room f_blk f_tr]. rewrite EP. cbn [trailer].
      refine (conj N (conj _ (conj _ (conj (conj eq_refl eq_refl) eq_refl)))); lia.
    + cbn [blocks map]. constructor; [intros []|constructor].
    + cbn [keys map]. constructor; [intros []|constructor].
    + unfold sto_ok. rewrite EP. exact Logic.I.
    + reflexivity.
    + cbn [length]. lia.
    + exact IX.
  - (* PBuf *)
    specialize (SG eq_refl). subst l.
    destruct I as [IH IC IF IB IK IS IBZ ISG IX]. unfold sto_ok in IS. rewrite EP in IS, IC.
    destruct IS as (A0 & [S0 S1] & IS). rewrite sumw_nil in IC. cbn [nsown] in IC.
    set (items := (n + p_a p - 1) / p_a p).
    pose proof (ceil_mul n (p_a p) A0) as CM. fold items in CM.
    assert (I1 : 1 <= items).
    { unfold items. pose proof (Z.div_mod (n + p_a p - 1) (p_a p) ltac:(lia)).
      pose proof (Z.mod_pos_bound (n + p_a p - 1) (p_a p) A0). nia. }
    assert (FIN : forall h1 s1, heap_ok h1 -> zlen (h_live h1) = 1 -> items <= s_bcap s1 -> 0 <= s_bsize s1 <= s_bcap s1 ->
                  forall b1, s_ptr s1 = Some b1 -> In (b1, s_bcap s1 * p_a p) (h_live h1) ->
                  InvT p 0 h1 s1 [(slot, mkFr fid (optblk (s_ptr s1)) n n (s_bcap s1 * p_a p) false fsz)]).
    { intros h1 s1 HK Z1 LE SZ b1 E1 V1.
      assert (n <= s_bcap s1 * p_a p) by nia.
      constructor; rewrite ?EP.
      - exact HK.
      - rewrite sumw_cons, sumw_nil, Z1. cbn [owns nsown]. rewrite E1. lia.
      - intros i f [A|[]]. inversion A; subst. unfold frame_ok. cbn [f_n f_need f_room f_blk f_tr]. rewrite EP, E1.
        cbn [trailer optblk]. refine (conj N (conj _ (conj _ (conj V1 eq_refl)))); lia.
      - cbn [blocks map]. constructor; [intros []|constructor].
      - cbn [keys map]. constructor; [intros []|constructor].
      - unfold sto_ok. rewrite EP, E1. auto.
      - reflexivity.
      - cbn [length]. lia.
      - exact IX. }
    destruct (s_bsize s <? items) eqn:G1.
    + unfold vec_resize. destruct (items >? s_bcap s) eqn:G2.
      * unfold hnew. cbn [g_blk g_need g_room g_tr].
        set (ncap := Z.max (2 * s_bsize s) items).
        set (h1 := mkHeap (S (h_next h)) ((h_next h, ncap * p_a p) :: h_live h) (h_allocs h + 1) (h_frees h) (h_bad h)).
        assert (HK1 : heap_ok h1) by exact (hnew_ok h (ncap * p_a p) IH).
        assert (HD : heap_ok (hdel_opt h1 (s_ptr s)) /\ zlen (h_live (hdel_opt h1 (s_ptr s))) = 1 /\
                     In (h_next h, ncap * p_a p) (h_live (hdel_opt h1 (s_ptr s)))).
        { unfold hdel_opt. destruct (s_ptr s) as [b0|] eqn:EP0.
          - assert (V : In (b0, s_bcap s * p_a p) (h_live h1)) by (apply in_cons; exact IS).
            destruct (hdel_live _ _ _ V) as (L1 & _). refine (conj (hdel_ok _ _ _ HK1 V) (conj _ _)).
            + rewrite L1, hrem_length by exact (hmem_In _ _ _ V). unfold h1. cbn [h_live]. rewrite zlen_cons. lia.
            + rewrite L1. apply hrem_In; [apply in_eq|]. pose proof (hk_lt _ IH _ _ IS). lia.
          - refine (conj HK1 (conj _ (in_eq _ _))). unfold h1. cbn [h_live]. rewrite zlen_cons. lia. }
        destruct HD as (D1 & D2 & D3).
        apply (FIN _ _ D1 D2) with (b1 := h_next h); cbn [s_bcap s_bsize s_ptr]; try lia; [reflexivity|exact D3].
      * cbn [g_blk g_need g_room g_tr].
        assert (exists b0, s_ptr s = Some b0) as [b0 EP0] by (destruct (s_ptr s); [eexists; reflexivity|lia]).
        rewrite EP0 in IS, IC.
        refine (FIN h _ IH _ _ _ b0 _ _); cbn [s_bcap s_bsize s_ptr]; try lia; [exact EP0|exact IS].
    + cbn [g_blk g_need g_room g_tr].
      assert (exists b0, s_ptr s = Some b0) as [b0 EP0] by (destruct (s_ptr s); [eexists; reflexivity|lia]).
      rewrite EP0 in IS, IC.
      refine (FIN h s IH _ _ _ b0 EP0 IS); lia.
Qed.

(* ---------- run level ---------- *)
Definition RI (pol : policy) (p : prm) (c : core) : Prop :=
  p_pol p = pol /\ heap_ok (hp c) /\
  (c_up c = true -> InvT p 0 (hp c) (st c) (frs c)) /\
  (c_up c = false -> frs c = [] /\ h_live (hp c) = []).

Lemma heap0_ok : heap_ok heap0.
Proof. constructor; cbn; auto; [intros b z []|constructor]. Qed.

Lemma zlen_nil_inv {A} (l : list A) : zlen l = 0 -> l = [].
Proof. destruct l; [reflexivity|]. unfold zlen. cbn [length]. lia. Qed.

Lemma init_inv p : 0 <= p_x p /\ 0 < p_xal p -> 0 <= p_a p -> 0 <= p_b p -> (p_pol p = PBuf -> 0 < p_a p) ->
  InvT p 0 (hp (init_core p)) (st (init_core p)) (frs (init_core p)) /\ c_up (init_core p) = true.
Proof.
  intros X A B PB. unfold init_core.
  assert (BASE : forall s, s_ptr s = None -> s_cap s = 0 -> s_busy s = false -> s_bsize s = 0 -> s_bcap s = 0 ->
                 InvT p 0 heap0 s []).
  { intros s E1 E2 E3 E4 E5. constructor.
    - exact heap0_ok.
    - rewrite sumw_nil. unfold nsown. rewrite E1. destruct (p_pol p); reflexivity.
    - intros i f [].
    - constructor.
    - constructor.
    - unfold sto_ok. rewrite E1, E2, E4, E5. destruct (p_pol p) eqn:EP; auto; try lia.
    - rewrite sumw_nil, E3. destruct (p_pol p); cbn; lia.
    - cbn [length]. lia.
    - exact X. }
  destruct (p_pol p) eqn:EP; try (split; [apply BASE; reflexivity|reflexivity]).
  destruct (0 <? p_b p) eqn:G; [|split; [apply BASE; reflexivity|reflexivity]].
  unfold hnew, heap0. cbn [hp st frs c_up h_next]. split; [|reflexivity].
  specialize (PB eq_refl). constructor; rewrite ?EP.
  - exact (hnew_ok heap0 (p_b p * p_a p) heap0_ok).
  - reflexivity.
  - intros i f [].
  - constructor.
  - constructor.
  - unfold sto_ok. rewrite EP. cbn [s_bsize s_bcap s_ptr h_live]. repeat split; try lia. apply in_eq.
  - reflexivity.
  - cbn [length]. lia.
  - exact X.
Qed.

Lemma destroy_heap h po : heap_ok h -> zlen (h_live h) = (match po with Some _ => 1 | None => 0 end) ->
  (forall b, po = Some b -> exists z, In (b, z) (h_live h)) ->
  heap_ok (hdel_opt h po) /\ h_live (hdel_opt h po) = [].
Proof.
  intros HK Z E. unfold hdel_opt. destruct po as [b|].
  - destruct (E b eq_refl) as [z V]. destruct (hdel_live _ _ _ V) as (L1 & _).
    split; [exact (hdel_ok _ _ _ HK V)|]. rewrite L1. apply zlen_nil_inv.
    rewrite hrem_length by exact (hmem_In _ _ _ V). lia.
  - split; [exact HK|]. apply zlen_nil_inv. exact Z.
Qed.

Lemma gstep_RI pol p c o :
  RI pol p c ->
  let p1 := if wf_op c o then prm_of pol p o else p in
  RI pol p1 (fst (gstep p1 c o)).
Proof.
  intros (EP & HK & UP & DN). cbn zeta.
  assert (EP1 : p_pol (if wf_op c o then prm_of pol p o else p) = pol).
  { destruct (wf_op c o); [|exact EP]. destruct o; cbn [prm_of p_pol]; auto. }
  unfold gstep. destruct (wf_op c o) eqn:W; cbn [andb]; [|cbn [fst]; exact (conj EP (conj HK (conj UP DN)))].
  destruct (contract (prm_of pol p o) c o) eqn:CT; cbn [fst].
  2:{ destruct o; cbn [prm_of] in *; try exact (conj EP (conj HK (conj UP DN))).
      cbn [wf_op] in W. repeat (apply andb_prop in W; destruct W as [W ?]). apply negb_true_iff in W.
      refine (conj eq_refl (conj HK (conj _ DN))). intros U. congruence. }
  destruct o as [x a b xal|slot sz|slot| |]; cbn [prm_of] in *; cbn [exec fst].
  - (* Init *)
    cbn [wf_op] in W. repeat (apply andb_prop in W; destruct W as [W ?]).
    destruct (init_inv (mkPrm pol x a b xal)) as [I U]; cbn [p_x p_a p_b p_pol p_xal]; try lia.
    { intros E. cbn [contract p_pol] in CT. rewrite E in CT. lia. }
    refine (conj eq_refl (conj (i_heap _ _ _ _ _ I) (conj (fun _ => I) _))). intros U2. congruence.
  - (* Create *)
    cbn [wf_op] in W. repeat (apply andb_prop in W; destruct W as [W ?]).
    destruct (fget (frs c) slot) eqn:G; [discriminate|].
    specialize (UP W). pose proof (i_pos _ _ _ _ _ UP) as X.
    assert (SGL : single (p_pol p) = true -> frs c = []).
    { intros S. cbn [contract] in CT. destruct (p_pol p); try discriminate; destruct (frs c); auto; discriminate. }
    assert (PLC : p_pol p = PPlc -> nreq p sz <= p_a p).
    { intros E. cbn [contract] in CT. rewrite E in CT. destruct (frs c); [lia|discriminate]. }
    pose proof (balloc_inv p (hp c) (st c) (frs c) slot (c_nfid c) (nreq p sz) sz UP (nreq_pos p sz X ltac:(lia))
                  (fget_None_keys _ _ G) SGL PLC) as BI.
    unfold create, mk_frame. destruct (balloc p (hp c) (st c) (nreq p sz)) as [[h1 s1] g].
    cbn [fst hp st frs c_up]. refine (conj EP (conj (i_heap _ _ _ _ _ BI) (conj (fun _ => BI) _))). intros U2. cbn [c_up] in U2. congruence.
  - (* Finish *)
    cbn [wf_op] in W. apply andb_prop in W. destruct W as [W G].
    destruct (fget (frs c) slot) as [f|] eqn:GF; [|discriminate].
    specialize (UP W). pose proof (finish_inv p 0 (hp c) (st c) (frs c) slot f UP GF) as FI.
    unfold finish. destruct (bdealloc p (hp c) (st c) (f_blk f) (f_tr f)) as [h1 s1].
    cbn [fst hp st frs c_up]. refine (conj EP (conj (i_heap _ _ _ _ _ FI) (conj (fun _ => FI) _))). intros U2. cbn [c_up] in U2. congruence.
  - (* Destroy *)
    cbn [wf_op] in W. apply andb_prop in W. destruct W as [W G].
    destruct (frs c) eqn:EF; [|discriminate]. specialize (UP W).
    destruct UP as [IH IC IF IB IK IS IBZ ISG IX]. rewrite sumw_nil in IC.
    unfold destroy. cbn [fst hp st frs c_up]. rewrite EF. unfold sto_ok in IS.
    assert (NOUP : false = true -> InvT p 0 (hp c) (st c) []) by discriminate.
    destruct (p_pol p) eqn:EPP; cbn [nsown] in IC.
    + unfold RI; rewrite EPP; refine (conj EP (conj IH (conj _ (fun _ => conj eq_refl (zlen_nil_inv _ _))))); [discriminate|cbn [hp]; lia].
    + destruct (destroy_heap (hp c) (s_ptr (st c)) IH ltac:(lia)) as [D1 D2].
      { intros b E. rewrite E in IS. eexists. apply IS. }
      unfold RI; rewrite EPP; refine (conj EP (conj D1 (conj _ (fun _ => conj eq_refl D2)))). discriminate.
    + destruct (destroy_heap (hp c) (s_ptr (st c)) IH ltac:(lia)) as [D1 D2].
      { intros b E. rewrite E in IS. eexists. apply IS. }
      unfold RI; rewrite EPP; refine (conj EP (conj D1 (conj _ (fun _ => conj eq_refl D2)))). discriminate.
    + unfold RI; rewrite EPP; refine (conj EP (conj IH (conj _ (fun _ => conj eq_refl (zlen_nil_inv _ _))))); [discriminate|cbn [hp]; lia].
    + unfold RI; rewrite EPP; refine (conj EP (conj IH (conj _ (fun _ => conj eq_refl (zlen_nil_inv _ _))))); [discriminate|cbn [hp]; lia].
    + destruct (destroy_heap (hp c) (s_ptr (st c)) IH ltac:(lia)) as [D1 D2].
      { intros b E. rewrite E in IS. eexists. apply IS. }
      unfold RI; rewrite EPP; refine (conj EP (conj D1 (conj _ (fun _ => conj eq_refl D2)))). discriminate.
  - discriminate.
Qed.

Lemma core0_RI pol : RI pol (prm0 pol) core0.
Proof.
  refine (conj eq_refl (conj heap0_ok (conj _ (fun _ => conj eq_refl eq_refl)))). cbn. discriminate.
Qed.

Lemma run_RI pol : forall l p c, RI pol p c ->
  RI pol (fst (snd (run_with gstep pol p c l))) (snd (snd (run_with gstep pol p c l))).
Proof.
  induction l as [|o l IH]; intros p c R; cbn [run_with]; [exact R|].
  pose proof (gstep_RI pol p c o R) as R1. cbn zeta in R1.
  destruct (gstep (if wf_op c o then prm_of pol p o else p) c o) as [c1 ob] eqn:E. cbn [fst] in R1.
  specialize (IH _ _ R1).
  destruct (run_with gstep pol (if wf_op c o then prm_of pol p o else p) c1 l) as [obs r]. exact IH.
Qed.

(* histories that respect the contract are executed identically with and without the contract guard *)
Lemma contract_ok_same pol : forall l p c, contract_ok_from pol p c l = true ->
  run_with ustep pol p c l = run_with gstep pol p c l.
Proof.
  induction l as [|o l IH]; intros p c H; cbn [run_with contract_ok_from] in *; [reflexivity|].
  apply andb_prop in H. destruct H as [H1 H2].
  set (p1 := if wf_op c o then prm_of pol p o else p) in *.
  assert (E : ustep p1 c o = gstep p1 c o).
  { unfold ustep, gstep. destruct (wf_op c o); cbn [negb orb andb] in *; [rewrite H1; reflexivity|reflexivity]. }
  rewrite <- E. destruct (ustep p1 c o) as [c1 ob]. cbn [fst] in H2. rewrite (IH _ _ H2). reflexivity.
Qed.

Definition contract_free (pol : policy) : bool := match pol with PDef | PMts | PStk => true | _ => false end.

Lemma contract_free_ok pol : contract_free pol = true -> forall l p c, p_pol p = pol -> contract_ok_from pol p c l = true.
Proof.
  intros CF. induction l as [|o l IH]; intros p c EP; cbn [contract_ok_from]; [reflexivity|].
  assert (EP1 : p_pol (if wf_op c o then prm_of pol p o else p) = pol).
  { destruct (wf_op c o); [|exact EP]. destruct o; cbn [prm_of p_pol]; auto. }
  rewrite (IH _ _ EP1), andb_true_r.
  assert (contract (if wf_op c o then prm_of pol p o else p) c o = true) as ->; [|apply orb_true_r].
  unfold contract. rewrite EP1. destruct o; auto; destruct pol; auto; discriminate.
Qed.

Definition final_u (pol : policy) (l : list op) : core := snd (snd (run_u pol l)).
Definition final_p (pol : policy) (l : list op) : prm := fst (snd (run_u pol l)).

Lemma final_RI pol l : contract_ok pol l = true -> RI pol (final_p pol l) (final_u pol l).
Proof.
  intros H. unfold final_p, final_u, run_u. unfold contract_ok in H. rewrite (contract_ok_same pol l _ _ H).
  apply run_RI, core0_RI.
Qed.

(* C19 exclusive: simultaneously live frames never share a block *)
Lemma exclusive pol l i j fi fj : contract_ok pol l = true ->
  fget (frs (final_u pol l)) i = Some fi -> fget (frs (final_u pol l)) j = Some fj -> i <> j ->
  f_blk fi <> f_blk fj.
Proof.
  intros H Gi Gj N. destruct (final_RI pol l H) as (_ & _ & UP & DN).
  destruct (c_up (final_u pol l)) eqn:U.
  - exact (blocks_distinct _ _ _ _ _ (i_blocks _ _ _ _ _ (UP eq_refl)) Gi Gj N).
  - destruct (DN eq_refl) as [E _]. rewrite E in Gi. discriminate.
Qed.

(* C19 size + validity: the block of a live frame is allocated (or the caller's own area), and from the frame's
   address it has room for the request, the extra object and the policy's trailer *)
Lemma valid_sized pol l i f : contract_ok pol l = true -> fget (frs (final_u pol l)) i = Some f ->
  0 < f_n f /\ f_n f + trailer pol <= f_room f /\
  match f_blk f with
  | BHeap b => In (b, f_room f) (h_live (hp (final_u pol l)))
  | BOwn _ => pol = PStk \/ pol = PPlc
  | BNull => False
  end.
Proof.
  intros H G. destruct (final_RI pol l H) as (EP & _ & UP & DN).
  destruct (c_up (final_u pol l)) eqn:U.
  - pose proof (i_frames _ _ _ _ _ (UP eq_refl) _ _ (fget_In _ _ _ G)) as (F1 & F2 & F3 & V & _).
    rewrite EP in *. split; [exact F1|]. split; [lia|].
    destruct (f_blk f); auto. destruct pol; auto; contradiction.
  - destruct (DN eq_refl) as [E _]. rewrite E in G. discriminate.
Qed.

(* C19 fallback freed exactly once: nothing is ever deleted that is not a live block (no double free), the live heap
   blocks are exactly the storage's own block plus one per live frame that owns a heap block, and once the storage
   is destroyed nothing is left: every allocation was released exactly once *)
Lemma freed_once pol l : contract_ok pol l = true ->
  let c := final_u pol l in
  h_bad (hp c) = 0 /\ h_allocs (hp c) - h_frees (hp c) = zlen (h_live (hp c)) /\
  (c_up c = true -> zlen (h_live (hp c)) = nsown pol (st c) + sumw (owns pol) (frs c)) /\
  (c_up c = false -> h_live (hp c) = [] /\ h_allocs (hp c) = h_frees (hp c)).
Proof.
  intros H c. destruct (final_RI pol l H) as (EP & HK & UP & DN). fold c in HK, UP, DN.
  refine (conj (hk_bad _ HK) (conj (hk_cnt _ HK) (conj _ _))).
  - intros U. rewrite <- EP. exact (i_cnt _ _ _ _ _ (UP U)).
  - intros U. destruct (DN U) as [_ E]. split; [exact E|]. pose proof (hk_cnt _ HK) as C. rewrite E in C.
    unfold zlen in C. cbn [length] in C. lia.
Qed.

(* ====================================================================================================
   warm-up: what the reusing policies have learned *)
Definition WIs (p : prm) (s : sto) (cm : Z) : Prop :=
  0 <= cm /\
  match p_pol p with
  | PReu => cm <= s_cap s
  | PMts => 0 < cm -> cm + ptr_sz <= s_cap s
  | PStk => 0 < cm -> cm + 1 <= s_state s
  | PBuf => 0 < cm -> (cm + p_a p - 1) / p_a p <= s_bsize s
  | _ => True
  end.

Definition learn' (p : prm) (cm n : Z) (g : grant) : Z :=
  match p_pol p with PMts => if g_tr g then Z.max cm n else cm | _ => Z.max cm n end.

Lemma ceil_mono a n m : 0 < a -> n <= m -> (n + a - 1) / a <= (m + a - 1) / a.
Proof. intros A L. apply Z.div_le_mono; lia. Qed.

Lemma balloc_WI p h s n cm : WIs p s cm -> 0 < n -> (p_pol p = PBuf -> 0 < p_a p) ->
  WIs p (snd (fst (balloc p h s n))) (learn' p cm n (snd (balloc p h s n))).
Proof.
  intros [C0 W] N PB. unfold balloc, learn', WIs. destruct (p_pol p) eqn:EP.
  - unfold hnew. cbn [fst snd]. split; [lia|exact Logic.I].
  - unfold reu_alloc, hnew. destruct (n >? s_cap s) eqn:G; cbn [fst snd s_cap]; split; lia.
  - destruct (s_busy s).
    + unfold mts_lost, hnew. cbn [fst snd g_tr]. split; [lia|exact W].
    + unfold mts_won, reu_alloc, hnew. cbn [set_busy s_cap s_ptr].
      destruct (n + ptr_sz >? s_cap s) eqn:G; cbn [fst snd g_tr s_cap set_busy]; split; unfold ptr_sz in *; lia.
  - destruct (n + 1 <=? s_state s) eqn:G; unfold hnew; cbn [fst snd s_state]; split; lia.
  - cbn [fst snd]. split; [lia|exact Logic.I].
  - specialize (PB eq_refl). set (items := (n + p_a p - 1) / p_a p).
    assert (BS : forall bs, s_bsize s <= bs -> items <= bs ->
                 0 <= Z.max cm n /\ (0 < Z.max cm n -> (Z.max cm n + p_a p - 1) / p_a p <= bs)).
    { intros bs L1 L2. split; [lia|]. intros _. destruct (Z.max_spec cm n) as [[M ->]|[M ->]]; [exact L2|].
      assert (0 < cm) by lia. specialize (W H). lia. }
    destruct (s_bsize s <? items) eqn:G1.
    + unfold vec_resize. destruct (items >? s_bcap s); unfold hnew; cbn [fst snd s_bsize]; apply BS; lia.
    + cbn [fst snd]. apply BS; lia.
Qed.

Lemma bdealloc_WI p h s b tr cm : WIs p s cm -> WIs p (snd (bdealloc p h s b tr)) cm.
Proof.
  intros W. unfold bdealloc. destruct (p_pol p) eqn:EP; try destruct tr; cbn [snd]; exact W.
Qed.

(* after warm-up: a request no larger than what has been learned, made while the policy's block is free, costs nothing *)
Lemma balloc_warm p h s n cm : WIs p s cm -> 0 < n -> n <= cm -> (p_pol p = PBuf -> 0 < p_a p) ->
  (p_pol p = PMts -> s_busy s = false) -> p_pol p <> PDef ->
  fst (fst (balloc p h s n)) = h.
Proof.
  intros [C0 W] N L PB NB ND. unfold balloc. destruct (p_pol p) eqn:EP; try congruence.
  - unfold reu_alloc. destruct (n >? s_cap s) eqn:G; [lia|reflexivity].
  - rewrite (NB eq_refl). unfold mts_won, reu_alloc. cbn [set_busy s_cap].
    destruct (n + ptr_sz >? s_cap s) eqn:G; [unfold ptr_sz in *; lia|reflexivity].
  - destruct (n + 1 <=? s_state s) eqn:G; [reflexivity|lia].
  - reflexivity.
  - specialize (PB eq_refl). pose proof (ceil_mono (p_a p) n cm PB L).
    destruct (s_bsize s <? (n + p_a p - 1) / p_a p) eqn:G; [lia|reflexivity].
Qed.

Lemma balloc_learned p h s n cm : (p_pol p = PMts -> s_busy s = false) -> n <= learn' p cm n (snd (balloc p h s n)).
Proof.
  intros NB. unfold learn', balloc. destruct (p_pol p) eqn:EP; try lia.
  rewrite (NB eq_refl). unfold mts_won. destruct (reu_alloc h (set_busy s true) (n + ptr_sz)) as [[h1 s1] b].
  cbn [snd g_tr]. lia.
Qed.

Definition WR (p : prm) (c : core) : Prop := c_up c = true -> WIs p (st c) (c_max c).

Lemma gstep_WR pol p c o : RI pol p c -> WR p c ->
  let p1 := if wf_op c o then prm_of pol p o else p in WR p1 (fst (gstep p1 c o)).
Proof.
  intros (EP & HK & UP & DN) W. cbn zeta. unfold gstep.
  destruct (wf_op c o) eqn:WF; cbn [andb]; [|exact W].
  destruct (contract (prm_of pol p o) c o) eqn:CT; cbn [fst].
  { destruct o as [x a b xal|slot sz|slot| |]; cbn [prm_of exec fst] in *.
    - intros _. unfold init_core. cbn [p_pol p_b p_a].
      assert (B : forall s, s_cap s = 0 -> WIs (mkPrm pol x a b xal) s 0).
      { intros s E. unfold WIs. split; [lia|]. cbn [p_pol]. destruct pol; auto; try lia. }
      destruct pol; try (apply B; reflexivity).
      destruct (0 <? b); [unfold hnew; cbn [st c_max]|]; apply B; reflexivity.
    - cbn [wf_op] in WF. repeat (apply andb_prop in WF; destruct WF as [WF ?]).
      specialize (UP WF). specialize (W WF). intros _.
      assert (PB : p_pol p = PBuf -> 0 < p_a p).
      { intros E. pose proof (i_sto _ _ _ _ _ UP) as S. unfold sto_ok in S. rewrite E in S. tauto. }
      pose proof (balloc_WI p (hp c) (st c) (nreq p sz) (c_max c) W (nreq_pos p sz (i_pos _ _ _ _ _ UP) ltac:(lia)) PB) as BW.
      unfold create, mk_frame. destruct (balloc p (hp c) (st c) (nreq p sz)) as [[h1 s1] g]. cbn [fst snd st c_max] in *.
      exact BW.
    - cbn [wf_op] in WF. apply andb_prop in WF. destruct WF as [WF G].
      destruct (fget (frs c) slot) as [f|]; [|discriminate]. specialize (W WF). intros _.
      pose proof (bdealloc_WI p (hp c) (st c) (f_blk f) (f_tr f) (c_max c) W) as BW.
      unfold finish. destruct (bdealloc p (hp c) (st c) (f_blk f) (f_tr f)) as [h1 s1]. cbn [fst snd st c_max] in *. exact BW.
    - unfold destroy, WR. cbn [c_up]. discriminate.
    - discriminate. }
  destruct o; cbn [prm_of] in *; try exact W.
  cbn [wf_op] in WF. repeat (apply andb_prop in WF; destruct WF as [WF ?]). apply negb_true_iff in WF.
  intros U. congruence.
Qed.

Definition RW (pol : policy) (p : prm) (c : core) : Prop := RI pol p c /\ WR p c.

Lemma run_RW pol : forall l p c, RW pol p c ->
  RW pol (fst (snd (run_with gstep pol p c l))) (snd (snd (run_with gstep pol p c l))).
Proof.
  induction l as [|o l IH]; intros p c R; cbn [run_with]; [exact R|].
  destruct R as [R W].
  pose proof (gstep_RI pol p c o R) as R1. pose proof (gstep_WR pol p c o R W) as W1. cbn zeta in R1, W1.
  destruct (gstep (if wf_op c o then prm_of pol p o else p) c o) as [c1 ob] eqn:E. cbn [fst] in R1, W1.
  specialize (IH _ _ (conj R1 W1)).
  destruct (run_with gstep pol (if wf_op c o then prm_of pol p o else p) c1 l) as [obs r]. exact IH.
Qed.

Lemma final_RW pol l : contract_ok pol l = true -> RW pol (final_p pol l) (final_u pol l).
Proof.
  intros H. unfold final_p, final_u, run_u. unfold contract_ok in H. rewrite (contract_ok_same pol l _ _ H).
  apply run_RW. split; [apply core0_RI|]. unfold WR. cbn. discriminate.
Qed.

(* C19 warm: after a frame of size s, a frame of size <= s created while the policy's block is free leaves the heap untouched *)
Lemma warm_no_alloc pol l slot sz : contract_ok pol l = true ->
  let c := final_u pol l in let p := final_p pol l in
  wf_op c (OCreate slot sz) = true -> contract p c (OCreate slot sz) = true -> pol <> PDef ->
  nreq p sz <= c_max c -> (pol = PMts -> s_busy (st c) = false) ->
  hp (fst (create p c slot sz)) = hp c.
Proof.
  intros H c p WF CT ND LE NB. destruct (final_RW pol l H) as [(EP & HK & UP & DN) W]. fold c p in EP, UP, W.
  cbn [wf_op] in WF. repeat (apply andb_prop in WF; destruct WF as [WF ?]).
  specialize (UP WF). specialize (W WF).
  assert (PB : p_pol p = PBuf -> 0 < p_a p).
  { intros E. pose proof (i_sto _ _ _ _ _ UP) as S. unfold sto_ok in S. rewrite E in S. tauto. }
  pose proof (i_pos _ _ _ _ _ UP) as X.
  pose proof (balloc_warm p (hp c) (st c) (nreq p sz) (c_max c) W (nreq_pos p sz X ltac:(lia)) LE PB ltac:(rewrite EP; exact NB) ltac:(rewrite EP; exact ND)) as BW.
  unfold create, mk_frame. destruct (balloc p (hp c) (st c) (nreq p sz)) as [[h1 s1] g]. cbn [fst hp] in *. exact BW.
Qed.

(* ... and every creation served by the policy's block is learned *)
Lemma learned pol l slot sz :
  let c := final_u pol l in let p := final_p pol l in
  p_pol p = pol -> (pol = PMts -> s_busy (st c) = false) -> nreq p sz <= c_max (fst (create p c slot sz)).
Proof.
  intros c p EP NB.
  pose proof (balloc_learned p (hp c) (st c) (nreq p sz) (c_max c) ltac:(rewrite EP; exact NB)) as BL.
  unfold create, mk_frame. destruct (balloc p (hp c) (st c) (nreq p sz)) as [[h1 s1] g]. cbn [fst snd c_max] in *. exact BL.
Qed.

(* ... and nothing is forgotten while the storage lives *)
Lemma cmax_mono p c o : c_up c = true -> c_max c <= c_max (fst (gstep p c o)).
Proof.
  intros U. unfold gstep. destruct (wf_op c o && contract p c o) eqn:G; [|cbn [fst]; lia].
  apply andb_prop in G. destruct G as [WF _].
  destruct o as [x a b xal|slot sz|slot| |]; cbn [exec fst].
  - cbn [wf_op] in WF. rewrite U in WF. discriminate.
  - unfold create, mk_frame. destruct (balloc p (hp c) (st c) (nreq p sz)) as [[h1 s1] g]. cbn [fst c_max].
    unfold learn. destruct (p_pol p); try lia. destruct (g_tr g); lia.
  - destruct (fget (frs c) slot) as [f|]; cbn [fst]; [|lia].
    unfold finish. destruct (bdealloc p (hp c) (st c) (f_blk f) (f_tr f)). cbn [c_max]. lia.
  - unfold destroy. cbn [c_max]. lia.
  - discriminate.
Qed.

Lemma contract_free_ok0 pol l : contract_free pol = true -> contract_ok pol l = true.
Proof. intros H. exact (contract_free_ok pol H l (prm0 pol) core0 eq_refl). Qed.

(* ====================================================================================================
   the extra object and the frame life cycle, read off the event log *)
Definition evs_of (fid : nat) (log : list ev) : list Z := map fst (filter (fun e => Nat.eqb (snd e) fid) log).
Definition livef (fid : nat) (l : list (nat * frame)) : bool := existsb (fun q => Nat.eqb (f_id (snd q)) fid) l.
Definition fids (l : list (nat * frame)) : list nat := map (fun q => f_id (snd q)) l.
(* codes: 1 Base::alloc returned, 2 extra object constructed, 3 promise constructed | 6 promise destroyed,
   4 extra object destroyed, 5 Base::dealloc entered *)
Definition born (x : Z) : list Z := 1 :: (if 0 <? x then [2] else []) ++ [3].
Definition died (x : Z) : list Z := 6 :: (if 0 <? x then [4] else []) ++ [5].
Definition lifecycle (x : Z) (nfid : nat) (l : list (nat * frame)) (fid : nat) : list Z :=
  if (fid <? nfid)%nat then (if livef fid l then born x else born x ++ died x) else [].

Record LI (x : Z) (c : core) : Prop := {
  li_lt : forall i f, In (i, f) (frs c) -> (f_id f < c_nfid c)%nat;
  li_nd : NoDup (fids (frs c));
  li_keys : NoDup (keys (frs c));
  li_log : forall fid, evs_of fid (c_log c) = lifecycle x (c_nfid c) (frs c) fid
}.

Lemma evs_of_app fid a b : evs_of fid (a ++ b) = evs_of fid a ++ evs_of fid b.
Proof. unfold evs_of. rewrite filter_app, map_app. reflexivity. Qed.

Lemma evs_of_create fid x f0 : evs_of fid (create_evs x f0) = if Nat.eqb f0 fid then born x else [].
Proof.
  unfold evs_of, create_evs, born. destruct (0 <? x); cbn [app filter snd map fst]; destruct (Nat.eqb f0 fid); reflexivity.
Qed.
Lemma evs_of_finish fid x f0 : evs_of fid (finish_evs x f0) = if Nat.eqb f0 fid then died x else [].
Proof.
  unfold evs_of, finish_evs, died. destruct (0 <? x); cbn [app filter snd map fst]; destruct (Nat.eqb f0 fid); reflexivity.
Qed.

Lemma fids_fdel_In l i b : In b (fids (fdel l i)) -> In b (fids l).
Proof.
  unfold fids. rewrite !in_map_iff. intros [[k g] [E H]]. apply In_fdel in H. exists (k, g). tauto.
Qed.
Lemma fids_fdel_nodup l i : NoDup (fids l) -> NoDup (fids (fdel l i)).
Proof.
  induction l as [|[k g] l IH]; cbn [fdel fids map snd]; [auto|].
  intros H. inversion H as [|? ? N D]; subst.
  destruct (Nat.eqb_spec i k) as [E|E]; [apply IH, D|].
  cbn [fids map snd]. constructor; [|apply IH, D].
  intros A. apply fids_fdel_In in A. exact (N A).
Qed.

Lemma livef_In fid l : livef fid l = true <-> exists k g, In (k, g) l /\ f_id g = fid.
Proof.
  unfold livef. rewrite existsb_exists. split.
  - intros [[k g] [A E]]. cbn [snd] in E. apply Nat.eqb_eq in E. eauto.
  - intros (k & g & A & E). exists (k, g). cbn [snd]. split; [exact A|apply Nat.eqb_eq, E].
Qed.

Lemma fids_inj l k1 g1 k2 g2 : NoDup (fids l) -> In (k1, g1) l -> In (k2, g2) l -> f_id g1 = f_id g2 -> (k1, g1) = (k2, g2).
Proof.
  induction l as [|[k g] l IH]; cbn [fids map snd In]; [tauto|].
  intros H A B E. inversion H as [|? ? N D]; subst.
  destruct A as [A|A]; destruct B as [B|B]; try congruence.
  - inversion A; subst. exfalso. apply N. rewrite E. unfold fids. apply in_map_iff. exists (k2, g2); auto.
  - inversion B; subst. exfalso. apply N. rewrite <- E. unfold fids. apply in_map_iff. exists (k1, g1); auto.
  - exact (IH D A B E).
Qed.

Lemma livef_fdel fid l slot f : NoDup (keys l) -> NoDup (fids l) -> fget l slot = Some f ->
  livef fid (fdel l slot) = if Nat.eqb (f_id f) fid then false else livef fid l.
Proof.
  intros K D G. pose proof (fget_In _ _ _ G) as GI.
  destruct (Nat.eqb_spec (f_id f) fid) as [E|E].
  - destruct (livef fid (fdel l slot)) eqn:L; [|reflexivity]. exfalso.
    apply livef_In in L. destruct L as (k & g & A & EG). apply In_fdel in A. destruct A as [A NK].
    assert ((k, g) = (slot, f)) as X by (apply (fids_inj l); auto; congruence). inversion X. congruence.
  - destruct (livef fid l) eqn:L.
    + apply livef_In in L. destruct L as (k & g & A & EG). apply livef_In. exists k, g. split; [|exact EG].
      apply In_fdel. split; [exact A|]. intros ->. pose proof (fget_unique _ _ _ _ K G A). congruence.
    + destruct (livef fid (fdel l slot)) eqn:L2; [|reflexivity]. exfalso.
      apply livef_In in L2. destruct L2 as (k & g & A & EG). apply In_fdel in A.
      assert (livef fid l = true) by (apply livef_In; exists k, g; tauto). congruence.
Qed.

Lemma LI_nfid0 x x' c : c_nfid c = 0%nat -> LI x c -> LI x' c.
Proof.
  intros Z [A B C D]. constructor; auto. intros fid. rewrite D. unfold lifecycle. rewrite Z. reflexivity.
Qed.

Lemma gstep_LI pol p c o : LI (p_x p) c ->
  let p1 := if wf_op c o then prm_of pol p o else p in LI (p_x p1) (fst (gstep p1 c o)).
Proof.
  intros L. cbn zeta. unfold gstep. destruct (wf_op c o) eqn:WF; cbn [andb]; [|exact L].
  destruct (contract (prm_of pol p o) c o) eqn:CT; cbn [fst].
  2:{ destruct o; cbn [prm_of] in *; try exact L.
      cbn [wf_op] in WF. repeat (apply andb_prop in WF; destruct WF as [WF ?]).
      match goal with H : (c_nfid c =? 0)%nat = true |- _ => apply Nat.eqb_eq in H; exact (LI_nfid0 _ _ c H L) end. }
  destruct L as [LT ND KD LG].
  destruct o as [x a b xal|slot sz|slot| |]; cbn [prm_of exec fst] in *.
  - assert (B : forall h s, LI x (mkCore h s [] 0 0 true [])).
    { intros h s. constructor; cbn [frs c_nfid c_log]; try constructor. intros i f []. }
    unfold init_core. cbn [p_pol p_b p_a p_x].
    destruct pol; try apply B. destruct (0 <? b); [unfold hnew|]; apply B.
  - cbn [wf_op] in WF. repeat (apply andb_prop in WF; destruct WF as [WF ?]).
    destruct (fget (frs c) slot) eqn:G; [discriminate|].
    unfold create, mk_frame. destruct (balloc p (hp c) (st c) (nreq p sz)) as [[h1 s1] g]. cbn [fst].
    constructor; cbn [frs c_nfid c_log].
    + intros i f [A|A]; [inversion A; subst; cbn [f_id]; lia|]. specialize (LT _ _ A). lia.
    + cbn [fids map snd f_id]. constructor; [|exact ND].
      intros A. unfold fids in A. apply in_map_iff in A. destruct A as [[k g'] [E A]]. cbn [snd] in E.
      specialize (LT _ _ A). lia.
    + cbn [keys map fst]. constructor; [exact (fget_None_keys _ _ G)|exact KD].
    + intros fid. rewrite evs_of_app, evs_of_create, LG. unfold lifecycle, livef. cbn [existsb snd f_id].
      fold (livef fid (frs c)).
      destruct (Nat.eqb_spec (c_nfid c) fid) as [E|E].
      * subst fid. rewrite Nat.ltb_irrefl. cbn [app orb].
        assert ((c_nfid c <? S (c_nfid c))%nat = true) as -> by (apply Nat.ltb_lt; lia). reflexivity.
      * cbn [orb]. rewrite app_nil_r.
        assert ((fid <? S (c_nfid c))%nat = (fid <? c_nfid c)%nat) as ->; [|reflexivity].
        destruct (Nat.ltb_spec fid (S (c_nfid c))); destruct (Nat.ltb_spec fid (c_nfid c)); auto; lia.
  - cbn [wf_op] in WF. apply andb_prop in WF. destruct WF as [WF G].
    destruct (fget (frs c) slot) as [f|] eqn:GF; [|discriminate].
    unfold finish. destruct (bdealloc p (hp c) (st c) (f_blk f) (f_tr f)) as [h1 s1]. cbn [fst].
    constructor; cbn [frs c_nfid c_log].
    + intros i g A. apply In_fdel in A. apply (LT i g), A.
    + exact (fids_fdel_nodup _ _ ND).
    + exact (keys_fdel_nodup _ _ KD).
    + intros fid. rewrite evs_of_app, evs_of_finish, LG. unfold lifecycle.
      rewrite (livef_fdel fid _ _ _ KD ND GF).
      destruct (Nat.eqb_spec (f_id f) fid) as [E|E]; [|rewrite app_nil_r; reflexivity].
      subst fid. pose proof (LT _ _ (fget_In _ _ _ GF)) as LTf.
      assert ((f_id f <? c_nfid c)%nat = true) as -> by (apply Nat.ltb_lt; exact LTf).
      assert (livef (f_id f) (frs c) = true) as ->; [|reflexivity].
      apply livef_In. exists slot, f. split; [exact (fget_In _ _ _ GF)|reflexivity].
  - unfold destroy. constructor; cbn [frs c_nfid c_log]; auto.
  - discriminate.
Qed.

Lemma run_LI pol : forall l p c, LI (p_x p) c ->
  LI (p_x (fst (snd (run_with gstep pol p c l)))) (snd (snd (run_with gstep pol p c l))).
Proof.
  induction l as [|o l IH]; intros p c L; cbn [run_with]; [exact L|].
  pose proof (gstep_LI pol p c o L) as L1. cbn zeta in L1.
  destruct (gstep (if wf_op c o then prm_of pol p o else p) c o) as [c1 ob] eqn:E. cbn [fst] in L1.
  specialize (IH _ _ L1).
  destruct (run_with gstep pol (if wf_op c o then prm_of pol p o else p) c1 l) as [obs r]. exact IH.
Qed.

(* C19 extra object / life cycle: for every frame id, the events concerning it are exactly
   [alloc; (ctor;) promise] while it lives, followed by [promise dtor; (dtor;) dealloc] once it is finished, nothing before
   it is created: the extra object is constructed exactly once, inside alloc, before the promise (the coroutine object)
   exists; it is destroyed exactly once, after the promise and before the memory goes back to the base policy. *)
Lemma extra_object pol l fid : contract_ok pol l = true ->
  let c := final_u pol l in
  evs_of fid (c_log c) = lifecycle (p_x (final_p pol l)) (c_nfid c) (frs c) fid.
Proof.
  intros H c. unfold c, final_p, final_u, run_u. unfold contract_ok in H. rewrite (contract_ok_same pol l _ _ H).
  apply (li_log _ _ (run_LI pol l (prm0 pol) core0 ltac:(constructor; cbn; try constructor; intros ? ? []))).
Qed.

(* ====================================================================================================
   placement of the extra object and of the base policy's trailer inside the block *)
Definition NI (p : prm) (c : core) : Prop :=
  forall i f, In (i, f) (frs c) -> f_n f = nreq p (f_sz f) /\ 0 < f_sz f.

Lemma gstep_NI pol p c o : RI pol p c -> NI p c ->
  let p1 := if wf_op c o then prm_of pol p o else p in NI p1 (fst (gstep p1 c o)).
Proof.
  intros (EP & HK & UP & DN) N. cbn zeta. unfold gstep.
  destruct (wf_op c o) eqn:WF; cbn [andb]; [|exact N].
  assert (INIT : forall x a b xal, o = OInit x a b xal -> frs c = []).
  { intros x a b xal ->. cbn [wf_op] in WF. repeat (apply andb_prop in WF; destruct WF as [WF ?]). apply negb_true_iff in WF.
    exact (proj1 (DN WF)). }
  destruct (contract (prm_of pol p o) c o) eqn:CT; cbn [fst].
  2:{ destruct o; cbn [prm_of] in *; try exact N. intros i f A. rewrite (INIT _ _ _ _ eq_refl) in A. contradiction. }
  destruct o as [x a b xal|slot sz|slot| |]; cbn [prm_of exec fst] in *.
  - intros i f A. unfold init_core in A. cbn [p_pol p_b] in A.
    destruct pol; cbn [frs] in A; try contradiction. destruct (0 <? b); [unfold hnew in A|]; cbn [frs] in A; contradiction.
  - cbn [wf_op] in WF. repeat (apply andb_prop in WF; destruct WF as [WF ?]).
    unfold create, mk_frame. destruct (balloc p (hp c) (st c) (nreq p sz)) as [[h1 s1] g]. cbn [fst].
    intros i f [A|A]; [|exact (N _ _ A)]. inversion A; subst. cbn [f_n f_sz]. split; [reflexivity|lia].
  - destruct (fget (frs c) slot) as [f|]; cbn [fst]; [|exact N].
    unfold finish. destruct (bdealloc p (hp c) (st c) (f_blk f) (f_tr f)) as [h1 s1].
    intros i g A. cbn [frs] in A. apply In_fdel in A. exact (N _ _ (proj1 A)).
  - unfold destroy. exact N.
  - discriminate.
Qed.

Lemma run_RN pol : forall l p c, RI pol p c -> NI p c ->
  RI pol (fst (snd (run_with gstep pol p c l))) (snd (snd (run_with gstep pol p c l))) /\
  NI (fst (snd (run_with gstep pol p c l))) (snd (snd (run_with gstep pol p c l))).
Proof.
  induction l as [|o l IH]; intros p c R N; cbn [run_with]; [split; assumption|].
  pose proof (gstep_RI pol p c o R) as R1. pose proof (gstep_NI pol p c o R N) as N1. cbn zeta in R1, N1.
  destruct (gstep (if wf_op c o then prm_of pol p o else p) c o) as [c1 ob] eqn:E. cbn [fst] in R1, N1.
  specialize (IH _ _ R1 N1).
  destruct (run_with gstep pol (if wf_op c o then prm_of pol p o else p) c1 l) as [obs r]. exact IH.
Qed.

(* C19 bytes inside the block.  A live frame of compiler size sz occupies [0, sz) of its block; the extra object (size x,
   alignment xal) occupies [xoff, xoff + x) with sz <= xoff and xoff a multiple of xal; the base policy was asked for n bytes
   with xoff + x <= n, n a multiple of 8 (so the owner pointer / flag byte it writes at offset n is aligned), and
   n + trailer fits into the room behind the frame.  Blocks start at an address aligned for operator new / alloca (16). *)
Lemma extra_placed pol l i f : contract_ok pol l = true -> fget (frs (final_u pol l)) i = Some f ->
  let p := final_p pol l in
  let sz := f_sz f in let n := f_n f in
  0 < sz /\ sz <= xoff p sz /\ n + trailer pol <= f_room f /\
  (0 < p_x p -> xoff p sz mod p_xal p = 0 /\ xoff p sz + p_x p <= n /\ n mod 8 = 0) /\
  (p_x p = 0 -> xoff p sz = sz /\ n = sz).
Proof.
  intros H G p sz n.
  assert (RN : RI pol p (final_u pol l) /\ NI p (final_u pol l)).
  { unfold p, final_p, final_u, run_u. unfold contract_ok in H. rewrite (contract_ok_same pol l _ _ H).
    apply run_RN; [apply core0_RI|intros ? ? []]. }
  destruct RN as [(EP & HK & UP & DN) N].
  destruct (c_up (final_u pol l)) eqn:U; [|destruct (DN eq_refl) as [E _]; rewrite E in G; discriminate].
  pose proof (fget_In _ _ _ G) as GI. specialize (UP eq_refl).
  destruct (N _ _ GI) as [NE SP]. pose proof (i_pos _ _ _ _ _ UP) as [X XA].
  destruct (i_frames _ _ _ _ _ UP _ _ GI) as (F1 & F2 & F3 & _). rewrite EP in F2.
  pose proof (nreq_ge p sz (conj X XA)) as [G1 G2].
  refine (conj SP (conj G1 (conj _ (conj _ _)))).
  - unfold n. lia.
  - intros PX. unfold n, sz. rewrite NE. fold sz. unfold nreq, xoff in *.
    assert (0 <? p_x p = true) as E by lia. rewrite E in *.
    refine (conj (align_up_mod _ _ XA) (conj G2 (align_up_mod _ 8 ltac:(lia)))).
  - intros PX. unfold n, sz. rewrite NE. fold sz. unfold nreq, xoff. rewrite PX. cbn. auto.
Qed.
