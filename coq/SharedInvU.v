(* SharedInvU.v — the users' steps preserve the invariant *)
From Cocls Require Import Base BaseProofs SharedDefs SharedInv.
Require Import ZifyBool.
Ltac Zify.zify_post_hook ::= Z.div_mod_to_equations.
Local Open Scope nat_scope.

Lemma inv_ustep s j : Inv s -> enabled s (S (S j)) = true -> Inv (fst (ustep s j)).
Proof.
  intros I E. cbn [enabled] in E. destruct (nth_error (users s) j) as [u|] eqn:Hj; [|discriminate].
  unfold ustep. rewrite Hj. destruct (upcf u) eqn:PC; try discriminate; cbn [fst].
  all: destruct (alive_user s j u (proj1 I) Hj ltac:(rewrite PC; cbn; lia)) as (A & B).
  - (* UWait1 *)
    pose proof I as I0. open_inv I. specialize (Irc A).
    destruct (ucp u), (ukd u) eqn:KD; cbn [first_action];
    match goal with |- Inv (set_user _ _ ?u') => upd Hj u' end; pre; mk_inv; go.
  - (* UInc *)
    pose proof I as I0. open_inv I. specialize (Irc A). rewrite add_ref_alive by exact A.
    match goal with |- Inv (set_user _ _ ?u') => upd Hj u' end; pre; mk_inv; go.
  - (* UDecO *)
    pose proof I as I0. open_inv I. specialize (Irc A). rewrite drop_ref_alive by assumption.
    destruct (ukd u) eqn:KD; cbn [first_action];
    match goal with |- Inv (set_user _ _ ?u') => upd Hj u' end; use_dropped s B; pre; mk_inv; go.
  - (* UReady *)
    rewrite touch_alive by exact A.
    destruct (ukd u) eqn:KD.
    + pose proof I as I0. open_inv I. specialize (Irc A).
      match goal with |- Inv (set_user _ _ ?u') => upd Hj u' end; pre; mk_inv; go.
    + pose proof I as I0. open_inv I. specialize (Irc A).
      match goal with |- Inv (set_user _ _ ?u') => upd Hj u' end; pre; mk_inv; go.
    + destruct (slot s) eqn:SL.
      * pose proof I as I0. open_inv I. specialize (Irc A).
        match goal with |- Inv (set_user _ _ ?u') => upd Hj u' end; pre; mk_inv; go.
      * apply (fu_self s j u I Hj); [rewrite PC; reflexivity|unfold inlist; rewrite PC; reflexivity].
  - (* USub *)
    rewrite touch_alive by exact A. destruct (slot s) as [l|] eqn:SL.
    + pose proof I as I0. open_inv I. specialize (Irc A). destruct (onode_eqb (head l) exp).
      * destruct (ukd u) as [| |[| |]] eqn:KD;
        match goal with |- Inv (set_user _ _ ?u') => upd Hj u' end; pre; mk_inv; go.
      * match goal with |- Inv (set_user _ _ ?u') => upd Hj u' end; pre; mk_inv; go.
    + apply (fu_self s j u I Hj); [rewrite PC; reflexivity|unfold inlist; rewrite PC; reflexivity].
  - (* UFlag *)
    apply (fu_self s j u I Hj); [rewrite PC; reflexivity|unfold inlist; rewrite PC, E; reflexivity].
  - (* UDec *)
    pose proof I as I0. open_inv I. specialize (Irc A). rewrite drop_ref_alive by assumption.
    match goal with |- Inv (set_user _ _ ?u') => upd Hj u' end; use_dropped s B; pre; mk_inv; go.
  - (* UAsg *)
    pose proof I as I0. open_inv I. specialize (Irc A).
    destruct (ukd u) eqn:KD; cbn [first_action];
    match goal with |- Inv (set_user _ _ ?u') => upd Hj u' end; pre; mk_inv; go.
Qed.

