(* PubThreadProofs.v — the property oracle accepts the model's trace of EVERY threaded case (any programs, any schedule):
   every line of a threaded trace is a locked step of PublisherDefs.step from the state the previous lines led to, so the
   simulation relation R of PublisherProofs is carried along the whole trace whatever the scheduler does. *)
From Cocls Require Import Base BaseProofs PublisherDefs PublisherProofs PubThreadDefs.
Local Open Scope Z_scope.

Section Trace.
Variable subs : list sthr.
Variable prog : list op.

Fixpoint mon_tr (m : mon) (tr : list (nat * tag * obs)) : mon :=
  match tr with
  | [] => m
  | x :: t => mon_tr (mon_step m (op_of_tag subs prog (snd (fst x))) (snd x)) t
  end.

Lemma mon_tr_app m a b : mon_tr m (a ++ b) = mon_tr (mon_tr m a) b.
Proof. revert m; induction a as [|x a IH]; intros m; [reflexivity|]. cbn [app mon_tr]. apply IH. Qed.

Definition tag_ok (t : tag) : Prop :=
  match t with TStep c _ => c = 5 \/ c = 6 \/ c = 7 | _ => True end.

Lemma dec_enc_tag t : tag_ok t ->
  match enc_tag t with [c; a] => dec_tag c a = Some t | _ => False end.
Proof.
  destruct t as [i|j|j|c s]; cbn [enc_tag]; intros H; unfold dec_tag.
  - assert (Z.of_nat i <? 0 = false) by lia. rewrite H0. cbn. rewrite Nat2Z.id. reflexivity.
  - assert (Z.of_nat j <? 0 = false) by lia. rewrite H0. cbn. rewrite Nat2Z.id. reflexivity.
  - assert (Z.of_nat j <? 0 = false) by lia. rewrite H0. cbn. rewrite Nat2Z.id. reflexivity.
  - assert (Z.of_nat s <? 0 = false) by lia. rewrite H0. rewrite Nat2Z.id.
    destruct H as [ -> | [ -> | -> ] ]; reflexivity.
Qed.

Lemma mon_lines_enc tr : Forall (fun x => tag_ok (snd (fst x))) tr ->
  forall m, mon_lines subs prog m (map enc_line tr) = mon_tr m tr.
Proof.
  induction 1 as [|[[t tg] o] tr H F IH]; intros m; [reflexivity|].
  cbn [map mon_tr fst snd]. unfold enc_line at 1. cbn [fst snd].
  pose proof (dec_enc_tag tg H) as D. destruct (enc_tag tg) as [|c [|a [|? ?]]]; try contradiction.
  cbn [app mon_lines]. rewrite D, dec_enc. apply IH.
Qed.
End Trace.

Lemma tstep_spec prog e ts t :
  match snd (tstep prog e ts t) with
  | Some (tg, o) => o = snd (step e (op_of_tag (ts_subs ts) prog tg)) /\
                    fst (fst (tstep prog e ts t)) = fst (step e (op_of_tag (ts_subs ts) prog tg)) /\ tag_ok tg
  | None => fst (fst (tstep prog e ts t)) = e
  end.
Proof.
  unfold tstep. destruct (stack_of ts t) as [|[| |i|w] rest]; cbn [fst snd]; try reflexivity.
  - split; [reflexivity|]. split; [reflexivity|]. unfold pub_tag.
    destruct (nth (ts_pub ts) prog OBad); try exact I;
      repeat match goal with |- context[if ?c then _ else _] => destruct c end; exact I.
  - destruct (sub_code (sget (ts_subs ts) i)) as [c|] eqn:SC; cbn [fst snd]; [|reflexivity].
    split; [reflexivity|]. split; [reflexivity|]. unfold sub_code in SC. cbn [tag_ok].
    repeat match type of SC with (if ?c then _ else _) = _ => destruct c end; try discriminate; injection SC as <-; auto.
Qed.

(* the subscriber table is never resized, and only program positions / pcs change: op_of_tag is stable *)
Lemma op_of_tag_modes subs subs' prog tg : (forall i, st_mode (sget subs' i) = st_mode (sget subs i)) ->
  op_of_tag subs' prog tg = op_of_tag subs prog tg.
Proof. intros H. destruct tg; cbn [op_of_tag]; try reflexivity. rewrite H. reflexivity. Qed.

Lemma sget_set_nth l i k x : st_mode x = st_mode (sget l i) -> st_mode (sget (set_nth l i x) k) = st_mode (sget l k).
Proof.
  unfold sget. revert i k; induction l as [|y l IH]; intros [|i] [|k] H; cbn in *; try reflexivity.
  - exact H.
  - apply IH. exact H.
Qed.

Lemma wake_prefix_modes w : forall subs i, st_mode (sget (fst (fst (wake_prefix subs w))) i) = st_mode (sget subs i).
Proof.
  induction w as [|a w IH]; intros subs i; [reflexivity|]. cbn [wake_prefix].
  destruct (find_aw subs a 0) as [k|]; [|apply IH].
  destruct (st_style (sget subs k) =? 1); cbn [fst].
  - apply sget_set_nth. reflexivity.
  - rewrite IH. apply sget_set_nth. reflexivity.
Qed.

Lemma settle_modes st : forall subs i, st_mode (sget (fst (settle subs st)) i) = st_mode (sget subs i).
Proof.
  induction st as [|x st IH]; intros subs i; [reflexivity|]. destruct x; try reflexivity. cbn [settle].
  pose proof (wake_prefix_modes w subs i) as WP.
  destruct (wake_prefix subs w) as [[subs1 [k|]] w1]; cbn [fst] in *; [exact WP|]. rewrite IH. exact WP.
Qed.

Lemma sub_next_mode x o : st_mode (sub_next x o) = st_mode x.
Proof.
  unfold sub_next, with_pc, dec_cnt.
  repeat match goal with |- context[if ?c then _ else _] => destruct c end; reflexivity.
Qed.

Lemma tstep_modes prog e ts t i :
  st_mode (sget (ts_subs (snd (fst (tstep prog e ts t)))) i) = st_mode (sget (ts_subs ts) i).
Proof.
  unfold tstep. destruct (stack_of ts t) as [|[| |k|w] rest]; cbn [fst snd ts_subs set_stack]; try reflexivity.
  - rewrite settle_modes.
    destruct (pub_tag ts prog (ts_pub ts)); try reflexivity.
    destruct (nth (ts_pub ts) prog OBad); try reflexivity.
    destruct (s <? length (ts_subs ts))%nat; [|reflexivity].
    apply sget_set_nth. reflexivity.
  - destruct (sub_code (sget (ts_subs ts) k)); cbn [fst snd ts_subs set_stack set_sthr].
    + destruct (stays (sub_next (sget (ts_subs ts) k) _)); cbn [fst].
      * apply sget_set_nth. apply sub_next_mode.
      * rewrite settle_modes. apply sget_set_nth. apply sub_next_mode.
    + apply sget_set_nth. reflexivity.
  - apply settle_modes.
Qed.

Lemma trun_good subs prog fuel : forall e ts sched m,
  (forall i, st_mode (sget (ts_subs ts) i) = st_mode (sget subs i)) -> R e m ->
  good_b (mon_tr subs prog m (trun fuel prog e ts sched)) = true /\
  Forall (fun x => tag_ok (snd (fst x))) (trun fuel prog e ts sched).
Proof.
  induction fuel as [|f IH]; intros e ts sched m MS HR; [split; [apply HR|constructor]|].
  cbn [trun]. destruct (pick ts (hd 0 sched)) as [t|]; [|split; [apply HR|constructor]].
  pose proof (tstep_spec prog e ts t) as SP. pose proof (tstep_modes prog e ts t) as TM.
  destruct (tstep prog e ts t) as [[e1 ts1] [[tg o]|]]; cbn [fst snd] in *.
  - destruct SP as (-> & -> & TG). rewrite (op_of_tag_modes subs (ts_subs ts)) by exact MS.
    assert (MS1 : forall i, st_mode (sget (ts_subs ts1) i) = st_mode (sget subs i)) by (intros i; rewrite TM; apply MS).
    destruct (IH (fst (step e (op_of_tag subs prog tg))) ts1 (tl sched)
                 (mon_step m (op_of_tag subs prog tg) (snd (step e (op_of_tag subs prog tg)))) MS1) as (A & B).
    { apply step_R. exact HR. }
    split; [exact A|constructor; [exact TG|exact B]].
  - subst e1. apply IH; [intros i; rewrite TM; apply MS|exact HR].
Qed.

Lemma setup_good subs prog n : forall i e m, R e m ->
  R (snd (setup subs e i n)) (mon_tr subs prog m (fst (setup subs e i n))) /\
  Forall (fun x => tag_ok (snd (fst x))) (fst (setup subs e i n)).
Proof.
  induction n as [|n IH]; intros i e m HR; [split; [exact HR|constructor]|].
  cbn [setup fst snd mon_tr].
  assert (E : op_of_tag subs prog (TSetup i) = op_of_tag subs [] (TSetup i)) by reflexivity.
  rewrite E. destruct (IH (S i) _ _ (step_R e m (op_of_tag subs [] (TSetup i)) HR)) as (A & B).
  split; [exact A|constructor; [exact I|exact B]].
Qed.

Theorem threads_oracle_accepts_model ops : pubt_oracle ops (pubt_run ops) = true.
Proof.
  unfold pubt_oracle, pubt_run. destruct (parse_case ops) as [c|] eqn:PC; [|reflexivity].
  assert (C : cfg_ok_b (tc_mn c) (tc_mx c) = true).
  { unfold parse_case in PC. destruct ops as [|c0 [|[|z sl] rest]]; try discriminate.
    destruct (z =? 100) eqn:Z100; [|destruct z as [|p|p]; try discriminate; repeat (destruct p; try discriminate)].
    assert (z = 100) by lia. subst z.
    destruct (cfg_of c0) as [[mn mx]|] eqn:CF; [|discriminate].
    destruct (parse_subs sl); [|discriminate]. destruct (split_sched rest) as [[p s]|]; [|discriminate].
    destruct (length l <=? 3)%nat; [|discriminate]. injection PC as <-. cbn [tc_mn tc_mx].
    unfold cfg_of in CF. destruct c0 as [|a [|b [|? ?]]]; try discriminate.
    destruct (cfg_ok_b a (if b =? 0 then unlimited else b)) eqn:E; [|discriminate]. injection CF as <- <-. exact E. }
  unfold thr_trace.
  assert (R0 : R (tst0 (tc_mn c) (tc_mx c)) (mon0 (tc_mn c) (tc_mx c))) by (split; [reflexivity|right; apply Inv0; exact C]).
  destruct (setup_good (tc_subs c) (tc_prog c) (length (tc_subs c)) 0 _ _ R0) as (RS & FS).
  destruct (trun_good (tc_subs c) (tc_prog c) (fuel_of c) _ (init_ts (tc_subs c) (tc_prog c)) (tc_sched c) _
                      ltac:(intros i; reflexivity) RS) as (GT & FT).
  rewrite mon_lines_enc by (apply Forall_app; split; assumption).
  rewrite mon_tr_app. exact GT.
Qed.
