(* PubThreadProofs.v — the property oracle accepts the model's trace of EVERY threaded case (any programs, any schedule,
   re-entrant subscribers, two publisher threads): every line of a threaded trace is a locked step of PublisherDefs.step
   from the state the previous lines led to, so the simulation relation R of PublisherProofs is carried along the whole
   trace whatever the scheduler does. *)
From Cocls Require Import Base BaseProofs PublisherDefs PublisherProofs PubThreadDefs.
Local Open Scope Z_scope.

Section Trace.
Variable sp : list sthr.
Variable pa pb : list op.

Fixpoint mon_tr (m : mon) (tr : list (nat * tag * obs)) : mon :=
  match tr with
  | [] => m
  | x :: t => mon_tr (mon_step m (op_of_tag sp pa pb (snd (fst x))) (snd x)) t
  end.

Lemma mon_tr_app m a b : mon_tr m (a ++ b) = mon_tr (mon_tr m a) b.
Proof. revert m; induction a as [|x a IH]; intros m; [reflexivity|]. cbn [app mon_tr]. apply IH. Qed.

Definition tag_ok (t : tag) : Prop :=
  match t with
  | TStep c _ => c = 5 \/ c = 6 \/ c = 7
  | TPub k _ | TSkip k _ => (k <= 1)%nat
  | _ => True
  end.

Lemma dec_enc_tag t : tag_ok t ->
  match enc_tag t with [c; a] => dec_tag c a = Some t | _ => False end.
Proof.
  destruct t as [i|k j|k j|c s|i]; cbn [enc_tag tag_ok]; intros H; unfold dec_tag.
  - assert (Z.of_nat i <? 0 = false) by lia. rewrite H0. cbn. rewrite Nat2Z.id. reflexivity.
  - assert (Z.of_nat j <? 0 = false) by lia. rewrite H0. rewrite Nat2Z.id.
    destruct k as [|[|k]]; [reflexivity|reflexivity|lia].
  - assert (Z.of_nat j <? 0 = false) by lia. rewrite H0. rewrite Nat2Z.id.
    destruct k as [|[|k]]; [reflexivity|reflexivity|lia].
  - assert (Z.of_nat s <? 0 = false) by lia. rewrite H0. rewrite Nat2Z.id.
    destruct H as [ -> | [ -> | -> ] ]; reflexivity.
  - assert (Z.of_nat i <? 0 = false) by lia. rewrite H0. cbn. rewrite Nat2Z.id. reflexivity.
Qed.

Lemma mon_lines_enc tr : Forall (fun x => tag_ok (snd (fst x))) tr ->
  forall m, mon_lines sp pa pb m (map enc_line tr) = mon_tr m tr.
Proof.
  induction 1 as [|[[t tg] o] tr H F IH]; intros m; [reflexivity|].
  cbn [map mon_tr fst snd]. unfold enc_line at 1. cbn [fst snd].
  pose proof (dec_enc_tag tg H) as D. destruct (enc_tag tg) as [|c [|a [|? ?]]]; try contradiction.
  cbn [app mon_lines]. rewrite D, dec_enc. apply IH.
Qed.

Lemma pub_tag_ok ts prog k j : (k <= 1)%nat -> tag_ok (pub_tag ts prog k j).
Proof.
  intros K. unfold pub_tag. destruct (nth j prog OBad); try exact K;
    repeat match goal with |- context[if ?c then _ else _] => destruct c end; exact K.
Qed.

Lemma tstep_spec e ts t :
  (forall k rest, stack_of ts t = IPub k :: rest -> (k <= 1)%nat) ->
  match snd (tstep sp pa pb e ts t) with
  | Some (tg, o) => o = snd (step e (op_of_tag sp pa pb tg)) /\
                    fst (fst (tstep sp pa pb e ts t)) = fst (step e (op_of_tag sp pa pb tg)) /\ tag_ok tg
  | None => fst (fst (tstep sp pa pb e ts t)) = e
  end.
Proof.
  intros KK. unfold tstep. destruct (stack_of ts t) as [|[k| |i|w|l] rest]; cbn [fst snd]; try reflexivity.
  - split; [reflexivity|]. split; [reflexivity|]. apply pub_tag_ok. apply (KK k rest). reflexivity.
  - destruct (st_pc (sget (ts_subs ts) i) =? 7); cbn [fst snd].
    { split; [reflexivity|]. split; [reflexivity|exact I]. }
    destruct (sub_code (sget (ts_subs ts) i)) as [c|] eqn:SC; cbn [fst snd]; [|reflexivity].
    split; [reflexivity|]. split; [reflexivity|]. unfold sub_code in SC. cbn [tag_ok].
    repeat match type of SC with (if ?c then _ else _) = _ => destruct c end; try discriminate; injection SC as <-; auto.
Qed.

(* publisher items only ever carry program index 0 or 1 *)
Definition items_ok (st : list item) : Prop := forall k, In (IPub k) st -> (k <= 1)%nat.
Definition stacks_ok (ts : tstate) : Prop := forall st, In st (ts_stacks ts) -> items_ok st.

Lemma items_ok_enqueue cs st : items_ok st -> items_ok (enqueue cs st).
Proof.
  induction st as [|x st IH]; intros H; [exact H|].
  assert (H' : items_ok st) by (intros k I; apply H; right; exact I).
  destruct x; cbn [enqueue]; try (intros k' [I|I]; [apply H; left; exact I|apply (IH H'); exact I]).
  intros k' [I|I]; [discriminate|apply H'; exact I].
Qed.

Lemma items_ok_settle_f fuel : forall subs st, items_ok st -> items_ok (snd (settle_f fuel subs st)).
Proof.
  induction fuel as [|f IH]; intros subs st H; [exact H|]. cbn [settle_f].
  destruct st as [|x st]; [exact H|].
  assert (H' : items_ok st) by (intros k I; apply H; right; exact I).
  destruct x; try exact H.
  - destruct (has_q st); [apply IH; apply items_ok_enqueue; exact H'|].
    destruct (wake_prefix subs w) as [[subs1 [i|]] w1]; cbn [snd]; [|apply IH; exact H'].
    intros k [I|[I|I]]; try discriminate. destruct w1; [apply H'; exact I|]. destruct I as [I|I]; [discriminate|apply H'; exact I].
  - destruct l as [|i l]; [apply IH; exact H'|]. cbn [snd]. intros k [I|[I|I]]; try discriminate. apply H'. exact I.
Qed.

Lemma items_ok_settle st subs : items_ok st -> items_ok (snd (settle subs st)).
Proof. apply items_ok_settle_f. Qed.

Lemma stack_of_ok ts t : stacks_ok ts -> items_ok (stack_of ts t).
Proof.
  intros H. unfold stack_of. destruct (nth_in_or_default t (ts_stacks ts) []) as [I|E]; [apply H; exact I|].
  rewrite E. intros k [].
Qed.

Lemma In_set_nth {A} (l : list A) i x y : In y (set_nth l i x) -> y = x \/ In y l.
Proof.
  revert i; induction l as [|z l IH]; intros [|i] H; cbn in *; try tauto.
  - destruct H as [H|H]; [left; congruence|right; right; exact H].
  - destruct H as [H|H]; [right; left; exact H|]. destruct (IH i H) as [E|I]; [left; exact E|right; right; exact I].
Qed.

Lemma stacks_ok_set ts' ts t st : ts_stacks ts' = set_nth (ts_stacks ts) t st -> stacks_ok ts -> items_ok st -> stacks_ok ts'.
Proof. intros E H S x I. rewrite E in I. apply In_set_nth in I as [->|I]; [exact S|apply H; exact I]. Qed.

Lemma tstep_stacks_ok e ts t : stacks_ok ts -> stacks_ok (snd (fst (tstep sp pa pb e ts t))).
Proof.
  intros H. pose proof (stack_of_ok ts t H) as SO. unfold tstep.
  destruct (stack_of ts t) as [|[k| |i|w|l] rest] eqn:ST; cbn [fst snd]; try exact H.
  - assert (K : (k <= 1)%nat) by (apply SO; left; reflexivity).
    assert (RO : items_ok rest) by (intros k' I; apply SO; right; exact I).
    eapply stacks_ok_set; [reflexivity|exact H|]. apply items_ok_settle.
    intros k' [I|I]; [discriminate|]. apply in_app_iff in I as [I|I].
    { destruct (relocks _ _ _); [destruct I as [I|I]; [discriminate|destruct I]|destruct I]. }
    apply in_app_iff in I as [I|I]; [|apply RO; exact I].
    unfold pub_rest in I. destruct (S _ <? _)%nat; [destruct I as [I|I]; [injection I as <-; exact K|destruct I]|destruct I].
  - eapply stacks_ok_set; [reflexivity|exact H|]. apply items_ok_settle. intros k' I. apply SO. right. exact I.
  - assert (RO : items_ok rest) by (intros k' I; apply SO; right; exact I).
    assert (RI : items_ok (ISub i :: rest)) by (intros k' [I|I]; [discriminate|apply RO; exact I]).
    destruct (st_pc (sget (ts_subs ts) i) =? 7); cbn [fst snd].
    { eapply stacks_ok_set; [reflexivity|exact H|]. apply items_ok_settle.
      intros k' [I|I]; [discriminate|]. apply in_app_iff in I as [I|I].
      { destruct (relocks _ _ _); [destruct I as [I|I]; [discriminate|destruct I]|destruct I]. }
      destruct (stays _); [apply RI; exact I|apply RO; exact I]. }
    destruct (sub_code (sget (ts_subs ts) i)); cbn [fst snd]; [|exact H].
    eapply stacks_ok_set; [reflexivity|exact H|].
    destruct (stays _); cbn [snd]; [exact RI|apply items_ok_settle; exact RO].
  - eapply stacks_ok_set; [reflexivity|exact H|]. apply items_ok_settle. exact SO.
  - eapply stacks_ok_set; [reflexivity|exact H|]. apply items_ok_settle. exact SO.
Qed.

Lemma trun_good fuel : forall e ts sched m, stacks_ok ts -> R e m ->
  good_b (mon_tr m (trun fuel sp pa pb e ts sched)) = true /\
  Forall (fun x => tag_ok (snd (fst x))) (trun fuel sp pa pb e ts sched).
Proof.
  induction fuel as [|f IH]; intros e ts sched m SK HR; [split; [apply HR|constructor]|].
  cbn [trun]. destruct (pick ts (hd 0 sched)) as [t|]; [|split; [apply HR|constructor]].
  assert (KK : forall k rest, stack_of ts t = IPub k :: rest -> (k <= 1)%nat).
  { intros k rest E. apply (stack_of_ok ts t SK). rewrite E. left. reflexivity. }
  pose proof (tstep_spec e ts t KK) as SP. pose proof (tstep_stacks_ok e ts t SK) as SK1.
  destruct (tstep sp pa pb e ts t) as [[e1 ts1] [[tg o]|]]; cbn [fst snd] in *.
  - destruct SP as (-> & -> & TG).
    destruct (IH (fst (step e (op_of_tag sp pa pb tg))) ts1 (tl sched)
                 (mon_step m (op_of_tag sp pa pb tg) (snd (step e (op_of_tag sp pa pb tg)))) SK1) as (A & B).
    { apply step_R. exact HR. }
    split; [exact A|constructor; [exact TG|exact B]].
  - subst e1. apply IH; [exact SK1|exact HR].
Qed.
End Trace.

Lemma setup_good sp pa pb n : forall i e m, R e m ->
  R (snd (setup sp e i n)) (mon_tr sp pa pb m (fst (setup sp e i n))) /\
  Forall (fun x => tag_ok (snd (fst x))) (fst (setup sp e i n)).
Proof.
  induction n as [|n IH]; intros i e m HR; [split; [exact HR|constructor]|].
  cbn [setup fst snd mon_tr].
  assert (E : op_of_tag sp pa pb (TSetup i) = op_of_tag sp [] [] (TSetup i)) by reflexivity.
  rewrite E. destruct (IH (S i) _ _ (step_R e m (op_of_tag sp [] [] (TSetup i)) HR)) as (A & B).
  split; [exact A|constructor; [exact I|exact B]].
Qed.

Lemma init_stacks_ok subs pa pb : stacks_ok (init_ts subs pa pb).
Proof.
  intros st I. unfold init_ts in I. cbn [ts_stacks] in I. apply in_app_iff in I as [[<-|I]|[<-|[]]].
  - destruct pa; intros k J; [destruct J|]. destruct J as [J|J]; [injection J as <-; lia|destruct J].
  - apply in_map_iff in I as (i & <- & _). destruct (st_pc (sget subs i) =? 5); intros k J; [destruct J|].
    destruct (st_style (sget subs i) =? 1); [destruct J as [J|[J|J]]; [discriminate|discriminate|destruct J]|].
    destruct J as [J|J]; [discriminate|destruct J].
  - destruct pb; intros k J; [destruct J|]. destruct J as [J|J]; [injection J as <-; lia|destruct J].
Qed.

Theorem threads_oracle_accepts_model ops : pubt_oracle ops (pubt_run ops) = true.
Proof.
  unfold pubt_oracle, pubt_run. destruct (parse_case ops) as [c|] eqn:PC; [|reflexivity].
  assert (C : cfg_ok_b (tc_mn c) (tc_mx c) = true).
  { unfold parse_case in PC. destruct ops as [|c0 [|[|z sl] rest]]; try discriminate.
    destruct (z =? 100) eqn:Z100; [|destruct z as [|p|p]; try discriminate; repeat (destruct p; try discriminate)].
    assert (z = 100) by lia. subst z.
    destruct (cfg_of c0) as [[mn mx]|] eqn:CF; [|discriminate].
    destruct (parse_subs sl); [|discriminate]. destruct (split_sched rest) as [[p s]|]; [|discriminate].
    destruct (length l <=? 3)%nat; [|discriminate]. injection PC as <-. cbn [tc_mn tc_mx].
    unfold cfg_of in CF. destruct c0 as [|a [|b [|? ?]]]; try discriminate.
    destruct (cfg_ok_b a (if b =? 0 then unlimited else b)) eqn:E; [|discriminate]. injection CF as <- <-. exact E. }
  unfold thr_trace.
  assert (R0 : R (tst0 (tc_mn c) (tc_mx c)) (mon0 (tc_mn c) (tc_mx c))) by (split; [reflexivity|right; apply Inv0; exact C]).
  destruct (setup_good (tc_subs c) (tc_pa c) (tc_pb c) (length (tc_subs c)) 0 _ _ R0) as (RS & FS).
  destruct (trun_good (tc_subs c) (tc_pa c) (tc_pb c) (fuel_of c) _ (init_ts (tc_subs c) (tc_pa c) (tc_pb c)) (tc_sched c) _
                      (init_stacks_ok _ _ _) RS) as (GT & FT).
  rewrite mon_lines_enc by (apply Forall_app; split; assumption).
  rewrite mon_tr_app. exact GT.
Qed.
