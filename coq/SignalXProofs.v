(* SignalXProofs.v — the cross-thread model (SignalXDefs.v): for every schedule every listener is in exactly one place. *)
From Cocls Require Import Base BaseProofs SignalXDefs.
Local Open Scope Z_scope.

Definition cnt (x : nat) (l : list nat) : nat := count_occ Nat.eq_dec l x.
Arguments cnt : simpl never.
Lemma cnt_app x a b : cnt x (a ++ b) = (cnt x a + cnt x b)%nat. Proof. apply count_occ_app. Qed.
Lemma cnt_cons x a l : cnt x (a :: l) = (cnt x [a] + cnt x l)%nat. Proof. apply (count_occ_app Nat.eq_dec [a] l). Qed.
Lemma cnt_nil x : cnt x [] = 0%nat. Proof. reflexivity. Qed.

(* listener ids a thread currently holds in its program counter; a subscriber that has not done its CAS yet holds itself *)
Definition pc_ids (k : nat) (p : xpc) : list nat :=
  match p with
  | XAsub => [k]
  | XWalk w sp _ => map fst w ++ sp
  | XCbAsub i w sp _ => [i] ++ map fst w ++ sp
  | XCbApub _ w sp _ => map fst w ++ sp
  | XFutWalk i _ sp _ => [i] ++ sp
  | _ => []
  end.
Fixpoint tot (pcs : list xpc) (k : nat) : list nat :=
  match pcs with [] => [] | p :: r => pc_ids k p ++ tot r (S k) end.

(* finished: resumed (value or cancel) / freed / future resolved *)
Definition ev_fin (e : xev) : list nat := match e with XRecv i _ | XCancel i | XFree i => [i] | _ => [] end.

Definition all_ids (s : xst) : list nat :=
  map fst (x_chain s) ++ tot (x_pcs s) O ++ flat_map ev_fin (x_ev s) ++ map fst (x_resolved s).

Lemma tot_set_nth pcs : forall t k old p, nth_error pcs t = Some old ->
  forall x, (cnt x (tot (set_nth pcs t p) k) + cnt x (pc_ids (k + t) old) = cnt x (tot pcs k) + cnt x (pc_ids (k + t) p))%nat.
Proof.
  induction pcs as [|q r IH]; intros t k old p N x; destruct t; cbn in N; try discriminate.
  - inversion N; subst. cbn [set_nth tot]. rewrite Nat.add_0_r, !cnt_app. lia.
  - cbn [set_nth tot]. rewrite !cnt_app. specialize (IH _ (S k) _ p N x). replace (S k + t)%nat with (k + S t)%nat in IH by lia. lia.
Qed.

(* effect of the primitive updates on the count of an id *)
Lemma all_set_pc s t old p : nth_error (x_pcs s) t = Some old ->
  forall x, (cnt x (all_ids (set_pc s t p)) + cnt x (pc_ids t old) = cnt x (all_ids s) + cnt x (pc_ids t p))%nat.
Proof.
  intros N x. unfold all_ids, set_pc. cbn [x_chain x_pcs x_ev x_resolved]. rewrite !cnt_app.
  pose proof (tot_set_nth _ _ O _ p N x) as H. cbn [Nat.add] in H. lia.
Qed.
Lemma all_log s e x : cnt x (all_ids (log s e)) = (cnt x (all_ids s) + cnt x (flat_map ev_fin e))%nat.
Proof. unfold all_ids, log. cbn [x_chain x_pcs x_ev x_resolved]. rewrite flat_map_app, !cnt_app. lia. Qed.
Lemma all_resolve s i r x : cnt x (all_ids (resolve_fut s i r)) = (cnt x (all_ids s) + cnt x [i])%nat.
Proof. unfold all_ids, resolve_fut. cbn [x_chain x_pcs x_ev x_resolved]. rewrite map_app, !cnt_app. cbn [map fst]. lia. Qed.
Lemma all_set_lis s i y x : cnt x (all_ids (set_lis s i y)) = cnt x (all_ids s).
Proof. reflexivity. Qed.
Lemma all_set_chain s c x :
  (cnt x (all_ids (set_chain s c)) + cnt x (map fst (x_chain s)) = cnt x (all_ids s) + cnt x (map fst c))%nat.
Proof. unfold all_ids, set_chain. cbn [x_chain x_pcs x_ev x_resolved]. rewrite !cnt_app. lia. Qed.
Lemma all_strong s n c x : cnt x (all_ids (set_strong_cur s n c)) = cnt x (all_ids s).
Proof. reflexivity. Qed.

(* the updates that do not touch the program counters keep every program counter *)
Lemma pcs_log s e : x_pcs (log s e) = x_pcs s. Proof. reflexivity. Qed.
Lemma pcs_resolve s i r : x_pcs (resolve_fut s i r) = x_pcs s. Proof. reflexivity. Qed.

Lemma sub_finish_all s t old : nth_error (x_pcs s) t = Some old ->
  forall x, (cnt x (all_ids (sub_finish s t)) + cnt x (pc_ids t old) = cnt x (all_ids s))%nat.
Proof.
  intros N x. unfold sub_finish. destruct (t_kind (lis_of s t) =? 1).
  - destruct (res_of (x_resolved s) t) as [r|].
    + assert (N' : nth_error (x_pcs (log s [wlog t r])) t = Some old) by exact N.
      pose proof (all_set_pc _ _ _ XDone N' x) as H. rewrite all_log in H.
      assert (F : flat_map ev_fin [wlog t r] = []) by (destruct r; reflexivity). rewrite F in H. cbn [pc_ids] in H. rewrite !cnt_nil in H. lia.
    + pose proof (all_set_pc _ _ _ XFlag N x) as H. cbn [pc_ids] in H. rewrite cnt_nil in H. lia.
  - pose proof (all_set_pc _ _ _ XDone N x) as H. cbn [pc_ids] in H. rewrite cnt_nil in H. lia.
Qed.

Lemma continue_all s t k old : nth_error (x_pcs s) t = Some old ->
  forall x, (cnt x (all_ids (continue s t k)) + cnt x (pc_ids t old) = cnt x (all_ids s))%nat.
Proof.
  intros N x. destruct k as [[|a acts]|]; cbn [continue].
  - pose proof (all_set_pc _ _ _ XDone N x) as H. cbn [pc_ids] in H. rewrite cnt_nil in H. lia.
  - pose proof (all_set_pc _ _ _ (XStep (a :: acts)) N x) as H. cbn [pc_ids] in H. rewrite cnt_nil in H. lia.
  - apply sub_finish_all. exact N.
Qed.

Lemma resume_go_all sp : forall s t k old, nth_error (x_pcs s) t = Some old ->
  forall x, (cnt x (all_ids (resume_go s t sp k)) + cnt x (pc_ids t old) = cnt x (all_ids s) + cnt x sp)%nat.
Proof.
  induction sp as [|i r IH]; intros s t k old N x; cbn [resume_go].
  - rewrite cnt_nil. pose proof (continue_all s t k old N x). lia.
  - rewrite (cnt_cons x i r). destruct (t_kind (lis_of s i) =? 1).
    + destruct (nth i (x_pcs s) XDone);
        try (pose proof (IH (resolve_fut s i (x_read s)) t k old N x) as H; rewrite all_resolve in H; lia).
      pose proof (all_set_pc _ _ _ (XFutWalk i (x_read s) r k) N x) as H. cbn [pc_ids] in H. rewrite cnt_app in H. lia.
    + set (e := match x_read s with Some z => XRecv i z | None => XCancel i end).
      pose proof (IH (log s [e]) t k old N x) as H. rewrite all_log in H.
      assert (F : flat_map ev_fin [e] = [i]) by (unfold e; destruct (x_read s); reflexivity). rewrite F in H. lia.
Qed.

Lemma walk_next_all s t w sp k old : nth_error (x_pcs s) t = Some old ->
  forall x, (cnt x (all_ids (walk_next s t w sp k)) + cnt x (pc_ids t old) = cnt x (all_ids s) + cnt x (map fst w) + cnt x sp)%nat.
Proof.
  intros N x. destruct w as [|a w]; cbn [walk_next].
  - cbn [map]. rewrite cnt_nil. pose proof (resume_go_all sp s t k old N x). lia.
  - pose proof (all_set_pc _ _ _ (XWalk (a :: w) sp k) N x) as H. cbn [pc_ids] in H. rewrite cnt_app in H. lia.
Qed.

Lemma release_all s t k old : nth_error (x_pcs s) t = Some old ->
  forall x, (cnt x (all_ids (release s t k)) + cnt x (pc_ids t old) = cnt x (all_ids s))%nat.
Proof.
  intros N x. unfold release. destruct (Nat.eqb (Nat.pred (x_strong s)) 0).
  - assert (N' : nth_error (x_pcs (set_strong_cur s (Nat.pred (x_strong s)) None)) t = Some old) by exact N.
    pose proof (all_set_pc _ _ _ (XRchain k) N' x) as H. rewrite all_strong in H. cbn [pc_ids] in H. rewrite cnt_nil in H. lia.
  - assert (N' : nth_error (x_pcs (set_strong_cur s (Nat.pred (x_strong s)) (x_cur s))) t = Some old) by exact N.
    pose proof (continue_all _ _ k _ N' x) as H. rewrite all_strong in H. exact H.
Qed.

(* one step of any thread conserves every id *)
Lemma xstep_all s t x : cnt x (all_ids (xstep s t)) = cnt x (all_ids s).
Proof.
  unfold xstep. destruct (nth_error (x_pcs s) t) as [pc|] eqn:N; [|reflexivity].
  destruct pc as [acts|acts| | | |k|w sp k|i w sp k|i w sp k|i r sp k|].
  - (* step *) destruct acts as [|a acts].
    + pose proof (all_set_pc _ _ _ XDone N x) as H. cbn [pc_ids] in H. rewrite cnt_nil in H. lia.
    + destruct (a =? 1).
      * set (s1 := mkX _ _ _ _ _ _ _ _). assert (N1 : nth_error (x_pcs s1) t = Some (XStep (a :: acts))) by exact N.
        pose proof (all_set_pc _ _ _ (XRchain (KColl acts)) N1 x) as H. cbn [pc_ids] in H. rewrite cnt_nil in H.
        change (cnt x (all_ids s1)) with (cnt x (all_ids s)) in H. lia.
      * pose proof (release_all s t (KColl []) _ N x) as H. cbn [pc_ids] in H. rewrite cnt_nil in H. lia.
  - (* wait for the registration *) destruct acts as [|a acts].
    + pose proof (all_set_pc _ _ _ XDone N x) as H. cbn [pc_ids] in H. rewrite cnt_nil in H. lia.
    + pose proof (all_set_pc _ _ _ (XStep (a :: acts)) N x) as H. cbn [pc_ids] in H. rewrite cnt_nil in H. lia.
  - (* asub *) set (c := (t, t_kind (lis_of s t) =? 2) :: x_chain s).
    assert (N1 : nth_error (x_pcs (set_chain s c)) t = Some XAsub) by exact N.
    pose proof (all_set_pc _ _ _ XApub N1 x) as H. pose proof (all_set_chain s c x) as H2.
    unfold c in H2. cbn [map fst] in H2. rewrite (cnt_cons x t) in H2. cbn [pc_ids] in H. rewrite cnt_nil in H. fold c in H2. lia.
  - (* apub *) pose proof (release_all s t KSub _ N x) as H. cbn [pc_ids] in H. rewrite cnt_nil in H. lia.
  - (* flag *) destruct (res_of (x_resolved s) t) as [r|]; [|reflexivity].
    assert (N1 : nth_error (x_pcs (log s [wlog t r])) t = Some XFlag) by exact N.
    pose proof (all_set_pc _ _ _ XDone N1 x) as H. rewrite all_log in H. cbn [pc_ids] in H.
    assert (F : flat_map ev_fin [wlog t r] = []) by (destruct r; reflexivity). rewrite F in H. rewrite !cnt_nil in H. lia.
  - (* rchain *) assert (N1 : nth_error (x_pcs (set_chain s [])) t = Some (XRchain k)) by exact N.
    pose proof (walk_next_all _ t (x_chain s) [] k _ N1 x) as H. pose proof (all_set_chain s [] x) as H2.
    cbn [pc_ids map] in *. rewrite !cnt_nil in *. lia.
  - (* walk *) destruct w as [|[i cb] w].
    + pose proof (walk_next_all s t [] sp k _ N x) as H. cbn [pc_ids map app] in H. rewrite cnt_nil in H. lia.
    + cbn [pc_ids map fst] in *. destruct cb.
      * destruct (x_read s) as [v|].
        -- set (y := lis_of s i). set (s1 := log (set_lis s i _) [XCall i v]).
           assert (N1 : nth_error (x_pcs s1) t = Some (XWalk ((i, true) :: w) sp k)) by exact N.
           assert (A1 : cnt x (all_ids s1) = cnt x (all_ids s)).
           { unfold s1. rewrite all_log, all_set_lis. cbn. rewrite cnt_nil. lia. }
           destruct (Nat.eqb (t_limit y) 0 || Nat.ltb (S (t_cnt y)) (t_limit y)).
           ++ pose proof (all_set_pc _ _ _ (XCbAsub i w sp k) N1 x) as H. cbn [pc_ids map fst] in H.
              rewrite ?(cnt_cons x i (map fst w ++ sp)), ?cnt_app, ?(cnt_cons x i (map fst w)) in H. lia.
           ++ assert (N2 : nth_error (x_pcs (log s1 [XFree i])) t = Some (XWalk ((i, true) :: w) sp k)) by exact N.
              pose proof (walk_next_all _ t w sp k _ N2 x) as H. rewrite all_log in H. cbn [pc_ids map fst flat_map ev_fin app] in H.
              rewrite ?(cnt_cons x i (map fst w ++ sp)), ?cnt_app, ?(cnt_cons x i (map fst w)) in H. lia.
        -- assert (N2 : nth_error (x_pcs (log s [XFree i])) t = Some (XWalk ((i, true) :: w) sp k)) by exact N.
           pose proof (walk_next_all _ t w sp k _ N2 x) as H. rewrite all_log in H. cbn [pc_ids map fst flat_map ev_fin app] in H.
           rewrite ?(cnt_cons x i (map fst w ++ sp)), ?cnt_app, ?(cnt_cons x i (map fst w)) in H. lia.
      * pose proof (walk_next_all s t w (sp ++ [i]) k _ N x) as H. cbn [pc_ids map fst] in H.
        rewrite ?(cnt_cons x i (map fst w ++ sp)), ?cnt_app, ?(cnt_cons x i (map fst w)) in H. lia.
  - (* callback asub *) set (c := (i, true) :: x_chain s).
    assert (N1 : nth_error (x_pcs (set_chain s c)) t = Some (XCbAsub i w sp k)) by exact N.
    pose proof (all_set_pc _ _ _ (XCbApub i w sp k) N1 x) as H. pose proof (all_set_chain s c x) as H2.
    unfold c in H2. cbn [map fst] in H2. rewrite (cnt_cons x i) in H2. fold c in H2. cbn [pc_ids] in H. rewrite !cnt_app in H. lia.
  - (* callback apub *) pose proof (walk_next_all s t w sp k _ N x) as H. cbn [pc_ids] in H. rewrite cnt_app in H. lia.
  - (* future walk *) assert (N1 : nth_error (x_pcs (resolve_fut s i r)) t = Some (XFutWalk i r sp k)) by exact N.
    pose proof (resume_go_all sp _ t k _ N1 x) as H. rewrite all_resolve in H. cbn [pc_ids] in H. rewrite cnt_app in H. lia.
  - reflexivity.
Qed.

Lemma xrun_all fuel : forall s sched x, cnt x (all_ids (fst (xrun fuel s sched))) = cnt x (all_ids s).
Proof.
  induction fuel as [|f IH]; intros s sched x; cbn [xrun]; [reflexivity|].
  destruct (x_enabled s) as [|e0 e]; [reflexivity|].
  set (t := nth _ (e0 :: e) O).
  destruct (xrun f (xstep s t) (tl sched)) as [s' tr] eqn:R. cbn [fst].
  pose proof (IH (xstep s t) (tl sched) x) as H. rewrite R in H. cbn [fst] in H. rewrite H. apply xstep_all.
Qed.

(* initially: nothing in the chain, nothing finished; every subscriber holds itself (once), the collector nothing *)
Fixpoint subs_from (thr : list (xpc * xlis)) (k : nat) : list nat :=
  match thr with [] => [] | x :: r => (match fst x with XAsub => [k] | _ => [] end) ++ subs_from r (S k) end.

Definition init_pc (p : xpc) : Prop := match p with XAsub | XStep _ | XWaitReg _ | XDone => True | _ => False end.

Lemma tot_init h thr : Forall (fun x => init_pc (fst x)) thr -> forall k, tot (map (ipc h) thr) k = subs_from thr k.
Proof.
  induction 1 as [|[p l] r Hp _ IH]; intros k; cbn [map tot subs_from]; [reflexivity|].
  rewrite IH. unfold ipc. cbn [fst] in *. destruct p; cbn [pc_ids init_pc] in *; try reflexivity; try destruct Hp.
  destruct h; reflexivity.
Qed.

Lemma decode_thr_init l : Forall (fun x => init_pc (fst x)) (decode_thr l).
Proof.
  unfold decode_thr.
  repeat match goal with
  | |- Forall _ (match ?x with _ => _ end) => destruct x
  | |- Forall _ (if ?c then _ else _) => destruct c
  end; repeat constructor; cbn [fst]; try exact I.
  all: try (match goal with |- init_pc (match ?x with _ => _ end) => destruct x end; exact I).
Qed.

Lemma decode_init ops : Forall (fun x => init_pc (fst x)) (flat_map decode_thr ops).
Proof.
  induction ops as [|l t IH]; cbn [flat_map]; [constructor|]. apply Forall_app. split; [apply decode_thr_init|exact IH].
Qed.

Lemma subs_from_ge thr : forall k x, In x (subs_from thr k) -> (k <= x)%nat.
Proof.
  induction thr as [|[p l] r IH]; intros k x I; cbn [subs_from fst] in I; [destruct I|].
  apply in_app_or in I. destruct I as [I|I].
  - destruct p; try destruct I as [<-|[]]; try destruct I. lia.
  - specialize (IH _ _ I). lia.
Qed.
Lemma subs_from_nodup thr : forall k, NoDup (subs_from thr k).
Proof.
  induction thr as [|[p l] r IH]; intros k; cbn [subs_from fst]; [constructor|].
  destruct p; cbn [app]; try apply IH. constructor; [|apply IH]. intros I. apply subs_from_ge in I. lia.
Qed.

(* For every case, every schedule, any length: each listener id is, at every moment, in exactly one place —
   not yet subscribed (its thread is before its CAS), in the chain, held by a thread that is walking a taken chain
   (walk list, collected suspend point, callback re-subscribing, future being resolved), or finished (resumed with a
   value or the cancel exception exactly once / callback object freed once / future resolved once).  Nobody else is
   anywhere: never lost, never doubled. *)
Theorem x_conservation : forall ops fuel sched,
  let thr := flat_map decode_thr ops in
  let s := fst (xrun fuel (x_init thr) sched) in
  (forall x, cnt x (all_ids s) = cnt x (subs_from thr O)) /\ NoDup (all_ids s).
Proof.
  intros ops fuel sched thr s.
  assert (C : forall x, cnt x (all_ids s) = cnt x (subs_from thr O)).
  { intros x. unfold s. rewrite xrun_all. unfold all_ids, x_init. cbn [x_chain x_pcs x_ev x_resolved map flat_map app].
    rewrite (tot_init _ thr (decode_init ops)). rewrite ?cnt_app, ?cnt_nil. lia. }
  split; [exact C|].
  apply NoDup_count_occ with (decA := Nat.eq_dec). intros x. fold (cnt x (all_ids s)). rewrite C.
  apply (proj1 (NoDup_count_occ Nat.eq_dec _) (subs_from_nodup thr O)).
Qed.

(* terminal state (every thread finished): every subscriber is either still subscribed (the state is alive: nobody dropped
   the handle) or finished exactly once *)
Lemma tot_done pcs : forall k, Forall (fun p => p = XDone) pcs -> tot pcs k = [].
Proof. induction pcs as [|p r IH]; intros k F; [reflexivity|]. inversion F; subst. cbn [tot pc_ids app]. apply IH. assumption. Qed.

Theorem x_terminal : forall ops fuel sched,
  let thr := flat_map decode_thr ops in
  let s := fst (xrun fuel (x_init thr) sched) in
  Forall (fun p => p = XDone) (x_pcs s) ->
  forall x, In x (subs_from thr O) ->
  cnt x (map fst (x_chain s) ++ flat_map ev_fin (x_ev s) ++ map fst (x_resolved s)) = 1%nat.
Proof.
  intros ops fuel sched thr s D x I.
  destruct (x_conservation ops fuel sched) as (C & _). fold thr in C. fold s in C. specialize (C x).
  unfold all_ids in C. rewrite (tot_done _ O D) in C. cbn [app] in C. rewrite C.
  apply (NoDup_count_occ' Nat.eq_dec); [apply subs_from_nodup|exact I].
Qed.
