(* Timer4Proofs.v — engine "tx" (callback-style sleepers whose completion handler re-enters the scheduler):
   every call returns without an error outcome, however the handlers cancel / arm each other; the heap invariant and
   "a promise sits in at most one slot, and only while its state is pending" survive every nested re-entry. *)
From Cocls Require Import Base BaseProofs TimerDefs TimerProofs Timer2Proofs.
Require Import ZifyBool ZifyNat.
Local Open Scope Z_scope.
Ltac Zify.zify_post_hook ::= Z.div_mod_to_equations.

Definition is_pend (o : option fstat) : bool := match o with Some FPending => true | _ => false end.
Definition cnt (f : list (option fstat)) : nat := length (filter is_pend f).

Lemma cnt_le f : (cnt f <= length f)%nat.
Proof. unfold cnt. induction f as [|h t IH]; cbn [filter length]; [lia|]. destruct (is_pend h); cbn [length]; lia. Qed.

Lemma cnt_put_done v : is_pend (Some v) = false -> forall p f, get f p = Some FPending ->
  S (cnt (put f p (Some v))) = cnt f.
Proof.
  intros NV. unfold put, cnt, get. induction p as [|p IH]; intros f G.
  - destruct f as [|h t]; cbn [nth_error] in G; [discriminate|].
    destruct h as [[| | |c]|]; try discriminate. cbn [ensure set_nth filter]. rewrite NV. reflexivity.
  - destruct f as [|h t]; cbn [nth_error] in G; [discriminate|].
    cbn [ensure set_nth filter]. specialize (IH t G). destruct (is_pend h); cbn [length]; lia.
Qed.

(* the array is a heap; a promise sits in at most one slot; and only promises whose state is pending sit in the array *)
Record xinv (s : xst) : Prop := mkXI {
  xi_heap : heap_ok (x_sched s);
  xi_nodup : NoDup (ppids (x_sched s));
  xi_pend : forall p, In p (ppids (x_sched s)) -> get (x_fut s) p = Some FPending }.

Lemma xinv0 : xinv xst0.
Proof. split; cbn; auto using heap_ok_nil. constructor. intros p []. Qed.

Lemma xinv_same s l' : xinv s -> heap_ok l' -> Permutation (pending (x_sched s)) (pending l') ->
  xinv (mkX l' (x_fut s) (x_hnd s) (x_seq s)).
Proof.
  intros [H ND PE] H' P. split; cbn [x_sched x_fut]; auto.
  - eapply Permutation_NoDup; [apply ppids_same; exact P|exact ND].
  - intros p I. apply PE. apply (Permutation_in _ (Permutation_sym (ppids_same _ _ P))). exact I.
Qed.

(* arming a new future-backed sleep with a fresh promise id *)
Lemma xinv_arm s e p hn sq : xinv s -> e_p e = Some p -> get (x_fut s) p = None ->
  xinv (mkX (fst (schedule (x_sched s) e)) (put (x_fut s) p (Some FPending)) hn sq).
Proof.
  intros [H ND PE] EP FR. cbn [schedule fst].
  destruct (heap_push_ok (x_sched s) e H) as (H1 & P1 & _).
  assert (Permutation (ppids (heap_push (x_sched s) e)) (p :: ppids (x_sched s))) as PP.
  { apply ppids_perm in P1. rewrite ppids_cons in P1. unfold pid_of in P1. rewrite EP in P1. exact P1. }
  assert (~ In p (ppids (x_sched s))) as NI by (intros Q; apply PE in Q; congruence).
  split; cbn [x_sched x_fut]; auto.
  - eapply Permutation_NoDup; [symmetry; exact PP|]. constructor; assumption.
  - intros q I. apply (Permutation_in _ PP) in I. destruct (Nat.eq_dec q p) as [->|N]; [apply get_put_same|].
    rewrite get_put_other by congruence. destruct I as [I|I]; [congruence|apply PE; exact I].
Qed.

(* the promise pid has just been taken out of the array and is being completed with v *)
Lemma xfire_ok fuel : forall s pid v, xinv s -> ~ In pid (ppids (x_sched s)) -> get (x_fut s) pid = Some FPending ->
  is_pend (Some v) = false -> (cnt (x_fut s) < fuel)%nat ->
  exists s', xfire fuel s pid v = Ok s' /\ xinv s'.
Proof.
  induction fuel as [|f IH]; intros s pid v I NI G NV F; [lia|].
  cbn [xfire].
  set (s1 := mkX (x_sched s) (put (x_fut s) pid (Some v)) (x_hnd s) (x_seq s)).
  assert (xinv s1) as I1.
  { destruct I as [H ND PE]. split; cbn [s1 x_sched x_fut]; auto.
    intros p IP. rewrite get_put_other; [apply PE; exact IP|]. intros ->. contradiction. }
  assert (S (cnt (x_fut s1)) = cnt (x_fut s)) as C1 by (apply cnt_put_done; assumption).
  destruct (get (x_hnd s) pid) as [a|]; [|exists s1; auto].
  assert (exists s2, (if (h_act a =? 1) || (h_act a =? 3) then
                   r <- remove (x_sched s1) (h_cid a) ;;
                   match snd r with
                   | Some t => match e_p t with
                               | Some p => xfire f (mkX (fst r) (x_fut s1) (x_hnd s1) (x_seq s1)) p (FExc 0)
                               | None => ErrFuel
                               end
                   | None => Ok (mkX (fst r) (x_fut s1) (x_hnd s1) (x_seq s1))
                   end
                 else Ok s1) = Ok s2 /\ xinv s2) as (s2 & E2 & I2).
  { destruct ((h_act a =? 1) || (h_act a =? 3))%bool; [|exists s1; auto].
    destruct I1 as [H1 ND1 PE1].
    destruct (remove_ok (x_sched s1) (h_cid a) H1) as (l' & r & E & H' & _ & _ & SP). rewrite E. cbn [rbind fst snd].
    destruct r as [t|]; cbn [remove_spec] in SP.
    - destruct SP as (LT & _ & P). destruct (proj1 (live_some t) LT) as [p EP]. rewrite EP.
      pose proof (ppids_take _ _ _ _ EP P) as PP.
      assert (NoDup (p :: ppids l')) as ND' by (eapply Permutation_NoDup; eassumption).
      inversion ND' as [|? ? NI' ND'']; subst.
      apply IH.
      + split; cbn [x_sched x_fut]; auto. intros q IQ. apply PE1. apply (Permutation_in _ (Permutation_sym PP)). right. exact IQ.
      + exact NI'.
      + cbn [x_fut]. apply PE1. apply (Permutation_in _ (Permutation_sym PP)). left. reflexivity.
      + reflexivity.
      + cbn [x_fut]. lia.
    - destruct SP as (P & _). eexists. split; [reflexivity|].
      apply (xinv_same s1 l'); [split; assumption|exact H'|exact P]. }
  destruct v as [| | |c] eqn:EV; try (cbn in NV; discriminate).
  - rewrite E2. cbn [rbind].
    destruct (((h_act a =? 2) || (h_act a =? 3)) && isnone (get (x_fut s2) (h_spid a)))%bool eqn:AR; [|exists s2; auto].
    eexists. split; [reflexivity|]. apply andb_true_iff in AR. destruct AR as [_ FR].
    apply xinv_arm; [exact I2|reflexivity|]. destruct (get (x_fut s2) (h_spid a)); [discriminate|reflexivity].
  - exists s1. auto.
  - rewrite E2. cbn [rbind].
    destruct (((h_act a =? 2) || (h_act a =? 3)) && isnone (get (x_fut s2) (h_spid a)))%bool eqn:AR; [|exists s2; auto].
    eexists. split; [reflexivity|]. apply andb_true_iff in AR. destruct AR as [_ FR].
    apply xinv_arm; [exact I2|reflexivity|]. destruct (get (x_fut s2) (h_spid a)); [discriminate|reflexivity].
Qed.

Lemma xfuel_ok s l' : (cnt (x_fut (mkX l' (x_fut s) (x_hnd s) (x_seq s))) < xfuel s)%nat.
Proof. cbn [x_fut]. unfold xfuel. pose proof (cnt_le (x_fut s)). lia. Qed.

(* taking the entry t out of the array leaves a state in which its promise can be completed *)
Lemma xtake s l' t p : xinv s -> heap_ok l' -> e_p t = Some p -> Permutation (pending (x_sched s)) (t :: pending l') ->
  let s1 := mkX l' (x_fut s) (x_hnd s) (x_seq s) in
  xinv s1 /\ ~ In p (ppids (x_sched s1)) /\ get (x_fut s1) p = Some FPending.
Proof.
  intros [H ND PE] H' EP P. cbn zeta. cbn [x_sched x_fut].
  pose proof (ppids_take _ _ _ _ EP P) as PP.
  assert (NoDup (p :: ppids l')) as ND' by (eapply Permutation_NoDup; eassumption).
  inversion ND' as [|? ? NI' ND'']; subst.
  split; [|split].
  - split; cbn [x_sched x_fut]; auto. intros q IQ. apply PE. apply (Permutation_in _ (Permutation_sym PP)). right. exact IQ.
  - exact NI'.
  - apply PE. apply (Permutation_in _ (Permutation_sym PP)). left. reflexivity.
Qed.

Lemma xremove_ok s id v : xinv s -> is_pend (Some v) = false -> exists r, xremove s id v = Ok r /\ xinv (fst r).
Proof.
  intros I NV. unfold xremove.
  destruct (remove_ok (x_sched s) id (xi_heap s I)) as (l' & r & E & H' & _ & _ & SP). rewrite E. cbn [rbind fst snd].
  destruct r as [t|]; cbn [remove_spec] in SP.
  - destruct SP as (LT & _ & P). destruct (proj1 (live_some t) LT) as [p EP]. rewrite EP.
    destruct (xtake s l' t p I H' EP P) as (I1 & NI & G).
    destruct (xfire_ok (xfuel s) _ p v I1 NI G NV (xfuel_ok s l')) as (s' & E' & I').
    rewrite E'. cbn [rbind]. eexists. split; [reflexivity|exact I'].
  - destruct SP as (P & _). eexists. split; [reflexivity|]. cbn [fst]. apply xinv_same; auto.
Qed.

Lemma xfresh_none s p : xfresh s p = true -> get (x_fut s) (Z.to_nat p) = None.
Proof.
  intros Q. unfold xfresh in Q. apply andb_true_iff in Q. destruct Q as [_ Q]. destruct (get (x_fut s) (Z.to_nat p)); [discriminate|reflexivity].
Qed.

Local Opaque xfresh.

Lemma xstep_ok s o : xinv s -> exists r, xstep s o = Ok r /\ match r with Some (s', _) => xinv s' | None => True end.
Proof.
  intros I.
  pose proof (xfresh_none s) as FRESH.
  assert (forall id v, is_pend (Some v) = false ->
            exists r, (r0 <- xremove s id v ;; Ok (Some r0)) = Ok r /\ match r with Some (s', _) => xinv s' | None => True end) as RM.
  { intros id v NV. destruct (xremove_ok s id v I NV) as ([s' rr] & E & I'). rewrite E. cbn [rbind]. eexists. split; [reflexivity|exact I']. }
  unfold xstep.
  repeat match goal with
         | |- exists r, (if ?b then _ else _) = Ok r /\ _ => destruct b eqn:?
         | |- exists r, Ok None = Ok r /\ _ => exists None; auto
         | |- exists r, match ?x with _ => _ end = Ok r /\ _ =>
             match x with
             | get_expired _ _ => fail 1
             | rbind _ _ => fail 1
             | _ => destruct x
             end
         end; try (apply RM; reflexivity);
    try solve [ eexists; split; [reflexivity|]; cbn beta iota;
         repeat (apply andb_true_iff in Heqb; destruct Heqb as [Heqb ?]);
         apply xinv_arm; [exact I|reflexivity|apply FRESH; exact Heqb] ].
  (* get_expired *)
  match goal with |- context [get_expired (x_sched s) ?n] =>
    destruct (get_expired_ok (x_sched s) n (xi_heap s I)) as (l' & r & E & H' & _ & SP) end.
  rewrite E. cbn [rbind fst snd].
  destruct r as [t|tp|]; cbn [expired_spec] in SP.
  + destruct SP as (LT & _ & P & _). destruct (proj1 (live_some t) LT) as [p EP]. rewrite EP.
    destruct (xtake s l' t p I H' EP P) as (I1 & NI & G).
    destruct (xfire_ok (xfuel s) _ p FValue I1 NI G eq_refl (xfuel_ok s l')) as (s' & E' & I').
    rewrite E'. cbn [rbind]. eexists. split; [reflexivity|exact I'].
  + destruct SP as (_ & P & _). eexists. split; [reflexivity|]. apply xinv_same; auto.
  + destruct SP as (-> & EP). eexists. split; [reflexivity|]. apply xinv_same; auto using heap_ok_nil. rewrite EP. reflexivity.
Qed.

(* (no crash, no hang in the model) whatever callback sleepers are scheduled and however their handlers cancel and arm
   each other from inside a completion: every call returns an observation — no out-of-bounds access, no unbounded
   re-entry (the recursion is bounded by the number of pending promises) — one observation per op *)
Theorem tx_no_crash ops :
  length (tx_run ops) = length ops /\ Forall (fun ob => exists t, ob = 0 :: t \/ ob = 1 :: t) (tx_run ops).
Proof.
  unfold tx_run. pose proof xinv0 as I0. revert I0. generalize xst0.
  induction ops as [|o t IH]; intros s I; cbn [xrun_from]; [split; [reflexivity|constructor]|].
  destruct (xstep_ok s o I) as (r & E & I'). rewrite E.
  destruct r as [[s1 [r1 r2]]|].
  - destruct (IH s1 I') as (L & F). cbn [length]. split; [rewrite L; reflexivity|].
    constructor; [eexists; left; reflexivity|exact F].
  - destruct (IH s I) as (L & F). cbn [length]. split; [rewrite L; reflexivity|].
    constructor; [eexists; right; reflexivity|exact F].
Qed.
