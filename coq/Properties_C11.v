(* Properties_C11.v — C11: every submission to a thread pool runs once on a worker or is cancelled once.
   Statements only; proofs are `exact <lemma of PoolProofs>`.  `reachable ops s` ranges over every schedule of
   every pool size (1..4 workers in the wire format; the proofs do not use the bound), every number of client
   threads with every program of submissions (six kinds, job bodies that submit again or call stop() on their own
   pool) and explicit stop() calls, followed by the destructor.  cran / cdrop / ccanc count events, the places a
   closure can be in (queue, swapped-out list of a stop() in progress) are the real data structures of the model. *)
From Cocls Require Import Base BaseProofs PoolDefs PoolProofs PoolLive.

(* exactly-once as conservation: at every moment a closure is in exactly one of
   invoked | destroyed un-run | queued | swapped out by one stop() in progress *)
Theorem c11_exactly_one_place : forall ops s c x,
  reachable ops s -> nth_error (clos s) c = Some x ->
  cran x + cdrop x + cnt c (queue s) + sumq c (thrs s) = 1.
Proof. exact exactly_one_place. Qed.
Print Assumptions c11_exactly_one_place.

(* never executed twice, never executed and cancelled, never cancelled twice *)
Theorem c11_at_most_one_outcome : forall ops s c x,
  reachable ops s -> nth_error (clos s) c = Some x -> cran x + cdrop x <= 1.
Proof. exact at_most_one_outcome. Qed.
Print Assumptions c11_at_most_one_outcome.

(* when all threads have finished every submission has exactly one outcome *)
Theorem c11_exactly_one_outcome : forall ops s c x,
  reachable ops s -> terminal s -> nth_error (clos s) c = Some x -> cran x + cdrop x = 1.
Proof. exact exactly_one_outcome. Qed.
Print Assumptions c11_exactly_one_outcome.

(* a closure is invoked only on one of the pool's worker threads *)
Theorem c11_ran_on_worker : forall ops s c x,
  reachable ops s -> nth_error (clos s) c = Some x -> 1 <= cran x ->
  nclients s <= cran_on x < length (thrs s) /\ (forall p, T s (cran_on x) = Some p -> is_client p = false).
Proof. exact ran_on_worker. Qed.
Print Assumptions c11_ran_on_worker.

(* per kind: destruction of an un-run closure that owns its waiter (co_await pool, run(fn), run_detached,
   run(async)) delivers exactly one cancellation; a bare-handle closure delivers none *)
Theorem c11_cancel_observable : forall ops s c x,
  reachable ops s -> nth_error (clos s) c = Some x -> ccanc x = if owned (ck x) then cdrop x else 0.
Proof. exact cancel_observable. Qed.
Print Assumptions c11_cancel_observable.

(* nobody is left hanging (owning kinds): completed by a run or by one cancellation, never both *)
Theorem c11_no_forgotten_waiter : forall ops s c x,
  reachable ops s -> terminal s -> nth_error (clos s) c = Some x -> owned (ck x) = true -> cran x + ccanc x = 1.
Proof. exact no_forgotten_waiter. Qed.
Print Assumptions c11_no_forgotten_waiter.

(* ... and REFUTED for the bare-handle kinds, as the code is: resume(suspend_point) and co_await pool(awaitable)
   on a stopped pool end with the closure destroyed, nothing run, nothing cancelled (known finding F-C11) *)
Theorem c11_bare_handle_forgotten_refuted : exists ops s,
  reachable ops s /\ terminal s /\ forgotten s = true.
Proof. exact bare_handle_forgotten_refuted. Qed.
Print Assumptions c11_bare_handle_forgotten_refuted.

(* when everything has returned the destructor has run, every worker has left worker(), nothing is queued and
   no joinable thread is left: stop()/~thread_pool joined (or self-detached) every worker *)
Theorem c11_terminal_all_joined : forall ops s,
  reachable ops s -> terminal s ->
  destroyed s = true /\ exit_ s = true /\ queue s = [] /\ threads s = [] /\
  forall i p, T s i = Some p -> nclients s <= i -> p = WExit.
Proof. exact terminal_all_joined. Qed.
Print Assumptions c11_terminal_all_joined.

(* stop() and the destructor never deadlock, whatever the timing and whoever calls stop() (a client, the
   destructor, a job on one of the pool's own workers): every reachable state in which some thread has not
   finished has an enabled step (a thread at a lock, a sleeping worker with a wake-up token, a joiner whose
   target has exited, or the destructor whose lifetime precondition holds) *)
Theorem c11_stop_no_deadlock : forall ops s,
  reachable ops s -> ~ terminal s -> exists i, enabled s i = true.
Proof. exact stop_no_deadlock. Qed.
Print Assumptions c11_stop_no_deadlock.

(* non-vacuity: 2 workers, a job that stops its own pool while another client submits; the run reaches a
   terminal state in which one job ran on worker 2 and the other submissions were cancelled *)
Example c11_nonvacuous :
  let ops := [[1;2]; [2;0;2;2;0]; [2;1;0;0;0]; [2;1;5;1;3]; [9; 0;2;1;0;3;1;1;2;0;0]]%Z in
  let s := final_state ops in
  terminalb s = true /\ length (clos s) = 3 /\
  map (fun x => (cran x, cdrop x, ccanc x)) (clos s) = [(1,0,0); (0,1,1); (0,1,1)].
Proof. vm_compute. repeat split. Qed.
