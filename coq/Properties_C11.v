(* Properties_C11.v — C11: every submission to a thread pool runs once on a worker or is cancelled once; stop() and
   the destructor terminate and join all workers without deadlock for every timing.
   Statements only; proofs are `exact <lemma of PoolProofs / PoolLive>`.  `reachable ops s` ranges over every schedule
   of every pool size (1..4 workers in the wire format; the proofs do not use the bound), every number of client
   threads with every program of submissions (six kinds; job bodies = lists of pool operations: submit again,
   run_detached from a worker, stop() on the own pool, current::is_stopped / any_enqueued, co_await current()),
   explicit stop() calls and client threads calling worker(), followed by the destructor.  cran / cdrop / ccanc
   count events; the places a closure can be in (queue, swapped-out list of a stop() in progress) are the real data
   structures of the model.  The model describes thread_pool.h with the C11 fixes (run(async), resume(suspend_point),
   stop() waiting for a concurrent stop()). *)
From Cocls Require Import Base BaseProofs PoolDefs PoolProofs PoolLive PoolTerm.

(* exactly-once as conservation: at every moment a closure is in exactly one of
   invoked | destroyed un-run | queued | swapped out by one stop() in progress *)
Theorem c11_exactly_one_place : forall ops s c x,
  reachable ops s -> nth_error (clos s) c = Some x ->
  cran x + cdrop x + cnt c (queue s) + sumq c (thrs s) = 1.
Proof. exact exactly_one_place. Qed.
Print Assumptions c11_exactly_one_place.

(* never executed twice, never executed and cancelled, never cancelled twice *)
Theorem c11_at_most_one_outcome : forall ops s c x,
  reachable ops s -> nth_error (clos s) c = Some x -> cran x + cdrop x <= 1.
Proof. exact at_most_one_outcome. Qed.
Print Assumptions c11_at_most_one_outcome.

(* when all threads have finished every submission has exactly one outcome *)
Theorem c11_exactly_one_outcome : forall ops s c x,
  reachable ops s -> terminal s -> nth_error (clos s) c = Some x -> cran x + cdrop x = 1.
Proof. exact exactly_one_outcome. Qed.
Print Assumptions c11_exactly_one_outcome.

(* a closure is invoked only by a worker: a thread of the pool or a client thread that has called worker() *)
Theorem c11_ran_on_worker : forall ops s c x,
  reachable ops s -> nth_error (clos s) c = Some x -> 1 <= cran x ->
  cran_on x < length (thrs s) /\ (nclients s <= cran_on x \/ In (cran_on x) (extw s)).
Proof. exact ran_on_worker. Qed.
Print Assumptions c11_ran_on_worker.

(* destruction of an un-run closure delivers exactly one cancellation to its waiter, for every kind *)
Theorem c11_cancel_observable : forall ops s c x,
  reachable ops s -> nth_error (clos s) c = Some x -> ccanc x = cdrop x.
Proof. exact cancel_observable. Qed.
Print Assumptions c11_cancel_observable.

(* nobody is left hanging: every waiter is completed by a run or by one cancellation, never both *)
Theorem c11_no_forgotten_waiter : forall ops s c x,
  reachable ops s -> terminal s -> nth_error (clos s) c = Some x -> cran x + ccanc x = 1.
Proof. exact no_forgotten_waiter. Qed.
Print Assumptions c11_no_forgotten_waiter.

(* no thread ever starts a pool operation after ~thread_pool has returned; when it returns every thread of the
   pool has left worker(), every client call has returned, nothing is queued, no joinable thread is left *)
Theorem c11_no_use_after_destroy : forall ops s,
  reachable ops s ->
  uad s = false /\ (destroyed s = true -> terminal s /\ exit_ s = true /\ stopped s = true /\ queue s = [] /\ threads s = []).
Proof. exact no_use_after_destroy. Qed.
Print Assumptions c11_no_use_after_destroy.

Theorem c11_terminal_all_joined : forall ops s,
  reachable ops s -> terminal s ->
  destroyed s = true /\ exit_ s = true /\ queue s = [] /\ threads s = [] /\
  forall i p, T s i = Some p -> nclients s <= i -> p = WExit.
Proof. exact terminal_all_joined. Qed.
Print Assumptions c11_terminal_all_joined.

(* stop() and the destructor never deadlock, whatever the timing and whoever calls stop() (a client, the
   destructor, a job on one of the pool's own workers, several of them at once): every reachable state in which
   some thread has not finished has an enabled step — unless a client thread sits in worker() of an idle pool
   that nobody stops, which is a deadlock of the client program *)
Theorem c11_stop_no_deadlock : forall ops s,
  reachable ops s -> ~ terminal s -> (exists i, enabled s i = true) \/ user_stuck s.
Proof. exact stop_no_deadlock. Qed.
Print Assumptions c11_stop_no_deadlock.

(* every run is finite: from a reachable state no schedule can make more than mu s steps (mu: remaining client
   programs + job bodies + queued closures + pending wake-ups + join lists) *)
Theorem c11_runs_are_finite : forall ops s n s',
  reachable ops s -> steps s n s' -> n + mu s' <= mu s.
Proof. exact runs_are_finite. Qed.
Print Assumptions c11_runs_are_finite.

(* hence the run of every case file, under every schedule, ends with every thread finished: the destructor has
   joined all workers (or the client program deadlocked itself by leaving a thread in worker() of an idle pool) *)
Theorem c11_run_ends : forall ops, terminal (final_state ops) \/ user_stuck (final_state ops).
Proof. exact run_ends. Qed.
Print Assumptions c11_run_ends.

(* the model satisfies, at the end of every run, what the oracle demands of an implementation trace *)
Theorem c11_model_final_ok : forall ops, ~ user_stuck (final_state ops) ->
  let s := final_state ops in
  destroyed s = true /\ uad s = false /\ stuck_list (thrs s) 0 = [] /\
  forall c x, nth_error (clos s) c = Some x ->
    cran x + ccanc x = 1 /\ ccanc x = cdrop x /\
    wstate x = (if Nat.eqb (cran x) 1 then 1 else 2)%Z /\
    (cran x = 1 -> cran_on x < length (thrs s) /\ (nclients s <= cran_on x \/ In (cran_on x) (extw s))).
Proof. exact model_final_ok. Qed.
Print Assumptions c11_model_final_ok.

(* non-vacuity: 2 workers; a job that queries, hops to the current pool and then stops its own pool, while another
   client submits resume(suspend_point) and the destructor races with the job's stop(): the run reaches a terminal
   state, every closure has exactly one outcome *)
Example c11_nonvacuous :
  let ops := [[1;2]; [2;0;3;7;9;6]; [2;1;4]; [2;1;5;3]; [9; 0;2;1;0;3;1;1;2;0;0;3;3;1]]%Z in
  let s := final_state ops in
  terminalb s = true /\ length (clos s) = 4 /\
  forallb (fun x => Nat.eqb (cran x + ccanc x) 1) (clos s) = true /\ uad s = false.
Proof. vm_compute. repeat split. Qed.
