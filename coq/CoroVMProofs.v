(* CoroVMProofs.v — invariants of the CoroVM machine (CoroVMDefs.v) and the run-level theorems behind C05 / C04. *)
From Cocls Require Import Base CoroVMDefs.
Local Open Scope nat_scope.

(* ---------- generic helpers ---------- *)
Ltac break_match :=
  match goal with
  | |- context [match ?x with _ => _ end] => destruct x eqn:?
  end.
Ltac break_hyp H :=
  match type of H with
  | context [match ?x with _ => _ end] => destruct x eqn:?
  end.

Lemma steps_S : forall n s, steps (S n) s = step (steps n s).
Proof. induction n; intros; cbn [steps] in *; auto. Qed.

Section Reach.
  Variable P : st -> Prop.
  Hypothesis Pstep : forall s, P s -> P (step s).
  Lemma inv_steps : forall n s, P s -> P (steps n s).
  Proof. induction n; intros; cbn [steps]; auto. Qed.
End Reach.

(* ---------- frame lemmas for enq / enq_all ---------- *)
Lemma enq_all_fields : forall l s b w,
  prog (enq_all s l b w) = prog s /\ mainp (enq_all s l b w) = mainp s /\ cs (enq_all s l b w) = cs s /\
  fs (enq_all s l b w) = fs s /\ made (enq_all s l b w) = made s /\ active (enq_all s l b w) = active s /\
  stack (enq_all s l b w) = stack s /\ cur (enq_all s l b w) = cur s /\
  queue (enq_all s l b w) = queue s ++ l /\
  log (enq_all s l b w) = rev (map (fun c => EEnq c b w) l) ++ log s.
Proof.
  induction l as [|c t IH]; intros; cbn [enq_all].
  - cbn. rewrite app_nil_r. repeat split; reflexivity.
  - specialize (IH (enq s c b w) b w). destruct IH as (A1&A2&A3&A4&A5&A6&A7&A8&A9&A10).
    rewrite A1, A2, A3, A4, A5, A6, A7, A8, A9, A10. cbn.
    rewrite <- !app_assoc. cbn. repeat split; reflexivity.
Qed.

Ltac enq_all_rw :=
  repeat match goal with
  | |- context [prog (enq_all ?s ?l ?b ?w)] => rewrite (proj1 (enq_all_fields l s b w))
  | |- context [mainp (enq_all ?s ?l ?b ?w)] => rewrite (proj1 (proj2 (enq_all_fields l s b w)))
  | |- context [cs (enq_all ?s ?l ?b ?w)] => rewrite (proj1 (proj2 (proj2 (enq_all_fields l s b w))))
  | |- context [fs (enq_all ?s ?l ?b ?w)] => rewrite (proj1 (proj2 (proj2 (proj2 (enq_all_fields l s b w)))))
  | |- context [made (enq_all ?s ?l ?b ?w)] => rewrite (proj1 (proj2 (proj2 (proj2 (proj2 (enq_all_fields l s b w))))))
  | |- context [active (enq_all ?s ?l ?b ?w)] => rewrite (proj1 (proj2 (proj2 (proj2 (proj2 (proj2 (enq_all_fields l s b w)))))))
  | |- context [stack (enq_all ?s ?l ?b ?w)] => rewrite (proj1 (proj2 (proj2 (proj2 (proj2 (proj2 (proj2 (enq_all_fields l s b w))))))))
  | |- context [cur (enq_all ?s ?l ?b ?w)] => rewrite (proj1 (proj2 (proj2 (proj2 (proj2 (proj2 (proj2 (proj2 (enq_all_fields l s b w)))))))))
  | |- context [queue (enq_all ?s ?l ?b ?w)] => rewrite (proj1 (proj2 (proj2 (proj2 (proj2 (proj2 (proj2 (proj2 (proj2 (enq_all_fields l s b w))))))))))
  | |- context [log (enq_all ?s ?l ?b ?w)] => rewrite (proj2 (proj2 (proj2 (proj2 (proj2 (proj2 (proj2 (proj2 (proj2 (enq_all_fields l s b w))))))))))
  end.

(* ====================================================================================================
   1. Shape of the control state: who may be running when, and what normal code sees (C05 drain)
   ==================================================================================================== *)
Fixpoint wf_stack (k : list kframe) : Prop :=
  match k with
  | [] => False
  | [KInst _] => True
  | KNest _ :: t => wf_stack t
  | KInst _ :: _ :: _ => False
  end.

Definition idle_ok (e : event) : Prop :=
  match e with EIdle a q => a = false /\ q = 0 | _ => True end.

Definition shape (s : st) : Prop :=
  Forall idle_ok (log s) /\
  match cur s with
  | CMain | CEnd => active s = false /\ stack s = [] /\ queue s = []
  | CRun _ | CRet => active s = true /\ wf_stack (stack s)
  end.

Lemma shape_init : forall p m, shape (init p m).
Proof. intros. split; cbn; auto. Qed.

Ltac fin_shape :=
  cbn; enq_all_rw; cbn;
  repeat match goal with
         | |- _ /\ _ => split
         | |- Forall _ (_ :: _) => constructor
         | |- Forall _ (rev _ ++ _) => apply Forall_app; split
         | |- idle_ok _ => cbn; auto
         end; auto; try congruence.

Lemma Forall_idle_enq : forall l b w, Forall idle_ok (rev (map (fun c => EEnq c b w) l)).
Proof. intros. apply Forall_rev. apply Forall_forall. intros x H. apply in_map_iff in H. destruct H as (c&<-&_). cbn; auto. Qed.
#[local] Hint Resolve Forall_idle_enq : core.


Lemma shape_ev : forall s e, shape s -> idle_ok e -> shape (ev s e).
Proof. unfold shape; intros s e (L&H) I; cbn. split; [constructor; auto|exact H]. Qed.
Lemma shape_set_cs : forall s x, shape s -> shape (set_cs s x).
Proof. unfold shape; intros; cbn; auto. Qed.
Lemma shape_set_fs : forall s x, shape s -> shape (set_fs s x).
Proof. unfold shape; intros; cbn; auto. Qed.
Lemma shape_set_mainp : forall s x, shape s -> shape (set_mainp s x).
Proof. unfold shape; intros; cbn; auto. Qed.
Lemma shape_set_made : forall s x, shape s -> shape (set_made s x).
Proof. unfold shape; intros; cbn; auto. Qed.
Lemma shape_set_coro : forall s c x, shape s -> shape (set_coro s c x).
Proof. intros; apply shape_set_cs; auto. Qed.
Lemma shape_set_script : forall s c x, shape s -> shape (set_script s c x).
Proof. intros; apply shape_set_coro; auto. Qed.
Lemma shape_set_started : forall s c b, shape s -> shape (set_started s c b).
Proof. intros; apply shape_ev; [apply shape_set_coro; auto|cbn; auto]. Qed.
Lemma shape_bad : forall s me, shape s -> shape (bad s me).
Proof. intros; apply shape_ev; cbn; auto. Qed.
Lemma shape_make : forall s c, shape s -> shape (make s c).
Proof. intros; apply shape_ev; [apply shape_set_made, shape_set_coro; auto|cbn; auto]. Qed.
Lemma shape_ensure_made : forall s c, shape s -> shape (ensure_made s c).
Proof. intros; unfold ensure_made. repeat break_match; auto using shape_make. Qed.
#[local] Hint Resolve shape_ev shape_set_cs shape_set_fs shape_set_mainp shape_set_made shape_set_coro shape_set_script
  shape_set_started shape_bad shape_make shape_ensure_made : core.

Lemma cur_ensure_made : forall s c, cur (ensure_made s c) = cur s.
Proof. intros; unfold ensure_made. repeat break_match; reflexivity. Qed.

Definition in_code (s : st) : Prop := cur s = CMain \/ exists c, cur s = CRun c.

(* the running party enqueues / transfers: the shape is preserved *)
Lemma shape_run_from : forall s l b w x,
  shape s -> (exists c, cur s = CRun c) -> shape (run_c (enq_all s l b w) x).
Proof.
  unfold shape; intros s l b w x (L&H) (c&E). rewrite E in H. destruct H as (A&W).
  cbn. enq_all_rw. split; [constructor; [cbn; auto|apply Forall_app; split; auto]|auto].
Qed.

Lemma shape_enq_all : forall s l b w, shape s -> (exists c, cur s = CRun c) -> shape (enq_all s l b w).
Proof.
  unfold shape; intros s l b w (L&H) (c&E). enq_all_rw. rewrite E in *. split; [apply Forall_app; split; auto|auto].
Qed.


Lemma shape_run_c : forall s x, shape s -> (exists c, cur s = CRun c) -> shape (run_c s x).
Proof. intros. apply (shape_run_from s [] 0 0%Z x); auto. Qed.
Lemma shape_enq : forall s c b w, shape s -> (exists c, cur s = CRun c) -> shape (enq s c b w).
Proof. intros. change (enq s c b w) with (enq_all s [c] b w). apply shape_enq_all; auto. Qed.
Lemma cur_enq : forall s c b w, cur (enq s c b w) = cur s.
Proof. reflexivity. Qed.

Lemma shape_sp_dispose : forall s me hs aw,
  shape s -> in_code s -> (cur s = CMain -> aw = false) -> shape (sp_dispose s me hs aw).
Proof.
  intros s me hs aw S C M. unfold sp_dispose. destruct hs as [|h t]; [exact S|].
  destruct C as [C|(c&C)].
  - rewrite (M C). destruct S as (L&H). rewrite C in H. destruct H as (A&K&Q). rewrite A.
    unfold shape. cbn. rewrite K. cbn. auto.
  - destruct aw.
    + apply shape_run_c; [apply shape_enq; [apply shape_enq_all; [apply shape_ev; cbn; auto|]|]|].
      * exists c. exact C.
      * exists c. enq_all_rw. exact C.
      * exists c. rewrite cur_enq. enq_all_rw. exact C.
    + destruct S as (L&H). pose proof H as H'. rewrite C in H'. destruct H' as (A&W). rewrite A.
      apply shape_enq_all; [split; auto|exists c; exact C].
Qed.

Lemma in_code_ensure : forall s c, in_code s -> in_code (ensure_made s c).
Proof. unfold in_code; intros. rewrite cur_ensure_made. auto. Qed.


Definition not_idle (e : event) : Prop := match e with EIdle _ _ => False | _ => True end.
Lemma not_idle_ok : forall l, Forall not_idle l -> Forall idle_ok l.
Proof. intros l H. eapply Forall_impl; [|exact H]. intros e; destruct e; cbn; tauto. Qed.
Lemma not_idle_enqs : forall l b w, Forall not_idle (rev (map (fun c => EEnq c b w) l)).
Proof. intros. apply Forall_rev. apply Forall_forall. intros x H. apply in_map_iff in H. destruct H as (c&<-&_). exact I. Qed.

Lemma finish_effect : forall s c r,
  active (finish s c r) = active s /\ stack (finish s c r) = stack s /\
  (cur (finish s c r) = CRet \/ exists y, cur (finish s c r) = CRun y) /\
  exists evs, log (finish s c r) = evs ++ log s /\ Forall not_idle evs.
Proof.
  intros. unfold finish. destruct (bound (cs s c)) as [|f|p]; cbn [fst snd].
  - cbn. repeat split; auto. exists [EFree c; EFin c r]. split; [reflexivity|repeat constructor].
  - destruct (chain_of (fs (ev s (EFin c r)) f)) as [|h t] eqn:E.
    + cbn. repeat split; auto. exists [EFree c; EFin c r]. split; [reflexivity|repeat constructor].
    + unfold run_c. cbn. enq_all_rw. cbn. repeat split; eauto.
      exists (ERun (last (h :: t) 0) :: rev (map (fun c0 => EEnq c0 c why_final) (removelast (h :: t))) ++ [EFree c; EFin c r]). split.
      * cbn [app]. rewrite <- app_assoc. reflexivity.
      * constructor; [exact I|]. apply Forall_app; split; [apply not_idle_enqs|repeat constructor].
  - unfold run_c. cbn. repeat split; eauto.
    exists [ERun p; EFree c; EFin c r]. split; [reflexivity|repeat constructor].
Qed.

Lemma shape_finish : forall s c r, shape s -> (exists x, cur s = CRun x) -> shape (finish s c r).
Proof.
  intros s c r (L&H) (x&C). rewrite C in H. destruct H as (A&W).
  destruct (finish_effect s c r) as (E1&E2&E3&evs&E4&E5).
  unfold shape. rewrite E1, E2, E4. split; [apply Forall_app; split; auto using not_idle_ok|].
  destruct E3 as [-> | (y & ->)]; auto.
Qed.

Lemma run_of : forall s me, in_code s -> (cur s = CMain -> me = 0) -> Nat.eqb me 0 = false -> exists c, cur s = CRun c.
Proof. intros s me [C|C] M E; auto. rewrite (M C) in E. discriminate. Qed.

Lemma shape_cur_code : forall s c, shape s -> cur s = CRun c -> active s = true /\ wf_stack (stack s).
Proof. intros s c (L&H) C. rewrite C in H. exact H. Qed.
Lemma shape_cur_main : forall s, shape s -> cur s = CMain -> active s = false /\ stack s = [] /\ queue s = [].
Proof. intros s (L&H) C. rewrite C in H. exact H. Qed.

Lemma shape_exec : forall s me i, shape s -> in_code s -> (cur s = CMain -> me = 0) -> shape (exec s me i).
Proof.
  intros s me i S C M. destruct i; cbn [exec]; auto.
  - (* IEmit *) apply shape_ev; cbn; auto.
  - (* IPause *)
    destruct (Nat.eqb me 0) eqn:M0; auto.
    destruct (run_of s me C M M0) as (c&R). destruct (shape_cur_code s c S R) as (A&W).
    cbn. destruct (queue s ++ [me]) as [|x q] eqn:Q; [destruct (queue s); discriminate|].
    destruct S as (L&_). unfold shape. cbn. split; [repeat constructor; cbn; auto|auto].
  - (* IMake *) repeat break_match; auto.
  - (* IDrop *) break_match; auto. apply shape_ev; cbn; auto.
  - (* IDetach *)
    break_match; auto. apply shape_sp_dispose; auto.
    + unfold in_code. cbn. rewrite cur_ensure_made. exact C.
    + cbn. rewrite cur_ensure_made. intros E. rewrite (M E) in *. cbn in *.
      destruct aw; auto; rewrite ?orb_true_r in *; try discriminate.
  - (* IStart *)
    break_match; auto. break_match; auto.
    set (s0 := ensure_made s c) in *.
    assert (S0 : shape s0) by (subst s0; auto).
    assert (C0 : cur s0 = cur s) by (subst s0; apply cur_ensure_made).
    cbn. destruct (active s0) eqn:A.
    + destruct S0 as (L&H). unfold shape. cbn. rewrite C0 in H. split; [repeat constructor; cbn; auto|].
      destruct C as [C|(x&C)]; rewrite C in H; destruct H as (H1&H2); [congruence|]. split; auto.
    + destruct S0 as (L&H). unfold shape. cbn. rewrite C0 in H. split; [repeat constructor; cbn; auto|].
      destruct C as [C|(x&C)]; rewrite C in H; destruct H as (H1&H2); [|congruence]. destruct H2 as (H2&H3). rewrite H2. cbn. auto.
  - (* IStartP *)
    break_match; auto. break_match; auto.
    + destruct (claimed _); [apply shape_ev; cbn; auto|].
      apply shape_sp_dispose.
      * apply shape_ev; cbn; auto.
      * unfold in_code. cbn. rewrite cur_ensure_made. exact C.
      * cbn. rewrite cur_ensure_made. intros E. rewrite (M E) in *. cbn in *.
        destruct aw; auto; rewrite ?orb_true_r in *; try discriminate.
    + destruct (claimed _); [apply shape_ev; cbn; auto|].
      apply shape_sp_dispose.
      * apply shape_ev; cbn; auto.
      * unfold in_code. cbn. rewrite cur_ensure_made. exact C.
      * cbn. rewrite cur_ensure_made. intros E. rewrite (M E) in *. cbn in *.
        destruct aw; auto; rewrite ?orb_true_r in *; try discriminate.
  - (* ICoAwait *)
    destruct (Nat.eqb me 0) eqn:M0; auto.
    break_match; auto.
    destruct (run_of s me C M M0) as (x&R).
    apply shape_run_c; [apply shape_ev; [|cbn; auto]|].
    + apply shape_set_script. apply shape_set_started. auto.
    + exists x. cbn. rewrite cur_ensure_made. exact R.
  - (* IMkFut *) break_match; auto.
  - (* IResolve *)
    break_match; auto. break_match; auto.
    + destruct (claimed _); [apply shape_ev; cbn; auto|].
      apply shape_sp_dispose; [apply shape_ev; [apply shape_ev|]; cbn; auto|exact C|].
      cbn. intros E. rewrite (M E) in *. cbn in *. destruct aw; auto; try discriminate.
    + destruct (claimed _); [apply shape_ev; cbn; auto|].
      apply shape_sp_dispose; [apply shape_ev; [apply shape_ev|]; cbn; auto|exact C|].
      cbn. intros E. rewrite (M E) in *. cbn in *. destruct aw; auto; try discriminate.
  - (* IAwait *)
    destruct (Nat.eqb me 0) eqn:M0; auto.
    destruct (run_of s me C M M0) as (x&R). destruct (shape_cur_code s x S R) as (A&W).
    break_match; auto.
    + destruct S as (L&_). unfold shape. cbn. split; [repeat constructor; cbn; auto|auto].
    + apply shape_ev; cbn; auto.
  - (* IRet *)
    destruct (Nat.eqb me 0) eqn:M0; auto. apply shape_finish; auto. eapply run_of; eauto.
  - (* IThrow *)
    destruct (Nat.eqb me 0) eqn:M0; auto. apply shape_finish; auto. eapply run_of; eauto.
  - (* IGotF *) repeat break_match; auto; apply shape_ev; cbn; auto.
  - (* IGotC *) apply shape_ev; cbn; auto.
Qed.

Lemma shape_step_ret : forall s, shape s -> cur s = CRet -> shape (step_ret s).
Proof.
  intros s (L&H) C. rewrite C in H. destruct H as (A&W). unfold step_ret.
  destruct (stack s) as [|k rest] eqn:K; [destruct W|].
  destruct k as [hs|r].
  - destruct rest; [|destruct W]. destruct hs as [|h hs].
    + destruct (queue s) as [|x q] eqn:Q.
      * unfold shape. cbn. rewrite ?K, ?Q. cbn. split; [repeat constructor; cbn; auto|auto].
      * unfold shape. cbn. rewrite ?K, ?Q. cbn. split; [repeat constructor; cbn; auto|auto].
    + unfold shape. cbn. rewrite ?K. cbn. split; [repeat constructor; cbn; auto|auto].
  - unfold shape. cbn. rewrite ?K. cbn. split; [repeat constructor; cbn; auto|]. split; auto.
Qed.

Lemma shape_idle_if_main : forall s, shape s -> shape (idle_if_main s).
Proof.
  intros s S. unfold idle_if_main. destruct (cur s) eqn:C; auto.
  destruct (shape_cur_main s S C) as (A&K&Q). apply shape_ev; auto. rewrite A, Q. cbn. auto.
Qed.

Lemma shape_step : forall s, shape s -> shape (step s).
Proof.
  intros s S. unfold step. destruct (cur s) eqn:C.
  - destruct (mainp s) as [|i rest] eqn:P.
    + destruct (shape_cur_main s S C) as (A&K&Q). destruct S as (L&_).
      unfold shape. cbn. split; [constructor; cbn; auto|auto].
    + apply shape_idle_if_main. apply shape_exec; auto.
      * left. exact C.
  - destruct (script (cs s c)) as [|i rest] eqn:P.
    + apply shape_finish; eauto.
    + apply shape_exec; auto.
      * right. exists c. exact C.
      * cbn. rewrite C. discriminate.
  - apply shape_step_ret; auto.
  - exact S.
Qed.

Lemma shape_reach : forall p m n, shape (steps n (init p m)).
Proof. intros. apply inv_steps; [exact shape_step|apply shape_init]. Qed.

(* C05 drain: whenever normal code is in control the queue is empty and coroutine mode is off, and every
   is_active()/queue-length sample taken by normal code reads (false, 0) *)
Theorem drain : forall p m n,
  let s := steps n (init p m) in
  (cur s = CMain \/ cur s = CEnd -> active s = false /\ queue s = [] /\ stack s = []) /\
  (forall a q, In (EIdle a q) (trace s) -> a = false /\ q = 0) /\
  (forall c, cur s = CRun c -> active s = true).
Proof.
  intros p m n s. pose proof (shape_reach p m n) as (L&H). fold s in L, H. repeat split.
  - destruct H0 as [E|E]; rewrite E in H; tauto.
  - destruct H0 as [E|E]; rewrite E in H; tauto.
  - destruct H0 as [E|E]; rewrite E in H; tauto.
  - unfold trace in H0. apply in_rev in H0. rewrite Forall_forall in L. apply (L _ H0).
  - unfold trace in H0. apply in_rev in H0. rewrite Forall_forall in L. apply (L _ H0).
  - intros c E. rewrite E in H. tauto.
Qed.

(* ====================================================================================================
   2. FIFO: everything ever queued = everything dequeued so far ++ the queue (C05 fifo / each exactly once)
   ==================================================================================================== *)
(* chronological projections of a newest-first log *)
Fixpoint enqs (l : list event) : list nat :=
  match l with [] => [] | EEnq c _ _ :: t => enqs t ++ [c] | _ :: t => enqs t end.
Fixpoint deqs (l : list event) : list nat :=
  match l with [] => [] | EDeq c :: t => deqs t ++ [c] | _ :: t => deqs t end.

Definition q_event (e : event) : Prop := match e with EEnq _ _ _ | EDeq _ => True | _ => False end.

Definition fifo (s : st) : Prop := enqs (log s) = deqs (log s) ++ queue s.

Lemma fifo_ev : forall s e, fifo s -> ~ q_event e -> fifo (ev s e).
Proof. unfold fifo; intros s e F N; destruct e; cbn in *; auto; tauto. Qed.
Lemma fifo_set_cs : forall s x, fifo s -> fifo (set_cs s x). Proof. auto. Qed.
Lemma fifo_set_fs : forall s x, fifo s -> fifo (set_fs s x). Proof. auto. Qed.
Lemma fifo_set_mainp : forall s x, fifo s -> fifo (set_mainp s x). Proof. auto. Qed.
Lemma fifo_set_made : forall s x, fifo s -> fifo (set_made s x). Proof. auto. Qed.
Lemma fifo_set_cur : forall s x, fifo s -> fifo (set_cur s x). Proof. auto. Qed.
Lemma fifo_set_stack : forall s x, fifo s -> fifo (set_stack s x). Proof. auto. Qed.
Lemma fifo_set_active : forall s x, fifo s -> fifo (set_active s x). Proof. auto. Qed.
Lemma fifo_set_coro : forall s c x, fifo s -> fifo (set_coro s c x). Proof. auto. Qed.
Lemma fifo_set_script : forall s c x, fifo s -> fifo (set_script s c x). Proof. auto. Qed.
Lemma fifo_enq : forall s c b w, fifo s -> fifo (enq s c b w).
Proof. unfold fifo; intros; cbn. rewrite H, app_assoc. reflexivity. Qed.
Lemma fifo_enq_all : forall l s b w, fifo s -> fifo (enq_all s l b w).
Proof. induction l; intros; cbn [enq_all]; auto using fifo_enq. Qed.
Lemma fifo_run_c : forall s x, fifo s -> fifo (run_c s x).
Proof. intros. unfold run_c. apply fifo_set_cur, fifo_ev; cbn; auto. Qed.
Lemma fifo_deq : forall s x q, fifo s -> queue s = x :: q -> fifo (ev (set_queue s q) (EDeq x)).
Proof. unfold fifo; intros s x q F Q; cbn. rewrite F, Q, <- app_assoc. reflexivity. Qed.
Lemma fifo_set_started : forall s c b, fifo s -> fifo (set_started s c b).
Proof. intros. apply fifo_ev; cbn; auto. Qed.
Lemma fifo_bad : forall s me, fifo s -> fifo (bad s me).
Proof. intros. apply fifo_ev; cbn; auto. Qed.
Lemma fifo_make : forall s c, fifo s -> fifo (make s c).
Proof. intros. apply fifo_ev; cbn; auto. Qed.
Lemma fifo_ensure_made : forall s c, fifo s -> fifo (ensure_made s c).
Proof. intros; unfold ensure_made. repeat break_match; auto using fifo_make. Qed.
#[local] Hint Resolve fifo_set_cs fifo_set_fs fifo_set_mainp fifo_set_made fifo_set_cur fifo_set_stack fifo_set_active
  fifo_set_coro fifo_set_script fifo_enq fifo_enq_all fifo_run_c fifo_set_started fifo_bad fifo_make fifo_ensure_made : core.

Ltac fifo_ev_tac := repeat (apply fifo_ev; [|cbn; tauto]); auto.

Lemma fifo_sp_dispose : forall s me hs aw, fifo s -> fifo (sp_dispose s me hs aw).
Proof.
  intros. unfold sp_dispose. destruct hs; auto. destruct aw.
  - apply fifo_run_c, fifo_enq, fifo_enq_all. fifo_ev_tac.
  - destruct (active s); auto.
Qed.

Lemma fifo_finish : forall s c r, fifo s -> fifo (finish s c r).
Proof.
  intros. unfold finish. destruct (bound (cs s c)); cbn [fst snd].
  - apply fifo_set_cur. fifo_ev_tac.
  - destruct (chain_of _).
    + apply fifo_set_cur. fifo_ev_tac.
    + apply fifo_run_c, fifo_enq_all. fifo_ev_tac.
  - apply fifo_run_c, fifo_enq_all. fifo_ev_tac.
Qed.
#[local] Hint Resolve fifo_sp_dispose fifo_finish : core.

Lemma fifo_exec : forall s me i, fifo s -> fifo (exec s me i).
Proof.
  intros s me i F. destruct i; cbn [exec].
  - fifo_ev_tac.
  - destruct (Nat.eqb me 0); auto.
    assert (F1 : fifo (enq (ev s (ESusp me)) me me why_pause)) by (apply fifo_enq; fifo_ev_tac).
    destruct (queue (enq (ev s (ESusp me)) me me why_pause)) as [|x q] eqn:Q; auto.
    apply fifo_run_c. apply fifo_deq; auto.
  - repeat break_match; auto.
  - break_match; auto; fifo_ev_tac.
  - break_match; auto.
  - repeat break_match; auto; fifo_ev_tac.
  - repeat break_match; auto; try (apply fifo_sp_dispose); fifo_ev_tac.
  - repeat break_match; auto. apply fifo_run_c. fifo_ev_tac.
  - break_match; auto.
  - repeat break_match; auto; try (apply fifo_sp_dispose); fifo_ev_tac.
  - repeat break_match; auto; try apply fifo_set_cur; fifo_ev_tac.
  - break_match; auto.
  - break_match; auto.
  - repeat break_match; auto; fifo_ev_tac.
  - fifo_ev_tac.
  - auto.
Qed.

Lemma fifo_step : forall s, fifo s -> fifo (step s).
Proof.
  intros s F. unfold step. destruct (cur s).
  - destruct (mainp s); [apply fifo_set_cur; fifo_ev_tac|].
    unfold idle_if_main. break_match; auto using fifo_exec. apply fifo_ev; [apply fifo_exec; auto|cbn; tauto].
  - destruct (script (cs s c)); auto using fifo_exec.
  - unfold step_ret. destruct (stack s) as [|[hs|r] rest]; auto.
    + destruct hs as [|h hs]; [|apply fifo_run_c; auto]. destruct (queue s) eqn:Q.
      * apply fifo_ev; [|cbn; tauto]. apply fifo_set_cur, fifo_set_stack, fifo_set_active. exact F.
      * apply fifo_run_c. apply fifo_deq; auto.
  - exact F.
Qed.

(* C05 fifo: at every moment of every run the ready queue holds exactly the queued-but-not-yet-dequeued coroutines,
   in queueing order; hence the dequeue order is a prefix of the enqueue order *)
Theorem fifo_reach : forall p m n, let s := steps n (init p m) in enqs (log s) = deqs (log s) ++ queue s.
Proof. intros. apply (inv_steps fifo fifo_step). reflexivity. Qed.


(* ====================================================================================================
   3. The log only grows (needed to speak about "the events after this point")
   ==================================================================================================== *)
Section Ext.
Variable s0 : st.
Definition ext (s : st) : Prop := exists evs, log s = evs ++ log s0.
Lemma ext_ev : forall s e, ext s -> ~ q_event e -> ext (ev s e).
Proof. intros s e (l&F) _. exists (e :: l). cbn. rewrite F. reflexivity. Qed.
Lemma ext_set_cs : forall s x, ext s -> ext (set_cs s x). Proof. auto. Qed.
Lemma ext_set_fs : forall s x, ext s -> ext (set_fs s x). Proof. auto. Qed.
Lemma ext_set_mainp : forall s x, ext s -> ext (set_mainp s x). Proof. auto. Qed.
Lemma ext_set_made : forall s x, ext s -> ext (set_made s x). Proof. auto. Qed.
Lemma ext_set_cur : forall s x, ext s -> ext (set_cur s x). Proof. auto. Qed.
Lemma ext_set_stack : forall s x, ext s -> ext (set_stack s x). Proof. auto. Qed.
Lemma ext_set_active : forall s x, ext s -> ext (set_active s x). Proof. auto. Qed.
Lemma ext_set_coro : forall s c x, ext s -> ext (set_coro s c x). Proof. auto. Qed.
Lemma ext_set_script : forall s c x, ext s -> ext (set_script s c x). Proof. auto. Qed.
Lemma ext_enq : forall s c b w, ext s -> ext (enq s c b w).
Proof. intros s c b w (l&F). exists (EEnq c b w :: l). cbn. rewrite F. reflexivity. Qed.
Lemma ext_enq_all : forall l s b w, ext s -> ext (enq_all s l b w).
Proof. induction l; intros; cbn [enq_all]; auto using ext_enq. Qed.
Lemma ext_run_c : forall s x, ext s -> ext (run_c s x).
Proof. intros. unfold run_c. apply ext_set_cur, ext_ev; cbn; auto. Qed.
Lemma ext_deq : forall s x q, ext s -> queue s = x :: q -> ext (ev (set_queue s q) (EDeq x)).
Proof. intros s x q (l&F) _. exists (EDeq x :: l). cbn. rewrite F. reflexivity. Qed.
Lemma ext_set_started : forall s c b, ext s -> ext (set_started s c b).
Proof. intros. apply ext_ev; cbn; auto. Qed.
Lemma ext_bad : forall s me, ext s -> ext (bad s me).
Proof. intros. apply ext_ev; cbn; auto. Qed.
Lemma ext_make : forall s c, ext s -> ext (make s c).
Proof. intros. apply ext_ev; cbn; auto. Qed.
Lemma ext_ensure_made : forall s c, ext s -> ext (ensure_made s c).
Proof. intros; unfold ensure_made. repeat break_match; auto using ext_make. Qed.
#[local] Hint Resolve ext_set_cs ext_set_fs ext_set_mainp ext_set_made ext_set_cur ext_set_stack ext_set_active
  ext_set_coro ext_set_script ext_enq ext_enq_all ext_run_c ext_set_started ext_bad ext_make ext_ensure_made : core.

Ltac ext_ev_tac := repeat (apply ext_ev; [|cbn; tauto]); auto.

Lemma ext_sp_dispose : forall s me hs aw, ext s -> ext (sp_dispose s me hs aw).
Proof.
  intros. unfold sp_dispose. destruct hs; auto. destruct aw.
  - apply ext_run_c, ext_enq, ext_enq_all. ext_ev_tac.
  - destruct (active s); auto.
Qed.

Lemma ext_finish : forall s c r, ext s -> ext (finish s c r).
Proof.
  intros. unfold finish. destruct (bound (cs s c)); cbn [fst snd].
  - apply ext_set_cur. ext_ev_tac.
  - destruct (chain_of _).
    + apply ext_set_cur. ext_ev_tac.
    + apply ext_run_c, ext_enq_all. ext_ev_tac.
  - apply ext_run_c, ext_enq_all. ext_ev_tac.
Qed.
#[local] Hint Resolve ext_sp_dispose ext_finish : core.

Lemma ext_exec : forall s me i, ext s -> ext (exec s me i).
Proof.
  intros s me i F. destruct i; cbn [exec].
  - ext_ev_tac.
  - destruct (Nat.eqb me 0); auto.
    assert (F1 : ext (enq (ev s (ESusp me)) me me why_pause)) by (apply ext_enq; ext_ev_tac).
    destruct (queue (enq (ev s (ESusp me)) me me why_pause)) as [|x q] eqn:Q; auto.
    apply ext_run_c. apply ext_deq; auto.
  - repeat break_match; auto.
  - break_match; auto; ext_ev_tac.
  - break_match; auto.
  - repeat break_match; auto; ext_ev_tac.
  - repeat break_match; auto; try (apply ext_sp_dispose); ext_ev_tac.
  - repeat break_match; auto. apply ext_run_c. ext_ev_tac.
  - break_match; auto.
  - repeat break_match; auto; try (apply ext_sp_dispose); ext_ev_tac.
  - repeat break_match; auto; try apply ext_set_cur; ext_ev_tac.
  - break_match; auto.
  - break_match; auto.
  - repeat break_match; auto; ext_ev_tac.
  - ext_ev_tac.
  - auto.
Qed.

Lemma ext_step : forall s, ext s -> ext (step s).
Proof.
  intros s F. unfold step. destruct (cur s).
  - destruct (mainp s); [apply ext_set_cur; ext_ev_tac|].
    unfold idle_if_main. break_match; auto using ext_exec. apply ext_ev; [apply ext_exec; auto|cbn; tauto].
  - destruct (script (cs s c)); auto using ext_exec.
  - unfold step_ret. destruct (stack s) as [|[hs|r] rest]; auto.
    + destruct hs as [|h hs]; [|apply ext_run_c; auto]. destruct (queue s) eqn:Q.
      * apply ext_ev; [|cbn; tauto]. apply ext_set_cur, ext_set_stack, ext_set_active. exact F.
      * apply ext_run_c. apply ext_deq; auto.
    + apply ext_set_cur. ext_ev_tac.
  - exact F.
Qed.


End Ext.

Lemma log_grows : forall n s, exists evs, log (steps n s) = evs ++ log s.
Proof.
  induction n; intros; cbn [steps].
  - exists []. reflexivity.
  - destruct (IHn (step s)) as (e1&E1). destruct (ext_step s s) as (e2&E2); [exists []; reflexivity|].
    exists (e1 ++ e2). rewrite E1, E2, app_assoc. reflexivity.
Qed.

Lemma enqs_app : forall a b, enqs (a ++ b) = enqs b ++ enqs a.
Proof. induction a as [|e a IH]; intros; cbn; [rewrite app_nil_r; auto|]. destruct e; auto. rewrite IH, app_assoc. reflexivity. Qed.
Lemma deqs_app : forall a b, deqs (a ++ b) = deqs b ++ deqs a.
Proof. induction a as [|e a IH]; intros; cbn; [rewrite app_nil_r; auto|]. destruct e; auto. rewrite IH, app_assoc. reflexivity. Qed.

Lemma fifo_steps : forall n s, fifo s -> fifo (steps n s).
Proof. intros. apply inv_steps; auto using fifo_step. Qed.

(* continuing any run from s: (queue now ++ whatever is queued later) leaves the queue in exactly that order *)
Theorem fifo_future : forall n s, fifo s ->
  exists evs, log (steps n s) = evs ++ log s /\ queue s ++ enqs evs = deqs evs ++ queue (steps n s).
Proof.
  intros n s F. destruct (log_grows n s) as (evs&E). exists evs. split; [exact E|].
  pose proof (fifo_steps n s F) as F'. unfold fifo in *. rewrite E, enqs_app, deqs_app, F in F'.
  rewrite <- !app_assoc in F'. apply app_inv_head in F'. exact F'.
Qed.

(* ---------- step-level transcriptions used by C05 ---------- *)
(* co_await pause(): self to the tail, the head of the queue runs next (self if the queue was empty) *)
Theorem pause_step : forall s r rest,
  cur s = CRun r -> r <> 0 -> script (cs s r) = IPause :: rest ->
  let x := hd r (queue s ++ [r]) in
  queue (step s) = tl (queue s ++ [r]) /\ cur (step s) = CRun x /\
  log (step s) = ERun x :: EDeq x :: EEnq r r why_pause :: ESusp r :: log s /\
  script (cs (step s) r) = rest.
Proof.
  intros s r rest C N S x. unfold step. rewrite C, S. cbn [exec].
  destruct (Nat.eqb_neq r 0) as (_&H). rewrite (H N). cbn.
  subst x. destruct (queue s ++ [r]) as [|y q] eqn:Q; [destruct (queue s); discriminate|].
  cbn. unfold upd. rewrite Nat.eqb_refl. cbn. auto.
Qed.

(* co_await on a non-empty suspend point: the LAST handle runs by symmetric transfer, the others and then the awaiting
   coroutine are appended to the queue in order *)
Theorem await_sp_step : forall s me h t,
  let hs := h :: t in
  let s' := sp_dispose s me hs true in
  queue s' = queue s ++ removelast hs ++ [me] /\ cur s' = CRun (last hs 0) /\
  log s' = ERun (last hs 0) :: EEnq me me why_self :: rev (map (fun c => EEnq c me why_spawait) (removelast hs)) ++ ESusp me :: log s.
Proof.
  intros. subst s'. unfold sp_dispose. subst hs. cbn [run_c enq]. cbn. enq_all_rw. cbn.
  rewrite <- app_assoc. auto.
Qed.

(* a discarded suspend point in coroutine mode: everything is appended in order, nobody runs, the caller goes on *)
Theorem discard_sp_step : forall s me hs,
  active s = true ->
  let s' := sp_dispose s me hs false in
  queue s' = queue s ++ hs /\ cur s' = cur s /\ stack s' = stack s /\
  log s' = rev (map (fun c => EEnq c me why_discard) hs) ++ log s.
Proof.
  intros s me hs A s'. subst s'. unfold sp_dispose. destruct hs as [|h t].
  - cbn. rewrite app_nil_r. auto.
  - rewrite A. enq_all_rw. auto.
Qed.

(* a discarded suspend point in normal mode: queue installed, handles resumed one by one in order, then the flush *)
Theorem discard_sp_normal : forall s me h t,
  active s = false ->
  let s' := sp_dispose s me (h :: t) false in
  active s' = true /\ stack s' = KInst (h :: t) :: stack s /\ cur s' = CRet /\ log s' = log s /\
  cur (step s') = CRun h /\ stack (step s') = KInst t :: stack s.
Proof. intros s me h t A s'. subst s'. unfold sp_dispose. rewrite A. cbn. repeat split; reflexivity. Qed.

(* ====================================================================================================
   4. C04, step level: where the result of a finished body goes, failed start(promise), unstarted frames
   ==================================================================================================== *)
Lemma upd_same : forall A (m : nat -> A) k v, upd m k v k = v.
Proof. intros. unfold upd. rewrite Nat.eqb_refl. reflexivity. Qed.
Lemma upd_other : forall A (m : nat -> A) k v x, x <> k -> upd m k v x = m x.
Proof. intros. unfold upd. destruct (Nat.eqb_neq x k) as (_&H'). rewrite (H' H). reflexivity. Qed.

(* the body of c ends with r: r is stored in exactly the bound cell, the frame is destroyed once (one EFree, status Done),
   and control goes to the party waiting for that cell — to nobody when detached *)
Theorem finish_delivery : forall s c r,
  let s' := finish s c r in
  stat (cs s' c) = Done /\ result (cs s' c) = r /\ script (cs s' c) = [] /\
  (forall k, k <> c -> cs s' k = cs s k) /\
  match bound (cs s c) with
  | BNone => fs s' = fs s /\ queue s' = queue s /\ cur s' = CRet /\ log s' = EFree c :: EFin c r :: log s
  | BFut f =>
      fstt (fs s' f) = FReady r /\ (forall g, g <> f -> fs s' g = fs s g) /\
      queue s' = queue s ++ removelast (chain_of (fs s f)) /\
      cur s' = match chain_of (fs s f) with [] => CRet | ch => CRun (last ch 0) end
  | BParent p =>
      fs s' = fs s /\ queue s' = queue s /\ cur s' = CRun p /\ log s' = ERun p :: EFree c :: EFin c r :: log s
  end.
Proof.
  intros s c r s'. subst s'. unfold finish. destruct (bound (cs s c)) as [|f|p] eqn:B; cbn [fst snd].
  - cbn. rewrite upd_same. cbn. repeat split; auto. intros; apply upd_other; auto.
  - destruct (chain_of (fs (ev s (EFin c r)) f)) as [|h t] eqn:E; cbn in E; rewrite E.
    + cbn. rewrite !upd_same. cbn. rewrite app_nil_r. repeat split; auto; intros; apply upd_other; auto.
    + unfold run_c. cbn. enq_all_rw. cbn. rewrite !upd_same. cbn. repeat split; auto; intros; apply upd_other; auto.
  - unfold run_c. cbn. rewrite upd_same. cbn. repeat split; auto. intros; apply upd_other; auto.
Qed.

(* the parent resumed by a finished child reads exactly the child's result *)
Theorem coawait_delivery : forall s p c rest,
  cur s = CRun p -> script (cs s p) = IGotC c :: rest ->
  log (step s) = EGot p (2 * c + 1) (result (cs s c)) :: log s /\ cur (step s) = CRun p.
Proof.
  intros s p c rest C S. unfold step. rewrite C, S. cbn. split; auto. unfold upd.
  destruct (Nat.eqb c p) eqn:E; auto. apply Nat.eqb_eq in E. subst c. reflexivity.
Qed.

(* start(promise) on an already claimed promise: returns false, nothing is bound, nothing runs, the handle stays in the
   async<T> object (status Created) *)
Theorem start_claimed_promise : forall s me c f aw,
  is_created s c = true -> fstt (fs s f) <> FNone -> claimed (fs s f) = true -> (aw && Nat.eqb me 0 = false) ->
  let s' := exec s me (IStartP c f aw) in
  log s' = ERetB me false :: log s /\ cs s' = cs s /\ fs s' = fs s /\ queue s' = queue s /\ cur s' = cur s /\
  stack s' = stack s /\ is_created s' c = true.
Proof.
  intros s me c f aw K F Cl A s'. subst s'. cbn [exec].
  assert (E : ensure_made s c = s).
  { unfold ensure_made. unfold is_created in K. destruct (stat (cs s c)); try discriminate; reflexivity. }
  rewrite E, K, A. cbn. destruct (fstt (fs s f)) eqn:FS; [congruence| |]; rewrite Cl; cbn; repeat split; auto.
Qed.

(* ... and the destructor of that async<T> (or of any never-started one) destroys the frame: exactly one EFree, no Run *)
Theorem drop_unstarted : forall s me c,
  is_created s c = true ->
  let s' := exec s me (IDrop c) in
  log s' = EFree c :: log s /\ stat (cs s' c) = Done /\ cur s' = cur s /\ queue s' = queue s /\ fs s' = fs s /\
  is_created s' c = false.
Proof.
  intros s me c K s'. subst s'. cbn [exec]. rewrite K. cbn. unfold is_created. cbn. rewrite upd_same. cbn. repeat split; auto.
Qed.

(* a successful start(promise) binds the coroutine to exactly that promise's future and claims it *)
Theorem start_free_promise : forall s me c f,
  is_created s c = true -> fstt (fs s f) <> FNone -> claimed (fs s f) = false -> active s = true ->
  let s' := exec s me (IStartP c f false) in
  bound (cs s' c) = BFut f /\ stat (cs s' c) = Started /\ claimed (fs s' f) = true /\ fstt (fs s' f) = fstt (fs s f) /\
  queue s' = queue s ++ [c] /\ cur s' = cur s /\
  log s' = EEnq c me why_discard :: ERetB me true :: EBind c (BFut f) :: log s.
Proof.
  intros s me c f K F Cl A s'. subst s'. cbn [exec].
  assert (E : ensure_made s c = s).
  { unfold ensure_made. unfold is_created in K. destruct (stat (cs s c)); try discriminate; reflexivity. }
  rewrite E, K. cbn. destruct (fstt (fs s f)) eqn:FS; [congruence| |]; rewrite Cl; unfold sp_dispose; cbn; rewrite A; cbn;
    rewrite !upd_same; cbn; repeat split; auto.
Qed.
