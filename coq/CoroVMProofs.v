(* CoroVMProofs.v — invariants of the CoroVM machine (CoroVMDefs.v) and the run-level theorems behind C05 / C04. *)
From Cocls Require Import Base CoroVMDefs.
Local Open Scope nat_scope.

(* ---------- generic helpers ---------- *)
Ltac break_match :=
  match goal with
  | |- context [match ?x with _ => _ end] => destruct x eqn:?
  end.
Ltac break_hyp H :=
  match type of H with
  | context [match ?x with _ => _ end] => destruct x eqn:?
  end.

Lemma steps_S : forall n s, steps (S n) s = step (steps n s).
Proof. induction n; intros; cbn [steps] in *; auto. Qed.

Section Reach.
  Variable P : st -> Prop.
  Hypothesis Pstep : forall s, P s -> P (step s).
  Lemma inv_steps : forall n s, P s -> P (steps n s).
  Proof. induction n; intros; cbn [steps]; auto. Qed.
End Reach.

(* ---------- frame lemmas for enq / enq_all ---------- *)
Lemma enq_all_fields : forall l s b w,
  prog (enq_all s l b w) = prog s /\ mainp (enq_all s l b w) = mainp s /\ cs (enq_all s l b w) = cs s /\
  fs (enq_all s l b w) = fs s /\ made (enq_all s l b w) = made s /\ active (enq_all s l b w) = active s /\
  stack (enq_all s l b w) = stack s /\ cur (enq_all s l b w) = cur s /\
  queue (enq_all s l b w) = queue s ++ l /\
  log (enq_all s l b w) = rev (map (fun c => EEnq c b w) l) ++ log s.
Proof.
  induction l as [|c t IH]; intros; cbn [enq_all].
  - cbn. rewrite app_nil_r. repeat split; reflexivity.
  - specialize (IH (enq s c b w) b w). destruct IH as (A1&A2&A3&A4&A5&A6&A7&A8&A9&A10).
    rewrite A1, A2, A3, A4, A5, A6, A7, A8, A9, A10. cbn.
    rewrite <- !app_assoc. cbn. repeat split; reflexivity.
Qed.

Ltac enq_all_rw :=
  repeat match goal with
  | |- context [prog (enq_all ?s ?l ?b ?w)] => rewrite (proj1 (enq_all_fields l s b w))
  | |- context [mainp (enq_all ?s ?l ?b ?w)] => rewrite (proj1 (proj2 (enq_all_fields l s b w)))
  | |- context [cs (enq_all ?s ?l ?b ?w)] => rewrite (proj1 (proj2 (proj2 (enq_all_fields l s b w))))
  | |- context [fs (enq_all ?s ?l ?b ?w)] => rewrite (proj1 (proj2 (proj2 (proj2 (enq_all_fields l s b w)))))
  | |- context [made (enq_all ?s ?l ?b ?w)] => rewrite (proj1 (proj2 (proj2 (proj2 (proj2 (enq_all_fields l s b w))))))
  | |- context [active (enq_all ?s ?l ?b ?w)] => rewrite (proj1 (proj2 (proj2 (proj2 (proj2 (proj2 (enq_all_fields l s b w)))))))
  | |- context [stack (enq_all ?s ?l ?b ?w)] => rewrite (proj1 (proj2 (proj2 (proj2 (proj2 (proj2 (proj2 (enq_all_fields l s b w))))))))
  | |- context [cur (enq_all ?s ?l ?b ?w)] => rewrite (proj1 (proj2 (proj2 (proj2 (proj2 (proj2 (proj2 (proj2 (enq_all_fields l s b w)))))))))
  | |- context [queue (enq_all ?s ?l ?b ?w)] => rewrite (proj1 (proj2 (proj2 (proj2 (proj2 (proj2 (proj2 (proj2 (proj2 (enq_all_fields l s b w))))))))))
  | |- context [log (enq_all ?s ?l ?b ?w)] => rewrite (proj2 (proj2 (proj2 (proj2 (proj2 (proj2 (proj2 (proj2 (proj2 (enq_all_fields l s b w))))))))))
  end.

(* ====================================================================================================
   1. Shape of the control state: who may be running when, and what normal code sees (C05 drain)
   ==================================================================================================== *)
Fixpoint wf_stack (k : list kframe) : Prop :=
  match k with
  | [] => False
  | [KInst _] => True
  | KNest _ :: t => wf_stack t
  | KInst _ :: _ :: _ => False
  end.

Definition idle_ok (e : event) : Prop :=
  match e with EIdle a q => a = false /\ q = 0 | _ => True end.

Definition shape (s : st) : Prop :=
  Forall idle_ok (log s) /\
  match cur s with
  | CMain | CEnd => active s = false /\ stack s = [] /\ queue s = []
  | CRun _ | CRet => active s = true /\ wf_stack (stack s)
  end.

Lemma shape_init : forall p m, shape (init p m).
Proof. intros. split; cbn; auto. Qed.

Ltac fin_shape :=
  cbn; enq_all_rw; cbn;
  repeat match goal with
         | |- _ /\ _ => split
         | |- Forall _ (_ :: _) => constructor
         | |- Forall _ (rev _ ++ _) => apply Forall_app; split
         | |- idle_ok _ => cbn; auto
         end; auto; try congruence.

Lemma Forall_idle_enq : forall l b w, Forall idle_ok (rev (map (fun c => EEnq c b w) l)).
Proof. intros. apply Forall_rev. apply Forall_forall. intros x H. apply in_map_iff in H. destruct H as (c&<-&_). cbn; auto. Qed.
#[local] Hint Resolve Forall_idle_enq : core.


Lemma shape_ev : forall s e, shape s -> idle_ok e -> shape (ev s e).
Proof. unfold shape; intros s e (L&H) I; cbn. split; [constructor; auto|exact H]. Qed.
Lemma shape_set_cs : forall s x, shape s -> shape (set_cs s x).
Proof. unfold shape; intros; cbn; auto. Qed.
Lemma shape_set_fs : forall s x, shape s -> shape (set_fs s x).
Proof. unfold shape; intros; cbn; auto. Qed.
Lemma shape_set_mainp : forall s x, shape s -> shape (set_mainp s x).
Proof. unfold shape; intros; cbn; auto. Qed.
Lemma shape_set_made : forall s x, shape s -> shape (set_made s x).
Proof. unfold shape; intros; cbn; auto. Qed.
Lemma shape_set_coro : forall s c x, shape s -> shape (set_coro s c x).
Proof. intros; apply shape_set_cs; auto. Qed.
Lemma shape_set_script : forall s c x, shape s -> shape (set_script s c x).
Proof. intros; apply shape_set_coro; auto. Qed.
Lemma shape_set_started : forall s c b, shape s -> shape (set_started s c b).
Proof. intros; apply shape_ev; [apply shape_set_coro; auto|cbn; auto]. Qed.
Lemma shape_bad : forall s me, shape s -> shape (bad s me).
Proof. intros; apply shape_ev; cbn; auto. Qed.
Lemma shape_make : forall s c, shape s -> shape (make s c).
Proof. intros; apply shape_ev; [apply shape_set_made, shape_set_coro; auto|cbn; auto]. Qed.
Lemma shape_ensure_made : forall s c, shape s -> shape (ensure_made s c).
Proof. intros; unfold ensure_made. repeat break_match; auto using shape_make. Qed.
#[local] Hint Resolve shape_ev shape_set_cs shape_set_fs shape_set_mainp shape_set_made shape_set_coro shape_set_script
  shape_set_started shape_bad shape_make shape_ensure_made : core.

Lemma cur_ensure_made : forall s c, cur (ensure_made s c) = cur s.
Proof. intros; unfold ensure_made. repeat break_match; reflexivity. Qed.

Definition in_code (s : st) : Prop := cur s = CMain \/ exists c, cur s = CRun c.

(* the running party enqueues / transfers: the shape is preserved *)
Lemma shape_run_from : forall s l b w x,
  shape s -> (exists c, cur s = CRun c) -> shape (run_c (enq_all s l b w) x).
Proof.
  unfold shape; intros s l b w x (L&H) (c&E). rewrite E in H. destruct H as (A&W).
  cbn. enq_all_rw. split; [constructor; [cbn; auto|apply Forall_app; split; auto]|auto].
Qed.

Lemma shape_enq_all : forall s l b w, shape s -> (exists c, cur s = CRun c) -> shape (enq_all s l b w).
Proof.
  unfold shape; intros s l b w (L&H) (c&E). enq_all_rw. rewrite E in *. split; [apply Forall_app; split; auto|auto].
Qed.


Lemma shape_run_c : forall s x, shape s -> (exists c, cur s = CRun c) -> shape (run_c s x).
Proof. intros. apply (shape_run_from s [] 0 0%Z x); auto. Qed.
Lemma shape_enq : forall s c b w, shape s -> (exists c, cur s = CRun c) -> shape (enq s c b w).
Proof. intros. change (enq s c b w) with (enq_all s [c] b w). apply shape_enq_all; auto. Qed.
Lemma cur_enq : forall s c b w, cur (enq s c b w) = cur s.
Proof. reflexivity. Qed.

Lemma shape_sp_dispose : forall s me hs aw,
  shape s -> in_code s -> (cur s = CMain -> aw = false) -> shape (sp_dispose s me hs aw).
Proof.
  intros s me hs aw S C M. unfold sp_dispose. destruct hs as [|h t]; [exact S|].
  destruct C as [C|(c&C)].
  - rewrite (M C). destruct S as (L&H). rewrite C in H. destruct H as (A&K&Q). rewrite A.
    unfold shape. cbn. rewrite K. cbn. auto.
  - destruct aw.
    + apply shape_run_c; [apply shape_enq; [apply shape_enq_all; [apply shape_ev; cbn; auto|]|]|].
      * exists c. exact C.
      * exists c. enq_all_rw. exact C.
      * exists c. rewrite cur_enq. enq_all_rw. exact C.
    + destruct S as (L&H). pose proof H as H'. rewrite C in H'. destruct H' as (A&W). rewrite A.
      apply shape_enq_all; [split; auto|exists c; exact C].
Qed.

Lemma in_code_ensure : forall s c, in_code s -> in_code (ensure_made s c).
Proof. unfold in_code; intros. rewrite cur_ensure_made. auto. Qed.


Definition not_idle (e : event) : Prop := match e with EIdle _ _ => False | _ => True end.
Lemma not_idle_ok : forall l, Forall not_idle l -> Forall idle_ok l.
Proof. intros l H. eapply Forall_impl; [|exact H]. intros e; destruct e; cbn; tauto. Qed.
Lemma not_idle_enqs : forall l b w, Forall not_idle (rev (map (fun c => EEnq c b w) l)).
Proof. intros. apply Forall_rev. apply Forall_forall. intros x H. apply in_map_iff in H. destruct H as (c&<-&_). exact I. Qed.

Lemma finish_effect : forall s c r,
  active (finish s c r) = active s /\ stack (finish s c r) = stack s /\
  (cur (finish s c r) = CRet \/ exists y, cur (finish s c r) = CRun y) /\
  exists evs, log (finish s c r) = evs ++ log s /\ Forall not_idle evs.
Proof.
  intros. unfold finish. destruct (bound (cs s c)) as [|f|p]; cbn [fst snd].
  - cbn. repeat split; auto. exists [EFree c; EFin c r]. split; [reflexivity|repeat constructor].
  - destruct (chain_of (fs (ev s (EFin c r)) f)) as [|h t] eqn:E.
    + cbn. repeat split; auto. exists [EFree c; EFin c r]. split; [reflexivity|repeat constructor].
    + unfold run_c. cbn. enq_all_rw. cbn. repeat split; eauto.
      exists (ERun (last (h :: t) 0) :: rev (map (fun c0 => EEnq c0 c why_final) (removelast (h :: t))) ++ [EFree c; EFin c r]). split.
      * cbn [app]. rewrite <- app_assoc. reflexivity.
      * constructor; [exact I|]. apply Forall_app; split; [apply not_idle_enqs|repeat constructor].
  - unfold run_c. cbn. repeat split; eauto.
    exists [ERun p; EFree c; EFin c r]. split; [reflexivity|repeat constructor].
Qed.

Lemma shape_finish : forall s c r, shape s -> (exists x, cur s = CRun x) -> shape (finish s c r).
Proof.
  intros s c r (L&H) (x&C). rewrite C in H. destruct H as (A&W).
  destruct (finish_effect s c r) as (E1&E2&E3&evs&E4&E5).
  unfold shape. rewrite E1, E2, E4. split; [apply Forall_app; split; auto using not_idle_ok|].
  destruct E3 as [-> | (y & ->)]; auto.
Qed.

Lemma run_of : forall s me, in_code s -> (cur s = CMain -> me = 0) -> Nat.eqb me 0 = false -> exists c, cur s = CRun c.
Proof. intros s me [C|C] M E; auto. rewrite (M C) in E. discriminate. Qed.

Lemma shape_cur_code : forall s c, shape s -> cur s = CRun c -> active s = true /\ wf_stack (stack s).
Proof. intros s c (L&H) C. rewrite C in H. exact H. Qed.
Lemma shape_cur_main : forall s, shape s -> cur s = CMain -> active s = false /\ stack s = [] /\ queue s = [].
Proof. intros s (L&H) C. rewrite C in H. exact H. Qed.

Lemma shape_exec : forall s me i, shape s -> in_code s -> (cur s = CMain -> me = 0) -> shape (exec s me i).
Proof.
  intros s me i S C M. destruct i; cbn [exec]; auto.
  - (* IEmit *) apply shape_ev; cbn; auto.
  - (* IPause *)
    destruct (Nat.eqb me 0) eqn:M0; auto.
    destruct (run_of s me C M M0) as (c&R). destruct (shape_cur_code s c S R) as (A&W).
    cbn. destruct (queue s ++ [me]) as [|x q] eqn:Q; [destruct (queue s); discriminate|].
    destruct S as (L&_). unfold shape. cbn. split; [repeat constructor; cbn; auto|auto].
  - (* IMake *) repeat break_match; auto.
  - (* IDrop *) break_match; auto. apply shape_ev; cbn; auto.
  - (* IDetach *)
    break_match; auto. apply shape_sp_dispose; auto.
    + unfold in_code. cbn. rewrite cur_ensure_made. exact C.
    + cbn. rewrite cur_ensure_made. intros E. rewrite (M E) in *. cbn in *.
      destruct aw; auto; rewrite ?orb_true_r in *; try discriminate.
  - (* IStart *)
    break_match; auto. break_match; auto.
    set (s0 := ensure_made s c) in *.
    assert (S0 : shape s0) by (subst s0; auto).
    assert (C0 : cur s0 = cur s) by (subst s0; apply cur_ensure_made).
    cbn. destruct (active s0) eqn:A.
    + destruct S0 as (L&H). unfold shape. cbn. rewrite C0 in H. split; [repeat constructor; cbn; auto|].
      destruct C as [C|(x&C)]; rewrite C in H; destruct H as (H1&H2); [congruence|]. split; auto.
    + destruct S0 as (L&H). unfold shape. cbn. rewrite C0 in H. split; [repeat constructor; cbn; auto|].
      destruct C as [C|(x&C)]; rewrite C in H; destruct H as (H1&H2); [|congruence]. destruct H2 as (H2&H3). rewrite H2. cbn. auto.
  - (* IStartP *)
    break_match; auto. break_match; auto.
    + destruct (claimed _); [apply shape_ev; cbn; auto|].
      apply shape_sp_dispose.
      * apply shape_ev; cbn; auto.
      * unfold in_code. cbn. rewrite cur_ensure_made. exact C.
      * cbn. rewrite cur_ensure_made. intros E. rewrite (M E) in *. cbn in *.
        destruct aw; auto; rewrite ?orb_true_r in *; try discriminate.
    + destruct (claimed _); [apply shape_ev; cbn; auto|].
      apply shape_sp_dispose.
      * apply shape_ev; cbn; auto.
      * unfold in_code. cbn. rewrite cur_ensure_made. exact C.
      * cbn. rewrite cur_ensure_made. intros E. rewrite (M E) in *. cbn in *.
        destruct aw; auto; rewrite ?orb_true_r in *; try discriminate.
  - (* ICoAwait *)
    destruct (Nat.eqb me 0) eqn:M0; auto.
    break_match; auto.
    destruct (run_of s me C M M0) as (x&R).
    apply shape_run_c; [apply shape_ev; [|cbn; auto]|].
    + apply shape_set_script. apply shape_set_started. auto.
    + exists x. cbn. rewrite cur_ensure_made. exact R.
  - (* IMkFut *) break_match; auto.
  - (* IResolve *)
    break_match; auto. break_match; auto.
    + destruct (claimed _); [apply shape_ev; cbn; auto|].
      apply shape_sp_dispose; [apply shape_ev; [apply shape_ev|]; cbn; auto|exact C|].
      cbn. intros E. rewrite (M E) in *. cbn in *. destruct aw; auto; try discriminate.
    + destruct (claimed _); [apply shape_ev; cbn; auto|].
      apply shape_sp_dispose; [apply shape_ev; [apply shape_ev|]; cbn; auto|exact C|].
      cbn. intros E. rewrite (M E) in *. cbn in *. destruct aw; auto; try discriminate.
  - (* IAwait *)
    destruct (Nat.eqb me 0) eqn:M0; auto.
    destruct (run_of s me C M M0) as (x&R). destruct (shape_cur_code s x S R) as (A&W).
    break_match; auto.
    + destruct S as (L&_). unfold shape. cbn. split; [repeat constructor; cbn; auto|auto].
    + apply shape_ev; cbn; auto.
  - (* IRet *)
    destruct (Nat.eqb me 0) eqn:M0; auto. apply shape_finish; auto. eapply run_of; eauto.
  - (* IThrow *)
    destruct (Nat.eqb me 0) eqn:M0; auto. apply shape_finish; auto. eapply run_of; eauto.
  - (* IGotF *) repeat break_match; auto; apply shape_ev; cbn; auto.
  - (* IGotC *) apply shape_ev; cbn; auto.
Qed.

Lemma shape_step_ret : forall s, shape s -> cur s = CRet -> shape (step_ret s).
Proof.
  intros s (L&H) C. rewrite C in H. destruct H as (A&W). unfold step_ret.
  destruct (stack s) as [|k rest] eqn:K; [destruct W|].
  destruct k as [hs|r].
  - destruct rest; [|destruct W]. destruct hs as [|h hs].
    + destruct (queue s) as [|x q] eqn:Q.
      * unfold shape. cbn. rewrite ?K, ?Q. cbn. split; [repeat constructor; cbn; auto|auto].
      * unfold shape. cbn. rewrite ?K, ?Q. cbn. split; [repeat constructor; cbn; auto|auto].
    + unfold shape. cbn. rewrite ?K. cbn. split; [repeat constructor; cbn; auto|auto].
  - unfold shape. cbn. rewrite ?K. cbn. split; [repeat constructor; cbn; auto|]. split; auto.
Qed.

Lemma shape_idle_if_main : forall s, shape s -> shape (idle_if_main s).
Proof.
  intros s S. unfold idle_if_main. destruct (cur s) eqn:C; auto.
  destruct (shape_cur_main s S C) as (A&K&Q). apply shape_ev; auto. rewrite A, Q. cbn. auto.
Qed.

Lemma shape_step : forall s, shape s -> shape (step s).
Proof.
  intros s S. unfold step. destruct (cur s) eqn:C.
  - destruct (mainp s) as [|i rest] eqn:P.
    + destruct (shape_cur_main s S C) as (A&K&Q). destruct S as (L&_).
      unfold shape. cbn. split; [constructor; cbn; auto|auto].
    + apply shape_idle_if_main. apply shape_exec; auto.
      * left. exact C.
  - destruct (script (cs s c)) as [|i rest] eqn:P.
    + apply shape_finish; eauto.
    + apply shape_exec; auto.
      * right. exists c. exact C.
      * cbn. rewrite C. discriminate.
  - apply shape_step_ret; auto.
  - exact S.
Qed.

Lemma shape_reach : forall p m n, shape (steps n (init p m)).
Proof. intros. apply inv_steps; [exact shape_step|apply shape_init]. Qed.

(* C05 drain: whenever normal code is in control the queue is empty and coroutine mode is off, and every
   is_active()/queue-length sample taken by normal code reads (false, 0) *)
Theorem drain : forall p m n,
  let s := steps n (init p m) in
  (cur s = CMain \/ cur s = CEnd -> active s = false /\ queue s = [] /\ stack s = []) /\
  (forall a q, In (EIdle a q) (trace s) -> a = false /\ q = 0) /\
  (forall c, cur s = CRun c -> active s = true).
Proof.
  intros p m n s. pose proof (shape_reach p m n) as (L&H). fold s in L, H. repeat split.
  - destruct H0 as [E|E]; rewrite E in H; tauto.
  - destruct H0 as [E|E]; rewrite E in H; tauto.
  - destruct H0 as [E|E]; rewrite E in H; tauto.
  - unfold trace in H0. apply in_rev in H0. rewrite Forall_forall in L. apply (L _ H0).
  - unfold trace in H0. apply in_rev in H0. rewrite Forall_forall in L. apply (L _ H0).
  - intros c E. rewrite E in H. tauto.
Qed.
