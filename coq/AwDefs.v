(* AwDefs.v — sequential model of RE-USED awaiter objects (C02): one awaiter object performs several waits in
   sequence on several futures, already resolved or pending, incl. refused-then-reused.
   Two reusable styles of the library: a hand-written cocls::awaiter(fn, ctx) subscribed through
   co_awaiter::subscribe (awaiter.h:240-242) and call_fn_future_awaiter (future.h:1023-1061: `awt << fn` re-creates its
   internal future in place and subscribes itself; future_conv uses the same pattern).
   What matters is the awaiter's link field `_next`: subscribe_check_ready (awaiter.h:121-140) asserts it is null, uses
   it as the expected value of the first CAS, leaves the old head in it on success and resets it to null when refused;
   resume_chain_lk (awaiter.h:102-112) resets it before resume().  Model only, no proofs. *)
From Cocls Require Import Base CellDefs.
Local Open Scope Z_scope.

Inductive link := LNull | LDis | LNode (a : nat).
Definition link_eqb (x y : link) : bool :=
  match x, y with LNull, LNull => true | LDis, LDis => true | LNode a, LNode b => Nat.eqb a b | _, _ => false end.

Record acell := mkAC {
  ac_slot : option (list nat);   (* Some l: pending, chain of awaiter ids, head first; None: the ready marker *)
  ac_pay : outcome;
  ac_prom : bool                 (* the harness still holds an armed promise of this future *)
}.
Record aw := mkAw {
  aw_next : link;                (* awaiter::_next *)
  aw_cell : option nat;          (* ghost: the future it is linked to *)
  aw_waits : nat;                (* ghost: waits started *)
  aw_runs : nat                  (* ghost: callbacks run *)
}.
Record ast := mkA { acells : list acell; aws : list aw; a_err : bool }.

Definition NAM := 2%nat.   (* hand-written awaiters: ids 0,1 *)
Definition NAB := 2%nat.   (* call_fn_future_awaiter objects: ids 2,3; their internal futures are cells 3,4 *)
Definition NCX := 3%nat.   (* external futures: cells 0..2 *)

Definition ainit : ast :=
  mkA (repeat (mkAC (Some []) ONone true) NCX ++ repeat (mkAC None ONone false) NAB)
      (repeat (mkAw LNull None 0 0) (NAM + NAB)) false.

Definition head_of (cl : acell) : link :=
  match ac_slot cl with None => LDis | Some [] => LNull | Some (a :: _) => LNode a end.

Definition set_acell (s : ast) (c : nat) (x : acell) : ast := mkA (set_nth (acells s) c x) (aws s) (a_err s).
Definition set_aw (s : ast) (a : nat) (x : aw) : ast := mkA (acells s) (set_nth (aws s) a x) (a_err s).
Definition fail (s : ast) : ast := mkA (acells s) (aws s) true.

(* awaiter::subscribe_check_ready, sequentially: at most one failed CAS *)
Definition sub_check (s : ast) (a c : nat) : ast * bool :=
  match nth_error (aws s) a, nth_error (acells s) c with
  | Some w, Some cl =>
      if negb (link_eqb (aw_next w) LNull) then (fail s, false)                (* assert(this->_next == nullptr) *)
      else
        let h := head_of cl in
        if link_eqb h (aw_next w) then                                         (* the first CAS matches *)
          match ac_slot cl with
          | Some l => (set_aw (set_acell s c (mkAC (Some (a :: l)) (ac_pay cl) (ac_prom cl))) a
                              (mkAw (aw_next w) (Some c) (aw_waits w) (aw_runs w)), true)
          | None => (fail s, false)                                            (* it matched the ready marker *)
          end
        else
          match ac_slot cl with
          | None =>                                                            (* _next == &ready_state: refused *)
              (set_aw s a (mkAw LNull None (aw_waits w) (aw_runs w)), false)   (* _next = nullptr *)
          | Some l =>                                                          (* _next = head; the retry succeeds *)
              (set_aw (set_acell s c (mkAC (Some (a :: l)) (ac_pay cl) (ac_prom cl))) a
                      (mkAw h (Some c) (aw_waits w) (aw_runs w)), true)
          end
  | _, _ => (s, false)
  end.

Definition mem (a : nat) (l : list nat) : bool := existsb (Nat.eqb a) l.

(* resume_chain_lk over chain l: every node gets _next = nullptr and its callback runs *)
Definition release_all (l : list nat) (ws : list aw) : list aw :=
  map (fun iw => if mem (fst iw) l then mkAw LNull None (aw_waits (snd iw)) (S (aw_runs (snd iw))) else snd iw)
      (combine (seq 0 (length ws)) ws).

Definition deliveries (isvoid : bool) (pay : outcome) (l : list nat) : list Z :=
  flat_map (fun a => Z.of_nat a :: okind isvoid pay) l.

Definition aw_rejected : list Z := [-1].
Definition aw_error : list Z := [-999].

(* one wait of awaiter a on cell c: subscribe; when refused the owner runs the callback itself (resume()) *)
Definition do_wait (isvoid : bool) (s : ast) (a c : nat) : ast * list Z :=
  match nth_error (aws s) a, nth_error (acells s) c with
  | Some w0, Some _ =>
      let s0 := set_aw s a (mkAw (aw_next w0) (aw_cell w0) (S (aw_waits w0)) (aw_runs w0)) in
      let '(s1, sub) := sub_check s0 a c in
      if a_err s1 then (s1, aw_error)
      else if sub then (s1, [1])
      else match nth_error (aws s1) a, nth_error (acells s1) c with
           | Some w, Some cl =>
               (set_aw s1 a (mkAw (aw_next w) (aw_cell w) (aw_waits w) (S (aw_runs w))),
                0 :: Z.of_nat a :: okind isvoid (ac_pay cl))
           | _, _ => (s1, aw_rejected)
           end
  | _, _ => (s, aw_rejected)
  end.

Definition is_ready (s : ast) (c : nat) : bool :=
  match nth_error (acells s) c with Some cl => match ac_slot cl with None => true | _ => false end | None => false end.
Definition unlinked (s : ast) (a : nat) : bool :=
  match nth_error (aws s) a with Some w => match aw_cell w with None => true | _ => false end | None => false end.

Inductive aop :=
| AWait (a c : nat)                       (* hand-written awaiter a waits on external future c *)
| BWait (b : nat) (rdy : bool) (v : Z)    (* call_fn awaiter b: awt << (already resolved v | pending future) *)
| AResolve (c : nat) (o : option outcome) (* the promise of future c is called: value / exception / drop *)
| ARenew (c : nat) (rdy : bool) (v : Z)   (* external future c is destroyed and re-created (resolved v | pending) *)
| AQuery (c : nat)
| ABad.

Definition adecode (l : list Z) : aop :=
  match l with
  | [20; a; c] => if (0 <=? a) && (0 <=? c) then AWait (Z.to_nat a) (Z.to_nat c) else ABad
  | [21; b; m; v] => if (0 <=? b) && ((m =? 0) || (m =? 1)) then BWait (Z.to_nat b) (m =? 1) v else ABad
  | [22; c; 0; d] => if 0 <=? c then AResolve (Z.to_nat c) (Some (OVal d)) else ABad
  | [22; c; 1; d] => if 0 <=? c then AResolve (Z.to_nat c) (Some (OExc d)) else ABad
  | [22; c; 2; _] => if 0 <=? c then AResolve (Z.to_nat c) None else ABad
  | [23; c; m; v] => if (0 <=? c) && ((m =? 0) || (m =? 1)) then ARenew (Z.to_nat c) (m =? 1) v else ABad
  | [24; c] => if 0 <=? c then AQuery (Z.to_nat c) else ABad
  | _ => ABad
  end.

Definition fresh_cell (rdy : bool) (v : Z) : acell :=
  if rdy then mkAC None (OVal v) false else mkAC (Some []) ONone true.

Definition astep (isvoid : bool) (s : ast) (x : aop) : ast * list Z :=
  if a_err s then (s, aw_error) else
  match x with
  | AWait a c =>
      if Nat.ltb a NAM && Nat.ltb c NCX && unlinked s a then do_wait isvoid s a c else (s, aw_rejected)
  | BWait b rdy v =>
      let a := (NAM + b)%nat in let c := (NCX + b)%nat in
      if Nat.ltb b NAB && unlinked s a && is_ready s c     (* result_of destroys the old internal future: it must not be pending *)
      then do_wait isvoid (set_acell s c (fresh_cell rdy v)) a c else (s, aw_rejected)
  | AResolve c o =>
      match nth_error (acells s) c with
      | Some cl =>
          if ac_prom cl then
            match ac_slot cl with
            | Some l =>
                let pay := match o with Some x => x | None => ac_pay cl end in
                (mkA (set_nth (acells s) c (mkAC None pay false)) (release_all l (aws s)) (a_err s),
                 1 :: deliveries isvoid pay l)
            | None => (s, [0])
            end
          else (s, [0])
      | None => (s, aw_rejected)
      end
  | ARenew c rdy v =>
      if Nat.ltb c NCX && is_ready s c then (set_acell s c (fresh_cell rdy v), [0]) else (s, aw_rejected)
  | AQuery c =>
      match nth_error (acells s) c with
      | Some cl => (s, match ac_slot cl with Some _ => [0] | None => 1 :: okind isvoid (ac_pay cl) end)
      | None => (s, aw_rejected)
      end
  | ABad => (s, aw_rejected)
  end.

Fixpoint arun (isvoid : bool) (s : ast) (ops : list aop) : ast * list (list Z) :=
  match ops with
  | [] => (s, [])
  | x :: r => let '(s1, o) := astep isvoid s x in let '(s2, os) := arun isvoid s1 r in (s2, o :: os)
  end.

(* at the end of a case every future is dropped through its promise (no-op when already resolved) and the external ones are read *)
Definition acleanup : list aop :=
  map (fun c => AResolve c None) (seq 0 (NCX + NAB)) ++ map AQuery (seq 0 NCX).

Definition aw_run (isvoid : bool) (ops : list (list Z)) : list (list Z) :=
  snd (arun isvoid ainit (map adecode ops ++ acleanup)) ++ [[10; 0; 0]].

(* ---------- decidable form of the property on an observed trace ----------
   Every wait of a reusable awaiter is answered exactly once: either at once (the future was resolved: subscription
   refused, callback run by the owner, line `0 a kind datum`) or by exactly one later delivery; an awaiter is never
   delivered without an open wait; at the end no wait is open; a wait on an already-resolved future (BWait ready v)
   is answered at once with v; no error line. *)
Fixpoint del_ids (l : list Z) : list nat :=
  match l with a :: _ :: _ :: r => Z.to_nat a :: del_ids r | _ => [] end.

Fixpoint close_all (ids : list nat) (open : list nat) : option (list nat) :=
  match ids with
  | [] => Some open
  | a :: r => if mem a open then close_all r (filter (fun x => negb (Nat.eqb x a)) open) else None
  end.

Fixpoint aw_check (isvoid : bool) (open : list nat) (ops : list aop) (obs : list (list Z)) : bool :=
  match ops, obs with
  | [], [] => match open with [] => true | _ => false end
  | x :: r, o :: os =>
      let waiter := match x with AWait a _ => Some a | BWait b _ _ => Some (NAM + b)%nat | _ => None end in
      match o with
      | [-1] => aw_check isvoid open r os
      | [-999] => false
      | _ =>
        match waiter with
        | Some a =>
            match o with
            | [1] => negb (mem a open) && aw_check isvoid (a :: open) r os
            | [0; a'; k; d] =>
                Nat.eqb (Z.to_nat a') a && negb (mem a open) &&
                match x with BWait _ true v => list_eqb [k; d] (okind isvoid (OVal v)) | _ => true end &&
                aw_check isvoid open r os
            | _ => false
            end
        | None =>
            match x, o with
            | AResolve _ _, _ :: dl =>
                match close_all (del_ids dl) open with Some open' => aw_check isvoid open' r os | None => false end
            | _, _ => aw_check isvoid open r os
            end
        end
      end
  | _, _ => false
  end.

Definition aw_oracle (isvoid : bool) (ops obs : list (list Z)) : bool :=
  match rev obs with
  | last :: body => list_eqb last [10; 0; 0] && aw_check isvoid [] (map adecode ops ++ acleanup) (rev body)
  | [] => false
  end.
