(* AdaptersInv.v — invariants of the callback-adapter model for every valid configuration (adapter, outcome,
   timing, storage, converter, competing resolver) and every schedule (induction over reachability). *)
From Cocls Require Import Base BaseProofs AdaptersDefs.
Require Import ZifyBool.
Local Open Scope nat_scope.

Inductive reachable (c : cfg) : st -> Prop :=
| r_init : reachable c (init c)
| r_step s i : reachable c s -> enabled s i = true -> reachable c (fst (tstep c s i)).

Definition terminal (s : st) : Prop := all_enabled s = [].

(* ---------- counting ---------- *)
Fixpoint cnt (p : instr -> bool) (l : list instr) : nat :=
  match l with [] => 0 | x :: t => (if p x then 1 else 0) + cnt p t end.

Lemma cnt_app p a b : cnt p (a ++ b) = cnt p a + cnt p b.
Proof. induction a as [|x a IH]; cbn [cnt app]; [reflexivity|rewrite IH; lia]. Qed.

Definition N (p : instr -> bool) (s : st) : nat := cnt p (th0 s) + cnt p (th1 s) + cnt p (th2 s).

Definition p_claim (i : instr) := match i with IClaim _ | IDtorP => true | _ => false end.
Definition p_dtor (i : instr) := match i with IDtorP => true | _ => false end.
Definition p_res (i : instr) := match i with IResolve => true | _ => false end.
Definition p_walk (i : instr) := match i with IWalk => true | _ => false end.
Definition p_dtk (i : instr) := match i with IReady | ISub _ | IWalk => true | _ => false end.
Definition p_park (i : instr) := match i with IPark _ => true | _ => false end.
Definition p_xw (i : instr) := match i with IXWait => true | _ => false end.
Definition p_rel (i : instr) := match i with IRel => true | _ => false end.
(* a claim whose return value is not recorded (inside the init function) *)
Definition p_c0 (i : instr) := match i with IClaim 1 | IClaim 2 => false | IClaim _ => true | _ => false end.
Definition p_c1 (i : instr) := match i with IClaim 1 => true | _ => false end.
Definition p_c2 (i : instr) := match i with IClaim 2 => true | _ => false end.
Definition p_claim2 (i : instr) := match i with IClaim2 | IDtorP2 => true | _ => false end.
Definition p_dtor2 (i : instr) := match i with IDtorP2 => true | _ => false end.
Definition p_res2 (i : instr) := match i with IResolve2 => true | _ => false end.
Definition p_walk2 (i : instr) := match i with IWalk2 => true | _ => false end.
Definition p_dtk2 (i : instr) := match i with ISub2 _ | IWalk2 => true | _ => false end.
Definition p_park2 (i : instr) := match i with IPark2 => true | _ => false end.
Definition p_xw2 (i : instr) := match i with IXWait2 => true | _ => false end.
Definition p_cvA (i : instr) := match i with ICvClaim => true | _ => false end.
Definition p_cvB (i : instr) := match i with ICvReady => true | _ => false end.
Definition p_cvC (i : instr) := match i with ICvSet _ => true | _ => false end.
Definition p_cvP (i : instr) := match i with ICvPark _ => true | _ => false end.
Definition p_cvD (i : instr) := match i with ICvDtor => true | _ => false end.
Definition p_ow (i : instr) := match i with IOWait => true | _ => false end.
Definition p_oc (i : instr) := match i with IOClaim => true | _ => false end.
Definition p_cvR (i : instr) := match i with ICvResolve => true | _ => false end.
Definition p_cvW (i : instr) := match i with ICvWalk => true | _ => false end.
Definition p_otk (i : instr) := match i with IOReady | IOSub _ | ICvWalk => true | _ => false end.

Definition outcome_eqb (a b : outcome) : bool :=
  match a, b with
  | ONone, ONone => true | OCanc, OCanc => true
  | OVal x, OVal y => Z.eqb x y | OExc x, OExc y => Z.eqb x y
  | _, _ => false
  end.
Lemma outcome_eqb_eq a b : outcome_eqb a b = true -> a = b.
Proof. destruct a, b; cbn; try discriminate; try reflexivity; intros H; apply Z.eqb_eq in H; congruence. Qed.
Lemma outcome_eqb_refl a : outcome_eqb a a = true.
Proof. destruct a; cbn; auto using Z.eqb_refl. Qed.

(* a converter-completion instruction whose thread-local values are not the ones the protocol guarantees
   (x = what the converter must hand to the outer promise) *)
Definition p_bad (x : outcome) (i : instr) : bool :=
  match i with
  | ICvSet r | ICvPark r => negb (outcome_eqb r x)
  | _ => false
  end.

Lemma cnt_bad_le x l : cnt (p_bad x) l <= cnt p_cvC l + cnt p_cvP l.
Proof.
  induction l as [|i l IH]; cbn [cnt]; [lia|].
  destruct i; cbn [p_bad p_cvC p_cvP]; try lia; destruct (negb (outcome_eqb r x)); lia.
Qed.

Definition rdy (sl : slotv) : nat := match sl with SReady => 1 | _ => 0 end.
Definition sub (sl : slotv) : nat := match sl with SSub => 1 | _ => 0 end.
Definition b2n (b : bool) : nat := if b then 1 else 0.
Definition on (o : option outcome) : nat := match o with None => 0 | Some _ => 1 end.
Definition rn (r : option bool) : nat := match r with None => 0 | Some _ => 1 end.
Definition has_k2 (c : cfg) : bool := match c_k2 c with Some _ => true | None => false end.
(* the converter forwards the promise to thread 2 *)
Definition rp (c : cfg) : bool := is_conv c && Nat.eqb (c_cb c) 4.
(* the handler re-arms the awaiter *)
Definition re (c : cfg) : nat := match c_re c with Some _ => 1 | None => 0 end.
Definition isv (o : outcome) : bool := match o with OVal _ => true | _ => false end.
Definition hb (c : cfg) : nat := b2n (has_helper (c_ad c)).
Definition cv (c : cfg) : nat := b2n (is_conv c).
Definition atomic_cb (c : cfg) : bool := has_cb (c_ad c).
(* the outcome of the claim that succeeded (ghost winner: 1 the primary promise holder, 2 the competitor) *)
Definition wout (c : cfg) (s : st) : outcome := out_of (kind_of c (match won s with 2 => 2 | _ => 1 end)).
(* what the converter adapter must deliver, given the source's outcome *)
Definition expected (c : cfg) (s : st) : outcome := conv_result c (payload s).

(* the events of a completion with a user callback that saw o, all in step t *)
Definition cb_log (c : cfg) (o : outcome) (t : nat) : list (nat * ev) :=
  map (fun e => (t, e))
      ([ECb o (hb c) 0; ECbRet (hb c) 0]
       ++ (if has_functor (c_ad c) then EFun (hb c) 0 :: (if has_sd (c_stor c) then [ESd] else []) else [])).

Definition conv_log (c : cfg) (o : outcome) (t : nat) : list (nat * ev) :=
  match o with OVal v => [(t, EConv v (conv_result c o))] | _ => [] end.

Record Inv (c : cfg) (s : st) : Prop := {
  i_claim : b2n (owner s) <= N p_claim s;
  i_res : rdy (slot s) + b2n (owner s) + N p_res s = 1;
  i_pay : owner s = false -> payload s = wout c s;
  i_dtk : nfire s + sub (slot s) + N p_dtk s = 1;
  i_walk : N p_walk s <= rdy (slot s);
  i_fired : nfire s <= rdy (slot s);
  i_park : b2n (parked s) + cnt p_park (th0 s) = 0 -> cnt p_xw (th1 s) + cnt p_xw (th2 s) = 0;
  i_xw : cnt p_xw (th0 s) = 0;
  i_alloc : allocs s = hb c;
  i_free : frees s + N p_rel s = hb c * nfire s;
  (* converter *)
  i_stage : N p_cvA s + N p_cvB s + N p_cvC s + N p_cvP s + N p_cvD s <= cv c * nfire s;
  i_oprom : b2n (oprom s) + cv c * nfire s = cv c + N p_cvA s;
  (* the outer promise is in exactly one place: parked in the adapter, in the resume function's local p, in the
     converter's holder, on its way through resolve, or consumed *)
  i_tok : b2n (oprom s) + b2n (pheld s) + on (oheld s) + N p_cvR s + nores s = cv c;
  i_ph : b2n (pheld s) <= N p_cvB s + N p_cvC s + N p_cvP s + N p_cvD s;
  i_phB : N p_cvB s + N p_cvC s + N p_cvP s <= b2n (pheld s);
  (* the late resolver (thread 2) exists only for a forwarding converter and stays until the promise is consumed *)
  i_owc : N p_ow s + N p_oc s <= b2n (rp c);
  i_p4 : N p_cvP s <= b2n (rp c);
  i_rp : b2n (oprom s) + b2n (pheld s) + on (oheld s) + b2n (rp c) <= N p_ow s + N p_oc s + 1;
  i_oht : on (oheld s) <= N p_ow s + N p_oc s;
  i_occ : N p_oc s <= on (oheld s);
  i_bad : N (p_bad (expected c s)) s = 0;
  i_oh : match oheld s with Some r => r = expected c s | None => True end;
  i_op0 : b2n (oprom s) + b2n (pheld s) + on (oheld s) >= 1 -> opayload s = ONone;
  i_dec : pheld s = true -> N p_cvD s >= 1 -> expected c s = ONone;
  i_ow0 : cnt p_ow (th0 s) = 0;
  i_ow1 : cnt p_ow (th1 s) = 0;
  i_ow2 : th2 s = [IOWait] \/ cnt p_ow (th2 s) = 0;
  i_nores : nores s = rdy (oslot s);
  i_otk : ndeliv s + sub (oslot s) + N p_otk s = cv c;
  i_cvw : N p_cvW s <= nores s;
  i_opay : N p_cvR s + nores s >= 1 -> opayload s = expected c s;
  i_nconv : nconv s + (if isv (payload s) then N p_cvA s + N p_cvB s else 0) = (if isv (payload s) then cv c * nfire s else 0);
  i_ndeliv : ndeliv s <= nores s;
  i_pay0 : owner s = true -> payload s = ONone;
  i_dtor : N p_dtor s = 0 \/ out_of (c_k c) = ONone;
  (* the race between the resolvers *)
  i_won0 : owner s = true -> ret1 s <> Some true /\ ret2 s <> Some true;
  i_won : owner s = false -> won s = 1 \/ won s = 2;
  i_ret1 : ret1 s = Some true -> won s = 1;
  i_ret2 : ret2 s = Some true <-> won s = 2;
  i_c1 : N p_c1 s <= 1 /\ (N p_c1 s >= 1 -> ret1 s = None);
  i_c2 : N p_c2 s <= 1 /\ (N p_c2 s >= 1 -> ret2 s = None);
  (* without a competitor nothing ever claims as thread 2; with one, the primary resolver is a recorded call *)
  i_c0 : N p_c0 s + N p_dtor s >= 1 -> c_k2 c = None;
  i_c2k : N p_c2 s >= 1 -> c_k2 c <> None;
  i_r2k : ret2 s <> None -> c_k2 c <> None;
  i_w1 : won s = 1 -> ret1 s = Some true \/ c_k2 c = None;
  (* each recorded call is made exactly once; where the primary resolver is a recorded call nothing else ever claims
     for it, so once the promise is consumed either the competitor won or that call returned true *)
  i_t1 : N p_c1 s + rn (ret1 s) = b2n (prim_calls c);
  i_t2 : N p_c2 s + rn (ret2 s) = b2n (has_k2 c);
  i_pc : prim_calls c = true -> N p_c0 s + N p_dtor s = 0;
  i_pw : prim_calls c = true -> owner s = true \/ won s = 2 \/ ret1 s = Some true;
  (* the second operation of a re-arming handler: the same token discipline on its own cell; it comes into being
     when the first completion runs *)
  j_cfg : re c = 1 -> c_ad c = ACallFn;
  j_claim : b2n (owner2 s) <= N p_claim2 s;
  j_res : rdy (slot2 s) + b2n (owner2 s) + N p_res2 s = re c;
  j_pay : owner2 s = false -> payload2 s = out_of (kind_re c);
  j_pay0 : owner2 s = true -> payload2 s = ONone;
  j_dtor : N p_dtor2 s = 0 \/ out_of (kind_re c) = ONone;
  j_dtk : nfire2 s + sub (slot2 s) + N p_dtk2 s = re c * nfire s;
  j_walk : N p_walk2 s <= rdy (slot2 s);
  j_fired : nfire2 s <= rdy (slot2 s);
  j_park : b2n (parked2 s) + N p_park2 s = re c * nfire s;
  j_xw0 : cnt p_xw2 (th0 s) = 0;
  j_xw1 : cnt p_xw2 (th1 s) = 0;
  j_xw2 : th2 s = [IXWait2; IClaim2] \/ th2 s = [IXWait2; IDtorP2] \/ cnt p_xw2 (th2 s) = 0;
  j_xwc : N p_xw2 s <= re c
}.

(* the handler's second run (re-armed call_fn_future_awaiter; that adapter has no helper block) *)
Definition cb2_log (o : outcome) (t : nat) : list (nat * ev) := [(t, ECb o 0 0); (t, ECbRet 0 0)].

Definition LogInv (c : cfg) (s : st) : Prop :=
  exists t1 t2 t3 t4,
      log s = (if Nat.eqb (nconv s) 1 then conv_log c (payload s) t1 else [])
              ++ (if Nat.eqb (ndeliv s) 1 then [(t2, EODeliv (expected c s))] else [])
              ++ (if atomic_cb c && Nat.eqb (nfire s) 1 then cb_log c (payload s) t3 else [])
              ++ (if Nat.eqb (nfire2 s) 1 then cb2_log (payload2 s) t4 else []).

(* ---------- the invariant holds initially and is preserved by every step ---------- *)
Lemma inv_init c : valid c = true -> Inv c (init c).
Proof.
  destruct c as [ad mode stor k k2 rek cb cd]. unfold valid, init, rp, re, kind_re, is_mk, is_conv, is_mode, reg_prog, mk_prog, res_prog.
  cbn [c_mode c_stor c_ad c_k2 c_cb c_k c_re].
  intros V.
  destruct mode as [|[|[|[|m]]]]; try (cbn in V; rewrite ?andb_false_r in V; discriminate);
  destruct ad; try (cbn in V; rewrite ?andb_false_r in V; discriminate);
  destruct k2 as [kk|]; try (cbn in V; rewrite ?andb_false_r in V; discriminate);
  destruct rek as [[rv|rx|]|]; try (cbn in V; rewrite ?CB4, ?andb_false_r in V; cbn in V; rewrite ?andb_false_r in V; discriminate);
  destruct (Nat.eqb cb 4) eqn:CB4;
  try (cbn in V; rewrite ?CB4, ?andb_false_r in V; cbn in V; rewrite ?andb_false_r in V; discriminate);
  destruct k; constructor; cbn; rewrite ?CB4; cbn; try reflexivity; try lia; try congruence; try discriminate; try exact I;
  try (left; reflexivity); try (right; reflexivity); try (split; discriminate); try (intros; discriminate);
  try (split; [lia|intros; try reflexivity; lia]);
  try (intros; reflexivity); try (intros; right; reflexivity); try (intros; lia); try (intros; congruence);
  try (right; left; reflexivity); try (right; right; reflexivity).
Qed.

(* ---------- tactics shared by the step lemmas (one file per thread, so that they build in parallel) ---------- *)

Ltac dflags s :=
  repeat match goal with
  | |- context[match owner s with _ => _ end] => let E := fresh "FO" in destruct (owner s) eqn:E
  | |- context[if owner s then _ else _] => let E := fresh "FO" in destruct (owner s) eqn:E
  | |- context[match slot s with _ => _ end] => let E := fresh "FS" in destruct (slot s) eqn:E
  | |- context[match oslot s with _ => _ end] => let E := fresh "FOS" in destruct (oslot s) eqn:E
  | |- context[if pheld s then _ else _] => let E := fresh "FPH" in destruct (pheld s) eqn:E
  | |- context[match oheld s with _ => _ end] => let E := fresh "FOH" in destruct (oheld s) eqn:E
  | |- context[match c_ad ?c with _ => _ end] => let E := fresh "AD" in destruct (c_ad c) eqn:E
  | |- context[if owner2 s then _ else _] => let E := fresh "FO2" in destruct (owner2 s) eqn:E
  | |- context[match slot2 s with _ => _ end] => let E := fresh "FS2" in destruct (slot2 s) eqn:E
  | |- context[match c_re ?c with _ => _ end] => let E := fresh "RE" in destruct (c_re c) eqn:E
  | |- context[match c_cb ?c with _ => _ end] => let E := fresh "CB" in destruct (c_cb c) as [|[|[|[|[|?]]]]] eqn:E
  | |- context[if Nat.eqb (c_stor ?c) 4 then _ else _] => let E := fresh "MT" in destruct (Nat.eqb (c_stor c) 4) eqn:E
  end.

Ltac dpay s := match goal with |- context[match payload s with _ => _ end] => let E := fresh "FP" in destruct (payload s) eqn:E end.
Ltac dth s := match goal with
       | |- context[th0 s] => destruct (th0 s) as [|ins rest] eqn:T0; [discriminate|]
       | |- context[th1 s] => destruct (th1 s) as [|ins rest] eqn:T0; [discriminate|]
       | |- context[th2 s] => destruct (th2 s) as [|ins rest] eqn:T0; [discriminate|]
       end.
Ltac fin0 := try reflexivity; try assumption; try exact I; try lia; try congruence;
  try (intros; lia); try (intros; congruence); try (intros; auto; fail);
  try (left; lia); try (right; assumption); try (right; reflexivity); try (left; reflexivity);
  try (split; congruence); try (split; intros; congruence); try (split; intros; lia);
  try (intros; match goal with H : _ -> ?g |- ?g => apply H; lia end);
  try (split; [intros Q; discriminate Q | intros W; match goal with H : _ <-> won _ = 2 |- _ => apply H in W end;
         first [discriminate W | match goal with H : _ -> ret2 _ = None |- _ => rewrite H in W by lia end; discriminate W]]);
  try (intros; right; match goal with H : _ -> ?g |- ?g => apply H; lia end);
  try (intros; left; reflexivity);
  try (let W := fresh "W" in let X := fresh "X" in
       intros W; match goal with H : won _ = 1 -> _ \/ _ |- _ => destruct (H W) as [X|X] end;
       [first [discriminate X | match goal with H : _ -> ret1 _ = None |- _ => rewrite H in X by lia end; discriminate X]
       | right; exact X]);
  try (match goal with |- prim_calls _ = true -> _ => idtac end; let HP := fresh "HP" in intros HP;
       repeat match goal with H : prim_calls _ = true -> _ |- _ => specialize (H HP) end;
       first [assumption | lia | (right; right; reflexivity) | (right; left; reflexivity) | (exfalso; lia)
             | match goal with H : _ \/ _ \/ _ = Some true |- _ =>
                 destruct H as [H|[H|H]];
                 [discriminate H | right; left; exact H
                 | first [discriminate H | match goal with H2 : _ -> ret1 _ = None |- _ => rewrite H2 in H by lia end; discriminate H]]
               end]);
  try (intros; contradiction); try (split; intros; [contradiction|discriminate]); try (split; intros; [contradiction|lia]).
Ltac finx := fin0;
  try match goal with |- cnt (p_bad ?x) ?a + cnt (p_bad ?x) ?b + cnt (p_bad ?x) ?d = 0 =>
        pose proof (cnt_bad_le x a); pose proof (cnt_bad_le x b); pose proof (cnt_bad_le x d); lia end;
  try match goal with |- context[if isv ?o then _ else _] => destruct (isv o); fin0 end;
  try match goal with |- context[match oheld ?s with _ => _ end] => destruct (oheld s); cbn [on] in *; fin0 end.

(* most obligations are linear arithmetic over the counters: try that first, the general search only if it fails *)
Ltac fin :=
  lazymatch goal with
  | |- @eq nat _ _ => first [reflexivity | assumption | lia | finx]
  | |- _ <= _ => first [assumption | lia | finx]
  | |- _ >= _ => first [assumption | lia | finx]
  | |- _ => first [assumption | finx]
  end.

Ltac red1 := cbn [fst snd thr set_thr push tick set_src set_src2 owner2 parked2 slot2 payload2 nfire2 set_out set_held set_cnt add_log set_ret pheld oheld owner parked slot payload oprom oslot opayload allocs frees th0 th1 th2 clk ret1 ret2 won nfire nconv ndeliv nores log app].
Ltac redc := cbn [cnt p_claim p_dtor p_res p_walk p_dtk p_park p_xw p_rel p_c0 p_c1 p_c2 isv rn on p_claim2 p_dtor2 p_res2 p_walk2 p_dtk2 p_park2 p_xw2 p_cvA p_cvB p_cvC p_cvP p_cvD p_ow p_oc p_cvR p_cvW p_otk p_bad negb orb andb
                  b2n rdy sub Nat.add has_helper has_functor has_cb is_conv].
Ltac redch := cbn [cnt p_claim p_dtor p_res p_walk p_dtk p_park p_xw p_rel p_c0 p_c1 p_c2 isv rn on p_claim2 p_dtor2 p_res2 p_walk2 p_dtk2 p_park2 p_xw2 p_cvA p_cvB p_cvC p_cvP p_cvD p_ow p_oc p_cvR p_cvW p_otk p_bad negb orb andb
                  b2n rdy sub Nat.add] in *|-.


(* the instruction set in three groups: the step lemma is proved per thread and per group (nine files that build in parallel) *)
Definition gA (i : instr) : bool :=
  match i with IPriv _ | IPark _ | IRel | IXWait | IClaim _ | IDtorP | IResolve | IWalk
             | IPark2 | IXWait2 | IClaim2 | IDtorP2 | IResolve2 => true | _ => false end.
Definition gB (i : instr) : bool :=
  match i with IReady | ISub _ | ICvClaim | ICvDtor | IOWait | IOClaim | ISub2 _ | IWalk2 => true | _ => false end.
Definition gC (i : instr) : bool :=
  match i with ICvReady | ICvSet _ | ICvPark _ | ICvResolve | ICvWalk | IOReady | IOSub _ => true | _ => false end.
Lemma groups_cover i : gA i = true \/ gB i = true \/ gC i = true.
Proof. destruct i; cbn; auto. Qed.
