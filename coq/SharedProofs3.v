(* SharedProofs3.v — results: every copy observes the one result of the resolver; every awaiter picks it up exactly once *)
From Cocls Require Import Base BaseProofs SharedDefs SharedProofs SharedProofs2.
Local Open Scope nat_scope.

(* the single result of the shared state: the resolver's declared payload (or the value the state was born with) *)
Definition expd (s : st) : outcome := match mode s with MPre v => OVal v | _ => payload_of (rk s) end.

Definition seen_ok (e : outcome) (u : uthr) : Prop :=
  match ukd u with
  | UKDrop => useen u = None /\ uruns u = 0
  | UKPoll => match upcf u with
              | UDec | UDone => uruns u = 1 /\ (useen u = Some e \/ useen u = Some ONotReady)
              | _ => uruns u = 0 /\ useen u = None
              end
  | UKAwait _ => match upcf u with
                 | UDone => uruns u = 1 /\ useen u = Some e
                 | _ => uruns u = 0 /\ useen u = None
                 end
  end.

Record Res (s : st) : Prop := {
  md_ok : match mode s with MPre v => rpcf s = RDone false /\ payload s = OVal v | _ => True end;
  f1_ok : match rpcf s with RXWait | RClaim | RG1 | RG2 | RG3 => True | _ => payload s = expd s end;
  f3_ok : forall j u, nth_error (users s) j = Some u -> uflag u = true -> is_ready s = true;
  f2_ok : forall j u, nth_error (users s) j = Some u -> seen_ok (expd s) u
}.

Lemma ready_payload s : InvA s -> Res s -> is_ready s = true -> payload s = expd s.
Proof.
  intros IA R RY. pose proof (rs_ok s IA) as RS. pose proof (f1_ok s R) as F.
  destruct (rpcf s); try exact F; destruct RS as (Q & _); congruence.
Qed.

(* replacing one user; everything else the same, readiness only grows *)
Lemma res_set_user s s' j u u' : Res s -> nth_error (users s) j = Some u -> users s' = set_nth (users s) j u' ->
  mode s' = mode s -> rk s' = rk s -> rpcf s' = rpcf s -> payload s' = payload s ->
  (is_ready s = true -> is_ready s' = true) -> (uflag u' = true -> is_ready s' = true) ->
  seen_ok (expd s) u' -> Res s'.
Proof.
  intros [M F1 F3 F2] Hj US MD RK RP PL RY FL SK.
  assert (EX : expd s' = expd s) by (unfold expd; rewrite MD, RK; reflexivity).
  constructor; rewrite ?MD, ?RP, ?PL, ?EX; auto.
  - intros j0 u0 H. rewrite US, (nth_set_nth _ j j0 u' u Hj) in H. destruct (Nat.eqb j j0).
    + inversion H; subst. exact FL.
    + intros Q. apply RY. eapply F3; eassumption.
  - intros j0 u0 H. rewrite US, (nth_set_nth _ j j0 u' u Hj) in H. destruct (Nat.eqb j j0).
    + inversion H; subst. exact SK.
    + eapply F2; eassumption.
Qed.

Lemma res_frame s s' : Res s -> users s' = users s -> mode s' = mode s -> rk s' = rk s -> rpcf s' = rpcf s ->
  payload s' = payload s -> (is_ready s = true -> is_ready s' = true) -> Res s'.
Proof.
  intros [M F1 F3 F2] US MD RK RP PL RY.
  assert (EX : expd s' = expd s) by (unfold expd; rewrite MD, RK; reflexivity).
  constructor; rewrite ?MD, ?RP, ?PL, ?EX, ?US; auto.
  intros j u H Q. apply RY. eapply F3; eassumption.
Qed.

(* an awaiter that has not picked up yet picks up the one result *)
Lemma res_fu s j u k : InvA s -> Res s -> nth_error (users s) j = Some u -> upc_handles (upcf u) = 1 ->
  is_ready s = true -> ukd u = UKAwait k -> upcf u <> UDone -> Res (finish_user s j).
Proof.
  intros IA R Hj HU RY KD PC.
  destruct (fu_inv s j u IA Hj HU) as (_ & US & SL & _ & _ & RP & _ & MD & RK & PL & _).
  eapply (res_set_user s _ j u (done_user s u) R Hj US MD RK RP PL).
  - unfold is_ready. rewrite SL. auto.
  - intros _. unfold is_ready in *. rewrite SL. exact RY.
  - pose proof (f2_ok s R j u Hj) as SK. unfold seen_ok in *. cbn [done_user ukd upcf uruns useen]. rewrite KD in *.
    rewrite (ready_payload s IA R RY). destruct (upcf u); try congruence; destruct SK as (-> & _); auto.
Qed.

Lemma res_resume_all l : forall s, InvA s ->
  (forall w, cnt (NU w) (chain s) + cnt (NU w) (walk s) + cntn w l = inl (users s) w) ->
  Res s -> is_ready s = true -> Res (resume_all s l).
Proof.
  induction l as [|c t IH]; intros s IA OC R RY; cbn [resume_all]; [exact R|].
  assert (1 <= inl (users s) c) as P by (specialize (OC c); rewrite cntn_cons, Nat.eqb_refl in OC; lia).
  destruct (inl_pos _ _ P) as (u & Hc & IL).
  pose proof (kd_ok s IA c u Hc) as (K & _). unfold kind_pc in K. pose proof IL as IL2. unfold inlist in IL2.
  destruct (fu_inv s c u IA Hc (inlist_handles u IL)) as (IA' & US & SL & WK & AC & RP & CP & MD & RK & PL & PA).
  assert (exists k, ukd u = UKAwait k /\ upcf u <> UDone) as (k & KD & PC).
  { destruct (upcf u); try discriminate; destruct (ukd u) as [| |k]; try contradiction; exists k; split; auto; discriminate. }
  apply IH.
  - exact IA'.
  - intros w. specialize (OC w). unfold chain in *. rewrite SL, WK, US. rewrite cntn_cons in OC.
    rewrite (inl_set_nth _ c u _ w Hc). destruct (Nat.eqb_spec c w) as [->|N].
    + rewrite Nat.eqb_refl in OC. unfold inl in OC. rewrite Hc, IL in OC. cbn. lia.
    + rewrite (proj2 (Nat.eqb_neq w c)) in OC by auto. exact OC.
  - exact (res_fu s c u k IA R Hc (inlist_handles u IL) RY KD PC).
  - unfold is_ready in *. rewrite SL. exact RY.
Qed.

Lemma res_frame2 s s' : Res s -> users s' = users s -> mode s' = mode s -> rk s' = rk s ->
  (is_ready s = true -> is_ready s' = true) ->
  match mode s with MPre _ => rpcf s' = rpcf s /\ payload s' = payload s | _ => True end ->
  match rpcf s' with RXWait | RClaim | RG1 | RG2 | RG3 => True | _ => payload s' = expd s end -> Res s'.
Proof.
  intros [M F1 F3 F2] US MD RK RY MP FP.
  assert (EX : expd s' = expd s) by (unfold expd; rewrite MD, RK; reflexivity).
  constructor; rewrite ?MD, ?EX, ?US; auto.
  - destruct (mode s); auto. destruct MP as (-> & ->). exact M.
  - intros j u H Q. apply RY. eapply F3; eassumption.
Qed.

Lemma decode_user_fresh ops u : In u (flat_map decode_user ops) ->
  upcf u = UWait0 /\ uflag u = false /\ useen u = None /\ uruns u = 0.
Proof.
  intros H. apply in_flat_map in H. destruct H as (l & _ & H). unfold decode_user in H.
  repeat match type of H with
  | In _ (match ?x with _ => _ end) => destruct x; cbn [In] in H; try contradiction
  end.
  destruct H as [ <- |[]]. repeat split.
Qed.

Lemma res_init ops : Res (init ops).
Proof.
  unfold init. constructor; unfold expd, is_ready; simp_st.
  - destruct (mode_of ops); auto.
  - destruct (mode_of ops); auto.
  - intros j u H Q. apply nth_error_In in H. destruct (decode_user_fresh ops u H) as (_ & F & _). congruence.
  - intros j u H. apply nth_error_In in H. destruct (decode_user_fresh ops u H) as (P & _ & S & N).
    unfold seen_ok. rewrite P, S, N. destruct (ukd u); auto.
Qed.

Lemma res_finish s : Inv s -> Res s -> rpcf s = RWalk -> Res (finish s).
Proof.
  intros [IA OC] R RP. unfold finish.
  assert (RY : is_ready s = true) by (pose proof (rs_ok s IA) as Q; rewrite RP in Q; exact Q).
  pose proof (res_resume_all (acc s) s IA OC R RY) as R1.
  destruct (resume_all_inv (acc s) s IA OC) as (IA1 & _ & SL & _ & _ & RP1 & _ & MD & RK & PL & _).
  set (s1 := resume_all s (acc s)) in *. clearbody s1.
  assert (RY1 : is_ready s1 = true) by (unfold is_ready in *; rewrite SL; exact RY).
  eapply (res_frame2 s1); simp_st; auto.
  - pose proof (md_ok s1 R1) as M. rewrite RP1, RP in M. destruct (mode s1); auto. destruct M; discriminate.
  - apply (ready_payload s1 IA1 R1 RY1).
Qed.

Lemma res_mf s : Inv s -> Res s -> rpcf s = RWalk -> Res (maybe_finish s).
Proof. intros I R RP. unfold maybe_finish. destruct (walk s); [apply res_finish; assumption|exact R]. Qed.

Ltac rdy :=
  unfold is_ready in *; simp_st; rew_hyps;
  repeat match goal with
  | H : SChain _ = slot _ |- _ => symmetry in H
  | H : SReady = slot _ |- _ => symmetry in H
  end;
  rew_hyps; simp_st; rew_hyps; auto; try congruence; try (intros; discriminate).

Lemma res_cstep s : Res s -> Res (fst (cstep s)).
Proof.
  intros R. unfold cstep. destruct (cpcf s) eqn:C; cbn [fst].
  - destruct (mode s) eqn:M; eapply (res_frame s); try exact R; simp_st; auto.
  - destruct (mode s) eqn:M; try (eapply res_frame; [exact R|..]; simp_st; auto; fail).
    all: frames; destruct (slot d) eqn:SL; eapply res_frame; try exact R; simp_st; rew_hyps; auto; rdy.
  - frames. eapply res_frame; try exact R; simp_st; rew_hyps; simp_st; rew_hyps; auto. rdy.
  - frames. destruct (slot d) as [l|] eqn:SL.
    + destruct (onode_eqb (head l) exp); unfold after_charge; eapply res_frame; try exact R; simp_st; rew_hyps; auto;
        rdy.
    + eapply res_frame; try exact R; simp_st; rew_hyps; auto. rdy.
  - frames. unfold after_charge. eapply res_frame; try exact R; simp_st; rew_hyps; simp_st; rew_hyps; auto.
    rdy.
  - destruct (give (users s)) as [us|] eqn:G.
    + destruct (give_spec _ _ G) as (j & u & Hj & Hu & ->). frames.
      eapply (res_set_user s _ j u (set_upc u UWait1) R Hj); simp_st; rew_hyps; auto.
      * rdy.
      * cbn [set_upc uflag]. intros Q. pose proof (f3_ok s R j u Hj Q). rdy.
      * pose proof (f2_ok s R j u Hj) as SK. unfold seen_ok in *. cbn [set_upc ukd upcf uruns useen]. rewrite Hu in SK.
        destruct (ukd u); exact SK.
    + eapply res_frame; [exact R|..]; simp_st; auto.
  - frames. eapply res_frame; try exact R; simp_st; rew_hyps; auto. rdy.
  - exact R.
  - eapply res_frame; [exact R|..]; simp_st; auto.
  - eapply res_frame; [exact R|..]; simp_st; auto.
  - destruct (give_early (users s)) as [us|] eqn:G.
    + destruct (give_early_spec _ _ G) as (j & u & Hj & Hu & ->). frames.
      eapply (res_set_user s _ j u (set_upc u UWait1) R Hj); simp_st; rew_hyps; auto.
      * unfold is_ready; simp_st; rew_hyps; auto.
      * cbn [set_upc uflag]. intros Q. pose proof (f3_ok s R j u Hj Q). rdy.
      * pose proof (f2_ok s R j u Hj) as SK. unfold seen_ok in *. cbn [set_upc ukd upcf uruns useen]. rewrite Hu in SK.
        destruct (ukd u); exact SK.
    + eapply (res_frame s); try exact R; simp_st; auto.
Qed.

Ltac seen_tac Hj R IA :=
  match type of Hj with nth_error (users ?s) ?j = Some ?u =>
    let SK := fresh "SK" in let K := fresh "K" in
    pose proof (f2_ok s R j u Hj) as SK; pose proof (kd_ok s IA j u Hj) as (K & _);
    unfold seen_ok, kind_pc in *; cbn [set_upc ukd upcf uruns useen uflag ucp] in *; rew_hyps;
    try (destruct (ukd u) as [| |[| |]] eqn:?; cbn [first_action] in *; try (destruct (ucp u)); try exact SK; try tauto)
  end.

Lemma res_ustep s j : Inv s -> Res s -> enabled s (S (S j)) = true -> Res (fst (ustep s j)).
Proof.
  intros I R E. pose proof (proj1 I) as IA. cbn [enabled] in E.
  destruct (nth_error (users s) j) as [u|] eqn:Hj; [|discriminate].
  unfold ustep. rewrite Hj. destruct (upcf u) eqn:PC; try discriminate; cbn [fst].
  all: destruct (alive_user s j u IA Hj ltac:(rewrite PC; cbn; lia)) as (A & B).
  - (* UWait1 *)
    eapply (res_set_user s _ j u _ R Hj); simp_st; auto.
    + cbn [set_upc uflag]. intros Q. exact (f3_ok s R j u Hj Q).
    + seen_tac Hj R IA.
  - (* UInc *)
    frames. eapply (res_set_user s _ j u _ R Hj); simp_st; rew_hyps; auto; try rdy.
    + cbn [set_upc uflag]. intros Q. pose proof (f3_ok s R j u Hj Q). rdy.
    + seen_tac Hj R IA.
  - (* UDecO *)
    frames. eapply (res_set_user s _ j u _ R Hj); simp_st; rew_hyps; auto; try rdy.
    + cbn [set_upc uflag]. intros Q. pose proof (f3_ok s R j u Hj Q). rdy.
    + seen_tac Hj R IA.
  - (* UReady *)
    rewrite touch_alive by exact A. destruct (ukd u) as [| |k] eqn:KD.
    + eapply (res_set_user s _ j u _ R Hj); simp_st; auto.
      * cbn [set_upc uflag]. intros Q. exact (f3_ok s R j u Hj Q).
      * seen_tac Hj R IA.
    + eapply (res_set_user s _ j u _ R Hj); simp_st; auto.
      * cbn [uflag]. intros Q. exact (f3_ok s R j u Hj Q).
      * pose proof (f2_ok s R j u Hj) as SK. unfold seen_ok in *. cbn [ukd upcf uruns useen]. rewrite KD, PC in *.
        destruct SK as (-> & _). split; [reflexivity|]. destruct (slot s) eqn:SL; auto.
        left. rewrite (ready_payload s IA R); [reflexivity|]. unfold is_ready. rewrite SL. reflexivity.
    + destruct (slot s) eqn:SL.
      * eapply (res_set_user s _ j u _ R Hj); simp_st; auto.
        -- cbn [set_upc uflag]. intros Q. exact (f3_ok s R j u Hj Q).
        -- seen_tac Hj R IA.
      * apply (res_fu s j u k IA R Hj); [rewrite PC; reflexivity|unfold is_ready; rewrite SL; reflexivity|exact KD|congruence].
  - (* USub *)
    rewrite touch_alive by exact A.
    pose proof (kd_ok s IA j u Hj) as (K & _). unfold kind_pc in K. rewrite PC in K.
    destruct (ukd u) as [| |k] eqn:KD; try contradiction.
    destruct (slot s) as [l|] eqn:SL.
    + destruct (onode_eqb (head l) exp).
      * eapply (res_set_user s _ j u _ R Hj); simp_st; auto; try rdy.
        -- cbn [set_upc uflag]. intros Q. pose proof (f3_ok s R j u Hj Q). rdy.
        -- pose proof (f2_ok s R j u Hj) as SK. unfold seen_ok in *. cbn [set_upc ukd upcf uruns useen]. rewrite KD, PC in *.
           destruct k; exact SK.
      * eapply (res_set_user s _ j u _ R Hj); simp_st; auto.
        -- cbn [set_upc uflag]. intros Q. exact (f3_ok s R j u Hj Q).
        -- pose proof (f2_ok s R j u Hj) as SK. unfold seen_ok in *. cbn [set_upc ukd upcf uruns useen]. rewrite KD, PC in *. exact SK.
    + apply (res_fu s j u k IA R Hj); [rewrite PC; reflexivity|unfold is_ready; rewrite SL; reflexivity|exact KD|congruence].
  - (* UFlag *)
    pose proof (kd_ok s IA j u Hj) as (K & _). unfold kind_pc in K. rewrite PC in K.
    destruct (ukd u) as [| |k] eqn:KD; try contradiction.
    apply (res_fu s j u k IA R Hj); [rewrite PC; reflexivity|exact (f3_ok s R j u Hj E)|exact KD|congruence].
  - (* UDec *)
    frames. eapply (res_set_user s _ j u _ R Hj); simp_st; rew_hyps; auto; try rdy.
    + cbn [set_upc uflag]. intros Q. pose proof (f3_ok s R j u Hj Q). rdy.
    + seen_tac Hj R IA.
  - (* UAsg *)
    eapply (res_set_user s _ j u _ R Hj); simp_st; auto.
    + cbn [set_upc uflag]. intros Q. exact (f3_ok s R j u Hj Q).
    + seen_tac Hj R IA.
Qed.

Lemma res_rstep_in s : Inv s -> Res s -> enabled s 1 = true -> Res (fst (rstep_in s)).
Proof.
  intros I R E. pose proof (proj1 I) as IA. cbn [enabled] in E. pose proof (md_ok s R) as M. pose proof (f1_ok s R) as F1.
  unfold rstep_in. destruct (rpcf s) eqn:RP; try discriminate; cbn [fst].
  - eapply (res_frame2 s); simp_st; auto.
    + destruct (mode s); auto. destruct M; discriminate.
    + destruct (mode s); auto.
  - frames. eapply (res_frame2 s); simp_st; rew_hyps; auto; try rdy.
    + destruct (mode s); auto. destruct M; discriminate.
    + unfold expd. destruct (mode s); auto. destruct M; discriminate.
  - frames. eapply (res_frame2 s); simp_st; rew_hyps; auto; try rdy.
    destruct (mode s); auto. destruct M; discriminate.
  - destruct (walk s) as [|[|w] t] eqn:WK; cbn [fst].
    + exact R.
    + frames. eapply (res_frame2 s); simp_st; rew_hyps; auto; try rdy.
      destruct (mode s); auto. destruct M; discriminate.
    + assert (RY : is_ready s = true) by (pose proof (rs_ok s IA) as Q; rewrite RP in Q; exact Q).
      assert (R0 : Res (set_walk s t)) by (eapply res_frame; [exact R|..]; simp_st; auto).
      unfold release_node. simp_st. destruct (nth_error (users s) w) as [u|] eqn:Hw; [|exact R0].
      assert (Hw0 : nth_error (users (set_walk s t)) w = Some u) by exact Hw.
      destruct (ukd u) as [| |[| |]] eqn:KD.
      1,2,4: eapply (res_set_user (set_walk s t) _ w u _ R0 Hw0); simp_st; auto;
        try (intros _; exact RY);
        try (pose proof (f2_ok s R w u Hw) as SK; unfold seen_ok in *; cbn [ukd upcf uruns useen]; rewrite KD in *; exact SK).
      * eapply res_frame; [exact R0|..]; simp_st; auto.
      * (* callback *)
        destruct I as [_ OC].
        assert (P : 1 <= inl (users s) w).
        { specialize (OC w). unfold occ in OC. rewrite WK in OC. autorewrite with cntdb in OC. rewrite Nat.eqb_refl in OC. lia. }
        destruct (inl_pos _ _ P) as (u' & Hw' & IL). rewrite Hw in Hw'. inversion Hw'; subst u'.
        assert (IA0 : InvA (set_walk s t)). { open_invA IA. constructor; go. }
        apply (res_fu (set_walk s t) w u WCallback IA0 R0 Hw0 (inlist_handles u IL) RY KD).
        unfold inlist in IL. destruct (upcf u); discriminate.
  - frames. eapply (res_frame2 s); simp_st; rew_hyps; simp_st; rew_hyps; auto; try rdy.
    destruct (mode s); auto. destruct M; discriminate.
  - eapply (res_frame2 s); simp_st; auto. destruct (mode s); auto. destruct M; discriminate.
  - eapply (res_frame2 s); simp_st; auto. destruct (mode s); auto. destruct M; discriminate.
  - frames. eapply (res_frame2 s); simp_st; rew_hyps; auto; try rdy.
    + destruct (mode s); auto. destruct M; discriminate.
    + unfold expd. destruct (mode s); auto. destruct M; discriminate.
Qed.

Lemma res_rstep s : Inv s -> Res s -> enabled s 1 = true -> Res (fst (rstep s)).
Proof.
  intros I R E. rewrite rstep_in_eq. destruct (inv_rstep_in s I E) as (A & B).
  pose proof (res_rstep_in s I R E) as RI.
  destruct (snd (rstep_in s)); [apply res_mf; auto|exact RI].
Qed.

Theorem res_step s i : Inv s -> Res s -> enabled s i = true -> Res (fst (tstep s i)).
Proof.
  intros I R E. destruct i as [|[|j]]; cbn [tstep].
  - apply res_cstep. exact R.
  - apply res_rstep; assumption.
  - apply res_ustep; assumption.
Qed.

Theorem res_reachable ops s : reachable ops s -> Res s.
Proof.
  induction 1; [apply res_init|]. apply res_step; auto. eapply inv_reachable; eassumption.
Qed.

(* ---------- run-level statements ---------- *)
Definition result_of_ops (ops : list (list Z)) : outcome :=
  match mode_of ops with MPre v => OVal v | _ => payload_of (res_of ops) end.

Lemma mode_rk_const ops s : reachable ops s -> mode s = mode_of ops /\ rk s = res_of ops.
Proof.
  induction 1 as [|s i R IH E]; [split; reflexivity|].
  destruct IH as (M & K). destruct i as [|[|j]]; cbn [tstep].
  - pose proof (prog_cstep s) as _. unfold cstep.
    destruct (cpcf s); cbn [fst]; try (destruct (mode s) eqn:MM); frames; unfold after_charge;
      repeat match goal with |- context[match ?x with _ => _ end] => destruct x end; simp_st; rew_hyps; simp_st; rew_hyps; auto.
  - destruct (rdone s) eqn:RD.
    + unfold rdone in RD. unfold rstep. destruct (rpcf s); try discriminate. cbn [fst]. auto.
    + destruct (keeps_rstep s RD) as (_ & K2 & K3 & _). split; congruence.
  - destruct (keeps_ustep s j) as (_ & K2 & K3 & _). split; congruence.
Qed.

(* every copy observes the same single result: whatever a user has picked up — through its own handle or a copy of
   it, by co_await, sync(), callback or poll — is the resolver's declared result (a poll may also see "not ready") *)
Theorem one_result_all_copies ops s j u o : reachable ops s -> nth_error (users s) j = Some u -> useen u = Some o ->
  o = result_of_ops ops \/ (ukd u = UKPoll /\ o = ONotReady).
Proof.
  intros R H S. pose proof (f2_ok s (res_reachable ops s R) j u H) as SK.
  destruct (mode_rk_const ops s R) as (M & K).
  assert (EX : expd s = result_of_ops ops) by (unfold expd, result_of_ops; rewrite M, K; reflexivity).
  rewrite EX in SK. unfold seen_ok in SK. rewrite S in SK.
  destruct (ukd u); [destruct SK; discriminate| |].
  - destruct (upcf u); destruct SK as (_ & Q); try discriminate; destruct Q as [Q|Q]; inversion Q; auto.
  - destruct (upcf u); destruct SK as (_ & Q); try discriminate; inversion Q; auto.
Qed.

(* every awaiter is resumed at most once, and exactly once with the result when it has finished *)
Theorem awaiters_once ops s j u k : reachable ops s -> nth_error (users s) j = Some u -> ukd u = UKAwait k ->
  uruns u <= 1 /\ (upcf u = UDone -> uruns u = 1 /\ useen u = Some (result_of_ops ops)) /\
  (upcf u <> UDone -> uruns u = 0 /\ useen u = None).
Proof.
  intros R H KD. pose proof (f2_ok s (res_reachable ops s R) j u H) as SK.
  destruct (mode_rk_const ops s R) as (M & K).
  assert (EX : expd s = result_of_ops ops) by (unfold expd, result_of_ops; rewrite M, K; reflexivity).
  rewrite EX in SK. unfold seen_ok in SK. rewrite KD in SK.
  destruct (upcf u); destruct SK as (Q1 & Q2); repeat split; try lia; try congruence; intros; try congruence.
Qed.

(* at the end every awaiter, through whichever copy, has been resumed exactly once with the one result *)
Theorem terminal_awaiters ops s j u k : reachable ops s -> terminal s -> nth_error (users s) j = Some u ->
  ukd u = UKAwait k -> uruns u = 1 /\ useen u = Some (result_of_ops ops).
Proof.
  intros R T H KD. destruct (terminal_all_done ops s R T) as (_ & _ & UD & _).
  destruct (awaiters_once ops s j u k R H KD) as (_ & Q & _). apply Q. eapply UD. exact H.
Qed.
