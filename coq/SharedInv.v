(* SharedInv.v — invariants of the shared_future model, for every construction mode, resolver kind,
   any number of user threads of any kinds and every schedule (induction over reachability). *)
From Cocls Require Import Base BaseProofs SharedDefs.
Require Import ZifyBool.
Ltac Zify.zify_post_hook ::= Z.div_mod_to_equations.
Local Open Scope nat_scope.

Inductive reachable (ops : list (list Z)) : st -> Prop :=
| r_init : reachable ops (init ops)
| r_step s i : reachable ops s -> enabled s i = true -> reachable ops (fst (tstep s i)).

(* ---------- counting ---------- *)
Definition b2n (b : bool) : nat := if b then 1 else 0.
(* handles owned by the creator / by a user at a given pc *)
Definition cpc_handles (m : cmode) (pc : cpc) : nat :=
  match pc with CDrop O => 1 | CDrop k => k | CDone => 0 | _ => own_handles m end.
Definition upc_handles (pc : upc) : nat :=
  match pc with UWait0 | UDone => 0 | UDecO => 2 | _ => 1 end.
Fixpoint sumu (l : list uthr) : nat :=
  match l with [] => 0 | u :: r => upc_handles (upcf u) + sumu r end.
Definition nh (s : st) : nat := cpc_handles (mode s) (cpcf s) + sumu (users s).

Fixpoint cnt (n : node) (l : list node) : nat :=
  match l with [] => 0 | x :: r => (if node_eqb n x then 1 else 0) + cnt n r end.
Fixpoint cntn (w : nat) (l : list nat) : nat :=
  match l with [] => 0 | x :: r => (if Nat.eqb w x then 1 else 0) + cntn w r end.
Definition chain (s : st) : list node := match slot s with SChain l => l | SReady => [] end.
Definition tcount (s : st) : nat :=
  cnt NT (chain s) + cnt NT (walk s) + match rpcf s with RClr => 1 | _ => 0 end.
(* a user whose awaiter is linked in the chain / the detached rest / the suspend point *)
Definition inlist (u : uthr) : nat :=
  match upcf u with UParked => 1 | UFlag => if uflag u then 0 else 1 | _ => 0 end.
Definition inl (us : list uthr) (w : nat) : nat :=
  match nth_error us w with Some u => inlist u | None => 0 end.
Definition occ (s : st) (w : nat) : nat :=
  cnt (NU w) (chain s) + cnt (NU w) (walk s) + cntn w (acc s).
Definition is_ready (s : st) : bool := match slot s with SReady => true | _ => false end.

Arguments sumu : simpl never.
Arguments cnt : simpl never.
Arguments cntn : simpl never.

(* which kinds can stand at which pc *)
Definition kind_pc (u : uthr) : Prop :=
  match upcf u, ukd u with
  | UFlag, UKAwait WBlock => True
  | UFlag, _ => False
  | UParked, UKAwait WCoro | UParked, UKAwait WCallback => True
  | UParked, _ => False
  | USub _ _, UKAwait _ => True
  | USub _ _, _ => False
  | UDec, UKAwait _ => False
  | _, _ => True
  end.
(* the sync_awaiter flag is raised only by the resolver's release of a blocked user *)
Definition kind_ok (u : uthr) : Prop :=
  kind_pc u /\ (uflag u = true -> upcf u = UFlag \/ upcf u = UDone).

Record InvA (s : st) : Prop := {
  (* reference count = handles + self reference, positive while the state lives *)
  rc_ok : freed s = 0 -> rc s = nh s + b2n (selfref s) /\ 1 <= rc s;
  fr_ok : freed s <= 1 /\ (freed s = 1 -> rc s = 0 /\ nh s = 0 /\ selfref s = false);
  uaf_ok : uaf s = 0;
  pd_ok : pctor s <= 1 /\ pdtor s = freed s * pctor s;
  (* the self reference exists exactly while charge is between `_ptr = ptr` and its outcome, or the tracer is linked *)
  tr_ok : match cpcf s with
          | CClaim | CDtor | CSet | CGate1 | CGate2 | CGiveE => selfref s = false /\ tcount s = 0
          | CSub _ _ => selfref s = true /\ tcount s = 0
          | CClr => selfref s = true /\ tcount s = 0 /\ is_ready s = true
          | _ => tcount s = b2n (selfref s) /\ (is_ready s = true \/ selfref s = true)
          end;
  (* the resolver's pc and the slot *)
  rs_ok : match rpcf s with
          | RXWait | RClaim | RResolve | RG1 | RG2 | RG3 => is_ready s = false /\ walk s = [] /\ acc s = []
          | RWalk | RClr => is_ready s = true
          | RDone _ => is_ready s = true /\ walk s = [] /\ acc s = []
          end;
  kd_ok : forall j u, nth_error (users s) j = Some u -> kind_ok u
}.
(* every parked / blocked user is linked exactly once (chain, detached rest or suspend point), nobody else is *)
Definition Inv (s : st) : Prop := InvA s /\ forall w, occ s w = inl (users s) w.

(* ---------- list bookkeeping ---------- *)
Lemma set_nth_length {A} (l : list A) i x : length (set_nth l i x) = length l.
Proof. revert i; induction l as [|y l IH]; intros [|i]; cbn; auto. Qed.

Lemma nth_set_nth {A} (l : list A) i j x y : nth_error l i = Some y ->
  nth_error (set_nth l i x) j = if Nat.eqb i j then Some x else nth_error l j.
Proof.
  intros H. destruct (Nat.eqb_spec i j) as [->|N].
  - apply nth_error_set_nth_same. apply nth_error_Some. congruence.
  - apply nth_error_set_nth_other. exact N.
Qed.

Lemma sumu_cons u r : sumu (u :: r) = upc_handles (upcf u) + sumu r.
Proof. reflexivity. Qed.

Lemma sumu_set_nth l : forall j u u', nth_error l j = Some u ->
  sumu (set_nth l j u') + upc_handles (upcf u) = sumu l + upc_handles (upcf u').
Proof.
  induction l as [|x l IH]; intros [|j] u u' H; cbn [nth_error set_nth] in *; try discriminate.
  - inversion H; subst. rewrite !sumu_cons. lia.
  - rewrite !sumu_cons. specialize (IH j u u' H). lia.
Qed.

Lemma sumu_ge l : forall j u, nth_error l j = Some u -> upc_handles (upcf u) <= sumu l.
Proof.
  induction l as [|x l IH]; intros [|j] u H; cbn [nth_error] in *; try discriminate.
  - inversion H; subst. rewrite sumu_cons. lia.
  - rewrite sumu_cons. specialize (IH j u H). lia.
Qed.

Lemma inl_set_nth l j u u' w : nth_error l j = Some u ->
  inl (set_nth l j u') w = if Nat.eqb j w then inlist u' else inl l w.
Proof.
  intros H. unfold inl. rewrite (nth_set_nth l j w u' u H). destruct (Nat.eqb j w); reflexivity.
Qed.

Lemma cnt_nil n : cnt n [] = 0. Proof. reflexivity. Qed.
Lemma cnt_cons n x r : cnt n (x :: r) = (if node_eqb n x then 1 else 0) + cnt n r. Proof. reflexivity. Qed.
Lemma cntn_nil n : cntn n [] = 0. Proof. reflexivity. Qed.
Lemma cntn_cons n x r : cntn n (x :: r) = (if Nat.eqb n x then 1 else 0) + cntn n r. Proof. reflexivity. Qed.
Lemma cntn_app n a b : cntn n (a ++ b) = cntn n a + cntn n b.
Proof. induction a as [|x a IH]; cbn [app]; rewrite ?cntn_nil, ?cntn_cons; lia. Qed.

Lemma node_eqb_NU a b : node_eqb (NU a) (NU b) = Nat.eqb a b. Proof. reflexivity. Qed.
Lemma node_eqb_NT_NU b : node_eqb NT (NU b) = false. Proof. reflexivity. Qed.
Lemma node_eqb_NU_NT b : node_eqb (NU b) NT = false. Proof. reflexivity. Qed.
Lemma node_eqb_NT : node_eqb NT NT = true. Proof. reflexivity. Qed.

(* ---------- normal forms of the counter operations on a live state ---------- *)
Definition dropped (s : st) : st := if Nat.eqb (rc s) 1 then free_state s else set_rc s (rc s - 1).

Lemma touch_alive s : freed s = 0 -> touch s = s.
Proof. unfold touch. intros ->. reflexivity. Qed.
Lemma add_ref_alive s : freed s = 0 -> add_ref s = set_rc s (S (rc s)).
Proof. intros H. unfold add_ref. rewrite touch_alive by exact H. reflexivity. Qed.
Lemma drop_ref_alive s : freed s = 0 -> 1 <= rc s -> drop_ref s = dropped s.
Proof.
  intros H R. unfold drop_ref, dropped. rewrite touch_alive by exact H.
  destruct (rc s) as [|[|n]] eqn:E; [lia|reflexivity|].
  cbn [Nat.eqb]. f_equal; lia.
Qed.

Lemma alive_of_handles s : InvA s -> 1 <= nh s -> freed s = 0 /\ 1 <= rc s.
Proof.
  intros I H. destruct (fr_ok s I) as (F1 & F2).
  assert (freed s = 0) as Z by (destruct (freed s) as [|[|n]]; [reflexivity| |lia]; destruct (F2 eq_refl); lia).
  split; [exact Z|]. apply (rc_ok s I Z).
Qed.

Lemma alive_of_selfref s : InvA s -> selfref s = true -> freed s = 0 /\ 1 <= rc s.
Proof.
  intros I H. destruct (fr_ok s I) as (F1 & F2).
  assert (freed s = 0) as Z.
  { destruct (freed s) as [|[|n]]; [reflexivity| |lia]. destruct (F2 eq_refl) as (_ & _ & Q). congruence. }
  split; [exact Z|]. apply (rc_ok s I Z).
Qed.

Lemma alive_creator s : InvA s -> cpcf s <> CDone -> freed s = 0 /\ 1 <= rc s.
Proof.
  intros I H. apply alive_of_handles; [exact I|]. unfold nh.
  destruct (cpcf s) as [| | | | | |[|k]| | | |]; try congruence; destruct (mode s); cbn; lia.
Qed.

Lemma alive_user s j u : InvA s -> nth_error (users s) j = Some u -> 1 <= upc_handles (upcf u) ->
  freed s = 0 /\ 1 <= rc s.
Proof.
  intros I H U. apply alive_of_handles; [exact I|]. unfold nh. pose proof (sumu_ge _ _ _ H). lia.
Qed.

(* while the future is pending the state is alive: the creator is still inside the constructor / get_promise,
   or the tracer holds the self reference *)
Lemma alive_pending s : InvA s -> is_ready s = false -> freed s = 0 /\ 1 <= rc s.
Proof.
  intros I H. pose proof (tr_ok s I) as TR.
  destruct (cpcf s) eqn:C;
    try (apply alive_creator; [exact I|congruence]).
  - destruct TR as (_ & [Q|Q]); [congruence|]. apply alive_of_selfref; assumption.
Qed.

Lemma alive_tracer s : InvA s -> 1 <= tcount s -> freed s = 0 /\ 1 <= rc s.
Proof.
  intros I H. pose proof (tr_ok s I) as TR.
  destruct (cpcf s) eqn:C; try (apply alive_creator; [exact I|congruence]).
  destruct TR as (Q & _). apply alive_of_selfref; [exact I|]. destruct (selfref s); [reflexivity|cbn in Q; lia].
Qed.

(* ---------- initial state ---------- *)
Lemma decode_user_wait0 ops u : In u (flat_map decode_user ops) -> upcf u = UWait0.
Proof.
  intros H. apply in_flat_map in H. destruct H as (l & _ & H). unfold decode_user in H.
  repeat match type of H with
  | In _ (match ?x with _ => _ end) => destruct x; cbn [In] in H; try contradiction
  end.
  destruct H as [ <- |[]]. reflexivity.
Qed.

Lemma sumu_wait0 l : (forall u, In u l -> upcf u = UWait0) -> sumu l = 0.
Proof.
  induction l as [|x l IH]; intros H; [reflexivity|]. rewrite sumu_cons, IH.
  - rewrite (H x (or_introl eq_refl)). reflexivity.
  - intros u Hu. apply H. right. exact Hu.
Qed.

Lemma inl_wait0 l w : (forall u, In u l -> upcf u = UWait0) -> inl l w = 0.
Proof.
  intros H. unfold inl. destruct (nth_error l w) as [u|] eqn:E; [|reflexivity].
  apply nth_error_In in E. unfold inlist. rewrite (H u E). reflexivity.
Qed.

Ltac simp_st :=
  cbn [mode rk cpcf rpcf slot payload rc selfref freed pctor pdtor uaf pavail walk acc users
       set_cpc set_rpc set_users set_user set_slot set_payload set_rc set_selfref set_pavail set_walk set_acc
       bump_uaf free_state] in *.

Lemma cpc_handles_next us m : cpc_handles m (next_give us m) = own_handles m.
Proof. unfold next_give. destruct (existsb is_wait0 us); [reflexivity|]. destruct m; reflexivity. Qed.

Lemma cpc_handles_next_early us m : cpc_handles m (next_early us) = own_handles m.
Proof. unfold next_early. destruct (existsb is_early us); reflexivity. Qed.

Lemma inv_init ops : Inv (init ops).
Proof.
  pose proof (decode_user_wait0 ops) as W.
  unfold init. set (us := flat_map decode_user ops) in *. set (m := mode_of ops).
  split; [constructor|]; simp_st; unfold nh, tcount, occ, chain, is_ready; simp_st.
  - intros _. rewrite (sumu_wait0 us W). unfold init_cpc.
    destruct m; try rewrite cpc_handles_next; try rewrite cpc_handles_next_early; cbn; lia.
  - split; [lia|discriminate].
  - reflexivity.
  - destruct m; cbn; lia.
  - unfold init_cpc, next_give, next_early. destruct m; cbn; try (destruct (existsb is_wait0 us)); try (destruct (existsb is_early us)); cbn; auto.
  - destruct m; cbn; auto.
  - intros j u H. pose proof H as H2. apply nth_error_In in H. unfold kind_ok, kind_pc. rewrite (W u H). split; [destruct (ukd u); exact I|].
    apply in_flat_map in H. destruct H as (l & _ & H). unfold decode_user in H.
    repeat match type of H with
    | In _ (match ?x with _ => _ end) => destruct x; cbn [In] in H; try contradiction
    end.
    destruct H as [ <- |[]]. cbn. discriminate.
  - intros w. rewrite (inl_wait0 us w W). destruct m; reflexivity.
Qed.

(* ---------- steps ---------- *)
Global Hint Rewrite cnt_nil cnt_cons cntn_nil cntn_cons cntn_app node_eqb_NU node_eqb_NT_NU node_eqb_NU_NT node_eqb_NT : cntdb.

Ltac open_inv I :=
  let I1 := fresh "Irc" in let I2 := fresh "Ifr" in let I3 := fresh "Iuaf" in let I4 := fresh "Ipd" in
  let I5 := fresh "Itr" in let I6 := fresh "Irs" in let I7 := fresh "Ioc" in let I8 := fresh "Ikd" in
  destruct I as [[I1 I2 I3 I4 I5 I6 I8] I7].
Ltac open_invA I :=
  let I1 := fresh "Irc" in let I2 := fresh "Ifr" in let I3 := fresh "Iuaf" in let I4 := fresh "Ipd" in
  let I5 := fresh "Itr" in let I6 := fresh "Irs" in let I8 := fresh "Ikd" in
  destruct I as [I1 I2 I3 I4 I5 I6 I8].
Ltac mk_inv := split; [constructor|].

Ltac unf := unfold nh, tcount, occ, chain, is_ready, after_charge in *; simp_st.

Lemma dropped_fields s :
  mode (dropped s) = mode s /\ rk (dropped s) = rk s /\ cpcf (dropped s) = cpcf s /\ rpcf (dropped s) = rpcf s /\
  slot (dropped s) = slot s /\ payload (dropped s) = payload s /\ selfref (dropped s) = selfref s /\
  pctor (dropped s) = pctor s /\ uaf (dropped s) = uaf s /\ pavail (dropped s) = pavail s /\
  walk (dropped s) = walk s /\ acc (dropped s) = acc s /\ users (dropped s) = users s.
Proof. unfold dropped. destruct (Nat.eqb (rc s) 1); cbn; repeat split. Qed.

Lemma dropped_counts s : 1 <= rc s ->
  (rc s = 1 /\ rc (dropped s) = 0 /\ freed (dropped s) = S (freed s) /\ pdtor (dropped s) = pdtor s + pctor s) \/
  (2 <= rc s /\ rc (dropped s) = rc s - 1 /\ freed (dropped s) = freed s /\ pdtor (dropped s) = pdtor s).
Proof.
  intros H. unfold dropped. destruct (Nat.eqb_spec (rc s) 1) as [E|E]; cbn; [left|right]; repeat split; lia.
Qed.

Ltac show_goals := match goal with |- ?G => idtac "GOAL" G end.

Lemma b2n_true : b2n true = 1. Proof. reflexivity. Qed.
Lemma b2n_false : b2n false = 0. Proof. reflexivity. Qed.

(* rewrite with H everywhere, but only when its left-hand side occurs somewhere else (a failing `rewrite .. in *` is costly) *)
Ltac rew1 H :=
  match type of H with ?l = _ =>
    first [ match goal with |- context[l] => idtac end
          | match goal with H' : context[l] |- _ => tryif constr_eq H H' then fail else idtac end ];
    progress (rewrite H in * )
  end.

Ltac rew_hyps :=
  repeat match goal with
  | H : cpcf _ = _ |- _ => rew1 H
  | H : rpcf _ = _ |- _ => rew1 H
  | H : slot _ = _ |- _ => rew1 H
  | H : selfref _ = _ |- _ => rew1 H
  | H : mode _ = _ |- _ => rew1 H
  | H : walk _ = _ |- _ => rew1 H
  | H : acc _ = _ |- _ => rew1 H
  | H : freed _ = _ |- _ => rew1 H
  | H : users _ = _ |- _ => rew1 H
  | H : payload _ = _ |- _ => rew1 H
  | H : pctor _ = _ |- _ => rew1 H
  | H : pdtor _ = _ |- _ => rew1 H
  | H : uaf _ = _ |- _ => rew1 H
  | H : pavail _ = _ |- _ => rew1 H
  | H : rk _ = _ |- _ => rew1 H
  | H : rc _ = _ |- _ => rew1 H
  | H : upcf _ = _ |- _ => rew1 H
  | H : ukd _ = _ |- _ => rew1 H
  | H : uflag _ = _ |- _ => rew1 H
  end.

(* replace `dropped x` by an opaque state d with known fields; two cases: last reference or not *)
Ltac use_dropped x HB :=
  let DF := fresh "DF" in let DC := fresh "DC" in let d := fresh "d" in
  pose proof (dropped_fields x) as DF; pose proof (dropped_counts x HB) as DC;
  set (d := dropped x) in *; clearbody d; simp_st;
  destruct DF as (?DF & ?DF & ?DF & ?DF & ?DF & ?DF & ?DF & ?DF & ?DF & ?DF & ?DF & ?DF & ?DF);
  destruct DC as [(?DC & ?DC & ?DC & ?DC)|(?DC & ?DC & ?DC & ?DC)].

Lemma give_spec l : forall us, give l = Some us ->
  exists j u, nth_error l j = Some u /\ upcf u = UWait0 /\ us = set_nth l j (set_upc u UWait1).
Proof.
  induction l as [|x l IH]; intros us H; cbn [give] in H; [discriminate|].
  unfold is_wait0 in H. destruct (upcf x) eqn:E;
    try (destruct (give l) as [r|] eqn:G; [|discriminate]; inversion H; subst;
         destruct (IH r eq_refl) as (j & u & A & B & ->); exists (S j), u; repeat split; assumption).
  inversion H; subst. exists 0, x. repeat split. exact E.
Qed.

Lemma give_none l : give l = None -> existsb is_wait0 l = false.
Proof.
  induction l as [|x l IH]; intros H; cbn [give existsb] in *; [reflexivity|].
  destruct (is_wait0 x); [discriminate|]. destruct (give l); [discriminate|]. cbn. apply IH. reflexivity.
Qed.

Lemma give_early_spec l : forall us, give_early l = Some us ->
  exists j u, nth_error l j = Some u /\ upcf u = UWait0 /\ us = set_nth l j (set_upc u UWait1).
Proof.
  induction l as [|x l IH]; intros us H; cbn [give_early] in H; [discriminate|].
  destruct (is_early x) eqn:E.
  - inversion H; subst. exists 0, x. repeat split. unfold is_early, is_wait0 in E. apply andb_prop in E. destruct E as (E & _).
    destruct (upcf x); try discriminate. reflexivity.
  - destruct (give_early l) as [r|] eqn:G; [|discriminate]. inversion H; subst.
    destruct (IH r eq_refl) as (j & u & A & B & ->). exists (S j), u. repeat split; assumption.
Qed.

Lemma kd_set_nth l j u u' :
  (forall j0 u0, nth_error l j0 = Some u0 -> kind_ok u0) -> nth_error l j = Some u -> kind_ok u' ->
  forall j0 u0, nth_error (set_nth l j u') j0 = Some u0 -> kind_ok u0.
Proof.
  intros K H K' j0 u0 Q. rewrite (nth_set_nth l j j0 u' u H) in Q. destruct (Nat.eqb j j0).
  - inversion Q; subst. exact K'.
  - eapply K; eassumption.
Qed.


Ltac norm :=
  autorewrite with cntdb in *; rewrite ?b2n_true, ?b2n_false, ?Nat.eqb_refl in *;
  repeat match goal with
  | N : ?a <> ?b |- context[Nat.eqb ?b ?a] => rewrite (proj2 (Nat.eqb_neq b a)) by auto
  | N : ?a <> ?b |- context[Nat.eqb ?a ?b] => rewrite (proj2 (Nat.eqb_neq a b)) by auto
  | N : ?a <> ?b, H : context[Nat.eqb ?b ?a] |- _ => rewrite (proj2 (Nat.eqb_neq b a)) in H by auto
  | N : ?a <> ?b, H : context[Nat.eqb ?a ?b] |- _ => rewrite (proj2 (Nat.eqb_neq a b)) in H by auto
  end;
  try rewrite cpc_handles_next; try rewrite cpc_handles_next_early; cbn [cpc_handles own_handles] in *.

Ltac split_hyps :=
  repeat match goal with
  | H : _ /\ _ |- _ => destruct H
  end.

Ltac fin := try assumption; repeat split; try assumption; try lia; try congruence; try tauto; auto.

Ltac user_fields := cbn [ucp ukd upcf uflag useen uruns set_upc upc_handles] in *.

(* normalise the context once, before the goal is split into the clauses of the invariant *)
Ltac pre :=
  try match goal with
  | Ikd : forall j u, nth_error (users _) j = Some u -> kind_ok u, Hj : nth_error (users _) ?j = Some ?u |- _ =>
      let K := fresh "K" in pose proof (Ikd j u Hj) as K; unfold kind_ok, kind_pc in K
  end;
  unf; rew_hyps; norm; split_hyps; rew_hyps; norm.

Ltac go :=
  try match goal with
  | Ikd : forall j u, nth_error (users _) j = Some u -> kind_ok u, Hj : nth_error (users _) ?j = Some ?u |- _ =>
      let K := fresh "K" in pose proof (Ikd j u Hj) as K; unfold kind_ok, kind_pc in K
  end;
  unf; rew_hyps; norm; split_hyps; rew_hyps; norm;
  try (unfold next_give; destruct (existsb is_wait0 _));
  try (unfold next_early; destruct (existsb is_early _));
  try match goal with
  | Ioc : forall w, _ = inl _ w |- forall w : nat, @?P w = @?Q w => let w := fresh "w" in intros w; specialize (Ioc w); norm
  end;
  try match goal with
  | Hj : nth_error (users _) ?j = Some ?u |- context[inl (set_nth _ ?j ?u') ?w] =>
      rewrite (inl_set_nth _ j u u' w Hj);
      destruct (Nat.eqb_spec j w); [subst; unfold inl in *; rewrite Hj in *|];
      unfold inlist in *; user_fields; rew_hyps; norm
  end;
  try match goal with
  | Ikd : forall j u, nth_error (users _) j = Some u -> kind_ok u, Hj : nth_error (users _) ?j = Some ?u
    |- forall j0 u0, nth_error (set_nth _ ?j ?u') j0 = Some u0 -> kind_ok u0 =>
      apply (kd_set_nth _ j u u' Ikd Hj); specialize (Ikd j u Hj); unfold kind_ok, kind_pc in *; user_fields; rew_hyps
  end;
  fin;
  try (let F := fresh "F" in intro F;
       repeat match goal with H : uflag _ = true -> _ |- _ => specialize (H F) end; intuition congruence);
  try (destruct (uflag _) eqn:?; rew_hyps; norm; fin; exfalso;
       repeat match goal with H : true = true -> _ |- _ => specialize (H eq_refl) end; intuition congruence);
  try (destruct (selfref _) eqn:?; rew_hyps; norm; fin);
  try (destruct (rpcf _) eqn:?; rew_hyps; fin);
  try (destruct (rk _); cbn [has_payload]; lia);
  try (destruct (cpcf _) eqn:?; rew_hyps; norm; split_hyps; rew_hyps; norm; fin;
       try (destruct (selfref _) eqn:?; rew_hyps; norm; fin)).

(* an awaiting user that holds one handle picks up the result and lets the handle go *)
Definition done_user (s : st) (u : uthr) : uthr :=
  mkU (ucp u) (ukd u) UDone (uflag u) (Some (payload s)) (S (uruns u)).

Lemma fu_inv s j u : InvA s -> nth_error (users s) j = Some u -> upc_handles (upcf u) = 1 ->
  InvA (finish_user s j) /\
  users (finish_user s j) = set_nth (users s) j (done_user s u) /\
  slot (finish_user s j) = slot s /\ walk (finish_user s j) = walk s /\ acc (finish_user s j) = acc s /\
  rpcf (finish_user s j) = rpcf s /\ cpcf (finish_user s j) = cpcf s /\ mode (finish_user s j) = mode s /\
  rk (finish_user s j) = rk s /\ payload (finish_user s j) = payload s /\ pavail (finish_user s j) = pavail s.
Proof.
  intros I Hj HU. destruct (alive_user s j u I Hj ltac:(lia)) as (A & B). open_invA I. specialize (Irc A).
  unfold finish_user. rewrite Hj. rewrite touch_alive by exact A.
  rewrite drop_ref_alive by (simp_st; assumption).
  pose proof (sumu_set_nth (users s) j u (done_user s u) Hj) as SU. rewrite HU in SU. cbn [done_user upcf upc_handles] in SU.
  fold (done_user s u).
  use_dropped (set_user s j (done_user s u)) B; pre; (split; [constructor|]); go.
Qed.

Ltac upd Hj u' :=
  match type of Hj with nth_error ?l ?j = Some ?u =>
    let SU := fresh "SU" in pose proof (sumu_set_nth l j u u' Hj) as SU; user_fields; rew_hyps; user_fields
  end.

(* own-thread completion of an await: the user is not linked anywhere *)
Lemma fu_self s j u : Inv s -> nth_error (users s) j = Some u -> upc_handles (upcf u) = 1 -> inlist u = 0 ->
  Inv (finish_user s j).
Proof.
  intros [IA OC] Hj HU IL. destruct (fu_inv s j u IA Hj HU) as (IA' & US & SL & WK & AC & _).
  split; [exact IA'|]. intros w. specialize (OC w). unfold occ, chain in *. rewrite SL, WK, AC, US.
  rewrite (inl_set_nth _ j u _ w Hj). destruct (Nat.eqb_spec j w) as [->|N]; [|exact OC].
  unfold inl in OC. rewrite Hj, IL in OC. rewrite OC. reflexivity.
Qed.

(* ---------- the resolver ---------- *)
Lemma inl_pos us w : 1 <= inl us w -> exists u, nth_error us w = Some u /\ inlist u = 1.
Proof.
  unfold inl. destruct (nth_error us w) as [u|]; [|lia]. intros H. exists u. split; [reflexivity|].
  unfold inlist in *. destruct (upcf u); try lia. destruct (uflag u); lia.
Qed.

Lemma inlist_handles u : inlist u = 1 -> upc_handles (upcf u) = 1.
Proof. unfold inlist. destruct (upcf u); try discriminate; reflexivity. Qed.

