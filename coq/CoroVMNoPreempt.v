(* CoroVMNoPreempt.v — C05 no pre-emption (what the code guarantees): while coroutine r keeps running — it has neither
   suspended, nor finished, nor entered async::start() — nobody else gets control. *)
From Cocls Require Import Base CoroVMDefs CoroVMProofs.
Local Open Scope nat_scope.

Definition is_run (e : event) : Prop := match e with ERun _ => True | _ => False end.
Definition marker (r : nat) (e : event) : Prop :=
  match e with ESusp c => c = r | EFin c _ => c = r | ENest c _ => c = r | _ => False end.
Definition quiet_ev (r : nat) (e : event) : Prop := ~ is_run e /\ ~ marker r e.

(* chronological list: the first ERun, if any, comes after a marker of r *)
Fixpoint guarded (r : nat) (l : list event) : Prop :=
  match l with
  | [] => True
  | e :: t => marker r e \/ (~ is_run e /\ guarded r t)
  end.

Section NP.
Variable s0 : st.
Variable r : nat.

(* quiet phase: only harmless events since s0, r still in control, queue installed *)
Definition Qp (s : st) : Prop :=
  exists evs, log s = evs ++ log s0 /\ Forall (quiet_ev r) evs /\ cur s = CRun r /\ active s = true.
(* hit phase: a marker of r was logged, and no ERun before it *)
Definition Hp (s : st) : Prop :=
  exists post mk pre, log s = post ++ mk :: pre ++ log s0 /\ marker r mk /\ Forall (fun e => ~ is_run e) pre.

Lemma Hp_mono : forall s s', Hp s -> ext s s' -> Hp s'.
Proof.
  intros s s' (post&mk&pre&L&M&P) (evs&E). exists (evs ++ post), mk, pre. rewrite E, L, <- app_assoc. auto.
Qed.

Lemma Qp_ev : forall s e, Qp s -> quiet_ev r e -> Qp (ev s e).
Proof. intros s e (evs&L&F&C&A) Qe. exists (e :: evs). cbn. rewrite L. repeat split; auto. Qed.
Lemma Qp_mark : forall s e, Qp s -> marker r e -> Hp (ev s e).
Proof.
  intros s e (evs&L&F&C&A) M. exists [], e, evs. cbn. rewrite L. repeat split; auto.
  eapply Forall_impl; [|exact F]. intros a (Ha&_). exact Ha.
Qed.
Lemma Qp_set_cs : forall s x, Qp s -> Qp (set_cs s x). Proof. auto. Qed.
Lemma Qp_set_fs : forall s x, Qp s -> Qp (set_fs s x). Proof. auto. Qed.
Lemma Qp_set_made : forall s x, Qp s -> Qp (set_made s x). Proof. auto. Qed.
Lemma Qp_set_coro : forall s c x, Qp s -> Qp (set_coro s c x). Proof. auto. Qed.
Lemma Qp_set_script : forall s c x, Qp s -> Qp (set_script s c x). Proof. auto. Qed.
Lemma Qp_enq : forall s c b w, Qp s -> Qp (enq s c b w).
Proof. intros s c b w (evs&L&F&C&A). exists (EEnq c b w :: evs). cbn. rewrite L. repeat split; auto. constructor; auto. split; cbn; tauto. Qed.
Lemma Qp_enq_all : forall l s b w, Qp s -> Qp (enq_all s l b w).
Proof. induction l; intros; cbn [enq_all]; auto using Qp_enq. Qed.
Lemma Qp_set_started : forall s c b, Qp s -> Qp (set_started s c b).
Proof. intros. apply Qp_ev; [apply Qp_set_coro; auto|split; cbn; tauto]. Qed.
Lemma Qp_bad : forall s me, Qp s -> Qp (bad s me).
Proof. intros. apply Qp_ev; auto. split; cbn; tauto. Qed.
Lemma Qp_make : forall s c, Qp s -> Qp (make s c).
Proof. intros. apply Qp_ev; [apply Qp_set_made, Qp_set_coro; auto|split; cbn; tauto]. Qed.
Lemma Qp_ensure_made : forall s c, Qp s -> Qp (ensure_made s c).
Proof. intros; unfold ensure_made. repeat break_match; auto using Qp_make. Qed.
#[local] Hint Resolve Qp_set_cs Qp_set_fs Qp_set_made Qp_set_coro Qp_set_script Qp_enq Qp_enq_all Qp_set_started Qp_bad Qp_make Qp_ensure_made : core.

Definition NPp (s : st) : Prop := Qp s \/ Hp s.

Lemma ext_refl : forall s, ext s s. Proof. intros. exists []. reflexivity. Qed.
#[local] Hint Resolve ext_refl : core.

Lemma NP_sp_dispose : forall s hs aw, Qp s -> NPp (sp_dispose s r hs aw).
Proof.
  intros s hs aw Q. unfold sp_dispose. destruct hs as [|h t]; [left; exact Q|]. destruct aw.
  - right. eapply Hp_mono; [apply (Qp_mark s (ESusp r) Q); cbn; auto|].
    apply ext_run_c, ext_enq, ext_enq_all. auto.
  - destruct Q as (evs&L&F&C&A). rewrite A. left. apply Qp_enq_all. exists evs; auto.
Qed.

Lemma NP_finish : forall s x, Qp s -> NPp (finish s r x).
Proof.
  intros s x Q. right. eapply Hp_mono; [apply (Qp_mark s (EFin r x) Q); cbn; auto|].
  unfold finish. destruct (bound (cs s r)); cbn [fst snd].
  - apply ext_set_cur. apply ext_ev; [|cbn; tauto]. apply ext_set_coro. auto.
  - destruct (chain_of _).
    + apply ext_set_cur. apply ext_ev; [|cbn; tauto]. apply ext_set_coro, ext_set_fs. auto.
    + apply ext_run_c, ext_enq_all. apply ext_ev; [|cbn; tauto]. apply ext_set_coro, ext_set_fs. auto.
  - apply ext_run_c, ext_enq_all. apply ext_ev; [|cbn; tauto]. apply ext_set_coro. auto.
Qed.

Ltac qev := apply Qp_ev; [auto|split; cbn; tauto].

Lemma NP_exec : forall s i, Qp s -> NPp (exec s r i).
Proof.
  intros s i Q. destruct i; cbn [exec].
  - (* IEmit *) left. qev.
  - (* IPause *) destruct (Nat.eqb r 0); [left; auto|]. right.
    eapply Hp_mono; [apply (Qp_mark s (ESusp r) Q); cbn; auto|].
    destruct (queue (enq (ev s (ESusp r)) r r why_pause)) as [|x q] eqn:E.
    + apply ext_set_cur, ext_enq. auto.
    + apply ext_run_c. apply ext_deq with (q := q) (x := x); auto. apply ext_enq. auto.
  - (* IMake *) left. repeat break_match; auto.
  - (* IDrop *) left. break_match; auto. qev.
  - (* IDetach *) break_match; [left; auto|]. apply NP_sp_dispose. auto.
  - (* IStart *)
    break_match; [left; auto|]. break_match; try (left; solve [auto]).
    set (s1 := ensure_made s c) in *. assert (Q1 : Qp s1) by (subst s1; auto).
    assert (A1 : active s1 = true) by (destruct Q1 as (?&?&?&?&A); exact A).
    cbn. rewrite A1. right.
    set (s2 := set_started (set_fs s1 (upd (fs s1) f (mkFut (FPend []) true))) c (BFut f)).
    assert (Q2 : Qp s2) by (subst s2; auto).
    eapply Hp_mono; [apply (Qp_mark s2 (ENest r c) Q2); cbn; auto|].
    apply ext_run_c, ext_set_stack. auto.
  - (* IStartP *)
    break_match; [left; auto|]. break_match; try (left; solve [auto]).
    + destruct (claimed _); [left; qev|]. apply NP_sp_dispose. qev.
    + destruct (claimed _); [left; qev|]. apply NP_sp_dispose. qev.
  - (* ICoAwait *)
    destruct (Nat.eqb r 0); [left; auto|]. break_match; [left; auto|]. right.
    set (s2 := set_script (set_started (ensure_made s c) c (BParent r)) r (IGotC c :: script (cs (ensure_made s c) r))).
    assert (Q2 : Qp s2) by (subst s2; auto).
    eapply Hp_mono; [apply (Qp_mark s2 (ESusp r) Q2); cbn; auto|]. apply ext_run_c. auto.
  - (* IMkFut *) left. break_match; auto.
  - (* IResolve *)
    break_match; [left; auto|]. break_match; try (left; solve [auto]).
    + destruct (claimed _); [left; qev|]. apply NP_sp_dispose. qev. qev.
    + destruct (claimed _); [left; qev|]. apply NP_sp_dispose. qev. qev.
  - (* IAwait *)
    destruct (Nat.eqb r 0); [left; auto|]. break_match; try (left; solve [auto]).
    + right.
      set (s1 := set_fs s (upd (fs s) f (mkFut (FPend (r :: chain)) (claimed (fs s f))))).
      set (s2 := set_script s1 r (IGotF f :: script (cs s1 r))).
      assert (Q2 : Qp s2) by (subst s2 s1; auto).
      eapply Hp_mono; [apply (Qp_mark s2 (ESusp r) Q2); cbn; auto|]. apply ext_set_cur. auto.
    + left. qev.
  - (* IRet *) destruct (Nat.eqb r 0); [left; auto|]. apply NP_finish; auto.
  - (* IThrow *) destruct (Nat.eqb r 0); [left; auto|]. apply NP_finish; auto.
  - (* IGotF *) left. repeat break_match; auto; qev.
  - (* IGotC *) left. qev.
  - (* IBad *) left. auto.
Qed.

Lemma NP_step : forall s, NPp s -> NPp (step s).
Proof.
  intros s [Q|H].
  - pose proof Q as (evs&L&F&C&A). unfold step. rewrite C.
    destruct (script (cs s r)) as [|i rest].
    + apply NP_finish; auto.
    + apply NP_exec. auto.
  - right. eapply Hp_mono; [exact H|]. apply ext_step. auto.
Qed.

Lemma NP_steps : forall n s, NPp s -> NPp (steps n s).
Proof. induction n; intros; cbn [steps]; auto using NP_step. Qed.

End NP.

Lemma guarded_quiet_app : forall r a b, Forall (fun e => ~ is_run e) a -> (b = [] \/ exists mk t, b = mk :: t /\ marker r mk) -> guarded r (a ++ b).
Proof.
  induction a as [|e a IH]; intros b F B; cbn.
  - destruct B as [->|(mk&t&->&M)]; cbn; auto.
  - inversion F; subst. right. split; auto.
Qed.

(* C05 no pre-emption, as the code guarantees it: take any reachable moment at which coroutine r is in control (for instance
   right after it queued somebody through a discarded suspend point) and any continuation of the run.  In chronological order
   the events that follow contain no `Run` before the first of `Susp r`, `Fin r`, `Nest r` (r entered async::start()). *)
Theorem no_preempt : forall s r n,
  shape s -> cur s = CRun r ->
  exists evs, log (steps n s) = evs ++ log s /\ guarded r (rev evs).
Proof.
  intros s r n S C.
  assert (A : active s = true) by (destruct S as (_&H); rewrite C in H; tauto).
  assert (Q0 : NPp s r s) by (left; exists []; repeat split; auto).
  destruct (NP_steps s r n s Q0) as [(evs&L&F&_)|(post&mk&pre&L&M&P)].
  - exists evs. split; auto. rewrite <- (app_nil_r (rev evs)). apply guarded_quiet_app; auto.
    apply Forall_rev. eapply Forall_impl; [|exact F]. intros a (Ha&_); exact Ha.
  - exists (post ++ mk :: pre). split; [rewrite L, <- app_assoc; reflexivity|].
    rewrite rev_app_distr. cbn [rev]. rewrite <- app_assoc. apply guarded_quiet_app; [apply Forall_rev; auto|].
    right. exists mk, (rev post). split; auto.
Qed.
