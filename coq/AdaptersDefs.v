(* AdaptersDefs.v — interleaving model of the callback adapters (C18):
     callback_await / callback_await_alloc   callback_awaiter.h:68-150
     make_promise / future_with_cb           future.h:877-949
     discard                                 future.h:967-990
     future_conv                             future_conv.h:12-159
     call_fn_future_awaiter                  future.h:1025-1061
   over one source future cell (future.h / awaiter.h) and, for future_conv, one outer cell.
   Thread 0 registers the adapter; the source promise is resolved with a value, an exception or dropped
   (mode 0: the future is constructed ready; 1: inside the future's init function, before the registration, on
   thread 0; 2: by thread 1, concurrently; 3: by thread 0 after the registration).
   A thread is the list of instructions it still has to execute (a continuation); one instruction = the code
   between one COCLS_VERIF_POINT hook and the next (one atomic operation on shared state plus the thread-private
   code that follows it).  Executing an instruction may push further instructions in front (a callee's points).
   Model only, no proofs. *)
From Cocls Require Import Base.
Local Open Scope Z_scope.

Inductive outcome := ONone | OVal (v : Z) | OExc (e : Z) | OCanc.
(* future::_awaiter of a cell that has at most one subscriber: nullptr / the adapter's awaiter node / &disabled *)
Inductive slotv := SEmpty | SSub | SReady.
Inductive adapter := ACbAwait | AMkProm | ADiscard | AConv | ACallFn.
Inductive rkind := KVal (v : Z) | KExc (e : Z) | KDrop.

Record cfg := mkCfg {
  c_ad : adapter;
  c_mode : nat;        (* 0..3 *)
  c_stor : bool;       (* helper block taken from a counting storage instead of the heap *)
  c_k : rkind;
  c_cthrow : bool;     (* converter throws test_exc{c_cd} instead of returning src + c_cd *)
  c_cd : Z
}.

Inductive instr :=
| IPriv (code : Z)      (* a hook point on a thread-private promise object (claim of / ~promise on an empty or
                           not yet shared promise): no effect on shared state *)
| IPark                 (* "claim" inside promise's move constructor while the init function parks the source
                           promise where the resolver finds it; the rest of the step completes the parking *)
| IXWait                (* resolver thread: waits until the promise has been parked *)
| IClaim                (* promise::claim  future.h:698-701, then set  future.h:644-648 *)
| IDtorP                (* ~promise  future.h:601-606 (drop) *)
| IResolve              (* future::resolve -> resume_chain_set_ready  awaiter.h:96-101 *)
| IWalk                 (* resume_chain_lk, one node  awaiter.h:102-112 *)
| IReady                (* co_awaiter::await_ready -> future::ready  future.h:159-162 *)
| ISub (retry : bool)   (* subscribe_check_ready  awaiter.h:121-136 *)
| ICvClaim              (* future_conv resume function: promise<To> p = std::move(_prom)  future_conv.h:63 *)
| ICvReady (got : bool) (* *_fut -> wait() -> await_ready  future_conv.h:66-69, then the converter *)
| ICvSet (got : bool) (r : outcome)   (* p(result) / p(current_exception): claim + set  future_conv.h:69,72 *)
| ICvResolve            (* resolve of the outer future *)
| ICvWalk               (* outer chain walk: the outer consumer's callback *)
| IOReady               (* outer consumer: await_ready on the outer future *)
| IOSub (retry : bool). (* outer consumer: subscribe *)

Inductive ev :=
| ECb (o : outcome) (al fr : nat)   (* user callback entered: outcome it sees, helper blocks allocated / freed so far *)
| ECbRet (al fr : nat)              (* user callback returned *)
| EFun (al fr : nat)                (* the callback object that ran is destroyed (helper object's destructor) *)
| ESd                               (* storage dealloc *)
| EConv (src : Z) (r : outcome)     (* converter called with src, produced r *)
| EODeliv (o : outcome).            (* outer consumer received o *)

Record st := mkSt {
  owner : bool;          (* the source promise still points at the future *)
  parked : bool;         (* the source promise is where the resolver looks for it *)
  slot : slotv;
  payload : outcome;
  oprom : bool;          (* the outer promise is held by the registration (init parameter, then future_conv::_prom) *)
  oslot : slotv;
  opayload : outcome;
  allocs : nat;          (* helper blocks obtained (heap or storage) *)
  frees : nat;           (* helper blocks released *)
  th0 : list instr;
  th1 : list instr;
  clk : nat;
  (* ghost history *)
  nfire : nat;           (* completions of the adapter's awaiter node started *)
  nconv : nat;           (* converter invocations *)
  ndeliv : nat;          (* deliveries to the outer consumer *)
  nores : nat;           (* outer future resolutions *)
  log : list (nat * ev)
}.

Definition thr (s : st) (i : nat) : list instr :=
  match i with O => th0 s | S O => th1 s | _ => [] end.

Definition set_thr (s : st) (i : nat) (l : list instr) : st :=
  match i with
  | O => mkSt (owner s) (parked s) (slot s) (payload s) (oprom s) (oslot s) (opayload s) (allocs s) (frees s)
              l (th1 s) (clk s) (nfire s) (nconv s) (ndeliv s) (nores s) (log s)
  | S O => mkSt (owner s) (parked s) (slot s) (payload s) (oprom s) (oslot s) (opayload s) (allocs s) (frees s)
              (th0 s) l (clk s) (nfire s) (nconv s) (ndeliv s) (nores s) (log s)
  | _ => s
  end.

Definition push (s : st) (i : nat) (l : list instr) : st := set_thr s i (l ++ thr s i).

Definition tick (s : st) : st :=
  mkSt (owner s) (parked s) (slot s) (payload s) (oprom s) (oslot s) (opayload s) (allocs s) (frees s)
       (th0 s) (th1 s) (S (clk s)) (nfire s) (nconv s) (ndeliv s) (nores s) (log s).

(* source cell updates *)
Definition set_src (s : st) (o pk : bool) (sl : slotv) (p : outcome) : st :=
  mkSt o pk sl p (oprom s) (oslot s) (opayload s) (allocs s) (frees s)
       (th0 s) (th1 s) (clk s) (nfire s) (nconv s) (ndeliv s) (nores s) (log s).
(* outer cell updates *)
Definition set_out (s : st) (op : bool) (sl : slotv) (p : outcome) (nr : nat) : st :=
  mkSt (owner s) (parked s) (slot s) (payload s) op sl p (allocs s) (frees s)
       (th0 s) (th1 s) (clk s) (nfire s) (nconv s) (ndeliv s) nr (log s).
Definition add_log (s : st) (l : list ev) : st :=
  mkSt (owner s) (parked s) (slot s) (payload s) (oprom s) (oslot s) (opayload s) (allocs s) (frees s)
       (th0 s) (th1 s) (clk s) (nfire s) (nconv s) (ndeliv s) (nores s) (log s ++ map (fun e => (clk s, e)) l).
Definition set_cnt (s : st) (fr nf nc nd : nat) : st :=
  mkSt (owner s) (parked s) (slot s) (payload s) (oprom s) (oslot s) (opayload s) (allocs s) fr
       (th0 s) (th1 s) (clk s) nf nc nd (nores s) (log s).

Definition out_of (k : rkind) : outcome :=
  match k with KVal v => OVal v | KExc e => OExc e | KDrop => ONone end.

Definition has_helper (a : adapter) : bool := match a with ACbAwait | AMkProm | ADiscard => true | _ => false end.
Definition has_functor (a : adapter) : bool := match a with ACbAwait | AMkProm => true | _ => false end.
Definition has_cb (a : adapter) : bool := match a with ACbAwait | AMkProm | ACallFn => true | _ => false end.

(* what the converter adapter hands to the outer promise, given the state of the inner future
   (future_conv.h:64-73: value -> fn(value) or the exception fn throws; *_fut rethrows the stored exception,
   or await_canceled_exception for a broken promise) *)
Definition conv_result (c : cfg) (p : outcome) : outcome :=
  match p with
  | OVal v => if c_cthrow c then OExc (c_cd c) else OVal (v + c_cd c)
  | OExc e => OExc e
  | ONone => OCanc
  | OCanc => OCanc
  end.

(* the completion of the adapter's awaiter node, run by thread i (the resolver inside its chain walk, the
   registering thread when the subscription was refused, or the resumed coroutine frame) *)
Definition fire (c : cfg) (s : st) (i : nat) : st :=
  let s1 := set_cnt s (frees s) (S (nfire s)) (nconv s) (ndeliv s) in
  match c_ad c with
  | AConv => push s1 i [ICvClaim; IPriv 2]           (* future_conv.h:60-74: four more hook points follow *)
  | ACallFn =>                                       (* future.h:1056-1060: owner.fn(_fut) *)
      add_log s1 [ECb (payload s) (allocs s) (frees s); ECbRet (allocs s) (frees s)]
  | ADiscard =>                                      (* future.h:978-982: delete _this *)
      set_cnt s1 (S (frees s)) (nfire s1) (nconv s) (ndeliv s)
  | _ =>
      (* callback_awaiter.h:72-81 then final_suspend destroys the frame (async.h:217-230);
         future.h:884-888 _fn( *_this ); delete _this *)
      let s2 := add_log s1 ([ECb (payload s) (allocs s) (frees s); ECbRet (allocs s) (frees s);
                             EFun (allocs s) (frees s)] ++ (if c_stor c then [ESd] else [])) in
      set_cnt s2 (S (frees s)) (nfire s1) (nconv s) (ndeliv s)
  end.

Definition deliver (s : st) : st :=
  add_log (set_cnt s (frees s) (nfire s) (nconv s) (S (ndeliv s))) [EODeliv (opayload s)].

(* execute instruction ins of thread i (already popped); returns the state and the code of the hook point the
   thread was waiting at *)
Definition exec (c : cfg) (s : st) (i : nat) (ins : instr) : st * Z :=
  match ins with
  | IPriv code => (s, code)
  | IPark => (set_src s (owner s) true (slot s) (payload s), 1)
  | IXWait => (s, 9)
  | IClaim =>
      if owner s then (push (set_src s false (parked s) (slot s) (out_of (c_k c))) i [IResolve], 1)
      else (s, 1)
  | IDtorP =>
      if owner s then (push (set_src s false (parked s) (slot s) (payload s)) i [IResolve], 2)
      else (s, 2)
  | IResolve =>
      let s1 := set_src s (owner s) (parked s) SReady (payload s) in
      (match slot s with SSub => push s1 i [IWalk] | _ => s1 end, 3)
  | IWalk => (fire c s i, 4)
  | IReady =>
      (match slot s with SReady => fire c s i | _ => push s i [ISub false] end, 5)
  | ISub r =>
      (match slot s with
       | SReady => fire c s i                                         (* refused: run the completion now *)
       | SEmpty => set_src s (owner s) (parked s) SSub (payload s)    (* subscribed *)
       | SSub => push s i [ISub true]                                 (* CAS failed, not ready: retry *)
       end, if r then 7 else 6)
  | ICvClaim => (push (set_out s false (oslot s) (opayload s) (nores s)) i [ICvReady (oprom s)], 1)
  | ICvReady g =>
      match slot s with
      | SReady =>
          let r := conv_result c (payload s) in
          let s1 := match payload s with
                    | OVal v => add_log (set_cnt s (frees s) (nfire s) (S (nconv s)) (ndeliv s)) [EConv v r]
                    | _ => s
                    end in
          (push s1 i [ICvSet g r], 5)
      | _ => (push s i [ICvReady g], 5)     (* would block in sync(); not reachable *)
      end
  | ICvSet g r =>
      if g then (push (set_out s (oprom s) (oslot s) r (nores s)) i [ICvResolve], 1) else (s, 1)
  | ICvResolve =>
      let s1 := set_out s (oprom s) SReady (opayload s) (S (nores s)) in
      (match oslot s with SSub => push s1 i [ICvWalk] | _ => s1 end, 3)
  | ICvWalk => (deliver s, 4)
  | IOReady =>
      (match oslot s with SReady => deliver s | _ => push s i [IOSub false] end, 5)
  | IOSub r =>
      (match oslot s with
       | SReady => deliver s
       | SEmpty => set_out s (oprom s) SSub (opayload s) (nores s)
       | SSub => push s i [IOSub true]
       end, if r then 7 else 6)
  end.

Definition enabled (s : st) (i : nat) : bool :=
  match thr s i with
  | [] => false
  | IXWait :: _ => parked s
  | _ => true
  end.

Definition tstep (c : cfg) (s : st) (i : nat) : st * Z :=
  match thr s i with
  | [] => (s, 0)
  | ins :: rest => exec c (set_thr (tick s) i rest) i ins
  end.

(* ---------- programs ---------- *)
Definition mk_prog (c : cfg) : list instr :=
  match c_mode c with
  | O => []
  | S O => match c_k c with KDrop => [IDtorP] | _ => [IClaim; IPriv 2] end
  | _ => [IPark; IPriv 2]
  end.
Definition res_prog (c : cfg) : list instr :=
  match c_k c with KDrop => [IDtorP] | _ => [IClaim] end.
Definition reg_prog (c : cfg) : list instr :=
  match c_ad c with
  | ACbAwait => mk_prog c ++ [IReady]                     (* co_await awt: await_ready, await_suspend *)
  | AMkProm => []                                         (* no hook point: the chain is pre-seeded (future.h:883) *)
  | ADiscard => mk_prog c ++ [ISub false]                 (* future.h:973-975 *)
  | ACallFn => mk_prog c ++ [ISub false]                  (* future.h:1048-1053 *)
  | AConv => [IPriv 1; IPriv 1] ++ mk_prog c ++ [ISub false; IPriv 2; IOReady]
      (* future_conv.h:20-24: _prom = std::move(prom) (two claims), _fut << fn, subscribe / resume, ~prom;
         then the harness's outer consumer *)
  end.

Definition is_mode (c : cfg) (m : nat) : bool := Nat.eqb (c_mode c) m.
Definition is_mk (c : cfg) : bool := match c_ad c with AMkProm => true | _ => false end.
Definition is_conv (c : cfg) : bool := match c_ad c with AConv => true | _ => false end.

Definition init (c : cfg) : st :=
  mkSt (negb (is_mode c 0))
       (is_mk c)
       (if is_mk c then SSub else if is_mode c 0 then SReady else SEmpty)
       (if is_mode c 0 then out_of (c_k c) else ONone)
       (is_conv c) SEmpty ONone
       (if has_helper (c_ad c) then 1%nat else 0%nat) 0%nat
       (reg_prog c ++ (if is_mode c 3 then res_prog c else []))
       (if is_mode c 2 then IXWait :: res_prog c else [])
       0%nat 0%nat 0%nat 0%nat 0%nat [].

Definition valid (c : cfg) : bool :=
  Nat.leb (c_mode c) 3
  && (negb (c_stor c) || has_functor (c_ad c))
  && (negb (is_mk c) || Nat.leb 2 (c_mode c)).

(* ---------- schedules ---------- *)
Definition all_enabled (s : st) : list nat :=
  (if enabled s 0 then [0%nat] else []) ++ (if enabled s 1 then [1%nat] else []).

Fixpoint run_sched (c : cfg) (fuel : nat) (s : st) (sched : list Z) (tr : list (nat * Z)) : st * list (nat * Z) :=
  match fuel with
  | O => (s, tr)
  | S f =>
      match all_enabled s with
      | [] => (s, tr)
      | en =>
          let k := match sched with [] => 0 | x :: _ => Z.abs x end in
          let i := nth (Z.to_nat (k mod zlen en)) en 0%nat in
          let '(s1, p) := tstep c s i in
          run_sched c f s1 (tl sched) (tr ++ [(i, p)])
      end
  end.

(* ---------- wire ---------- *)
Fixpoint find_op (h : Z) (ops : list (list Z)) : option (list Z) :=
  match ops with
  | [] => None
  | (x :: r) :: t => if Z.eqb x h then Some r else find_op h t
  | [] :: t => find_op h t
  end.

Definition dec_ad (z : Z) : option adapter :=
  match z with 0 => Some ACbAwait | 1 => Some AMkProm | 2 => Some ADiscard | 3 => Some AConv | 4 => Some ACallFn | _ => None end.
Definition dec_k (k d : Z) : option rkind :=
  match k with 0 => Some (KVal d) | 1 => Some (KExc d) | 2 => Some KDrop | _ => None end.
Definition dec_bool (z : Z) : option bool := match z with 0 => Some false | 1 => Some true | _ => None end.
Definition dec_mode (z : Z) : option nat :=
  match z with 0 => Some 0%nat | 1 => Some 1%nat | 2 => Some 2%nat | 3 => Some 3%nat | _ => None end.

Definition decode (ops : list (list Z)) : option cfg :=
  match find_op 1 ops, find_op 2 ops with
  | Some [a; m; s], Some [k; d] =>
      match dec_ad a, dec_mode m, dec_bool s, dec_k k d with
      | Some a', Some m', Some s', Some k' =>
          match find_op 3 ops with
          | None => Some (mkCfg a' m' s' k' false 0)
          | Some [ck; cd] => match dec_bool ck with Some b => Some (mkCfg a' m' s' k' b cd) | None => None end
          | Some _ => None
          end
      | _, _, _, _ => None
      end
  | _, _ => None
  end.

(* op [4 b]: the harness's callback_await callback throws after doing its work.  The callback is invoked outside the
   try block (callback_awaiter.h:72-92), so its exception leaves through unhandled_exception of the detached
   coroutine and nothing else changes: the flag is only checked for well-formedness here. *)
Definition flag_ok (ops : list (list Z)) : bool :=
  match find_op 4 ops with
  | None => true
  | Some [b] => match dec_bool b with Some _ => true | None => false end
  | Some _ => false
  end.

Definition decode_valid (ops : list (list Z)) : option cfg :=
  match decode ops with Some c => if valid c && flag_ok ops then Some c else None | None => None end.

Definition decode_sched (l : list Z) : list Z := match l with 9 :: r => r | _ => [] end.

Definition okind (o : outcome) : list Z :=
  match o with ONone => [0; 0] | OVal v => [1; v] | OExc e => [2; e] | OCanc => [3; 0] end.

(* helper blocks counted as (heap news/deletes, storage allocs/deallocs) *)
Definition split4 (c : cfg) (al fr : nat) : list Z :=
  if c_stor c then [0; 0; Z.of_nat al; Z.of_nat fr] else [Z.of_nat al; Z.of_nat fr; 0; 0].

Definition ev_line (c : cfg) (seq : bool) (e : nat * ev) : list Z :=
  let t := if seq then 0 else Z.of_nat (fst e) in
  match snd e with
  | ECb o al fr => 30 :: t :: okind o ++ split4 c al fr
  | ECbRet al fr => 31 :: t :: split4 c al fr
  | EFun al fr => 34 :: t :: split4 c al fr
  | ESd => [35; t]
  | EConv src r => 32 :: t :: src :: okind r
  | EODeliv o => 33 :: t :: okind o
  end.

Definition is_cb (e : nat * ev) : bool := match snd e with ECb _ _ _ => true | _ => false end.

Definition stuck_list (s : st) : list Z :=
  (match th0 s with [] => [] | _ => [0] end) ++ (match th1 s with [] => [] | _ => [1] end).

Definition final_lines (c : cfg) (s : st) : list (list Z) :=
  [ 40 :: (match split4 c (allocs s) (frees s) with
           | [n; d; sa; sd] => [n; d; sa; sd]
           | l => l
           end) ++ [0; 0];
    (match oslot s with SReady => 42 :: 1 :: okind (opayload s) | _ => [42; 0; 0; 0] end);
    [50; zlen (filter is_cb (log s)); 0] ].

Definition adapt_run (seq : bool) (ops : list (list Z)) : list (list Z) :=
  match decode_valid ops with
  | None => [[-1]]
  | Some c =>
      let sched := if seq then [] else flat_map decode_sched ops in
      let '(s, tr) := run_sched c (length sched + 200) (init c) sched [] in
      (if seq then [] else map (fun p => [Z.of_nat (fst p); snd p]) tr)
      ++ match stuck_list s with
         | [] => map (ev_line c seq) (log s) ++ final_lines c s
         | l => (777 :: l) :: map (ev_line c seq) (log s)
         end
  end.

(* ---------- decidable form of C18 on an observed trace ---------- *)
Definition list_eqb (a b : list Z) : bool :=
  Nat.eqb (length a) (length b) && forallb (fun p => Z.eqb (fst p) (snd p)) (combine a b).

Definition headz (l : list Z) : Z := match l with x :: _ => x | [] => -100 end.
Definition lines_of (h : Z) (obs : list (list Z)) : list (list Z) := filter (fun l => Z.eqb (headz l) h) obs.
Definition is_event_line (l : list Z) : bool :=
  let h := headz l in Z.eqb h 30 || Z.eqb h 31 || Z.eqb h 34 || Z.eqb h 35 || Z.eqb h 32 || Z.eqb h 33 || Z.eqb h 36.
(* drop the step number (position 1) of an event line *)
Definition strip (l : list Z) : list Z := match l with h :: _ :: r => h :: r | _ => l end.

(* the event lines the property allows, in order, without step numbers *)
Definition expected_events (c : cfg) : list (list Z) :=
  let o := out_of (c_k c) in
  let hb := if has_helper (c_ad c) then 1%nat else 0%nat in
  match c_ad c with
  | ADiscard => []
  | ACallFn => [30 :: okind o ++ split4 c 0 0; 31 :: split4 c 0 0]
  | AConv =>
      (match o with OVal v => [32 :: v :: okind (conv_result c o)] | _ => [] end)
      ++ [33 :: okind (conv_result c o)]
  | _ => [30 :: okind o ++ split4 c hb 0; 31 :: split4 c hb 0; 34 :: split4 c hb 0]
         ++ (if c_stor c then [[35]] else [])
  end.

Definition expected_final (c : cfg) : list (list Z) :=
  let hb := if has_helper (c_ad c) then 1%nat else 0%nat in
  [ 40 :: split4 c hb hb ++ [0; 0];
    (if is_conv c then 42 :: 1 :: okind (conv_result c (out_of (c_k c))) else [42; 0; 0; 0]);
    [50; if has_cb (c_ad c) then 1 else 0; 0] ].

Fixpoint lists_eqb (a b : list (list Z)) : bool :=
  match a, b with
  | [], [] => true
  | x :: a', y :: b' => list_eqb x y && lists_eqb a' b'
  | _, _ => false
  end.

(* steps of the event lines never decrease (an event belongs to the step that produced it) *)
Fixpoint steps_mono (prev : Z) (l : list (list Z)) : bool :=
  match l with
  | [] => true
  | (_ :: t :: _) :: r => Z.leb prev t && steps_mono t r
  | _ :: r => false
  end.

Definition adapt_oracle (seq : bool) (ops obs : list (list Z)) : bool :=
  match decode_valid ops with
  | None => lists_eqb obs [[-1]]
  | Some c =>
      let evs := filter is_event_line obs in
      let fin := filter (fun l => let h := headz l in Z.eqb h 40 || Z.eqb h 42 || Z.eqb h 50) obs in
      lists_eqb (map strip evs) (expected_events c)
      && steps_mono 0 evs
      && lists_eqb fin (expected_final c)
      && negb (existsb (fun l => Z.eqb (headz l) 777) obs)
  end.
