(* AdaptersDefs.v — interleaving model of the callback adapters (C18):
     callback_await / callback_await_alloc   callback_awaiter.h:68-150
     make_promise / future_with_cb           future.h:877-949
     discard                                 future.h:967-990
     future_conv                             future_conv.h:12-159
     call_fn_future_awaiter                  future.h:1025-1061
   over one source future cell (future.h / awaiter.h) and, for future_conv, one outer cell.
   Thread 0 registers the adapter; the source promise is resolved with a value, an exception or dropped
   (mode 0: the future is constructed ready; 1: inside the future's init function, before the registration, on
   thread 0; 2: by thread 1, concurrently; 3: by thread 0 after the registration).
   A thread is the list of instructions it still has to execute (a continuation); one instruction = the code
   between one COCLS_VERIF_POINT hook and the next (one atomic operation on shared state plus the thread-private
   code that follows it).  Executing an instruction may push further instructions in front (a callee's points).
   Model only, no proofs. *)
From Cocls Require Import Base.
Local Open Scope Z_scope.

Inductive outcome := ONone | OVal (v : Z) | OExc (e : Z) | OCanc.
(* future::_awaiter of a cell that has at most one subscriber: nullptr / the adapter's awaiter node / &disabled *)
Inductive slotv := SEmpty | SSub | SReady.
Inductive adapter := ACbAwait | AMkProm | ADiscard | AConv | ACallFn.
Inductive rkind := KVal (v : Z) | KExc (e : Z) | KDrop.

Record cfg := mkCfg {
  c_ad : adapter;
  c_mode : nat;        (* 0..3 *)
  c_stor : nat;        (* helper block: 0 heap, 1 counting storage, 2 reusable_storage, 3 second of two trailer-tagged
                          counting storages, 4 reusable_storage_mtsafe *)
  c_k : rkind;
  c_k2 : option rkind; (* a competing resolver on thread 2 (value / exception / p(drop)) *)
  c_re : option rkind; (* call_fn_future_awaiter: the handler re-arms the awaiter with a second operation, still pending
                          when the handler returns, which thread 2 resolves this way *)
  c_cb : nat;          (* converter behaviour on a value: 0 delivers src + c_cd, 1 throws test_exc{c_cd}, 2 resolves the
                          promise with that exception itself, 3 declines (returns without touching the promise), 4 moves
                          the promise to a holder from which thread 2 resolves it later with src + c_cd
                          (2-4 need the promise-passing form of future_conv) *)
  c_cd : Z
}.

Inductive instr :=
| IPriv (code : Z)      (* a hook point on a thread-private promise object (claim of / ~promise on an empty or
                           not yet shared promise): no effect on shared state *)
| IPark (code : Z)      (* "claim" inside promise's move constructor while the init function parks the source
                           promise where the resolver finds it; the rest of the step completes the parking
                           (make_promise into a reusable_storage_mtsafe: the step after "busy_g") *)
| IRel                  (* (unused since the storages' own hook points are filtered out: a release as a separate step) *)
| IXWait                (* resolver thread: waits until the promise has been parked *)
| IClaim (who : nat)     (* promise::claim  future.h:698-701, then set  future.h:644-648 (p(drop): no set, future.h:657-663);
                           who = 0 inside the init function, 1 the primary resolver, 2 the competing resolver *)
| IDtorP                (* ~promise  future.h:601-606 (drop) *)
| IResolve              (* future::resolve -> resume_chain_set_ready  awaiter.h:96-101 *)
| IWalk                 (* resume_chain_lk, one node  awaiter.h:102-112 *)
| IReady                (* co_awaiter::await_ready -> future::ready  future.h:159-162 *)
| ISub (retry : bool)   (* subscribe_check_ready  awaiter.h:121-136 *)
| ICvClaim              (* future_conv resume function: promise<To> p = std::move(_prom)  future_conv.h:63 *)
| ICvReady              (* *_fut -> wait() -> await_ready  future_conv.h:66-69, then the converter *)
| ICvSet (r : outcome)  (* p(result) / p(current_exception): claim + set  future_conv.h:69,72 *)
| ICvPark (r : outcome) (* promise-passing converter moves p to a holder ("claim" in the move constructor) *)
| ICvDtor               (* ~p at the end of the resume function: a promise that is still held is dropped  future.h:601-606 *)
| IPark2                (* the re-arming handler: awt << fn parks the second promise ("claim" in the move constructor) *)
| ISub2 (retry : bool)  (* ... and subscribes the awaiter to the second future  future.h:1048-1053 *)
| IXWait2               (* thread 2: waits until the second promise has been parked *)
| IClaim2               (* thread 2 resolves the second operation: claim + set *)
| IDtorP2               (* ... or drops its promise *)
| IResolve2
| IWalk2
| IOWait                (* thread 2: waits until the converter has parked the outer promise (or the outer future is ready) *)
| IOClaim               (* thread 2: held(result): claim + set *)
| ICvResolve            (* resolve of the outer future *)
| ICvWalk               (* outer chain walk: the outer consumer's callback *)
| IOReady               (* outer consumer: await_ready on the outer future *)
| IOSub (retry : bool). (* outer consumer: subscribe *)

Inductive ev :=
| ECb (o : outcome) (al fr : nat)   (* user callback entered: outcome it sees, helper blocks allocated / freed so far *)
| ECbRet (al fr : nat)              (* user callback returned *)
| EFun (al fr : nat)                (* the callback object that ran is destroyed (helper object's destructor) *)
| ESd                               (* storage dealloc *)
| EConv (src : Z) (r : outcome)     (* converter called with src, produced r *)
| EODeliv (o : outcome).            (* outer consumer received o *)

Record st := mkSt {
  owner : bool;          (* the source promise still points at the future *)
  parked : bool;         (* the source promise is where the resolver looks for it *)
  slot : slotv;
  payload : outcome;
  oprom : bool;          (* the outer promise is held by the registration (init parameter, then future_conv::_prom) *)
  oslot : slotv;
  opayload : outcome;
  pheld : bool;          (* the local promise p of the running resume function holds the outer promise *)
  oheld : option outcome;(* the converter's holder has the outer promise, to be resolved with this result *)
  allocs : nat;          (* helper blocks obtained (heap or storage) *)
  frees : nat;           (* helper blocks released *)
  th0 : list instr;
  th1 : list instr;
  th2 : list instr;
  clk : nat;
  ret1 : option bool;    (* what the primary / the competing resolver's call returned *)
  ret2 : option bool;
  won : nat;             (* ghost: 0 nobody has claimed yet, 1 the primary promise holder, 2 the competitor *)
  (* ghost history *)
  nfire : nat;           (* completions of the adapter's awaiter node started *)
  nconv : nat;           (* converter invocations *)
  ndeliv : nat;          (* deliveries to the outer consumer *)
  nores : nat;           (* outer future resolutions *)
  log : list (nat * ev);
  (* the second operation of a re-arming call_fn_future_awaiter handler: its own future cell *)
  owner2 : bool;
  parked2 : bool;
  slot2 : slotv;
  payload2 : outcome;
  nfire2 : nat
}.

Definition thr (s : st) (i : nat) : list instr :=
  match i with O => th0 s | S O => th1 s | S (S O) => th2 s | _ => [] end.

Definition set_thr (s : st) (i : nat) (l : list instr) : st :=
  match i with
  | O => mkSt (owner s) (parked s) (slot s) (payload s) (oprom s) (oslot s) (opayload s) (pheld s) (oheld s) (allocs s) (frees s)
              l (th1 s) (th2 s) (clk s) (ret1 s) (ret2 s) (won s) (nfire s) (nconv s) (ndeliv s) (nores s) (log s) (owner2 s) (parked2 s) (slot2 s) (payload2 s) (nfire2 s)
  | S O => mkSt (owner s) (parked s) (slot s) (payload s) (oprom s) (oslot s) (opayload s) (pheld s) (oheld s) (allocs s) (frees s)
              (th0 s) l (th2 s) (clk s) (ret1 s) (ret2 s) (won s) (nfire s) (nconv s) (ndeliv s) (nores s) (log s) (owner2 s) (parked2 s) (slot2 s) (payload2 s) (nfire2 s)
  | S (S O) => mkSt (owner s) (parked s) (slot s) (payload s) (oprom s) (oslot s) (opayload s) (pheld s) (oheld s) (allocs s) (frees s)
              (th0 s) (th1 s) l (clk s) (ret1 s) (ret2 s) (won s) (nfire s) (nconv s) (ndeliv s) (nores s) (log s) (owner2 s) (parked2 s) (slot2 s) (payload2 s) (nfire2 s)
  | _ => s
  end.

Definition push (s : st) (i : nat) (l : list instr) : st := set_thr s i (l ++ thr s i).

Definition tick (s : st) : st :=
  mkSt (owner s) (parked s) (slot s) (payload s) (oprom s) (oslot s) (opayload s) (pheld s) (oheld s) (allocs s) (frees s)
       (th0 s) (th1 s) (th2 s) (S (clk s)) (ret1 s) (ret2 s) (won s) (nfire s) (nconv s) (ndeliv s) (nores s) (log s) (owner2 s) (parked2 s) (slot2 s) (payload2 s) (nfire2 s).

(* source cell updates *)
Definition set_src (s : st) (o pk : bool) (sl : slotv) (p : outcome) : st :=
  mkSt o pk sl p (oprom s) (oslot s) (opayload s) (pheld s) (oheld s) (allocs s) (frees s)
       (th0 s) (th1 s) (th2 s) (clk s) (ret1 s) (ret2 s) (won s) (nfire s) (nconv s) (ndeliv s) (nores s) (log s) (owner2 s) (parked2 s) (slot2 s) (payload2 s) (nfire2 s).
(* outer cell updates *)
Definition set_out (s : st) (op : bool) (sl : slotv) (p : outcome) (nr : nat) : st :=
  mkSt (owner s) (parked s) (slot s) (payload s) op sl p (pheld s) (oheld s) (allocs s) (frees s)
       (th0 s) (th1 s) (th2 s) (clk s) (ret1 s) (ret2 s) (won s) (nfire s) (nconv s) (ndeliv s) nr (log s) (owner2 s) (parked2 s) (slot2 s) (payload2 s) (nfire2 s).
Definition set_src2 (s : st) (o pk : bool) (sl : slotv) (p : outcome) (nf2 : nat) : st :=
  mkSt (owner s) (parked s) (slot s) (payload s) (oprom s) (oslot s) (opayload s) (pheld s) (oheld s) (allocs s) (frees s)
       (th0 s) (th1 s) (th2 s) (clk s) (ret1 s) (ret2 s) (won s) (nfire s) (nconv s) (ndeliv s) (nores s) (log s)
       o pk sl p nf2.
Definition set_held (s : st) (ph : bool) (oh : option outcome) : st :=
  mkSt (owner s) (parked s) (slot s) (payload s) (oprom s) (oslot s) (opayload s) ph oh (allocs s) (frees s)
       (th0 s) (th1 s) (th2 s) (clk s) (ret1 s) (ret2 s) (won s) (nfire s) (nconv s) (ndeliv s) (nores s) (log s) (owner2 s) (parked2 s) (slot2 s) (payload2 s) (nfire2 s).
Definition add_log (s : st) (l : list ev) : st :=
  mkSt (owner s) (parked s) (slot s) (payload s) (oprom s) (oslot s) (opayload s) (pheld s) (oheld s) (allocs s) (frees s)
       (th0 s) (th1 s) (th2 s) (clk s) (ret1 s) (ret2 s) (won s) (nfire s) (nconv s) (ndeliv s) (nores s)
       (log s ++ map (fun e => (clk s, e)) l) (owner2 s) (parked2 s) (slot2 s) (payload2 s) (nfire2 s).
Definition set_cnt (s : st) (fr nf nc nd : nat) : st :=
  mkSt (owner s) (parked s) (slot s) (payload s) (oprom s) (oslot s) (opayload s) (pheld s) (oheld s) (allocs s) fr
       (th0 s) (th1 s) (th2 s) (clk s) (ret1 s) (ret2 s) (won s) nf nc nd (nores s) (log s) (owner2 s) (parked2 s) (slot2 s) (payload2 s) (nfire2 s).
(* a resolver's call returns b (who = 0: inside the init function, nothing is recorded); w: the new ghost winner *)
Definition set_ret (s : st) (who : nat) (b : bool) (w : nat) : st :=
  mkSt (owner s) (parked s) (slot s) (payload s) (oprom s) (oslot s) (opayload s) (pheld s) (oheld s) (allocs s) (frees s)
       (th0 s) (th1 s) (th2 s) (clk s)
       (match who with S O => Some b | _ => ret1 s end) (match who with S (S O) => Some b | _ => ret2 s end)
       w (nfire s) (nconv s) (ndeliv s) (nores s) (log s) (owner2 s) (parked2 s) (slot2 s) (payload2 s) (nfire2 s).

Definition out_of (k : rkind) : outcome :=
  match k with KVal v => OVal v | KExc e => OExc e | KDrop => ONone end.

(* the kind a claim of `who` delivers *)
Definition kind_of (c : cfg) (who : nat) : rkind :=
  match who with
  | S (S O) => match c_k2 c with Some k => k | None => KDrop end
  | _ => c_k c
  end.
Definition has_sd (st : nat) : bool := match st with 1%nat | 3%nat => true | _ => false end.

Definition has_helper (a : adapter) : bool := match a with ACbAwait | AMkProm | ADiscard => true | _ => false end.
Definition has_functor (a : adapter) : bool := match a with ACbAwait | AMkProm => true | _ => false end.
Definition has_cb (a : adapter) : bool := match a with ACbAwait | AMkProm | ACallFn => true | _ => false end.

(* what the converter adapter hands to the outer promise, given the state of the inner future
   (future_conv.h:64-73: value -> fn(value) or the exception fn throws; *_fut rethrows the stored exception,
   or await_canceled_exception for a broken promise) *)
Definition conv_result (c : cfg) (p : outcome) : outcome :=
  match p with
  | OVal v => match c_cb c with
              | 1%nat | 2%nat => OExc (c_cd c)
              | 3%nat => ONone                 (* declined: the outer promise is dropped, a broken promise *)
              | _ => OVal (v + c_cd c)         (* 0 at once; 4 later, by thread 2 *)
              end
  | OExc e => OExc e
  | ONone => OCanc
  | OCanc => OCanc
  end.

(* the completion of the adapter's awaiter node, run by thread i (the resolver inside its chain walk, the
   registering thread when the subscription was refused, or the resumed coroutine frame) *)
Definition fire (c : cfg) (s : st) (i : nat) : st :=
  let s1 := set_cnt s (frees s) (S (nfire s)) (nconv s) (ndeliv s) in
  match c_ad c with
  | AConv => push s1 i [ICvClaim]                    (* future_conv.h:60-74: the resume function's hook points follow *)
  | ACallFn =>                                       (* future.h:1056-1060: owner.fn(_fut) *)
      let s2 := add_log s1 [ECb (payload s) (allocs s) (frees s); ECbRet (allocs s) (frees s)] in
      (* a re-arming handler then starts the next operation on the same awaiter: awt << fn, with the hook points of
         parking the new promise, its parameter's destructor, and the subscription *)
      match c_re c with Some _ => push s2 i [IPark2; IPriv 2; ISub2 false] | None => s2 end
  | ADiscard =>                                      (* future.h:978-982: delete _this *)
      set_cnt s1 (S (frees s)) (nfire s1) (nconv s) (ndeliv s)
  | _ =>
      (* callback_awaiter.h:72-81 then final_suspend destroys the frame (async.h:217-230);
         future.h:884-888 _fn( *_this ); delete _this *)
      let s2 := add_log s1 ([ECb (payload s) (allocs s) (frees s); ECbRet (allocs s) (frees s);
                             EFun (allocs s) (frees s)] ++ (if has_sd (c_stor c) then [ESd] else [])) in
      (* the block goes back: operator delete / Storage::dealloc.  Hook points inside the storages themselves
         (reusable_storage, reusable_storage_mtsafe: C19) are not steps of this model; the harness filters them out. *)
      set_cnt s2 (S (frees s)) (nfire s1) (nconv s) (ndeliv s)
  end.

(* the handler runs for the second operation *)
Definition fire2 (s : st) : st :=
  add_log (set_src2 s (owner2 s) (parked2 s) (slot2 s) (payload2 s) (S (nfire2 s)))
          [ECb (payload2 s) (allocs s) (frees s); ECbRet (allocs s) (frees s)].

Definition kind_re (c : cfg) : rkind := match c_re c with Some k => k | None => KDrop end.

Definition deliver (s : st) : st :=
  add_log (set_cnt s (frees s) (nfire s) (nconv s) (S (ndeliv s))) [EODeliv (opayload s)].

(* execute instruction ins of thread i (already popped); returns the state and the code of the hook point the
   thread was waiting at *)
Definition exec (c : cfg) (s : st) (i : nat) (ins : instr) : st * Z :=
  match ins with
  | IPriv code => (s, code)
  | IPark code => (set_src s (owner s) true (slot s) (payload s), code)
  | IRel => (set_cnt s (S (frees s)) (nfire s) (nconv s) (ndeliv s), 41)
  | IXWait => (s, 9)
  | IClaim who =>
      if owner s then
        (push (set_ret (set_src s false (parked s) (slot s) (out_of (kind_of c who))) who true
                       (match who with S (S O) => 2%nat | _ => 1%nat end)) i [IResolve], 1)
      else (set_ret s who false (won s), 1)       (* lost the race: returns false, nothing else changes *)
  | IDtorP =>
      if owner s then (push (set_ret (set_src s false (parked s) (slot s) (payload s)) 0 true 1%nat) i [IResolve], 2)
      else (s, 2)
  | IResolve =>
      let s1 := set_src s (owner s) (parked s) SReady (payload s) in
      (match slot s with SSub => push s1 i [IWalk] | _ => s1 end, 3)
  | IWalk => (fire c s i, 4)
  | IReady =>
      (match slot s with SReady => fire c s i | _ => push s i [ISub false] end, 5)
  | ISub r =>
      (match slot s with
       | SReady => fire c s i                                         (* refused: run the completion now *)
       | SEmpty => set_src s (owner s) (parked s) SSub (payload s)    (* subscribed *)
       | SSub => push s i [ISub true]                                 (* CAS failed, not ready: retry *)
       end, if r then 7 else 6)
  | ICvClaim =>       (* promise<To> p = std::move(_prom) *)
      (push (set_held (set_out s false (oslot s) (opayload s) (nores s)) (oprom s) (oheld s)) i [ICvReady], 1)
  | ICvReady =>
      match slot s with
      | SReady =>
          let r := conv_result c (payload s) in
          match payload s with
          | OVal v =>
              (* the converter runs; what it does with the promise is its behaviour *)
              let s1 := add_log (set_cnt s (frees s) (nfire s) (S (nconv s)) (ndeliv s)) [EConv v r] in
              (push s1 i (match c_cb c with
                          | 3%nat => [ICvDtor]                 (* declines: nothing but the end of the resume function *)
                          | 4%nat => [ICvPark r]               (* moves the promise away *)
                          | _ => [ICvSet r]                    (* p(value) / throws -> catch: p(current_exception) / p(exception) *)
                          end), 5)
          | _ => (push s i [ICvSet r], 5)                      (* *_fut rethrows -> catch: p(current_exception) *)
          end
      | _ => (push s i [ICvReady], 5)     (* would block in sync(); not reachable *)
      end
  | ICvSet r =>
      (* claim on p, set, resolve, then ~p *)
      if pheld s then (push (set_held (set_out s (oprom s) (oslot s) r (nores s)) false (oheld s)) i [ICvResolve; ICvDtor], 1)
      else (push s i [ICvDtor], 1)
  | ICvPark r =>
      if pheld s then (push (set_held s false (Some r)) i [ICvDtor], 1) else (push s i [ICvDtor], 1)
  | ICvDtor =>
      (* ~promise: a promise that nobody consumed resolves the outer future without a value *)
      if pheld s then (push (set_held s false (oheld s)) i [ICvResolve], 2) else (s, 2)
  | IPark2 => (set_src2 s (owner2 s) true (slot2 s) (payload2 s) (nfire2 s), 1)
  | ISub2 r =>
      (match slot2 s with
       | SReady => fire2 s
       | SEmpty => set_src2 s (owner2 s) (parked2 s) SSub (payload2 s) (nfire2 s)
       | SSub => push s i [ISub2 true]
       end, if r then 7 else 6)
  | IXWait2 => (s, 9)
  | IClaim2 =>
      if owner2 s then (push (set_src2 s false (parked2 s) (slot2 s) (out_of (kind_re c)) (nfire2 s)) i [IResolve2], 1)
      else (s, 1)
  | IDtorP2 =>
      if owner2 s then (push (set_src2 s false (parked2 s) (slot2 s) (payload2 s) (nfire2 s)) i [IResolve2], 2)
      else (s, 2)
  | IResolve2 =>
      let s1 := set_src2 s (owner2 s) (parked2 s) SReady (payload2 s) (nfire2 s) in
      (match slot2 s with SSub => push s1 i [IWalk2] | _ => s1 end, 3)
  | IWalk2 => (fire2 s, 4)
  | IOWait => (match oheld s with Some _ => push s i [IOClaim] | None => s end, 9)
  | IOClaim =>
      match oheld s with
      | Some r => (push (set_held (set_out s (oprom s) (oslot s) r (nores s)) (pheld s) None) i [ICvResolve], 1)
      | None => (s, 1)
      end
  | ICvResolve =>
      let s1 := set_out s (oprom s) SReady (opayload s) (S (nores s)) in
      (match oslot s with SSub => push s1 i [ICvWalk] | _ => s1 end, 3)
  | ICvWalk => (deliver s, 4)
  | IOReady =>
      (match oslot s with SReady => deliver s | _ => push s i [IOSub false] end, 5)
  | IOSub r =>
      (match oslot s with
       | SReady => deliver s
       | SEmpty => set_out s (oprom s) SSub (opayload s) (nores s)
       | SSub => push s i [IOSub true]
       end, if r then 7 else 6)
  end.

Definition enabled (s : st) (i : nat) : bool :=
  match thr s i with
  | [] => false
  | IXWait :: _ => parked s
  | IXWait2 :: _ => parked2 s
  | IOWait :: _ => match oheld s with Some _ => true | None => match oslot s with SReady => true | _ => false end end
  | _ => true
  end.

Definition tstep (c : cfg) (s : st) (i : nat) : st * Z :=
  match thr s i with
  | [] => (s, 0)
  | ins :: rest => exec c (set_thr (tick s) i rest) i ins
  end.

(* ---------- programs ---------- *)
Definition mk_prog (c : cfg) : list instr :=
  match c_mode c with
  | O => []
  | S O => match c_k c with KDrop => [IDtorP] | _ => [IClaim 0; IPriv 2] end
  | _ => [IPark 1; IPriv 2]
  end.
(* the primary resolver: p(v) / p(exception) / a lone drop = ~promise; against a competitor the drop is p(drop),
   because the promise object has to outlive the competitor's call *)
Definition res_prog (c : cfg) : list instr :=
  match c_k c, c_k2 c with KDrop, None => [IDtorP] | _, _ => [IClaim 1] end.
Definition is_mts (c : cfg) : bool := Nat.eqb (c_stor c) 4.
Definition reg_prog (c : cfg) : list instr :=
  match c_ad c with
  | ACbAwait => mk_prog c ++ [IReady]
                                                          (* frame allocation; co_await awt: await_ready, await_suspend *)
  | AMkProm => []
                                                          (* no hook point: the chain is pre-seeded (future.h:883) *)
  | ADiscard => mk_prog c ++ [ISub false]                 (* future.h:973-975 *)
  | ACallFn => mk_prog c ++ [ISub false]                  (* future.h:1048-1053 *)
  | AConv => [IPriv 1; IPriv 1] ++ mk_prog c ++ [ISub false; IPriv 2; IOReady]
      (* future_conv.h:20-24: _prom = std::move(prom) (two claims), _fut << fn, subscribe / resume, ~prom;
         then the harness's outer consumer *)
  end.

Definition is_mode (c : cfg) (m : nat) : bool := Nat.eqb (c_mode c) m.
Definition is_mk (c : cfg) : bool := match c_ad c with AMkProm => true | _ => false end.
Definition is_conv (c : cfg) : bool := match c_ad c with AConv => true | _ => false end.

Definition init (c : cfg) : st :=
  mkSt (negb (is_mode c 0))
       (is_mk c)
       (if is_mk c then SSub else if is_mode c 0 then SReady else SEmpty)
       (if is_mode c 0 then out_of (c_k c) else ONone)
       (is_conv c) SEmpty ONone false None
       (if has_helper (c_ad c) then 1%nat else 0%nat) 0%nat
       (reg_prog c ++ (if is_mode c 3 then res_prog c else []))
       (if is_mode c 2 then IXWait :: res_prog c else [])
       (match c_k2 c with
        | Some _ => [IXWait; IClaim 2]
        | None => if is_conv c && Nat.eqb (c_cb c) 4 then [IOWait]
                  else match c_re c with Some KDrop => [IXWait2; IDtorP2] | Some _ => [IXWait2; IClaim2] | None => [] end
        end)
       0%nat None None (if is_mode c 0 then 1%nat else 0%nat) 0%nat 0%nat 0%nat 0%nat []
       (match c_re c with Some _ => true | None => false end) false SEmpty ONone 0%nat.

Definition valid (c : cfg) : bool :=
  Nat.leb (c_mode c) 3
  && Nat.leb (c_stor c) 4
  && (Nat.eqb (c_stor c) 0 || has_functor (c_ad c))
  && (negb (is_mk c) || Nat.leb 2 (c_mode c))
  && (match c_k2 c with Some _ => is_mode c 2 && negb (Nat.eqb (c_cb c) 4) | None => true end)
  && Nat.leb (c_cb c) 4
  && (match c_re c with
      | Some _ => (match c_ad c with ACallFn => true | _ => false end) && (match c_k2 c with None => true | Some _ => false end)
      | None => true
      end).

(* ---------- schedules ---------- *)
Definition all_enabled (s : st) : list nat :=
  (if enabled s 0 then [0%nat] else []) ++ (if enabled s 1 then [1%nat] else []) ++ (if enabled s 2 then [2%nat] else []).

Fixpoint run_sched (c : cfg) (fuel : nat) (s : st) (sched : list Z) (tr : list (nat * Z)) : st * list (nat * Z) :=
  match fuel with
  | O => (s, tr)
  | S f =>
      match all_enabled s with
      | [] => (s, tr)
      | en =>
          let k := match sched with [] => 0 | x :: _ => Z.abs x end in
          let i := nth (Z.to_nat (k mod zlen en)) en 0%nat in
          let '(s1, p) := tstep c s i in
          run_sched c f s1 (tl sched) (tr ++ [(i, p)])
      end
  end.

(* ---------- wire ---------- *)
Fixpoint find_op (h : Z) (ops : list (list Z)) : option (list Z) :=
  match ops with
  | [] => None
  | (x :: r) :: t => if Z.eqb x h then Some r else find_op h t
  | [] :: t => find_op h t
  end.

Definition dec_ad (z : Z) : option adapter :=
  match z with 0 => Some ACbAwait | 1 => Some AMkProm | 2 => Some ADiscard | 3 => Some AConv | 4 => Some ACallFn | _ => None end.
(* a future<void> carries no datum: the value is the unit, written 0 *)
Definition dec_k (isvoid : bool) (k d : Z) : option rkind :=
  match k with 0 => Some (KVal (if isvoid then 0 else d)) | 1 => Some (KExc d) | 2 => Some KDrop | _ => None end.
Definition dec_bool (z : Z) : option bool := match z with 0 => Some false | 1 => Some true | _ => None end.
Definition dec_nat4 (z : Z) : option nat :=
  match z with 0 => Some 0%nat | 1 => Some 1%nat | 2 => Some 2%nat | 3 => Some 3%nat | 4 => Some 4%nat | _ => None end.
Definition dec_mode (z : Z) : option nat := match z with 4 => None | _ => dec_nat4 z end.

(* op 3: converter behaviour [ckind cdatum] or [ckind cdatum spec]; spec selects the future_conv specialisation
   (0 member function, 1 free function, 2 free function with context, 3 member function that is handed the promise,
   4 member function returning a REFERENCE (outer future<To&>: it must refer to the very object the converter returned;
   the harness compares addresses); a void source has only 0 and 3).  All specialisations have the same hook points and the same effect
   (future_conv.h:56-159), so the model does not distinguish them. *)
Definition dec_conv (isvoid : bool) (ops : list (list Z)) : option (nat * Z) :=
  match find_op 3 ops with
  | None => Some (0%nat, 0)
  | Some [ck; cd] => match dec_bool ck with Some b => Some (if b then 1%nat else 0%nat, cd) | None => None end
  | Some [ck; cd; sp] =>
      match dec_nat4 ck, dec_nat4 sp with
      | Some b, Some n =>
          if isvoid && (Nat.eqb n 1 || Nat.eqb n 2 || Nat.eqb n 4) then None
          else if Nat.leb 2 b && negb (Nat.eqb n 3) then None     (* only a converter that is handed the promise can do 2-4 *)
          else Some (b, cd)
      | _, _ => None
      end
  | Some _ => None
  end.

(* op 5: competing resolver *)
Definition dec_k2 (isvoid : bool) (ops : list (list Z)) : option (option rkind) :=
  match find_op 5 ops with
  | None => Some None
  | Some [k; d] => match dec_k isvoid k d with Some r => Some (Some r) | None => None end
  | Some _ => None
  end.

(* op 6: the re-arming handler's second operation *)
Definition dec_re (isvoid : bool) (ops : list (list Z)) : option (option rkind) :=
  match find_op 6 ops with
  | None => Some None
  | Some [k; d] => match dec_k isvoid k d with Some r => Some (Some r) | None => None end
  | Some _ => None
  end.

Definition decode (isvoid : bool) (ops : list (list Z)) : option cfg :=
  match find_op 1 ops, find_op 2 ops with
  | Some [a; m; s], Some [k; d] =>
      match dec_ad a, dec_mode m, dec_nat4 s, dec_k isvoid k d, dec_conv isvoid ops, dec_k2 isvoid ops, dec_re isvoid ops with
      | Some a', Some m', Some s', Some k', Some (b, cd), Some k2, Some re => Some (mkCfg a' m' s' k' k2 re b cd)
      | _, _, _, _, _, _, _ => None
      end
  | _, _ => None
  end.

(* op [4 b]: the harness's callback_await callback throws after doing its work.  The callback is invoked outside the
   try block (callback_awaiter.h:72-92), so its exception leaves through unhandled_exception of the detached
   coroutine and nothing else changes: the flag is only checked for well-formedness here. *)
Definition flag_ok (ops : list (list Z)) : bool :=
  match find_op 4 ops with
  | None => true
  | Some [b] => match dec_bool b with Some _ => true | None => false end
  | Some _ => false
  end.

Definition decode_valid (isvoid : bool) (ops : list (list Z)) : option cfg :=
  match decode isvoid ops with Some c => if valid c && flag_ok ops then Some c else None | None => None end.

Definition decode_sched (l : list Z) : list Z := match l with 9 :: r => r | _ => [] end.

Definition okind (o : outcome) : list Z :=
  match o with ONone => [0; 0] | OVal v => [1; v] | OExc e => [2; e] | OCanc => [3; 0] end.

(* helper blocks as the four counters (heap news, heap deletes, storage allocs, storage deallocs) while the scenario runs:
   reusable_storage(_mtsafe) takes its block from the heap on first use and keeps it when the frame is released *)
Definition split_ev (c : cfg) (al fr : nat) : list Z :=
  match c_stor c with
  | 0%nat => [Z.of_nat al; Z.of_nat fr; 0; 0]
  | 1%nat | 3%nat => [0; 0; Z.of_nat al; Z.of_nat fr]
  | _ => [Z.of_nat al; 0; 0; 0]
  end.
(* ... and after the storage object itself has been destroyed *)
Definition split_fin (c : cfg) (al fr : nat) : list Z :=
  match c_stor c with
  | 0%nat => [Z.of_nat al; Z.of_nat fr; 0; 0]
  | 1%nat | 3%nat => [0; 0; Z.of_nat al; Z.of_nat fr]
  | _ => [Z.of_nat al; Z.of_nat al; 0; 0]
  end.

Definition ev_line (c : cfg) (seq : bool) (e : nat * ev) : list Z :=
  let t := if seq then 0 else Z.of_nat (fst e) in
  match snd e with
  | ECb o al fr => 30 :: t :: okind o ++ split_ev c al fr
  | ECbRet al fr => 31 :: t :: split_ev c al fr
  | EFun al fr => 34 :: t :: split_ev c al fr
  | ESd => [35; t]
  | EConv src r => 32 :: t :: src :: okind r
  | EODeliv o => 33 :: t :: okind o
  end.

Definition is_cb (e : nat * ev) : bool := match snd e with ECb _ _ _ => true | _ => false end.

Definition stuck_list (s : st) : list Z :=
  (match th0 s with [] => [] | _ => [0] end) ++ (match th1 s with [] => [] | _ => [1] end)
  ++ (match th2 s with [] => [] | _ => [2] end).

Definition retz (r : option bool) : Z := match r with None => -1 | Some b => b2z b end.

(* the summary lines: 40 counters + live callback objects + live payload instances; 43 the two trailer-tagged
   storages (first: never used; second: the one handed to the adapter), size/owner mismatches, mtsafe busy flag;
   42 outer future; 44 what the resolvers' calls returned; 50 number of callback entries; 41 blocks the case lost *)
Definition final_lines (c : cfg) (s : st) : list (list Z) :=
  [ 40 :: split_fin c (allocs s) (frees s) ++ [0; 0];
    (match c_stor c with
     | 3%nat => [43; 0; 0; Z.of_nat (allocs s); Z.of_nat (frees s); 0; 0]
     | _ => [43; 0; 0; 0; 0; 0; 0]
     end);
    (match oslot s with SReady => 42 :: 1 :: okind (opayload s) | _ => [42; 0; 0; 0] end);
    [44; retz (ret1 s); retz (ret2 s)];
    [50; zlen (filter is_cb (log s)); 0];
    [41; Z.of_nat (allocs s) - Z.of_nat (frees s)] ].

Definition adapt_run (seq isvoid : bool) (ops : list (list Z)) : list (list Z) :=
  match decode_valid isvoid ops with
  | None => [[-1]]
  | Some c =>
      let sched := if seq then [] else flat_map decode_sched ops in
      let '(s, tr) := run_sched c (length sched + 200) (init c) sched [] in
      (if seq then [] else map (fun p => [Z.of_nat (fst p); snd p]) tr)
      ++ match stuck_list s with
         | [] => map (ev_line c seq) (log s) ++ final_lines c s
         | l => (777 :: l) :: map (ev_line c seq) (log s)
         end
  end.

(* ---------- decidable form of C18 on an observed trace ---------- *)
Definition list_eqb (a b : list Z) : bool :=
  Nat.eqb (length a) (length b) && forallb (fun p => Z.eqb (fst p) (snd p)) (combine a b).

Definition headz (l : list Z) : Z := match l with x :: _ => x | [] => -100 end.
Definition is_event_line (l : list Z) : bool :=
  let h := headz l in Z.eqb h 30 || Z.eqb h 31 || Z.eqb h 34 || Z.eqb h 35 || Z.eqb h 32 || Z.eqb h 33 || Z.eqb h 36 || Z.eqb h 37.
(* 36: the counting storage was asked for a block while one was live; 37: the awaitable's factory was used after the caller's
   statement had destroyed it - lines the model never produces, so the oracle rejects them *)
Definition is_final_line (l : list Z) : bool :=
  let h := headz l in Z.eqb h 40 || Z.eqb h 43 || Z.eqb h 42 || Z.eqb h 44 || Z.eqb h 50 || Z.eqb h 41.
(* drop the step number (position 1) of an event line *)
Definition strip (l : list Z) : list Z := match l with h :: _ :: r => h :: r | _ => l end.

Definition hbn (c : cfg) : nat := if has_helper (c_ad c) then 1%nat else 0%nat.

(* the event lines the property allows when the resolution delivered outcome o, in order, without step numbers:
   exactly one callback with exactly that outcome while the helper block is allocated and nothing has been released;
   then the callback object dies, then the block goes back to the storage it came from *)
Definition expected_events (c : cfg) (o : outcome) : list (list Z) :=
  match c_ad c with
  | ADiscard => []
  | ACallFn => [30 :: okind o ++ split_ev c 0 0; 31 :: split_ev c 0 0]
               ++ (match c_re c with
                   | Some k => [30 :: okind (out_of k) ++ split_ev c 0 0; 31 :: split_ev c 0 0]   (* once per awaited operation *)
                   | None => []
                   end)
  | AConv =>
      (match o with OVal v => [32 :: v :: okind (conv_result c o)] | _ => [] end)
      ++ [33 :: okind (conv_result c o)]
  | _ => [30 :: okind o ++ split_ev c (hbn c) 0; 31 :: split_ev c (hbn c) 0; 34 :: split_ev c (hbn c) 0]
         ++ (if has_sd (c_stor c) then [[35]] else [])
  end.

(* what the resolvers' calls must have returned: exactly one `true` among the calls that were made *)
Definition prim_calls (c : cfg) : bool :=
  (is_mode c 2 || is_mode c 3) && match c_k c, c_k2 c with KDrop, None => false | _, _ => true end.

Definition rets_ok (c : cfg) (r1 r2 : Z) : bool :=
  match c_k2 c with
  | None => Z.eqb r2 (-1) && Z.eqb r1 (if prim_calls c then 1 else -1)
  | Some _ => (Z.eqb r1 1 && Z.eqb r2 0) || (Z.eqb r1 0 && Z.eqb r2 1)
  end.

Definition expected_final (c : cfg) (o : outcome) (r1 r2 : Z) : list (list Z) :=
  [ 40 :: split_fin c (hbn c) (hbn c) ++ [0; 0];
    (match c_stor c with
     | 3%nat => [43; 0; 0; Z.of_nat (hbn c); Z.of_nat (hbn c); 0; 0]
     | _ => [43; 0; 0; 0; 0; 0; 0]
     end);
    (if is_conv c then 42 :: 1 :: okind (conv_result c o) else [42; 0; 0; 0]);
    [44; r1; r2];
    [50; (if has_cb (c_ad c) then 1 else 0) + (match c_re c with Some _ => 1 | None => 0 end); 0];
    [41; 0] ].

Fixpoint lists_eqb (a b : list (list Z)) : bool :=
  match a, b with
  | [], [] => true
  | x :: a', y :: b' => list_eqb x y && lists_eqb a' b'
  | _, _ => false
  end.

(* steps of the event lines never decrease (an event belongs to the step that produced it) *)
Fixpoint steps_mono (prev : Z) (l : list (list Z)) : bool :=
  match l with
  | [] => true
  | (_ :: t :: _) :: r => Z.leb prev t && steps_mono t r
  | _ :: r => false
  end.

Fixpoint find_line (h : Z) (obs : list (list Z)) : option (list Z) :=
  match obs with
  | [] => None
  | l :: t => if Z.eqb (headz l) h then Some l else find_line h t
  end.

(* The observed trace satisfies C18: the outcome that had to be delivered is the one of the resolver whose call
   returned true (line 44; the declared one when there is no competitor); everything else is fixed by the property. *)
Definition adapt_oracle (seq isvoid : bool) (ops obs : list (list Z)) : bool :=
  match decode_valid isvoid ops with
  | None => lists_eqb obs [[-1]]
  | Some c =>
      match find_line 44 obs with
      | Some [_; r1; r2] =>
          let o := out_of (kind_of c (if Z.eqb r2 1 then 2%nat else 1%nat)) in
          let evs := filter is_event_line obs in
          let fin := filter is_final_line obs in
          rets_ok c r1 r2
          && lists_eqb (map strip evs) (expected_events c o)
          && steps_mono 0 evs
          && lists_eqb fin (expected_final c o r1 r2)
          && negb (existsb (fun l => Z.eqb (headz l) 777) obs)
      | _ => false
      end
  end.
