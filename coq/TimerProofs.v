(* TimerProofs.v — proofs about the scheduler model of TimerDefs.v (property C12).
   Everything is for arrays of any length, any time points (equal / past / negative) and any idents. *)
From Cocls Require Import Base BaseProofs TimerDefs.
Require Import ZifyBool ZifyNat.
Local Open Scope Z_scope.
Ltac Zify.zify_post_hook ::= Z.div_mod_to_equations.

(* ================================================================= *)
(* 1. array helpers                                                  *)
(* ================================================================= *)

Lemma set_nth_length {A} (l : list A) i x : length (set_nth l i x) = length l.
Proof. revert i; induction l as [|y l IH]; intros [|i]; cbn [set_nth length]; auto. Qed.

Lemma nth_set_nth {A} (l : list A) i j x d :
  nth j (set_nth l i x) d = if (Nat.eqb i j && Nat.ltb i (length l))%bool then x else nth j l d.
Proof.
  revert i j; induction l as [|y l IH]; intros i j.
  - cbn [set_nth length]. destruct i, j; cbn; try reflexivity; rewrite andb_false_r; reflexivity.
  - destruct i as [|i], j as [|j]; cbn [set_nth nth length]; try reflexivity.
    rewrite IH. change (Nat.eqb (S i) (S j)) with (Nat.eqb i j).
    change (Nat.ltb (S i) (S (length l))) with (Nat.ltb i (length l)). reflexivity.
Qed.

Lemma nth_set_nth_eq {A} (l : list A) i x d : (i < length l)%nat -> nth i (set_nth l i x) d = x.
Proof.
  intros H. rewrite nth_set_nth. rewrite Nat.eqb_refl. destruct (Nat.ltb_spec i (length l)); [reflexivity|lia].
Qed.

Lemma nth_set_nth_ne {A} (l : list A) i j x d : i <> j -> nth j (set_nth l i x) d = nth j l d.
Proof.
  intros H. rewrite nth_set_nth. destruct (Nat.eqb_spec i j); [contradiction|reflexivity].
Qed.

(* replacing slot i by x: the old content leaves, x enters *)
Lemma set_nth_perm {A} (l : list A) i x d : (i < length l)%nat ->
  Permutation (nth i l d :: set_nth l i x) (x :: l).
Proof.
  revert i; induction l as [|y l IH]; intros [|i] H; cbn [length] in H; try lia; cbn [set_nth nth].
  - apply perm_swap.
  - assert (i < length l)%nat as H' by lia. specialize (IH i H').
    rewrite perm_swap. rewrite IH. apply perm_swap.
Qed.

Lemma set_nth_same {A} (l : list A) i d : set_nth l i (nth i l d) = l.
Proof.
  revert i; induction l as [|y l IH]; intros [|i]; cbn [set_nth nth]; try reflexivity. rewrite IH. reflexivity.
Qed.

Lemma set_nth_set_nth {A} (l : list A) i x y : set_nth (set_nth l i x) i y = set_nth l i y.
Proof.
  revert i; induction l as [|z l IH]; intros [|i]; cbn [set_nth]; try reflexivity. rewrite IH. reflexivity.
Qed.

(* moving slot j into the hole i and then filling j is a permutation of filling the hole directly *)
Lemma hole_move_perm {A} (l : list A) i j x d : i <> j -> (i < length l)%nat -> (j < length l)%nat ->
  Permutation (set_nth (set_nth l i (nth j l d)) j x) (set_nth l i x).
Proof.
  intros N Hi Hj.
  apply (Permutation_cons_inv (a := nth j l d)).
  pose proof (set_nth_perm (set_nth l i (nth j l d)) j x d) as P1.
  rewrite set_nth_length in P1. specialize (P1 Hj).
  rewrite nth_set_nth_ne in P1 by exact N.
  rewrite P1.
  (* x :: set_nth l i (nth j l d)  ~  nth j l d :: set_nth l i x *)
  pose proof (set_nth_perm l i (nth j l d) d Hi) as P2.
  pose proof (set_nth_perm l i x d Hi) as P3.
  apply (Permutation_cons_inv (a := nth i l d)).
  transitivity (x :: nth j l d :: l).
  - rewrite perm_swap. apply perm_skip. exact P2.
  - symmetry. rewrite perm_swap. rewrite (perm_swap (nth j l d) x l). apply perm_skip. exact P3.
Qed.

(* ================================================================= *)
(* 2. the heap: order and multiset are preserved by push / pop       *)
(* ================================================================= *)

Definition tpat (l : list entry) (i : nat) : Z := e_tp (nth i l dflt).

(* min-heap on the time point (compare_item is `>`): every slot is >= its parent slot *)
Definition heap_ok (l : list entry) : Prop :=
  forall i, (0 < i < length l)%nat -> tpat l (parent i) <= tpat l i.

Lemma parent_lt i : (0 < i)%nat -> (parent i < i)%nat.
Proof. unfold parent. intros. lia. Qed.

Lemma parent_child i h : (0 < i)%nat -> parent i = h -> (i = 2 * h + 1 \/ i = 2 * h + 2)%nat.
Proof. unfold parent. intros. lia. Qed.

Lemma tpat_set_eq l i x : (i < length l)%nat -> tpat (set_nth l i x) i = e_tp x.
Proof. intros H. unfold tpat. rewrite nth_set_nth_eq by exact H. reflexivity. Qed.

Lemma tpat_set_ne l i j x : i <> j -> tpat (set_nth l i x) j = tpat l j.
Proof. intros H. unfold tpat. rewrite nth_set_nth_ne by exact H. reflexivity. Qed.

Lemma cmp_spec a b : cmp a b = true <-> e_tp b < e_tp a.
Proof. unfold cmp. lia. Qed.

(* "heap with a hole at h that is to receive v" — the loop invariant of __push_heap *)
Definition up_inv (l : list entry) (h : nat) (v : entry) : Prop :=
  (h < length l)%nat /\
  (forall i, (0 < i < length l)%nat -> i <> h -> tpat l (parent i) <= tpat l i) /\
  (forall c, (0 < c < length l)%nat -> parent c = h -> e_tp v <= tpat l c) /\
  ((0 < h)%nat -> forall c, (0 < c < length l)%nat -> parent c = h -> tpat l (parent h) <= tpat l c).

Lemma push_heap_aux_ok fuel : forall l h v, (h < fuel)%nat -> up_inv l h v ->
  let r := push_heap_aux fuel l h 0 v in
  heap_ok r /\ length r = length l /\ Permutation r (set_nth l h v).
Proof.
  induction fuel as [|f IH]; intros l h v F (HL & HA & HB & HC); [lia|].
  cbn [push_heap_aux]. cbn zeta.
  set (p := parent h).
  destruct ((0 <? h)%nat && cmp (nth p l dflt) v)%bool eqn:C.
  - (* move the parent down, continue at the parent *)
    apply andb_true_iff in C. destruct C as [C0 C1]. apply Nat.ltb_lt in C0. apply cmp_spec in C1.
    assert (p < h)%nat as PH by (apply parent_lt; exact C0).
    assert (up_inv (set_nth l h (nth p l dflt)) p v) as U.
    { unfold up_inv. rewrite set_nth_length. refine (conj _ (conj _ (conj _ _))).
      - lia.
      - intros i Hi Ni. destruct (Nat.eq_dec i h) as [E|E].
        + subst i. rewrite tpat_set_eq by exact HL. fold p. rewrite tpat_set_ne by lia. unfold tpat. lia.
        + rewrite (tpat_set_ne l h i) by congruence.
          destruct (Nat.eq_dec (parent i) h) as [E2|E2].
          * rewrite E2. rewrite tpat_set_eq by exact HL. apply (HC C0 i Hi E2).
          * rewrite tpat_set_ne by congruence. apply HA; assumption.
      - intros c Hc Pc. destruct (Nat.eq_dec c h) as [E|E].
        + subst c. rewrite tpat_set_eq by exact HL. lia.
        + rewrite tpat_set_ne by congruence. specialize (HA c Hc E). rewrite Pc in HA. unfold tpat in *. lia.
      - intros P0 c Hc Pc.
        assert (parent p < p)%nat as PP by (apply parent_lt; exact P0).
        rewrite (tpat_set_ne l h (parent p)) by lia.
        assert (tpat l (parent p) <= tpat l p) as Q by (apply HA; lia).
        destruct (Nat.eq_dec c h) as [E|E].
        + subst c. rewrite tpat_set_eq by exact HL. exact Q.
        + rewrite tpat_set_ne by congruence. specialize (HA c Hc E). rewrite Pc in HA. lia. }
    assert (p < f)%nat as PF by lia.
    specialize (IH _ _ _ PF U). cbn zeta in IH. destruct IH as (I1 & I2 & I3).
    refine (conj I1 (conj _ _)).
    + rewrite I2. apply set_nth_length.
    + rewrite I3. apply hole_move_perm; lia.
  - (* place v *)
    refine (conj _ (conj (set_nth_length _ _ _) (Permutation_refl _))).
    intros i Hi. rewrite set_nth_length in Hi.
    destruct (Nat.eq_dec i h) as [E|E].
    + subst i. rewrite tpat_set_eq by exact HL.
      assert (parent h < h)%nat by (apply parent_lt; lia).
      rewrite tpat_set_ne by lia.
      apply andb_false_iff in C. destruct C as [C|C]; [apply Nat.ltb_ge in C; lia|].
      assert (~ e_tp v < e_tp (nth p l dflt)) as Q by (rewrite <- cmp_spec; congruence).
      unfold tpat. fold p. lia.
    + rewrite (tpat_set_ne l h i) by congruence.
      destruct (Nat.eq_dec (parent i) h) as [E2|E2].
      * rewrite E2. rewrite tpat_set_eq by exact HL. apply HB; assumption.
      * rewrite tpat_set_ne by congruence. apply HA; assumption.
Qed.

Lemma nth_app_l {A} (a b : list A) i d : (i < length a)%nat -> nth i (a ++ b) d = nth i a d.
Proof. intros H. apply app_nth1. exact H. Qed.

Lemma set_nth_app_last {A} (l : list A) x y : set_nth (l ++ [x]) (length l) y = l ++ [y].
Proof. induction l as [|z l IH]; cbn [app length set_nth]; [reflexivity|]. rewrite IH. reflexivity. Qed.

(* push_back + std::push_heap *)
Theorem heap_push_ok l e : heap_ok l ->
  heap_ok (heap_push l e) /\ Permutation (heap_push l e) (e :: l) /\ length (heap_push l e) = S (length l).
Proof.
  intros H. unfold heap_push.
  assert (up_inv (l ++ [e]) (length l) e) as U.
  { unfold up_inv. rewrite app_length. cbn [length]. refine (conj _ (conj _ (conj _ _))).
    - lia.
    - intros i Hi Ni. assert (i < length l)%nat as Q by lia.
      assert (parent i < i)%nat by (apply parent_lt; lia).
      unfold tpat. rewrite !nth_app_l by lia. apply H. lia.
    - intros c Hc Pc. unfold parent in Pc. lia.
    - intros _ c Hc Pc. unfold parent in Pc. lia. }
  pose proof (push_heap_aux_ok (S (length l)) _ _ _ (Nat.lt_succ_diag_r _) U) as (A & B & C).
  refine (conj A (conj _ _)).
  - rewrite C. rewrite set_nth_app_last. rewrite Permutation_app_comm. reflexivity.
  - rewrite B. rewrite app_length. cbn [length]. lia.
Qed.

(* the sift-down loop of __adjust_heap keeps the array a heap (stale copy left in the hole),
   moves the hole to a node without two children, and only permutes the slots other than the hole *)
Lemma sift_down_ok fuel : forall l h len, len = length l -> heap_ok l -> (h < len)%nat ->
  let r := sift_down fuel l h len in
  heap_ok (fst r) /\ length (fst r) = len /\ (h <= snd r < len)%nat /\
  (forall x, Permutation (set_nth (fst r) (snd r) x) (set_nth l h x)) /\
  ((len <= fuel + h)%nat -> ~ (snd r < (len - 1) / 2)%nat).
Proof.
  induction fuel as [|f IH]; intros l h len EL H HL; cbn [sift_down].
  - cbn [fst snd]. refine (conj H (conj (eq_sym EL) (conj _ (conj (fun x => Permutation_refl _) _)))); lia.
  - destruct (Nat.ltb_spec h ((len - 1) / 2)) as [C|C].
    + cbn zeta.
      set (sc := (2 * (h + 1))%nat).
      set (c := if cmp (nth sc l dflt) (nth (sc - 1) l dflt) then (sc - 1)%nat else sc).
      assert (sc < len)%nat as SC by (unfold sc; lia).
      assert ((c = sc \/ c = sc - 1)%nat /\ tpat l c <= tpat l sc /\ tpat l c <= tpat l (sc - 1)) as (CC & C1 & C2).
      { unfold c. destruct (cmp (nth sc l dflt) (nth (sc - 1) l dflt)) eqn:Q.
        - apply cmp_spec in Q. unfold tpat. lia.
        - assert (~ e_tp (nth (sc - 1) l dflt) < e_tp (nth sc l dflt)) by (rewrite <- cmp_spec; congruence).
          unfold tpat. lia. }
      assert (c < len)%nat as CL by lia.
      assert (h < c)%nat as HC by (unfold sc in *; lia).
      assert (parent c = h) as PC by (unfold parent, sc in *; lia).
      assert (heap_ok (set_nth l h (nth c l dflt))) as H'.
      { intros i Hi. rewrite set_nth_length in Hi. rewrite <- EL in Hi.
        destruct (Nat.eq_dec i h) as [E|E].
        - subst i. rewrite tpat_set_eq by lia.
          assert (parent h < h)%nat by (apply parent_lt; lia). rewrite tpat_set_ne by lia.
          assert (tpat l (parent h) <= tpat l h) by (apply H; lia).
          assert (tpat l (parent c) <= tpat l c) as Q by (apply H; lia). rewrite PC in Q. unfold tpat in *. lia.
        - rewrite (tpat_set_ne l h i) by congruence.
          destruct (Nat.eq_dec (parent i) h) as [E2|E2].
          + rewrite E2. rewrite tpat_set_eq by lia.
            destruct (parent_child i h (proj1 Hi) E2) as [Q|Q]; unfold sc in *; fold (tpat l c).
            * replace i with (2 * (h + 1) - 1)%nat by lia. exact C2.
            * replace i with (2 * (h + 1))%nat by lia. exact C1.
          + rewrite tpat_set_ne by congruence. apply H. lia. }
      assert (len = length (set_nth l h (nth c l dflt))) as EL' by (rewrite set_nth_length; exact EL).
      specialize (IH _ c len EL' H' CL). cbn zeta in IH.
      destruct (sift_down f (set_nth l h (nth c l dflt)) c len) as [l1 h1]. cbn [fst snd] in *.
      destruct IH as (I1 & I2 & I3 & I4 & I5).
      refine (conj I1 (conj I2 (conj _ (conj _ _)))).
      * lia.
      * intros x. rewrite I4. apply hole_move_perm; lia.
      * intros Q. apply I5. lia.
    + cbn [fst snd]. refine (conj H (conj (eq_sym EL) (conj _ (conj (fun x => Permutation_refl _) _)))); lia.
Qed.

(* __adjust_heap with the hole at the root of a heap: the result is a heap holding v instead of the root *)
Lemma adjust_heap_ok l v : heap_ok l -> (0 < length l)%nat ->
  let r := adjust_heap l 0 (length l) v in
  heap_ok r /\ length r = length l /\ Permutation r (set_nth l 0 v).
Proof.
  intros H L. unfold adjust_heap.
  pose proof (sift_down_ok (length l) l 0 (length l) eq_refl H L) as S. cbn zeta in S.
  destruct (sift_down (length l) l 0 (length l)) as [l1 h1]. cbn [fst snd] in S.
  destruct S as (S1 & S2 & S3 & S4 & S5).
  assert (~ (h1 < (length l - 1) / 2)%nat) as LEAF by (apply S5; lia). clear S5.
  set (len := length l) in *.
  destruct (Nat.even len && (h1 =? (len - 2) / 2)%nat)%bool eqn:EV.
  - (* a last node with a left child only *)
    apply andb_true_iff in EV. destruct EV as [EV EH]. apply Nat.eqb_eq in EH.
    apply Nat.even_spec in EV. destruct EV as [k EK].
    set (c := (2 * (h1 + 1) - 1)%nat).
    assert (c = len - 1 /\ h1 < c /\ c < len)%nat as (C1 & C2 & C3) by (unfold c; lia).
    assert (parent c = h1) as PC by (unfold parent, c; lia).
    assert (heap_ok (set_nth l1 h1 (nth c l1 dflt))) as H'.
    { intros i Hi. rewrite set_nth_length in Hi. rewrite S2 in Hi.
      destruct (Nat.eq_dec i h1) as [E|E].
      - subst i. rewrite tpat_set_eq by lia.
        assert (parent h1 < h1)%nat by (apply parent_lt; lia). rewrite tpat_set_ne by lia.
        assert (tpat l1 (parent h1) <= tpat l1 h1) by (apply S1; lia).
        assert (tpat l1 (parent c) <= tpat l1 c) as Q by (apply S1; lia). rewrite PC in Q. unfold tpat in *. lia.
      - rewrite (tpat_set_ne l1 h1 i) by congruence.
        destruct (Nat.eq_dec (parent i) h1) as [E2|E2].
        + rewrite E2. rewrite tpat_set_eq by lia.
          destruct (parent_child i h1 (proj1 Hi) E2) as [Q|Q]; [|lia].
          replace i with c by (unfold c; lia). unfold tpat. lia.
        + rewrite tpat_set_ne by congruence. apply S1. lia. }
    assert (up_inv (set_nth l1 h1 (nth c l1 dflt)) c v) as U.
    { unfold up_inv. rewrite set_nth_length, S2. refine (conj C3 (conj _ (conj _ _))).
      - intros i Hi _. apply H'. rewrite set_nth_length, S2. exact Hi.
      - intros d Hd Pd. unfold parent in Pd. lia.
      - intros _ d Hd Pd. unfold parent in Pd. lia. }
    pose proof (push_heap_aux_ok (S c) _ _ _ (Nat.lt_succ_diag_r _) U) as (A & B & C).
    refine (conj A (conj _ _)).
    + rewrite B, set_nth_length. exact S2.
    + rewrite C. rewrite hole_move_perm by lia. apply S4.
  - (* the hole is a leaf *)
    assert (len <= 2 * h1 + 1)%nat as LF.
    { apply andb_false_iff in EV. destruct (Nat.even len) eqn:EE.
      - destruct EV as [EV|EV]; [discriminate|]. apply Nat.eqb_neq in EV.
        apply Nat.even_spec in EE. destruct EE as [k EK]. lia.
      - rewrite <- Nat.negb_odd in EE. apply negb_false_iff in EE. apply Nat.odd_spec in EE.
        destruct EE as [k EK]. lia. }
    assert (up_inv l1 h1 v) as U.
    { unfold up_inv. rewrite S2. refine (conj (proj2 S3) (conj _ (conj _ _))).
      - intros i Hi _. apply S1. rewrite S2. exact Hi.
      - intros d Hd Pd. unfold parent in Pd. lia.
      - intros _ d Hd Pd. unfold parent in Pd. lia. }
    pose proof (push_heap_aux_ok (S h1) _ _ _ (Nat.lt_succ_diag_r _) U) as (A & B & C).
    refine (conj A (conj _ _)).
    + rewrite B. exact S2.
    + rewrite C. apply S4.
Qed.

Lemma heap_ok_prefix l x : heap_ok (l ++ [x]) -> heap_ok l.
Proof.
  intros H i Hi. assert (parent i < i)%nat by (apply parent_lt; lia).
  specialize (H i). rewrite app_length in H. cbn [length] in H.
  unfold tpat in *. rewrite !nth_app_l in H by lia. apply H. lia.
Qed.

Lemma heap_ok_nil : heap_ok [].
Proof. intros i Hi. cbn [length] in Hi. lia. Qed.

Lemma heap_ok_one x : heap_ok [x].
Proof. intros i Hi. cbn [length] in Hi. lia. Qed.

(* heap order depends on the time points only: emptying an entry in place keeps it *)
Lemma heap_ok_ext l l' : map e_tp l = map e_tp l' -> heap_ok l -> heap_ok l'.
Proof.
  intros E H i Hi.
  assert (length l = length l') as EL by (rewrite <- (map_length e_tp l), E, map_length; reflexivity).
  assert (forall j, tpat l' j = tpat l j) as T.
  { intros j. unfold tpat. change (e_tp (nth j l' dflt)) with (e_tp (nth j l' dflt)).
    rewrite <- (map_nth e_tp l' dflt j), <- (map_nth e_tp l dflt j), E. reflexivity. }
  rewrite !T. apply H. lia.
Qed.

(* pop_item on a non-empty heap: no error, a heap again, exactly the top has left *)
Theorem pop_item_ok t rest : heap_ok (t :: rest) ->
  exists l', pop_item (t :: rest) = Ok l' /\ heap_ok l' /\ Permutation (t :: l') (t :: rest) /\ length l' = length rest.
Proof.
  intros H. destruct rest as [|u rest'] eqn:ER.
  - exists []. cbn [pop_item]. repeat split; auto using heap_ok_nil.
  - rewrite <- ER in *. assert (rest <> []) as NE by (rewrite ER; discriminate).
    assert (pop_item (t :: rest) = Ok (adjust_heap (removelast (t :: rest)) 0 (length (t :: rest) - 1) (last (t :: rest) dflt))) as EP.
    { rewrite ER. reflexivity. }
    rewrite EP. clear EP.
    pose proof (app_removelast_last dflt NE) as SP.
    assert (removelast (t :: rest) = t :: removelast rest) as R1.
    { rewrite ER. cbn [removelast]. reflexivity. }
    assert (last (t :: rest) dflt = last rest dflt) as R2.
    { rewrite ER. cbn [last]. reflexivity. }
    rewrite R1, R2.
    assert (heap_ok (t :: removelast rest)) as HP.
    { apply (heap_ok_prefix _ (last rest dflt)). cbn [app]. rewrite <- SP. exact H. }
    assert (length (t :: rest) - 1 = length (t :: removelast rest))%nat as EL.
    { cbn [length]. rewrite SP at 1. rewrite app_length. cbn [length]. lia. }
    rewrite EL.
    assert (0 < length (t :: removelast rest))%nat as L0 by (cbn [length]; lia).
    pose proof (adjust_heap_ok (t :: removelast rest) (last rest dflt) HP L0) as (A & B & C).
    eexists. refine (conj eq_refl (conj A (conj _ _))).
    + rewrite C. cbn [set_nth]. apply perm_skip.
      set (a := removelast rest) in *. set (b := last rest dflt) in *. rewrite SP.
      rewrite Permutation_app_comm. reflexivity.
    + rewrite B. cbn [length].
      set (a := removelast rest) in *. set (b := last rest dflt) in *. rewrite SP.
      rewrite app_length. cbn [length]. lia.
Qed.

(* the top of a heap is a minimum of the whole array *)
Lemma heap_top_min l : heap_ok l -> forall i, (i < length l)%nat -> tpat l 0 <= tpat l i.
Proof.
  intros H i. induction i as [i IH] using lt_wf_ind. intros Hi.
  destruct (Nat.eq_dec i 0) as [E|E]; [subst; lia|].
  assert (parent i < i)%nat as P by (apply parent_lt; lia).
  specialize (IH _ P). specialize (H i). lia.
Qed.

Lemma heap_top_min_in t rest e : heap_ok (t :: rest) -> In e (t :: rest) -> e_tp t <= e_tp e.
Proof.
  intros H I. destruct (In_nth _ _ dflt I) as (i & Hi & E).
  pose proof (heap_top_min _ H i Hi) as Q. unfold tpat in Q. rewrite E in Q. exact Q.
Qed.
