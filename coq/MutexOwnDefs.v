(* MutexOwnDefs.v — sequential model of the ownership objects of cocls::mutex (mutex.h:62-103): an
   `ownership` is a unique_ptr<mutex, deleter>; giving it up by release(), destruction or by being overwritten
   (move assignment) unlocks the mutex exactly once — handing it over when requests wait — and a moved-from or
   released ownership is empty.  Waiters are callback style (co_awaiter<mutex>::await_suspend(resume_fn, ctx),
   awaiter.h:191): their resume function runs synchronously inside unlock() and stores the new ownership into
   a slot, possibly the very slot that is being released or overwritten (re-entrancy).
   Single thread, two mutexes, four ownership slots.  The lock-free protocol inside one mutex is the subject of
   MutexDefs.v (engine mx); here a mutex is abstracted to (locked, FIFO of waiting requests), which is what
   Properties_C07/C08 prove about it.  Model only, no proofs. *)
From Cocls Require Import Base.
Local Open Scope Z_scope.

Definition NM : nat := 2.   (* mutexes *)
Definition NS : nat := 4.   (* ownership slots *)

Record omx := mkM { locked : bool; waitq : list nat }.
(* a callback request: the slot its grant is stored into, its mutex, and the slots it release()s right after, still inside the hand-over *)
Record owt := mkW { wslot : nat; wmx : nat; wrel : list nat }.

Record wst := mkWS {
  mxs : list omx;
  slots : list (option nat);     (* the mutex each ownership object holds *)
  wts : list owt;                (* every callback request ever registered: target slot, mutex *)
  runlog : list nat;             (* callbacks in the order they were resumed *)
  werr : bool                    (* recursion fuel exhausted (never, see MutexOwnProofs) *)
}.

Definition gmx (s : wst) (m : nat) : omx := nth m (mxs s) (mkM false []).
Definition gslot (s : wst) (j : nat) : option nat := nth j (slots s) None.
Definition gwt (s : wst) (k : nat) : owt := nth k (wts s) (mkW 0 0 []).

Definition set_mx (s : wst) (m : nat) (x : omx) : wst := mkWS (set_nth (mxs s) m x) (slots s) (wts s) (runlog s) (werr s).
Definition set_slot (s : wst) (j : nat) (v : option nat) : wst := mkWS (mxs s) (set_nth (slots s) j v) (wts s) (runlog s) (werr s).
Definition set_err (s : wst) : wst := mkWS (mxs s) (slots s) (wts s) (runlog s) true.

(* mutex::unlock (mutex.h:149-178) by a party that has already given its ownership object up, and
   unique_ptr move assignment `slot = ownership(m)` = reset(p): the new pointer is stored first, then the
   deleter unlocks the mutex held before (mutex.h:38-43).  A resumed callback stores its ownership into its slot. *)
Fixpoint unlock (fuel : nat) (s : wst) (m : nat) : wst :=
  match waitq (gmx s m) with
  | [] => set_mx s m (mkM false [])
  | k :: r =>
      match fuel with
      | O => set_err s
      | S f =>
          let s1 := set_mx s m (mkM true r) in
          let s2 := mkWS (mxs s1) (slots s1) (wts s1) (runlog s1 ++ [k]) (werr s1) in
          let j := wslot (gwt s2 k) in
          let old := gslot s2 j in
          let s3 := set_slot s2 j (Some m) in
          let s4 := match old with Some m' => unlock f s3 m' | None => s3 end in
          (* the callback goes on: slots[a].release() for each a it was told to release *)
          fold_left (fun s' a => match gslot s' a with Some m2 => unlock f (set_slot s' a None) m2 | None => s' end)
                    (wrel (gwt s2 k)) s4
      end
  end.

Definition pending (s : wst) : nat := fold_right (fun x n => (length (waitq x) + n)%nat) O (mxs s).

(* slot j := v (move assignment from a temporary / another slot's content) *)
Definition store (s : wst) (j : nat) (v : option nat) : wst :=
  let old := gslot s j in
  let s1 := set_slot s j v in
  match old with Some m' => unlock (pending s1) s1 m' | None => s1 end.

Definition targeted (s : wst) (j : nat) : bool :=
  existsb (fun x => existsb (fun k => Nat.eqb (wslot (gwt s k)) j || existsb (Nat.eqb j) (wrel (gwt s k))) (waitq x)) (mxs s).

(* ~ownership / unique_ptr destructor: unlocks what it holds; the object must not be a target of a pending callback *)
Definition destroy (s : wst) (j : nat) : wst :=
  match gslot s j with
  | Some m => let s1 := set_slot s j None in unlock (pending s1) s1 m
  | None => s
  end.

Definition z2n (z : Z) : nat := Z.to_nat z.
Definition okm (z : Z) : bool := (0 <=? z) && (z <? Z.of_nat NM).
Definition oks (z : Z) : bool := (0 <=? z) && (z <? Z.of_nat NS).

Inductive oop :=
| OTry (m j : nat)      (* slots[j] = mx[m].try_lock() *)
| OCb (m j : nat) (rl : list nat)   (* callback request: when granted, slots[j] = ownership; then slots[a].release() for a in rl *)
| ORel (j : nat)        (* slots[j].release() (suspend point discarded) *)
| ODestroy (j : nat)    (* destroy slots[j], construct an empty one *)
| OMove (i j : nat)     (* slots[j] = std::move(slots[i]) *)
| OCtor (i j : nat)     (* destroy slots[j]; construct it from std::move(slots[i]) *)
| OBool (j : nat)
| OProbe (m : nat).     (* (bool) mx[m].try_lock(), the temporary ownership is destroyed at once *)

Definition decode (op : list Z) : option oop :=
  match op with
  | [1; m; j] => if okm m && oks j then Some (OTry (z2n m) (z2n j)) else None
  | 2 :: m :: j :: rl => if okm m && oks j && forallb oks rl && Nat.leb (length rl) 2 then Some (OCb (z2n m) (z2n j) (map z2n rl)) else None
  | [3; j] => if oks j then Some (ORel (z2n j)) else None
  | [4; j] => if oks j then Some (ODestroy (z2n j)) else None
  | [5; i; j] => if oks i && oks j then Some (OMove (z2n i) (z2n j)) else None
  | [6; i; j] => if oks i && oks j then Some (OCtor (z2n i) (z2n j)) else None
  | [7; j] => if oks j then Some (OBool (z2n j)) else None
  | [8; m] => if okm m then Some (OProbe (z2n m)) else None
  | _ => None
  end.

(* one operation: new state, result (-1 = rejected) *)
Definition wop (s : wst) (o : oop) : wst * Z :=
  match o with
  | OTry m j =>
      if locked (gmx s m) then (store s j None, 0)
      else (store (set_mx s m (mkM true (waitq (gmx s m)))) j (Some m), 1)
  | OCb m j rl =>
      if locked (gmx s m) then
        let k := length (wts s) in
        (mkWS (set_nth (mxs s) m (mkM true (waitq (gmx s m) ++ [k]))) (slots s) (wts s ++ [mkW j m rl]) (runlog s) (werr s), 0)
      else (store (set_mx s m (mkM true (waitq (gmx s m)))) j (Some m), 1)
  | ORel j =>
      match gslot s j with
      | Some m => let s1 := set_slot s j None in (unlock (pending s1) s1 m, 1)
      | None => (s, 0)
      end
  | ODestroy j => if targeted s j then (s, -1) else (destroy s j, 1)
  | OMove i j =>
      if Nat.eqb i j then (s, 1)
      else let v := gslot s i in (store (set_slot s i None) j v, 1)
  | OCtor i j =>
      if Nat.eqb i j || targeted s j then (s, -1)
      else
        let s1 := destroy s j in
        let v := gslot s1 i in
        (set_slot (set_slot s1 i None) j v, 1)
  | OBool j => (s, match gslot s j with Some _ => 1 | None => 0 end)
  | OProbe m =>
      if locked (gmx s m) then (s, 0)
      else let s1 := set_mx s m (mkM true (waitq (gmx s m))) in (unlock (pending s1) s1 m, 1)
  end.

Definition wstep (s : wst) (op : list Z) : wst * Z :=
  match decode op with Some o => wop s o | None => (s, -1) end.

Definition winit : wst := mkWS (repeat (mkM false []) NM) (repeat None NS) [] [] false.

Definition slot_obs (s : wst) : list Z := map (fun v => match v with Some m => Z.of_nat m | None => -1 end) (slots s).
Definition lock_obs (s : wst) : list Z := map (fun x => b2z (locked x)) (mxs s).

(* observation of one op: opcode-independent: result, slots, locked flags, callbacks resumed so far, model error *)
Definition obs_of (s : wst) (r : Z) : list Z :=
  r :: slot_obs s ++ lock_obs s ++ [zlen (runlog s); b2z (werr s)].

Fixpoint wrun (s : wst) (ops : list (list Z)) : wst * list (list Z) :=
  match ops with
  | [] => (s, [])
  | op :: r => let '(s1, res) := wstep s op in let '(s2, l) := wrun s1 r in (s2, obs_of s1 res :: l)
  end.

(* end of a case: release every slot, repeatedly (a resumed callback may fill a slot released before) *)
Fixpoint release_all (n : nat) (s : wst) : wst :=
  match n with
  | O => s
  | S k => release_all k (fst (wrun s [[3; 0]; [3; 1]; [3; 2]; [3; 3]]))
  end.

Definition own_run (ops : list (list Z)) : list (list Z) :=
  let '(s, l) := wrun winit ops in
  let s' := release_all (S (length (wts s))) s in
  l ++ [9 :: lock_obs s' ++ [Z.of_nat (pending s'); zlen (wts s')]; 10 :: map Z.of_nat (runlog s')].

(* ---------- decidable property on an observed block (implementation or model) ----------
   per op line [r; s0..s3; l0; l1; n; e]: no mutex in two slots; a mutex is locked iff exactly one slot holds it
   (between operations nothing is in flight); the count of resumed callbacks never decreases.
   final lines: [9; l0; l1; pending; registered]: every mutex free, nothing pending;
   [10; k1; k2 ...]: every registered callback resumed exactly once, per mutex in registration order (FIFO). *)
Definition count_held (sl : list Z) (m : Z) : nat := length (filter (Z.eqb m) sl).

Definition line_ok (l : list Z) : bool :=
  match l with
  | [r; a; b; c; d; l0; l1; n; e] =>
      let sl := [a; b; c; d] in
      Nat.eqb (count_held sl 0) (if Z.eqb l0 0 then 0 else 1) && Nat.eqb (count_held sl 1) (if Z.eqb l1 0 then 0 else 1)
      && Z.eqb e 0
  | _ => false
  end.

(* mutex of each registered waiter, recomputed from the ops and the observed results: op [2;m;j] with result 0 registers *)
Fixpoint reg_mx (ops obs : list (list Z)) : list Z :=
  match ops, obs with
  | (2 :: m :: _) :: ro, (r :: _) :: rb => (if Z.eqb r 0 then [m] else []) ++ reg_mx ro rb
  | _ :: ro, _ :: rb => reg_mx ro rb
  | _, _ => []
  end.

Fixpoint ids_of (l : list Z) (m : Z) (i : Z) : list Z :=
  match l with [] => [] | x :: r => (if Z.eqb x m then [i] else []) ++ ids_of r m (i + 1) end.

Definition lzeqb (a b : list Z) : bool :=
  Nat.eqb (length a) (length b) && forallb (fun p => Z.eqb (fst p) (snd p)) (combine a b).

Definition own_oracle (ops obs : list (list Z)) : bool :=
  let n := length ops in
  let per := firstn n obs in
  let fin := skipn n obs in
  let regs := reg_mx ops per in
  Nat.eqb (length per) n && forallb line_ok per &&
  match fin with
  | [[9; l0; l1; p; w]; 10 :: lg] =>
      Z.eqb l0 0 && Z.eqb l1 0 && Z.eqb p 0 && Z.eqb w (zlen regs) &&
      lzeqb (filter (fun k => existsb (Z.eqb k) (ids_of regs 0 0)) lg) (ids_of regs 0 0) &&
      lzeqb (filter (fun k => existsb (Z.eqb k) (ids_of regs 1 0)) lg) (ids_of regs 1 0) &&
      Nat.eqb (length lg) (length regs)
  | _ => false
  end.
