(* GenDefs.v — executable model of cocls::generator<T,Arg> (generator.h, iterator.h) with a scripted body
   and a consumer that mixes access styles freely.  Model only; proofs are in GenProofs.v.

   One generator, one consumer (the class is single-consumer: "Generator is busy" asserts).  The body is a
   coroutine interpreting a script; a pending await inside the body is completed by an explicit op (issued by
   another thread, or by the consumer's thread for the co_await styles), so completion timing = position of
   the Complete ops in the op list.  A synchronous access of a body that suspends blocks its thread: the access
   stays outstanding and the op reports Pending; the result is reported by the Complete op that releases it. *)
From Cocls Require Import Base.
Local Open Scope Z_scope.

(* ---------- the body script and what the C++20 coroutine transformation does with it ---------- *)
Inductive instr :=
| IYield (v : Z)          (* co_yield v *)
| IAwaitReady (v : Z)     (* co_await <already resolved future> *)
| IAwaitPending (k : Z)   (* co_await <future resolved later by Complete k> *)
| IThrow (e : Z)
| IReturn
| IGuard (x : Z)          (* construct an RAII local (at most 4 live) *)
| IUnguard                (* destroy the youngest RAII local *)
| IYieldNull              (* arg = co_yield nullptr        (generator<T,Arg> only) *)
| IYieldEcho              (* arg = co_yield <last arg>     (generator<T,Arg> only) *)
| INop.

Inductive event := ECtor (x : Z) | EDtor (x : Z) | EArg (a : Z) | EAw (r : Z).

Inductive stop := SYield (v : Z) | SPend (k : Z) | SThrow (e : Z) | SRet.

Definition max_guards : nat := 4.

(* run the body from pc until it suspends or ends.  gs = live RAII locals, youngest first; cur = the body's
   variable holding the last argument it received; arg = what promise._arg points to right now.
   Leaving the body (throw / return / falling off the end) destroys the locals youngest first, before
   final_suspend. *)
Fixpoint exec (pc : list instr) (gs : list Z) (cur arg : Z) : stop * list instr * list Z * Z * list event :=
  match pc with
  | [] => (SRet, [], [], cur, map EDtor gs)
  | i :: t =>
    match i with
    | IYield v => (SYield v, t, gs, cur, [])
    | IYieldEcho => (SYield cur, t, gs, cur, [])
    | IYieldNull => let '(s, p, g, c, ev) := exec t gs arg arg in (s, p, g, c, EArg arg :: ev)   (* yield_null: suspend_never, await_resume = *_arg, generator.h:159-167 *)
    | IAwaitReady v => let '(s, p, g, c, ev) := exec t gs cur arg in (s, p, g, c, EAw v :: ev)
    | IAwaitPending k => (SPend k, t, gs, cur, [])
    | IThrow e => (SThrow e, [], [], cur, map EDtor gs)
    | IReturn => (SRet, [], [], cur, map EDtor gs)
    | IGuard x => if Nat.ltb (length gs) max_guards
                  then let '(s, p, g, c, ev) := exec t (x :: gs) cur arg in (s, p, g, c, ECtor x :: ev)
                  else exec t gs cur arg
    | IUnguard => match gs with
                  | x :: g' => let '(s, p, g, c, ev) := exec t g' cur arg in (s, p, g, c, EDtor x :: ev)
                  | [] => exec t gs cur arg
                  end
    | INop => exec t gs cur arg
    end
  end.

(* ---------- state ---------- *)
Inductive bstat := BInit | BYield | BPend (k : Z) | BFinal.
Inductive cptr := CNull | CInternal | CAwt.            (* _caller: nullptr | &_internal | the consumer's next_awt *)
Inductive ifnk := FNone | FSync | FFuture.             (* _internal's resume function: null_fn | resume_fn_sync | resume_fn_future *)
Inductive fstate := FPending | FVal (v : Z) | FExc (e : Z) | FNoVal.   (* the future<T> returned by operator() *)

Record sys := mkSys {
  live : bool;            (* the generator object (and the coroutine frame it owns) exists *)
  created : bool;
  (* coroutine frame *)
  pc : list instr; gds : list Z; cur : Z; bst : bstat;
  (* promise_type, generator.h:78-92 *)
  caller : cptr; ifn : ifnk; argp : option Z; ret : option Z; exn : option Z; done : bool;
  block : bool; awaiting : bool;
  (* consumer side *)
  out : option Z;         (* style of the outstanding access *)
  fut : fstate;           (* future of the last call *)
  itn : option bool;      (* the iterator's _next flag, once begin() was called *)
  awake : bool;           (* the consumer coroutine was resumed *)
  nstate : bool;          (* next_awt::_state of the current next() object *)
  err : bool              (* a null dereference / failed assert / resume of a running coroutine happened *)
}.

Definition sys0 : sys :=
  mkSys false false [] [] 0 BInit CNull FNone None None None false false false None FNoVal None false false false.

(* field updates used below *)
Definition set_frame (s : sys) (p : list instr) (g : list Z) (c : Z) (b : bstat) : sys :=
  mkSys (live s) (created s) p g c b (caller s) (ifn s) (argp s) (ret s) (exn s) (done s) (block s) (awaiting s)
        (out s) (fut s) (itn s) (awake s) (nstate s) (err s).
Definition set_prom (s : sys) (ca : cptr) (f : ifnk) (a r e : option Z) (d bl aw : bool) : sys :=
  mkSys (live s) (created s) (pc s) (gds s) (cur s) (bst s) ca f a r e d bl aw
        (out s) (fut s) (itn s) (awake s) (nstate s) (err s).
Definition set_cons (s : sys) (o : option Z) (f : fstate) (i : option bool) (aw ns : bool) : sys :=
  mkSys (live s) (created s) (pc s) (gds s) (cur s) (bst s) (caller s) (ifn s) (argp s) (ret s) (exn s) (done s)
        (block s) (awaiting s) o f i aw ns (err s).
Definition set_err (s : sys) : sys :=
  mkSys (live s) (created s) (pc s) (gds s) (cur s) (bst s) (caller s) (ifn s) (argp s) (ret s) (exn s) (done s)
        (block s) (awaiting s) (out s) (fut s) (itn s) (awake s) (nstate s) true.
Definition set_live (s : sys) (l c : bool) : sys :=
  mkSys l c (pc s) (gds s) (cur s) (bst s) (caller s) (ifn s) (argp s) (ret s) (exn s) (done s)
        (block s) (awaiting s) (out s) (fut s) (itn s) (awake s) (nstate s) (err s).

Definition set_caller (s : sys) (ca : cptr) : sys :=
  set_prom s ca (ifn s) (argp s) (ret s) (exn s) (done s) (block s) (awaiting s).
Definition set_argp (s : sys) (a : option Z) : sys :=
  set_prom s (caller s) (ifn s) a (ret s) (exn s) (done s) (block s) (awaiting s).

(* unblock_future, generator.h:124-129: resolve the promise held in _awaiting *)
Definition unblock_future (s : sys) : sys :=
  let f := if done s then FNoVal
           else match exn s with
                | Some e => FExc e
                | None => match ret s with Some v => FVal v | None => FNoVal end
                end in
  let s1 := set_prom s (caller s) (ifn s) (argp s) (ret s) (exn s) (done s) (block s) false in
  let s2 := set_cons s1 (out s1) f (itn s1) (awake s1) (nstate s1) in
  match exn s, ret s, done s with
  | None, None, false => set_err s2          (* *_ret with _ret = nullptr *)
  | _, _, _ => s2
  end.

(* yield_suspend::await_suspend, generator.h:146-151: _arg = nullptr; caller = exchange(_caller, nullptr); caller->resume() *)
Definition resume_caller (s : sys) : sys :=
  let c := caller s in
  let s1 := set_prom s CNull (ifn s) None (ret s) (exn s) (done s) (block s) (awaiting s) in
  match c with
  | CNull => set_err s1                                     (* nullptr->resume() *)
  | CAwt => set_cons s1 (out s1) (fut s1) (itn s1) true (nstate s1)      (* the consumer coroutine is resumed (symmetric transfer) *)
  | CInternal =>
      match ifn s with
      | FSync => set_prom s1 CNull (ifn s1) None (ret s1) (exn s1) (done s1) true (awaiting s1)   (* unblock_sync: _block = true *)
      | FFuture => unblock_future s1
      | FNone => s1
      end
  end.

(* h.resume() of the body; av = value delivered by a completed await (only used in BPend) *)
Definition run_body (s : sys) (av : Z) : sys * list event :=
  let a := match argp s with Some x => x | None => 0 end in
  let '(s0, st, p, g, c, ev) :=
    match bst s with
    | BInit => let '(st, p, g, c, ev) := exec (pc s) (gds s) (cur s) a in (s, st, p, g, c, ev)
    | BYield =>   (* yield_suspend::await_resume returns *_arg, generator.h:152-156 *)
        let s0 := match argp s with Some _ => s | None => set_err s end in
        let '(st, p, g, c, ev) := exec (pc s) (gds s) a a in (s0, st, p, g, c, EArg a :: ev)
    | BPend _ => let '(st, p, g, c, ev) := exec (pc s) (gds s) (cur s) a in (s, st, p, g, c, EAw av :: ev)
    | BFinal => (set_err s, SRet, [], [], cur s, [])         (* resuming a finished coroutine *)
    end in
  match st with
  | SYield v =>      (* yield_value: _ret = &x, generator.h:180-187 *)
      let s1 := set_frame s0 p g c BYield in
      let s2 := set_prom s1 (caller s1) (ifn s1) (argp s1) (Some v) (exn s1) (done s1) (block s1) (awaiting s1) in
      (resume_caller s2, ev)
  | SPend k => (set_frame s0 p g c (BPend k), ev)
  | SThrow e =>      (* unhandled_exception: _exp = current; final_suspend: _ret = nullptr, generator.h:170-176 *)
      let s1 := set_frame s0 p g c BFinal in
      let s2 := set_prom s1 (caller s1) (ifn s1) (argp s1) None (Some e) (done s1) (block s1) (awaiting s1) in
      (resume_caller s2, ev)
  | SRet =>          (* return_void: _done = true; final_suspend: _ret = nullptr, generator.h:170-179 *)
      let s1 := set_frame s0 p g c BFinal in
      let s2 := set_prom s1 (caller s1) (ifn s1) (argp s1) None (exn s1) true (block s1) (awaiting s1) in
      (resume_caller s2, ev)
  end.

(* ---------- the consumer ---------- *)
Inductive res := RNone | RVal (v : Z) | RExc (e : Z) | REndF | REndT | RPend | RNReady | RBad.

(* generator::value(), generator.h:408-414 *)
Definition value_of (s : sys) : res :=
  match exn s with
  | Some e => RExc e
  | None => match ret s with Some v => RVal v | None => RNReady end
  end.

Definition sync_style (y : Z) : bool := (y =? 0) || (y =? 1) || (y =? 5).
Definition fut_style (y : Z) : bool := (y =? 2) || (y =? 4).

(* has the consumer been released?  sync styles: _block (generator.h:231); future styles: the future is
   resolved; co_await next(): the coroutine handle was resumed *)
Definition released (y : Z) (s : sys) : bool :=
  if sync_style y then block s
  else if fut_style y then match fut s with FPending => false | _ => true end
  else awake s.

(* what the consumer does once released: next_awt::await_resume (generator.h:325-328) then value();
   or future::has_value / operator* *)
Definition consumer_continue (y : Z) (s : sys) : sys * res :=
  if fut_style y then
    match fut s with
    | FNoVal => (s, REndF)
    | FVal v => (s, RVal v)
    | FExc e => (s, RExc e)
    | FPending => (set_err s, RBad)
    end
  else
    let b := negb (done s) in
    let s1 := set_cons s (out s) (fut s) (itn s) (awake s) b in
    let s2 := if y =? 1 then set_cons s1 (out s1) (fut s1) (Some b) (awake s1) (nstate s1) else s1 in
    (* style 5: second conversion of the same next_awt, generator.h:292-297 *)
    let s3 := if y =? 5 then (if nstate s2 then s2 else if done s2 then s2 else set_err s2) else s2 in
    (s3, if b then value_of s3 else REndF).

Definition settle (y : Z) (s : sys) : sys * res :=
  if released y s then
    let '(s1, r) := consumer_continue y s in
    (set_cons s1 None (fut s1) (itn s1) (awake s1) (nstate s1), r)
  else (set_cons s (Some y) (fut s) (itn s) (awake s) (nstate s), RPend).

Definition is_final (s : sys) : bool := match bst s with BFinal => true | _ => false end.
Definition busy (s : sys) : sys := match caller s with CNull => s | _ => set_err s end.  (* assert(_caller == nullptr) *)

(* one access in style y with argument a (precondition checked by the caller: live, nothing outstanding) *)
Definition access (y a : Z) (s : sys) : sys * res * list event :=
  let s := set_argp s (Some a) in                             (* set_arg, generator.h:193-195, :397, :452 *)
  if fut_style y then
    (* operator() -> next_future, generator.h:235-254 *)
    let s := busy s in
    if is_final s then (set_cons s (out s) FNoVal (itn s) (awake s) (nstate s), REndT, [])
    else
      let s1 := set_cons s (out s) FPending (itn s) (awake s) (nstate s) in
      let s2 := set_prom s1 CInternal FFuture (argp s1) (ret s1) (exn s1) (done s1) (block s1) true in
      let '(s3, ev) := run_body s2 0 in
      let '(s4, r) := settle y s3 in (s4, r, ev)
  else if (y =? 3) || (y =? 6) then
    (* co_await next(): await_ready = done(); await_suspend -> next_async, generator.h:200-211, 310-318;
       style 6: the same through next_awt::subscribe(awaiter pointer) with a plain awaiter that counts its resumptions *)
    if done s then (set_cons s (out s) (fut s) (itn s) (awake s) false, REndF, [])
    else
      let s := busy s in
      if is_final s then (s, REndT, [])
      else
        let s1 := set_cons (set_caller s CAwt) (out s) (fut s) (itn s) false (nstate s) in
        let '(s3, ev) := run_body s1 0 in
        let '(s4, r) := settle y s3 in (s4, r, ev)
  else
    (* next_awt::operator bool (fresh object, _state = false) -> next_sync, generator.h:215-232, 292-297 *)
    let s := set_cons s (out s) (fut s) (itn s) (awake s) false in
    if done s then
      (if y =? 1 then set_cons s (out s) (fut s) (Some false) (awake s) (nstate s) else s, REndF, [])
    else
      let s := busy s in
      if is_final s then (s, REndT, [])
      else
        let s1 := set_prom s CInternal FSync (argp s) (ret s) (exn s) (done s) false (awaiting s) in
        let '(s3, ev) := run_body s1 0 in
        let '(s4, r) := settle y s3 in (s4, r, ev).

(* ---------- ops ---------- *)
Inductive op :=
| OCreate (script : list instr)
| OAccess (y a : Z)
| OComplete (k v : Z)
| ODestroy
| OPeek
| OBad.

(* observation: status (0 ok / 1 rejected), result, news, dels, events *)
(* o_cnt: how many times the consumer's awaiter was resumed for the answer given by this op (style 6 only) *)
Record obs := mkObs { o_st : Z; o_res : res; o_done : Z; o_news : Z; o_dels : Z; o_ev : list event; o_cnt : Z }.
Definition rejected : obs := mkObs 1 RNone 0 0 0 [] 0.

(* the awaiter of a style-6 access is resumed exactly once, and only when the body was actually resumed for it *)
Definition resumes (y : Z) (ran : bool) (r : res) : Z :=
  if (y =? 6) && ran then match r with RPend => 0 | _ => 1 end else 0.
Definition done_flag (s : sys) : Z := if live s then b2z (done s) else 2.

Definition style_ok (ha : bool) (y : Z) : bool :=
  (0 <=? y) && (y <=? 6) && negb (ha && (y =? 1)).

Definition step (ha : bool) (s : sys) (x : op) : sys * obs :=
  match x with
  | OCreate sc =>
      if created s then (s, rejected) else
      let s1 := mkSys true true sc [] 0 BInit CNull FNone None None None false false false None FNoVal None false false (err s) in
      (s1, mkObs 0 RNone (done_flag s1) 1 0 [] 0)
  | OAccess y a =>
      if live s && (match out s with None => true | Some _ => false end) && style_ok ha y then
        let '(s1, r, ev) := access y a s in
        (s1, mkObs 0 r (done_flag s1) 0 0 ev (resumes y (negb (done s) && negb (is_final s)) r))
      else (s, rejected)
  | OComplete k v =>
      match out s, bst s with
      | Some y, BPend k' =>
          if live s && (k =? k') then
            let '(s1, ev) := run_body s v in
            let '(s2, r) := settle y s1 in (s2, mkObs 0 r (done_flag s2) 0 0 ev (resumes y true r))
          else (s, rejected)
      | _, _ => (s, rejected)
      end
  | ODestroy =>
      if live s && (match out s with None => true | Some _ => false end) then
        (* ~generator -> handle.destroy(): the frame's live locals are destroyed youngest first, the frame is freed *)
        let s1 := set_live (set_frame s (pc s) [] (cur s) (bst s)) false true in
        (s1, mkObs 0 RNone (done_flag s1) 0 1 (map EDtor (gds s)) 0)
      else (s, rejected)
  | OPeek =>
      if live s && (match out s with None => true | Some _ => false end) then
        (s, mkObs 0 (value_of s) (done_flag s) 0 0 [] 0)
      else (s, rejected)
  | OBad => (s, rejected)
  end.

Fixpoint run_from (ha : bool) (s : sys) (l : list op) : list obs * sys :=
  match l with
  | [] => ([], s)
  | x :: t => let '(s1, o) := step ha s x in
              let '(os, s2) := run_from ha s1 t in (o :: os, s2)
  end.

(* ---------- wire encoding ---------- *)
Fixpoint decode_script (ha : bool) (l : list Z) : list instr :=
  match l with
  | k :: a :: t =>
      (if k =? 1 then IYield a else if k =? 2 then IAwaitReady a else if k =? 3 then IAwaitPending a
       else if k =? 4 then IThrow a else if k =? 5 then IReturn
       (* 20: throw await_canceled_exception; 21: a type derived from it; 22: co_await of a future whose promise was
          dropped (throws await_canceled_exception): exceptions like any other, codes 1001 / 1002 *)
       else if (k =? 20) || (k =? 22) then IThrow 1001 else if k =? 21 then IThrow 1002
       else if k =? 6 then IGuard a
       else if k =? 7 then IUnguard else if (k =? 8) && ha then IYieldNull else if (k =? 9) && ha then IYieldEcho
       else INop) :: decode_script ha t
  | _ => []
  end.

(* styles 10..16 are styles 0..6 issued from inside a running coroutine (the consumer thread's resumption queue is
   active): the generator must behave exactly the same *)
Definition norm_style (y : Z) : Z := if (10 <=? y) && (y <=? 16) then y - 10 else y.

Definition decode (ha : bool) (l : list Z) : op :=
  match l with
  | 0 :: sc => if Nat.even (length sc) then OCreate (decode_script ha sc) else OBad
  | [1; y; a] => OAccess (norm_style y) a
  | [2; k; v; _] => OComplete k v
  | [3] => ODestroy
  | [4] => OPeek
  | _ => OBad
  end.

Definition enc_res (r : res) : Z * Z :=
  match r with
  | RNone => (0, 0) | RVal v => (1, v) | RExc e => (2, e) | REndF => (3, 0) | REndT => (4, 0)
  | RPend => (5, 0) | RNReady => (6, 0) | RBad => (99, 0)
  end.

Fixpoint enc_events (ha : bool) (l : list event) : list Z :=
  match l with
  | [] => []
  | ECtor x :: t => 1 :: x :: enc_events ha t
  | EDtor x :: t => 2 :: x :: enc_events ha t
  | EArg a :: t => if ha then 3 :: a :: enc_events ha t else enc_events ha t   (* generator<T,void> has no argument to log *)
  | EAw r :: t => 4 :: r :: enc_events ha t
  end.

Definition encode_obs (ha : bool) (o : obs) : list Z :=
  o_st o :: fst (enc_res (o_res o)) :: snd (enc_res (o_res o)) :: o_done o :: o_news o :: o_dels o :: o_cnt o
       :: enc_events ha (o_ev o).

Definition gen_run (ha : bool) (ops : list (list Z)) : list (list Z) :=
  map (encode_obs ha) (fst (run_from ha sys0 (map (decode ha) ops))).

(* ====================================================================================================
   The specification: what a consumer must see, defined on the body script and the call arguments alone.
   ==================================================================================================== *)
Inductive item :=
| XVal (v : Z)      (* the consumer receives a value *)
| XExc (e : Z)      (* the consumer receives the exception *)
| XEnd              (* end of sequence *)
| XArg (a : Z).     (* the body receives an argument as the result of a co_yield *)

(* args = arguments of the calls that follow the one that started / last resumed the body.
   np = number of pending awaits the body has passed so far; every consumer-visible item is tagged with it
   (it can only be delivered after that many completions). *)
Fixpoint expected (pc : list instr) (cur arg : Z) (args : list Z) (np : nat) : list (item * nat) :=
  match pc with
  | [] => [(XEnd, np)]
  | i :: t =>
    match i with
    | IYield v => (XVal v, np) :: (XArg (hd 0 args), np) :: expected t (hd 0 args) (hd 0 args) (tl args) np
    | IYieldEcho => (XVal cur, np) :: (XArg (hd 0 args), np) :: expected t (hd 0 args) (hd 0 args) (tl args) np
    | IYieldNull => (XArg arg, np) :: expected t arg arg args np
    | IAwaitPending _ => expected t cur arg args (S np)
    | IThrow e => [(XExc e, np)]
    | IReturn => [(XEnd, np)]
    | _ => expected t cur arg args np
    end
  end.

(* the expected log of a generator created with script sc whose accepted calls carry arguments args *)
Definition spec (sc : list instr) (args : list Z) : list (item * nat) :=
  expected sc 0 (hd 0 args) (tl args) 0.

(* an observed log conforms to the expected one: same items in the same order with the same completion counts,
   as far as the log goes; after the expected log is exhausted only End may follow (End is sticky) *)
Definition item_eqb (a b : item) : bool :=
  match a, b with
  | XVal x, XVal y => x =? y
  | XExc x, XExc y => x =? y
  | XEnd, XEnd => true
  | XArg x, XArg y => x =? y
  | _, _ => false
  end.

Fixpoint conforms (log : list (item * nat)) (ex : list (item * nat)) (np : nat) : bool :=
  match log with
  | [] => true
  | (r, n) :: log' =>
      match ex with
      | (x, m) :: ex' => item_eqb r x && Nat.eqb n m && conforms log' ex' m
      | [] => item_eqb r XEnd && Nat.eqb n np && conforms log' [] np
      end
  end.

(* the log of a run: for every op, the arguments its body events received, then the result it delivered *)
Definition res_item (r : res) : list item :=
  match r with
  | RVal v => [XVal v] | RExc e => [XExc e] | REndF => [XEnd] | REndT => [XEnd] | _ => []
  end.
Fixpoint arg_items (l : list event) : list item :=
  match l with [] => [] | EArg a :: t => XArg a :: arg_items t | _ :: t => arg_items t end.

Definition is_complete (x : op) : bool := match x with OComplete _ _ => true | _ => false end.
Definition is_access (x : op) : bool := match x with OAccess _ _ => true | _ => false end.
Definition ok (o : obs) : bool := o_st o =? 0.

(* nc = accepted completions so far *)
Fixpoint log_of (ops : list op) (os : list obs) (nc : nat) : list (item * nat) :=
  match ops, os with
  | x :: ops', o :: os' =>
      let nc' := if ok o && is_complete x then S nc else nc in
      map (fun i => (i, nc')) (arg_items (o_ev o) ++ (if is_access x || is_complete x then res_item (o_res o) else []))
          ++ log_of ops' os' nc'
  | _, _ => []
  end.

Fixpoint call_args (ops : list op) (os : list obs) : list Z :=
  match ops, os with
  | OAccess _ a :: ops', o :: os' => if ok o then a :: call_args ops' os' else call_args ops' os'
  | _ :: ops', _ :: os' => call_args ops' os'
  | _, _ => []
  end.

(* consumer-visible part of a log (gen0 has no argument events) *)
Definition visible (ha : bool) (l : list (item * nat)) : list (item * nat) :=
  if ha then l else filter (fun p => match fst p with XArg _ => false | _ => true end) l.

(* RAII balance *)
Fixpoint count_ev (f : event -> bool) (l : list event) : nat :=
  match l with [] => O | e :: t => (if f e then 1 else 0) + count_ev f t end.
Definition is_ctor (x : Z) (e : event) : bool := match e with ECtor y => x =? y | _ => false end.
Definition is_dtor (x : Z) (e : event) : bool := match e with EDtor y => x =? y | _ => false end.
Definition all_events (os : list obs) : list event := flat_map o_ev os.
Fixpoint guard_ids (l : list event) : list Z :=
  match l with [] => [] | ECtor x :: t => x :: guard_ids t | _ :: t => guard_ids t end.

Fixpoint sumz (l : list Z) : Z := match l with [] => 0 | x :: t => x + sumz t end.

(* ---------- decidable form of C13 over an observed trace (used on the IMPLEMENTATION's output) ----------
   The case must start with its Create op; the trace is decoded back from the wire. *)
Definition dec_res (k v : Z) : res :=
  if k =? 0 then RNone else if k =? 1 then RVal v else if k =? 2 then RExc v else if k =? 3 then REndF
  else if k =? 4 then REndT else if k =? 5 then RPend else if k =? 6 then RNReady else RBad.

Fixpoint dec_events (l : list Z) : list event :=
  match l with
  | c :: x :: t => (if c =? 1 then ECtor x else if c =? 2 then EDtor x else if c =? 3 then EArg x else EAw x) :: dec_events t
  | _ => []
  end.

Definition dec_obs (l : list Z) : obs :=
  match l with
  | st :: k :: v :: d :: n :: dl :: c :: ev => mkObs st (dec_res k v) d n dl (dec_events ev) c
  | _ => mkObs 1 RBad 0 0 0 [] 0
  end.

Definition script_of (x : op) : list instr := match x with OCreate sc => sc | _ => [] end.

Definition balanced (evs : list event) : bool :=
  forallb (fun x => Nat.eqb (count_ev (is_ctor x) evs) (count_ev (is_dtor x) evs)) (guard_ids evs).

Definition no_bad (os : list obs) : bool :=
  forallb (fun o => match o_res o with RBad => false | _ => true end) os.

(* a Pending answer is only ever given to an access / completion, and the done flag is 0/1 while the object lives *)
Definition closed_by_destroy (ops : list op) (os : list obs) : bool :=
  existsb (fun p => match fst p with ODestroy => ok (snd p) | _ => false end) (combine ops os).

(* value() read again without advancing must repeat what the last access delivered (or rethrow the exception) *)
Fixpoint peek_ok (ops : list op) (os : list obs) (exc lastv : option Z) : bool :=
  match ops, os with
  | x :: ops', o :: os' =>
      if ok o then
        match x with
        | OPeek =>
            (match o_res o, exc, lastv with
             | RExc e, Some e', _ => e =? e'
             | RVal v, None, Some v' => v =? v'
             | RNReady, None, None => true
             | _, _, _ => false
             end) && peek_ok ops' os' exc lastv
        | OAccess _ _ | OComplete _ _ =>
            match o_res o with
            | RVal v => peek_ok ops' os' exc (Some v)
            | RExc e => peek_ok ops' os' (Some e) None
            | REndF | REndT => peek_ok ops' os' exc None
            | _ => peek_ok ops' os' exc lastv
            end
        | _ => peek_ok ops' os' exc lastv
        end
      else peek_ok ops' os' exc lastv
  | _, _ => true
  end.

(* closed cases (every pending await of the script gets its completion): the last accepted answer is not Pending *)
Definition no_trailing_pend (os : list obs) : bool :=
  match filter ok (rev os) with
  | o :: _ => match o_res o with RPend => false | _ => true end
  | [] => true
  end.

Definition gen_oracle (ha : bool) (wops wobs : list (list Z)) : bool :=
  let ops := map (decode ha) wops in
  let os := map dec_obs wobs in
  match ops with
  | OCreate sc :: _ =>
      Nat.eqb (length ops) (length os)
      && no_bad os
      && peek_ok ops os None None
      && no_trailing_pend os
      && forallb (fun o => (0 <=? o_cnt o) && (o_cnt o <=? 1)) os
      && conforms (visible ha (log_of ops os 0)) (visible ha (spec sc (call_args ops os))) 0
      && (if closed_by_destroy ops os
          then balanced (all_events os) && (sumz (map o_news os) =? 1) && (sumz (map o_dels os) =? 1)
          else true)
  | _ => forallb (fun o => negb (ok o)) os && Nat.eqb (length ops) (length os)
  end.

(* ---------- smoke engine: generator<int> whose frame lives in a reusable_storage (with_allocator.h, coro_storage.h).
   Same behaviour; the measured Create reuses the block sized by a warm-up generator (no operator new) and the
   destructor returns the block to the storage (no operator delete). ---------- *)
Definition patch_storage (l : list Z) : list Z :=
  match l with
  | st :: k :: v :: d :: _ :: _ :: rest => st :: k :: v :: d :: 0 :: 0 :: rest
  | _ => l
  end.
Definition gens_run (ops : list (list Z)) : list (list Z) := map patch_storage (gen_run false ops).

(* undo the patch on an observed line so that the frame-balance clause of gen_oracle applies: exactly the accepted
   Create / Destroy lines must show 0 news / 0 dels *)
Definition unpatch_storage (p : list Z * list Z) : list Z :=
  let '(wop, l) := p in
  match l with
  | st :: k :: v :: d :: n :: dl :: rest =>
      if st =? 0 then
        match wop with
        | 0 :: _ => st :: k :: v :: d :: (if n =? 0 then 1 else 99) :: dl :: rest
        | [3] => st :: k :: v :: d :: n :: (if dl =? 0 then 1 else 99) :: rest
        | _ => l
        end
      else l
  | _ => l
  end.
Definition gens_oracle (wops wobs : list (list Z)) : bool :=
  Nat.eqb (length wops) (length wobs) && gen_oracle false wops (map unpatch_storage (combine wops wobs)).

(* ---------- engine genc: the accesses of the case are issued by one thread while another thread completes every
   pending await of the body as soon as it appears (value 100+k); under every schedule the observations must be those
   of the sequential model with the completions inserted right after the access that left the body suspended ---------- *)
Fixpoint settle_all (fuel : nat) (ha : bool) (s : sys) (o : obs) : sys * obs :=
  match fuel with
  | O => (s, o)
  | S f =>
      match o_res o, bst s with
      | RPend, BPend k =>
          let '(s1, o1) := step ha s (OComplete k (100 + k)) in
          settle_all f ha s1 (mkObs (o_st o1) (o_res o1) (o_done o1) 0 0 (o_ev o ++ o_ev o1) (o_cnt o1))
      | _, _ => (s, o)
      end
  end.

Definition zero_alloc (o : obs) : obs := mkObs (o_st o) (o_res o) (o_done o) 0 0 (o_ev o) (o_cnt o).

Definition drive (ha : bool) (s : sys) (y a : Z) : sys * obs :=
  let '(s1, o) := step ha s (OAccess y a) in settle_all (S (length (pc s))) ha s1 (zero_alloc o).

(* for (int v : gen): iterator accesses until something other than a value comes out *)
Fixpoint range_for (fuel : nat) (ha : bool) (s : sys) : sys * list obs :=
  match fuel with
  | O => (s, [])
  | S f =>
      let '(s1, o) := drive ha s 1 0 in
      match o_res o with
      | RVal _ => let '(s2, os) := range_for f ha s1 in (s2, o :: os)
      | _ => (s1, [o])
      end
  end.

(* style 8: a plain awaiter that re-arms from inside its own notification (argument = previous + 1) until something
   other than a value comes out: a chain of style-6 accesses *)
Fixpoint rearm_chain (fuel : nat) (ha : bool) (s : sys) (a : Z) : sys * list obs :=
  match fuel with
  | O => (s, [])
  | S f =>
      let '(s1, o) := drive ha s 6 a in
      match o_res o with
      | RVal _ => let '(s2, os) := rearm_chain f ha s1 (a + 1) in (s2, o :: os)
      | _ => (s1, [o])
      end
  end.

Fixpoint genc_from (ha : bool) (s : sys) (ops : list (list Z)) : list obs :=
  match ops with
  | [] => []
  | w :: t =>
      match w with
      | 9 :: _ => genc_from ha s t
      | [1; y0; a] =>
          let y := if (10 <=? y0) && (y0 <=? 18) then y0 - 10 else y0 in
          if y =? 7 then
            if negb ha && live s then let '(s1, os) := range_for (S (S (length (pc s)))) ha s in os ++ genc_from ha s1 t
            else rejected :: genc_from ha s t
          else if y =? 8 then
            let '(s1, os) := rearm_chain (S (S (length (pc s)))) ha s a in os ++ genc_from ha s1 t
          else let '(s1, o) := drive ha s y a in o :: genc_from ha s1 t
      | 0 :: _ => let '(s1, o) := step ha s (decode ha w) in zero_alloc o :: genc_from ha s1 t
      | [3] => let '(s1, o) := step ha s ODestroy in zero_alloc o :: genc_from ha s1 t
      | _ => rejected :: genc_from ha s t
      end
  end.

Definition genc_run (ha : bool) (ops : list (list Z)) : list (list Z) :=
  map (encode_obs ha) (genc_from ha sys0 ops).

(* oracle on an observed trace: every answer line in order (values, exception, End) and the arguments the body
   received conform to the specification of the script; RAII balance; resumption counts *)
Fixpoint genc_args (ops : list (list Z)) : list Z :=
  match ops with
  | [] => []
  | [1; y0; a] :: t => let y := if (10 <=? y0) && (y0 <=? 18) then y0 - 10 else y0 in
                      if y =? 7 then genc_args t
                      else if y =? 8 then map (fun k => a + Z.of_nat k) (seq 0 64) ++ genc_args t   (* the chain is the last consuming op of a case *)
                      else a :: genc_args t
  | _ :: t => genc_args t
  end.

Definition genc_oracle (ha : bool) (wops wobs : list (list Z)) : bool :=
  let os := map dec_obs wobs in
  let acc := filter ok os in
  let log := map (fun i => (i, O)) (flat_map (fun o => arg_items (o_ev o) ++ res_item (o_res o)) acc) in
  match wops with
  | (0 :: sc) :: _ =>
      no_bad os
      && conforms (visible ha log) (map (fun p => (fst p, O)) (visible ha (spec (decode_script ha sc) (genc_args wops)))) O
      && forallb (fun o => (0 <=? o_cnt o) && (o_cnt o <=? 1)) os
      && (if existsb (fun w => match w with [3] => true | _ => false end) wops then balanced (all_events os) else true)
      && negb (existsb (fun o => match o_res o with RPend | RNReady => true | _ => false end) acc)
  | _ => forallb (fun o => negb (ok o)) os
  end.

(* ---------- engine gent: generator<MV> with a move-observable value type.  Script kind 1 yields a temporary, kind 10
   adds its operand to a local variable of the body and yields that local as an lvalue.  Yielding must not change the
   body's variable, so the k-th such yield delivers the running sum: the script is translated accordingly and the
   model / oracle of generator<int> apply unchanged. ---------- *)
Fixpoint xlate_script_t (acc : Z) (l : list Z) : list Z :=
  match l with
  | k :: a :: t => if k =? 10 then 1 :: (acc + a) :: xlate_script_t (acc + a) t else k :: a :: xlate_script_t acc t
  | _ => l
  end.
Definition xlate_t (w : list Z) : list Z := match w with 0 :: sc => 0 :: xlate_script_t 0 sc | _ => w end.
Definition gent_run (ops : list (list Z)) : list (list Z) := gen_run false (map xlate_t ops).
Definition gent_oracle (wops wobs : list (list Z)) : bool := gen_oracle false (map xlate_t wops) wobs.

(* ---------- engine gend: LONG synchronous generators (boundary sizes), op 30 N style: the consumer must receive
   0 .. N-1, each once and in order, then the (sticky) end: count first last in_order terminated ---------- *)
Definition gend_line (w : list Z) : list Z :=
  match w with
  | [30; n; y] => if (0 <=? n) && (0 <=? y) && (y <=? 4)
                  then [0; n; if n =? 0 then -1 else 0; n - 1; 1; 1] else [1; 0; 0; 0; 0; 0]
  | _ => [1; 0; 0; 0; 0; 0]
  end.
Definition gend_run (ops : list (list Z)) : list (list Z) := map gend_line ops.
Fixpoint lz_eqb (a b : list Z) : bool :=
  match a, b with [], [] => true | x :: a', y :: b' => (x =? y) && lz_eqb a' b' | _, _ => false end.
Fixpoint llz_eqb (a b : list (list Z)) : bool :=
  match a, b with [], [] => true | x :: a', y :: b' => lz_eqb x y && llz_eqb a' b' | _, _ => false end.
Definition gend_oracle (wops wobs : list (list Z)) : bool := llz_eqb wobs (gend_run wops).
