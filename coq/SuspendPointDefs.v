(* SuspendPointDefs.v — executable model of cocls::suspend_point (suspend_point.h)
   together with the part of the per-thread ready queue it talks to (coro_queue.h).
   Model only; proofs are in SuspendPointProofs.v. *)
From Cocls Require Import Base.
Local Open Scope Z_scope.

(* One suspend_point<int> object.
   cf   = _count_flag (bit 0: heap flag, count = cf / 2)
   hs   = the first `count` entries of the active array (inline or heap)
   cap  = _ext._capacity (meaningful only when the flag is set)
   val  = the attached value *)
Record sp := mkSp { cf : Z; hs : list Z; cap : Z; val : Z }.

Definition sp_count (s : sp) : Z := cf s / 2.
Definition sp_flag (s : sp) : bool := Z.odd (cf s).
Definition inline_count : Z := 3.

(* cost of one call: (heap arrays allocated, heap arrays freed) — operator new[] / delete[] *)
Definition cost := (Z * Z)%type.
Definition cadd (a b : cost) : cost := (fst a + fst b, snd a + snd b).

(* libstdc++ std::deque<coroutine_handle<>> node traffic (512-byte nodes, 64 handles each):
   the k-th push_back since construction allocates a node when k mod 64 = 0, the k-th pop_front
   frees one when k mod 64 = 0.  (Map growth needs >= 192 queued handles and is out of range.) *)
Definition node_len : Z := 64.
Definition node_cross (before k : Z) : Z := (before + k) / node_len - before / node_len.

(* suspend_point<void>::add, line for line *)
Definition sp_add (s : sp) (h : Z) : sp * cost :=
  let count := sp_count s in
  if sp_flag s then
    if count =? cap s
    then (mkSp (cf s + 2) (hs s ++ [h]) (count * 2) (val s), (1, 1))
    else (mkSp (cf s + 2) (hs s ++ [h]) (cap s) (val s), (0, 0))
  else
    if count <? inline_count
    then (mkSp (cf s + 2) (hs s ++ [h]) (cap s) (val s), (0, 0))
    else (mkSp (cf s + 3) (hs s ++ [h]) (count * 2) (val s), (1, 0)).

Fixpoint sp_add_all (s : sp) (l : list Z) : sp * cost :=
  match l with
  | [] => (s, (0, 0))
  | h :: t => let '(s1, c1) := sp_add s h in
              let '(s2, c2) := sp_add_all s1 t in (s2, cadd c1 c2)
  end.

(* clear_internal: frees the heap array if the flag is set *)
Definition sp_clear_internal (s : sp) : sp * cost :=
  (mkSp 0 [] (cap s) (val s), (0, if sp_flag s then 1 else 0)).

(* operator<<(suspend_point&&): dst gets all handles of src, src is reset *)
Definition sp_merge (dst src : sp) : sp * sp * cost :=
  let '(d, c) := sp_add_all dst (hs src) in
  let '(s0, c0) := sp_clear_internal src in
  (d, s0, cadd c c0).

(* pop(): last handle, or None for the noop coroutine *)
Definition sp_pop (s : sp) : sp * option Z :=
  if 0 <? sp_count s
  then (mkSp (cf s - 2) (removelast (hs s)) (cap s) (val s), Some (last (hs s) 0))
  else (s, None).

Definition olist (h : option Z) : list Z := match h with Some x => [x] | None => [] end.

(* thread environment *)
Record env := mkEnv {
  objs : list (option sp);
  queue : list Z;          (* coro_queue::instance->_queue, only used in coroutine mode *)
  qpush : Z;               (* push_back calls on the deque since it was constructed *)
  qpop : Z                 (* pop_front calls *)
}.

Definition env0 : env := mkEnv [] [] 0 0.

Inductive op :=
| ONewV (o : nat) (v : Z)
| ONewH (o : nat) (h v : Z)
| OAdd (o : nat) (h : Z)
| OMerge (o1 o2 : nat)
| OMoveCtor (o1 o2 : nat)
| OMoveBase (o1 o2 : nat) (v : Z)
| OPop (o : nat)
| OClear (o : nat)
| ODestroy (o : nat)
| OAwait (o : nat)
| OFlush
| OMoveAssign (o1 o2 : nat)
| OBad.

(* observation: status (0 ok, 1 rejected), size after, value, allocs, frees, resumed handles *)
Record obs := mkObs { o_st : Z; o_size : Z; o_val : Z; o_cost : cost; o_qcost : cost; o_res : list Z }.
Definition rejected : obs := mkObs 1 0 0 (0, 0) (0, 0) [].
Definition ok_obs (size v : Z) (c : cost) (r : list Z) : obs := mkObs 0 size v c (0, 0) r.

(* suspend_now(): normal mode resumes every handle immediately, in array order;
   coroutine mode appends them to the ready queue *)
Definition suspend_now (coro : bool) (e : env) (s : sp) : sp * list Z * list Z * cost * Z :=
  let '(s0, c) := sp_clear_internal s in
  if coro then (s0, queue e ++ hs s, [], c, zlen (hs s))
  else (s0, queue e, hs s, c, 0).

Definition driver : Z := 0.   (* handle id of the coroutine that executes the ops in coroutine mode *)

Definition step (coro : bool) (e : env) (x : op) : env * obs :=
  match x with
  | ONewV o v =>
      match get (objs e) o with
      | Some _ => (e, rejected)
      | None => (mkEnv (put (objs e) o (Some (mkSp 0 [] 0 v))) (queue e) (qpush e) (qpop e), ok_obs 0 v (0,0) [])
      end
  | ONewH o h v =>
      match get (objs e) o with
      | Some _ => (e, rejected)
      | None => (mkEnv (put (objs e) o (Some (mkSp 2 [h] 0 v))) (queue e) (qpush e) (qpop e), ok_obs 1 v (0,0) [])
      end
  | OAdd o h =>
      match get (objs e) o with
      | None => (e, rejected)
      | Some s => let '(s1, c) := sp_add s h in
                  (mkEnv (put (objs e) o (Some s1)) (queue e) (qpush e) (qpop e), ok_obs (sp_count s1) (val s1) c [])
      end
  | OMerge o1 o2 =>
      if Nat.eqb o1 o2 then (e, rejected) else
      match get (objs e) o1, get (objs e) o2 with
      | Some d, Some s =>
          let '(d1, s1, c) := sp_merge d s in
          (mkEnv (put (put (objs e) o1 (Some d1)) o2 (Some s1)) (queue e) (qpush e) (qpop e),
           ok_obs (sp_count d1) (val d1) c [])
      | _, _ => (e, rejected)
      end
  | OMoveAssign o1 o2 =>
      if Nat.eqb o1 o2 then (e, rejected) else
      match get (objs e) o1, get (objs e) o2 with
      | Some d, Some s =>
          let '(d1, s1, c) := sp_merge d s in
          let d2 := mkSp (cf d1) (hs d1) (cap d1) (val s) in
          (mkEnv (put (put (objs e) o1 (Some d2)) o2 (Some s1)) (queue e) (qpush e) (qpop e),
           ok_obs (sp_count d2) (val d2) c [])
      | _, _ => (e, rejected)
      end
  | OMoveCtor o1 o2 =>
      if Nat.eqb o1 o2 then (e, rejected) else
      match get (objs e) o1, get (objs e) o2 with
      | None, Some s =>
          (mkEnv (put (put (objs e) o1 (Some s)) o2 (Some (mkSp 0 [] (cap s) (val s)))) (queue e) (qpush e) (qpop e),
           ok_obs (sp_count s) (val s) (0,0) [])
      | _, _ => (e, rejected)
      end
  | OMoveBase o1 o2 v =>
      if Nat.eqb o1 o2 then (e, rejected) else
      match get (objs e) o1, get (objs e) o2 with
      | None, Some s =>
          (mkEnv (put (put (objs e) o1 (Some (mkSp (cf s) (hs s) (cap s) v))) o2
                      (Some (mkSp 0 [] (cap s) (val s)))) (queue e) (qpush e) (qpop e),
           ok_obs (sp_count s) v (0,0) [])
      | _, _ => (e, rejected)
      end
  | OPop o =>
      match get (objs e) o with
      | None => (e, rejected)
      | Some s => let '(s1, h) := sp_pop s in
                  (mkEnv (put (objs e) o (Some s1)) (queue e) (qpush e) (qpop e),
                   ok_obs (sp_count s1) (val s1) (0,0) (olist h))
      end
  | OClear o =>
      match get (objs e) o with
      | None => (e, rejected)
      | Some s => let '(s1, q, r, c, k) := suspend_now coro e s in
                  (mkEnv (put (objs e) o (Some s1)) q (qpush e + k) (qpop e),
                   mkObs 0 0 (val s1) c (node_cross (qpush e) k, 0) r)
      end
  | ODestroy o =>
      match get (objs e) o with
      | None => (e, rejected)
      | Some s => let '(s1, q, r, c, k) := suspend_now coro e s in
                  (mkEnv (put (objs e) o None) q (qpush e + k) (qpop e),
                   mkObs 0 0 (val s1) c (node_cross (qpush e) k, 0) r)
      end
  | OAwait o =>
      (* coroutine mode only: the driver coroutine co_awaits object o.
         await_ready: empty => no suspension.  Otherwise: pop one (symmetric transfer),
         enqueue the rest, enqueue the driver; everything queued then runs before the
         driver continues, because every test coroutine suspends again after logging. *)
      if negb coro then (e, rejected) else
      match get (objs e) o with
      | None => (e, rejected)
      | Some s =>
          (* the harness awaits a temporary move-constructed from o (as in `co_await f()`), so o is
             always left reset; an empty temporary that still owns a heap array frees it in its destructor *)
          if sp_count s =? 0 then
            let '(s2, c) := sp_clear_internal s in
            (mkEnv (put (objs e) o (Some s2)) (queue e) (qpush e) (qpop e), ok_obs 0 (val s) c []) else
          let '(s1, h) := sp_pop s in
          let '(s2, c) := sp_clear_internal s1 in
          let pushes := zlen (hs s1) + 1 in
          let pops := zlen (queue e) + zlen (hs s1) + 1 in
          (mkEnv (put (objs e) o (Some s2)) [] (qpush e + pushes) (qpop e + pops),
           mkObs 0 0 (val s2) c (node_cross (qpush e) pushes, node_cross (qpop e) pops)
                 (olist h ++ queue e ++ hs s1))
      end
  | OFlush =>
      if negb coro then (e, rejected) else
      (mkEnv (objs e) [] (qpush e + 1) (qpop e + zlen (queue e) + 1),
       mkObs 0 0 0 (0,0) (node_cross (qpush e) 1, node_cross (qpop e) (zlen (queue e) + 1)) (queue e))
  | OBad => (e, rejected)
  end.

Fixpoint run_from (coro : bool) (e : env) (l : list op) : list obs * env :=
  match l with
  | [] => ([], e)
  | x :: t => let '(e1, o) := step coro e x in
              let '(os, e2) := run_from coro e1 t in (o :: os, e2)
  end.

(* ---------- wire encoding ---------- *)
Definition n (z : Z) : nat := Z.to_nat z.

Definition decode (l : list Z) : op :=
  match l with
  | [0; o; v] => ONewV (n o) v
  | [1; o; h; v] => ONewH (n o) h v
  | [2; o; h] => OAdd (n o) h
  | [3; a; b] => OMerge (n a) (n b)
  | [4; a; b] => OMoveCtor (n a) (n b)
  | [5; a; b; v] => OMoveBase (n a) (n b) v
  | [6; o] => OPop (n o)
  | [7; o] => OClear (n o)
  | [8; o] => ODestroy (n o)
  | [9; o] => OAwait (n o)
  | [10] => OFlush
  | [11; a; b] => OMoveAssign (n a) (n b)
  | _ => OBad
  end.

Definition encode_obs (o : obs) : list Z :=
  o_st o :: o_size o :: o_val o :: fst (o_cost o) :: snd (o_cost o)
       :: fst (o_qcost o) :: snd (o_qcost o) :: o_res o.

Definition sp_run (coro : bool) (ops : list (list Z)) : list (list Z) :=
  map encode_obs (fst (run_from coro env0 (map decode ops))).

(* ---------- decidable form of C06 over an observed trace (used on implementation output) ---------- *)
Definition handed_of (x : op) (ok : bool) : list Z :=
  if ok then match x with ONewH _ h _ => [h] | OAdd _ h => [h] | _ => [] end else [].

Definition obs_ok (l : list Z) : bool := match l with 0 :: _ => true | _ => false end.
Definition obs_res (l : list Z) : list Z := skipn 7 l.
Definition obs_allocs (l : list Z) : Z := nth 3 l 0.
Definition obs_frees (l : list Z) : Z := nth 4 l 0.

Fixpoint sumz (l : list Z) : Z := match l with [] => 0 | x :: t => x + sumz t end.

(* The trace oracle: every op accepted; resumed multiset = handed multiset (valid when the
   case ends with all objects destroyed and the queue flushed); allocations = frees. *)
Definition sp_oracle (ops obs : list (list Z)) : bool :=
  let handed := flat_map (fun p => handed_of (decode (fst p)) (obs_ok (snd p))) (combine ops obs) in
  let resumed := flat_map obs_res obs in
  Nat.eqb (length ops) (length obs)
  && perm_b handed resumed
  && (sumz (map obs_allocs obs) =? sumz (map obs_frees obs)).
