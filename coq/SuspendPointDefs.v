(* SuspendPointDefs.v — executable model of cocls::suspend_point<void> / suspend_point<X> (suspend_point.h)
   together with the part of the per-thread ready queue it talks to (coro_queue.h, incl. create_suspend_point).
   Model only; proofs are in SuspendPointProofs.v.  Line numbers refer to src/cocls/suspend_point.h. *)
From Cocls Require Import Base.
Local Open Scope Z_scope.

(* One suspend point object (suspend_point<void> when typed = false, suspend_point<MV> when typed = true;
   MV is a class type whose move constructor / move assignment leave the source holding `moved`).
   cf   = _count_flag (bit 0: heap flag, count = cf / 2)                         l.215
   hs   = the first `count` entries of the active array (inline or heap)         l.209-212
   cap  = _ext._capacity (meaningful only when the flag is set)
   val  = the attached value (l.308); untouched for a void object *)
Record sp := mkSp { cf : Z; hs : list Z; cap : Z; typed : bool; val : Z }.

Definition sp_count (s : sp) : Z := cf s / 2.
Definition sp_flag (s : sp) : bool := Z.odd (cf s).
Definition inline_count : Z := 3.
Definition moved : Z := -1.      (* content of a moved-from MV *)

(* cost of one call: (heap arrays allocated, heap arrays freed) — operator new[] / delete[] *)
Definition cost := (Z * Z)%type.
Definition cadd (a b : cost) : cost := (fst a + fst b, snd a + snd b).

(* libstdc++ std::deque<coroutine_handle<>> node traffic (512-byte nodes, 64 handles each):
   moving the finish cursor from position p to p+k allocates (p+k)/64 - p/64 nodes, moving it back frees as many;
   the k-th pop_front frees one when k mod 64 = 0.  (Map growth needs >= 192 queued handles and is out of range.) *)
Definition node_len : Z := 64.
Definition node_cross (before k : Z) : Z := (before + k) / node_len - before / node_len.

(* suspend_point<void>::add, line for line (l.226-270) *)
Definition sp_add (s : sp) (h : Z) : sp * cost :=
  let count := sp_count s in
  if sp_flag s then
    if count =? cap s
    then (mkSp (cf s + 2) (hs s ++ [h]) (count * 2) (typed s) (val s), (1, 1))
    else (mkSp (cf s + 2) (hs s ++ [h]) (cap s) (typed s) (val s), (0, 0))
  else
    if count <? inline_count
    then (mkSp (cf s + 2) (hs s ++ [h]) (cap s) (typed s) (val s), (0, 0))
    else (mkSp (cf s + 3) (hs s ++ [h]) (count * 2) (typed s) (val s), (1, 0)).

Fixpoint sp_add_all (s : sp) (l : list Z) : sp * cost :=
  match l with
  | [] => (s, (0, 0))
  | h :: t => let '(s1, c1) := sp_add s h in
              let '(s2, c2) := sp_add_all s1 t in (s2, cadd c1 c2)
  end.

(* clear_internal (l.218-223): frees the heap array if the flag is set *)
Definition sp_clear_internal (s : sp) : sp * cost :=
  (mkSp 0 [] (cap s) (typed s) (val s), (0, if sp_flag s then 1 else 0)).

(* operator<<(suspend_point&&) (l.65-79): dst gets all handles of src, src is reset *)
Definition sp_merge (dst src : sp) : sp * sp * cost :=
  let '(d, c) := sp_add_all dst (hs src) in
  let '(s0, c0) := sp_clear_internal src in
  (d, s0, cadd c c0).

(* pop() (l.118-127): last handle, or None for the noop coroutine *)
Definition sp_pop (s : sp) : sp * option Z :=
  if 0 <? sp_count s
  then (mkSp (cf s - 2) (removelast (hs s)) (cap s) (typed s) (val s), Some (last (hs s) 0))
  else (s, None).

Definition olist (h : option Z) : list Z := match h with Some x => [x] | None => [] end.

(* base move constructor (l.55-62): the source keeps nothing (_count_flag = 0) *)
Definition reset_src (s : sp) : sp := mkSp 0 [] (cap s) (typed s) (val s).
(* the value member of a typed object that was the source of a move construction / move assignment *)
Definition moved_val (s : sp) : sp := mkSp (cf s) (hs s) (cap s) (typed s) (if typed s then moved else val s).
Definition set_val (s : sp) (v : Z) : sp := mkSp (cf s) (hs s) (cap s) (typed s) v.

(* thread environment *)
Record env := mkEnv {
  objs : list (option sp);
  queue : list Z;          (* coro_queue::instance->_queue, only used in coroutine mode *)
  qpush : Z;               (* push_back calls on the deque since it was constructed *)
  qpop : Z                 (* pop_front calls *)
}.

Definition env0 : env := mkEnv [] [] 0 0.

Inductive op :=
| ONewV (o : nat) (v : Z)                 (* suspend_point<MV>(MV(v)) *)
| ONewH (o : nat) (h v : Z)               (* suspend_point<MV>(h, MV(v)) *)
| OAdd (o : nat) (h : Z)                  (* sp << coroutine_handle *)
| OMerge (o1 o2 : nat)                    (* base(o1) << move(base(o2)) *)
| OMoveCtor (o1 o2 : nat)                 (* o1 = T(move(o2)), T the type of o2 *)
| OMoveBase (o1 o2 : nat) (v : Z)         (* o1 = suspend_point<MV>(move(base(o2)), MV(v)) *)
| OPop (o : nat)
| OClear (o : nat)
| ODestroy (o : nat)
| OAwait (o : nat)                        (* T tmp(move(o)); co_await tmp *)
| OFlush                                  (* co_await pause() *)
| OMoveAssign (o1 o2 : nat)               (* o1 = move(o2) *)
| OCreate (o : nat) (t : bool) (v : Z) (l : list Z)   (* coro_queue::create_suspend_point(fn), fn readies the handles l *)
| ONewVoid (o : nat)                      (* suspend_point<void>() *)
| ONewVoidH (o : nat) (h : Z)             (* suspend_point<void>(h) *)
| ORead (o : nat) (k : Z)                 (* k = 0: operator X(), k = 1: operator const X() const *)
| OAwaitL (o : nat)                       (* co_await o (lvalue) *)
| OAddSelf (o : nat)                      (* o << co_await self() *)
| OSwap (o1 o2 : nat)                     (* std::swap(o1, o2), same type *)
| OAddFail (o : nat) (h : Z)              (* sp << handle while the next operator new[] throws std::bad_alloc *)
| OCreateThrow (o : nat) (t : bool) (v : Z) (l : list Z)   (* create_suspend_point(fn), fn readies l and then throws *)
| OBad.

(* observation: status (0 ok, 1 rejected, 2 executed but std::bad_alloc came out: nothing changed), size after, value read after the op (const conversion; 0 for void objects),
   heap arrays allocated / freed, deque nodes allocated / freed, ids of the coroutines resumed during the op in order
   (0 = the awaiting coroutine itself continues) *)
Record obs := mkObs { o_st : Z; o_size : Z; o_val : Z; o_cost : cost; o_qcost : cost; o_res : list Z }.
Definition rejected : obs := mkObs 1 0 0 (0, 0) (0, 0) [].
Definition ok_obs (size v : Z) (c : cost) (r : list Z) : obs := mkObs 0 size v c (0, 0) r.

Definition driver : Z := 0.   (* handle id of the coroutine that executes the ops in coroutine mode *)
Definition is_drv (x : Z) : bool := x =? driver.
Definition has_drv (s : sp) : bool := existsb is_drv (hs s).
Definition hso (o : option sp) : list Z := match o with Some s => hs s | None => [] end.
Definition held_objs (l : list (option sp)) : list Z := flat_map hso l.
Definition held (e : env) : list Z := held_objs (objs e) ++ queue e.

(* suspend_now() (l.130-145): normal mode resumes every handle immediately, in array order;
   coroutine mode appends them to the ready queue *)
Definition suspend_now (coro : bool) (e : env) (s : sp) : sp * list Z * list Z * cost * Z :=
  let '(s0, c) := sp_clear_internal s in
  if coro then (s0, queue e ++ hs s, [], c, zlen (hs s))
  else (s0, queue e, hs s, c, 0).

(* flush_queue as seen by a suspended awaiter: everything in front of its own handle runs, then it continues *)
Fixpoint split_drv (q : list Z) : list Z * list Z * bool :=
  match q with
  | [] => ([], [], false)
  | x :: t => if is_drv x then ([], t, true)
              else let '(a, b, f) := split_drv t in (x :: a, b, f)
  end.

(* await_suspend(h), active-queue branch (l.169-183), h = the driver, on a non-empty object s.
   returns (object after, queue after, resumed ids until the driver continues, array cost, push_backs, pop_fronts) *)
Definition await_suspend (q : list Z) (s : sp) : sp * list Z * list Z * cost * Z * Z :=
  let '(s1, out) := sp_pop s in                                     (* l.170 *)
  let rest := hs s1 in
  let me_in := existsb is_drv (olist out) || existsb is_drv rest in (* l.173-177 (l.173: out compared as well) *)
  let q1 := q ++ rest ++ (if me_in then [] else [driver]) in         (* l.176, l.179-181 *)
  let pushes := zlen rest + (if me_in then 0 else 1) in
  let '(s2, c) := sp_clear_internal s1 in                            (* l.182 *)
  if existsb is_drv (olist out)
  then (s2, q1, [driver], c, pushes, 0)                              (* symmetric transfer to the awaiter itself *)
  else let '(pre, post, found) := split_drv q1 in                    (* out runs, then the queue up to the awaiter *)
       (s2, post, olist out ++ pre ++ (if found then [driver] else []), c, pushes,
        zlen pre + (if found then 1 else 0)).

(* what an await adds on its own: the awaiter's handle, unless await_suspend found it in the list (l.179) *)
Definition self_push (s : sp) : list Z :=
  if sp_count s =? 0 then [driver]
  else let '(s1, out) := sp_pop s in
       if existsb is_drv (olist out) || existsb is_drv (hs s1) then [] else [driver].

Definition upd (e : env) (l : list (option sp)) : env := mkEnv l (queue e) (qpush e) (qpop e).

Definition step (coro : bool) (e : env) (x : op) : env * obs :=
  match x with
  | ONewV o v =>
      match get (objs e) o with
      | Some _ => (e, rejected)
      | None => (upd e (put (objs e) o (Some (mkSp 0 [] 0 true v))), ok_obs 0 v (0,0) [])
      end
  | ONewH o h v =>
      if h <=? 0 then (e, rejected) else
      match get (objs e) o with
      | Some _ => (e, rejected)
      | None => (upd e (put (objs e) o (Some (mkSp 2 [h] 0 true v))), ok_obs 1 v (0,0) [])
      end
  | ONewVoid o =>
      match get (objs e) o with
      | Some _ => (e, rejected)
      | None => (upd e (put (objs e) o (Some (mkSp 0 [] 0 false 0))), ok_obs 0 0 (0,0) [])
      end
  | ONewVoidH o h =>
      if h <=? 0 then (e, rejected) else
      match get (objs e) o with
      | Some _ => (e, rejected)
      | None => (upd e (put (objs e) o (Some (mkSp 2 [h] 0 false 0))), ok_obs 1 0 (0,0) [])
      end
  | OCreate o t v l =>
      (* coro_queue::create_suspend_point (l.319-347): fn pushes the handles l to the ready queue, they are taken
         back from the END of the queue one by one (so in reverse order) and merged into a fresh suspend_point<void>,
         which is then given the value; the queue is as before.  Same in normal mode (a queue is installed around it). *)
      if negb (forallb (fun h => 0 <? h) l) then (e, rejected) else
      match get (objs e) o with
      | Some _ => (e, rejected)
      | None => let '(s1, c) := sp_add_all (mkSp 0 [] 0 false 0) (rev l) in
                let s2 := mkSp (cf s1) (hs s1) (cap s1) t (if t then v else 0) in
                let k := node_cross (qpush e) (zlen l) in
                (upd e (put (objs e) o (Some s2)), mkObs 0 (sp_count s2) (val s2) c (k, k) [])
      end
  | OAdd o h =>
      if h <=? 0 then (e, rejected) else
      match get (objs e) o with
      | None => (e, rejected)
      | Some s => let '(s1, c) := sp_add s h in
                  (upd e (put (objs e) o (Some s1)), ok_obs (sp_count s1) (val s1) c [])
      end
  | OAddSelf o =>
      (* `o << co_await self()`: self never suspends; legal only while the own handle is not already somewhere *)
      if negb coro then (e, rejected) else
      if existsb is_drv (held e) then (e, rejected) else
      match get (objs e) o with
      | None => (e, rejected)
      | Some s => let '(s1, c) := sp_add s driver in
                  (upd e (put (objs e) o (Some s1)), ok_obs (sp_count s1) (val s1) c [])
      end
  | OMerge o1 o2 =>
      if Nat.eqb o1 o2 then (e, rejected) else
      match get (objs e) o1, get (objs e) o2 with
      | Some d, Some s =>
          let '(d1, s1, c) := sp_merge d s in
          (upd e (put (put (objs e) o1 (Some d1)) o2 (Some s1)), ok_obs (sp_count d1) (val d1) c [])
      | _, _ => (e, rejected)
      end
  | OMoveAssign o1 o2 =>
      (* typed = typed: implicit move assignment of suspend_point<X>: base merge (l.93) + value = move(other.value);
         void = any: base merge only;  typed = void does not compile *)
      if Nat.eqb o1 o2 then (e, rejected) else
      match get (objs e) o1, get (objs e) o2 with
      | Some d, Some s =>
          if typed d && negb (typed s) then (e, rejected) else
          let '(d1, s1, c) := sp_merge d s in
          let d2 := if typed d then set_val d1 (val s) else d1 in
          let s2 := if typed d then moved_val s1 else s1 in
          (upd e (put (put (objs e) o1 (Some d2)) o2 (Some s2)), ok_obs (sp_count d2) (val d2) c [])
      | _, _ => (e, rejected)
      end
  | OMoveCtor o1 o2 =>
      if Nat.eqb o1 o2 then (e, rejected) else
      match get (objs e) o1, get (objs e) o2 with
      | None, Some s =>
          (upd e (put (put (objs e) o1 (Some s)) o2 (Some (moved_val (reset_src s)))),
           ok_obs (sp_count s) (val s) (0,0) [])
      | _, _ => (e, rejected)
      end
  | OMoveBase o1 o2 v =>
      if Nat.eqb o1 o2 then (e, rejected) else
      match get (objs e) o1, get (objs e) o2 with
      | None, Some s =>
          (upd e (put (put (objs e) o1 (Some (mkSp (cf s) (hs s) (cap s) true v))) o2 (Some (reset_src s))),
           ok_obs (sp_count s) v (0,0) [])
      | _, _ => (e, rejected)
      end
  | OSwap o1 o2 =>
      (* std::swap: T tmp(move(a)); a = move(b); b = move(tmp); ~tmp — with the merging move assignment *)
      if Nat.eqb o1 o2 then (e, rejected) else
      match get (objs e) o1, get (objs e) o2 with
      | Some a, Some b =>
          if negb (Bool.eqb (typed a) (typed b)) then (e, rejected) else
          let tmp := a in
          let a0 := moved_val (reset_src a) in
          let '(a1, b1, c1) := sp_merge a0 b in
          let a2 := if typed a then set_val a1 (val b) else a1 in
          let b2 := if typed a then moved_val b1 else b1 in
          let '(b3, _, c2) := sp_merge b2 tmp in
          let b4 := if typed a then set_val b3 (val tmp) else b3 in
          (upd e (put (put (objs e) o1 (Some a2)) o2 (Some b4)), ok_obs (sp_count a2) (val a2) (cadd c1 c2) [])
      | _, _ => (e, rejected)
      end
  | ORead o k =>
      if negb ((k =? 0) || (k =? 1)) then (e, rejected) else
      match get (objs e) o with
      | None => (e, rejected)
      | Some s => if typed s then (e, ok_obs (sp_count s) (val s) (0,0) []) else (e, rejected)
      end
  | OPop o =>
      match get (objs e) o with
      | None => (e, rejected)
      | Some s => if has_drv s then (e, rejected) else
                  let '(s1, h) := sp_pop s in
                  (upd e (put (objs e) o (Some s1)), ok_obs (sp_count s1) (val s1) (0,0) (olist h))
      end
  | OClear o =>
      match get (objs e) o with
      | None => (e, rejected)
      | Some s => if has_drv s then (e, rejected) else
                  let '(s1, q, r, c, k) := suspend_now coro e s in
                  (mkEnv (put (objs e) o (Some s1)) q (qpush e + k) (qpop e),
                   mkObs 0 0 (val s1) c (node_cross (qpush e) k, 0) r)
      end
  | ODestroy o =>
      match get (objs e) o with
      | None => (e, rejected)
      | Some s => if has_drv s then (e, rejected) else
                  let '(s1, q, r, c, k) := suspend_now coro e s in
                  (mkEnv (put (objs e) o None) q (qpush e + k) (qpop e),
                   mkObs 0 0 (val s1) c (node_cross (qpush e) k, 0) r)
      end
  | OAwait o =>
      (* coroutine mode only: the driver coroutine co_awaits a temporary move-constructed from object o (as in
         `co_await f()`), so o is left moved-from.  await_ready (l.148): empty => no suspension, the temporary's
         destructor frees a heap array it may still own.  Otherwise await_suspend. *)
      if negb coro then (e, rejected) else
      match get (objs e) o with
      | None => (e, rejected)
      | Some s =>
          let src := moved_val (reset_src s) in
          if sp_count s =? 0 then
            let '(_, c) := sp_clear_internal s in
            (upd e (put (objs e) o (Some src)), ok_obs 0 (val s) c [driver]) else
          let '(_, q, r, c, pushes, pops) := await_suspend (queue e) s in
          (mkEnv (put (objs e) o (Some src)) q (qpush e + pushes) (qpop e + pops),
           mkObs 0 0 (val s) c (node_cross (qpush e) pushes, node_cross (qpop e) pops) r)
      end
  | OAwaitL o =>
      (* co_await on the object itself: an empty object is not touched at all *)
      if negb coro then (e, rejected) else
      match get (objs e) o with
      | None => (e, rejected)
      | Some s =>
          if sp_count s =? 0 then (e, ok_obs 0 (val s) (0,0) [driver]) else
          let '(s2, q, r, c, pushes, pops) := await_suspend (queue e) s in
          (mkEnv (put (objs e) o (Some s2)) q (qpush e + pushes) (qpop e + pops),
           mkObs 0 0 (val s) c (node_cross (qpush e) pushes, node_cross (qpop e) pops) r)
      end
  | OFlush =>
      (* co_await pause() (coro_queue.h l.217-227): push the driver, run the queue up to it *)
      if negb coro then (e, rejected) else
      let '(pre, post, found) := split_drv (queue e ++ [driver]) in
      let pops := zlen pre + (if found then 1 else 0) in
      (mkEnv (objs e) post (qpush e + 1) (qpop e + pops),
       mkObs 0 0 0 (0,0) (node_cross (qpush e) 1, node_cross (qpop e) pops) (pre ++ (if found then [driver] else [])))
  | OAddFail o h =>
      (* add() (l.226-270) when the allocation it needs throws: `new Ptr[count*2]` is evaluated before anything is
         stored or counted, so the object is unchanged and the caller still owns h.  No allocation needed: plain add. *)
      if h <=? 0 then (e, rejected) else
      match get (objs e) o with
      | None => (e, rejected)
      | Some s =>
          if (if sp_flag s then sp_count s =? cap s else negb (sp_count s <? inline_count))
          then (e, mkObs 2 (sp_count s) (val s) (0,0) (0,0) [])
          else let '(s1, c) := sp_add s h in
               (upd e (put (objs e) o (Some s1)), ok_obs (sp_count s1) (val s1) c [])
      end
  | OCreateThrow o t v l =>
      (* create_suspend_point when fn throws after readying l: the exception passes through, nothing is collected.
         Coroutine mode: l simply stays in the ready queue behind what was there.  Normal mode: the queue installed
         around the call is flushed while the exception unwinds (trailer, coro_queue.h l.107-110): l is resumed now. *)
      if negb (forallb (fun h => 0 <? h) l) then (e, rejected) else
      match get (objs e) o with
      | Some _ => (e, rejected)
      | None =>
          let k := zlen l in
          if coro
          then (mkEnv (objs e) (queue e ++ l) (qpush e + k) (qpop e),
                mkObs 0 0 0 (0,0) (node_cross (qpush e) k, 0) [])
          else (mkEnv (objs e) (queue e) (qpush e + k) (qpop e + k),
                mkObs 0 0 0 (0,0) (node_cross (qpush e) k, node_cross (qpop e) k) l)
      end
  | OBad => (e, rejected)
  end.

Fixpoint run_from (coro : bool) (e : env) (l : list op) : list obs * env :=
  match l with
  | [] => ([], e)
  | x :: t => let '(e1, o) := step coro e x in
              let '(os, e2) := run_from coro e1 t in (o :: os, e2)
  end.

(* ---------- wire encoding ---------- *)
Definition n (z : Z) : nat := Z.to_nat z.

Definition slot_ok (o : Z) : bool := (0 <=? o) && (o <? 64).
Definition raw_slots (l : list Z) : list Z :=
  match l with
  | c :: a :: b :: _ => if memz c [3; 4; 5; 11; 18] then [a; b] else [a]
  | [_; a] => [a]
  | _ => []
  end.

Definition decode0 (l : list Z) : op :=
  match l with
  | [0; o; v] => ONewV (n o) v
  | [1; o; h; v] => ONewH (n o) h v
  | [2; o; h] => OAdd (n o) h
  | [3; a; b] => OMerge (n a) (n b)
  | [4; a; b] => OMoveCtor (n a) (n b)
  | [5; a; b; v] => OMoveBase (n a) (n b) v
  | [6; o] => OPop (n o)
  | [7; o] => OClear (n o)
  | [8; o] => ODestroy (n o)
  | [9; o] => OAwait (n o)
  | [10] => OFlush
  | [11; a; b] => OMoveAssign (n a) (n b)
  | 12 :: o :: t :: v :: l => if (t =? 0) || (t =? 1) then OCreate (n o) (t =? 1) v l else OBad
  | [13; o] => ONewVoid (n o)
  | [14; o; h] => ONewVoidH (n o) h
  | [15; o; k] => ORead (n o) k
  | [16; o] => OAwaitL (n o)
  | [17; o] => OAddSelf (n o)
  | [18; a; b] => OSwap (n a) (n b)
  | [19; o; h] => OAddFail (n o) h
  | 20 :: o :: t :: v :: l => if (t =? 0) || (t =? 1) then OCreateThrow (n o) (t =? 1) v l else OBad
  | _ => OBad
  end.

Definition decode (l : list Z) : op := if forallb slot_ok (raw_slots l) then decode0 l else OBad.

Definition encode_obs (o : obs) : list Z :=
  o_st o :: o_size o :: o_val o :: fst (o_cost o) :: snd (o_cost o)
       :: fst (o_qcost o) :: snd (o_qcost o) :: o_res o.

Definition sp_run (coro : bool) (ops : list (list Z)) : list (list Z) :=
  map encode_obs (fst (run_from coro env0 (map decode ops))).

(* ---------- decidable form of C06 over an observed trace (used on implementation output) ---------- *)
(* ready coroutines handed in by an accepted op (the awaiter's own handle is accounted separately) *)
Definition handed_of (x : op) (ok : bool) : list Z :=
  if ok then match x with
             | ONewH _ h _ => [h] | OAdd _ h => [h] | ONewVoidH _ h => [h] | OAddFail _ h => [h]
             | OCreate _ _ _ l => l | OCreateThrow _ _ _ l => l
             | _ => [] end
  else [].

Definition obs_ok (l : list Z) : bool := match l with 0 :: _ => true | _ => false end.
Definition obs_res (l : list Z) : list Z := skipn 7 l.
Definition obs_val (l : list Z) : Z := nth 2 l 0.
Definition obs_allocs (l : list Z) : Z := nth 3 l 0.
Definition obs_frees (l : list Z) : Z := nth 4 l 0.

Fixpoint sumz (l : list Z) : Z := match l with [] => 0 | x :: t => x + sumz t end.

Definition not_drv (x : Z) : bool := negb (is_drv x).

(* an op during which the awaiting coroutine is suspended (or at least passes through co_await) *)
Definition awaits (x : op) : bool :=
  match x with OAwait _ | OAwaitL _ | OFlush => true | _ => false end.

(* the awaiter continues exactly once, after everything that ran in between, per accepted await;
   it is never resumed by any other op *)
Definition drv_ok (x : op) (ok : bool) (res : list Z) : bool :=
  if ok && awaits x
  then match rev res with d :: t => is_drv d && forallb not_drv t | [] => false end
  else forallb not_drv res.

(* ---- value clause: an independent account of which value every object must show ----
   per slot: None = no object, Some (typed, value).  Only constructions set a value, only a move construction /
   move assignment FROM a typed object replaces it by `moved`; nothing else touches it. *)
Definition vinfo := (bool * Z)%type.
Definition vget (vs : list (option vinfo)) (o : nat) : Z := match get vs o with Some (_, v) => v | None => 0 end.
Definition vmoved (i : option vinfo) : option vinfo :=
  match i with Some (t, v) => Some (t, if t then moved else v) | None => None end.
Definition vtyped (i : option vinfo) : bool := match i with Some (t, _) => t | None => false end.

(* returns the new table and the value the op's observation must carry *)
Definition vstep (vs : list (option vinfo)) (x : op) : list (option vinfo) * Z :=
  match x with
  | ONewV o v | ONewH o _ v => (put vs o (Some (true, v)), v)
  | ONewVoid o | ONewVoidH o _ => (put vs o (Some (false, 0)), 0)
  | OCreate o t v _ => (put vs o (Some (t, if t then v else 0)), if t then v else 0)
  | OAdd o _ | OAddFail o _ | OAddSelf o | OPop o | OClear o | ORead o _ | OAwaitL o | OMerge o _ => (vs, vget vs o)
  | OMoveCtor a b => let vs1 := put (put vs a (get vs b)) b (vmoved (get vs b)) in (vs1, vget vs1 a)
  | OMoveBase a _ v => (put vs a (Some (true, v)), v)
  | OMoveAssign a b =>
      if vtyped (get vs a)
      then let vs1 := put (put vs a (get vs b)) b (vmoved (get vs b)) in (vs1, vget vs1 a)
      else (vs, vget vs a)
  | OSwap a b =>
      if vtyped (get vs a)
      then let vs1 := put (put vs a (get vs b)) b (get vs a) in (vs1, vget vs1 a)
      else (vs, vget vs a)
  | ODestroy o => (put vs o None, vget vs o)
  | OAwait o => (put vs o (vmoved (get vs o)), vget vs o)
  | OFlush | OCreateThrow _ _ _ _ | OBad => (vs, 0)
  end.

Fixpoint vals_ok (vs : list (option vinfo)) (ops : list op) (obs : list (list Z)) : bool :=
  match ops, obs with
  | x :: t, ob :: u =>
      if obs_ok ob
      then let '(vs1, v) := vstep vs x in (obs_val ob =? v) && vals_ok vs1 t u
      else vals_ok vs t u
  | _, _ => true
  end.

Fixpoint drv_all_ok (ops : list op) (obs : list (list Z)) : bool :=
  match ops, obs with
  | x :: t, ob :: u => drv_ok x (obs_ok ob) (obs_res ob) && drv_all_ok t u
  | _, _ => true
  end.

(* The trace oracle (valid when the case ends with all objects destroyed and the queue flushed):
   one observation per op; ready coroutines resumed = ready coroutines handed in (as multisets);
   the awaiter continues exactly once per await and never otherwise; allocations = frees;
   every value shown is the one the producer supplied. *)
Definition sp_oracle (ops obs : list (list Z)) : bool :=
  let dops := map decode ops in
  let handed := flat_map (fun p => handed_of (fst p) (obs_ok (snd p))) (combine dops obs) in
  let resumed := filter not_drv (flat_map obs_res obs) in
  Nat.eqb (length ops) (length obs)
  && perm_b handed resumed
  && drv_all_ok dops obs
  && (sumz (map obs_allocs obs) =? sumz (map obs_frees obs))
  && vals_ok [] dops obs.
