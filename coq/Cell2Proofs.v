(* Cell2Proofs.v — C02: no lost, early or duplicate wake-up of a future's waiters.
   Invariant Inv2 over the cell model of CellDefs.v, for any number of waiters of any kind, any resolvers,
   every schedule (induction over reachability, on top of Inv1 of CellProofs.v). *)
From Cocls Require Import Base BaseProofs CellDefs CellProofs.
Local Open Scope Z_scope.

(* ---------- vocabulary ---------- *)
Definition rel (s : st) : list nat := map fst (wlog s).           (* waiters released so far, in order *)
Definition pend (s : st) : list nat := chain s ++ walk s ++ acc s. (* subscribed, not yet released *)

Definition parks (k : wkind) : bool := match k with WCoro | WCallback | WCoroHas => true | _ => false end.
Definition parked_pc (k : wkind) : wpc := if parks k then WParked else WFlag.
Definition presub (pc : wpc) : bool := match pc with WPre | WReady | WSub _ _ | WStart => true | _ => false end.

(* the waiter view of thread j *)
Definition W (s : st) (j : nat) : option (wkind * wpc * bool) :=
  match T s j with Some (TW k pc f) => Some (k, pc, f) | _ => None end.

(* the access log is well formed when every event is legal after the events before it *)
Definition ok_after (l : list ev) (e : ev) : Prop :=
  match e with
  | ENext w | EClear w | EResume w => ~ In (EResume w) l /\ ~ In (EFree w) l
  | EFree w => In (EResume w) l /\ ~ In (EFree w) l
  | EFrame _ => True
  end.
Inductive wf_log : list ev -> Prop :=
| wf_nil : wf_log []
| wf_snoc l e : wf_log l -> ok_after l e -> wf_log (l ++ [e]).

Record Inv2 (s : st) : Prop := {
  j_nodup : NoDup (chain s ++ walk s ++ acc s ++ rel s);
  j_sub : forall w, In w (sublog s) <-> In w (chain s ++ walk s ++ acc s ++ rel s);
  j_node : forall w, In w (chain s ++ walk s) ->
           exists k f, W s w = Some (k, parked_pc k, f) /\ (parks k = false -> f = false);
  j_acc : forall w, In w (acc s) -> exists k f, W s w = Some (k, WParked, f) /\ is_coro k = true;
  j_parked : forall w k f, W s w = Some (k, WParked, f) -> In w (chain s ++ walk s ++ acc s);
  j_flag : forall w k f, W s w = Some (k, WFlag, f) ->
           if f then In w (rel s) /\ ~ In (EFree w) (elog s) else In w (chain s ++ walk s);
  j_pre : forall w k pc f, W s w = Some (k, pc, f) -> presub pc = true -> ~ In w (sublog s) /\ f = false;
  j_done : forall w k o f, W s w = Some (k, WDone o, f) ->
           slot s = SReady /\ o = payload s /\ (In w (sublog s) -> In w (rel s));
  j_wlog : forall w o, In (w, o) (wlog s) -> slot s = SReady /\ o = payload s;
  j_busy : walk s <> [] \/ acc s <> [] -> slot s = SReady;
  j_eres : forall w, In (EResume w) (elog s) <-> In w (acc s ++ rel s);
  j_efree : forall w, In (EFree w) (elog s) -> exists k o f, W s w = Some (k, WDone o, f);
  j_frame : forall b, In (EFrame b) (elog s) -> b = true /\ slot s = SReady;
  j_log : wf_log (elog s);
}.

(* ---------- small list facts ---------- *)
Lemma in_rel s w : In w (rel s) <-> exists o, In (w, o) (wlog s).
Proof.
  unfold rel. rewrite in_map_iff. split.
  - intros ((w', o) & E & H). cbn [fst] in E. subst. eauto.
  - intros (o & H). exists (w, o). auto.
Qed.

Lemma perm_move (a t c d : list nat) w : Permutation (a ++ (w :: t) ++ c ++ d) (a ++ t ++ (c ++ [w]) ++ d).
Proof.
  apply Permutation_app_head. cbn [app].
  replace (t ++ (c ++ [w]) ++ d) with ((t ++ c) ++ w :: d) by (rewrite <- !app_assoc; reflexivity).
  replace (w :: t ++ c ++ d) with (w :: (t ++ c) ++ d) by (rewrite <- !app_assoc; reflexivity).
  apply Permutation_middle.
Qed.

Lemma perm_move2 (a t c d : list nat) w : Permutation (a ++ (w :: t) ++ c ++ d) (a ++ t ++ c ++ (d ++ [w])).
Proof.
  apply Permutation_app_head. cbn [app].
  replace (t ++ c ++ d ++ [w]) with ((t ++ c ++ d) ++ [w]) by (rewrite <- !app_assoc; reflexivity).
  apply Permutation_cons_append.
Qed.

Lemma nodup_disj (a b : list nat) x : NoDup (a ++ b) -> In x a -> In x b -> False.
Proof.
  induction a as [|y a IH]; cbn [app In]; intros N A B; [contradiction|].
  inversion N; subst. destruct A as [->|A]; [apply H1; apply in_or_app; auto|eauto].
Qed.
Lemma nodup_app_r (a b : list nat) : NoDup (a ++ b) -> NoDup b.
Proof. induction a as [|y a IH]; cbn [app]; intros N; [exact N|]. inversion N; auto. Qed.
Lemma nodup_app_l (a b : list nat) : NoDup (a ++ b) -> NoDup a.
Proof.
  induction a as [|y a IH]; cbn [app]; intros N; [constructor|]. inversion N; subst. constructor; auto.
  intro Q. apply H1. apply in_or_app. auto.
Qed.
(* a released waiter is not pending, an accumulated one is not in chain/walk ... *)
Lemma nodup4 (a b c d : list nat) x : NoDup (a ++ b ++ c ++ d) ->
  (In x d -> ~ In x (a ++ b ++ c)) /\ (In x c -> ~ In x (a ++ b)) /\ (In x b -> ~ In x a).
Proof.
  intros N. repeat split; intros H Q.
  - rewrite !app_assoc in N. rewrite !app_assoc in Q. eapply nodup_disj; eauto.
  - rewrite !app_assoc in N. apply nodup_app_l in N. rewrite <- app_assoc in N.
    rewrite app_assoc in N. eapply nodup_disj; eauto.
  - rewrite app_assoc in N. apply nodup_app_l in N. eapply nodup_disj; eauto.
Qed.

Lemma wf_log_app1 l e : wf_log l -> ok_after l e -> wf_log (l ++ [e]).
Proof. apply wf_snoc. Qed.

(* ---------- W bookkeeping ---------- *)
Lemma W_set_w s i k pc f j : (i < length (thrs s))%nat ->
  W (set_thr s i (TW k pc f)) j = if Nat.eqb i j then Some (k, pc, f) else W s j.
Proof. intros L. unfold W. rewrite T_set_thr by exact L. destruct (Nat.eqb i j); reflexivity. Qed.

Lemma W_set_r s i k pc k0 pc0 j : T s i = Some (TR k0 pc0) -> W (set_thr s i (TR k pc)) j = W s j.
Proof.
  intros H. unfold W. rewrite T_set_thr by (eapply T_some_lt; eassumption).
  destruct (Nat.eqb_spec i j) as [->|N]; [rewrite H|]; reflexivity.
Qed.

Lemma W_lt s j x : W s j = Some x -> (j < length (thrs s))%nat.
Proof. unfold W. destruct (T s j) eqn:E; [|discriminate]. intros _. eapply T_some_lt; eassumption. Qed.

Lemma W_T s j k pc f : W s j = Some (k, pc, f) <-> T s j = Some (TW k pc f).
Proof.
  unfold W. destruct (T s j) as [[k0 pc0|k0 pc0 f0]|]; split; intros H; inversion H; subst; reflexivity.
Qed.

(* Inv2 only reads these projections *)
Lemma inv2_ext s s' :
  Inv2 s -> slot s' = slot s -> payload s' = payload s -> walk s' = walk s -> acc s' = acc s ->
  sublog s' = sublog s -> wlog s' = wlog s -> elog s' = elog s -> (forall j, W s' j = W s j) -> Inv2 s'.
Proof.
  intros [J1 J2 J3 J4 J5 J6 J7 J8 J9 J10 J11 J12 J13 J14] ES EP EK EA EB EW EL EQ.
  assert (EC : chain s' = chain s) by (unfold chain; rewrite ES; reflexivity).
  assert (ER : rel s' = rel s) by (unfold rel; rewrite EW; reflexivity).
  constructor; rewrite ?EC, ?ER, ?ES, ?EP, ?EK, ?EA, ?EB, ?EW, ?EL.
  - exact J1.
  - exact J2.
  - intros w H. rewrite EQ. auto.
  - intros w H. rewrite EQ. auto.
  - intros w k f H. rewrite EQ in H. eauto.
  - intros w k f H. rewrite EQ in H. apply J6 in H. exact H.
  - intros w k pc f H. rewrite EQ in H. eauto.
  - intros w k o f H. rewrite EQ in H. eauto.
  - exact J9.
  - exact J10.
  - exact J11.
  - intros w H. rewrite EQ. auto.
  - exact J13.
  - exact J14.
Qed.

Lemma inv2_set_tr s i k pc k0 pc0 : Inv2 s -> T s i = Some (TR k0 pc0) -> Inv2 (set_thr s i (TR k pc)).
Proof.
  intros J H. eapply (inv2_ext s); try reflexivity; [exact J|].
  intros j. eapply W_set_r. exact H.
Qed.

(* ---------- initial state ---------- *)
Lemma init_W ops w k pc f : W (init ops) w = Some (k, pc, f) -> presub pc = true /\ f = false.
Proof.
  intros H. apply W_T in H. apply init_thrs in H.
  destruct H as [(k' & E)|[E|(k' & pc' & E & Q)]]; inversion E; subst; split; try reflexivity.
  destruct Q as [->|[->| ->]]; reflexivity.
Qed.

Lemma inv2_init ops : Inv2 (init ops).
Proof.
  constructor; unfold chain, rel; cbn [init slot walk acc wlog sublog elog map app payload In].
  - constructor.
  - tauto.
  - intros w [].
  - intros w [].
  - intros w k f H. apply init_W in H. destruct H; discriminate.
  - intros w k f H. apply init_W in H. destruct H; discriminate.
  - intros w k pc f H _. apply init_W in H. tauto.
  - intros w k o f H. apply init_W in H. destruct H; discriminate.
  - intros w o [].
  - intros [H|H]; congruence.
  - tauto.
  - intros w [].
  - intros b [].
  - constructor.
Qed.

(* ---------- waiter steps ---------- *)
Lemma presub_not_parked k pc : presub pc = true -> pc <> parked_pc k /\ pc <> WParked /\ pc <> WFlag /\ forall o, pc <> WDone o.
Proof. unfold parked_pc. destruct pc; cbn [presub]; intros H; try discriminate; repeat split; try intros o; destruct (parks k); discriminate. Qed.

Ltac split_i EQ i w := rewrite EQ in *; destruct (Nat.eqb_spec i w) as [?|?]; [subst w|].

(* a not yet subscribed waiter moves between its private pcs *)
Lemma inv2_w_presub s i k pc f pc' :
  Inv2 s -> W s i = Some (k, pc, f) -> presub pc = true -> presub pc' = true -> Inv2 (set_thr s i (TW k pc' f)).
Proof.
  intros J H P P'. pose proof (W_lt _ _ _ H) as L.
  destruct (presub_not_parked k pc P) as (N1 & N2 & N3 & N4).
  destruct (presub_not_parked k pc' P') as (M1 & M2 & M3 & M4).
  pose proof J as [J1 J2 J3 J4 J5 J6 J7 J8 J9 J10 J11 J12 J13 J14].
  set (s' := set_thr s i (TW k pc' f)).
  assert (EQ : forall j, W s' j = if Nat.eqb i j then Some (k, pc', f) else W s j) by (intros; apply W_set_w; exact L).
  assert (EC : chain s' = chain s) by reflexivity. assert (ER : rel s' = rel s) by reflexivity.
  assert (EK : walk s' = walk s) by reflexivity. assert (EA : acc s' = acc s) by reflexivity.
  assert (EB : sublog s' = sublog s) by reflexivity. assert (EW : wlog s' = wlog s) by reflexivity.
  assert (EL : elog s' = elog s) by reflexivity. assert (ES : slot s' = slot s) by reflexivity.
  assert (EP : payload s' = payload s) by reflexivity.
  clearbody s'.
  constructor; rewrite ?EC, ?ER, ?EK, ?EA, ?EB, ?EW, ?EL, ?ES, ?EP.
  - exact J1.
  - exact J2.
  - intros w Hw. destruct (J3 w Hw) as (k1 & f1 & A & B). split_i EQ i w; [|eauto].
    rewrite H in A. inversion A; subst. congruence.
  - intros w Hw. destruct (J4 w Hw) as (k1 & f1 & A & B). split_i EQ i w; [|eauto].
    rewrite H in A. inversion A; subst. congruence.
  - intros w k1 f1 A. split_i EQ i w; [|eauto]. inversion A; subst. congruence.
  - intros w k1 f1 A. split_i EQ i w; [|apply (J6 _ _ _ A)]. inversion A; subst. congruence.
  - intros w k1 pc1 f1 A Q. split_i EQ i w; [|eauto]. inversion A; subst. eapply J7; eassumption.
  - intros w k1 o f1 A. split_i EQ i w; [|eauto]. inversion A; subst. exfalso. eapply M4; reflexivity.
  - exact J9.
  - exact J10.
  - exact J11.
  - intros w Hw. destruct (J12 w Hw) as (k1 & o & f1 & A). split_i EQ i w; [|eauto].
    rewrite H in A. inversion A; subst. exfalso. eapply N4; reflexivity.
  - exact J13.
  - exact J14.
Qed.

(* a not yet subscribed waiter finds the slot Ready (await_ready, or the CAS refused) and reads the result *)
Lemma inv2_w_refused s i k pc f :
  Inv2 s -> W s i = Some (k, pc, f) -> presub pc = true -> slot s = SReady ->
  Inv2 (set_thr s i (TW k (WDone (payload s)) f)).
Proof.
  intros J H P SR. pose proof (W_lt _ _ _ H) as L.
  destruct (presub_not_parked k pc P) as (N1 & N2 & N3 & N4).
  pose proof J as [J1 J2 J3 J4 J5 J6 J7 J8 J9 J10 J11 J12 J13 J14].
  set (s' := set_thr s i (TW k (WDone (payload s)) f)).
  assert (EQ : forall j, W s' j = if Nat.eqb i j then Some (k, WDone (payload s), f) else W s j) by (intros; apply W_set_w; exact L).
  assert (EC : chain s' = chain s) by reflexivity. assert (ER : rel s' = rel s) by reflexivity.
  assert (EK : walk s' = walk s) by reflexivity. assert (EA : acc s' = acc s) by reflexivity.
  assert (EB : sublog s' = sublog s) by reflexivity. assert (EW : wlog s' = wlog s) by reflexivity.
  assert (EL : elog s' = elog s) by reflexivity. assert (ES : slot s' = slot s) by reflexivity.
  assert (EP : payload s' = payload s) by reflexivity.
  clearbody s'.
  constructor; rewrite ?EC, ?ER, ?EK, ?EA, ?EB, ?EW, ?EL, ?ES, ?EP.
  - exact J1.
  - exact J2.
  - intros w Hw. destruct (J3 w Hw) as (k1 & f1 & A & B). split_i EQ i w; [|eauto].
    rewrite H in A. inversion A; subst. congruence.
  - intros w Hw. destruct (J4 w Hw) as (k1 & f1 & A & B). split_i EQ i w; [|eauto].
    rewrite H in A. inversion A; subst. congruence.
  - intros w k1 f1 A. split_i EQ i w; [|eauto]. inversion A.
  - intros w k1 f1 A. split_i EQ i w; [|apply (J6 _ _ _ A)]. inversion A.
  - intros w k1 pc1 f1 A Q. split_i EQ i w; [|eauto]. inversion A; subst. discriminate.
  - intros w k1 o f1 A. split_i EQ i w; [|eauto]. inversion A; subst.
    refine (conj SR (conj eq_refl _)). intros Q. exfalso. eapply J7; eassumption.
  - exact J9.
  - exact J10.
  - exact J11.
  - intros w Hw. destruct (J12 w Hw) as (k1 & o & f1 & A). split_i EQ i w; [|eauto].
    rewrite H in A. inversion A; subst. exfalso. eapply N4; reflexivity.
  - exact J13.
  - exact J14.
Qed.

(* the CAS succeeds: the waiter pushes itself on the chain *)
Lemma inv2_w_subscribe s i k pc f l :
  Inv2 s -> W s i = Some (k, pc, f) -> presub pc = true -> slot s = SChain l ->
  Inv2 (set_thr (mkSt (owner s) (SChain (i :: l)) (payload s) (walk s) (acc s) (thrs s) (winner s)
                      (sublog s ++ [i]) (wlog s) (elog s)) i (TW k (parked_pc k) f)).
Proof.
  intros J H P SL. pose proof (W_lt _ _ _ H) as L.
  destruct (presub_not_parked k pc P) as (N1 & N2 & N3 & N4).
  pose proof J as [J1 J2 J3 J4 J5 J6 J7 J8 J9 J10 J11 J12 J13 J14].
  destruct (J7 _ _ _ _ H P) as (NS & FF). subst f.
  assert (CH : chain s = l) by (unfold chain; rewrite SL; reflexivity).
  assert (KW : walk s = [] /\ acc s = []).
  { destruct (walk s) eqn:EK; destruct (acc s) eqn:EA; auto;
      (assert (Q : slot s = SReady) by (apply J10; (left; congruence) || (right; congruence)); congruence). }
  destruct KW as (KW & KA).
  set (s0 := mkSt (owner s) (SChain (i :: l)) (payload s) (walk s) (acc s) (thrs s) (winner s) (sublog s ++ [i]) (wlog s) (elog s)).
  set (s' := set_thr s0 i (TW k (parked_pc k) false)).
  assert (EQ : forall j, W s' j = if Nat.eqb i j then Some (k, parked_pc k, false) else W s j).
  { intros j. unfold s'. rewrite W_set_w by exact L. reflexivity. }
  assert (EC : chain s' = i :: chain s) by (rewrite CH; reflexivity). assert (ER : rel s' = rel s) by reflexivity.
  assert (EK : walk s' = walk s) by reflexivity. assert (EA : acc s' = acc s) by reflexivity.
  assert (EB : sublog s' = sublog s ++ [i]) by reflexivity. assert (EW : wlog s' = wlog s) by reflexivity.
  assert (EL : elog s' = elog s) by reflexivity. assert (ES : slot s' = SChain (i :: l)) by reflexivity.
  assert (EP : payload s' = payload s) by reflexivity.
  clearbody s'. clear s0.
  assert (NI : ~ In i (chain s ++ walk s ++ acc s ++ rel s)) by (intro Q; apply NS; apply J2; exact Q).
  constructor; rewrite ?EC, ?ER, ?EK, ?EA, ?EB, ?EW, ?EL, ?ES, ?EP.
  - cbn [app]. constructor; assumption.
  - intros w. rewrite in_app_iff. cbn [app In]. rewrite J2. intuition.
  - intros w Hw. cbn [app In] in Hw. split_i EQ i w.
    + exists k, false. split; [reflexivity|]. reflexivity.
    + destruct Hw as [Hw|Hw]; [congruence|]. apply J3. exact Hw.
  - intros w Hw. rewrite KA in Hw. destruct Hw.
  - intros w k1 f1 A. cbn [app In]. split_i EQ i w; [left; reflexivity|]. right. eauto.
  - intros w k1 f1 A. split_i EQ i w.
    + inversion A; subst. cbn [app In]. left. reflexivity.
    + pose proof (J6 _ _ _ A) as Q. destruct f1; [exact Q|]. cbn [app In]. right. exact Q.
  - intros w k1 pc1 f1 A Q. split_i EQ i w.
    + inversion A; subst. exfalso. unfold parked_pc in Q. destruct (parks k1); discriminate.
    + destruct (J7 _ _ _ _ A Q) as (B & C). split; [|exact C]. rewrite in_app_iff. cbn [In]. intuition.
  - intros w k1 o f1 A. split_i EQ i w.
    + inversion A. unfold parked_pc in *. destruct (parks k); discriminate.
    + destruct (J8 _ _ _ _ A) as (B & _). congruence.
  - intros w o Hw. destruct (J9 _ _ Hw) as (B & _). congruence.
  - intros [Q|Q]; congruence.
  - exact J11.
  - intros w Hw. destruct (J12 w Hw) as (k1 & o & f1 & A). destruct (J8 _ _ _ _ A) as (B & _). congruence.
  - intros b Q. destruct (J13 b Q) as (_ & B). congruence.
  - exact J14.
Qed.

(* the blocked thread sees the flag, returns from sync() (its stack sync_awaiter dies) and reads the result *)
Lemma inv2_w_flag s i k :
  Inv2 s -> W s i = Some (k, WFlag, true) ->
  Inv2 (set_thr (mkSt (owner s) (slot s) (payload s) (walk s) (acc s) (thrs s) (winner s) (sublog s) (wlog s)
                      (elog s ++ [EFree i])) i (TW k (WDone (payload s)) true)).
Proof.
  intros J H. pose proof (W_lt _ _ _ H) as L.
  pose proof J as [J1 J2 J3 J4 J5 J6 J7 J8 J9 J10 J11 J12 J13 J14].
  destruct (J6 _ _ _ H) as (IR & NF).
  assert (SR : slot s = SReady).
  { apply in_rel in IR. destruct IR as (o & IR). apply (J9 _ _ IR). }
  set (s0 := mkSt (owner s) (slot s) (payload s) (walk s) (acc s) (thrs s) (winner s) (sublog s) (wlog s) (elog s ++ [EFree i])).
  set (s' := set_thr s0 i (TW k (WDone (payload s)) true)).
  assert (EQ : forall j, W s' j = if Nat.eqb i j then Some (k, WDone (payload s), true) else W s j).
  { intros j. unfold s'. rewrite W_set_w by exact L. reflexivity. }
  assert (EC : chain s' = chain s) by reflexivity. assert (ER : rel s' = rel s) by reflexivity.
  assert (EK : walk s' = walk s) by reflexivity. assert (EA : acc s' = acc s) by reflexivity.
  assert (EB : sublog s' = sublog s) by reflexivity. assert (EW : wlog s' = wlog s) by reflexivity.
  assert (EL : elog s' = elog s ++ [EFree i]) by reflexivity. assert (ES : slot s' = slot s) by reflexivity.
  assert (EP : payload s' = payload s) by reflexivity.
  clearbody s'. clear s0.
  assert (NP : ~ In i (chain s ++ walk s ++ acc s)) by (apply (nodup4 _ _ _ _ i J1); exact IR).
  constructor; rewrite ?EC, ?ER, ?EK, ?EA, ?EB, ?EW, ?EL, ?ES, ?EP.
  - exact J1.
  - exact J2.
  - intros w Hw. split_i EQ i w; [|auto]. exfalso. apply NP. rewrite app_assoc. apply in_or_app. auto.
  - intros w Hw. split_i EQ i w; [|auto]. exfalso. apply NP. apply in_or_app. right. apply in_or_app. auto.
  - intros w k1 f1 A. split_i EQ i w; [inversion A|eauto].
  - intros w k1 f1 A. split_i EQ i w; [inversion A|].
    pose proof (J6 _ _ _ A) as Q. destruct f1; [|exact Q]. destruct Q as (Q1 & Q2). split; [exact Q1|].
    rewrite in_app_iff. cbn [In]. intros [Q|[Q|[]]]; [auto|congruence].
  - intros w k1 pc1 f1 A Q. split_i EQ i w; [inversion A; subst; discriminate|eauto].
  - intros w k1 o f1 A. split_i EQ i w; [|eauto]. inversion A; subst. auto.
  - exact J9.
  - exact J10.
  - intros w. rewrite in_app_iff. cbn [In]. rewrite <- J11. intuition discriminate.
  - intros w. rewrite in_app_iff. cbn [In]. intros [Q|[Q|[]]].
    + destruct (J12 w Q) as (k1 & o & f1 & A). split_i EQ i w; [|eauto]. eauto.
    + inversion Q; subst. rewrite EQ, Nat.eqb_refl. eauto.
  - intros b. rewrite in_app_iff. cbn [In]. intros [Q|[Q|[]]]; [auto|discriminate].
  - apply wf_snoc; [exact J14|]. cbn [ok_after]. split; [|exact NF]. apply J11. apply in_or_app. auto.
Qed.

(* ---------- resolver steps ---------- *)
(* claim: owner/winner/payload change while the future is not ready: nobody has read or been released yet *)
Lemma inv2_claim s o' p' wn' :
  Inv2 s -> slot s <> SReady ->
  Inv2 (mkSt o' (slot s) p' (walk s) (acc s) (thrs s) wn' (sublog s) (wlog s) (elog s)).
Proof.
  intros [J1 J2 J3 J4 J5 J6 J7 J8 J9 J10 J11 J12 J13 J14] NR.
  constructor; unfold chain, rel, W, T in *; cbn [slot walk acc thrs sublog wlog elog payload] in *; auto.
  - intros w k o f A. exfalso. apply NR. eapply J8. exact A.
  - intros w o A. exfalso. apply NR. eapply J9. exact A.
Qed.

(* resolve: the exchange detaches the whole chain into the walker's private list *)
Lemma inv2_exchange s :
  Inv2 s -> walk s = [] ->
  Inv2 (mkSt (owner s) SReady (payload s) (chain s) (acc s) (thrs s) (winner s) (sublog s) (wlog s) (elog s)).
Proof.
  intros [J1 J2 J3 J4 J5 J6 J7 J8 J9 J10 J11 J12 J13 J14] KW.
  rewrite KW in *.
  assert (AP : forall l : list nat, l ++ [] = l) by (intros; apply app_nil_r).
  constructor; unfold rel, W, T in *; cbn [chain slot walk acc thrs sublog wlog elog payload app] in *; rewrite ?AP in *; auto.
  - intros w k o f A. destruct (J8 _ _ _ _ A) as (B & C & D). auto.
  - intros w o A. destruct (J9 _ _ A) as (B & C). auto.
  - intros b A. destruct (J13 _ A) as (B & C). auto.
Qed.

Lemma wf_walk l w : wf_log l -> ~ In (EResume w) l -> ~ In (EFree w) l -> wf_log (l ++ [ENext w; EClear w; EResume w]).
Proof.
  intros WF NR NF.
  change (l ++ [ENext w; EClear w; EResume w]) with (l ++ [ENext w] ++ [EClear w] ++ [EResume w]).
  rewrite !app_assoc. repeat apply wf_snoc; try exact WF; cbn [ok_after]; rewrite ?in_app_iff; cbn [In];
    split; intuition discriminate.
Qed.

Ltac inn := rewrite ?in_app_iff in *; cbn [In] in *.

(* walk step, coroutine node: the handle goes into the suspend point, nothing runs yet *)
Lemma inv2_release_coro s w t k f :
  Inv2 s -> walk s = w :: t -> W s w = Some (k, WParked, f) -> is_coro k = true ->
  Inv2 (mkSt (owner s) (slot s) (payload s) t (acc s ++ [w]) (thrs s) (winner s) (sublog s) (wlog s)
             (elog s ++ [ENext w; EClear w; EResume w])).
Proof.
  intros J KW HW IC. pose proof J as [J1 J2 J3 J4 J5 J6 J7 J8 J9 J10 J11 J12 J13 J14].
  rewrite KW in *.
  assert (SR : slot s = SReady) by (apply J10; left; discriminate).
  assert (NRes : ~ In (EResume w) (elog s)).
  { intros Q. apply J11 in Q. destruct (nodup4 _ _ _ _ w J1) as (A & B & C). inn.
    destruct Q as [Q|Q]; [apply (B Q)|apply (A Q)]; inn; auto. }
  assert (NFree : ~ In (EFree w) (elog s)).
  { intros Q. destruct (J12 _ Q) as (k1 & o & f1 & A). congruence. }
  set (s' := mkSt _ _ _ _ _ _ _ _ _ _).
  assert (EQ : forall j, W s' j = W s j) by reflexivity.
  assert (EC : chain s' = chain s) by reflexivity. assert (ER : rel s' = rel s) by reflexivity.
  assert (EK : walk s' = t) by reflexivity. assert (EA : acc s' = acc s ++ [w]) by reflexivity.
  assert (EB : sublog s' = sublog s) by reflexivity. assert (EW : wlog s' = wlog s) by reflexivity.
  assert (EL : elog s' = elog s ++ [ENext w; EClear w; EResume w]) by reflexivity. assert (ES : slot s' = slot s) by reflexivity.
  assert (EP : payload s' = payload s) by reflexivity.
  clearbody s'.
  pose proof (perm_move (chain s) t (acc s) (rel s) w) as PM.
  constructor; rewrite ?EC, ?ER, ?EK, ?EA, ?EB, ?EW, ?EL, ?ES, ?EP.
  - eapply Permutation_NoDup; [exact PM|exact J1].
  - intros x. rewrite J2. split; intros Q; [eapply Permutation_in; [exact PM|exact Q]|
      eapply Permutation_in; [apply Permutation_sym; exact PM|exact Q]].
  - intros x Hx. rewrite EQ. apply J3. inn. tauto.
  - intros x Hx. rewrite EQ. inn. destruct Hx as [Hx|[<-|[]]]; [auto|eauto].
  - intros x k1 f1 A. rewrite EQ in A. apply J5 in A. inn. tauto.
  - intros x k1 f1 A. rewrite EQ in A. pose proof (J6 _ _ _ A) as Q. destruct f1.
    + destruct Q as (Q1 & Q2). split; [exact Q1|]. inn. intuition discriminate.
    + inn. destruct Q as [Q|[<-|Q]]; auto. congruence.
  - intros x k1 pc1 f1 A. rewrite EQ in A. eauto.
  - intros x k1 o f1 A. rewrite EQ in A. eauto.
  - exact J9.
  - intros _. exact SR.
  - intros x. inn. rewrite J11. inn. split; intros Q.
    + destruct Q as [[Q|Q]|[Q|[Q|[Q|[]]]]]; try discriminate; auto. inversion Q; auto.
    + destruct Q as [[Q|[<-|[]]]|Q]; auto 8.
  - intros x Q. rewrite EQ. apply J12. inn. intuition discriminate.
  - intros b Q. apply J13. inn. intuition discriminate.
  - apply wf_walk; assumption.
Qed.

Lemma walk_head_fresh (a t c d : list nat) w : NoDup (a ++ (w :: t) ++ c ++ d) -> ~ In w (a ++ t ++ c ++ d).
Proof.
  intros N. cbn [app] in N.
  assert (P : Permutation (w :: a ++ t ++ c ++ d) (a ++ w :: t ++ c ++ d)) by apply Permutation_middle.
  apply Permutation_sym in P. apply (Permutation_NoDup P) in N. inversion N; assumption.
Qed.

(* walk step, callback node: the callback runs now, reads the result and frees its context *)
Lemma inv2_release_cb s w t k f :
  Inv2 s -> walk s = w :: t -> W s w = Some (k, WParked, f) -> (w < length (thrs s))%nat ->
  Inv2 (mkSt (owner s) (slot s) (payload s) t (acc s) (set_nth (thrs s) w (TW k (WDone (payload s)) f)) (winner s)
             (sublog s) (wlog s ++ [(w, payload s)]) ((elog s ++ [ENext w; EClear w; EResume w]) ++ [EFree w])).
Proof.
  intros J KW HW L. pose proof J as [J1 J2 J3 J4 J5 J6 J7 J8 J9 J10 J11 J12 J13 J14].
  rewrite KW in *.
  assert (SR : slot s = SReady) by (apply J10; left; discriminate).
  pose proof (walk_head_fresh _ _ _ _ _ J1) as NW.
  assert (NRes : ~ In (EResume w) (elog s)).
  { intros Q. apply J11 in Q. apply NW. inn. tauto. }
  assert (NFree : ~ In (EFree w) (elog s)).
  { intros Q. destruct (J12 _ Q) as (k1 & o & f1 & A). congruence. }
  set (s' := mkSt _ _ _ _ _ _ _ _ _ _).
  assert (EQ : forall j, W s' j = if Nat.eqb w j then Some (k, WDone (payload s), f) else W s j).
  { intros j. unfold s', W, T. cbn [thrs]. destruct (Nat.eqb_spec w j) as [<-|N].
    - rewrite nth_error_set_nth_same by exact L. reflexivity.
    - rewrite nth_error_set_nth_other by exact N. reflexivity. }
  assert (EC : chain s' = chain s) by reflexivity.
  assert (ER : rel s' = rel s ++ [w]) by (unfold rel, s'; cbn [wlog]; rewrite map_app; reflexivity).
  assert (EK : walk s' = t) by reflexivity. assert (EA : acc s' = acc s) by reflexivity.
  assert (EB : sublog s' = sublog s) by reflexivity. assert (EW : wlog s' = wlog s ++ [(w, payload s)]) by reflexivity.
  assert (EL : elog s' = (elog s ++ [ENext w; EClear w; EResume w]) ++ [EFree w]) by reflexivity.
  assert (ES : slot s' = slot s) by reflexivity.
  assert (EP : payload s' = payload s) by reflexivity.
  clearbody s'.
  pose proof (perm_move2 (chain s) t (acc s) (rel s) w) as PM.
  constructor; rewrite ?EC, ?ER, ?EK, ?EA, ?EB, ?EW, ?EL, ?ES, ?EP.
  - eapply Permutation_NoDup; [exact PM|exact J1].
  - intros x. rewrite J2. split; intros Q; [eapply Permutation_in; [exact PM|exact Q]|
      eapply Permutation_in; [apply Permutation_sym; exact PM|exact Q]].
  - intros x Hx. split_i EQ w x; [exfalso; apply NW; inn; tauto|]. apply J3. inn. tauto.
  - intros x Hx. split_i EQ w x; [exfalso; apply NW; inn; tauto|]. apply J4. exact Hx.
  - intros x k1 f1 A. split_i EQ w x; [inversion A|]. apply J5 in A. inn. intuition congruence.
  - intros x k1 f1 A. split_i EQ w x; [inversion A|]. pose proof (J6 _ _ _ A) as Q. destruct f1.
    + destruct Q as (Q1 & Q2). inn. split; [tauto|]. intros [[Q|[Q|[Q|[Q|[]]]]]|[Q|[]]]; try discriminate; auto. congruence.
    + inn. intuition congruence.
  - intros x k1 pc1 f1 A Q. split_i EQ w x; [inversion A; subst; discriminate|eauto].
  - intros x k1 o f1 A. split_i EQ w x.
    + inversion A; subst. refine (conj SR (conj eq_refl _)). intros _. inn. auto.
    + destruct (J8 _ _ _ _ A) as (B & C & D). refine (conj B (conj C _)). intros Q. inn. auto.
  - intros x o Q. inn. destruct Q as [Q|[Q|[]]]; [eauto|]. inversion Q; subst. auto.
  - intros _. exact SR.
  - intros x. inn. rewrite J11. inn. split; intros Q.
    + destruct Q as [[[Q|Q]|[Q|[Q|[Q|[]]]]]|[Q|[]]]; try discriminate; auto. inversion Q; auto.
    + destruct Q as [Q|[Q|[<-|[]]]]; auto 8.
  - intros x Q. inn. destruct Q as [[Q|[Q|[Q|[Q|[]]]]]|[Q|[]]]; try discriminate.
    + destruct (J12 _ Q) as (k1 & o & f1 & A). split_i EQ w x; eauto.
    + inversion Q; subst. rewrite EQ, Nat.eqb_refl. eauto.
  - intros b Q. apply J13. inn. intuition discriminate.
  - apply wf_snoc; [apply wf_walk; assumption|]. cbn [ok_after]. inn. split; [auto 8|]. intuition discriminate.
Qed.

(* walk step, sync_awaiter node: wakeup() sets the flag; the blocked thread will go on by itself *)
Lemma inv2_release_sync s w t k :
  Inv2 s -> walk s = w :: t -> W s w = Some (k, WFlag, false) -> (w < length (thrs s))%nat ->
  Inv2 (mkSt (owner s) (slot s) (payload s) t (acc s) (set_nth (thrs s) w (TW k WFlag true)) (winner s)
             (sublog s) (wlog s ++ [(w, payload s)]) (elog s ++ [ENext w; EClear w; EResume w])).
Proof.
  intros J KW HW L. pose proof J as [J1 J2 J3 J4 J5 J6 J7 J8 J9 J10 J11 J12 J13 J14].
  rewrite KW in *.
  assert (SR : slot s = SReady) by (apply J10; left; discriminate).
  pose proof (walk_head_fresh _ _ _ _ _ J1) as NW.
  assert (NRes : ~ In (EResume w) (elog s)).
  { intros Q. apply J11 in Q. apply NW. inn. tauto. }
  assert (NFree : ~ In (EFree w) (elog s)).
  { intros Q. destruct (J12 _ Q) as (k1 & o & f1 & A). congruence. }
  set (s' := mkSt _ _ _ _ _ _ _ _ _ _).
  assert (EQ : forall j, W s' j = if Nat.eqb w j then Some (k, WFlag, true) else W s j).
  { intros j. unfold s', W, T. cbn [thrs]. destruct (Nat.eqb_spec w j) as [<-|N].
    - rewrite nth_error_set_nth_same by exact L. reflexivity.
    - rewrite nth_error_set_nth_other by exact N. reflexivity. }
  assert (EC : chain s' = chain s) by reflexivity.
  assert (ER : rel s' = rel s ++ [w]) by (unfold rel, s'; cbn [wlog]; rewrite map_app; reflexivity).
  assert (EK : walk s' = t) by reflexivity. assert (EA : acc s' = acc s) by reflexivity.
  assert (EB : sublog s' = sublog s) by reflexivity. assert (EW : wlog s' = wlog s ++ [(w, payload s)]) by reflexivity.
  assert (EL : elog s' = elog s ++ [ENext w; EClear w; EResume w]) by reflexivity.
  assert (ES : slot s' = slot s) by reflexivity.
  assert (EP : payload s' = payload s) by reflexivity.
  clearbody s'.
  pose proof (perm_move2 (chain s) t (acc s) (rel s) w) as PM.
  constructor; rewrite ?EC, ?ER, ?EK, ?EA, ?EB, ?EW, ?EL, ?ES, ?EP.
  - eapply Permutation_NoDup; [exact PM|exact J1].
  - intros x. rewrite J2. split; intros Q; [eapply Permutation_in; [exact PM|exact Q]|
      eapply Permutation_in; [apply Permutation_sym; exact PM|exact Q]].
  - intros x Hx. split_i EQ w x; [exfalso; apply NW; inn; tauto|]. apply J3. inn. tauto.
  - intros x Hx. split_i EQ w x; [exfalso; apply NW; inn; tauto|]. apply J4. exact Hx.
  - intros x k1 f1 A. split_i EQ w x; [inversion A|]. apply J5 in A. inn. intuition congruence.
  - intros x k1 f1 A. split_i EQ w x.
    + inversion A; subst. inn. split; [auto|]. intuition discriminate.
    + pose proof (J6 _ _ _ A) as Q. destruct f1.
      * destruct Q as (Q1 & Q2). inn. split; [tauto|]. intuition discriminate.
      * inn. intuition congruence.
  - intros x k1 pc1 f1 A Q. split_i EQ w x; [inversion A; subst; discriminate|eauto].
  - intros x k1 o f1 A. split_i EQ w x; [inversion A|].
    destruct (J8 _ _ _ _ A) as (B & C & D). refine (conj B (conj C _)). intros Q. inn. auto.
  - intros x o Q. inn. destruct Q as [Q|[Q|[]]]; [eauto|]. inversion Q; subst. auto.
  - intros _. exact SR.
  - intros x. inn. rewrite J11. inn. split; intros Q.
    + destruct Q as [[Q|Q]|[Q|[Q|[Q|[]]]]]; try discriminate; auto. inversion Q; auto.
    + destruct Q as [Q|[Q|[<-|[]]]]; auto 8.
  - intros x Q. inn. destruct Q as [Q|[Q|[Q|[Q|[]]]]]; try discriminate.
    destruct (J12 _ Q) as (k1 & o & f1 & A). split_i EQ w x; [congruence|eauto].
  - intros b Q. apply J13. inn. intuition discriminate.
  - apply wf_walk; assumption.
Qed.

(* one walk step = release of the head of the detached list *)
Lemma inv2_release s w t :
  Inv2 s -> walk s = w :: t ->
  Inv2 (release_node (mkSt (owner s) (slot s) (payload s) t (acc s) (thrs s) (winner s) (sublog s) (wlog s) (elog s)) w).
Proof.
  intros J KW. pose proof (j_node s J w) as N.
  destruct N as (k & f & HW & FF); [rewrite KW; apply in_or_app; right; left; reflexivity|].
  pose proof (W_lt _ _ _ HW) as L.
  pose proof HW as HT. apply W_T in HT. unfold T in HT.
  unfold release_node. cbn [thrs owner slot payload walk acc winner sublog wlog elog].
  rewrite HT. unfold parked_pc in *.
  destruct k; cbn [parks] in *.
  - eapply inv2_release_coro; eauto.
  - rewrite (FF eq_refl) in *. eapply inv2_release_sync; eauto.
  - eapply inv2_release_cb; eauto.
  - rewrite (FF eq_refl) in *. eapply inv2_release_sync; eauto.
  - eapply inv2_release_coro; eauto.
Qed.

(* ---------- finish: the collected coroutines run ---------- *)
Definition set_acc (s : st) (a : list nat) : st :=
  mkSt (owner s) (slot s) (payload s) (walk s) a (thrs s) (winner s) (sublog s) (wlog s) (elog s).

Lemma resume_all_set_acc l : forall s a, resume_all (set_acc s a) l = set_acc (resume_all s l) a.
Proof.
  induction l as [|c l IH]; intros s a; cbn [resume_all]; [reflexivity|].
  cbn [set_acc thrs]. destruct (nth_error (thrs s) c) as [[k pc|k pc f]|]; try apply IH.
  cbn [owner slot payload walk acc winner sublog wlog elog].
  exact (IH (mkSt (owner s) (slot s) (payload s) (walk s) (acc s) (set_nth (thrs s) c (TW k (WDone (payload s)) f))
                  (winner s) (sublog s) (wlog s ++ [(c, payload s)]) (elog s ++ [EFree c])) a).
Qed.

Lemma perm_move3 (a b t d : list nat) c : Permutation (a ++ b ++ (c :: t) ++ d) (a ++ b ++ t ++ (d ++ [c])).
Proof.
  do 2 apply Permutation_app_head. cbn [app].
  replace (t ++ d ++ [c]) with ((t ++ d) ++ [c]) by (rewrite <- !app_assoc; reflexivity).
  apply Permutation_cons_append.
Qed.

Lemma acc_head_fresh (a b t d : list nat) c : NoDup (a ++ b ++ (c :: t) ++ d) -> ~ In c (a ++ b ++ t ++ d).
Proof.
  intros N. rewrite app_assoc in N. pose proof (walk_head_fresh (a ++ b) t [] d c N) as M.
  intro Q. apply M. inn. tauto.
Qed.

Lemma inv2_resume_one s c t k f :
  Inv2 s -> acc s = c :: t -> W s c = Some (k, WParked, f) -> (c < length (thrs s))%nat ->
  Inv2 (mkSt (owner s) (slot s) (payload s) (walk s) t (set_nth (thrs s) c (TW k (WDone (payload s)) f)) (winner s)
             (sublog s) (wlog s ++ [(c, payload s)]) (elog s ++ [EFree c])).
Proof.
  intros J KA HW L. pose proof J as [J1 J2 J3 J4 J5 J6 J7 J8 J9 J10 J11 J12 J13 J14].
  rewrite KA in *.
  assert (SR : slot s = SReady) by (apply J10; right; discriminate).
  pose proof (acc_head_fresh _ _ _ _ _ J1) as NW.
  assert (IRes : In (EResume c) (elog s)) by (apply J11; left; reflexivity).
  assert (NFree : ~ In (EFree c) (elog s)).
  { intros Q. destruct (J12 _ Q) as (k1 & o & f1 & A). congruence. }
  set (s' := mkSt _ _ _ _ _ _ _ _ _ _).
  assert (EQ : forall j, W s' j = if Nat.eqb c j then Some (k, WDone (payload s), f) else W s j).
  { intros j. unfold s', W, T. cbn [thrs]. destruct (Nat.eqb_spec c j) as [<-|N].
    - rewrite nth_error_set_nth_same by exact L. reflexivity.
    - rewrite nth_error_set_nth_other by exact N. reflexivity. }
  assert (EC : chain s' = chain s) by reflexivity.
  assert (ER : rel s' = rel s ++ [c]) by (unfold rel, s'; cbn [wlog]; rewrite map_app; reflexivity).
  assert (EK : walk s' = walk s) by reflexivity. assert (EA : acc s' = t) by reflexivity.
  assert (EB : sublog s' = sublog s) by reflexivity. assert (EW : wlog s' = wlog s ++ [(c, payload s)]) by reflexivity.
  assert (EL : elog s' = elog s ++ [EFree c]) by reflexivity.
  assert (ES : slot s' = slot s) by reflexivity.
  assert (EP : payload s' = payload s) by reflexivity.
  clearbody s'.
  pose proof (perm_move3 (chain s) (walk s) t (rel s) c) as PM.
  constructor; rewrite ?EC, ?ER, ?EK, ?EA, ?EB, ?EW, ?EL, ?ES, ?EP.
  - eapply Permutation_NoDup; [exact PM|exact J1].
  - intros x. rewrite J2. split; intros Q; [eapply Permutation_in; [exact PM|exact Q]|
      eapply Permutation_in; [apply Permutation_sym; exact PM|exact Q]].
  - intros x Hx. split_i EQ c x; [exfalso; apply NW; inn; tauto|]. apply J3. exact Hx.
  - intros x Hx. split_i EQ c x; [exfalso; apply NW; inn; tauto|]. apply J4. right. exact Hx.
  - intros x k1 f1 A. split_i EQ c x; [inversion A|]. apply J5 in A. inn. intuition congruence.
  - intros x k1 f1 A. split_i EQ c x; [inversion A|]. pose proof (J6 _ _ _ A) as Q. destruct f1.
    + destruct Q as (Q1 & Q2). inn. split; [tauto|]. intros [Q|[Q|[]]]; [auto|congruence].
    + exact Q.
  - intros x k1 pc1 f1 A Q. split_i EQ c x; [inversion A; subst; discriminate|eauto].
  - intros x k1 o f1 A. split_i EQ c x.
    + inversion A; subst. refine (conj SR (conj eq_refl _)). intros _. inn. auto.
    + destruct (J8 _ _ _ _ A) as (B & C & D). refine (conj B (conj C _)). intros Q. inn. auto.
  - intros x o Q. inn. destruct Q as [Q|[Q|[]]]; [eauto|]. inversion Q; subst. auto.
  - intros _. exact SR.
  - intros x. inn. rewrite J11. inn. intuition (try discriminate; subst; auto 8).
  - intros x Q. inn. destruct Q as [Q|[Q|[]]].
    + destruct (J12 _ Q) as (k1 & o & f1 & A). split_i EQ c x; eauto.
    + inversion Q; subst. rewrite EQ, Nat.eqb_refl. eauto.
  - intros b Q. apply J13. inn. intuition discriminate.
  - apply wf_snoc; [assumption|]. cbn [ok_after]. auto.
Qed.

Lemma inv2_resume_all l : forall s, Inv2 (set_acc s l) -> Inv2 (set_acc (resume_all s l) []).
Proof.
  induction l as [|c t IH]; intros s J; cbn [resume_all]; [exact J|].
  destruct (j_acc _ J c) as (k & f & HW & _); [left; reflexivity|].
  pose proof (W_lt _ _ _ HW) as L. pose proof HW as HT. apply W_T in HT. unfold T in HT.
  cbn [set_acc thrs] in HT, L. rewrite HT.
  apply IH.
  exact (inv2_resume_one (set_acc s (c :: t)) c t k f J eq_refl HW L).
Qed.

Lemma inv2_perm_acc s a : Inv2 s -> Permutation a (acc s) -> Inv2 (set_acc s a).
Proof.
  intros [J1 J2 J3 J4 J5 J6 J7 J8 J9 J10 J11 J12 J13 J14] P.
  assert (PM : Permutation (chain s ++ walk s ++ acc s ++ rel s) (chain s ++ walk s ++ a ++ rel s)).
  { do 2 apply Permutation_app_head. apply Permutation_app_tail. apply Permutation_sym. exact P. }
  assert (IA : forall x, In x a <-> In x (acc s)).
  { intros x. split; intros Q; [eapply Permutation_in; [exact P|exact Q]|
      eapply Permutation_in; [apply Permutation_sym; exact P|exact Q]]. }
  constructor; unfold rel, W, T in *; cbn [set_acc chain slot walk acc thrs sublog wlog elog payload] in *; auto.
  - eapply Permutation_NoDup; [exact PM|exact J1].
  - intros x. rewrite J2. split; intros Q; [eapply Permutation_in; [exact PM|exact Q]|
      eapply Permutation_in; [apply Permutation_sym; exact PM|exact Q]].
  - intros x Q. apply J4. apply IA. exact Q.
  - intros x k f A. apply J5 in A. inn. rewrite IA. exact A.
  - intros [Q|Q]; [auto|]. apply J10. right. intro Z. apply Q. rewrite Z in P. apply Permutation_nil. apply Permutation_sym. exact P.
  - intros x. rewrite J11. inn. rewrite IA. tauto.
Qed.

Lemma rot_last_perm l : Permutation (rot_last l) l.
Proof.
  unfold rot_last. destruct (rev l) as [|x r] eqn:E; [|].
  - apply (f_equal (@rev nat)) in E. rewrite rev_involutive in E. subst. constructor.
  - apply (f_equal (@rev nat)) in E. rewrite rev_involutive in E. subst. cbn [rev].
    apply Permutation_cons_append.
Qed.

Lemma inv2_finish s i k k0 pc0 :
  Inv2 s -> slot s = SReady -> T s i = Some (TR k0 pc0) -> Inv2 (finish s i k).
Proof.
  intros J SR HT. unfold finish.
  set (s0 := if is_async k then _ else s).
  assert (J0 : Inv2 s0 /\ acc s0 = acc s /\ same_TR s s0).
  { subst s0. destruct (is_async k); [|split; [exact J|split; [reflexivity|apply same_TR_refl]]].
    split; [|split; [reflexivity|apply same_TR_fields; reflexivity]].
    destruct J as [J1 J2 J3 J4 J5 J6 J7 J8 J9 J10 J11 J12 J13 J14].
    constructor; unfold rel, W, T in *; cbn [chain slot walk acc thrs sublog wlog elog payload] in *; auto.
    - intros w k1 f1 A. pose proof (J6 _ _ _ A) as Q. destruct f1; [|exact Q]. destruct Q as (Q1 & Q2).
      split; [exact Q1|]. inn. intuition discriminate.
    - intros w. rewrite <- J11. rewrite in_app_iff. cbn [In]. intuition discriminate.
    - intros w Q. apply J12. inn. intuition discriminate.
    - intros b Q. inn. destruct Q as [Q|[Q|[]]]; [auto|]. inversion Q. unfold slot_ready. rewrite SR. auto.
    - apply wf_snoc; [exact J14|exact Logic.I]. }
  destruct J0 as (J0 & A0 & TR0).
  set (l := if pops k then rot_last (acc s) else acc s).
  assert (PL : Permutation l (acc s0)).
  { rewrite A0. subst l. destruct (pops k); [apply rot_last_perm|apply Permutation_refl]. }
  pose proof (inv2_perm_acc s0 l J0 PL) as J1.
  assert (E0 : set_acc s0 l = set_acc (set_acc s0 l) l) by reflexivity.
  pose proof (inv2_resume_all l (set_acc s0 l) J1) as J2.
  rewrite resume_all_set_acc in J2.
  eapply (inv2_set_tr _ i k (RDone true) k0 pc0); [exact J2|].
  pose proof (resume_all_frame l s0) as F. cbn zeta in F.
  destruct F as (_ & _ & _ & _ & _ & _ & _ & F8 & _).
  unfold T. cbn [set_acc thrs]. apply F8. apply TR0. exact HT.
Qed.

(* ---------- Inv2 is preserved by every step ---------- *)
Lemma inv2_step s i : Inv1 s -> Inv2 s -> enabled s i = true -> Inv2 (fst (tstep s i)).
Proof.
  intros I J E. destruct (enabled_T s i E) as (t & Ht). unfold tstep. fold (T s i). rewrite Ht.
  pose proof I as [I1 I2 I3 I4 I5 I6 I7].
  destruct t as [k pc|k pc f].
  - destruct pc as [| |[b|]| | |r].
    + (* claim *)
      destruct (owner s) eqn:O; cbn [fst].
      * assert (NR : slot s <> SReady) by (apply I4; apply I1; reflexivity).
        eapply (inv2_set_tr _ i _ _ k RClaim); [apply inv2_claim; assumption|exact Ht].
      * eapply inv2_set_tr; eassumption.
    + cbn [fst]. eapply inv2_set_tr; eassumption.
    + cbn [fst]. eapply inv2_set_tr; eassumption.
    + destruct (owner s) eqn:O; cbn [fst].
      * assert (NR : slot s <> SReady) by (apply I4; apply I1; reflexivity).
        eapply (inv2_set_tr _ i _ _ k (RDtor None)); [apply inv2_claim; assumption|exact Ht].
      * eapply inv2_set_tr; eassumption.
    + (* resolve *)
      assert (WI : winner s = Some i) by (eapply I2; [exact Ht|reflexivity]).
      destruct (I7 i k RResolve WI Ht ltac:(discriminate)) as (KW & KA).
      pose proof (inv2_exchange s J KW) as J1.
      change (match slot s with SChain l => l | SReady => [] end) with (chain s).
      cbn [fst]. destruct (chain s) as [|w0 l0] eqn:EC.
      * eapply inv2_finish; [exact J1|reflexivity|exact Ht].
      * eapply (inv2_set_tr _ i _ _ k RResolve); [exact J1|exact Ht].
    + (* walk *)
      assert (WI : winner s = Some i) by (eapply I2; [exact Ht|reflexivity]).
      assert (SR : slot s = SReady) by (apply I6; exists i, k, RWalk; auto).
      destruct (walk s) as [|w t] eqn:EW; cbn [fst].
      * eapply inv2_finish; eassumption.
      * pose proof (inv2_release s w t J EW) as J1.
        set (s0 := mkSt (owner s) (slot s) (payload s) t (acc s) (thrs s) (winner s) (sublog s) (wlog s) (elog s)) in *.
        pose proof (release_node_frame s0 w) as R. cbn zeta in R.
        destruct R as (R1 & R2 & R3 & R4 & R5 & R6 & R7 & R8).
        destruct t as [|w2 t2]; [|exact J1].
        eapply inv2_finish; [exact J1|rewrite R4; exact SR|].
        apply R7. exact Ht.
    + unfold enabled in E. fold (T s i) in E. rewrite Ht in E. discriminate.
  - pose proof Ht as HW. apply W_T in HW.
    destruct pc as [| |r e| | |o|]; cbn [fst].
    7:{ eapply inv2_w_presub; [exact J|exact HW|reflexivity|destruct k; reflexivity]. }
    + destruct (slot s) eqn:SL.
      * eapply inv2_w_presub; [exact J|exact HW|reflexivity|reflexivity].
      * eapply inv2_w_refused; [exact J|exact HW|reflexivity|exact SL].
    + destruct (slot s) eqn:SL.
      * eapply inv2_w_presub; [exact J|exact HW|reflexivity|reflexivity].
      * eapply inv2_w_refused; [exact J|exact HW|reflexivity|exact SL].
    + destruct (slot s) as [l|] eqn:SL.
      * destruct (onat_eqb (head l) e).
        -- replace (match k with WCoro | WCallback | WCoroHas => WParked | _ => WFlag end) with (parked_pc k)
             by (destruct k; reflexivity).
           eapply inv2_w_subscribe; [exact J|exact HW|reflexivity|exact SL].
        -- eapply inv2_w_presub; [exact J|exact HW|reflexivity|reflexivity].
      * eapply inv2_w_refused; [exact J|exact HW|reflexivity|exact SL].
    + unfold enabled in E. fold (T s i) in E. rewrite Ht in E. discriminate.
    + unfold enabled in E. fold (T s i) in E. rewrite Ht in E. subst f.
      eapply inv2_w_flag; [exact J|exact HW].
    + unfold enabled in E. fold (T s i) in E. rewrite Ht in E. discriminate.
Qed.

Theorem inv2_reachable ops s : reachable ops s -> Inv2 s.
Proof.
  induction 1 as [|s i R IH E]; [apply inv2_init|].
  apply inv2_step; [eapply inv1_reachable; eassumption|exact IH|exact E].
Qed.

(* ================= C02 theorems ================= *)
Arguments count_occ : simpl never.

Lemma nodup_count (l : list nat) x : NoDup l -> (count_occ Nat.eq_dec l x <= 1)%nat.
Proof. intros N. apply (proj1 (NoDup_count_occ Nat.eq_dec l) N). Qed.

(* at most once: a waiter id occurs at most once in slot ∪ walk list ∪ suspend point ∪ released *)
Theorem at_most_once ops s :
  reachable ops s ->
  NoDup (chain s ++ walk s ++ acc s ++ rel s) /\
  forall w, (count_occ Nat.eq_dec (rel s) w <= 1)%nat /\
            (In w (rel s) -> ~ In w (chain s ++ walk s ++ acc s)).
Proof.
  intros R. pose proof (inv2_reachable _ _ R) as J. split; [apply J|].
  intros w. split.
  - apply nodup_count. pose proof (j_nodup s J) as N. rewrite !app_assoc in N. apply nodup_app_r in N. exact N.
  - apply (nodup4 _ _ _ _ w (j_nodup s J)).
Qed.

(* only subscribed waiters are ever released or held: nothing is invented *)
Theorem released_were_subscribed ops s w :
  reachable ops s -> (In w (sublog s) <-> In w (chain s ++ walk s ++ acc s ++ rel s)).
Proof. intros R. apply (j_sub s (inv2_reachable _ _ R)). Qed.

(* not early: a release happens only when the slot is Ready (after the exchange, which is after the payload was
   set), and the payload visible at that instant is the winner's, i.e. the final one *)
Theorem not_early ops s w o :
  reachable ops s -> In (w, o) (wlog s) ->
  slot s = SReady /\ o = payload s /\
  exists i k pc, winner s = Some i /\ T s i = Some (TR k pc) /\ o = payload_of k ONone.
Proof.
  intros R H. pose proof (inv2_reachable _ _ R) as J. destruct (j_wlog s J _ _ H) as (SR & E).
  refine (conj SR (conj E _)). destruct (result_is_winners ops s R SR) as (i & k & pc & A & B & C).
  exists i, k, pc. rewrite E. auto.
Qed.

(* the walker holds detached nodes / collected handles only after the exchange *)
Theorem walk_only_when_ready ops s :
  reachable ops s -> walk s <> [] \/ acc s <> [] -> slot s = SReady.
Proof. intros R. apply (j_busy s (inv2_reachable _ _ R)). Qed.

(* whoever went on — released, refused by the CAS, or found the future ready — observed Ready and read the final payload;
   a waiter that went on without having subscribed was never released *)
Theorem done_sees_result ops s w k o f :
  reachable ops s -> T s w = Some (TW k (WDone o) f) ->
  slot s = SReady /\ o = payload s /\
  (exists i kr pc, winner s = Some i /\ T s i = Some (TR kr pc) /\ o = payload_of kr ONone) /\
  (In w (sublog s) -> In w (rel s)) /\ (~ In w (sublog s) -> ~ In w (rel s)).
Proof.
  intros R H. pose proof (inv2_reachable _ _ R) as J. apply W_T in H.
  destruct (j_done s J _ _ _ _ H) as (SR & E & S1).
  refine (conj SR (conj E (conj _ (conj S1 _)))).
  - destruct (result_is_winners ops s R SR) as (i & kr & pc & A & B & C). exists i, kr, pc. rewrite E. auto.
  - intros NS Q. apply NS. apply (j_sub s J). apply in_or_app. right. apply in_or_app. right. apply in_or_app. right. exact Q.
Qed.

(* a waiter about to be refused: it is at its CAS and the slot is Ready; its next step reads the final payload *)
Theorem refused_sees_result ops s w k r e f :
  reachable ops s -> T s w = Some (TW k (WSub r e) f) -> slot s = SReady ->
  T (fst (tstep s w)) w = Some (TW k (WDone (payload s)) f) /\ ~ In w (sublog (fst (tstep s w))) /\
  exists i kr pc, winner s = Some i /\ T s i = Some (TR kr pc) /\ payload s = payload_of kr ONone.
Proof.
  intros R H SR. pose proof (inv2_reachable _ _ R) as J.
  unfold tstep. fold (T s w). rewrite H, SR. cbn [fst]. split; [|split].
  - rewrite T_set_thr by (eapply T_some_lt; eassumption). rewrite Nat.eqb_refl. reflexivity.
  - cbn [set_thr sublog]. apply W_T in H. apply (j_pre s J _ _ _ _ H). reflexivity.
  - apply (result_is_winners ops s R SR).
Qed.

(* ---------- the access log ---------- *)
Lemma wf_log_prefix l : wf_log l -> forall l1 e l2, l = l1 ++ e :: l2 -> wf_log l1 /\ ok_after l1 e.
Proof.
  induction 1 as [|l e' WF IH OK]; intros l1 e l2 E.
  - destruct l1; discriminate.
  - destruct (exists_last (l := e :: l2) ltac:(discriminate)) as (m & x & Em).
    rewrite Em in E. rewrite app_assoc in E. apply app_inj_tail in E. destruct E as (E1 & E2). subst x.
    destruct l2 as [|y l2].
    + destruct m; [|destruct m; discriminate]. rewrite app_nil_r in E1. inversion Em; subst. auto.
    + destruct m as [|z m]; [discriminate|]. inversion Em; subst z.
      eapply IH. exact E1.
Qed.

Lemma wf_log_later l l1 e l2 e2 :
  wf_log l -> l = l1 ++ e :: l2 -> In e2 l2 -> exists m, In e (l1 ++ e :: m) /\ ok_after (l1 ++ e :: m) e2.
Proof.
  intros WF E H. apply in_split in H. destruct H as (m1 & m2 & ->).
  exists m1. split; [apply in_or_app; right; left; reflexivity|].
  assert (E' : l = (l1 ++ e :: m1) ++ e2 :: m2) by (rewrite E, <- app_assoc; reflexivity).
  apply (wf_log_prefix l WF _ _ _ E').
Qed.

(* next-read-before-resume: after a node's resume() the walker never reads or writes that node again, and it
   resumes it only once *)
Theorem no_touch_after_resume ops s l1 w l2 :
  reachable ops s -> elog s = l1 ++ EResume w :: l2 ->
  ~ In (ENext w) l2 /\ ~ In (EClear w) l2 /\ ~ In (EResume w) l2.
Proof.
  intros R E. pose proof (j_log s (inv2_reachable _ _ R)) as WF.
  repeat split; intros H; destruct (wf_log_later _ _ _ _ _ WF E H) as (m & A & B); cbn [ok_after] in B; tauto.
Qed.

(* once the storage of a waiter's awaiter is gone (stack sync_awaiter out of scope, coroutine temporary dead,
   callback context deleted) nothing touches it; and it is only released after its resume() *)
Theorem no_touch_after_free ops s l1 w l2 :
  reachable ops s -> elog s = l1 ++ EFree w :: l2 ->
  In (EResume w) l1 /\ ~ In (ENext w) l2 /\ ~ In (EClear w) l2 /\ ~ In (EResume w) l2 /\ ~ In (EFree w) l2.
Proof.
  intros R E. pose proof (j_log s (inv2_reachable _ _ R)) as WF.
  split; [apply (wf_log_prefix _ WF _ _ _ E)|].
  repeat split; intros H; destruct (wf_log_later _ _ _ _ _ WF E H) as (m & A & B); cbn [ok_after] in B; tauto.
Qed.

(* the walker reads next and clears it before it calls resume(): every ENext/EClear w precedes EResume w *)
Theorem resumed_iff_logged ops s w :
  reachable ops s -> (In (EResume w) (elog s) <-> In w (acc s ++ rel s)).
Proof. intros R. apply (j_eres s (inv2_reachable _ _ R)). Qed.

(* async completion: the coroutine frame is destroyed only after its future became ready *)
Theorem frame_after_ready ops s b :
  reachable ops s -> In (EFrame b) (elog s) -> b = true /\ slot s = SReady.
Proof. intros R H. apply (j_frame s (inv2_reachable _ _ R) b H). Qed.

(* ================= terminal states: nothing is lost ================= *)
(* every step keeps resolver threads resolver threads of the same kind (and waiters waiters), and never enters RXWait *)
Definition TRpres (s s' : st) : Prop :=
  length (thrs s') = length (thrs s) /\
  (forall j k pc, T s j = Some (TR k pc) -> exists pc', T s' j = Some (TR k pc') /\ (pc' = RXWait -> pc = RXWait)) /\
  (forall j k pc', T s' j = Some (TR k pc') -> exists pc, T s j = Some (TR k pc)).

Lemma TRpres_same s s' : length (thrs s') = length (thrs s) -> same_TR s s' -> TRpres s s'.
Proof.
  intros L S. split; [exact L|]. split.
  - intros j k pc H. exists pc. split; [apply S; exact H|auto].
  - intros j k pc H. exists pc. apply S. exact H.
Qed.

Lemma TRpres_set s X i k pc pc' :
  length (thrs X) = length (thrs s) -> same_TR s X -> T s i = Some (TR k pc) -> pc' <> RXWait ->
  TRpres s (set_thr X i (TR k pc')).
Proof.
  intros L S H N. pose proof (T_some_lt _ _ _ H) as Li. split; [|split].
  - cbn [set_thr thrs]. rewrite set_nth_length. exact L.
  - intros j k0 pc0 Hj. rewrite T_set_thr by lia. destruct (Nat.eqb_spec i j) as [<-|NE].
    + rewrite H in Hj. inversion Hj; subst. exists pc'. split; [reflexivity|]. intros Q. contradiction.
    + exists pc0. split; [apply S; exact Hj|auto].
  - intros j k0 pc0. rewrite T_set_thr by lia. destruct (Nat.eqb_spec i j) as [<-|NE].
    + intros Q. inversion Q; subst. eauto.
    + intros Q. apply S in Q. eauto.
Qed.

Lemma step_TRpres s i : enabled s i = true -> TRpres s (fst (tstep s i)).
Proof.
  intros E. destruct (enabled_T s i E) as (t & Ht). unfold tstep. fold (T s i). rewrite Ht.
  assert (G0 : forall X pc pc' k, thrs X = thrs s -> T s i = Some (TR k pc) -> pc' <> RXWait -> TRpres s (set_thr X i (TR k pc'))).
  { intros X pc pc' k EX H N. apply (TRpres_set s X i k pc pc'); auto; [rewrite EX; reflexivity|apply same_TR_fields; exact EX]. }
  destruct t as [k pc|k pc f].
  - destruct pc as [| |[b|]| | |r].
    + destruct (owner s); cbn [fst]; (eapply G0; [reflexivity|exact Ht|destruct k; discriminate]).
    + cbn [fst]. eapply G0; [reflexivity|exact Ht|discriminate].
    + cbn [fst]. eapply G0; [reflexivity|exact Ht|destruct b; discriminate].
    + destruct (owner s); cbn [fst]; (eapply G0; [reflexivity|exact Ht|discriminate]).
    + change (match slot s with SChain l => l | SReady => [] end) with (chain s).
      cbn [fst]. destruct (chain s).
      * match goal with |- TRpres s (finish ?x i k) => destruct (finish_shape x i k) as (th' & sb' & wl' & el' & FE & FL & FT); rewrite FE end.
        apply (TRpres_set s _ i k RResolve); [exact FL| |exact Ht|discriminate].
        intros j k0 pc0. unfold T at 1. cbn [thrs]. rewrite FT. unfold T. cbn [thrs]. tauto.
      * eapply G0; [reflexivity|exact Ht|discriminate].
    + destruct (walk s) as [|w t] eqn:EW; cbn [fst].
      * destruct (finish_shape s i k) as (th' & sb' & wl' & el' & FE & FL & FT). rewrite FE.
        apply (TRpres_set s _ i k RWalk); [exact FL| |exact Ht|discriminate].
        intros j k0 pc0. unfold T at 1. cbn [thrs]. rewrite FT. tauto.
      * set (s0 := mkSt (owner s) (slot s) (payload s) t (acc s) (thrs s) (winner s) (sublog s) (wlog s) (elog s)).
        pose proof (release_node_frame s0 w) as R. cbn zeta in R.
        destruct R as (R1 & R2 & R3 & R4 & R5 & R6 & R7 & R8).
        assert (S0 : same_TR s s0) by (apply same_TR_fields; reflexivity).
        destruct t as [|w2 t2].
        -- destruct (finish_shape (release_node s0 w) i k) as (th' & sb' & wl' & el' & FE & FL & FT). rewrite FE.
           apply (TRpres_set s _ i k RWalk); [cbn [thrs]; rewrite FL, R8; reflexivity| |exact Ht|discriminate].
           intros j k0 pc0. unfold T at 1. cbn [thrs]. rewrite FT. split; intros Q.
           ++ apply R7, S0 in Q. exact Q.
           ++ apply R7, S0. exact Q.
        -- apply TRpres_same; [rewrite R8; reflexivity|]. eapply same_TR_trans; eassumption.
    + unfold enabled in E. fold (T s i) in E. rewrite Ht in E. discriminate.
  - assert (G : forall X k' pc' f', thrs X = thrs s -> TRpres s (set_thr X i (TW k' pc' f'))).
    { intros X k' pc' f' EX. apply TRpres_same.
      - cbn [set_thr thrs]. rewrite set_nth_length, EX. reflexivity.
      - eapply same_TR_trans; [apply (same_TR_fields s X EX)|].
        eapply same_TR_set_w. unfold T. rewrite EX. exact Ht. }
    destruct pc as [| |r e| | |o|]; cbn [fst]; try (destruct (slot s)); try (destruct (onat_eqb (head l) e));
      try (apply G; reflexivity); apply TRpres_same; try reflexivity; apply same_TR_refl.
Qed.

Record Inv3 (ops : list (list Z)) (s : st) : Prop := {
  k_len : length (thrs s) = S (length (flat_map decode_thr ops));
  k_dtor : exists pc, T s (length (flat_map decode_thr ops)) = Some (TR KDtor pc);
  k_xwait : forall j k, T s j = Some (TR k RXWait) -> j = length (flat_map decode_thr ops);
}.

Lemma inv3_reachable ops s : reachable ops s -> Inv3 ops s.
Proof.
  induction 1 as [|s i R IH E].
  - constructor; unfold T; cbn [init thrs].
    + rewrite app_length. cbn [length]. lia.
    + exists RXWait. rewrite nth_error_app2 by lia. rewrite Nat.sub_diag. reflexivity.
    + intros j k H. destruct (Nat.lt_ge_cases j (length (flat_map decode_thr ops))) as [L|L].
      * rewrite nth_error_app1 in H by exact L. apply nth_error_In in H. apply in_flat_map in H.
        destruct H as (l & _ & H). apply decode_thr_initial in H.
        destruct H as [(k' & Q & _)|(k' & pc' & Q & _)]; inversion Q.
      * assert (LT : (j < length (flat_map decode_thr ops ++ [TR KDtor RXWait]))%nat) by (apply nth_error_Some; congruence).
        rewrite app_length in LT. cbn [length] in LT. lia.
  - destruct IH as [K1 K2 K3]. destruct (step_TRpres s i E) as (PL & PT & PB).
    constructor.
    + rewrite PL. exact K1.
    + destruct K2 as (pc & H). destruct (PT _ _ _ H) as (pc' & H' & _). eauto.
    + intros j k H. destruct (PB _ _ _ H) as (pc & HT).
      destruct (PT _ _ _ HT) as (pc' & H' & X). rewrite H in H'. inversion H'; subst. apply (K3 j k). rewrite HT, (X eq_refl). reflexivity.
Qed.

Lemma enabled_list_nil s n : forall from, enabled_list s n from = [] ->
  forall i, (from <= i < from + n)%nat -> enabled s i = false.
Proof.
  induction n as [|n IH]; intros from H i L; [lia|].
  cbn [enabled_list] in H. apply app_eq_nil in H. destruct H as (H1 & H2).
  destruct (Nat.eq_dec i from) as [->|N].
  - destruct (enabled s from); [discriminate|reflexivity].
  - apply (IH (S from) H2). lia.
Qed.

Lemma terminal_none_enabled s i : all_enabled s = [] -> enabled s i = false.
Proof.
  intros H. destruct (Nat.lt_ge_cases i (length (thrs s))) as [L|L].
  - apply (enabled_list_nil s _ 0 H). lia.
  - unfold enabled. apply nth_error_None in L. rewrite L. reflexivity.
Qed.

Lemma others_done_false l i : forall n, others_done l i n = false ->
  exists j t, nth_error l j = Some t /\ (n + j)%nat <> i /\ is_rdone t = false.
Proof.
  induction l as [|t l IH]; intros n H; cbn [others_done] in H; [discriminate|].
  apply andb_false_iff in H. destruct H as [H|H].
  - apply orb_false_iff in H. destruct H as (H1 & H2). exists 0%nat, t. split; [reflexivity|]. split; [|exact H2].
    apply Nat.eqb_neq in H1. lia.
  - destruct (IH _ H) as (j & t' & A & B & C). exists (S j), t'. split; [exact A|]. split; [lia|exact C].
Qed.

(* in a terminal state every resolver call has returned *)
Lemma terminal_resolvers_done ops s :
  reachable ops s -> all_enabled s = [] -> forall j k pc, T s j = Some (TR k pc) -> exists r, pc = RDone r.
Proof.
  intros R TE. pose proof (inv3_reachable _ _ R) as [K1 K2 K3].
  assert (NX : forall j k pc, T s j = Some (TR k pc) -> pc <> RXWait -> exists r, pc = RDone r).
  { intros j k pc H N. pose proof (terminal_none_enabled s j TE) as E. unfold enabled in E. fold (T s j) in E.
    rewrite H in E. destruct pc; try discriminate; try contradiction; eauto. }
  intros j k pc H. destruct pc; try (eapply NX; [exact H|discriminate]). exfalso.
  pose proof (terminal_none_enabled s j TE) as E. unfold enabled in E. fold (T s j) in E. rewrite H in E.
  destruct (others_done_false _ _ _ E) as (j' & t & A & B & C). cbn [plus] in B.
  destruct t as [k' pc'|]; [|discriminate].
  assert (NR : pc' <> RXWait).
  { intros ->. fold (T s j') in A. apply K3 in A. apply K3 in H. congruence. }
  destruct (NX _ _ _ A NR) as (r & ->). discriminate.
Qed.

(* no lost wake-up: when nothing can run any more, the future is ready, the chain, the walk list and the suspend
   point are empty, and every waiter has gone on with the final payload: released exactly once if it had
   subscribed, never released otherwise *)
Theorem no_lost_wakeup ops s :
  reachable ops s -> all_enabled s = [] ->
  slot s = SReady /\ chain s = [] /\ walk s = [] /\ acc s = [] /\
  (exists i k, winner s = Some i /\ T s i = Some (TR k (RDone true)) /\ payload s = payload_of k ONone) /\
  forall w k pc f, T s w = Some (TW k pc f) ->
    pc = WDone (payload s) /\
    count_occ Nat.eq_dec (rel s) w = (if in_dec Nat.eq_dec w (sublog s) then 1 else 0)%nat.
Proof.
  intros R TE. pose proof (inv1_reachable _ _ R) as [I1 I2 I3 I4 I5 I6 I7].
  pose proof (inv2_reachable _ _ R) as J. pose proof (inv3_reachable _ _ R) as [K1 K2 K3].
  pose proof (terminal_resolvers_done ops s R TE) as RD.
  destruct K2 as (pcd & HD). destruct (RD _ _ _ HD) as (rd & ->).
  assert (O : owner s = false).
  { destruct rd; [|eapply I5; [exact HD|reflexivity]].
    destruct (owner s) eqn:O; [|reflexivity]. assert (Q : winner s = None) by (apply I1; reflexivity).
    rewrite (I2 _ _ _ HD eq_refl) in Q. discriminate. }
  assert (WN : exists i, winner s = Some i).
  { destruct (winner s) eqn:Wn; [eauto|]. assert (Q : owner s = true) by (apply I1; reflexivity). congruence. }
  destruct WN as (i & WI). destruct (I3 _ WI) as (k & pc & HI & WP & PL).
  destruct (RD _ _ _ HI) as (r & ->). destruct r; [|discriminate].
  assert (SR : slot s = SReady) by (apply I6; exists i, k, (RDone true); auto).
  destruct (I7 _ _ _ WI HI ltac:(discriminate)) as (KW & KA).
  assert (CH : chain s = []) by (unfold chain; rewrite SR; reflexivity).
  refine (conj SR (conj CH (conj KW (conj KA (conj _ _))))); [exists i, k; auto|].
  intros w kw pc f H. pose proof H as HW. apply W_T in HW.
  pose proof (terminal_none_enabled s w TE) as E. unfold enabled in E. fold (T s w) in E. rewrite H in E.
  assert (PD : exists o, pc = WDone o).
  { destruct pc; try discriminate; eauto.
    - pose proof (j_parked s J _ _ _ HW) as Q. rewrite CH, KW, KA in Q. destruct Q.
    - subst f. pose proof (j_flag s J _ _ _ HW) as Q. cbn in Q. rewrite CH, KW in Q. destruct Q. }
  destruct PD as (o & ->). destruct (j_done s J _ _ _ _ HW) as (_ & -> & SI). split; [reflexivity|].
  pose proof (j_nodup s J) as ND. rewrite CH, KW, KA in ND. cbn [app] in ND.
  pose proof (j_sub s J w) as JS. rewrite CH, KW, KA in JS. cbn [app] in JS.
  destruct (in_dec Nat.eq_dec w (sublog s)) as [IN|NI].
  - apply JS in IN. pose proof (nodup_count _ w ND). apply (count_occ_In Nat.eq_dec) in IN. lia.
  - apply count_occ_not_In. intro Q. apply NI. apply JS. exact Q.
Qed.

(* ---------- the executable scheduler only visits reachable states ---------- *)
Lemma in_enabled_list s n : forall from i, In i (enabled_list s n from) -> enabled s i = true.
Proof.
  induction n as [|n IH]; intros from i H; cbn [enabled_list] in H; [destruct H|].
  apply in_app_or in H. destruct H as [H|H]; [|eapply IH; exact H].
  destruct (enabled s from) eqn:E; [|destruct H]. destruct H as [<-|[]]. exact E.
Qed.

Lemma run_sched_reachable ops fuel : forall s sched tr,
  reachable ops s -> reachable ops (fst (run_sched fuel s sched tr)).
Proof.
  induction fuel as [|fuel IH]; intros s sched tr R; cbn [run_sched]; [exact R|].
  destruct (all_enabled s) as [|e en] eqn:EN; [exact R|].
  set (k := match sched with [] => 0 | x :: _ => Z.abs x end).
  set (i := nth (Z.to_nat (k mod zlen (e :: en))) (e :: en) 0%nat).
  assert (IN : In i (e :: en)).
  { apply nth_In. unfold zlen. cbn [length].
    assert (0 <= k mod Z.of_nat (S (length en)) < Z.of_nat (S (length en))) by (apply Z.mod_pos_bound; lia). lia. }
  rewrite <- EN in IN. apply in_enabled_list in IN.
  destruct (tstep s i) as [s1 p] eqn:TS. apply IH.
  replace s1 with (fst (tstep s i)) by (rewrite TS; reflexivity). apply r_step; assumption.
Qed.

Theorem run_reachable ops fuel sched : reachable ops (fst (run_sched fuel (init ops) sched [])).
Proof. apply run_sched_reachable. apply r_init. Qed.
