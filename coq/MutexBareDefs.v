(* MutexBareDefs.v — coroutines that use the mutex WITHOUT an installed coro_queue (resumed directly by
   handle.resume() from a foreign event source: a user awaitable, a callback, cocls::parallel).  Sequential,
   one mutex.  Every coroutine: co_await lock(); [enter]; wait at its gate (an awaitable the driver opens with
   handle.resume()); [leave]; release (0 destruction, 1 release() discarded, 2 co_await release()); [done].
   A hand-over resumes the next waiter at once under a temporary queue (suspend_point::suspend_now /
   await_suspend without an active queue, suspend_point.h:142-151, 175-181): it enters and parks at its gate, then
   the releaser goes on.  The grant resumes the waiter exactly once: it leaves only when its gate is opened.
   The mutex itself is abstracted to (holder, FIFO), see MutexDefs.v for the protocol.  Model only. *)
From Cocls Require Import Base.
Local Open Scope Z_scope.

Inductive bst := BWait | BIn | BDone.
Record bare := mkB { bco : list bst; bholder : option nat; bq : list nat }.

Definition bget (s : bare) (c : nat) : option bst := nth_error (bco s) c.

(* events: (coroutine, 1 enter | 2 leave | 3 done) *)
Definition bstart (s : bare) (c : nat) : bare * list Z :=
  match bholder s with
  | None => (mkB (bco s ++ [BIn]) (Some c) (bq s), [1; Z.of_nat c; 1])
  | Some _ => (mkB (bco s ++ [BWait]) (bholder s) (bq s ++ [c]), [1])
  end.

Definition bopen (s : bare) (c : nat) : bare * list Z :=
  let co1 := set_nth (bco s) c BDone in
  match bq s with
  | [] => (mkB co1 None [], [1; Z.of_nat c; 2; Z.of_nat c; 3])
  | w :: rest => (mkB (set_nth co1 w BIn) (Some w) rest, [1; Z.of_nat c; 2; Z.of_nat w; 1; Z.of_nat c; 3])
  end.

Definition bstep (s : bare) (op : list Z) : bare * list Z :=
  match op with
  | [1; c; r] =>
      if Z.eqb c (zlen (bco s)) && (0 <=? r) && (r <=? 2) then bstart s (length (bco s)) else (s, [-1])
  | [2; c] =>
      if (0 <=? c) && match bget s (Z.to_nat c) with Some BIn => true | _ => false end then bopen s (Z.to_nat c) else (s, [-1])
  | _ => (s, [-1])
  end.

Fixpoint brun (s : bare) (ops : list (list Z)) : bare * list (list Z) :=
  match ops with
  | [] => (s, [])
  | op :: r => let '(s1, o) := bstep s op in let '(s2, l) := brun s1 r in (s2, o :: l)
  end.

Definition count_st (s : bare) (x : bst) : Z :=
  zlen (filter (fun y => match y, x with BWait, BWait | BIn, BIn | BDone, BDone => true | _, _ => false end) (bco s)).

Definition bare_run (ops : list (list Z)) : list (list Z) :=
  let '(s, l) := brun (mkB [] None []) ops in
  l ++ [[9; match bholder s with Some _ => 1 | None => 0 end; count_st s BWait; count_st s BIn; count_st s BDone]].

(* property on an observed block: events (c,1) enter / (c,2) leave / (c,3) done.  At most one coroutine is inside
   (enter ... leave alternate); a coroutine leaves only in the op that opens ITS gate (a grant resumes the waiter
   once: it must not run past the gate by itself); every coroutine enters, leaves, finishes at most once and in
   this order; waiters enter in the order they were started (FIFO); final counters consistent. *)
Fixpoint evs (l : list Z) : list (Z * Z) :=
  match l with c :: e :: r => (c, e) :: evs r | _ => [] end.

Record bo := mkBO { bo_in : option Z; bo_ent : list Z; bo_lv : list Z; bo_dn : list Z; bo_ok : bool }.

Definition memZ (x : Z) (l : list Z) : bool := existsb (Z.eqb x) l.

Definition bo_ev (gate : option Z) (o : bo) (ce : Z * Z) : bo :=
  let '(c, e) := ce in
  if Z.eqb e 1 then
    mkBO (Some c) (bo_ent o ++ [c]) (bo_lv o) (bo_dn o)
         (bo_ok o && match bo_in o with None => true | Some _ => false end && negb (memZ c (bo_ent o)))
  else if Z.eqb e 2 then
    mkBO None (bo_ent o) (bo_lv o ++ [c]) (bo_dn o)
         (bo_ok o && match bo_in o with Some h => Z.eqb h c | None => false end && negb (memZ c (bo_lv o))
          && match gate with Some g => Z.eqb g c | None => false end)
  else
    mkBO (bo_in o) (bo_ent o) (bo_lv o) (bo_dn o ++ [c]) (bo_ok o && memZ c (bo_lv o) && negb (memZ c (bo_dn o))).

Definition bo_line (o : bo) (p : list Z * list Z) : bo :=
  let '(op, ob) := p in
  match ob with
  | 1 :: r => fold_left (bo_ev (match op with [2; c] => Some c | _ => None end)) (evs r) o
  | [-1] => o
  | _ => mkBO (bo_in o) (bo_ent o) (bo_lv o) (bo_dn o) false
  end.

Fixpoint sortedZ (l : list Z) : bool :=
  match l with a :: ((b :: _) as r) => (a <? b) && sortedZ r | _ => true end.

Definition bare_oracle (ops obs : list (list Z)) : bool :=
  let n := length ops in
  let o := fold_left bo_line (combine ops (firstn n obs)) (mkBO None [] [] [] true) in
  bo_ok o && Nat.eqb (length (firstn n obs)) n && sortedZ (bo_ent o) &&
  match skipn n obs with
  | [[9; lk; w; i; d]] =>
      Z.eqb lk (match bo_in o with Some _ => 1 | None => 0 end) && Z.eqb i lk && Z.eqb d (zlen (bo_dn o))
      && Z.eqb (zlen (bo_ent o)) (i + d)
  | _ => false
  end.
