(* GenProofs.v — invariants and run-level theorems for the generator model (C13). *)
From Cocls Require Import Base BaseProofs GenDefs.
Require Import ZifyBool.
Ltac Zify.zify_post_hook ::= Z.div_mod_to_equations.
Local Open Scope Z_scope.

Definition tag (n : nat) (l : list item) : list (item * nat) := map (fun i => (i, n)) l.

Lemma tag_app n a b : tag n (a ++ b) = tag n a ++ tag n b.
Proof. unfold tag. apply map_app. Qed.

Lemma item_eqb_refl x : item_eqb x x = true.
Proof. destruct x; cbn; auto; apply Z.eqb_refl. Qed.

(* ---------- exec against the specification ---------- *)
Lemma exec_expected : forall pc gs cur arg args np,
  match exec pc gs cur arg with
  | (SYield v, p, _, _, ev) =>
      expected pc cur arg args np =
      tag np (arg_items ev) ++ (XVal v, np) :: (XArg (hd 0 args), np) :: expected p (hd 0 args) (hd 0 args) (tl args) np
  | (SPend _, p, _, c, ev) => expected pc cur arg args np = tag np (arg_items ev) ++ expected p c arg args (S np)
  | (SThrow e, _, _, _, ev) => expected pc cur arg args np = tag np (arg_items ev) ++ [(XExc e, np)]
  | (SRet, _, _, _, ev) => expected pc cur arg args np = tag np (arg_items ev) ++ [(XEnd, np)]
  end.
Proof.
  induction pc as [|i t IH]; intros gs cur arg args np.
  - cbn. assert (H : arg_items (map EDtor gs) = []) by (induction gs; cbn; auto). rewrite H. reflexivity.
  - assert (HD : forall gs, arg_items (map EDtor gs) = []) by (intro g; induction g; cbn; auto).
    destruct i; cbn [exec expected].
    + reflexivity.
    + specialize (IH gs cur arg args np). destruct (exec t gs cur arg) as [[[[st p] g] c] ev]. destruct st; cbn; exact IH.
    + reflexivity.
    + rewrite HD. reflexivity.
    + rewrite HD. reflexivity.
    + destruct (Nat.ltb (length gs) max_guards).
      * specialize (IH (x :: gs) cur arg args np). destruct (exec t (x :: gs) cur arg) as [[[[st p] g] c] ev]. destruct st; cbn; exact IH.
      * apply IH.
    + destruct gs as [|x g'].
      * apply IH.
      * specialize (IH g' cur arg args np). destruct (exec t g' cur arg) as [[[[st p] g] c] ev]. destruct st; cbn; exact IH.
    + specialize (IH gs arg arg args np). destruct (exec t gs arg arg) as [[[[st p] g] c] ev].
      destruct st; cbn [arg_items tag map app]; rewrite IH; reflexivity.
    + reflexivity.
    + apply IH.
Qed.

(* ---------- RAII balance of exec ---------- *)

Lemma count_ev_app f a b : count_ev f (a ++ b) = (count_ev f a + count_ev f b)%nat.
Proof. induction a; cbn; auto. rewrite IHa. lia. Qed.

Lemma count_dtor_map x gs : count_ev (is_dtor x) (map EDtor gs) = count_z x gs.
Proof. induction gs; cbn; auto. rewrite IHgs. reflexivity. Qed.

Lemma count_ctor_map x gs : count_ev (is_ctor x) (map EDtor gs) = O.
Proof. induction gs; cbn; auto. Qed.

(* constructed during the run + live before = destroyed during the run + live after, for every guard id *)
Lemma exec_balance : forall x pc gs cur arg,
  let '(_, _, g, _, ev) := exec pc gs cur arg in
  (count_ev (is_ctor x) ev + count_z x gs = count_ev (is_dtor x) ev + count_z x g)%nat.
Proof.
  intros x. induction pc as [|i t IH]; intros gs cur arg.
  - cbn. rewrite count_dtor_map, count_ctor_map. lia.
  - destruct i; cbn [exec].
    + cbn. lia.
    + specialize (IH gs cur arg). destruct (exec t gs cur arg) as [[[[st p] g] c] ev]. cbn. exact IH.
    + cbn. lia.
    + rewrite count_dtor_map, count_ctor_map. cbn. lia.
    + rewrite count_dtor_map, count_ctor_map. cbn. lia.
    + destruct (Nat.ltb (length gs) max_guards).
      * specialize (IH (x0 :: gs) cur arg). destruct (exec t (x0 :: gs) cur arg) as [[[[st p] g] c] ev].
        cbn [count_ev count_z is_ctor is_dtor] in *. destruct (x =? x0); cbn in *; lia.
      * apply IH.
    + destruct gs as [|x0 g'].
      * apply IH.
      * specialize (IH g' cur arg). destruct (exec t g' cur arg) as [[[[st p] g] c] ev].
        cbn [count_ev count_z is_ctor is_dtor] in *. destruct (x =? x0); cbn in *; lia.
    + specialize (IH gs arg arg). destruct (exec t gs arg arg) as [[[[st p] g] c] ev]. cbn. exact IH.
    + cbn. lia.
    + apply IH.
Qed.

(* leaving the body (throw / return) leaves no live local *)
Lemma exec_final_guards : forall pc gs cur arg,
  match exec pc gs cur arg with
  | (SThrow _, p, g, _, _) => g = [] /\ p = []
  | (SRet, p, g, _, _) => g = [] /\ p = []
  | _ => True
  end.
Proof.
  induction pc as [|i t IH]; intros gs cur arg; [cbn; auto|].
  destruct i; cbn [exec]; try (split; reflexivity); try exact I.
  - specialize (IH gs cur arg). destruct (exec t gs cur arg) as [[[[st p] g] c] ev]. destruct st; auto.
  - destruct (Nat.ltb (length gs) max_guards); [|apply IH].
    specialize (IH (x :: gs) cur arg). destruct (exec t (x :: gs) cur arg) as [[[[st p] g] c] ev]. destruct st; auto.
  - destruct gs as [|x g']; [apply IH|].
    specialize (IH g' cur arg). destruct (exec t g' cur arg) as [[[[st p] g] c] ev]. destruct st; auto.
  - specialize (IH gs arg arg). destruct (exec t gs arg arg) as [[[[st p] g] c] ev]. destruct st; auto.
  - apply IH.
Qed.

Global Arguments exec : simpl never.
Global Arguments expected : simpl never.

(* ---------- the invariant of reachable states with a live generator ---------- *)
Definition valid_style (y : Z) : Prop := 0 <= y <= 6.

(* the consumer of the outstanding access y is parked waiting for the body *)
Definition waiting (y : Z) (s : sys) : Prop :=
  if sync_style y then caller s = CInternal /\ ifn s = FSync /\ block s = false
  else if fut_style y then caller s = CInternal /\ ifn s = FFuture /\ fut s = FPending
  else caller s = CAwt /\ awake s = false.

Definition Inv (s : sys) : Prop :=
  err s = false /\
  match bst s with
  | BInit => out s = None /\ caller s = CNull /\ done s = false /\ exn s = None /\ gds s = []
  | BYield => out s = None /\ caller s = CNull /\ done s = false /\ exn s = None /\ exists v, ret s = Some v
  | BPend _ => (exists y a, out s = Some y /\ valid_style y /\ argp s = Some a /\ waiting y s) /\ done s = false /\ exn s = None
  | BFinal => out s = None /\ caller s = CNull /\ gds s = [] /\ pc s = [] /\ ret s = None /\
              ((done s = true /\ exn s = None) \/ (done s = false /\ exists e, exn s = Some e))
  end.

(* what is still expected from state s on, given the arguments of the calls still to come and the number of
   completions so far *)
Definition rem (s : sys) (args : list Z) (nc : nat) : list (item * nat) :=
  match bst s with
  | BInit => expected (pc s) (cur s) (hd 0 args) (tl args) nc
  | BYield => (XArg (hd 0 args), nc) :: expected (pc s) (hd 0 args) (hd 0 args) (tl args) nc
  | BPend _ => expected (pc s) (cur s) (match argp s with Some a => a | None => 0 end) args (S nc)
  | BFinal => []
  end.

Lemma valid_style_cases y : valid_style y -> y = 0 \/ y = 1 \/ y = 2 \/ y = 3 \/ y = 4 \/ y = 5 \/ y = 6.
Proof. unfold valid_style. lia. Qed.

(* A body about to be resumed on behalf of access y: the caller is armed, nothing delivered yet. *)
Definition armed (y : Z) (s : sys) : Prop :=
  err s = false /\ done s = false /\ exn s = None /\ waiting y s /\
  (exists a, argp s = Some a) /\ bst s <> BFinal.

Definition exec_of (s : sys) : stop * list instr * list Z * Z * list event :=
  let a := match argp s with Some x => x | None => 0 end in
  match bst s with
  | BYield => exec (pc s) (gds s) a a
  | _ => exec (pc s) (gds s) (cur s) a
  end.

Definition pre_events (s : sys) (av : Z) : list event :=
  match bst s with
  | BYield => [EArg (match argp s with Some x => x | None => 0 end)]
  | BPend _ => [EAw av]
  | _ => []
  end.

(* the heart: resuming the body on behalf of an armed access, then letting the consumer look *)
Lemma resume_settle : forall y s av, valid_style y -> armed y s ->
  let '(st, p, g, c, ev0) := exec_of s in
  let '(s1, ev) := run_body s av in
  let '(s2, r) := settle y s1 in
  ev = pre_events s av ++ ev0 /\ live s2 = live s /\ created s2 = created s /\ Inv s2 /\
  match st with
  | SYield v => r = RVal v /\ bst s2 = BYield /\ pc s2 = p /\ gds s2 = g
  | SPend k => r = RPend /\ bst s2 = BPend k /\ pc s2 = p /\ gds s2 = g /\ cur s2 = c /\ argp s2 = argp s
  | SThrow e => r = RExc e /\ bst s2 = BFinal
  | SRet => r = REndF /\ bst s2 = BFinal
  end.
Proof.
  intros y s av Hy Ha.
  pose proof (exec_final_guards (pc s) (gds s) (cur s) (match argp s with Some x => x | None => 0 end)) as HF1.
  pose proof (exec_final_guards (pc s) (gds s) (match argp s with Some x => x | None => 0 end) (match argp s with Some x => x | None => 0 end)) as HF2.
  destruct s as [lv cr pc0 gd cu bs ca fn ap rt ex dn bl aw ot fu it ak ns er].
  unfold armed, waiting in Ha. cbn [err done exn bst argp caller ifn block fut awake] in Ha.
  destruct Ha as (He & Hd & Hx & Hw & (a0 & Hap) & Hb). subst er dn ex ap.
  unfold exec_of, run_body. cbn [bst pc gds cur argp] in *.
  destruct (valid_style_cases y Hy) as [->|[->|[->|[->|[->|[->| ->]]]]]]; vm_compute in Hw;
  destruct Hw as (Hw1 & Hw2); try destruct Hw2 as (Hw2 & Hw3); subst;
  (destruct bs as [| |k0|]; [| | |exfalso; apply Hb; reflexivity]);
  cbn [bst pc gds cur argp];
  match goal with
  | |- context [exec ?a ?b ?c ?d] => destruct (exec a b c d) as [[[[st p] g] c'] ev0] eqn:E
  end;
  try rewrite E in HF1; try rewrite E in HF2;
  destruct st; vm_compute;
  repeat match goal with
  | H : _ /\ _ |- _ => destruct H
  end; subst;
  repeat split; eauto; try discriminate; try (intro; discriminate);
  try (left; split; reflexivity); try (right; split; eauto; fail);
  try (eexists; eexists; repeat split; eauto; try discriminate; try (intro; discriminate)).
Qed.

(* ---------- conformance helpers ---------- *)
Lemma conforms_np_irrel log ex a b : ex <> [] -> conforms log ex a = conforms log ex b.
Proof. destruct log as [|[r n] l]; cbn; auto. destruct ex as [|[x m] e]; [congruence|auto]. Qed.

Lemma expected_nonempty : forall pc cur arg args np, expected pc cur arg args np <> [].
Proof.
  induction pc as [|i t IH]; intros; cbn [expected]; [discriminate|].
  destruct i; try discriminate; apply IH.
Qed.

Lemma conforms_tag_app n l log ex : l <> [] ->
  forall np, conforms (tag n l ++ log) (tag n l ++ ex) np = conforms log ex n.
Proof.
  induction l as [|i l IH]; intros Hne np; [congruence|].
  cbn. rewrite item_eqb_refl, Nat.eqb_refl. cbn.
  destruct l as [|j l']; [reflexivity|]. apply IH. discriminate.
Qed.

Lemma conforms_tag_app' n l log ex : forall np, (l = [] -> np = n \/ ex <> []) ->
  conforms (tag n l ++ log) (tag n l ++ ex) np = conforms log ex n.
Proof.
  intros np H. destruct l as [|i l].
  - cbn. destruct (H eq_refl) as [->|Hne]; auto. apply conforms_np_irrel; auto.
  - apply conforms_tag_app. discriminate.
Qed.

(* ---------- one access ---------- *)
Definition arm (y a : Z) (s : sys) : sys :=
  let s := set_argp s (Some a) in
  if fut_style y then
    set_prom (set_cons s (out s) FPending (itn s) (awake s) (nstate s)) CInternal FFuture (Some a) (ret s) (exn s) (done s) (block s) true
  else if (y =? 3) || (y =? 6) then set_cons (set_caller s CAwt) (out s) (fut s) (itn s) false (nstate s)
  else set_prom (set_cons s (out s) (fut s) (itn s) (awake s) false) CInternal FSync (Some a) (ret s) (exn s) (done s) false (awaiting s).

Lemma access_live : forall y a s, Inv s -> valid_style y -> (bst s = BInit \/ bst s = BYield) ->
  access y a s = (let '(s3, ev) := run_body (arm y a s) 0 in let '(s4, r) := settle y s3 in (s4, r, ev)).
Proof.
  intros y a s HI Hy Hb.
  destruct s as [lv cr pc0 gd cu bs ca fn ap rt ex dn bl aw ot fu it ak ns er].
  unfold Inv in HI. cbn [err bst out caller done exn gds ret] in HI. cbn [bst] in Hb.
  destruct HI as [He HI].
  destruct (valid_style_cases y Hy) as [->|[->|[->|[->|[->|[->| ->]]]]]];
  destruct Hb as [-> | ->]; destruct HI as (Ho & Hc & Hd & Hx & Hr); subst; vm_compute; reflexivity.
Qed.

Lemma arm_armed : forall y a s, Inv s -> valid_style y -> (bst s = BInit \/ bst s = BYield) -> armed y (arm y a s).
Proof.
  intros y a s HI Hy Hb.
  destruct s as [lv cr pc0 gd cu bs ca fn ap rt ex dn bl aw ot fu it ak ns er].
  unfold Inv in HI. cbn [err bst out caller done exn gds ret] in HI. cbn [bst] in Hb.
  destruct HI as [He HI].
  destruct (valid_style_cases y Hy) as [->|[->|[->|[->|[->|[->| ->]]]]]];
  destruct Hb as [-> | ->]; destruct HI as (Ho & Hc & Hd & Hx & Hr); subst;
  unfold armed, waiting; vm_compute; repeat split; eauto; try discriminate; intro; discriminate.
Qed.

Lemma arm_frame : forall y a s,
  pc (arm y a s) = pc s /\ gds (arm y a s) = gds s /\ cur (arm y a s) = cur s /\ bst (arm y a s) = bst s /\
  argp (arm y a s) = Some a /\ live (arm y a s) = live s /\ created (arm y a s) = created s.
Proof.
  intros. unfold arm. destruct (fut_style y); [|destruct ((y =? 3) || (y =? 6))]; cbn; repeat split; reflexivity.
Qed.

Definition step_items (ev : list event) (r : res) : list item := arg_items ev ++ res_item r.

Ltac fin_tag := unfold tag in *; rewrite ?map_app; cbn [map app arg_items res_item]; rewrite ?app_nil_r, <- ?app_assoc; cbn [app]; reflexivity.

Lemma access_ok : forall y a s, Inv s -> valid_style y -> (bst s = BInit \/ bst s = BYield) ->
  let '(s1, r, ev) := access y a s in
  Inv s1 /\ live s1 = live s /\ created s1 = created s /\
  (forall x, (count_ev (is_ctor x) ev + count_z x (gds s) = count_ev (is_dtor x) ev + count_z x (gds s1))%nat) /\
  ((r = RPend <-> exists k, bst s1 = BPend k) /\ (res_item r = [] -> r = RPend)) /\
  forall rest nc, rem s (a :: rest) nc = tag nc (step_items ev r) ++ rem s1 rest nc.
Proof.
  intros y a s HI Hy Hb.
  rewrite (access_live y a s HI Hy Hb).
  pose proof (resume_settle y (arm y a s) 0 Hy (arm_armed y a s HI Hy Hb)) as HR.
  destruct (arm_frame y a s) as (Ep & Eg & Ec & Eb & Ea & El & Ecr).
  unfold exec_of, pre_events in HR. rewrite Ep, Eg, Ec, Eb, Ea in HR.
  unfold rem.
  destruct Hb as [Hb|Hb]; rewrite Hb in *.
  - pose proof (exec_balance) as HB.
    destruct (exec (pc s) (gds s) (cur s) a) as [[[[st p] g] c] ev0] eqn:E.
    destruct (run_body (arm y a s) 0) as [s3 ev]. destruct (settle y s3) as [s4 r].
    destruct HR as (Hev & Hl & Hcr & HI4 & Hst). cbn [app] in Hev. subst ev.
    split; [exact HI4|]. split; [congruence|]. split; [congruence|].
    split.
    { intro x. specialize (HB x (pc s) (gds s) (cur s) a). rewrite E in HB.
      destruct st; destruct Hst as (_ & Hs); try (destruct Hs as (_ & _ & Hg & _); subst g; exact HB);
      try (destruct Hs as (_ & _ & Hg); subst g; exact HB);
      pose proof (exec_final_guards (pc s) (gds s) (cur s) a) as HF; rewrite E in HF; destruct HF as [-> _];
      unfold Inv in HI4; rewrite Hs in HI4; destruct HI4 as (_ & _ & _ & Hg & _); rewrite Hg; exact HB. }
    split.
    { destruct st; destruct Hst as (Hr & Hs); subst r; try destruct Hs as (Hs & _);
      (split; [split; intro H; try discriminate; try (destruct H as [k0 H]; congruence); eauto
              | cbn; intro H; try discriminate; reflexivity]). }
    intros rest nc. pose proof (exec_expected (pc s) (gds s) (cur s) a rest nc) as HX. rewrite E in HX.
    cbn [hd tl]. unfold step_items.
    destruct st.
    + destruct Hst as (-> & Hb4 & Hp & Hg). rewrite Hb4, Hp. rewrite HX. fin_tag.
    + destruct Hst as (-> & Hb4 & Hp & Hg & Hc & Hap). rewrite Hb4, Hp, Hc, Hap. rewrite HX. fin_tag.
    + destruct Hst as (-> & Hb4). rewrite Hb4, HX. fin_tag.
    + destruct Hst as (-> & Hb4). rewrite Hb4, HX. fin_tag.
  - pose proof (exec_balance) as HB.
    destruct (exec (pc s) (gds s) a a) as [[[[st p] g] c] ev0] eqn:E.
    destruct (run_body (arm y a s) 0) as [s3 ev]. destruct (settle y s3) as [s4 r].
    destruct HR as (Hev & Hl & Hcr & HI4 & Hst). cbn [app] in Hev. subst ev.
    split; [exact HI4|]. split; [congruence|]. split; [congruence|].
    split.
    { intro x. specialize (HB x (pc s) (gds s) a a). rewrite E in HB. cbn [count_ev is_ctor is_dtor].
      destruct st; destruct Hst as (_ & Hs); try (destruct Hs as (_ & _ & Hg & _); subst g; exact HB);
      try (destruct Hs as (_ & _ & Hg); subst g; exact HB);
      pose proof (exec_final_guards (pc s) (gds s) a a) as HF; rewrite E in HF; destruct HF as [-> _];
      unfold Inv in HI4; rewrite Hs in HI4; destruct HI4 as (_ & _ & _ & Hg & _); rewrite Hg; exact HB. }
    split.
    { destruct st; destruct Hst as (Hr & Hs); subst r; try destruct Hs as (Hs & _);
      (split; [split; intro H; try discriminate; try (destruct H as [k0 H]; congruence); eauto
              | cbn; intro H; try discriminate; reflexivity]). }
    intros rest nc. pose proof (exec_expected (pc s) (gds s) a a rest nc) as HX. rewrite E in HX.
    cbn [hd tl]. unfold step_items. cbn [arg_items].
    destruct st.
    + destruct Hst as (-> & Hb4 & Hp & Hg). rewrite Hb4, Hp. rewrite HX. fin_tag.
    + destruct Hst as (-> & Hb4 & Hp & Hg & Hc & Hap). rewrite Hb4, Hp, Hc, Hap. rewrite HX. fin_tag.
    + destruct Hst as (-> & Hb4). rewrite Hb4, HX. fin_tag.
    + destruct Hst as (-> & Hb4). rewrite Hb4, HX. fin_tag.
Qed.

(* ---------- one completion ---------- *)
Lemma complete_ok : forall y k v s, Inv s -> bst s = BPend k -> out s = Some y ->
  let '(s1, ev) := run_body s v in
  let '(s2, r) := settle y s1 in
  Inv s2 /\ live s2 = live s /\ created s2 = created s /\
  (forall x, (count_ev (is_ctor x) ev + count_z x (gds s) = count_ev (is_dtor x) ev + count_z x (gds s2))%nat) /\
  ((r = RPend <-> exists k, bst s2 = BPend k) /\ (res_item r = [] -> r = RPend)) /\
  forall args nc, rem s args nc = tag (S nc) (step_items ev r) ++ rem s2 args (S nc).
Proof.
  intros y k v s HI Hb Ho.
  assert (Hy : valid_style y /\ armed y s /\ exists a, argp s = Some a).
  { unfold Inv in HI. rewrite Hb in HI. destruct HI as (He & (y0 & a0 & Ho' & Hv & Ha & Hw) & Hd & Hx).
    rewrite Ho in Ho'. injection Ho' as <-. split; auto. split; [|eauto].
    unfold armed. rewrite Hb. repeat split; eauto. discriminate. }
  destruct Hy as (Hy & Harm & (a & Hap)).
  pose proof (resume_settle y s v Hy Harm) as HR.
  unfold exec_of, pre_events in HR. rewrite Hb, Hap in HR.
  pose proof (exec_balance) as HB.
  destruct (exec (pc s) (gds s) (cur s) a) as [[[[st p] g] c] ev0] eqn:E.
  destruct (run_body s v) as [s3 ev]. destruct (settle y s3) as [s4 r].
  destruct HR as (Hev & Hl & Hcr & HI4 & Hst). cbn [app] in Hev. subst ev.
  split; [exact HI4|]. split; [congruence|]. split; [congruence|].
  split.
  { intro x. specialize (HB x (pc s) (gds s) (cur s) a). rewrite E in HB. cbn [count_ev is_ctor is_dtor].
    destruct st; destruct Hst as (_ & Hs); try (destruct Hs as (_ & _ & Hg & _); subst g; exact HB);
    try (destruct Hs as (_ & _ & Hg); subst g; exact HB);
    pose proof (exec_final_guards (pc s) (gds s) (cur s) a) as HF; rewrite E in HF; destruct HF as [-> _];
    unfold Inv in HI4; rewrite Hs in HI4; destruct HI4 as (_ & _ & _ & Hg & _); rewrite Hg; exact HB. }
  split.
  { destruct st; destruct Hst as (Hr & Hs); subst r; try destruct Hs as (Hs & _);
      (split; [split; intro H; try discriminate; try (destruct H as [k0 H]; congruence); eauto
              | cbn; intro H; try discriminate; reflexivity]). }
  intros args nc. unfold rem. rewrite Hb, Hap.
  pose proof (exec_expected (pc s) (gds s) (cur s) a args (S nc)) as HX. rewrite E in HX.
  unfold step_items. cbn [arg_items].
  destruct st.
  + destruct Hst as (-> & Hb4 & Hp & Hg). rewrite Hb4, Hp. rewrite HX. fin_tag.
  + destruct Hst as (-> & Hb4 & Hp & Hg & Hc & Hap'). rewrite Hb4, Hp, Hc, Hap'. rewrite HX. fin_tag.
  + destruct Hst as (-> & Hb4). rewrite Hb4, HX. fin_tag.
  + destruct Hst as (-> & Hb4). rewrite Hb4, HX. fin_tag.
Qed.

(* ---------- an access after the end ---------- *)
Lemma access_final : forall y a s, Inv s -> valid_style y -> bst s = BFinal ->
  let '(s1, r, ev) := access y a s in
  Inv s1 /\ live s1 = live s /\ created s1 = created s /\ bst s1 = BFinal /\ gds s1 = gds s /\ ev = [] /\
  res_item r = [XEnd] /\ (exn s <> None -> r = REndT).
Proof.
  intros y a s HI Hy Hb.
  destruct s as [lv cr pc0 gd cu bs ca fn ap rt ex dn bl aw ot fu it ak ns er].
  unfold Inv in HI. cbn [err bst out caller done exn gds ret pc] in HI. cbn [bst] in Hb. subst bs.
  destruct HI as (He & Ho & Hc & Hg & Hp & Hr & Hd). subst.
  destruct (valid_style_cases y Hy) as [->|[->|[->|[->|[->|[->| ->]]]]]];
  destruct Hd as [(-> & ->)|(-> & e & ->)]; vm_compute;
  repeat split; eauto; try discriminate; try (intro; discriminate); try (intro H; exfalso; apply H; reflexivity).
Qed.

(* ---------- the whole run ---------- *)
Definition Good (s : sys) : Prop :=
  err s = false /\ (live s = true -> Inv s /\ created s = true) /\ (live s = false -> gds s = []).

Definition nc_next (x : op) (o : obs) (nc : nat) : nat := if ok o && is_complete x then S nc else nc.
Definition step_log (x : op) (o : obs) (nc : nat) : list (item * nat) :=
  tag (nc_next x o nc) (arg_items (o_ev o) ++ (if is_access x || is_complete x then res_item (o_res o) else [])).
Definition cons_arg (x : op) (o : obs) (args : list Z) : list Z :=
  match x with OAccess _ a => if ok o then a :: args else args | _ => args end.

Lemma log_of_cons x ops o os nc :
  log_of (x :: ops) (o :: os) nc = step_log x o nc ++ log_of ops os (nc_next x o nc).
Proof. reflexivity. Qed.

Lemma call_args_cons x ops o os : call_args (x :: ops) (o :: os) = cons_arg x o (call_args ops os).
Proof. destruct x; reflexivity. Qed.

Lemma style_ok_valid ha y : style_ok ha y = true -> valid_style y.
Proof. unfold style_ok, valid_style. lia. Qed.

Lemma step_rejected_log x nc : step_log x rejected nc = [] /\ nc_next x rejected nc = nc /\ forall args, cons_arg x rejected args = args.
Proof. unfold step_log, nc_next, cons_arg. cbn. destruct x; cbn; auto. Qed.

Lemma out_none_not_pend s : Inv s -> out s = None -> bst s = BInit \/ bst s = BYield \/ bst s = BFinal.
Proof.
  intros HI Ho. unfold Inv in HI. destruct (bst s); auto.
  destruct HI as (_ & (y & a & Ho' & _) & _). congruence.
Qed.

Lemma arg_items_dtors gs : arg_items (map EDtor gs) = [].
Proof. induction gs; cbn; auto. Qed.

(* an access is outstanding exactly while the body is suspended on a pending await *)
Lemma inv_out_pend s : Inv s -> ((exists k, bst s = BPend k) <-> out s <> None).
Proof.
  intro HI. unfold Inv in HI. destruct (bst s) eqn:Eb.
  - destruct HI as (_ & Ho & _). rewrite Ho. split; [intros [k H]; discriminate|congruence].
  - destruct HI as (_ & Ho & _). rewrite Ho. split; [intros [k H]; discriminate|congruence].
  - destruct HI as (_ & (y & a & Ho & _) & _). rewrite Ho. split; [discriminate|eauto].
  - destruct HI as (_ & Ho & _). rewrite Ho. split; [intros [k H]; discriminate|congruence].
Qed.

Definition step_ok (s : sys) (x : op) (s1 : sys) (o : obs) : Prop :=
  Good s1 /\
  (forall z, (count_ev (is_ctor z) (o_ev o) + count_z z (gds s) = count_ev (is_dtor z) (o_ev o) + count_z z (gds s1))%nat) /\
  (live s = true -> forall nc args log,
     conforms (step_log x o nc ++ log) (rem s (cons_arg x o args) nc) nc
     = conforms log (rem s1 args (nc_next x o nc)) (nc_next x o nc)) /\
  (live s = false -> created s = true -> live s1 = false /\ created s1 = true /\ forall nc, step_log x o nc = []) /\
  (ok o = true -> (is_access x || is_complete x) = true -> (o_res o = RPend <-> exists k, bst s1 = BPend k)) /\
  ((o_news o - o_dels o = b2z (live s1) - b2z (live s)) /\ (0 <= o_news o) /\ (0 <= o_dels o)) /\
  (created s = true -> created s1 = true).

Lemma step_ok_rejected s x : Good s -> step_ok s x s rejected.
Proof.
  intro HG. split; [exact HG|]. split; [intro; cbn; lia|].
  split. { intros _ nc args log. destruct (step_rejected_log x nc) as (-> & -> & ->). reflexivity. }
  split. { intros Hl Hc. repeat split; auto. intro nc. apply step_rejected_log. }
  split. { cbn. discriminate. }
  split; [cbn; lia|auto].
Qed.

Lemma step_facts : forall ha s x, Good s -> let '(s1, o) := step ha s x in step_ok s x s1 o.
Proof.
  intros ha s x HG.
  destruct x as [sc|y a|k v| | |]; cbn [step].
  - (* Create *)
    destruct (created s) eqn:Ecr; [apply step_ok_rejected; exact HG|].
    destruct HG as (He & HG1 & HG2).
    assert (Hl : live s = false).
    { destruct (live s) eqn:El; auto. destruct (HG1 eq_refl) as [_ H]. congruence. }
    unfold step_ok. cbn [o_ev o_res o_news o_dels live gds created].
    split. { split; [exact He|]. split; [intros _|discriminate]. split; [|reflexivity]. unfold Inv. cbn. repeat split; auto. }
    split. { intro z. rewrite (HG2 Hl). cbn. lia. }
    split. { intro H. congruence. }
    split. { intros _ H. congruence. }
    split. { cbn. discriminate. }
    split; [rewrite Hl; cbn; lia|reflexivity].
  - (* Access *)
    destruct (live s && match out s with None => true | Some _ => false end && style_ok ha y) eqn:G;
      [|apply step_ok_rejected; exact HG].
    apply andb_prop in G. destruct G as [G Hs]. apply andb_prop in G. destruct G as [Hl Ho].
    assert (Ho' : out s = None) by (destruct (out s); [discriminate|reflexivity]).
    pose proof (style_ok_valid ha y Hs) as Hy.
    destruct HG as (He & HG1 & HG2). destruct (HG1 Hl) as [HI Hcr].
    destruct (out_none_not_pend s HI Ho') as [Hb|[Hb|Hb]].
    1,2: (assert (Hb' : bst s = BInit \/ bst s = BYield) by auto;
      pose proof (access_ok y a s HI Hy Hb') as HA;
      destruct (access y a s) as [[s1 r] ev];
      destruct HA as (HI1 & Hl1 & Hcr1 & Hbal & (Hp1 & Hp2) & Hrem);
      unfold step_ok; cbn [o_ev o_res o_news o_dels o_st];
      split; [split; [apply HI1|]; split; [intros _; split; [exact HI1|congruence]|intro H; congruence]|];
      split; [exact Hbal|];
      split; [intros _ nc args log; unfold step_log, nc_next, cons_arg, ok; cbn [o_st o_ev o_res is_access is_complete orb andb Z.eqb];
              rewrite Hrem; unfold step_items; apply conforms_tag_app'; auto|];
      split; [intro H; congruence|];
      split; [intros _ _; exact Hp1|];
      split; [rewrite Hl1; lia|congruence]).
    pose proof (access_final y a s HI Hy Hb) as HA.
    destruct (access y a s) as [[s1 r] ev].
    destruct HA as (HI1 & Hl1 & Hcr1 & Hb1 & Hg1 & -> & Hr & _).
    unfold step_ok; cbn [o_ev o_res o_news o_dels o_st].
    split. { split; [apply HI1|]. split; [intros _; split; [exact HI1|congruence]|intro H; congruence]. }
    split. { intro z. rewrite Hg1. cbn. lia. }
    split. { intros _ nc args log. unfold step_log, nc_next, cons_arg, ok. cbn [o_st o_ev o_res is_access is_complete orb andb Z.eqb arg_items app].
             rewrite Hr. unfold rem. rewrite Hb, Hb1. cbn. rewrite Nat.eqb_refl. reflexivity. }
    split. { intro H; congruence. }
    split. { intros _ _. split; [intro H; subst r; discriminate|intros [k H]; congruence]. }
    split; [rewrite Hl1; lia|congruence].
  - (* Complete *)
    destruct (out s) as [y|] eqn:Ho; [|apply step_ok_rejected; exact HG].
    destruct (bst s) as [| |k'|] eqn:Hb; try (apply step_ok_rejected; exact HG).
    destruct (live s && (k =? k')) eqn:G; [|apply step_ok_rejected; exact HG].
    apply andb_prop in G. destruct G as [Hl Hk].
    destruct HG as (He & HG1 & HG2). destruct (HG1 Hl) as [HI Hcr].
    pose proof (complete_ok y k' v s HI Hb Ho) as HA.
    destruct (run_body s v) as [s1 ev]. destruct (settle y s1) as [s2 r].
    destruct HA as (HI1 & Hl1 & Hcr1 & Hbal & (Hp1 & Hp2) & Hrem).
    unfold step_ok; cbn [o_ev o_res o_news o_dels o_st].
    split. { split; [apply HI1|]. split; [intros _; split; [exact HI1|congruence]|intro H; congruence]. }
    split; [exact Hbal|].
    split. { intros _ nc args log. unfold step_log, nc_next, cons_arg, ok. cbn [o_st o_ev o_res is_access is_complete orb andb Z.eqb].
             rewrite Hrem. unfold step_items. apply conforms_tag_app'.
             intro Hnil. right. apply app_eq_nil in Hnil. destruct Hnil as [_ Hnil].
             destruct (proj1 Hp1 (Hp2 Hnil)) as [k0 Hk0]. unfold rem. rewrite Hk0. apply expected_nonempty. }
    split. { intro H; congruence. }
    split. { intros _ _. exact Hp1. }
    split; [rewrite Hl1; lia|congruence].
  - (* Destroy *)
    destruct (live s && match out s with None => true | Some _ => false end) eqn:G; [|apply step_ok_rejected; exact HG].
    apply andb_prop in G. destruct G as [Hl Ho].
    destruct HG as (He & HG1 & HG2).
    unfold step_ok; cbn [o_ev o_res o_news o_dels o_st].
    split. { split; [exact He|]. split; [cbn; discriminate|reflexivity]. }
    split. { intro z. rewrite count_ctor_map, count_dtor_map. cbn. lia. }
    split. { intros _ nc args log. unfold step_log, nc_next, cons_arg, ok. cbn [o_st o_ev o_res is_access is_complete orb andb Z.eqb].
             rewrite arg_items_dtors. reflexivity. }
    split. { intro H; congruence. }
    split. { cbn. discriminate. }
    split; [rewrite Hl; cbn; lia|reflexivity].
  - (* Peek *)
    destruct (live s && match out s with None => true | Some _ => false end) eqn:G; [|apply step_ok_rejected; exact HG].
    unfold step_ok; cbn [o_ev o_res o_news o_dels o_st].
    split; [exact HG|]. split; [intro; cbn; lia|].
    split. { intros _ nc args log. reflexivity. }
    split. { intros Hl _. apply andb_prop in G. destruct G as [G _]. congruence. }
    split. { cbn. discriminate. }
    split; [lia|auto].
  - apply step_ok_rejected; exact HG.
Qed.

Lemma run_cons ha s x ops :
  run_from ha s (x :: ops) =
  (snd (step ha s x) :: fst (run_from ha (fst (step ha s x)) ops), snd (run_from ha (fst (step ha s x)) ops)).
Proof. cbn [run_from]. destruct (step ha s x) as [s1 o]. cbn [fst snd]. destruct (run_from ha s1 ops); reflexivity. Qed.

Lemma dead_log : forall ha ops s nc, Good s -> live s = false -> created s = true ->
  log_of ops (fst (run_from ha s ops)) nc = [] /\ live (snd (run_from ha s ops)) = false.
Proof.
  induction ops as [|x ops IH]; intros s nc HG Hl Hc; [cbn; auto|].
  rewrite run_cons. cbn [fst snd]. rewrite log_of_cons.
  pose proof (step_facts ha s x HG) as HS. destruct (step ha s x) as [s1 o]. cbn [fst snd].
  destruct HS as (HG1 & _ & _ & HD & _). destruct (HD Hl Hc) as (Hl1 & Hc1 & Hlog).
  rewrite Hlog. cbn [app]. apply IH; auto.
Qed.

(* THE MAIN LEMMA: the log of any run from a good live state conforms to what the body script promises *)
Lemma run_conforms : forall ha ops s nc, Good s -> live s = true ->
  conforms (log_of ops (fst (run_from ha s ops)) nc) (rem s (call_args ops (fst (run_from ha s ops))) nc) nc = true.
Proof.
  induction ops as [|x ops IH]; intros s nc HG Hl; [reflexivity|].
  rewrite run_cons. cbn [fst snd]. rewrite log_of_cons, call_args_cons.
  pose proof (step_facts ha s x HG) as HS. destruct (step ha s x) as [s1 o]. cbn [fst snd].
  destruct HS as (HG1 & _ & HC & _ & _ & _ & Hcr).
  rewrite (HC Hl).
  destruct (live s1) eqn:Hl1.
  - apply IH; auto.
  - destruct HG as (_ & HGl & _). destruct (HGl Hl) as [_ Hc].
    destruct (dead_log ha ops s1 (nc_next x o nc) HG1 Hl1 (Hcr Hc)) as [-> _]. reflexivity.
Qed.

Lemma good0 : Good sys0.
Proof. unfold Good. cbn. repeat split; auto; discriminate. Qed.

Lemma run_good : forall ha ops s, Good s -> Good (snd (run_from ha s ops)).
Proof.
  induction ops as [|x ops IH]; intros s HG; [exact HG|].
  rewrite run_cons. cbn [snd]. apply IH.
  pose proof (step_facts ha s x HG) as HS. destruct (step ha s x) as [s1 o]. apply HS.
Qed.

(* C13 style_independent / sync_waits_async: for every body script, every op list (any mix of styles, any
   completion timing, malformed ops included) the log of what the consumer received and what the body received
   is a prefix of the specification's log, with matching completion counts, and only End follows it. *)
Theorem gen_conforms : forall ha sc ops,
  let os := fst (run_from ha sys0 (OCreate sc :: ops)) in
  conforms (log_of (OCreate sc :: ops) os 0) (spec sc (call_args (OCreate sc :: ops) os)) 0 = true.
Proof.
  intros ha sc ops os. subst os.
  rewrite run_cons. cbn [fst snd]. rewrite log_of_cons, call_args_cons.
  pose proof (step_facts ha sys0 (OCreate sc) good0) as HS.
  cbn [step created sys0] in *.
  destruct HS as (HG1 & _).
  set (s1 := mkSys true true sc [] 0 BInit CNull FNone None None None false false false None FNoVal None false false false) in *.
  change (conforms (log_of ops (fst (run_from ha s1 ops)) 0) (rem s1 (call_args ops (fst (run_from ha s1 ops))) 0) 0 = true).
  apply run_conforms; auto.
Qed.

(* ---------- what conformance means, pointwise ---------- *)
Lemma item_eqb_eq a b : item_eqb a b = true -> a = b.
Proof. destruct a, b; cbn; try discriminate; intro H; try reflexivity; f_equal; lia. Qed.

Lemma conforms_nth : forall log ex np, conforms log ex np = true ->
  forall i r n, nth_error log i = Some (r, n) ->
  match nth_error ex i with
  | Some p => p = (r, n)
  | None => r = XEnd
  end.
Proof.
  induction log as [|[r0 n0] log IH]; intros ex np H i r n Hi; [destruct i; discriminate|].
  cbn [conforms] in H. destruct ex as [|[x m] ex'].
  - apply andb_prop in H. destruct H as [H H2]. apply andb_prop in H. destruct H as [H1 H3].
    destruct i; cbn in *.
    + injection Hi as <- <-. apply item_eqb_eq in H1. exact H1.
    + specialize (IH [] np H2 i r n Hi). destruct i; exact IH.
  - apply andb_prop in H. destruct H as [H H2]. apply andb_prop in H. destruct H as [H1 H3].
    destruct i; cbn in *.
    + injection Hi as <- <-. apply item_eqb_eq in H1. apply Nat.eqb_eq in H3. subst. reflexivity.
    + exact (IH ex' m H2 i r n Hi).
Qed.

(* as long as the specification's log lasts, the observed log is literally its prefix *)
Lemma conforms_prefix : forall log ex np, conforms log ex np = true ->
  forall i, (i <= length log)%nat -> (i <= length ex)%nat -> firstn i log = firstn i ex.
Proof.
  induction log as [|[r0 n0] log IH]; intros ex np H i Hl He.
  - cbn in Hl. assert (i = O) by lia. subst. reflexivity.
  - destruct i; [reflexivity|]. destruct ex as [|[x m] ex']; [cbn in He; lia|].
    cbn [conforms] in H. apply andb_prop in H. destruct H as [H H2]. apply andb_prop in H. destruct H as [H1 H3].
    apply item_eqb_eq in H1. apply Nat.eqb_eq in H3. subst. cbn [firstn]. f_equal.
    apply (IH ex' m H2); cbn in *; lia.
Qed.

(* ---------- shape of the specification ---------- *)
Arguments expected : simpl nomatch.
Definition is_terminal (i : item) : bool := match i with XEnd => true | XExc _ => true | _ => false end.

(* the expected log is: values and argument receptions, then exactly one terminal item (End or the exception) *)
Lemma expected_shape : forall pc cur arg args np,
  exists l t n, expected pc cur arg args np = l ++ [(t, n)] /\ is_terminal t = true /\
                forallb (fun p => negb (is_terminal (fst p))) l = true.
Proof.
  induction pc as [|i t IH]; intros cur arg args np; cbn [expected].
  - exists [], XEnd, np. auto.
  - destruct i; cbn [expected];
    try (destruct (IH cur arg args np) as (l & t0 & n & E & T & F); exists l, t0, n; auto; fail).
    + destruct (IH (hd 0 args) (hd 0 args) (tl args) np) as (l & t0 & n & E & T & F).
      exists ((XVal v, np) :: (XArg (hd 0 args), np) :: l), t0, n. rewrite E. auto.
    + destruct (IH cur arg args (S np)) as (l & t0 & n & E & T & F). exists l, t0, n. auto.
    + exists [], (XExc e), np. auto.
    + exists [], XEnd, np. auto.
    + destruct (IH arg arg args np) as (l & t0 & n & E & T & F).
      exists ((XArg arg, np) :: l), t0, n. rewrite E. auto.
    + destruct (IH (hd 0 args) (hd 0 args) (tl args) np) as (l & t0 & n & E & T & F).
      exists ((XVal cur, np) :: (XArg (hd 0 args), np) :: l), t0, n. rewrite E. auto.
Qed.

Fixpoint count_val (l : list (item * nat)) : nat :=
  match l with
  | [] => O
  | (XVal _, _) :: t => S (count_val t)
  | _ :: t => count_val t
  end.

Lemma nth_hd_tl (k : nat) (l : list Z) : nth k (hd 0 l :: tl l) 0 = nth k l 0.
Proof. destruct l; [destruct k as [|[|k]]; reflexivity|reflexivity]. Qed.

(* every argument the body receives is the argument of the call that resumed it: the number of values
   delivered before that point identifies the call (call 0 started the body) *)
Lemma expected_args : forall pc cur arg rest np pre a n post,
  expected pc cur arg rest np = pre ++ (XArg a, n) :: post ->
  a = nth (count_val pre) (arg :: rest) 0.
Proof.
  induction pc as [|i t IH]; intros cur arg rest np pre a n post H; cbn [expected] in H.
  - destruct pre as [|p [|q pre]]; cbn in H; discriminate.
  - destruct i; cbn [expected] in H; try (eapply IH; exact H; fail).
    + destruct pre as [|p pre]; [discriminate|]. injection H as <- H.
      destruct pre as [|q pre]; cbn in H.
      * injection H as <- _ _. cbn. destruct rest; reflexivity.
      * injection H as <- H. cbn [count_val]. apply IH in H. rewrite H. cbn [nth]. apply nth_hd_tl.
    + destruct pre as [|p [|q pre]]; cbn in H; discriminate.
    + destruct pre as [|p [|q pre]]; cbn in H; discriminate.
    + destruct pre as [|p pre]; cbn in H.
      * injection H as <- _ _. reflexivity.
      * injection H as <- H. cbn [count_val]. eapply IH. exact H.
    + destruct pre as [|p pre]; [discriminate|]. injection H as <- H.
      destruct pre as [|q pre]; cbn in H.
      * injection H as <- _ _. cbn. destruct rest; reflexivity.
      * injection H as <- H. cbn [count_val]. apply IH in H. rewrite H. cbn [nth]. apply nth_hd_tl.
Qed.

Arguments expected : simpl never.

Lemma spec_args sc args pre a n post :
  spec sc args = pre ++ (XArg a, n) :: post -> a = nth (count_val pre) args 0.
Proof.
  unfold spec. intro H. apply expected_args in H. rewrite H. apply nth_hd_tl.
Qed.

(* ---------- run-level RAII balance and frame accounting ---------- *)
Lemma all_events_cons o os : all_events (o :: os) = o_ev o ++ all_events os.
Proof. reflexivity. Qed.

Lemma run_balance : forall ha ops s z, Good s ->
  (count_ev (is_ctor z) (all_events (fst (run_from ha s ops))) + count_z z (gds s)
   = count_ev (is_dtor z) (all_events (fst (run_from ha s ops))) + count_z z (gds (snd (run_from ha s ops))))%nat.
Proof.
  induction ops as [|x ops IH]; intros s z HG; [cbn; lia|].
  rewrite run_cons. cbn [fst snd]. rewrite all_events_cons, !count_ev_app.
  pose proof (step_facts ha s x HG) as HS. destruct (step ha s x) as [s1 o]. cbn [fst snd].
  destruct HS as (HG1 & HB & _). specialize (HB z). specialize (IH s1 z HG1). lia.
Qed.

Lemma run_frames : forall ha ops s, Good s ->
  sumz (map o_news (fst (run_from ha s ops))) - sumz (map o_dels (fst (run_from ha s ops)))
  = b2z (live (snd (run_from ha s ops))) - b2z (live s).
Proof.
  induction ops as [|x ops IH]; intros s HG; [cbn; lia|].
  rewrite run_cons. cbn [fst snd map sumz].
  pose proof (step_facts ha s x HG) as HS. destruct (step ha s x) as [s1 o]. cbn [fst snd].
  destruct HS as (HG1 & _ & _ & _ & _ & (HF & _) & _). specialize (IH s1 HG1). lia.
Qed.

(* C13 destroy_parked *)
Theorem gen_destroy_balance : forall ha ops z,
  let r := run_from ha sys0 ops in
  let evs := all_events (fst r) in
  (count_ev (is_ctor z) evs = count_ev (is_dtor z) evs + count_z z (gds (snd r)))%nat /\
  (live (snd r) = false -> count_ev (is_ctor z) evs = count_ev (is_dtor z) evs) /\
  (live (snd r) = true -> bst (snd r) = BFinal -> count_ev (is_ctor z) evs = count_ev (is_dtor z) evs) /\
  sumz (map o_news (fst r)) - sumz (map o_dels (fst r)) = b2z (live (snd r)).
Proof.
  intros ha ops z r evs. subst r evs.
  pose proof (run_balance ha ops sys0 z good0) as HB. cbn [gds sys0 count_z] in HB.
  pose proof (run_good ha ops sys0 good0) as HG.
  pose proof (run_frames ha ops sys0 good0) as HF. cbn [live sys0 b2z] in HF.
  destruct HG as (_ & HG1 & HG2).
  split; [lia|]. split; [intro Hl; rewrite (HG2 Hl) in HB; cbn in HB; lia|].
  split; [|lia].
  intros Hl Hb. destruct (HG1 Hl) as [HI _]. unfold Inv in HI. rewrite Hb in HI.
  destruct HI as (_ & _ & _ & Hg & _). rewrite Hg in HB. cbn in HB. lia.
Qed.

(* what a Destroy op does in a reachable state: runs the destructor of every live local once, youngest first,
   frees the frame; afterwards nothing is accepted any more *)
Theorem gen_destroy_step : forall ha ops,
  let s := snd (run_from ha sys0 ops) in
  live s = true -> out s = None ->
  let '(s1, o) := step ha s ODestroy in
  o_ev o = map EDtor (gds s) /\ o_dels o = 1 /\ o_news o = 0 /\ live s1 = false /\ gds s1 = [] /\
  (bst s = BInit -> o_ev o = []) /\
  forall x, snd (step ha s1 x) = rejected.
Proof.
  intros ha ops s Hl Ho. cbn [step]. rewrite Hl, Ho. cbn [andb].
  pose proof (run_good ha ops sys0 good0) as HG. fold s in HG. destruct HG as (_ & HG1 & _).
  destruct (HG1 Hl) as [HI Hc].
  repeat split; auto.
  - intro Hb. unfold Inv in HI. rewrite Hb in HI. destruct HI as (_ & _ & _ & _ & _ & Hg). cbn. rewrite Hg. reflexivity.
  - intro x. destruct x; cbn; auto. destruct (out s); auto. destruct (bst s); auto.
Qed.

(* C13 sync_waits_async, state form *)
Theorem gen_pending_iff_suspended : forall ha ops x,
  let s := snd (run_from ha sys0 ops) in
  let '(s1, o) := step ha s x in
  (ok o = true -> (is_access x || is_complete x) = true -> (o_res o = RPend <-> exists k, bst s1 = BPend k)) /\
  (live s1 = true -> ((exists k, bst s1 = BPend k) <-> out s1 <> None)) /\
  err s1 = false.
Proof.
  intros ha ops x s.
  pose proof (run_good ha ops sys0 good0) as HG. fold s in HG.
  pose proof (step_facts ha s x HG) as HS. destruct (step ha s x) as [s1 o].
  destruct HS as ((He & HG1 & _) & _ & _ & _ & HP & _).
  split; [exact HP|]. split; [|exact He].
  intro Hl. destruct (HG1 Hl) as [HI _]. apply inv_out_pend. exact HI.
Qed.

(* ---------- exception position ---------- *)
Lemma forallb_nth {A} (P : A -> bool) l i x : forallb P l = true -> nth_error l i = Some x -> P x = true.
Proof. intros H Hn. rewrite forallb_forall in H. apply H. eapply nth_error_In. exact Hn. Qed.

Theorem gen_exception_position : forall ha sc ops i e n,
  let os := fst (run_from ha sys0 (OCreate sc :: ops)) in
  let log := log_of (OCreate sc :: ops) os 0 in
  let sp := spec sc (call_args (OCreate sc :: ops) os) in
  nth_error log i = Some (XExc e, n) ->
  firstn (S i) log = firstn (S i) sp /\ S i = length sp /\
  forall j r m, (i < j)%nat -> nth_error log j = Some (r, m) -> r = XEnd.
Proof.
  intros ha sc ops i e n os log sp Hi.
  pose proof (gen_conforms ha sc ops) as HC. fold os log sp in HC. cbv zeta in HC.
  pose proof (conforms_nth log sp 0%nat HC i (XExc e) n Hi) as Hn.
  destruct (nth_error sp i) as [p|] eqn:Esp; [subst p|discriminate].
  assert (Hlen : S i = length sp).
  { unfold sp, spec in *. destruct (expected_shape sc 0 (hd 0 (call_args (OCreate sc :: ops) os)) (tl (call_args (OCreate sc :: ops) os)) 0)
      as (l & t & n' & E & T & F). rewrite E in *. rewrite app_length. cbn [length].
    destruct (Nat.lt_ge_cases i (length l)) as [Hlt|Hge].
    - rewrite nth_error_app1 in Esp by exact Hlt. pose proof (forallb_nth _ _ _ _ F Esp) as HH. cbn in HH. discriminate.
    - assert (i < length (l ++ [(t, n')]))%nat by (apply nth_error_Some; congruence).
      rewrite app_length in H. cbn in H. lia. }
  split.
  { apply (conforms_prefix log sp 0%nat HC); [|lia].
    assert (i < length log)%nat by (apply nth_error_Some; congruence). lia. }
  split; [exact Hlen|].
  intros j r m Hj Hnj. pose proof (conforms_nth log sp 0%nat HC j r m Hnj) as H.
  assert (nth_error sp j = None) by (apply nth_error_None; lia). rewrite H0 in H. exact H.
Qed.

(* ---------- argument delivery ---------- *)
Lemma nth_error_split' {A} (l : list A) i x : nth_error l i = Some x -> l = firstn i l ++ x :: skipn (S i) l.
Proof.
  revert i. induction l as [|y l IH]; intros [|i] H; cbn in *; try discriminate.
  - injection H as ->. reflexivity.
  - f_equal. apply IH. exact H.
Qed.

Theorem gen_argument_delivery : forall ha sc ops i a n,
  let os := fst (run_from ha sys0 (OCreate sc :: ops)) in
  let log := log_of (OCreate sc :: ops) os 0 in
  nth_error log i = Some (XArg a, n) ->
  a = nth (count_val (firstn i log)) (call_args (OCreate sc :: ops) os) 0.
Proof.
  intros ha sc ops i a n os log Hi.
  pose proof (gen_conforms ha sc ops) as HC. fold os log in HC. cbv zeta in HC.
  set (sp := spec sc (call_args (OCreate sc :: ops) os)) in *.
  pose proof (conforms_nth log sp 0%nat HC i (XArg a) n Hi) as Hn.
  destruct (nth_error sp i) as [p|] eqn:Esp; [subst p|discriminate].
  assert (Hil : (i < length log)%nat) by (apply nth_error_Some; congruence).
  assert (His : (i < length sp)%nat) by (apply nth_error_Some; congruence).
  rewrite (conforms_prefix log sp 0%nat HC i) by lia.
  apply nth_error_split' in Esp. unfold sp in Esp at 1. apply spec_args in Esp. exact Esp.
Qed.


(* ======================= wire level: the oracle applied to the model's own wire output ======================= *)
Definition keep_ev (ha : bool) (e : event) : bool := match e with EArg _ => ha | _ => true end.

Lemma dec_enc_events ha l : dec_events (enc_events ha l) = filter (keep_ev ha) l.
Proof.
  induction l as [|e l IH]; [reflexivity|].
  destruct e; cbn [enc_events filter keep_ev]; try (cbn; rewrite IH; reflexivity).
  destruct ha; cbn; rewrite IH; reflexivity.
Qed.

Lemma dec_enc_res r : dec_res (fst (enc_res r)) (snd (enc_res r)) = r.
Proof. destruct r; reflexivity. Qed.

Definition filt_obs (ha : bool) (o : obs) : obs :=
  mkObs (o_st o) (o_res o) (o_done o) (o_news o) (o_dels o) (filter (keep_ev ha) (o_ev o)) (o_cnt o).

Lemma dec_enc_obs ha o : dec_obs (encode_obs ha o) = filt_obs ha o.
Proof. unfold encode_obs, dec_obs, filt_obs. rewrite dec_enc_res, dec_enc_events. reflexivity. Qed.

Lemma arg_items_filter ha l : arg_items (filter (keep_ev ha) l) = if ha then arg_items l else [].
Proof.
  induction l as [|e l IH]; [destruct ha; reflexivity|].
  destruct e; cbn [filter keep_ev arg_items]; auto.
  destruct ha; cbn; rewrite IH; reflexivity.
Qed.

Definition not_arg (p : item * nat) : bool := match fst p with XArg _ => false | _ => true end.

Lemma visible_filter l : visible false l = filter not_arg l.
Proof. reflexivity. Qed.

Lemma res_item_not_arg r n : filter not_arg (map (fun i => (i, n)) (res_item r)) = map (fun i => (i, n)) (res_item r).
Proof. destruct r; reflexivity. Qed.

Lemma arg_items_all_arg l n : filter not_arg (map (fun i => (i, n)) (arg_items l)) = [].
Proof. induction l as [|e l IH]; [reflexivity|]. destruct e; cbn; auto. Qed.

(* the log computed from the decoded wire observations is the visible part of the model's log *)
Lemma log_of_filt ha : forall ops os nc,
  visible ha (log_of ops (map (filt_obs ha) os) nc) = visible ha (log_of ops os nc).
Proof.
  destruct ha.
  - intros ops os nc. f_equal. f_equal.
    assert (H : forall l, filter (keep_ev true) l = l) by (induction l as [|e l IH]; [reflexivity|destruct e; cbn; rewrite IH; reflexivity]).
    induction os as [|o os IH]; [reflexivity|]. cbn [map]. rewrite IH. f_equal.
    unfold filt_obs. rewrite H. destruct o; reflexivity.
  - intros ops os nc. rewrite !visible_filter. revert os nc. induction ops as [|x ops IH]; intros [|o os] nc; try reflexivity.
    cbn [map log_of]. replace (ok (filt_obs false o)) with (ok o) by reflexivity.
    rewrite !filter_app, IH. f_equal.
    unfold filt_obs at 1 2. cbn [o_ev o_res]. rewrite arg_items_filter. cbn [app].
    rewrite map_app, filter_app, arg_items_all_arg. reflexivity.
Qed.

Lemma call_args_filt ha : forall ops os, call_args ops (map (filt_obs ha) os) = call_args ops os.
Proof.
  induction ops as [|x ops IH]; intros [|o os]; try reflexivity; try (destruct x; reflexivity).
  destruct x; cbn [map call_args]; rewrite ?IH; try reflexivity.
Qed.

(* ---------- conformance survives hiding the argument items ---------- *)
Definition ends_kept (ex : list (item * nat)) : Prop := ex = [] \/ not_arg (last ex (XEnd, O)) = true.

Lemma ends_kept_tail p ex : ex <> [] -> ends_kept (p :: ex) -> ends_kept ex.
Proof. intros Hne [H|H]; [discriminate|]. right. destruct ex; [congruence|exact H]. Qed.

Lemma filter_nonempty_of_last ex : ex <> [] -> not_arg (last ex (XEnd, O)) = true -> filter not_arg ex <> [].
Proof.
  induction ex as [|p ex IH]; [congruence|]. intros _ H. cbn [filter].
  destruct ex as [|q ex'].
  - cbn in H. rewrite H. discriminate.
  - destruct (not_arg p); [discriminate|]. apply IH; [discriminate|exact H].
Qed.

Lemma conforms_filter : forall log ex np, ends_kept ex -> conforms log ex np = true ->
  conforms (filter not_arg log) (filter not_arg ex) np = true.
Proof.
  induction log as [|[r n] log IH]; intros ex np HK H; [reflexivity|].
  cbn [conforms] in H. destruct ex as [|[x m] ex'].
  - apply andb_prop in H. destruct H as [H H2]. apply andb_prop in H. destruct H as [H1 H3].
    apply item_eqb_eq in H1. subst r. cbn [filter not_arg fst conforms]. rewrite H3. cbn.
    apply (IH [] np); [left; reflexivity|exact H2].
  - apply andb_prop in H. destruct H as [H H2]. apply andb_prop in H. destruct H as [H1 H3].
    apply item_eqb_eq in H1. apply Nat.eqb_eq in H3. subst r n.
    assert (HK' : ends_kept ex') by (destruct ex'; [left; reflexivity|apply (ends_kept_tail (x, m)); [discriminate|exact HK]]).
    cbn [filter]. destruct (not_arg (x, m)) eqn:E.
    + cbn [conforms]. rewrite item_eqb_refl, Nat.eqb_refl. cbn. apply IH; assumption.
    + specialize (IH ex' m HK' H2).
      destruct ex' as [|q ex''].
      * (* the dropped item was the last one: impossible, the last item is kept *)
        destruct HK as [HK|HK]; [discriminate|]. cbn in HK. congruence.
      * rewrite (conforms_np_irrel _ _ np m); [exact IH|].
        destruct HK' as [HK'|HK']; [discriminate|]. apply filter_nonempty_of_last; [discriminate|exact HK'].
Qed.

Lemma spec_ends_kept sc args : ends_kept (spec sc args).
Proof.
  unfold spec. destruct (expected_shape sc 0 (hd 0 args) (tl args) 0) as (l & t & n & E & T & _).
  right. rewrite E. rewrite last_last. unfold not_arg. cbn. destruct t; try discriminate; reflexivity.
Qed.

(* ---------- no Bad answer, resumption counts ---------- *)
Lemma settle_not_bad y s : snd (settle y s) <> RBad.
Proof.
  unfold settle. destruct (released y s) eqn:R; [|cbn; discriminate].
  unfold consumer_continue, released in *.
  destruct (fut_style y) eqn:F.
  - destruct (sync_style y) eqn:SS; [exfalso; unfold sync_style, fut_style in *; lia|].
    destruct (fut s); cbn; try discriminate.
  - cbn. destruct (negb (done s)); cbn; [|discriminate].
    unfold value_of. cbn.
    repeat match goal with |- context [match ?x with _ => _ end] => destruct x end; cbn; discriminate.
Qed.

Lemma access_not_bad y a s : snd (fst (access y a s)) <> RBad.
Proof.
  unfold access.
  repeat match goal with
  | |- context [if ?c then _ else _] => destruct c
  end; cbn [fst snd]; try discriminate;
  match goal with
  | |- context [run_body ?x ?v] => destruct (run_body x v) as [s3 ev]
  end;
  pose proof (settle_not_bad y s3) as H; destruct (settle y s3) as [s4 r]; exact H.
Qed.

Lemma step_not_bad ha s x : o_res (snd (step ha s x)) <> RBad.
Proof.
  destruct x; cbn [step].
  - destruct (created s); cbn; discriminate.
  - destruct (live s && _ && style_ok ha y); [|cbn; discriminate].
    pose proof (access_not_bad y a s) as H. destruct (access y a s) as [[s1 r] ev]. exact H.
  - destruct (out s) as [y|]; [|cbn; discriminate]. destruct (bst s); try (cbn; discriminate).
    destruct (live s && (k =? k0)); [|cbn; discriminate].
    destruct (run_body s v) as [s1 ev]. pose proof (settle_not_bad y s1) as H. destruct (settle y s1) as [s2 r]. exact H.
  - destruct (live s && _); cbn; discriminate.
  - destruct (live s && _); [|cbn; discriminate]. cbn. unfold value_of.
    repeat match goal with |- context [match ?x with _ => _ end] => destruct x end; discriminate.
  - cbn. discriminate.
Qed.

Lemma run_no_bad ha : forall ops s, no_bad (fst (run_from ha s ops)) = true.
Proof.
  induction ops as [|x ops IH]; intro s; [reflexivity|].
  rewrite run_cons. cbn [fst no_bad forallb]. fold (no_bad (fst (run_from ha (fst (step ha s x)) ops))).
  rewrite IH. pose proof (step_not_bad ha s x) as H. destruct (o_res (snd (step ha s x))); try reflexivity. congruence.
Qed.

Lemma step_cnt ha s x : 0 <= o_cnt (snd (step ha s x)) <= 1.
Proof.
  assert (R : forall y b r, 0 <= resumes y b r <= 1) by (intros y b r; unfold resumes; destruct ((y =? 6) && b); [destruct r|]; lia).
  destruct x; cbn [step].
  - destruct (created s); cbn; lia.
  - destruct (live s && _ && style_ok ha y); [|cbn; lia]. destruct (access y a s) as [[s1 r] ev]. cbn. apply R.
  - destruct (out s) as [y|]; [|cbn; lia]. destruct (bst s); try (cbn; lia).
    destruct (live s && (k =? k0)); [|cbn; lia].
    destruct (run_body s v) as [s1 ev]. destruct (settle y s1) as [s2 r]. cbn. apply R.
  - destruct (live s && _); cbn; lia.
  - destruct (live s && _); cbn; lia.
  - cbn. lia.
Qed.

Lemma run_length ha : forall ops s, length (fst (run_from ha s ops)) = length ops.
Proof. induction ops as [|x ops IH]; intro s; [reflexivity|]. rewrite run_cons. cbn. rewrite IH. reflexivity. Qed.

(* C13 at wire level: for every case whose first op is a well-formed Create, the oracle clauses "same number of
   lines", "no Bad answer", "the visible log conforms to the specification of the script" and "resumption counts
   in {0,1}" hold when the oracle is applied to the model's own wire output (encode, then decode as the oracle does) *)
Theorem gen_oracle_core : forall ha scw wops, Nat.even (length scw) = true ->
  let wire := (0 :: scw) :: wops in
  let ops := map (decode ha) wire in
  let os := map dec_obs (gen_run ha wire) in
  length ops = length os /\
  no_bad os = true /\
  conforms (visible ha (log_of ops os 0)) (visible ha (spec (decode_script ha scw) (call_args ops os))) 0 = true /\
  forallb (fun o => (0 <=? o_cnt o) && (o_cnt o <=? 1)) os = true.
Proof.
  intros ha scw wops He wire ops os. subst os. unfold gen_run. fold ops.
  rewrite map_map. rewrite (map_ext _ (filt_obs ha) (dec_enc_obs ha)).
  set (ros := fst (run_from ha sys0 ops)).
  assert (Hops : ops = OCreate (decode_script ha scw) :: map (decode ha) wops).
  { unfold ops, wire. cbn [map decode]. rewrite He. reflexivity. }
  split; [rewrite map_length; unfold ros; rewrite run_length; reflexivity|].
  split.
  { unfold no_bad. rewrite forallb_forall. intros o Ho. apply in_map_iff in Ho. destruct Ho as (o' & <- & Ho').
    pose proof (run_no_bad ha ops sys0) as H. unfold no_bad in H. rewrite forallb_forall in H. exact (H o' Ho'). }
  split.
  { rewrite log_of_filt, call_args_filt.
    pose proof (gen_conforms ha (decode_script ha scw) (map (decode ha) wops)) as HC. cbv zeta in HC. rewrite <- Hops in HC. fold ros in HC.
    destruct ha; [exact HC|].
    rewrite !visible_filter. apply conforms_filter; [apply spec_ends_kept|exact HC]. }
  rewrite forallb_forall. intros o Ho. apply in_map_iff in Ho. destruct Ho as (o' & <- & Ho').
  unfold filt_obs. cbn [o_cnt].
  assert (H : forall ops0 s, Forall (fun o => 0 <= o_cnt o <= 1) (fst (run_from ha s ops0))).
  { induction ops0 as [|x0 ops0 IH]; intro s; [constructor|]. rewrite run_cons. cbn [fst]. constructor; [apply step_cnt|apply IH]. }
  specialize (H ops sys0). rewrite Forall_forall in H. specialize (H o' Ho'). lia.
Qed.
