(* SchedApiDefs.v — reference model for the direct ready-queue API scenarios of C05 (engine sapi, harness/seq_sched.cpp):
   callbacks that throw under install_queue_and_call / create_suspend_point after making coroutines ready, and suspend points
   merged by assignment.  n waiters 1..n subscribed in that order form the chain n..1 (lock-free stack). *)
From Cocls Require Import Base.
Local Open Scope Z_scope.

Fixpoint desc (n : nat) (first : Z) : list Z :=       (* first+n-1, ..., first *)
  match n with O => [] | S k => (first + Z.of_nat k) :: desc k first end.

Definition in_range (x lo hi : Z) : bool := (lo <=? x) && (x <=? hi).

(* op [1; n; thr] install_queue_and_call(fn), fn: promise(v) discarded (queued: coroutine mode), throws iff thr
      obs [0; resumed inside fn; is_active after; queue length after; caught; resumption order...]
        coro_queue.h:103-111: the trailer flushes and uninstalls also when fn throws; flush is FIFO = chain order
   op [2; n; thr] create_suspend_point(fn) from normal code (suspend_point.h:318-345): without a throw the queued handles are
        moved back (from the back of the queue) into the returned suspend point, which normal code discards: resumed in that
        order = 1..n; with a throw the inner install_queue_and_call flushes during unwinding: n..1
   op [3; n1; n2; aw] sp = p1(v); sp = p2(v) (operator= merges, suspend_point.h:93); aw=0 discarded by normal code: resumed in
        array order; aw=1 co_awaited by a driver coroutine: last handle first, the others, then the driver (logged as 0)
      obs [0; is_active after; queue length after; resumption order...] *)
Definition sapi_step (l : list Z) : list Z :=
  match l with
  | [1; n; thr] =>
      if in_range n 0 12 && in_range thr 0 1 then [0; 0; 0; 0; thr] ++ desc (Z.to_nat n) 1 else [1]
  | [2; n; thr] =>
      if in_range n 0 12 && in_range thr 0 1
      then [0; 0; 0; 0; thr] ++ (if thr =? 0 then rev (desc (Z.to_nat n) 1) else desc (Z.to_nat n) 1) else [1]
  | [3; n1; n2; aw] =>
      if in_range n1 0 8 && in_range n2 0 8 && in_range aw 0 1 then
        let hs := desc (Z.to_nat n1) 1 ++ desc (Z.to_nat n2) 101 in
        if aw =? 0 then [0; 0; 0] ++ hs
        else match hs with [] => [0; 0; 0; 0] | _ => [0; 0; 0] ++ [last hs 0] ++ removelast hs ++ [0] end
      else [1]
  | [4; nq] =>
      (* a running coroutine queues nq waiters (discarded suspend point), then calls coro_queue::resume(h) (coro_queue.h:130-138:
         coroutine mode => push_back), logs 0 and finishes; then the flush: the waiters in chain order, then h (logs 50) *)
      if in_range nq 0 8 then [0; 0; 0; 0] ++ desc (Z.to_nat nq) 1 ++ [50] else [1]
  | [5; n] =>
      (* sp = co_await self(); sp << child_i.detach() for i = 1..n; co_await sp  (suspend_point.h:167-183): the last handle runs by
         symmetric transfer; the awaiter's own handle, found inside the suspend point, is queued ONCE (not appended again); then
         the other children.  n = 0: the popped handle is the awaiter itself, it simply continues. *)
      if in_range n 0 8 then
        match Z.to_nat n with
        | O => [0; 0; 0; 0]
        | S k => [0; 0; 0] ++ [n] ++ [0] ++ rev (desc k 1)
        end
      else [1]
  | [6; n] =>
      (* a running coroutine calls clear() on a suspend point holding n waiters (suspend_point.h:108-110 = suspend_now: coroutine
         mode queues them), logs 0, finishes; then the flush in chain order *)
      if in_range n 0 8 then [0; 0; 0; 0] ++ desc (Z.to_nat n) 1 else [1]
  | _ => [1]
  end.
Definition sapi_run (ops : list (list Z)) : list (list Z) := map sapi_step ops.

(* the property on an observed line: nothing ran inside the callback, coroutine mode is off and the queue empty when normal code
   continues, and exactly the coroutines made ready were resumed, each once (the driver last when it awaited) *)
Definition sapi_ok (op o : list Z) : bool :=
  match op, o with
  | [1; n; _], 0 :: inside :: act :: ql :: _ :: order
  | [2; n; _], 0 :: inside :: act :: ql :: _ :: order =>
      (inside =? 0) && (act =? 0) && (ql =? 0) && perm_b order (desc (Z.to_nat n) 1)
  | [3; n1; n2; aw], 0 :: act :: ql :: order =>
      let hs := desc (Z.to_nat n1) 1 ++ desc (Z.to_nat n2) 101 in
      (act =? 0) && (ql =? 0) &&
      (if aw =? 0 then perm_b order hs else perm_b order (0 :: hs) && (last order 1 =? 0))
  | [4; nq], 0 :: act :: ql :: order =>
      (* nothing resumed before the caller went on (its marker 0 comes first), everything resumed once, FIFO: h last *)
      (act =? 0) && (ql =? 0) && perm_b order (0 :: 50 :: desc (Z.to_nat nq) 1) && (hd 1 order =? 0) && (last order 1 =? 50)
  | [5; n], 0 :: act :: ql :: order =>
      (* everybody resumed exactly once — in particular the awaiter itself (0) *)
      (act =? 0) && (ql =? 0) && perm_b order (0 :: desc (Z.to_nat n) 1)
  | [6; n], 0 :: act :: ql :: order =>
      (* clear() does not pre-empt the caller: its marker first; everybody once *)
      (act =? 0) && (ql =? 0) && perm_b order (0 :: desc (Z.to_nat n) 1) && (hd 1 order =? 0)
  | _, [1] => true
  | _, _ => false
  end.
Fixpoint sapi_all (ops obs : list (list Z)) : bool :=
  match ops, obs with
  | [], [] => true
  | a :: t, b :: u => sapi_ok a b && sapi_all t u
  | _, _ => false
  end.
Definition sapi_oracle (ops obs : list (list Z)) : bool := sapi_all ops obs.
