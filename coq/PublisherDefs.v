(* PublisherDefs.v — executable model of cocls::publisher<T>::queue and of the part of
   cocls::subscriber<T> that talks to it (publisher.h).  Model only; proofs are in PublisherProofs.v.

   Everything below the "test level" marker is a line-by-line transcription of the *_lk functions;
   std::size_t is Z with the wrap-around written explicitly (wrap) at every place where the C++
   expression is evaluated in size_t.  Line numbers refer to /repo/src/cocls/publisher.h. *)
From Cocls Require Import Base.
Local Open Scope Z_scope.

Definition W : Z := 18446744073709551616.          (* 2^64 *)
Definition wrap (z : Z) : Z := z mod W.
Definition unlimited : Z := W - 1.                 (* std::numeric_limits<size_t>::max(), line 155 *)

(* subreg_t, lines 143-149.  r_awt: None = nullptr, Some a = awaiter with id a *)
Record reg := mkReg { r_pos : Z; r_sub : Z; r_awt : option Z; r_used : bool; r_kicked : bool }.
Definition reg0 : reg := mkReg 0 0 None false false.

(* queue members, lines 155-164.  qd = _q, newest value first; qpos = _pos *)
Record pubq := mkQ { regs : list reg; next_free : Z; qd : list Z; qpos : Z; closed : bool;
                     minl : Z; maxl : Z }.
Definition pubq0 (mn mx : Z) : pubq := mkQ [] 0 [] 1 false mn mx.

Definition rget (l : list reg) (h : nat) : reg := nth h l reg0.
Definition with_regs (s : pubq) (r : list reg) : pubq :=
  mkQ r (next_free s) (qd s) (qpos s) (closed s) (minl s) (maxl s).
Definition set_reg (s : pubq) (h : nat) (x : reg) : pubq := with_regs s (set_nth (regs s) h x).
Definition with_pos (x : reg) (p : Z) : reg := mkReg p (r_sub x) (r_awt x) (r_used x) (r_kicked x).
Definition with_awt (x : reg) (a : option Z) : reg := mkReg (r_pos x) (r_sub x) a (r_used x) (r_kicked x).

(* subscribe_lk(sub,pos), lines 166-183 *)
Definition subscribe_lk (s : pubq) (sub p : Z) : pubq * nat :=
  if zlen (regs s) <=? next_free s then                                     (* 168 *)
    (mkQ (regs s ++ [mkReg p sub None true false]) (zlen (regs s) + 1)      (* 170-171 *)
         (qd s) (qpos s) (closed s) (minl s) (maxl s), length (regs s))
  else
    let h := Z.to_nat (next_free s) in                                      (* 173 *)
    let l := rget (regs s) h in
    (mkQ (set_nth (regs s) h (mkReg p sub None true false)) (r_pos l)       (* 175-180 *)
         (qd s) (qpos s) (closed s) (minl s) (maxl s), h).
(* subscribe_lk(sub), line 185, and subscribe_lk(h,sub), line 189 *)
Definition subscribe_recent_lk (s : pubq) (sub : Z) : pubq * nat := subscribe_lk s sub (wrap (qpos s - 1)).
Definition subscribe_copy_lk (s : pubq) (h : nat) (sub : Z) : pubq * nat :=
  subscribe_lk s sub (r_pos (rget (regs s) h)).

(* leave_lk, lines 194-200 (the assert(l._used) is the caller's obligation: test level rejects) *)
Definition leave_lk (s : pubq) (h : nat) : pubq :=
  let l := rget (regs s) h in
  mkQ (set_nth (regs s) h (mkReg (next_free s) (r_sub l) (r_awt l) false (r_kicked l)))
      (Z.of_nat h) (qd s) (qpos s) (closed s) (minl s) (maxl s).

(* advance_lk, lines 202-219.  t: 0 all_values, 1 skip_if_behind, 2 skip_to_recent (default = all_values) *)
Definition advance_lk (s : pubq) (h : nat) (t : Z) : pubq * bool :=
  let l := rget (regs s) h in
  if r_kicked l then (s, false) else                                              (* 204 *)
  if (wrap (r_pos l + 1) =? qpos s) && negb (closed s) then (s, false) else       (* 205 *)
  let np := if t =? 1 then Z.max (wrap (r_pos l + 1)) (wrap (qpos s - zlen (qd s)))   (* 212 *)
            else if t =? 2 then Z.max (wrap (r_pos l + 1)) (wrap (qpos s - 1))        (* 215 *)
            else wrap (r_pos l + 1) in                                                (* 209 *)
  (set_reg s h (with_pos l np), true).

(* advance_suspend_lk, lines 221-232 (the code as it is now, after fix 6157a59) *)
Definition advance_suspend_lk (s : pubq) (h : nat) (a : Z) : pubq * bool :=
  let l := rget (regs s) h in
  if r_kicked l then (s, false) else                                   (* 223 *)
  let l1 := with_pos l (wrap (r_pos l + 1)) in                         (* 224 *)
  if closed s then (set_reg s h l1, false) else                        (* 225 *)
  if r_pos l1 =? qpos s then (set_reg s h (with_awt l1 (Some a)), true)  (* 226-228 *)
  else (set_reg s h l1, false).                                        (* 230 *)

(* the same function before fix 6157a59: `if (l._kicked || _closed) return false; l._pos++;` *)
Definition advance_suspend_lk_old (s : pubq) (h : nat) (a : Z) : pubq * bool :=
  let l := rget (regs s) h in
  if r_kicked l || closed s then (s, false) else
  let l1 := with_pos l (wrap (r_pos l + 1)) in
  if r_pos l1 =? qpos s then (set_reg s h (with_awt l1 (Some a)), true)
  else (set_reg s h l1, false).

(* get_value_lk, lines 233-253.  _q[i] with i >= _q.size() is undefined behaviour: GUb *)
Inductive gres := GVal (v : Z) | GEos | GUb.
Definition qidx (q : list Z) (i : Z) : gres :=
  if (0 <=? i) && (i <? zlen q)
  then match nth_error q (Z.to_nat i) with Some v => GVal v | None => GUb end
  else GUb.

(* get_value_lk as it is now (after fixes/C16-skip-dup): the skipping modes move the reader to the value they return,
   and a reader at or behind the end of the stream gets end of stream in every mode *)
Definition get_value_lk (s : pubq) (h : nat) (t : Z) : pubq * gres :=
  let l := rget (regs s) h in
  if r_kicked l || (qpos s <=? r_pos l) then (s, GEos) else              (* l._kicked || l._pos >= _pos *)
  let relpos := wrap (qpos s - r_pos l - 1) in
  if t =? 1 then
    if zlen (qd s) <=? relpos then                                       (* clamp to the oldest retained value *)
      let rp := wrap (zlen (qd s) - 1) in
      match qidx (qd s) rp with
      | GVal v => (set_reg s h (with_pos l (wrap (qpos s - rp - 1))), GVal v)   (* l._pos = _pos - relpos - 1 *)
      | g => (s, g)
      end
    else (s, qidx (qd s) relpos)
  else if t =? 2 then
    match qidx (qd s) 0 with
    | GVal v => (set_reg s h (with_pos l (wrap (qpos s - 1))), GVal v)   (* l._pos = _pos - 1; return _q[0] *)
    | g => (s, g)
    end
  else if zlen (qd s) <=? relpos then (s, GEos) else (s, qidx (qd s) relpos).

(* the same function before fixes/C16-skip-dup (regression witness only) *)
Definition get_value_lk_old (s : pubq) (h : nat) (t : Z) : pubq * gres :=
  let l := rget (regs s) h in
  if r_kicked l || (r_pos l =? qpos s) then (s, GEos) else
  let relpos := wrap (qpos s - r_pos l - 1) in
  if t =? 1 then
    (s, qidx (qd s) (if zlen (qd s) <=? relpos then wrap (zlen (qd s) - 1) else relpos))
  else if t =? 2 then (s, qidx (qd s) 0)
  else if zlen (qd s) <=? relpos then (s, GEos) else (s, qidx (qd s) relpos).

(* push_lk, lines 255-275.  The loop 259-267 has three independent effects, written as three functions:
   clear every used slot's awaiter, collect those awaiters in slot order, and compute need_len. *)
Definition olist (a : option Z) : list Z := match a with Some x => [x] | None => [] end.
Definition clear_reg (x : reg) : reg := if r_used x then with_awt x None else x.            (* 263 *)
Definition wake_of (x : reg) : list Z := if r_used x then olist (r_awt x) else [].          (* 261-262 *)
Fixpoint need_of (p : Z) (l : list reg) (nd : Z) : Z :=                                     (* 265 *)
  match l with
  | [] => nd
  | x :: t => need_of p t (if r_used x then Z.max nd (wrap (p - r_pos x)) else nd)
  end.

Definition push_lk (s : pubq) (count : Z) : pubq * list Z :=
  let p := wrap (qpos s + count) in                                          (* 256 *)
  let need := need_of p (regs s) (minl s) in                                 (* 257-267 *)
  let n := Z.min (Z.min need (maxl s)) (zlen (qd s)) in                      (* 269 *)
  (mkQ (map clear_reg (regs s)) (next_free s) (firstn (Z.to_nat n) (qd s)) p (closed s) (minl s) (maxl s),
   flat_map wake_of (regs s)).                                               (* 270-272: resumed after unlock *)

(* push(T), lines 109-118; push(from,to), lines 120-128 (front_inserter reverses the batch) *)
Definition push1 (s : pubq) (v : Z) : pubq * list Z :=
  push_lk (mkQ (regs s) (next_free s) (v :: qd s) (qpos s) (closed s) (minl s) (maxl s)) 1.
Definition push_batch (s : pubq) (vs : list Z) : pubq * list Z :=
  match vs with
  | [] => (s, [])                                                            (* 125: d = 0 *)
  | _ => push_lk (mkQ (regs s) (next_free s) (rev vs ++ qd s) (qpos s) (closed s) (minl s) (maxl s)) (zlen vs)
  end.

(* close, lines 130-135 *)
Definition close_q (s : pubq) : pubq * list Z :=
  if closed s then (s, []) else
  push_lk (mkQ (regs s) (next_free s) (qd s) (qpos s) true (minl s) (maxl s)) 0.

(* kick_lk, lines 277-289: first used slot whose _sub matches *)
Fixpoint kick_regs (sub : Z) (l : list reg) : list reg * option Z :=
  match l with
  | [] => ([], None)
  | x :: t => if r_used x && (r_sub x =? sub)
              then (mkReg (r_pos x) (r_sub x) None (r_used x) true :: t, r_awt x)
              else let '(t', a) := kick_regs sub t in (x :: t', a)
  end.
Definition kick_lk (s : pubq) (sub : Z) : pubq * list Z :=
  let '(r, a) := kick_regs sub (regs s) in (with_regs s r, olist a).

(* ====================== test level: subscriber objects and the op alphabet ====================== *)
(* A subscriber<T> object: its handle _h, its mode _t; s_live = false after its destructor ran.
   Object ids (sid) are chosen by the op and never reused; the id is also the `const subscriber*`
   identity handed to the queue.  palive = the publisher<T> object still exists (its destructor closes
   the queue; the queue itself lives on through the subscribers' shared_ptr). *)
Record sobj := mkSo { s_h : nat; s_mode : Z; s_live : bool; s_blk : bool }.   (* s_blk: a thread is parked inside a blocking next() *)
Record tst := mkT { pq : pubq; objs : list (option sobj); nawt : Z; palive : bool }.
Definition tst0 (mn mx : Z) : tst := mkT (pubq0 mn mx) [] 0 true.

Inductive op :=
| OPub (v : Z)                  (* publisher::publish(v) *)
| OBatch (vs : list Z)          (* publisher::publish(begin,end) *)
| OSubRecent (s : nat) (t : Z)  (* subscriber(pub, t) *)
| OSubAt (s : nat) (t p : Z)    (* subscriber(pub, p, t) *)
| OSubCopy (s src : nat)        (* subscriber(const subscriber &src) *)
| OReady (s : nat)              (* next().await_ready()  = queue::advance *)
| OSuspend (s : nat)            (* next().subscribe(awt) / await_suspend = queue::advance_suspend; awt gets id nawt *)
| OGet (s : nat)                (* next().await_resume() = queue::get_value *)
| OKick (s : nat)               (* publisher::kick(&s) (s may already be destroyed) / s.kick_me() *)
| OLeave (s : nat)              (* ~subscriber *)
| OClose                        (* publisher::close() *)
| OPosition (s : nat)           (* subscriber::position() *)
| ODestroyPub                   (* ~publisher *)
| OBlock (s : nat)              (* bool(next()) / begin() on a helper thread: runs until it returns or parks *)
| OBlockFin (s : nat)           (* lets the parked helper thread of s (woken meanwhile) return *)
| OPoll (s : nat)               (* next_ready() *)
| OBad.

(* observation: status (0 ok, 1 rejected, -999 undefined behaviour), three scalars, resumed awaiter ids *)
Record obs := mkObs { o_st : Z; o_a : Z; o_b : Z; o_c : Z; o_wk : list Z }.
Definition rejected : obs := mkObs 1 0 0 0 [].
Definition ub_obs : obs := mkObs (-999) 0 0 0 [].
Definition ok3 (a b c : Z) : obs := mkObs 0 a b c [].
Definition okw (w : list Z) : obs := mkObs 0 0 0 0 w.

Definition live_obj (e : tst) (s : nat) : option sobj :=
  match get (objs e) s with
  | Some o => if s_live o then Some o else None
  | None => None
  end.
(* live and no thread parked inside a blocking next() on it *)
Definition free_obj (e : tst) (s : nat) : option sobj :=
  match live_obj e s with
  | Some o => if s_blk o then None else Some o
  | None => None
  end.
Definition valid_mode (t : Z) : bool := (0 <=? t) && (t <=? 2).
Definition HALF : Z := 4611686018427387904.   (* 2^62: positions on the wire are below this *)
Definition pos_of (s : pubq) (h : nat) : Z := r_pos (rget (regs s) h).   (* queue::position, line 101 *)

Definition with_pq (e : tst) (q : pubq) : tst := mkT q (objs e) (nawt e) (palive e).
Definition new_sub (e : tst) (s : nat) (t : Z) (r : pubq * nat) : tst * obs :=
  (mkT (fst r) (put (objs e) s (Some (mkSo (snd r) t true false))) (nawt e) (palive e),
   ok3 (Z.of_nat (snd r)) (pos_of (fst r) (snd r)) 0).

(* `sus` / `gv` are the advance_suspend_lk / get_value_lk variants (current code / code before the fixes) *)
Definition step_gen (sus : pubq -> nat -> Z -> pubq * bool) (gv : pubq -> nat -> Z -> pubq * gres)
                    (e : tst) (x : op) : tst * obs :=
  match x with
  | OPub v => if palive e then (with_pq e (fst (push1 (pq e) v)), okw (snd (push1 (pq e) v))) else (e, rejected)
  | OBatch vs => if palive e then (with_pq e (fst (push_batch (pq e) vs)), okw (snd (push_batch (pq e) vs)))
                 else (e, rejected)
  | OSubRecent s t =>
      match get (objs e) s with
      | Some _ => (e, rejected)
      | None => if valid_mode t && palive e then new_sub e s t (subscribe_recent_lk (pq e) (Z.of_nat s))
                else (e, rejected)
      end
  | OSubAt s t p =>
      match get (objs e) s with
      | Some _ => (e, rejected)
      | None => if valid_mode t && palive e && (0 <=? p) && (p <? HALF)
                then new_sub e s t (subscribe_lk (pq e) (Z.of_nat s) p) else (e, rejected)
      end
  | OSubCopy s src =>
      match get (objs e) s, live_obj e src with
      | None, Some o => new_sub e s (s_mode o) (subscribe_copy_lk (pq e) (s_h o) (Z.of_nat s))
      | _, _ => (e, rejected)
      end
  | OReady s =>
      match free_obj e s with
      | None => (e, rejected)
      | Some o => let r := advance_lk (pq e) (s_h o) (s_mode o) in
                  (with_pq e (fst r), ok3 (b2z (snd r)) (pos_of (fst r) (s_h o)) 0)
      end
  | OSuspend s =>
      match free_obj e s with
      | None => (e, rejected)
      | Some o => let r := sus (pq e) (s_h o) (nawt e) in
                  (mkT (fst r) (objs e) (nawt e + 1) (palive e), ok3 (b2z (snd r)) (pos_of (fst r) (s_h o)) (nawt e))
      end
  | OGet s =>
      match free_obj e s with
      | None => (e, rejected)
      | Some o => let r := gv (pq e) (s_h o) (s_mode o) in
                  match snd r with
                  | GVal v => (with_pq e (fst r), ok3 1 v (pos_of (fst r) (s_h o)))
                  | GEos => (with_pq e (fst r), ok3 0 0 (pos_of (fst r) (s_h o)))
                  | GUb => (e, ub_obs)
                  end
      end
  | OKick s =>
      match get (objs e) s with
      | None => (e, rejected)
      | Some o => if palive e || s_live o
                  then (with_pq e (fst (kick_lk (pq e) (Z.of_nat s))), okw (snd (kick_lk (pq e) (Z.of_nat s))))
                  else (e, rejected)
      end
  | OLeave s =>
      match free_obj e s with
      | None => (e, rejected)
      | Some o => (mkT (leave_lk (pq e) (s_h o)) (put (objs e) s (Some (mkSo (s_h o) (s_mode o) false false))) (nawt e)
                       (palive e), ok3 0 0 0)
      end
  | OClose => if palive e then (with_pq e (fst (close_q (pq e))), okw (snd (close_q (pq e)))) else (e, rejected)
  | OPosition s =>
      match live_obj e s with
      | None => (e, rejected)
      | Some o => (e, ok3 (pos_of (pq e) (s_h o)) 0 0)
      end
  | ODestroyPub => if palive e then (mkT (fst (close_q (pq e))) (objs e) (nawt e) false, okw (snd (close_q (pq e))))
                   else (e, rejected)
  | OBlock _ | OBlockFin _ | OPoll _ => (e, rejected)      (* composite: see stepx_gen *)
  | OBad => (e, rejected)
  end.

Definition step := step_gen advance_suspend_lk get_value_lk.

(* composite operations are sequences of the locked steps above; every locked step prints its own observation
   line.  bool(next()) = operator bool: await_ready, and if not ready sync() = await_ready again, subscribe,
   (block), then await_resume.  next_ready() = await_ready, and if ready await_resume. *)
Definition set_blk (e : tst) (s : nat) (o : sobj) (b : bool) : tst :=
  mkT (pq e) (put (objs e) s (Some (mkSo (s_h o) (s_mode o) (s_live o) b))) (nawt e) (palive e).
Definition bump (e : tst) : tst := mkT (pq e) (objs e) (nawt e + 1) (palive e).

Definition stepx_gen (sus : pubq -> nat -> Z -> pubq * bool) (gv : pubq -> nat -> Z -> pubq * gres)
                     (e : tst) (x : op) : tst * list obs :=
  let st := step_gen sus gv in
  match x with
  | OBlock s =>
      match free_obj e s with
      | None => (e, [rejected])
      | Some o =>
          let r1 := st e (OReady s) in
          if o_a (snd r1) =? 1 then let g := st (fst r1) (OGet s) in (bump (fst g), [snd r1; snd g]) else
          let r2 := st (fst r1) (OReady s) in
          if o_a (snd r2) =? 1 then let g := st (fst r2) (OGet s) in (bump (fst g), [snd r1; snd r2; snd g]) else
          let r3 := st (fst r2) (OSuspend s) in     (* uses awaiter id nawt e and bumps the counter *)
          if o_a (snd r3) =? 1 then (set_blk (fst r3) s o true, [snd r1; snd r2; snd r3]) else
          let g := st (fst r3) (OGet s) in (fst g, [snd r1; snd r2; snd r3; snd g])
      end
  | OBlockFin s =>
      match live_obj e s with
      | Some o => if s_blk o && match r_awt (rget (regs (pq e)) (s_h o)) with None => true | Some _ => false end
                  then let g := st (set_blk e s o false) (OGet s) in (fst g, [snd g])
                  else (e, [rejected])
      | None => (e, [rejected])
      end
  | OPoll s =>
      match free_obj e s with
      | None => (e, [rejected])
      | Some o =>
          let r1 := st e (OReady s) in
          if o_a (snd r1) =? 1 then let g := st (fst r1) (OGet s) in (fst g, [snd r1; snd g]) else (fst r1, [snd r1])
      end
  | _ => (fst (st e x), [snd (st e x)])
  end.
Definition stepx := stepx_gen advance_suspend_lk get_value_lk.

Fixpoint run_gen (sus : pubq -> nat -> Z -> pubq * bool) (gv : pubq -> nat -> Z -> pubq * gres)
                 (e : tst) (l : list op) : list obs * tst :=
  match l with
  | [] => ([], e)
  | x :: t => let r := run_gen sus gv (fst (stepx_gen sus gv e x)) t in
              (snd (stepx_gen sus gv e x) ++ fst r, snd r)
  end.
Definition run_from := run_gen advance_suspend_lk get_value_lk.

(* ====================== reference monitor (specification side) ======================
   The monitor sees only ops and observations (never the queue's state).  It keeps the published log,
   and per subscriber object: the next()-protocol pc, the last observed position(), the (position, value,
   number-published-so-far) triples delivered before the first end of stream (newest first), and the flags
   that make an end of stream legitimate.  It records; the judgement is `good_b` below.

   m_viol (sticky, freezes the monitor): the environment left the preconditions — a subscriber did not
   follow the next() protocol (ready; suspend only after ready=false; get only after ready=true /
   suspend=false / being woken), an op that the model rejects was reported as
   executed, undefined behaviour was reported, or a position / the stream length reached 2^62.
   m_bad (sticky): a wake-up list or a subscription position contradicts the specification.
   m_lost r: an end of stream is legitimate for r because it lagged more than max behind (all_values), or it
   was subscribed at a position outside the guaranteed window / in the future, or it was copied from a
   subscriber that was lost, ended, kicked or in the middle of next(). *)
Inductive pc := PIdle | PRF | PAdv | PParked (a : Z).
Record srec := mkSr { m_live : bool; m_mode : Z; m_pc : pc; m_start : Z; m_cur : Z;
                      m_deliv : list (Z * Z * Z); m_eos : bool; m_eos_ok : bool;
                      m_kicked : bool; m_lost : bool }.
Record mon := mkM { m_log : list Z; m_closed : bool; m_viol : bool; m_bad : bool;
                    m_subs : list (option srec); m_min : Z; m_max : Z }.
Definition mon0 (mn mx : Z) : mon := mkM [] false false false [] mn mx.

Definition npub (m : mon) : Z := zlen (m_log m).
Definition consumed (r : srec) : Z := m_start r + zlen (m_deliv r).

Definition set_viol (m : mon) : mon :=
  mkM (m_log m) (m_closed m) true (m_bad m) (m_subs m) (m_min m) (m_max m).
Definition add_bad (m : mon) (b : bool) : mon :=
  mkM (m_log m) (m_closed m) (m_viol m) (m_bad m || b) (m_subs m) (m_min m) (m_max m).
Definition set_sub (m : mon) (s : nat) (r : srec) : mon :=
  mkM (m_log m) (m_closed m) (m_viol m) (m_bad m) (put (m_subs m) s (Some r)) (m_min m) (m_max m).

Definition with_pc (r : srec) (p : pc) : srec :=
  mkSr (m_live r) (m_mode r) p (m_start r) (m_cur r) (m_deliv r) (m_eos r) (m_eos_ok r) (m_kicked r) (m_lost r).
Definition with_lost (r : srec) (b : bool) : srec :=
  mkSr (m_live r) (m_mode r) (m_pc r) (m_start r) (m_cur r) (m_deliv r) (m_eos r) (m_eos_ok r) (m_kicked r) b.

(* is the live record parked on awaiter a? *)
Definition parked_on (a : Z) (o : option srec) : bool :=
  match o with
  | Some r => m_live r && match m_pc r with PParked b => a =? b | _ => false end
  | None => false
  end.
(* the awaiter of a live parked record is in w *)
Definition parked_in (w : list Z) (o : option srec) : bool :=
  match o with
  | Some r => if m_live r then match m_pc r with PParked a => memz a w | _ => true end else true
  | None => true
  end.
(* w = exactly the awaiters of the live parked records, each once *)
Definition wake_all_ok (subs : list (option srec)) (w : list Z) : bool :=
  nodup_b w && forallb (fun a => existsb (parked_on a) subs) w && forallb (parked_in w) subs.

Definition wake_rec (r : srec) : srec := match m_pc r with PParked _ => with_pc r PAdv | _ => r end.
(* after a publish of total length n: an all_values subscriber with more than max undelivered values has lagged *)
Definition lag_rec (n mx : Z) (r : srec) : srec :=
  if (m_mode r =? 0) && (mx <? n - consumed r) then with_lost r true else r.

Fixpoint eqlz (a b : list Z) : bool :=
  match a, b with
  | [], [] => true
  | x :: a', y :: b' => (x =? y) && eqlz a' b'
  | _, _ => false
  end.

(* publish of a non-empty batch / close: every parked awaiter is resumed *)
Definition mon_wake_all (m : mon) (lg : list Z) (cl : bool) (w : list Z) : mon :=
  mkM lg cl (m_viol m) (m_bad m || negb (wake_all_ok (m_subs m) w))
      (map (option_map (fun r => lag_rec (zlen lg) (m_max m) (wake_rec r))) (m_subs m))
      (m_min m) (m_max m).

Definition mon_publish (m : mon) (vs : list Z) (w : list Z) : mon :=
  match vs with
  | [] => add_bad m (negb (eqlz w []))
  | _ => if HALF <=? zlen (m_log m) + zlen vs + 1 then set_viol m
         else mon_wake_all m (m_log m ++ vs) (m_closed m) w
  end.
Definition mon_close (m : mon) (w : list Z) : mon :=
  if m_closed m then add_bad m (negb (eqlz w [])) else mon_wake_all m (m_log m) true w.

Definition new_rec (t p : Z) (lost : bool) : srec := mkSr true t PIdle p p [] false true false lost.
Definition in_window (m : mon) (t p : Z) : bool :=
  if t =? 0 then (0 <=? npub m - p) && (npub m - p <=? Z.min (m_min m) (npub m))
  else p <=? npub m.
Definition idle_pc (p : pc) : bool := match p with PIdle | PRF => true | _ => false end.

Definition mon_step (m : mon) (x : op) (o : obs) : mon :=
  if m_viol m then m else
  if o_st o =? 1 then m else
  if negb (o_st o =? 0) then set_viol m else
  match x with
  | OPub v => mon_publish m [v] (o_wk o)
  | OBatch vs => mon_publish m vs (o_wk o)
  | OClose => mon_close m (o_wk o)
  | ODestroyPub => mon_close m (o_wk o)
  | OSubRecent s t =>
      match get (m_subs m) s with
      | Some _ => set_viol m
      | None => if negb (valid_mode t) || (HALF <=? o_b o) then set_viol m else
                add_bad (set_sub m s (new_rec t (o_b o) false)) (negb (o_b o =? npub m))
      end
  | OSubAt s t p =>
      match get (m_subs m) s with
      | Some _ => set_viol m
      | None => if negb (valid_mode t) || (HALF <=? o_b o) || (p <? 0) then set_viol m else
                add_bad (set_sub m s (new_rec t (o_b o) (negb (in_window m t p)))) (negb (o_b o =? p))
      end
  | OSubCopy s src =>
      match get (m_subs m) s, get (m_subs m) src with
      | None, Some r =>
          if negb (m_live r) || (HALF <=? o_b o) then set_viol m else
          add_bad (set_sub m s (new_rec (m_mode r) (o_b o)
                                        (m_lost r || m_eos r || m_kicked r || negb (idle_pc (m_pc r)))))
                  (negb (o_b o =? m_cur r))
      | _, _ => set_viol m
      end
  | OReady s =>
      match get (m_subs m) s with
      | Some r =>
          if negb (m_live r) || negb (idle_pc (m_pc r)) || (HALF <=? o_b o) then set_viol m else
          set_sub m s (mkSr true (m_mode r) (if o_a o =? 0 then PRF else PAdv) (m_start r) (o_b o) (m_deliv r)
                            (m_eos r) (m_eos_ok r) (m_kicked r) (m_lost r))
      | None => set_viol m
      end
  | OSuspend s =>
      match get (m_subs m) s with
      | Some r =>
          match m_pc r with
          | PRF => if negb (m_live r) || (HALF <=? o_b o) then set_viol m else
                   set_sub m s (mkSr true (m_mode r) (if o_a o =? 0 then PAdv else PParked (o_c o)) (m_start r)
                                     (o_b o) (m_deliv r) (m_eos r) (m_eos_ok r) (m_kicked r) (m_lost r))
          | _ => set_viol m
          end
      | None => set_viol m
      end
  | OGet s =>
      match get (m_subs m) s with
      | Some r =>
          match m_pc r with
          | PAdv =>
              if negb (m_live r) then set_viol m else
              if o_a o =? 0 then
                if m_eos r then set_sub m s (with_pc r PIdle) else
                let drained := if m_mode r =? 0 then consumed r =? npub m else m_cur r =? npub m + 1 in
                set_sub m s (mkSr true (m_mode r) PIdle (m_start r) (m_cur r) (m_deliv r) true
                                  (m_kicked r || m_lost r || (m_closed m && drained)) (m_kicked r) (m_lost r))
              else   (* a value, with the position reported after the step *)
                if HALF <=? o_c o then set_viol m else
                if m_eos r then   (* after the first end of stream nothing is recorded any more *)
                  set_sub m s (mkSr true (m_mode r) PIdle (m_start r) (o_c o) (m_deliv r) true (m_eos_ok r)
                                    (m_kicked r) (m_lost r))
                else   (* recorded; a kicked subscriber must get end of stream instead *)
                  add_bad (set_sub m s (mkSr true (m_mode r) PIdle (m_start r) (o_c o)
                                             ((o_c o, o_b o, npub m) :: m_deliv r) false (m_eos_ok r) (m_kicked r)
                                             (m_lost r)))
                          (m_kicked r)
          | _ => set_viol m
          end
      | None => set_viol m
      end
  | OKick s =>
      match get (m_subs m) s with
      | Some r =>
          if m_live r then
            let exp := match m_pc r with PParked a => [a] | _ => [] end in
            let r1 := wake_rec r in
            add_bad (set_sub m s (mkSr true (m_mode r1) (m_pc r1) (m_start r1) (m_cur r1) (m_deliv r1)
                                       (m_eos r1) (m_eos_ok r1) true (m_lost r1)))
                    (negb (eqlz exp (o_wk o)))
          else add_bad m (negb (eqlz (o_wk o) []))
      | None => set_viol m
      end
  | OLeave s =>   (* a subscriber may be destroyed while an awaiter of it is parked (a coroutine frame destroyed together
                     with its subscriber): the record stays parked but dead, so that awaiter must never be resumed *)
      match get (m_subs m) s with
      | Some r =>
          if negb (m_live r) then set_viol m else
          set_sub m s (mkSr false (m_mode r) (m_pc r) (m_start r) (m_cur r) (m_deliv r) (m_eos r)
                            (m_eos_ok r) (m_kicked r) (m_lost r))
      | None => set_viol m
      end
  | OPosition s =>
      match get (m_subs m) s with
      | Some r => if negb (m_live r) then set_viol m else add_bad m (negb (o_a o =? m_cur r))
      | None => set_viol m
      end
  | OBlock _ | OBlockFin _ | OPoll _ => set_viol m      (* composite ops are fed line by line, see feed *)
  | OBad => set_viol m
  end.

(* m_bad also records a malformed trace (a line is missing) *)
Definition short (m : mon) : mon := add_bad m true.

(* one op consumes its observation lines: a composite op consumes one line per locked step it executed, the
   next line expected being determined by the previous line *)
Definition feed1 (m : mon) (x : op) (os : list obs) : mon * list obs :=
  match os with
  | o :: r => (mon_step m x o, r)
  | [] => (short m, [])
  end.
Definition is_ok (os : list obs) : bool := match os with o :: _ => o_st o =? 0 | [] => false end.
Definition ret1 (os : list obs) : bool := match os with o :: _ => o_a o =? 1 | [] => false end.

Definition feed (m : mon) (x : op) (os : list obs) : mon * list obs :=
  match x with
  | OBlock s =>
      if negb (is_ok os) then feed1 m (OReady s) os else
      let a1 := feed1 m (OReady s) os in
      if ret1 os then feed1 (fst a1) (OGet s) (snd a1) else
      let a2 := feed1 (fst a1) (OReady s) (snd a1) in
      if ret1 (snd a1) then feed1 (fst a2) (OGet s) (snd a2) else
      let a3 := feed1 (fst a2) (OSuspend s) (snd a2) in
      if ret1 (snd a2) then a3 else feed1 (fst a3) (OGet s) (snd a3)
  | OBlockFin s => feed1 m (OGet s) os
  | OPoll s =>
      if negb (is_ok os) then feed1 m (OReady s) os else
      let a1 := feed1 m (OReady s) os in
      if ret1 os then feed1 (fst a1) (OGet s) (snd a1) else a1
  | _ => feed1 m x os
  end.

Fixpoint mon_run (m : mon) (l : list op) (os : list obs) : mon :=
  match l with
  | [] => match os with [] => m | _ => short m end
  | x :: t => mon_run (fst (feed m x os)) t (snd (feed m x os))
  end.

(* ---------- the judgement on what the monitor recorded ---------- *)
Definition nthz (l : list Z) (i : Z) : Z := nth (Z.to_nat i) l 0.

(* all_values: the k-th delivery (k = 1..) is at position start+k and carries the value published there *)
Fixpoint contig_b (start : Z) (lg : list Z) (d : list (Z * Z * Z)) : bool :=
  match d with
  | [] => true
  | (p, v, n) :: t => (p =? start + zlen d) && (1 <=? p) && (p <=? zlen lg) && (v =? nthz lg (p - 1))
                      && contig_b start lg t
  end.
(* skip modes: positions strictly increasing and above the start *)
Definition last_pos (start : Z) (d : list (Z * Z * Z)) : Z :=
  match d with [] => start | (p, _, _) :: _ => p end.
Fixpoint incr_b (start : Z) (d : list (Z * Z * Z)) : bool :=
  match d with
  | [] => true
  | (p, v, n) :: t => (last_pos start t <? p) && incr_b start t
  end.
(* skip modes (subscriber not subscribed in the future): the value delivered at the reported position is the
   one published there; skip_to_recent: that position is the newest one at the time of delivery *)
Definition skipval_b (t : Z) (lg : list Z) (x : Z * Z * Z) : bool :=
  let '(p, v, n) := x in
  (1 <=? p) && (p <=? n) && (n <=? zlen lg) && (v =? nthz lg (p - 1)) && (if t =? 2 then p =? n else true).

Definition rec_good_b (lg : list Z) (o : option srec) : bool :=
  match o with
  | None => true
  | Some r =>
      (if m_mode r =? 0 then contig_b (m_start r) lg (m_deliv r)
       else incr_b (m_start r) (m_deliv r) && forallb (skipval_b (m_mode r) lg) (m_deliv r))
      && (negb (m_eos r) || m_eos_ok r)
  end.

Definition good_b (m : mon) : bool :=
  negb (m_bad m) && forallb (rec_good_b (m_log m)) (m_subs m).

(* ---------- wire encoding ---------- *)
Definition n (z : Z) : nat := Z.to_nat z.
Definition small (z : Z) : bool := (0 <=? z) && (z <? 1000000).
Definition decode (l : list Z) : op :=
  match l with
  | [0; v] => OPub v
  | 1 :: vs => OBatch vs
  | [2; s; t] => if small s then OSubRecent (n s) t else OBad
  | [3; s; t; p] => if small s then OSubAt (n s) t p else OBad
  | [4; s; src] => if small s && small src then OSubCopy (n s) (n src) else OBad
  | [5; s] => if small s then OReady (n s) else OBad
  | [6; s] => if small s then OSuspend (n s) else OBad
  | [7; s] => if small s then OGet (n s) else OBad
  | [8; s] => if small s then OKick (n s) else OBad
  | [9; s] => if small s then OLeave (n s) else OBad
  | [10] => OClose
  | [11; s] => if small s then OPosition (n s) else OBad
  | [12] => ODestroyPub
  | [13; s] => if small s then OBlock (n s) else OBad
  | [14; s] => if small s then OBlockFin (n s) else OBad
  | [15; s] => if small s then OPoll (n s) else OBad
  | _ => OBad
  end.

Definition encode_obs (o : obs) : list Z := o_st o :: o_a o :: o_b o :: o_c o :: o_wk o.
Definition dec_obs (l : list Z) : obs :=
  match l with
  | st :: a :: b :: c :: w => mkObs st a b c w
  | _ => ub_obs
  end.

(* first line of a case: [min; max], max = 0 stands for "unlimited" *)
Definition cfg_ok_b (mn mx : Z) : bool := (1 <=? mn) && (mn <=? mx) && (mx <? W).
Definition cfg_of (l : list Z) : option (Z * Z) :=
  match l with
  | [mn; mx] => let mx' := if mx =? 0 then unlimited else mx in
                if cfg_ok_b mn mx' then Some (mn, mx') else None
  | _ => None
  end.

Definition pub_run_gen (sus : pubq -> nat -> Z -> pubq * bool) (gv : pubq -> nat -> Z -> pubq * gres)
                       (ops : list (list Z)) : list (list Z) :=
  match ops with
  | [] => []
  | c :: t =>
      match cfg_of c with
      | Some (mn, mx) => encode_obs (ok3 mn (nth 1 c 0) 0)
                         :: map encode_obs (fst (run_gen sus gv (tst0 mn mx) (map decode t)))
      | None => map (fun _ => encode_obs rejected) ops
      end
  end.
Definition pub_run := pub_run_gen advance_suspend_lk get_value_lk.

(* the property oracle: the monitor's judgement on an observed trace (first line = the configuration line) *)
Definition pub_oracle (ops obsl : list (list Z)) : bool :=
  match ops, obsl with
  | c :: t, _ :: ot =>
      match cfg_of c with
      | Some (mn, mx) => good_b (mon_run (mon0 mn mx) (map decode t) (map dec_obs ot))
      | None => Nat.eqb (length ops) (length obsl)
      end
  | [], [] => true
  | _, _ => false
  end.
