(* AdaptersProofs.v — consequences of the invariants of the callback-adapter model (AdaptersInv.v, AdaptersStep*.v). *)
From Cocls Require Import Base BaseProofs AdaptersDefs AdaptersInv AdaptersStep0 AdaptersStep1 AdaptersStep2.
Require Import ZifyBool.
Local Open Scope nat_scope.

Lemma inv_step c s i : Inv c s -> enabled s i = true -> Inv c (fst (tstep c s i)).
Proof.
  intros I E. destruct i as [|[|[|i]]].
  - apply inv_step0; assumption.
  - apply inv_step1; assumption.
  - apply inv_step2; assumption.
  - unfold enabled in E. cbn [thr] in E. discriminate.
Qed.

Theorem inv_reachable c s : valid c = true -> reachable c s -> Inv c s.
Proof. intros V R. induction R; [apply inv_init; exact V|apply inv_step; assumption]. Qed.

(* ---------- the event log has exactly the shape the counters dictate ---------- *)

Lemma loginv_init c : LogInv c (init c).
Proof. exists 0, 0, 0. cbn. rewrite andb_false_r. reflexivity. Qed.

Lemma loginv_step c s i : Inv c s -> LogInv c s -> enabled s i = true -> LogInv c (fst (tstep c s i)).
Proof.
  intros I (t1 & t2 & t3 & L) E. unfold tstep, enabled in *.
  destruct I as [I1 I2 I3 I4 I5 I6 I7 I8 I9 I10 I11 I12 I13 I14 I15 I16 I17 I18 I19 I20 I21 I22 I23 I24 I25 I26 I27 I28 I29 I30 I31 I32 I33 I34 I35].
  unfold N, expected in *.
  assert (CV : cv c <= 1) by (unfold cv, b2n; destruct (is_conv c); lia).
  assert (NF1 : nfire s <= 1) by (destruct (slot s); cbn [rdy] in I6; lia).
  assert (CVN : cv c * nfire s <= nfire s) by (unfold cv, b2n; destruct (is_conv c); lia).
  unfold LogInv, expected.
  destruct i as [|[|[|i]]]; cbn [thr] in *; [| | |discriminate].
  all: dth s.
  all: destruct ins; unfold exec, fire, deliver.
  all: red1; dflags s; red1.
  all: try (exists t1, t2, t3; exact L).
  all: redch.
  (* a successful claim changes the payload, but nothing has been logged yet *)
  all: try (specialize (I20 eq_refl); rewrite I20 in *; cbn [isv] in *;
            assert (NF : nfire s = 0) by lia; assert (NC : nconv s = 0) by lia; assert (ND : ndeliv s = 0) by lia;
            rewrite NF, NC, ND in *; cbn [Nat.eqb andb app] in *; rewrite andb_false_r in *;
            exists 0, 0, 0; exact L).
  all: try (dpay s; red1).
  all: try match goal with g : bool |- _ => destruct g; red1 end.
  all: try (exists t1, t2, t3; exact L).
  (* completions that do not log a callback *)
  all: try (unfold atomic_cb in *; rewrite AD in *; cbn [has_cb andb] in *; exists t1, t2, t3; exact L).
  (* completions with a user callback *)
  all: try (assert (NF : nfire s = 0) by lia; rewrite NF in *; cbn [Nat.eqb andb] in *;
            rewrite Nat.mul_0_r in I10; assert (FR : frees s = 0) by lia;
            rewrite andb_false_r in L; rewrite andb_true_r;
            exists t1, t2, (S (clk s)); rewrite L; rewrite <- !app_assoc; cbn [app];
            unfold atomic_cb, cb_log, hb; rewrite AD, I9, FR; unfold hb; rewrite AD; reflexivity).
  (* deliveries and conversions: only the converter adapter has them *)
  all: assert (CV1 : cv c = 1) by lia.
  all: unfold cv, is_conv, atomic_cb in *; destruct (c_ad c) eqn:AD; try discriminate; cbn [has_cb andb b2n Nat.mul] in *.
  all: try (assert (ND : ndeliv s = 0) by lia; assert (OP : opayload s = conv_result c (payload s)) by (apply I17; lia);
            rewrite ND, OP in *; cbn [Nat.eqb] in *; exists t1, (S (clk s)), t3; rewrite L, !app_nil_r; reflexivity).
  all: try (assert (NC : nconv s = 0) by (cbn [isv] in I18; lia);
            assert (ND : ndeliv s = 0) by lia;
            rewrite NC, ND in *; cbn [Nat.eqb app] in *; exists (S (clk s)), t2, t3; rewrite L;
            unfold conv_log; cbn [conv_result app map]; reflexivity).
Qed.

Theorem loginv_reachable c s : valid c = true -> reachable c s -> LogInv c s.
Proof.
  intros V R. induction R; [apply loginv_init|].
  apply loginv_step; [apply inv_reachable; assumption|assumption|assumption].
Qed.

(* ---------- consequences ---------- *)
(* no deadlock: when no thread can move, all threads have run to completion *)
Theorem terminal_done c s : valid c = true -> reachable c s -> terminal s -> th0 s = [] /\ th1 s = [] /\ th2 s = [].
Proof.
  intros V R T. pose proof (inv_reachable c s V R) as I. pose proof (i_park c s I) as I7. pose proof (i_xw c s I) as I8.
  unfold terminal, all_enabled, enabled in T. cbn [thr] in T.
  apply app_eq_nil in T. destruct T as [T0 T]. apply app_eq_nil in T. destruct T as [T1 T2].
  assert (A : th0 s = []).
  { destruct (th0 s) as [|ins rest]; [reflexivity|].
    destruct ins; cbn [cnt p_xw] in I8; try discriminate; lia. }
  rewrite A in *. cbn [cnt Nat.add] in *.
  assert (X : forall l, (if match l with [] => false | IXWait :: _ => parked s | _ :: _ => true end then [0] else []) = [] \/
                         (if match l with [] => false | IXWait :: _ => parked s | _ :: _ => true end then [1] else []) = [] \/
                         (if match l with [] => false | IXWait :: _ => parked s | _ :: _ => true end then [2] else []) = [] ->
                         cnt p_xw l = 0 -> l = []).
  { intros l H Z. destruct l as [|ins rest]; [reflexivity|].
    destruct ins; cbn [cnt p_xw] in Z; try lia; destruct H as [H|[H|H]]; discriminate. }
  destruct (parked s) eqn:P.
  - split; [reflexivity|]. split.
    + destruct (th1 s) as [|ins rest]; [reflexivity|]. destruct ins; discriminate.
    + destruct (th2 s) as [|ins rest]; [reflexivity|]. destruct ins; discriminate.
  - cbn [b2n] in I7. specialize (I7 eq_refl). split; [reflexivity|]. split.
    + apply X; [right; left; exact T1|lia].
    + apply X; [right; right; exact T2|lia].
Qed.

Record Final (c : cfg) (s : st) : Prop := {
  f_ready : slot s = SReady;
  f_owner : owner s = false;
  f_payload : payload s = wout c s;
  f_won : won s = 1 \/ won s = 2;
  f_fired : nfire s = 1;
  f_freed : frees s = allocs s;
  f_allocs : allocs s = hb c;
  f_nores : nores s = cv c;
  f_ndeliv : ndeliv s = cv c;
  f_nconv : nconv s = if isv (payload s) then cv c else 0;
  f_outer : is_conv c = true -> oslot s = SReady /\ opayload s = expected c s;
  f_oprom : oprom s = false
}.

Theorem terminal_final c s : valid c = true -> reachable c s -> terminal s -> Final c s.
Proof.
  intros V R T. destruct (terminal_done c s V R T) as (A & B & C).
  destruct (inv_reachable c s V R) as [I1 I2 I3 I4 I5 I6 I7 I8 I9 I10 I11 I12 I13 I14 I15 I16 I17 I18 I19 I20 I21 I22 I23 I24 I25 I26 I27 I28 I29 I30 I31 I32 I33 I34 I35].
  unfold N in *. rewrite A, B, C in *. cbn [cnt Nat.add] in *.
  assert (O : owner s = false) by (destruct (owner s); [cbn [b2n] in I1; lia|reflexivity]).
  rewrite O in *. cbn [b2n Nat.add] in *.
  assert (S1 : slot s = SReady) by (destruct (slot s); cbn [rdy] in I2; try discriminate; reflexivity).
  rewrite S1 in *. cbn [rdy sub Nat.add] in *.
  assert (F : nfire s = 1) by lia. rewrite F in *. rewrite Nat.mul_1_r in *.
  assert (OS : cv c = 1 -> oslot s = SReady).
  { intros Q. destruct (oslot s); cbn [rdy] in I14; try reflexivity; lia. }
  constructor; try assumption; try lia; auto.
  - assert (sub (oslot s) = 0).
    { destruct (oslot s) eqn:Q; cbn [sub rdy] in *; try reflexivity. lia. }
    lia.
  - destruct (isv (payload s)); lia.
  - intros Q. unfold cv in *. rewrite Q in *. cbn [b2n] in *. split; [apply OS; reflexivity|apply I17; lia].
  - destruct (oprom s); [|reflexivity]. cbn [b2n] in I12. lia.
Qed.

(* the user callback is entered at most once in every reachable state ... *)
Lemma filter_cb_conv_log c o t : filter is_cb (conv_log c o t) = [].
Proof. unfold conv_log. destruct o; reflexivity. Qed.

Lemma filter_cb_cb_log c o t : length (filter is_cb (cb_log c o t)) = 1.
Proof.
  unfold cb_log. cbn [map app filter is_cb snd length].
  destruct (has_functor (c_ad c)); [|reflexivity]. cbn [map filter is_cb snd].
  destruct (has_sd (c_stor c)); reflexivity.
Qed.

Definition ncb (s : st) : nat := length (filter is_cb (log s)).

Lemma ncb_shape c s : valid c = true -> reachable c s -> ncb s = if atomic_cb c && Nat.eqb (nfire s) 1 then 1 else 0.
Proof.
  intros V R. destruct (loginv_reachable c s V R) as (t1 & t2 & t3 & L).
  unfold ncb. rewrite L, !filter_app, !app_length.
  destruct (Nat.eqb (nconv s) 1); [rewrite filter_cb_conv_log|]; cbn [filter length Nat.add];
  (destruct (Nat.eqb (ndeliv s) 1); cbn [filter is_cb snd length Nat.add]);
  (destruct (atomic_cb c && Nat.eqb (nfire s) 1); [apply filter_cb_cb_log|reflexivity]).
Qed.

Theorem fires_at_most_once c s : valid c = true -> reachable c s -> ncb s <= 1.
Proof. intros V R. rewrite (ncb_shape c s V R). destruct (atomic_cb c && Nat.eqb (nfire s) 1); lia. Qed.

(* ... and exactly once when the scenario has run to completion (never zero, never twice) *)
Theorem fires_exactly_once c s : valid c = true -> reachable c s -> terminal s ->
  ncb s = b2n (has_cb (c_ad c)).
Proof.
  intros V R T. rewrite (ncb_shape c s V R). rewrite (f_fired c s (terminal_final c s V R T)).
  unfold atomic_cb. destruct (has_cb (c_ad c)); reflexivity.
Qed.

(* every callback invocation sees exactly the outcome the source future holds, with the helper block allocated and
   not yet freed; that outcome is the one of the resolver that won the claim ... *)
Theorem right_outcome c s t o al fr : valid c = true -> reachable c s ->
  In (t, ECb o al fr) (log s) -> o = payload s /\ o = wout c s /\ al = hb c /\ fr = 0.
Proof.
  intros V R H. destruct (loginv_reachable c s V R) as (t1 & t2 & t3 & L). rewrite L in H.
  apply in_app_or in H. destruct H as [H|H].
  { destruct (Nat.eqb (nconv s) 1); [|destruct H]. unfold conv_log in H.
    destruct (payload s); cbn [In] in H; try contradiction. destruct H as [H|[]]. discriminate. }
  apply in_app_or in H. destruct H as [H|H].
  { destruct (Nat.eqb (ndeliv s) 1); [|destruct H]. destruct H as [H|[]]. discriminate. }
  destruct (atomic_cb c && Nat.eqb (nfire s) 1) eqn:Q; [|destruct H].
  assert (P : payload s = wout c s).
  { destruct (inv_reachable c s V R) as [_ I2 I3 _ _ I6 _ _ _ _ _ _ _ _ _ _ _ _ _ _ _ _ _ _ _ _ _ _ _ _ _ _ _ _ _].
    apply I3. apply andb_prop in Q. destruct Q as [_ Q]. apply Nat.eqb_eq in Q. rewrite Q in I6.
    destruct (slot s); cbn [rdy] in *; try lia. destruct (owner s); [cbn [b2n] in I2; lia|reflexivity]. }
  unfold cb_log in H. cbn [map app] in H.
  destruct H as [H|[H|H]]; try discriminate.
  - inversion H. subst. auto.
  - destruct (has_functor (c_ad c)); [|destruct H]. cbn [map] in H. destruct H as [H|H]; [discriminate|].
    destruct (has_sd (c_stor c)); [destruct H as [H|[]]|destruct H]; discriminate.
Qed.

(* ... i.e. of the call that returned true: at most one call returns true; the competitor's call returned true iff it
   won; without a competitor the outcome is the declared one; with one, the primary's call returned true iff it won *)
Theorem winner_facts c s : valid c = true -> reachable c s ->
  (ret1 s = Some true -> ret2 s = Some true -> False) /\
  (ret1 s = Some true -> wout c s = out_of (c_k c)) /\
  (ret2 s = Some true -> exists k2, c_k2 c = Some k2 /\ wout c s = out_of k2) /\
  (c_k2 c = None -> wout c s = out_of (c_k c) /\ ret2 s = None) /\
  (c_k2 c <> None -> owner s = false -> (ret1 s = Some true /\ ret2 s <> Some true) \/ (ret2 s = Some true /\ ret1 s <> Some true)).
Proof.
  intros V R.
  destruct (inv_reachable c s V R) as [_ _ _ _ _ _ _ _ _ _ _ _ _ _ _ _ _ _ _ _ _ I22 I23 I24 I25 _ _ I28 I29 I30 I31 _ _ _ _].
  unfold wout, kind_of. split; [|split; [|split; [|split]]].
  - intros A B. apply I24 in A. apply I25 in B. congruence.
  - intros A. apply I24 in A. rewrite A. reflexivity.
  - intros B. assert (ret2 s <> None) as NB by congruence. apply I30 in NB. apply I25 in B. rewrite B.
    destruct (c_k2 c) as [k2|]; [|congruence]. exists k2. auto.
  - intros K. split.
    + destruct (won s) as [|[|[|w]]] eqn:W; try reflexivity.
      exfalso. assert (ret2 s = Some true) as B by (apply I25; reflexivity). apply I30; [congruence|exact K].
    + destruct (ret2 s) as [b|] eqn:B; [|reflexivity]. exfalso. apply I30; [discriminate|exact K].
  - intros K O. destruct (I23 O) as [W|W].
    + left. destruct (I31 W) as [A|A]; [|contradiction]. split; [exact A|]. intros B. apply I25 in B. congruence.
    + right. assert (ret2 s = Some true) as B by (apply I25; exact W). split; [exact B|]. intros A. apply I24 in A. congruence.
Qed.

(* the helper block is released at most once, never before the callback has returned, and exactly once at the end *)
Theorem released_once c s : valid c = true -> reachable c s ->
  frees s <= allocs s /\ allocs s = hb c /\
  (frees s >= 1 -> atomic_cb c = true -> exists pre t, log s = pre ++ cb_log c (payload s) t) /\
  (terminal s -> frees s = allocs s).
Proof.
  intros V R. destruct (inv_reachable c s V R) as [_ _ _ I4 _ I6 _ _ I9 I10 _ _ _ _ _ _ _ _ _ _ _ _ _ _ _ _ _ _ _ _ _ _ _ _ _].
  assert (NF : nfire s <= 1) by (destruct (slot s); cbn [rdy] in I6; lia).
  repeat split.
  - rewrite I9. destruct (nfire s) as [|[|n]]; lia.
  - exact I9.
  - intros F A. destruct (loginv_reachable c s V R) as (t1 & t2 & t3 & L).
    assert (nfire s = 1) by (destruct (nfire s) as [|[|n]]; lia).
    rewrite H, A in L. cbn [Nat.eqb andb] in L. rewrite L, app_assoc. eauto.
  - intros T. exact (f_freed c s (terminal_final c s V R T)).
Qed.

(* converter adapter: at the end the outer future holds exactly the converted value / the converter's exception /
   the source's exception, it was resolved once, delivered once, and the converter ran once iff there was a value *)
Theorem conv_final c s : valid c = true -> is_conv c = true -> reachable c s -> terminal s ->
  oslot s = SReady /\ opayload s = conv_result c (wout c s) /\ nores s = 1 /\ ndeliv s = 1 /\
  nconv s = b2n (isv (wout c s)) /\
  exists t1 t2, log s = conv_log c (wout c s) t1 ++ [(t2, EODeliv (conv_result c (wout c s)))].
Proof.
  intros V C R T. destruct (terminal_final c s V R T) as [_ _ P _ F _ _ NR ND NC O _].
  destruct (O C) as [O1 O2]. unfold cv, expected in *. rewrite C in *. cbn [b2n] in *. rewrite <- P.
  repeat split; try assumption.
  destruct (loginv_reachable c s V R) as (t1 & t2 & t3 & L).
  rewrite ND, F in L. unfold atomic_cb, expected in L. unfold is_conv in C. destruct (c_ad c); try discriminate.
  cbn [has_cb andb Nat.eqb] in L. rewrite app_nil_r in L.
  rewrite NC in L. exists t1, t2. rewrite L. unfold conv_log.
  destruct (payload s); cbn [isv Nat.eqb]; reflexivity.
Qed.

(* safety half, in every reachable state: the outer future is resolved at most once, the converter runs at most once
   and only on a value, and a ready outer future holds the expected result *)
Theorem conv_safe c s : valid c = true -> reachable c s ->
  nores s <= 1 /\ nconv s <= b2n (isv (payload s)) /\ ndeliv s <= nores s /\
  (oslot s = SReady -> opayload s = conv_result c (payload s)).
Proof.
  intros V R. destruct (inv_reachable c s V R) as [_ _ _ _ _ I6 _ _ _ _ I11 _ _ I14 _ _ I17 I18 I19 _ _ _ _ _ _ _ _ _ _ _ _ _ _ _ _].
  assert (NF : nfire s <= 1) by (destruct (slot s); cbn [rdy] in I6; lia).
  assert (CV : cv c * nfire s <= 1).
  { unfold cv, b2n. destruct (is_conv c); lia. }
  repeat split; try lia.
  - destruct (isv (payload s)); cbn [b2n]; lia.
  - intros Q. rewrite Q in I14. cbn [rdy] in I14. apply I17. lia.
Qed.

(* ---------- every schedule executed by run_sched stays inside the reachable states ---------- *)
Lemma in_all_enabled s i : In i (all_enabled s) -> enabled s i = true.
Proof.
  unfold all_enabled. intros H. apply in_app_or in H. destruct H as [H|H].
  - destruct (enabled s 0) eqn:Q; [|destruct H]. destruct H as [<-|[]]. exact Q.
  - apply in_app_or in H. destruct H as [H|H].
    + destruct (enabled s 1) eqn:Q; [|destruct H]. destruct H as [<-|[]]. exact Q.
    + destruct (enabled s 2) eqn:Q; [|destruct H]. destruct H as [<-|[]]. exact Q.
Qed.

Lemma sched_pick_enabled s e en sched :
  all_enabled s = e :: en ->
  enabled s (nth (Z.to_nat ((match sched with [] => 0%Z | x :: _ => Z.abs x end) mod zlen (e :: en))) (e :: en) 0) = true.
Proof.
  intros EN. apply in_all_enabled. rewrite EN. apply nth_In.
  set (k := match sched with [] => 0%Z | x :: _ => Z.abs x end).
  assert (0 <= k)%Z by (unfold k; destruct sched; lia).
  unfold zlen. cbn [length].
  pose proof (Z.mod_pos_bound k (Z.of_nat (S (length en))) ltac:(lia)). lia.
Qed.

Theorem run_sched_reachable c fuel : forall s sched tr,
  reachable c s -> reachable c (fst (run_sched c fuel s sched tr)).
Proof.
  induction fuel as [|f IH]; intros s sched tr R; cbn [run_sched]; [exact R|].
  destruct (all_enabled s) as [|e en] eqn:EN; [exact R|].
  pose proof (sched_pick_enabled s e en sched EN) as E.
  set (i := nth _ (e :: en) 0) in *.
  destruct (tstep c s i) as [s1 p] eqn:TS.
  apply IH. replace s1 with (fst (tstep c s i)) by (rewrite TS; reflexivity).
  apply r_step; assumption.
Qed.

(* ---------- termination: every step consumes potential, so every schedule ends after at most `weight (init c)` steps ---------- *)
Definition w (i : instr) : nat :=
  match i with
  | IPriv _ | IPark _ | IXWait | ICvWalk | IRel => 1
  | ICvResolve => 2 | ICvSet _ _ => 3 | ICvReady _ => 4 | ICvClaim => 5
  | IWalk => 7 | ISub _ => 8 | IReady => 9 | IResolve => 8 | IClaim _ | IDtorP => 9
  | IOSub _ => 2 | IOReady => 3
  end.
Fixpoint wl (l : list instr) : nat := match l with [] => 0 | x :: t => w x + wl t end.
Definition weight (s : st) : nat := wl (th0 s) + wl (th1 s) + wl (th2 s).

Lemma weight_step c s i : Inv c s -> enabled s i = true -> weight (fst (tstep c s i)) < weight s.
Proof.
  intros I E. unfold tstep, enabled, weight in *.
  destruct I as [I1 I2 I3 I4 I5 I6 I7 I8 I9 I10 I11 I12 I13 I14 I15 I16 I17 I18 I19 I20 I21 I22 I23 I24 I25 I26 I27 I28 I29 I30 I31 I32 I33 I34 I35].
  unfold N in *.
  assert (CV : cv c <= 1) by (unfold cv, b2n; destruct (is_conv c); lia).
  assert (NF1 : nfire s <= 1) by (destruct (slot s); cbn [rdy] in I6; lia).
  assert (CVN : cv c * nfire s <= nfire s) by (unfold cv, b2n; destruct (is_conv c); lia).
  destruct i as [|[|[|i]]]; cbn [thr] in *; [| | |discriminate].
  all: dth s.
  all: destruct ins; unfold exec, fire, deliver.
  all: red1; dflags s; red1.
  all: try (dpay s).
  all: try match goal with g : bool |- _ => destruct g end.
  all: red1; cbn [wl w app].
  all: redch.
  all: try lia.
Qed.

Lemma wl_pos l : l <> [] -> wl l >= 1.
Proof. destruct l as [|x t]; [congruence|]. intros _. cbn [wl]. destruct x; cbn [w]; lia. Qed.

Lemma weight_zero_terminal s : weight s = 0 -> terminal s.
Proof.
  unfold weight, terminal, all_enabled, enabled. cbn [thr]. intros H.
  destruct (th0 s) as [|a l0]; [|pose proof (wl_pos (a :: l0) ltac:(discriminate)); lia].
  destruct (th1 s) as [|b l1]; [|pose proof (wl_pos (b :: l1) ltac:(discriminate)) as P; change (wl []) with 0 in H; lia].
  destruct (th2 s) as [|d l2]; [reflexivity|].
  pose proof (wl_pos (d :: l2) ltac:(discriminate)) as P. change (wl []) with 0 in H. lia.
Qed.

Theorem run_terminates c fuel : forall s sched tr,
  valid c = true -> reachable c s -> weight s <= fuel -> terminal (fst (run_sched c fuel s sched tr)).
Proof.
  induction fuel as [|f IH]; intros s sched tr V R W; cbn [run_sched].
  - cbn [fst]. apply weight_zero_terminal. lia.
  - destruct (all_enabled s) as [|e en] eqn:EN; [exact EN|].
    pose proof (sched_pick_enabled s e en sched EN) as E.
    set (i := nth _ (e :: en) 0) in *.
    pose proof (weight_step c s i (inv_reachable c s V R) E) as WS.
    destruct (tstep c s i) as [s1 p] eqn:TS. cbn [fst] in WS.
    apply IH; [exact V| |lia].
    replace s1 with (fst (tstep c s i)) by (rewrite TS; reflexivity).
    apply r_step; assumption.
Qed.

Lemma weight_init c : valid c = true -> weight (init c) <= 80.
Proof.
  destruct c as [ad mode stor k k2 ct cd]. unfold valid. cbn [c_mode c_stor c_ad c_k2 is_mk].
  intros V.
  destruct mode as [|[|[|[|m]]]]; try (cbn in V; rewrite ?andb_false_r in V; discriminate);
  destruct ad; try (cbn in V; rewrite ?andb_false_r in V; discriminate);
  destruct stor as [|[|[|[|[|st]]]]]; try (cbn in V; rewrite ?andb_false_r in V; discriminate);
  destruct k2 as [kk|]; destruct k; cbn; lia.
Qed.

(* every schedule of every valid configuration ends, within 80 steps, in a terminal state *)
Theorem every_schedule_terminates c sched fuel : valid c = true -> 80 <= fuel ->
  terminal (fst (run_sched c fuel (init c) sched [])).
Proof.
  intros V F. apply run_terminates; [exact V|apply r_init|]. pose proof (weight_init c V). lia.
Qed.
