From Cocls Require Import Base BaseProofs AdaptersDefs.
