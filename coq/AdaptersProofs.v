(* AdaptersProofs.v — invariants of the callback-adapter model for every valid configuration (adapter, outcome,
   timing, storage, converter) and every schedule (induction over reachability). *)
From Cocls Require Import Base BaseProofs AdaptersDefs.
Require Import ZifyBool.
Local Open Scope nat_scope.

Inductive reachable (c : cfg) : st -> Prop :=
| r_init : reachable c (init c)
| r_step s i : reachable c s -> enabled s i = true -> reachable c (fst (tstep c s i)).

Definition terminal (s : st) : Prop := all_enabled s = [].

(* ---------- counting ---------- *)
Fixpoint cnt (p : instr -> bool) (l : list instr) : nat :=
  match l with [] => 0 | x :: t => (if p x then 1 else 0) + cnt p t end.

Lemma cnt_app p a b : cnt p (a ++ b) = cnt p a + cnt p b.
Proof. induction a as [|x a IH]; cbn [cnt app]; [reflexivity|rewrite IH; lia]. Qed.

Definition N (p : instr -> bool) (s : st) : nat := cnt p (th0 s) + cnt p (th1 s).

Definition p_claim (i : instr) := match i with IClaim | IDtorP => true | _ => false end.
Definition p_dtor (i : instr) := match i with IDtorP => true | _ => false end.
Definition p_res (i : instr) := match i with IResolve => true | _ => false end.
Definition p_walk (i : instr) := match i with IWalk => true | _ => false end.
Definition p_dtk (i : instr) := match i with IReady | ISub _ | IWalk => true | _ => false end.
Definition p_park (i : instr) := match i with IPark => true | _ => false end.
Definition p_xw (i : instr) := match i with IXWait => true | _ => false end.
Definition p_cvA (i : instr) := match i with ICvClaim => true | _ => false end.
Definition p_cvB (i : instr) := match i with ICvReady _ => true | _ => false end.
Definition p_cvC (i : instr) := match i with ICvSet _ _ => true | _ => false end.
Definition p_cvR (i : instr) := match i with ICvResolve => true | _ => false end.
Definition p_cvW (i : instr) := match i with ICvWalk => true | _ => false end.
Definition p_otk (i : instr) := match i with IOReady | IOSub _ | ICvWalk => true | _ => false end.

Definition outcome_eqb (a b : outcome) : bool :=
  match a, b with
  | ONone, ONone => true | OCanc, OCanc => true
  | OVal x, OVal y => Z.eqb x y | OExc x, OExc y => Z.eqb x y
  | _, _ => false
  end.
Lemma outcome_eqb_eq a b : outcome_eqb a b = true -> a = b.
Proof. destruct a, b; cbn; try discriminate; try reflexivity; intros H; apply Z.eqb_eq in H; congruence. Qed.
Lemma outcome_eqb_refl a : outcome_eqb a a = true.
Proof. destruct a; cbn; auto using Z.eqb_refl. Qed.

Definition expected (c : cfg) : outcome := conv_result c (out_of (c_k c)).

(* a converter-completion instruction whose thread-local values are not the ones the protocol guarantees *)
Definition p_bad (c : cfg) (i : instr) : bool :=
  match i with
  | ICvReady g => negb g
  | ICvSet g r => negb g || negb (outcome_eqb r (expected c))
  | _ => false
  end.

Definition rdy (sl : slotv) : nat := match sl with SReady => 1 | _ => 0 end.
Definition sub (sl : slotv) : nat := match sl with SSub => 1 | _ => 0 end.
Definition b2n (b : bool) : nat := if b then 1 else 0.
Definition is_val (k : rkind) : bool := match k with KVal _ => true | _ => false end.
Definition hb (c : cfg) : nat := b2n (has_helper (c_ad c)).
Definition cv (c : cfg) : nat := b2n (is_conv c).
Definition atomic_cb (c : cfg) : bool := has_cb (c_ad c).

(* the events of a completion with a user callback, all in step t *)
Definition cb_log (c : cfg) (t : nat) : list (nat * ev) :=
  map (fun e => (t, e))
      ([ECb (out_of (c_k c)) (hb c) 0; ECbRet (hb c) 0]
       ++ (if has_functor (c_ad c) then EFun (hb c) 0 :: (if c_stor c then [ESd] else []) else [])).

Definition conv_log (c : cfg) (t : nat) : list (nat * ev) :=
  match out_of (c_k c) with OVal v => [(t, EConv v (expected c))] | _ => [] end.

Record Inv (c : cfg) (s : st) : Prop := {
  i_claim : b2n (owner s) = N p_claim s;
  i_res : rdy (slot s) + b2n (owner s) + N p_res s = 1;
  i_pay : owner s = false -> payload s = out_of (c_k c);
  i_dtk : nfire s + sub (slot s) + N p_dtk s = 1;
  i_walk : N p_walk s <= rdy (slot s);
  i_fired : nfire s <= rdy (slot s);
  i_park : b2n (parked s) + cnt p_park (th0 s) = 0 -> cnt p_xw (th1 s) = 0;
  i_xw : cnt p_xw (th0 s) = 0;
  i_alloc : allocs s = hb c;
  i_free : frees s = hb c * nfire s;
  (* converter *)
  i_stage : N p_cvA s + N p_cvB s + N p_cvC s + N p_cvR s + nores s = cv c * nfire s;
  i_oprom : b2n (oprom s) + cv c * nfire s = cv c + N p_cvA s;
  i_bad : N (p_bad c) s = 0;
  i_nores : nores s = rdy (oslot s);
  i_otk : ndeliv s + sub (oslot s) + N p_otk s = cv c;
  i_cvw : N p_cvW s <= nores s;
  i_opay : N p_cvR s + nores s >= 1 -> opayload s = expected c;
  i_nconv : nconv s + (if is_val (c_k c) then N p_cvA s + N p_cvB s else 0) = (if is_val (c_k c) then cv c * nfire s else 0);
  i_ndeliv : ndeliv s <= nores s;
  i_pay0 : owner s = true -> payload s = ONone;
  i_dtor : N p_dtor s = 0 \/ out_of (c_k c) = ONone
}.

Definition LogInv (c : cfg) (s : st) : Prop :=
  exists t1 t2 t3,
      log s = (if Nat.eqb (nconv s) 1 then conv_log c t1 else [])
              ++ (if Nat.eqb (ndeliv s) 1 then [(t2, EODeliv (expected c))] else [])
              ++ (if atomic_cb c && Nat.eqb (nfire s) 1 then cb_log c t3 else []).


(* ---------- the invariant holds initially and is preserved by every step ---------- *)
Lemma inv_init c : valid c = true -> Inv c (init c).
Proof.
  destruct c as [ad mode stor k ct cd]. unfold valid. cbn [c_mode c_stor c_ad is_mk].
  intros V.
  destruct mode as [|[|[|[|m]]]]; try (cbn in V; rewrite ?andb_false_r in V; discriminate);
  destruct ad; try (cbn in V; rewrite ?andb_false_r in V; discriminate);
  destruct k; constructor; cbn; try reflexivity; try lia; try congruence; try discriminate;
  try (left; reflexivity); try (right; reflexivity).
Qed.

Ltac dflags s :=
  repeat match goal with
  | |- context[match owner s with _ => _ end] => let E := fresh "FO" in destruct (owner s) eqn:E
  | |- context[if owner s then _ else _] => let E := fresh "FO" in destruct (owner s) eqn:E
  | |- context[match slot s with _ => _ end] => let E := fresh "FS" in destruct (slot s) eqn:E
  | |- context[match oslot s with _ => _ end] => let E := fresh "FOS" in destruct (oslot s) eqn:E
  | |- context[ICvReady (oprom s)] => let E := fresh "FOP" in destruct (oprom s) eqn:E
  | |- context[match c_ad ?c with _ => _ end] => let E := fresh "AD" in destruct (c_ad c) eqn:E
  end.

Ltac dpay s := match goal with |- context[match payload s with _ => _ end] => let E := fresh "FP" in destruct (payload s) eqn:E end.
Ltac dth s := match goal with
       | |- context[th0 s] => destruct (th0 s) as [|ins rest] eqn:T0; [discriminate|]
       | |- context[th1 s] => destruct (th1 s) as [|ins rest] eqn:T0; [discriminate|]
       end.
Ltac fin0 := try reflexivity; try assumption; try lia; try congruence;
  try (intros; lia); try (intros; congruence); try (intros; auto; fail);
  try (left; lia); try (right; assumption); try (right; reflexivity);
  try (intros; match goal with H : _ -> ?g |- ?g => apply H; lia end).
Ltac fin := fin0;
  try match goal with |- context[is_val (c_k ?c)] => let K := fresh "K" in destruct (c_k c) eqn:K; cbn [is_val out_of] in *; fin0 end.

Ltac red1 := cbn [fst snd thr set_thr push tick set_src set_out set_cnt add_log owner parked slot payload oprom oslot opayload allocs frees th0 th1 clk nfire nconv ndeliv nores log app].
Ltac redc := cbn [cnt p_claim p_dtor p_res p_walk p_dtk p_park p_xw p_cvA p_cvB p_cvC p_cvR p_cvW p_otk p_bad negb orb andb
                  b2n rdy sub Nat.add has_helper has_functor has_cb is_conv].
Ltac redch := cbn [cnt p_claim p_dtor p_res p_walk p_dtk p_park p_xw p_cvA p_cvB p_cvC p_cvR p_cvW p_otk p_bad negb orb andb
                  b2n rdy sub Nat.add] in *|-.

Ltac paystep c s I3 := match goal with
       | FS : slot s = SReady |- _ =>
           assert (PAY : payload s = out_of (c_k c)) by (apply I3; destruct (owner s); [cbn in *; lia|reflexivity])
       end.

Lemma inv_step c s i : Inv c s -> enabled s i = true -> Inv c (fst (tstep c s i)).
Proof.
  intros I E. unfold tstep, enabled in *.
  destruct I as [I1 I2 I3 I4 I5 I6 I7 I8 I9 I10 I11 I12 I13 I14 I15 I16 I17 I18 I19 I20 I21].
  unfold N in *.
  assert (CV : cv c <= 1) by (unfold cv, b2n; destruct (is_conv c); lia).
  assert (CVN : cv c * nfire s <= 1).
  { assert (nfire s <= 1) by (destruct (slot s); cbn [rdy] in I6; lia). unfold cv, b2n; destruct (is_conv c); lia. }
  destruct i as [|[|i]]; cbn [thr] in *; [| |discriminate].
  all: dth s.
  all: destruct ins; unfold exec, fire, deliver.
  all: red1; dflags s; red1.
  all: redch.
  all: try paystep c s I3.
  all: try (dpay s; red1).
  all: try match goal with
       | H : context[outcome_eqb ?r ?e] |- _ =>
           let Q := fresh "Q" in destruct (outcome_eqb r e) eqn:Q; [apply outcome_eqb_eq in Q; subst r|]; redch
       end.
  all: try match goal with g : bool |- _ => destruct g; redch end.
  all: try (rewrite FP in PAY; try rewrite <- PAY in * ).
  all: try (specialize (I20 eq_refl)).
  all: try (specialize (I3 eq_refl)).
  all: try (destruct I21 as [I21|I21]).
  all: try (unfold hb, cv, is_conv in *; rewrite AD in *; cbn [has_helper b2n Nat.mul] in * ).
  all: constructor; unfold N; red1; try (unfold hb, cv, is_conv; rewrite AD; cbn [has_helper b2n Nat.mul]); redc; unfold expected in *; try rewrite <- PAY in *; cbn [conv_result]; rewrite ?outcome_eqb_refl; redc.
  all: fin.
Qed.

Theorem inv_reachable c s : valid c = true -> reachable c s -> Inv c s.
Proof. intros V R. induction R; [apply inv_init; exact V|apply inv_step; assumption]. Qed.
