(* AdaptersProofs.v — consequences of the invariants of the callback-adapter model (AdaptersInv.v, AdaptersStep*.v). *)
From Cocls Require Import Base BaseProofs AdaptersDefs AdaptersInv AdaptersStep0A AdaptersStep0B AdaptersStep0C AdaptersStep1A AdaptersStep1B AdaptersStep1C AdaptersStep2A AdaptersStep2B AdaptersStep2C AdaptersLog AdaptersWeight.
Require Import ZifyBool.
Local Open Scope nat_scope.

Lemma inv_step c s i : Inv c s -> enabled s i = true -> Inv c (fst (tstep c s i)).
Proof.
  intros I E. unfold tstep.
  destruct i as [|[|[|i]]]; cbn [thr]; [| | |unfold enabled in E; cbn [thr] in E; discriminate].
  - destruct (th0 s) as [|ins rest] eqn:T; [unfold enabled in E; cbn [thr] in E; rewrite T in E; discriminate|].
    destruct (groups_cover ins) as [G|[G|G]]; [apply inv_step0A|apply inv_step0B|apply inv_step0C]; assumption.
  - destruct (th1 s) as [|ins rest] eqn:T; [unfold enabled in E; cbn [thr] in E; rewrite T in E; discriminate|].
    destruct (groups_cover ins) as [G|[G|G]]; [apply inv_step1A|apply inv_step1B|apply inv_step1C]; assumption.
  - destruct (th2 s) as [|ins rest] eqn:T; [unfold enabled in E; cbn [thr] in E; rewrite T in E; discriminate|].
    destruct (groups_cover ins) as [G|[G|G]]; [apply inv_step2A|apply inv_step2B|apply inv_step2C]; assumption.
Qed.

Theorem inv_reachable c s : valid c = true -> reachable c s -> Inv c s.
Proof. intros V R. induction R; [apply inv_init; exact V|apply inv_step; assumption]. Qed.

Theorem loginv_reachable c s : valid c = true -> reachable c s -> LogInv c s.
Proof.
  intros V R. induction R; [apply loginv_init|].
  apply loginv_step; [apply inv_reachable; assumption|assumption|assumption].
Qed.

(* ---------- consequences ---------- *)
(* no deadlock: when no thread can move, all threads have run to completion *)
Theorem terminal_done c s : valid c = true -> reachable c s -> terminal s -> th0 s = [] /\ th1 s = [] /\ th2 s = [].
Proof.
  intros V R T. pose proof (inv_reachable c s V R) as I.
  unfold terminal, all_enabled, enabled in T. cbn [thr] in T.
  apply app_eq_nil in T. destruct T as [T0 T]. apply app_eq_nil in T. destruct T as [T1 T2].
  assert (A : th0 s = []).
  { pose proof (i_xw c s I) as I8. pose proof (i_ow0 c s I) as W0. pose proof (j_xw0 c s I) as X0.
    destruct (th0 s) as [|ins rest]; [reflexivity|].
    destruct ins; cbn [cnt p_xw p_ow p_xw2] in I8, W0, X0; try discriminate; lia. }
  pose proof (i_park c s I) as I7. rewrite A in I7. cbn [cnt Nat.add] in I7.
  assert (B : th1 s = []).
  { pose proof (i_ow1 c s I) as W1. pose proof (j_xw1 c s I) as X1.
    destruct (th1 s) as [|ins rest]; [reflexivity|].
    destruct ins; cbn [cnt p_xw p_ow p_xw2] in I7, W1, X1; try discriminate; try lia.
    destruct (parked s); [discriminate|]. cbn [b2n] in I7. specialize (I7 eq_refl). lia. }
  split; [exact A|]. split; [exact B|].
  destruct (th2 s) as [|ins rest] eqn:C; [reflexivity|]. exfalso.
  destruct ins; try discriminate.
  - (* waits for the promise to be parked: it has been *)
    rewrite B in I7. cbn [cnt p_xw Nat.add] in I7.
    destruct (parked s); [discriminate|]. cbn [b2n] in I7. specialize (I7 eq_refl). lia.
  - (* waits for the re-arming handler to park the second promise: the first completion has run *)
    destruct I as [I1 I2 I3 I4 I5 I6 _ I8 I9 I10 I11 I12 Itok Iph IphB Iowc Ip4 Irp Ioht Iocc I13 Ioh Iop0 Idec Iow0 Iow1 Iow2 I14 I15 I16 I17 I18 I19 I20 I21 I22 I23 I24 I25 I26 I27 I28 I29 I30 I31 I32 I33 I34 I35 Jcfg J1 J2 J3 J20 J21 J4 J5 J6 J7 Jx0 Jx1 Jx2 Jxc].
    unfold N in *. rewrite A, B, C in *.
    assert (RS : cnt p_claim rest = 0 /\ cnt p_res rest = 0 /\ cnt p_dtk rest = 0 /\ cnt p_park2 rest = 0).
    { destruct Jx2 as [W|[W|W]]; [inversion W; subst rest; cbn; auto|inversion W; subst rest; cbn; auto|cbn [cnt p_xw2] in W; lia]. }
    destruct RS as (R1 & R2 & R3 & R4).
    cbn [cnt p_claim p_res p_dtk p_park2 Nat.add] in *. rewrite R1, R2, R3, R4 in *.
    assert (O : owner s = false) by (destruct (owner s); [cbn [b2n] in I1; lia|reflexivity]). rewrite O in *. cbn [b2n Nat.add] in *.
    assert (S1 : slot s = SReady) by (destruct (slot s); cbn [rdy] in I2; try reflexivity; lia).
    rewrite S1 in *. cbn [rdy sub Nat.add] in *.
    assert (F : nfire s = 1) by lia. rewrite F in *. rewrite Nat.mul_1_r in *.
    assert (RE1 : re c = 1) by (cbn [cnt p_xw2] in Jxc; unfold re in *; destruct (c_re c); lia).
    destruct (parked2 s); [discriminate|]. cbn [b2n] in *. lia.
  - (* the late resolver: either the converter forwarded the promise or the outer future is ready *)
    destruct I as [I1 I2 I3 I4 I5 I6 _ I8 I9 I10 I11 I12 Itok Iph IphB Iowc Ip4 Irp Ioht Iocc I13 Ioh Iop0 Idec Iow0 Iow1 Iow2 I14 I15 I16 I17 I18 I19 I20 I21 I22 I23 I24 I25 I26 I27 I28 I29 I30 I31 I32 I33 I34 I35 Jcfg J1 J2 J3 J20 J21 J4 J5 J6 J7 Jx0 Jx1 Jx2 Jxc].
    unfold N in *. rewrite A, B, C in *.
    destruct Iow2 as [W|W]; [|cbn [cnt p_ow] in W; lia]. inversion W; subst rest. cbn [cnt p_claim p_res p_dtk p_cvA p_cvB p_cvC p_cvP p_cvD p_cvR p_ow p_oc Nat.add] in *.
    assert (O : owner s = false) by (destruct (owner s); [cbn [b2n] in I1; lia|reflexivity]). rewrite O in *. cbn [b2n Nat.add] in *.
    assert (S1 : slot s = SReady) by (destruct (slot s); cbn [rdy] in I2; try discriminate; reflexivity).
    rewrite S1 in *. cbn [rdy sub Nat.add] in *.
    assert (F : nfire s = 1) by lia. rewrite F in *. rewrite Nat.mul_1_r in *.
    assert (RP : rp c = true) by (destruct (rp c); [reflexivity|cbn [b2n] in Iowc; lia]).
    assert (CV1 : cv c = 1).
    { unfold rp in RP. apply andb_prop in RP. destruct RP as [RP _]. unfold cv. rewrite RP. reflexivity. }
    rewrite CV1 in *.
    destruct (oheld s); [discriminate|]. cbn [on] in *.
    assert (NR : nores s = 1) by lia. rewrite NR in I14.
    destruct (oslot s); cbn [rdy] in I14; try discriminate.
Qed.

Record Final (c : cfg) (s : st) : Prop := {
  f_ready : slot s = SReady;
  f_owner : owner s = false;
  f_payload : payload s = wout c s;
  f_won : won s = 1 \/ won s = 2;
  f_fired : nfire s = 1;
  f_freed : frees s = allocs s;
  f_allocs : allocs s = hb c;
  f_nores : nores s = cv c;
  f_ndeliv : ndeliv s = cv c;
  f_nconv : nconv s = if isv (payload s) then cv c else 0;
  f_outer : is_conv c = true -> oslot s = SReady /\ opayload s = expected c s;
  f_oprom : oprom s = false;
  f_fired2 : nfire2 s = re c;
  f_payload2 : payload2 s = out_of (kind_re c)
}.

Theorem terminal_final c s : valid c = true -> reachable c s -> terminal s -> Final c s.
Proof.
  intros V R T. destruct (terminal_done c s V R T) as (A & B & C).
  destruct (inv_reachable c s V R) as [I1 I2 I3 I4 I5 I6 I7 I8 I9 I10 I11 I12 Itok Iph IphB Iowc Ip4 Irp Ioht Iocc I13 Ioh Iop0 Idec Iow0 Iow1 Iow2 I14 I15 I16 I17 I18 I19 I20 I21 I22 I23 I24 I25 I26 I27 I28 I29 I30 I31 I32 I33 I34 I35 Jcfg J1 J2 J3 J20 J21 J4 J5 J6 J7 Jx0 Jx1 Jx2 Jxc].
  unfold N in *. rewrite A, B, C in *. cbn [cnt Nat.add] in *.
  assert (O : owner s = false) by (destruct (owner s); [cbn [b2n] in I1; lia|reflexivity]).
  rewrite O in *. cbn [b2n Nat.add] in *.
  assert (S1 : slot s = SReady) by (destruct (slot s); cbn [rdy] in I2; try discriminate; reflexivity).
  rewrite S1 in *. cbn [rdy sub Nat.add] in *.
  assert (F : nfire s = 1) by lia. rewrite F in *. rewrite Nat.mul_1_r in *.
  assert (OP : oprom s = false) by (destruct (oprom s); [cbn [b2n] in I12; lia|reflexivity]).
  assert (PH : pheld s = false) by (destruct (pheld s); [cbn [b2n] in Iph; lia|reflexivity]).
  assert (OH : on (oheld s) = 0) by lia.
  rewrite OP, PH, OH in *. cbn [b2n Nat.add] in *.
  assert (OS : cv c = 1 -> oslot s = SReady).
  { intros Q. destruct (oslot s); cbn [rdy] in I14; try reflexivity; lia. }
  constructor; try assumption; try lia; auto.
  - assert (sub (oslot s) = 0).
    { destruct (oslot s) eqn:Q; cbn [sub rdy] in *; try reflexivity. lia. }
    lia.
  - destruct (isv (payload s)); lia.
  - intros Q. unfold cv in *. rewrite Q in *. cbn [b2n] in *. split; [apply OS; reflexivity|apply I17; lia].
  - assert (O2 : owner2 s = false) by (destruct (owner2 s); [cbn [b2n] in J1; lia|reflexivity]). rewrite O2 in *. cbn [b2n Nat.add] in *.
    assert (RE1 : re c <= 1) by (unfold re; destruct (c_re c); lia).
    destruct (slot2 s); cbn [rdy sub] in *; lia.
  - apply J3. destruct (owner2 s); [cbn [b2n] in J1; lia|reflexivity].
Qed.

(* the user callback is entered at most once in every reachable state ... *)
Lemma filter_cb_conv_log c o t : filter is_cb (conv_log c o t) = [].
Proof. unfold conv_log. destruct o; reflexivity. Qed.

Lemma filter_cb_cb_log c o t : length (filter is_cb (cb_log c o t)) = 1.
Proof.
  unfold cb_log. cbn [map app filter is_cb snd length].
  destruct (has_functor (c_ad c)); [|reflexivity]. cbn [map filter is_cb snd].
  destruct (has_sd (c_stor c)); reflexivity.
Qed.

Definition ncb (s : st) : nat := length (filter is_cb (log s)).

Lemma ncb_shape c s : valid c = true -> reachable c s ->
  ncb s = (if atomic_cb c && Nat.eqb (nfire s) 1 then 1 else 0) + (if Nat.eqb (nfire2 s) 1 then 1 else 0).
Proof.
  intros V R. destruct (loginv_reachable c s V R) as (t1 & t2 & t3 & t4 & L).
  unfold ncb. rewrite L, !filter_app, !app_length.
  destruct (Nat.eqb (nconv s) 1); [rewrite filter_cb_conv_log|]; cbn [filter length Nat.add];
  (destruct (Nat.eqb (ndeliv s) 1); cbn [filter is_cb snd length Nat.add]);
  (destruct (atomic_cb c && Nat.eqb (nfire s) 1); [rewrite filter_cb_cb_log|cbn [filter length]]);
  (destruct (Nat.eqb (nfire2 s) 1); reflexivity).
Qed.

(* at most one callback entry per awaited operation (a re-arming handler awaits two), in every reachable state *)
Theorem fires_at_most_once c s : valid c = true -> reachable c s -> ncb s <= 1 + re c /\ nfire s <= 1 /\ nfire2 s <= re c.
Proof.
  intros V R. rewrite (ncb_shape c s V R).
  pose proof (inv_reachable c s V R) as II. pose proof (i_fired c s II) as I6. pose proof (j_fired c s II) as J6.
  pose proof (j_dtk c s II) as J4.
  assert (NF : nfire s <= 1) by (destruct (slot s); cbn [rdy] in I6; lia).
  assert (RE1 : re c * nfire s <= re c) by (unfold re; destruct (c_re c); lia).
  assert (N2 : nfire2 s <= re c) by lia.
  repeat split; try lia.
  destruct (atomic_cb c && Nat.eqb (nfire s) 1); destruct (Nat.eqb (nfire2 s) 1) eqn:Q; try lia;
    apply Nat.eqb_eq in Q; lia.
Qed.

(* ... and exactly once per awaited operation when the scenario has run to completion (never zero, never twice) *)
Theorem fires_exactly_once c s : valid c = true -> reachable c s -> terminal s ->
  ncb s = b2n (has_cb (c_ad c)) + re c.
Proof.
  intros V R T. rewrite (ncb_shape c s V R). pose proof (terminal_final c s V R T) as F.
  rewrite (f_fired c s F), (f_fired2 c s F).
  unfold atomic_cb, re. destruct (has_cb (c_ad c)); destruct (c_re c); reflexivity.
Qed.

(* every callback invocation sees exactly the outcome the source future holds, with the helper block allocated and
   not yet freed; that outcome is the one of the resolver that won the claim ... *)
Theorem right_outcome c s t o al fr : valid c = true -> reachable c s ->
  In (t, ECb o al fr) (log s) ->
  ((o = payload s /\ o = wout c s) \/ (re c = 1 /\ o = payload2 s /\ o = out_of (kind_re c))) /\ al = hb c /\ fr = 0.
Proof.
  intros V R H. destruct (loginv_reachable c s V R) as (t1 & t2 & t3 & t4 & L). rewrite L in H.
  pose proof (inv_reachable c s V R) as II.
  apply in_app_or in H. destruct H as [H|H].
  { destruct (Nat.eqb (nconv s) 1); [|destruct H]. unfold conv_log in H.
    destruct (payload s); cbn [In] in H; try contradiction. destruct H as [H|[]]. discriminate. }
  apply in_app_or in H. destruct H as [H|H].
  { destruct (Nat.eqb (ndeliv s) 1); [|destruct H]. destruct H as [H|[]]. discriminate. }
  apply in_app_or in H. destruct H as [H|H].
  - destruct (atomic_cb c && Nat.eqb (nfire s) 1) eqn:Q; [|destruct H].
    assert (P : payload s = wout c s).
    { pose proof (i_res c s II) as I2. pose proof (i_pay c s II) as I3. pose proof (i_fired c s II) as I6.
      apply I3. apply andb_prop in Q. destruct Q as [_ Q]. apply Nat.eqb_eq in Q. rewrite Q in I6.
      destruct (slot s); cbn [rdy] in *; try lia. destruct (owner s); [cbn [b2n] in I2; lia|reflexivity]. }
    unfold cb_log in H. cbn [map app] in H.
    destruct H as [H|[H|H]]; try discriminate.
    + inversion H. subst. auto.
    + destruct (has_functor (c_ad c)); [|destruct H]. cbn [map] in H. destruct H as [H|H]; [discriminate|].
      destruct (has_sd (c_stor c)); [destruct H as [H|[]]|destruct H]; discriminate.
  - destruct (Nat.eqb (nfire2 s) 1) eqn:Q; [|destruct H]. apply Nat.eqb_eq in Q.
    pose proof (j_fired c s II) as J6. pose proof (j_res c s II) as J2. pose proof (j_pay c s II) as J3.
    pose proof (j_dtk c s II) as J4. pose proof (j_cfg c s II) as Jcfg.
    pose proof (i_fired c s II) as I6. assert (NF : nfire s <= 1) by (destruct (slot s); cbn [rdy] in I6; lia).
    assert (RE1 : re c <= 1) by (unfold re; destruct (c_re c); lia).
    assert (REN : re c * nfire s <= re c) by (unfold re; destruct (c_re c); lia).
    assert (R1 : re c = 1) by lia.
    assert (P2 : payload2 s = out_of (kind_re c)).
    { apply J3. destruct (slot2 s); cbn [rdy] in *; try lia. destruct (owner2 s); [cbn [b2n] in J2; lia|reflexivity]. }
    unfold cb2_log in H. destruct H as [H|[H|[]]]; [|discriminate]. inversion H. subst.
    unfold hb. rewrite (Jcfg R1). cbn [has_helper b2n]. rewrite <- P2. auto.
Qed.

(* ... i.e. of the call that returned true: at most one call returns true; the competitor's call returned true iff it
   won; without a competitor the outcome is the declared one; with one, the primary's call returned true iff it won *)
Theorem winner_facts c s : valid c = true -> reachable c s ->
  (ret1 s = Some true -> ret2 s = Some true -> False) /\
  (ret1 s = Some true -> wout c s = out_of (c_k c)) /\
  (ret2 s = Some true -> exists k2, c_k2 c = Some k2 /\ wout c s = out_of k2) /\
  (c_k2 c = None -> wout c s = out_of (c_k c) /\ ret2 s = None) /\
  (c_k2 c <> None -> owner s = false -> (ret1 s = Some true /\ ret2 s <> Some true) \/ (ret2 s = Some true /\ ret1 s <> Some true)).
Proof.
  intros V R.
  pose proof (inv_reachable c s V R) as II. pose proof (i_won0 c s II) as I22. pose proof (i_won c s II) as I23. pose proof (i_ret1 c s II) as I24. pose proof (i_ret2 c s II) as I25.
  pose proof (i_c0 c s II) as I28. pose proof (i_c2k c s II) as I29. pose proof (i_r2k c s II) as I30. pose proof (i_w1 c s II) as I31.
  unfold wout, kind_of. split; [|split; [|split; [|split]]].
  - intros A B. apply I24 in A. apply I25 in B. congruence.
  - intros A. apply I24 in A. rewrite A. reflexivity.
  - intros B. assert (ret2 s <> None) as NB by congruence. apply I30 in NB. apply I25 in B. rewrite B.
    destruct (c_k2 c) as [k2|]; [|congruence]. exists k2. auto.
  - intros K. split.
    + destruct (won s) as [|[|[|w]]] eqn:W; try reflexivity.
      exfalso. assert (ret2 s = Some true) as B by (apply I25; reflexivity). apply I30; [congruence|exact K].
    + destruct (ret2 s) as [b|] eqn:B; [|reflexivity]. exfalso. apply I30; [discriminate|exact K].
  - intros K O. destruct (I23 O) as [W|W].
    + left. destruct (I31 W) as [A|A]; [|contradiction]. split; [exact A|]. intros B. apply I25 in B. congruence.
    + right. assert (ret2 s = Some true) as B by (apply I25; exact W). split; [exact B|]. intros A. apply I24 in A. congruence.
Qed.

(* the helper block is released at most once, never before the callback has returned, and exactly once at the end *)
Theorem released_once c s : valid c = true -> reachable c s ->
  frees s <= allocs s /\ allocs s = hb c /\
  (frees s >= 1 -> atomic_cb c = true -> exists pre post t, log s = pre ++ cb_log c (payload s) t ++ post) /\
  (terminal s -> frees s = allocs s).
Proof.
  intros V R. pose proof (inv_reachable c s V R) as II. pose proof (i_dtk c s II) as I4. pose proof (i_fired c s II) as I6. pose proof (i_alloc c s II) as I9. pose proof (i_free c s II) as I10.
  assert (NF : nfire s <= 1) by (destruct (slot s); cbn [rdy] in I6; lia).
  repeat split.
  - rewrite I9. destruct (nfire s) as [|[|n]]; lia.
  - exact I9.
  - intros F A. destruct (loginv_reachable c s V R) as (t1 & t2 & t3 & t4 & L).
    assert (nfire s = 1) by (destruct (nfire s) as [|[|n]]; lia).
    rewrite H, A in L. cbn [Nat.eqb andb] in L. rewrite L, app_assoc. eauto.
  - intros T. exact (f_freed c s (terminal_final c s V R T)).
Qed.

(* converter adapter: at the end the outer future holds exactly the converted value / the converter's exception /
   the source's exception, it was resolved once, delivered once, and the converter ran once iff there was a value *)
Theorem conv_final c s : valid c = true -> is_conv c = true -> reachable c s -> terminal s ->
  oslot s = SReady /\ opayload s = conv_result c (wout c s) /\ nores s = 1 /\ ndeliv s = 1 /\
  nconv s = b2n (isv (wout c s)) /\
  exists t1 t2, log s = conv_log c (wout c s) t1 ++ [(t2, EODeliv (conv_result c (wout c s)))].
Proof.
  intros V C R T. destruct (terminal_final c s V R T) as [_ _ P _ F _ _ NR ND NC O _].
  destruct (O C) as [O1 O2]. unfold cv, expected in *. rewrite C in *. cbn [b2n] in *. rewrite <- P.
  repeat split; try assumption.
  destruct (loginv_reachable c s V R) as (t1 & t2 & t3 & t4 & L).
  pose proof (terminal_final c s V R T) as FF. pose proof (j_cfg c s (inv_reachable c s V R)) as Jcfg.
  rewrite ND, F, (f_fired2 c s FF) in L. unfold atomic_cb, expected in L. unfold is_conv in C. destruct (c_ad c) eqn:AD; try discriminate.
  assert (RE0 : re c = 0) by (unfold re in *; destruct (c_re c); [specialize (Jcfg eq_refl); discriminate Jcfg|reflexivity]).
  rewrite RE0 in L. cbn [has_cb andb Nat.eqb] in L. rewrite !app_nil_r in L.
  rewrite NC in L. exists t1, t2. rewrite L. unfold conv_log.
  destruct (payload s); cbn [isv Nat.eqb]; reflexivity.
Qed.

(* safety half, in every reachable state: the outer future is resolved at most once, the converter runs at most once
   and only on a value, and a ready outer future holds the expected result *)
Theorem conv_safe c s : valid c = true -> reachable c s ->
  nores s <= 1 /\ nconv s <= b2n (isv (payload s)) /\ ndeliv s <= nores s /\
  (oslot s = SReady -> opayload s = conv_result c (payload s)).
Proof.
  intros V R. pose proof (inv_reachable c s V R) as II. pose proof (i_fired c s II) as I6. pose proof (i_tok c s II) as Itok. pose proof (i_nores c s II) as I14. pose proof (i_opay c s II) as I17. pose proof (i_nconv c s II) as I18. pose proof (i_ndeliv c s II) as I19. pose proof (i_stage c s II) as I11.
  assert (NF : nfire s <= 1) by (destruct (slot s); cbn [rdy] in I6; lia).
  assert (CV : cv c * nfire s <= 1).
  { unfold cv, b2n. destruct (is_conv c); lia. }
  assert (CV1 : cv c <= 1) by (unfold cv, b2n; destruct (is_conv c); lia).
  repeat split; try lia.
  - destruct (isv (payload s)); cbn [b2n]; lia.
  - intros Q. rewrite Q in I14. cbn [rdy] in I14. apply I17. lia.
Qed.

(* ---------- every schedule executed by run_sched stays inside the reachable states ---------- *)
Lemma in_all_enabled s i : In i (all_enabled s) -> enabled s i = true.
Proof.
  unfold all_enabled. intros H. apply in_app_or in H. destruct H as [H|H].
  - destruct (enabled s 0) eqn:Q; [|destruct H]. destruct H as [<-|[]]. exact Q.
  - apply in_app_or in H. destruct H as [H|H].
    + destruct (enabled s 1) eqn:Q; [|destruct H]. destruct H as [<-|[]]. exact Q.
    + destruct (enabled s 2) eqn:Q; [|destruct H]. destruct H as [<-|[]]. exact Q.
Qed.

Lemma sched_pick_enabled s e en sched :
  all_enabled s = e :: en ->
  enabled s (nth (Z.to_nat ((match sched with [] => 0%Z | x :: _ => Z.abs x end) mod zlen (e :: en))) (e :: en) 0) = true.
Proof.
  intros EN. apply in_all_enabled. rewrite EN. apply nth_In.
  set (k := match sched with [] => 0%Z | x :: _ => Z.abs x end).
  assert (0 <= k)%Z by (unfold k; destruct sched; lia).
  unfold zlen. cbn [length].
  pose proof (Z.mod_pos_bound k (Z.of_nat (S (length en))) ltac:(lia)). lia.
Qed.

Theorem run_sched_reachable c fuel : forall s sched tr,
  reachable c s -> reachable c (fst (run_sched c fuel s sched tr)).
Proof.
  induction fuel as [|f IH]; intros s sched tr R; cbn [run_sched]; [exact R|].
  destruct (all_enabled s) as [|e en] eqn:EN; [exact R|].
  pose proof (sched_pick_enabled s e en sched EN) as E.
  set (i := nth _ (e :: en) 0) in *.
  destruct (tstep c s i) as [s1 p] eqn:TS.
  apply IH. replace s1 with (fst (tstep c s i)) by (rewrite TS; reflexivity).
  apply r_step; assumption.
Qed.

(* ---------- termination (the potential function and its step lemma are in AdaptersWeight.v) ---------- *)
Lemma wl_pos l : l <> [] -> wl l >= 1.
Proof. destruct l as [|x t]; [congruence|]. intros _. cbn [wl]. destruct x; cbn [w]; lia. Qed.

Lemma weight_zero_terminal s : weight s = 0 -> terminal s.
Proof.
  unfold weight, terminal, all_enabled, enabled. cbn [thr]. intros H.
  destruct (th0 s) as [|a l0]; [|pose proof (wl_pos (a :: l0) ltac:(discriminate)); lia].
  destruct (th1 s) as [|b l1]; [|pose proof (wl_pos (b :: l1) ltac:(discriminate)) as P; change (wl []) with 0 in H; lia].
  destruct (th2 s) as [|d l2]; [reflexivity|].
  pose proof (wl_pos (d :: l2) ltac:(discriminate)) as P. change (wl []) with 0 in H. lia.
Qed.

Theorem run_terminates c fuel : forall s sched tr,
  valid c = true -> reachable c s -> weight s <= fuel -> terminal (fst (run_sched c fuel s sched tr)).
Proof.
  induction fuel as [|f IH]; intros s sched tr V R W; cbn [run_sched].
  - cbn [fst]. apply weight_zero_terminal. lia.
  - destruct (all_enabled s) as [|e en] eqn:EN; [exact EN|].
    pose proof (sched_pick_enabled s e en sched EN) as E.
    set (i := nth _ (e :: en) 0) in *.
    pose proof (weight_step c s i (inv_reachable c s V R) E) as WS.
    destruct (tstep c s i) as [s1 p] eqn:TS. cbn [fst] in WS.
    apply IH; [exact V| |lia].
    replace s1 with (fst (tstep c s i)) by (rewrite TS; reflexivity).
    apply r_step; assumption.
Qed.

Lemma weight_init c : valid c = true -> weight (init c) <= 90.
Proof.
  destruct c as [ad mode stor k k2 rek ct cd]. unfold valid, weight, init, is_mk, is_conv, is_mode, reg_prog, mk_prog, res_prog.
  cbn [c_mode c_stor c_ad c_k2 c_cb c_k c_re th0 th1 th2].
  intros V.
  destruct mode as [|[|[|[|m]]]]; try (cbn in V; rewrite ?andb_false_r in V; discriminate);
  destruct ad; destruct k2 as [kk|]; destruct rek as [[rv|rx|]|]; destruct k; cbn; try (destruct (Nat.eqb ct 4)); cbn; lia.
Qed.

(* every schedule of every valid configuration ends, within 90 steps, in a terminal state *)
Theorem every_schedule_terminates c sched fuel : valid c = true -> 90 <= fuel ->
  terminal (fst (run_sched c fuel (init c) sched [])).
Proof.
  intros V F. apply run_terminates; [exact V|apply r_init|]. pose proof (weight_init c V). lia.
Qed.
