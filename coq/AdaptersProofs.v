(* AdaptersProofs.v — invariants of the callback-adapter model for every valid configuration (adapter, outcome,
   timing, storage, converter) and every schedule (induction over reachability). *)
From Cocls Require Import Base BaseProofs AdaptersDefs.
Require Import ZifyBool.
Local Open Scope nat_scope.

Inductive reachable (c : cfg) : st -> Prop :=
| r_init : reachable c (init c)
| r_step s i : reachable c s -> enabled s i = true -> reachable c (fst (tstep c s i)).

Definition terminal (s : st) : Prop := all_enabled s = [].

(* ---------- counting ---------- *)
Fixpoint cnt (p : instr -> bool) (l : list instr) : nat :=
  match l with [] => 0 | x :: t => (if p x then 1 else 0) + cnt p t end.

Lemma cnt_app p a b : cnt p (a ++ b) = cnt p a + cnt p b.
Proof. induction a as [|x a IH]; cbn [cnt app]; [reflexivity|rewrite IH; lia]. Qed.

Definition N (p : instr -> bool) (s : st) : nat := cnt p (th0 s) + cnt p (th1 s).

Definition p_claim (i : instr) := match i with IClaim | IDtorP => true | _ => false end.
Definition p_dtor (i : instr) := match i with IDtorP => true | _ => false end.
Definition p_res (i : instr) := match i with IResolve => true | _ => false end.
Definition p_walk (i : instr) := match i with IWalk => true | _ => false end.
Definition p_dtk (i : instr) := match i with IReady | ISub _ | IWalk => true | _ => false end.
Definition p_park (i : instr) := match i with IPark => true | _ => false end.
Definition p_xw (i : instr) := match i with IXWait => true | _ => false end.
Definition p_cvA (i : instr) := match i with ICvClaim => true | _ => false end.
Definition p_cvB (i : instr) := match i with ICvReady _ => true | _ => false end.
Definition p_cvC (i : instr) := match i with ICvSet _ _ => true | _ => false end.
Definition p_cvR (i : instr) := match i with ICvResolve => true | _ => false end.
Definition p_cvW (i : instr) := match i with ICvWalk => true | _ => false end.
Definition p_otk (i : instr) := match i with IOReady | IOSub _ | ICvWalk => true | _ => false end.

Definition outcome_eqb (a b : outcome) : bool :=
  match a, b with
  | ONone, ONone => true | OCanc, OCanc => true
  | OVal x, OVal y => Z.eqb x y | OExc x, OExc y => Z.eqb x y
  | _, _ => false
  end.
Lemma outcome_eqb_eq a b : outcome_eqb a b = true -> a = b.
Proof. destruct a, b; cbn; try discriminate; try reflexivity; intros H; apply Z.eqb_eq in H; congruence. Qed.
Lemma outcome_eqb_refl a : outcome_eqb a a = true.
Proof. destruct a; cbn; auto using Z.eqb_refl. Qed.

Definition expected (c : cfg) : outcome := conv_result c (out_of (c_k c)).

(* a converter-completion instruction whose thread-local values are not the ones the protocol guarantees *)
Definition p_bad (c : cfg) (i : instr) : bool :=
  match i with
  | ICvReady g => negb g
  | ICvSet g r => negb g || negb (outcome_eqb r (expected c))
  | _ => false
  end.

Definition rdy (sl : slotv) : nat := match sl with SReady => 1 | _ => 0 end.
Definition sub (sl : slotv) : nat := match sl with SSub => 1 | _ => 0 end.
Definition b2n (b : bool) : nat := if b then 1 else 0.
Definition is_val (k : rkind) : bool := match k with KVal _ => true | _ => false end.
Definition hb (c : cfg) : nat := b2n (has_helper (c_ad c)).
Definition cv (c : cfg) : nat := b2n (is_conv c).
Definition atomic_cb (c : cfg) : bool := has_cb (c_ad c).

(* the events of a completion with a user callback, all in step t *)
Definition cb_log (c : cfg) (t : nat) : list (nat * ev) :=
  map (fun e => (t, e))
      ([ECb (out_of (c_k c)) (hb c) 0; ECbRet (hb c) 0]
       ++ (if has_functor (c_ad c) then EFun (hb c) 0 :: (if c_stor c then [ESd] else []) else [])).

Definition conv_log (c : cfg) (t : nat) : list (nat * ev) :=
  match out_of (c_k c) with OVal v => [(t, EConv v (expected c))] | _ => [] end.

Record Inv (c : cfg) (s : st) : Prop := {
  i_claim : b2n (owner s) = N p_claim s;
  i_res : rdy (slot s) + b2n (owner s) + N p_res s = 1;
  i_pay : owner s = false -> payload s = out_of (c_k c);
  i_dtk : nfire s + sub (slot s) + N p_dtk s = 1;
  i_walk : N p_walk s <= rdy (slot s);
  i_fired : nfire s <= rdy (slot s);
  i_park : b2n (parked s) + cnt p_park (th0 s) = 0 -> cnt p_xw (th1 s) = 0;
  i_xw : cnt p_xw (th0 s) = 0;
  i_alloc : allocs s = hb c;
  i_free : frees s = hb c * nfire s;
  (* converter *)
  i_stage : N p_cvA s + N p_cvB s + N p_cvC s + N p_cvR s + nores s = cv c * nfire s;
  i_oprom : b2n (oprom s) + cv c * nfire s = cv c + N p_cvA s;
  i_bad : N (p_bad c) s = 0;
  i_nores : nores s = rdy (oslot s);
  i_otk : ndeliv s + sub (oslot s) + N p_otk s = cv c;
  i_cvw : N p_cvW s <= nores s;
  i_opay : N p_cvR s + nores s >= 1 -> opayload s = expected c;
  i_nconv : nconv s + (if is_val (c_k c) then N p_cvA s + N p_cvB s else 0) = (if is_val (c_k c) then cv c * nfire s else 0);
  i_ndeliv : ndeliv s <= nores s;
  i_pay0 : owner s = true -> payload s = ONone;
  i_dtor : N p_dtor s = 0 \/ out_of (c_k c) = ONone
}.

Definition LogInv (c : cfg) (s : st) : Prop :=
  exists t1 t2 t3,
      log s = (if Nat.eqb (nconv s) 1 then conv_log c t1 else [])
              ++ (if Nat.eqb (ndeliv s) 1 then [(t2, EODeliv (expected c))] else [])
              ++ (if atomic_cb c && Nat.eqb (nfire s) 1 then cb_log c t3 else []).


(* ---------- the invariant holds initially and is preserved by every step ---------- *)
Lemma inv_init c : valid c = true -> Inv c (init c).
Proof.
  destruct c as [ad mode stor k ct cd]. unfold valid. cbn [c_mode c_stor c_ad is_mk].
  intros V.
  destruct mode as [|[|[|[|m]]]]; try (cbn in V; rewrite ?andb_false_r in V; discriminate);
  destruct ad; try (cbn in V; rewrite ?andb_false_r in V; discriminate);
  destruct k; constructor; cbn; try reflexivity; try lia; try congruence; try discriminate;
  try (left; reflexivity); try (right; reflexivity).
Qed.

Ltac dflags s :=
  repeat match goal with
  | |- context[match owner s with _ => _ end] => let E := fresh "FO" in destruct (owner s) eqn:E
  | |- context[if owner s then _ else _] => let E := fresh "FO" in destruct (owner s) eqn:E
  | |- context[match slot s with _ => _ end] => let E := fresh "FS" in destruct (slot s) eqn:E
  | |- context[match oslot s with _ => _ end] => let E := fresh "FOS" in destruct (oslot s) eqn:E
  | |- context[ICvReady (oprom s)] => let E := fresh "FOP" in destruct (oprom s) eqn:E
  | |- context[match c_ad ?c with _ => _ end] => let E := fresh "AD" in destruct (c_ad c) eqn:E
  end.

Ltac dpay s := match goal with |- context[match payload s with _ => _ end] => let E := fresh "FP" in destruct (payload s) eqn:E end.
Ltac dth s := match goal with
       | |- context[th0 s] => destruct (th0 s) as [|ins rest] eqn:T0; [discriminate|]
       | |- context[th1 s] => destruct (th1 s) as [|ins rest] eqn:T0; [discriminate|]
       end.
Ltac fin0 := try reflexivity; try assumption; try lia; try congruence;
  try (intros; lia); try (intros; congruence); try (intros; auto; fail);
  try (left; lia); try (right; assumption); try (right; reflexivity);
  try (intros; match goal with H : _ -> ?g |- ?g => apply H; lia end).
Ltac fin := fin0;
  try match goal with |- context[is_val (c_k ?c)] => let K := fresh "K" in destruct (c_k c) eqn:K; cbn [is_val out_of] in *; fin0 end.

Ltac red1 := cbn [fst snd thr set_thr push tick set_src set_out set_cnt add_log owner parked slot payload oprom oslot opayload allocs frees th0 th1 clk nfire nconv ndeliv nores log app].
Ltac redc := cbn [cnt p_claim p_dtor p_res p_walk p_dtk p_park p_xw p_cvA p_cvB p_cvC p_cvR p_cvW p_otk p_bad negb orb andb
                  b2n rdy sub Nat.add has_helper has_functor has_cb is_conv].
Ltac redch := cbn [cnt p_claim p_dtor p_res p_walk p_dtk p_park p_xw p_cvA p_cvB p_cvC p_cvR p_cvW p_otk p_bad negb orb andb
                  b2n rdy sub Nat.add] in *|-.

Ltac paystep c s I3 := match goal with
       | FS : slot s = SReady |- _ =>
           assert (PAY : payload s = out_of (c_k c)) by (apply I3; destruct (owner s); [cbn in *; lia|reflexivity])
       end.

Lemma inv_step c s i : Inv c s -> enabled s i = true -> Inv c (fst (tstep c s i)).
Proof.
  intros I E. unfold tstep, enabled in *.
  destruct I as [I1 I2 I3 I4 I5 I6 I7 I8 I9 I10 I11 I12 I13 I14 I15 I16 I17 I18 I19 I20 I21].
  unfold N in *.
  assert (CV : cv c <= 1) by (unfold cv, b2n; destruct (is_conv c); lia).
  assert (CVN : cv c * nfire s <= 1).
  { assert (nfire s <= 1) by (destruct (slot s); cbn [rdy] in I6; lia). unfold cv, b2n; destruct (is_conv c); lia. }
  destruct i as [|[|i]]; cbn [thr] in *; [| |discriminate].
  all: dth s.
  all: destruct ins; unfold exec, fire, deliver.
  all: red1; dflags s; red1.
  all: redch.
  all: try paystep c s I3.
  all: try (dpay s; red1).
  all: try match goal with
       | H : context[outcome_eqb ?r ?e] |- _ =>
           let Q := fresh "Q" in destruct (outcome_eqb r e) eqn:Q; [apply outcome_eqb_eq in Q; subst r|]; redch
       end.
  all: try match goal with g : bool |- _ => destruct g; redch end.
  all: try (rewrite FP in PAY; try rewrite <- PAY in * ).
  all: try (specialize (I20 eq_refl)).
  all: try (specialize (I3 eq_refl)).
  all: try (destruct I21 as [I21|I21]).
  all: try (unfold hb, cv, is_conv in *; rewrite AD in *; cbn [has_helper b2n Nat.mul] in * ).
  all: constructor; unfold N; red1; try (unfold hb, cv, is_conv; rewrite AD; cbn [has_helper b2n Nat.mul]); redc; unfold expected in *; try rewrite <- PAY in *; cbn [conv_result]; rewrite ?outcome_eqb_refl; redc.
  all: fin.
Qed.

Theorem inv_reachable c s : valid c = true -> reachable c s -> Inv c s.
Proof. intros V R. induction R; [apply inv_init; exact V|apply inv_step; assumption]. Qed.

(* ---------- the event log has exactly the shape the counters dictate ---------- *)

Lemma loginv_init c : LogInv c (init c).
Proof. exists 0, 0, 0. cbn. rewrite andb_false_r. reflexivity. Qed.

Lemma loginv_step c s i : Inv c s -> LogInv c s -> enabled s i = true -> LogInv c (fst (tstep c s i)).
Proof.
  intros I (t1 & t2 & t3 & L) E. unfold tstep, enabled in *.
  destruct I as [I1 I2 I3 I4 I5 I6 I7 I8 I9 I10 I11 I12 I13 I14 I15 I16 I17 I18 I19 I20 I21].
  unfold N in *.
  assert (CV : cv c <= 1) by (unfold cv, b2n; destruct (is_conv c); lia).
  assert (CVN : cv c * nfire s <= 1).
  { assert (nfire s <= 1) by (destruct (slot s); cbn [rdy] in I6; lia). unfold cv, b2n; destruct (is_conv c); lia. }
  unfold LogInv.
  destruct i as [|[|i]]; cbn [thr] in *; [| |discriminate].
  all: dth s.
  all: destruct ins; unfold exec, fire, deliver.
  all: red1; dflags s; red1.
  all: try (exists t1, t2, t3; exact L).
  all: redch.
  all: try (assert (PAY : payload s = out_of (c_k c)) by (apply I3; destruct (owner s), (slot s); cbn [b2n rdy] in *; try reflexivity; lia)).
  all: try (dpay s; red1).
  all: try match goal with g : bool |- _ => destruct g; red1 end.
  all: try (exists t1, t2, t3; exact L).
  (* completions that do not log a callback *)
  all: try (unfold atomic_cb in *; rewrite AD in *; cbn [has_cb andb] in *; exists t1, t2, t3; exact L).
  (* completions with a user callback *)
  all: try (assert (NF : nfire s = 0) by lia; rewrite NF in *; cbn [Nat.eqb andb] in *;
            rewrite andb_false_r in L; rewrite andb_true_r;
            exists t1, t2, (S (clk s)); rewrite L; rewrite <- !app_assoc; cbn [app];
            unfold atomic_cb, cb_log, hb; rewrite AD, I9, I10, PAY; unfold hb; rewrite AD, Nat.mul_0_r; reflexivity).
  (* deliveries and conversions: only the converter adapter has them *)
  all: assert (CV1 : cv c = 1) by lia.
  all: unfold cv, is_conv, atomic_cb in *; destruct (c_ad c) eqn:AD; try discriminate; cbn [has_cb andb b2n Nat.mul] in *.
  all: try (assert (ND : ndeliv s = 0) by lia; assert (OP : opayload s = expected c) by (apply I17; lia);
            rewrite ND, OP in *; cbn [Nat.eqb] in *; exists t1, (S (clk s)), t3; rewrite L, !app_nil_r; reflexivity).
  all: try (assert (NC : nconv s = 0) by (destruct (c_k c); cbn [is_val] in I18; lia);
            assert (ND : ndeliv s = 0) by lia;
            rewrite NC, ND in *; cbn [Nat.eqb app] in *; exists (S (clk s)), t2, t3; rewrite L;
            unfold conv_log, expected; rewrite <- PAY; cbn [conv_result app map]; reflexivity).
Qed.

Theorem loginv_reachable c s : valid c = true -> reachable c s -> LogInv c s.
Proof.
  intros V R. induction R; [apply loginv_init|].
  apply loginv_step; [apply inv_reachable; assumption|assumption|assumption].
Qed.

(* ---------- consequences ---------- *)
(* no deadlock: when no thread can move, both threads have run to completion *)
Theorem terminal_done c s : valid c = true -> reachable c s -> terminal s -> th0 s = [] /\ th1 s = [].
Proof.
  intros V R T. destruct (inv_reachable c s V R) as [_ _ _ _ _ _ I7 I8 _ _ _ _ _ _ _ _ _ _ _ _ _].
  unfold terminal, all_enabled, enabled in T. cbn [thr] in T.
  assert (A : th0 s = []).
  { destruct (th0 s) as [|ins rest]; [reflexivity|].
    destruct ins; cbn [cnt p_xw] in I8; try discriminate; try lia;
      destruct (match th1 s with [] => false | IXWait :: _ => parked s | _ => true end); discriminate. }
  split; [exact A|]. rewrite A in *. cbn [cnt app] in *.
  destruct (th1 s) as [|ins rest]; [reflexivity|].
  destruct ins; try discriminate.
  destruct (parked s); [discriminate|]. cbn [b2n cnt p_xw] in I7. specialize (I7 eq_refl). lia.
Qed.

Record Final (c : cfg) (s : st) : Prop := {
  f_ready : slot s = SReady;
  f_owner : owner s = false;
  f_payload : payload s = out_of (c_k c);
  f_fired : nfire s = 1;
  f_freed : frees s = allocs s;
  f_allocs : allocs s = hb c;
  f_nores : nores s = cv c;
  f_ndeliv : ndeliv s = cv c;
  f_nconv : nconv s = if is_val (c_k c) then cv c else 0;
  f_outer : is_conv c = true -> oslot s = SReady /\ opayload s = expected c;
  f_oprom : oprom s = false
}.

Theorem terminal_final c s : valid c = true -> reachable c s -> terminal s -> Final c s.
Proof.
  intros V R T. destruct (terminal_done c s V R T) as [A B].
  destruct (inv_reachable c s V R) as [I1 I2 I3 I4 I5 I6 I7 I8 I9 I10 I11 I12 I13 I14 I15 I16 I17 I18 I19 I20 I21].
  unfold N in *. rewrite A, B in *. cbn [cnt Nat.add] in *.
  assert (O : owner s = false) by (destruct (owner s); [discriminate|reflexivity]).
  rewrite O in *. cbn [b2n Nat.add] in *.
  assert (S1 : slot s = SReady) by (destruct (slot s); cbn [rdy] in I2; try discriminate; reflexivity).
  rewrite S1 in *. cbn [rdy sub Nat.add] in *.
  assert (F : nfire s = 1) by lia. rewrite F in *. rewrite Nat.mul_1_r in *.
  assert (OS : cv c = 1 -> oslot s = SReady).
  { intros Q. destruct (oslot s); cbn [rdy] in I14; try reflexivity; lia. }
  constructor; try assumption; try lia; auto.
  - assert (sub (oslot s) = 0).
    { destruct (oslot s) eqn:Q; cbn [sub rdy] in *; try reflexivity. lia. }
    lia.
  - destruct (is_val (c_k c)); lia.
  - intros Q. unfold cv in *. rewrite Q in *. cbn [b2n] in *. split; [apply OS; reflexivity|apply I17; lia].
  - destruct (oprom s); [|reflexivity]. cbn [b2n] in I12. lia.
Qed.

(* the user callback is entered at most once in every reachable state ... *)
Lemma filter_cb_conv_log c t : filter is_cb (conv_log c t) = [].
Proof. unfold conv_log. destruct (out_of (c_k c)); reflexivity. Qed.

Lemma filter_cb_cb_log c t : length (filter is_cb (cb_log c t)) = 1.
Proof.
  unfold cb_log. cbn [map app filter is_cb snd length].
  destruct (has_functor (c_ad c)); [|reflexivity]. cbn [map filter is_cb snd].
  destruct (c_stor c); reflexivity.
Qed.

Definition ncb (s : st) : nat := length (filter is_cb (log s)).

Lemma ncb_shape c s : valid c = true -> reachable c s -> ncb s = if atomic_cb c && Nat.eqb (nfire s) 1 then 1 else 0.
Proof.
  intros V R. destruct (loginv_reachable c s V R) as (t1 & t2 & t3 & L).
  unfold ncb. rewrite L, !filter_app, !app_length.
  destruct (Nat.eqb (nconv s) 1); [rewrite filter_cb_conv_log|]; cbn [filter length Nat.add];
  (destruct (Nat.eqb (ndeliv s) 1); cbn [filter is_cb snd length Nat.add]);
  (destruct (atomic_cb c && Nat.eqb (nfire s) 1); [apply filter_cb_cb_log|reflexivity]).
Qed.

Theorem fires_at_most_once c s : valid c = true -> reachable c s -> ncb s <= 1.
Proof. intros V R. rewrite (ncb_shape c s V R). destruct (atomic_cb c && Nat.eqb (nfire s) 1); lia. Qed.

(* ... and exactly once when the scenario has run to completion (never zero, never twice) *)
Theorem fires_exactly_once c s : valid c = true -> reachable c s -> terminal s ->
  ncb s = b2n (has_cb (c_ad c)).
Proof.
  intros V R T. rewrite (ncb_shape c s V R). destruct (terminal_final c s V R T) as [_ _ _ F _ _ _ _ _ _ _].
  rewrite F. unfold atomic_cb. destruct (has_cb (c_ad c)); reflexivity.
Qed.

(* every callback invocation sees exactly the resolver's outcome, with the helper block allocated and not yet freed *)
Theorem right_outcome c s t o al fr : valid c = true -> reachable c s ->
  In (t, ECb o al fr) (log s) -> o = out_of (c_k c) /\ al = hb c /\ fr = 0.
Proof.
  intros V R H. destruct (loginv_reachable c s V R) as (t1 & t2 & t3 & L). rewrite L in H.
  apply in_app_or in H. destruct H as [H|H].
  { destruct (Nat.eqb (nconv s) 1); [|destruct H]. unfold conv_log in H.
    destruct (out_of (c_k c)); cbn [In] in H; try contradiction. destruct H as [H|[]]. discriminate. }
  apply in_app_or in H. destruct H as [H|H].
  { destruct (Nat.eqb (ndeliv s) 1); [|destruct H]. destruct H as [H|[]]. discriminate. }
  destruct (atomic_cb c && Nat.eqb (nfire s) 1); [|destruct H].
  unfold cb_log in H. cbn [map app] in H.
  destruct H as [H|[H|H]]; try discriminate.
  - inversion H. auto.
  - destruct (has_functor (c_ad c)); [|destruct H]. cbn [map] in H. destruct H as [H|H]; [discriminate|].
    destruct (c_stor c); [destruct H as [H|[]]|destruct H]; discriminate.
Qed.

(* the helper block is released at most once, never before the callback has returned, and exactly once at the end *)
Theorem released_once c s : valid c = true -> reachable c s ->
  frees s <= allocs s /\ allocs s = hb c /\
  (frees s >= 1 -> atomic_cb c = true -> exists pre t, log s = pre ++ cb_log c t) /\
  (terminal s -> frees s = allocs s).
Proof.
  intros V R. destruct (inv_reachable c s V R) as [_ _ _ I4 _ I6 _ _ I9 I10 _ _ _ _ _ _ _ _ _ _ _].
  assert (NF : nfire s <= 1) by (destruct (slot s); cbn [rdy] in I6; lia).
  repeat split.
  - rewrite I9, I10. destruct (nfire s) as [|[|n]]; lia.
  - exact I9.
  - intros F A. destruct (loginv_reachable c s V R) as (t1 & t2 & t3 & L).
    assert (nfire s = 1) by (destruct (nfire s) as [|[|n]]; lia).
    rewrite H, A in L. cbn [Nat.eqb andb] in L. rewrite L, app_assoc. eauto.
  - intros T. destruct (terminal_final c s V R T) as [_ _ _ _ F _ _ _ _ _ _]. exact F.
Qed.

(* converter adapter: at the end the outer future holds exactly the converted value / the converter's exception /
   the source's exception, it was resolved once, delivered once, and the converter ran once iff there was a value *)
Theorem conv_final c s : valid c = true -> is_conv c = true -> reachable c s -> terminal s ->
  oslot s = SReady /\ opayload s = expected c /\ nores s = 1 /\ ndeliv s = 1 /\
  nconv s = b2n (is_val (c_k c)) /\
  exists t1 t2, log s = conv_log c t1 ++ [(t2, EODeliv (expected c))].
Proof.
  intros V C R T. destruct (terminal_final c s V R T) as [_ _ _ F _ _ NR ND NC O _].
  destruct (O C) as [O1 O2]. unfold cv in *. rewrite C in *. cbn [b2n] in *.
  repeat split; try assumption.
  destruct (loginv_reachable c s V R) as (t1 & t2 & t3 & L).
    rewrite ND, F in L. unfold atomic_cb in L. unfold is_conv in C. destruct (c_ad c); try discriminate.
    cbn [has_cb andb Nat.eqb] in L. rewrite app_nil_r in L.
    rewrite NC in L. exists t1, t2. rewrite L. unfold conv_log.
    destruct (c_k c); cbn [is_val out_of Nat.eqb]; reflexivity.
Qed.

(* safety half, in every reachable state: the outer future is resolved at most once, the converter runs at most once
   and only on a value, and a ready outer future holds the expected result *)
Theorem conv_safe c s : valid c = true -> reachable c s ->
  nores s <= 1 /\ nconv s <= b2n (is_val (c_k c)) /\ ndeliv s <= nores s /\
  (oslot s = SReady -> opayload s = expected c).
Proof.
  intros V R. destruct (inv_reachable c s V R) as [_ _ _ _ _ I6 _ _ _ _ I11 _ _ I14 _ _ I17 I18 I19 _ _].
  assert (NF : nfire s <= 1) by (destruct (slot s); cbn [rdy] in I6; lia).
  assert (CV : cv c * nfire s <= 1).
  { unfold cv, b2n. destruct (is_conv c); lia. }
  repeat split; try lia.
  - destruct (is_val (c_k c)); cbn [b2n]; lia.
  - intros Q. rewrite Q in I14. cbn [rdy] in I14. apply I17. lia.
Qed.

(* ---------- every schedule executed by run_sched stays inside the reachable states ---------- *)
Lemma in_all_enabled s i : In i (all_enabled s) -> enabled s i = true.
Proof.
  unfold all_enabled. intros H. apply in_app_or in H. destruct H as [H|H].
  - destruct (enabled s 0) eqn:Q; [|destruct H]. destruct H as [<-|[]]. exact Q.
  - destruct (enabled s 1) eqn:Q; [|destruct H]. destruct H as [<-|[]]. exact Q.
Qed.

Theorem run_sched_reachable c fuel : forall s sched tr,
  reachable c s -> reachable c (fst (run_sched c fuel s sched tr)).
Proof.
  induction fuel as [|f IH]; intros s sched tr R; cbn [run_sched]; [exact R|].
  destruct (all_enabled s) as [|e en] eqn:EN; [exact R|].
  set (k := match sched with [] => 0%Z | x :: _ => Z.abs x end).
  set (i := nth (Z.to_nat (k mod zlen (e :: en))) (e :: en) 0).
  assert (E : enabled s i = true).
  { apply in_all_enabled. rewrite EN. apply nth_In.
    assert (0 <= k)%Z by (unfold k; destruct sched; lia).
    unfold zlen. cbn [length].
    pose proof (Z.mod_pos_bound k (Z.of_nat (S (length en))) ltac:(lia)). lia. }
  destruct (tstep c s i) as [s1 p] eqn:TS.
  apply IH. replace s1 with (fst (tstep c s i)) by (rewrite TS; reflexivity).
  apply r_step; assumption.
Qed.

(* ---------- termination: every step consumes potential, so every schedule ends after at most `weight (init c)` steps ---------- *)
Definition w (i : instr) : nat :=
  match i with
  | IPriv _ | IPark | IXWait | ICvWalk => 1
  | ICvResolve => 2 | ICvSet _ _ => 3 | ICvReady _ => 4 | ICvClaim => 5
  | IWalk => 7 | ISub _ => 8 | IReady => 9 | IResolve => 8 | IClaim | IDtorP => 9
  | IOSub _ => 2 | IOReady => 3
  end.
Fixpoint wl (l : list instr) : nat := match l with [] => 0 | x :: t => w x + wl t end.
Definition weight (s : st) : nat := wl (th0 s) + wl (th1 s).

Lemma weight_step c s i : Inv c s -> enabled s i = true -> weight (fst (tstep c s i)) < weight s.
Proof.
  intros I E. unfold tstep, enabled, weight in *.
  destruct I as [I1 I2 I3 I4 I5 I6 I7 I8 I9 I10 I11 I12 I13 I14 I15 I16 I17 I18 I19 I20 I21].
  unfold N in *.
  assert (CV : cv c <= 1) by (unfold cv, b2n; destruct (is_conv c); lia).
  assert (CVN : cv c * nfire s <= 1).
  { assert (nfire s <= 1) by (destruct (slot s); cbn [rdy] in I6; lia). unfold cv, b2n; destruct (is_conv c); lia. }
  destruct i as [|[|i]]; cbn [thr] in *; [| |discriminate].
  all: dth s.
  all: destruct ins; unfold exec, fire, deliver.
  all: red1; dflags s; red1.
  all: try (dpay s).
  all: try match goal with g : bool |- _ => destruct g end.
  all: red1; cbn [wl w app].
  all: redch.
  all: try lia.
Qed.

Lemma wl_pos l : l <> [] -> wl l >= 1.
Proof. destruct l as [|x t]; [congruence|]. intros _. cbn [wl]. destruct x; cbn [w]; lia. Qed.

Lemma weight_zero_terminal s : weight s = 0 -> terminal s.
Proof.
  unfold weight, terminal, all_enabled, enabled. cbn [thr]. intros H.
  destruct (th0 s) as [|a l0]; [|pose proof (wl_pos (a :: l0) ltac:(discriminate)); lia].
  destruct (th1 s) as [|b l1]; [reflexivity|].
  pose proof (wl_pos (b :: l1) ltac:(discriminate)) as P. change (wl []) with 0 in H. lia.
Qed.

Theorem run_terminates c fuel : forall s sched tr,
  valid c = true -> reachable c s -> weight s <= fuel -> terminal (fst (run_sched c fuel s sched tr)).
Proof.
  induction fuel as [|f IH]; intros s sched tr V R W; cbn [run_sched].
  - cbn [fst]. apply weight_zero_terminal. lia.
  - destruct (all_enabled s) as [|e en] eqn:EN; [exact EN|].
    set (k := match sched with [] => 0%Z | x :: _ => Z.abs x end).
    set (i := nth (Z.to_nat (k mod zlen (e :: en))) (e :: en) 0).
    assert (E : enabled s i = true).
    { apply in_all_enabled. rewrite EN. apply nth_In.
      assert (0 <= k)%Z by (unfold k; destruct sched; lia).
      unfold zlen. cbn [length].
      pose proof (Z.mod_pos_bound k (Z.of_nat (S (length en))) ltac:(lia)). lia. }
    pose proof (weight_step c s i (inv_reachable c s V R) E) as WS.
    destruct (tstep c s i) as [s1 p] eqn:TS. cbn [fst] in WS.
    apply IH; [exact V| |lia].
    replace s1 with (fst (tstep c s i)) by (rewrite TS; reflexivity).
    apply r_step; assumption.
Qed.

Lemma weight_init c : valid c = true -> weight (init c) <= 60.
Proof.
  destruct c as [ad mode stor k ct cd]. unfold valid. cbn [c_mode c_stor c_ad is_mk].
  intros V.
  destruct mode as [|[|[|[|m]]]]; try (cbn in V; rewrite ?andb_false_r in V; discriminate);
  destruct ad; try (cbn in V; rewrite ?andb_false_r in V; discriminate);
  destruct k; cbn; lia.
Qed.

(* every schedule of every valid configuration ends, within 60 steps, in a terminal state *)
Theorem every_schedule_terminates c sched fuel : valid c = true -> 60 <= fuel ->
  terminal (fst (run_sched c fuel (init c) sched [])).
Proof.
  intros V F. apply run_terminates; [exact V|apply r_init|]. pose proof (weight_init c V). lia.
Qed.
