(* SignalProofs.v — invariants and theorems about the signal model (SignalDefs.v). *)
From Cocls Require Import Base BaseProofs SignalDefs.
Require Import ZifyBool.
Ltac Zify.zify_post_hook ::= Z.div_mod_to_equations.
Local Open Scope Z_scope.

(* ---------- projections used in the statements ---------- *)
Definition cbs (w : list (nat * bool)) : list nat := map fst (filter (fun p => snd p) w).
Definition cos (w : list (nat * bool)) : list nat := map fst (filter (fun p => negb (snd p)) w).

Definition deliv (e : ev) : list (nat * Z) :=
  match e with ERecv i v => [(i, v)] | ECall i v => [(i, v)] | _ => [] end.
Definition delivs (l : list ev) : list (nat * Z) := flat_map deliv l.

Definition freed (e : ev) : list nat := match e with EFree i => [i] | _ => [] end.
Definition freeds (l : list ev) : list nat := flat_map freed l.

Definition is_cb_ev (e : ev) : bool := match e with ECall _ _ | EFree _ | ETerm _ => true | _ => false end.
Definition co_evs (l : list ev) : list ev := filter (fun e => negb (is_cb_ev e)) l.

(* the log of a coroutine that awaits a disconnected emitter with r retries left *)
Fixpoint dead_await (r : nat) (i : nat) : list ev :=
  EAwait i :: ECancel i r :: match r with O => [EFin i] | S r' => dead_await r' i end.
(* ... and of one that is resumed from its wait by the disconnect *)
Definition dead_resumed (r : nat) (i : nat) : list ev := tl (dead_await r i).

(* order in which the coroutines of a suspend point run: array order from ordinary code, last first when awaited *)
Definition sp_order (awaited : bool) (l : list nat) : list nat :=
  if awaited then match l with [] => [] | _ => last l O :: removelast l end else l.

(* fields that only the driver changes *)
Definition same_val (s s' : st) : Prop :=
  strong s' = strong s /\ cur s' = cur s /\ owned s' = owned s /\ ext s' = ext s /\
  m_coro s' = m_coro s /\ m_void s' = m_void s /\ held s' = held s.

Lemma same_val_refl s : same_val s s. Proof. repeat split. Qed.
Lemma same_val_trans a b c : same_val a b -> same_val b c -> same_val a c.
Proof. unfold same_val. intros (?&?&?&?&?&?&?) (?&?&?&?&?&?&?). repeat split; congruence. Qed.

Lemma same_val_alive s s' : same_val s s' -> alive s' = alive s.
Proof. intros (H&_). unfold alive. rewrite H. reflexivity. Qed.
Lemma same_val_ar s s' : same_val s s' -> await_resume s' = await_resume s.
Proof.
  intros H. pose proof (same_val_alive _ _ H) as A. destruct H as (H1&H2&H3&H4&H5&H6&H7).
  unfold await_resume, deref. rewrite A, H2, H3, H4, H6. reflexivity.
Qed.

Lemma same_val_setl s i l : same_val s (setl s i l). Proof. repeat split. Qed.
Lemma same_val_subscribe s i b : same_val s (subscribe s i b). Proof. repeat split. Qed.
Lemma same_val_set_queue s q : same_val s (set_queue s q). Proof. repeat split. Qed.
Lemma same_val_set_chain s q : same_val s (set_chain s q). Proof. repeat split. Qed.

Lemma delivs_app a b : delivs (a ++ b) = delivs a ++ delivs b.
Proof. unfold delivs. apply flat_map_app. Qed.
Lemma freeds_app a b : freeds (a ++ b) = freeds a ++ freeds b.
Proof. unfold freeds. apply flat_map_app. Qed.
Lemma co_evs_app a b : co_evs (a ++ b) = co_evs a ++ co_evs b.
Proof. unfold co_evs. apply filter_app. Qed.

(* ---------- co_await_e ---------- *)
Lemma co_await_e_alive r i s : alive s = true -> co_await_e r i s = (subscribe s i false, [EAwait i]).
Proof. intros A. destruct r; cbn [co_await_e]; rewrite A; reflexivity. Qed.

Lemma co_await_e_dead r : forall i s, alive s = false ->
  exists s', co_await_e r i s = (s', dead_await r i) /\ same_val s s' /\ chain s' = chain s /\ queue s' = queue s.
Proof.
  induction r as [|r IH]; intros i s A; cbn [co_await_e dead_await]; rewrite A.
  - exists s. repeat split.
  - set (s1 := setl s i _).
    assert (A1 : alive s1 = false) by exact A.
    destruct (IH i s1 A1) as (s' & E & SV & C & Q). rewrite E. exists s'. repeat split; try apply SV.
    + exact C. + exact Q.
Qed.

Lemma dead_await_delivs r i : delivs (dead_await r i) = [].
Proof. induction r; cbn; auto. Qed.
Lemma dead_await_freeds r i : freeds (dead_await r i) = [].
Proof. induction r; cbn; auto. Qed.
Lemma dead_await_co_evs r i : co_evs (dead_await r i) = dead_await r i.
Proof. induction r; cbn [dead_await co_evs filter is_cb_ev negb]; f_equal; f_equal; auto. Qed.

Lemma co_await_e_frame r i s : forall s' e, co_await_e r i s = (s', e) ->
  same_val s s' /\ queue s' = queue s /\ delivs e = [] /\ freeds e = [] /\ co_evs e = e /\
  (alive s = true -> chain s' = (i, false) :: chain s) /\ (alive s = false -> chain s' = chain s).
Proof.
  intros s' e E. destruct (alive s) eqn:A.
  - rewrite (co_await_e_alive _ _ _ A) in E. inversion E; subst.
    refine (conj (same_val_subscribe _ _ _) (conj eq_refl (conj eq_refl (conj eq_refl (conj eq_refl (conj _ _)))))).
    + reflexivity. + discriminate.
  - destruct (co_await_e_dead r i s A) as (s2 & E2 & SV & C & Q). rewrite E2 in E. inversion E; subst.
    refine (conj SV (conj Q (conj (dead_await_delivs _ _) (conj (dead_await_freeds _ _) (conj (dead_await_co_evs _ _) (conj _ _)))))).
    + discriminate. + intros _. exact C.
Qed.

(* ---------- table ---------- *)
Lemma getl_setl_same s i l : getl (setl s i l) i = l.
Proof. unfold getl, setl, set_tab; cbn [tab]. rewrite get_put_same. reflexivity. Qed.
Lemma getl_setl_other s i j l : i <> j -> getl (setl s i l) j = getl s j.
Proof. intros N. unfold getl, setl, set_tab; cbn [tab]. rewrite get_put_other by exact N. reflexivity. Qed.

Lemma ar_alive s v : await_resume s = Some v -> alive s = true.
Proof. unfold await_resume. destruct (alive s); [reflexivity|discriminate]. Qed.
Lemma dead_ar s : alive s = false -> await_resume s = None.
Proof. unfold await_resume. intros ->. reflexivity. Qed.

(* ---------- co_resumed ---------- *)
Lemma co_resumed_live i s v : await_resume s = Some v ->
  forall s' e p, co_resumed i s = (s', e, p) ->
  same_val s s' /\ queue s' = queue s /\ delivs e = [(i, v)] /\ freeds e = [] /\ co_evs e = e /\
  (chain s' = chain s \/ chain s' = (i, false) :: chain s) /\
  (l_limit (getl s i) = O -> l_pause (getl s i) = false -> p = false /\ chain s' = (i, false) :: chain s
     /\ getl s' i = mkLis O false (l_retry (getl s i)) (S (l_cnt (getl s i)))).
Proof.
  intros AR s' e p E. unfold co_resumed in E. rewrite AR in E.
  pose proof (ar_alive _ _ AR) as A.
  set (l := getl s i) in *.
  set (s1 := setl s i _) in E.
  assert (A1 : alive s1 = true) by exact A.
  destruct (negb (Nat.eqb (l_limit l) 0) && Nat.eqb (S (l_cnt l)) (l_limit l)) eqn:F.
  - inversion E; subst. refine (conj (same_val_setl _ _ _) (conj eq_refl (conj eq_refl (conj eq_refl (conj eq_refl (conj (or_introl eq_refl) _)))))).
    intros L0 _. rewrite L0 in F. discriminate.
  - destruct (l_pause l) eqn:P.
    + inversion E; subst. refine (conj (same_val_setl _ _ _) (conj eq_refl (conj eq_refl (conj eq_refl (conj eq_refl (conj (or_introl eq_refl) _)))))).
      intros _ P0. discriminate.
    + rewrite (co_await_e_alive _ _ _ A1) in E. inversion E; subst.
      refine (conj _ (conj eq_refl (conj eq_refl (conj eq_refl (conj eq_refl (conj (or_intror eq_refl) _)))))).
      * apply (same_val_trans _ s1); [apply same_val_setl|apply same_val_subscribe].
      * intros L0 _. split; [reflexivity|]. split; [reflexivity|].
        change (getl (subscribe s1 i false) i) with (getl s1 i). unfold s1. rewrite getl_setl_same.
        rewrite L0. reflexivity.
Qed.

Lemma co_resumed_dead i s : alive s = false ->
  exists s', co_resumed i s = (s', dead_resumed (l_retry (getl s i)) i, false)
             /\ same_val s s' /\ chain s' = chain s /\ queue s' = queue s.
Proof.
  intros A. unfold co_resumed. rewrite (dead_ar _ A).
  destruct (l_retry (getl s i)) as [|r'] eqn:R.
  - exists s. repeat split.
  - set (s1 := setl s i _).
    assert (A1 : alive s1 = false) by exact A.
    destruct (co_await_e_dead r' i s1 A1) as (s' & E & SV & C & Q). rewrite E.
    exists s'. split; [reflexivity|]. split; [|split; [exact C|exact Q]].
    apply (same_val_trans _ s1); [apply same_val_setl|exact SV].
Qed.

(* ---------- run_item / drive ---------- *)
Definition not_ready (q : list (nat * bool)) : Prop := forall it, In it q -> snd it = false.

Lemma not_ready_app a b : not_ready a -> not_ready b -> not_ready (a ++ b).
Proof. intros Ha Hb it I. apply in_app_or in I. destruct I; auto. Qed.

Lemma cbs_app a b : cbs (a ++ b) = cbs a ++ cbs b.
Proof. unfold cbs. rewrite filter_app, map_app. reflexivity. Qed.
Lemma cos_app a b : cos (a ++ b) = cos a ++ cos b.
Proof. unfold cos. rewrite filter_app, map_app. reflexivity. Qed.

(* growth of the chain by coroutine entries only *)
Definition co_grow (c c' : list (nat * bool)) : Prop := exists d, c' = d ++ c /\ cbs d = [].
Lemma co_grow_refl c : co_grow c c. Proof. exists []. split; reflexivity. Qed.
Lemma co_grow_trans a b c : co_grow a b -> co_grow b c -> co_grow a c.
Proof. intros (d1&E1&C1) (d2&E2&C2). exists (d2 ++ d1). subst. rewrite app_assoc. split; [reflexivity|]. rewrite cbs_app, C1, C2. reflexivity. Qed.
Lemma co_grow_cons c i : co_grow c ((i, false) :: c).
Proof. exists [(i, false)]. split; reflexivity. Qed.
Lemma co_grow_cbs c c' : co_grow c c' -> cbs c' = cbs c.
Proof. intros (d&E&C). subst. rewrite cbs_app, C. reflexivity. Qed.

Lemma run_item_live inl it s v : await_resume s = Some v ->
  forall s' e, run_item inl it s = (s', e) ->
  same_val s s' /\ delivs e = (if snd it then [(fst it, v)] else []) /\ freeds e = [] /\ co_evs e = e /\
  co_grow (chain s) (chain s') /\ (exists q, queue s' = queue s ++ q /\ not_ready q).
Proof.
  intros AR s' e E. destruct it as [i ready]. cbn [fst snd]. unfold run_item in E.
  pose proof (ar_alive _ _ AR) as A.
  destruct ready.
  - destruct (co_resumed i s) as [[s1 e1] p] eqn:E1.
    destruct (co_resumed_live i s v AR _ _ _ E1) as (SV & Q & D & F & CE & C & _).
    assert (G1 : co_grow (chain s) (chain s1)).
    { destruct C as [C|C]; rewrite C; [apply co_grow_refl|apply co_grow_cons]. }
    destruct p.
    + destruct inl.
      * destruct (co_await_e (l_retry (getl s1 i)) i s1) as [s2 e2] eqn:E2. inversion E; subst.
        destruct (co_await_e_frame _ _ _ _ _ E2) as (SV2 & Q2 & D2 & F2 & CE2 & C2 & _).
        rewrite (same_val_alive _ _ SV) in C2. specialize (C2 A).
        split; [exact (same_val_trans _ _ _ SV SV2)|].
        split; [rewrite delivs_app, D, D2; reflexivity|].
        split; [rewrite freeds_app, F, F2; reflexivity|].
        split; [rewrite co_evs_app, CE, CE2; reflexivity|].
        split; [rewrite C2; apply (co_grow_trans _ _ _ G1), co_grow_cons|].
        exists []. rewrite app_nil_r. split; [congruence|]. intros ? [].
      * inversion E; subst.
        split; [exact (same_val_trans _ _ _ SV (same_val_set_queue _ _))|].
        split; [exact D|]. split; [exact F|]. split; [exact CE|]. split; [exact G1|].
        exists [(i, false)]. cbn [queue set_queue]. rewrite Q. split; [reflexivity|].
        intros it [<-|[]]. reflexivity.
    + inversion E; subst. split; [exact SV|]. split; [exact D|]. split; [exact F|]. split; [exact CE|]. split; [exact G1|].
      exists []. rewrite app_nil_r. split; [exact Q|]. intros ? [].
  - destruct (co_await_e_frame _ _ _ _ _ E) as (SV2 & Q2 & D2 & F2 & CE2 & C2 & _).
    specialize (C2 A).
    split; [exact SV2|]. split; [exact D2|]. split; [exact F2|]. split; [exact CE2|].
    split; [rewrite C2; apply co_grow_cons|].
    exists []. rewrite app_nil_r. split; [exact Q2|]. intros ? [].
Qed.

Definition readies (items : list (nat * bool)) : list nat := map fst (filter (fun p => snd p) items).

Lemma drive_live inl items : forall s v, await_resume s = Some v ->
  forall s' e, drive inl items s = (s', e) ->
  same_val s s' /\ delivs e = map (fun i => (i, v)) (readies items) /\ freeds e = [] /\ co_evs e = e /\
  co_grow (chain s) (chain s') /\ (exists q, queue s' = queue s ++ q /\ not_ready q).
Proof.
  induction items as [|it t IH]; intros s v AR s' e E; cbn [drive] in E.
  - inversion E; subst. split; [apply same_val_refl|]. repeat split; try reflexivity. apply co_grow_refl.
    exists []. rewrite app_nil_r. split; [reflexivity|]. intros ? [].
  - destruct (run_item inl it s) as [s1 e1] eqn:E1. destruct (drive inl t s1) as [s2 e2] eqn:E2. inversion E; subst.
    destruct (run_item_live _ _ _ _ AR _ _ E1) as (SV1 & D1 & F1 & CE1 & G1 & (q1 & Q1 & N1)).
    assert (AR1 : await_resume s1 = Some v) by (rewrite (same_val_ar _ _ SV1); exact AR).
    destruct (IH _ _ AR1 _ _ E2) as (SV2 & D2 & F2 & CE2 & G2 & (q2 & Q2 & N2)).
    split; [exact (same_val_trans _ _ _ SV1 SV2)|].
    split. { rewrite delivs_app, D1, D2. unfold readies. cbn [filter]. destruct it as [i []]; cbn [snd fst map app]; reflexivity. }
    split; [rewrite freeds_app, F1, F2; reflexivity|].
    split; [rewrite co_evs_app, CE1, CE2; reflexivity|].
    split; [exact (co_grow_trans _ _ _ G1 G2)|].
    exists (q1 ++ q2). rewrite Q2, Q1, app_assoc. split; [reflexivity|apply not_ready_app; assumption].
Qed.

(* ---------- callbacks and the walk ---------- *)
Arguments frees : simpl never.
Lemma frees_app a b : frees (a ++ b) = frees a + frees b.
Proof. unfold frees, zlen. rewrite filter_app, app_length. lia. Qed.
Lemma frees_freeds e : frees e = zlen (freeds e).
Proof.
  unfold frees, freeds, zlen. induction e as [|x e IH]; [reflexivity|].
  cbn [filter flat_map]. destruct x; cbn [is_free freed app length]; lia.
Qed.
Lemma frees_nil_of_freeds e : freeds e = [] -> frees e = 0.
Proof. intros H. rewrite frees_freeds, H. reflexivity. Qed.

Lemma cbs_cons_t i t : cbs ((i, true) :: t) = i :: cbs t. Proof. reflexivity. Qed.
Lemma cbs_cons_f i t : cbs ((i, false) :: t) = cbs t. Proof. reflexivity. Qed.
Lemma cos_cons_t i t : cos ((i, true) :: t) = cos t. Proof. reflexivity. Qed.
Lemma cos_cons_f i t : cos ((i, false) :: t) = i :: cos t. Proof. reflexivity. Qed.

Lemma cb_resume_live i s v : await_resume s = Some v ->
  forall s' e, cb_resume i s = (s', e) ->
  same_val s s' /\ queue s' = queue s /\ delivs e = [(i, v)] /\ co_evs e = [] /\
  ((chain s' = (i, true) :: chain s /\ freeds e = []) \/ (chain s' = chain s /\ freeds e = [i])).
Proof.
  intros AR s' e E. unfold cb_resume in E. rewrite (ar_alive _ _ AR), AR in E. cbn [negb] in E.
  set (s1 := setl s i _) in E.
  destruct (Nat.eqb (l_limit (getl s i)) 0 || Nat.ltb (S (l_cnt (getl s i))) (l_limit (getl s i))) eqn:F;
    inversion E; subst.
  - split; [apply (same_val_trans _ s1); [apply same_val_setl|apply same_val_subscribe]|].
    repeat split. left. split; reflexivity.
  - split; [apply same_val_setl|]. repeat split. right. split; reflexivity.
Qed.

Lemma cb_resume_dead i s : alive s = false -> cb_resume i s = (s, [EFree i]).
Proof. intros A. unfold cb_resume. rewrite A. reflexivity. Qed.

Lemma walk_live w : forall s v, await_resume s = Some v ->
  forall s' e sp, walk w s = (s', e, sp) ->
  same_val s s' /\ queue s' = queue s /\ delivs e = map (fun i => (i, v)) (cbs w) /\ co_evs e = [] /\ sp = cos w /\
  (exists d, chain s' = d ++ chain s /\ cos d = [] /\ zlen (cbs d) + frees e = zlen (cbs w)) /\
  incl (freeds e) (cbs w).
Proof.
  induction w as [|[i cb] t IH]; intros s v AR s' e sp E; cbn [walk] in E.
  - inversion E; subst. split; [apply same_val_refl|]. repeat split; try reflexivity.
    + exists []. repeat split.
    + intros ? [].
  - destruct cb.
    + destruct (cb_resume i s) as [s1 e1] eqn:E1. destruct (walk t s1) as [[s2 e2] sp2] eqn:E2. inversion E; subst.
      destruct (cb_resume_live _ _ _ AR _ _ E1) as (SV1 & Q1 & D1 & CE1 & C1).
      assert (AR1 : await_resume s1 = Some v) by (rewrite (same_val_ar _ _ SV1); exact AR).
      destruct (IH _ _ AR1 _ _ _ E2) as (SV2 & Q2 & D2 & CE2 & SP & (d & Cd & Cod & Bal) & Inc).
      split; [exact (same_val_trans _ _ _ SV1 SV2)|].
      split; [congruence|].
      split; [rewrite delivs_app, D1, D2; reflexivity|].
      split; [rewrite co_evs_app, CE1, CE2; reflexivity|].
      split; [exact SP|].
      split.
      * destruct C1 as [(C1 & F1)|(C1 & F1)].
        -- exists (d ++ [(i, true)]). rewrite Cd, C1, <- app_assoc. split; [reflexivity|].
           split; [rewrite cos_app, Cod; reflexivity|].
           rewrite cbs_app, frees_app, (frees_nil_of_freeds _ F1), !cbs_cons_t. unfold zlen in *. rewrite app_length.
           cbn [length cbs filter map]. lia.
        -- exists d. rewrite Cd, C1. split; [reflexivity|]. split; [exact Cod|].
           rewrite frees_app. rewrite (frees_freeds e1), F1, cbs_cons_t. unfold zlen in *.
           cbn [length]. lia.
      * rewrite freeds_app. intros x I. apply in_app_or in I. cbn [cbs filter snd map fst].
        destruct I as [I|I].
        -- destruct C1 as [(_ & F1)|(_ & F1)]; rewrite F1 in I; [destruct I|]. destruct I as [<-|[]]. left. reflexivity.
        -- right. apply Inc. exact I.
    + destruct (walk t s) as [[s2 e2] sp2] eqn:E2. inversion E; subst.
      destruct (IH _ _ AR _ _ _ E2) as (SV2 & Q2 & D2 & CE2 & SP & Ex & Inc).
      split; [exact SV2|]. split; [exact Q2|]. split; [exact D2|]. split; [exact CE2|].
      split; [rewrite SP; reflexivity|]. split; [exact Ex|exact Inc].
Qed.

Lemma walk_dead w : forall s, alive s = false -> walk w s = (s, map EFree (cbs w), cos w).
Proof.
  induction w as [|[i cb] t IH]; intros s A; cbn [walk]; [reflexivity|].
  destruct cb.
  - rewrite (cb_resume_dead _ _ A), (IH _ A). reflexivity.
  - rewrite (IH _ A). reflexivity.
Qed.

Lemma readies_ready_items sp : readies (ready_items sp) = sp.
Proof. unfold readies, ready_items. induction sp as [|x t IH]; cbn; [reflexivity|]. f_equal. exact IH. Qed.
Lemma readies_app a b : readies (a ++ b) = readies a ++ readies b.
Proof. unfold readies. rewrite filter_app, map_app. reflexivity. Qed.
Lemma readies_not_ready q : not_ready q -> readies q = [].
Proof.
  unfold readies. induction q as [|[i r] t IH]; intros N; [reflexivity|].
  cbn [filter snd]. pose proof (N (i, r) (or_introl eq_refl)) as H. cbn in H. subst r.
  apply IH. intros it I. apply N. right. exact I.
Qed.

(* ---------- dispose ---------- *)
Lemma dispose_live awaited sp s v : await_resume s = Some v ->
  (m_coro s = false \/ awaited = true) -> not_ready (queue s) ->
  forall s' e, dispose awaited sp s = (s', e) ->
  same_val s s' /\ delivs e = map (fun i => (i, v)) (sp_order (m_coro s) sp) /\ freeds e = [] /\ co_evs e = e /\
  co_grow (chain s) (chain s') /\ not_ready (queue s').
Proof.
  intros AR M N s' e E. unfold dispose in E.
  destruct (m_coro s) eqn:MC; cbn [negb] in E.
  - destruct M as [M|M]; [discriminate|]. subst awaited. cbn [negb] in E.
    destruct sp as [|x t].
    + inversion E; subst. split; [apply same_val_refl|]. repeat split. apply co_grow_refl. exact N.
    + set (sp := x :: t) in *.
      assert (AR0 : await_resume (set_queue s []) = Some v) by (rewrite (same_val_ar _ _ (same_val_set_queue _ _)); exact AR).
      destruct (drive_live _ _ _ _ AR0 _ _ E) as (SV & D & F & CE & G & (q & Q & NQ)).
      split; [exact (same_val_trans _ _ _ (same_val_set_queue _ _) SV)|].
      split.
      { rewrite D. f_equal. unfold sp_order.
        change (readies ((last sp O, true) :: queue s ++ ready_items (removelast sp)))
          with (last sp O :: readies (queue s ++ ready_items (removelast sp))).
        rewrite readies_app, (readies_not_ready _ N), readies_ready_items. reflexivity. }
      split; [exact F|]. split; [exact CE|]. split; [exact G|].
      rewrite Q. cbn [queue set_queue app]. exact NQ.
  - assert (R : readies (ready_items sp) = sp) by apply readies_ready_items.
    destruct (drive_live _ _ _ _ AR _ _ E) as (SV & D & F & CE & G & (q & Q & NQ)).
    split; [exact SV|]. split; [rewrite D, R; reflexivity|]. split; [exact F|]. split; [exact CE|]. split; [exact G|].
    rewrite Q. apply not_ready_app; assumption.
Qed.

(* ================= C15 broadcast ================= *)
Definition emitted (s : st) (v : Z) : Z := if m_void s then 0 else v.

Lemma emit_ar s kind v c : alive s = true ->
  await_resume (set_chain (if Nat.eqb kind 2 then set_val s VExt (owned s) v else set_val s VOwned (Some v) (ext s)) c)
  = Some (emitted s v).
Proof.
  intros A. unfold alive in A. unfold await_resume, emitted, deref, alive.
  destruct (Nat.eqb kind 2); cbn [set_chain set_val strong cur owned ext m_void];
    rewrite A; destruct (m_void s); reflexivity.
Qed.

Lemma sv_coro s s' : same_val s s' -> m_coro s' = m_coro s. Proof. intros H. apply H. Qed.
Lemma sv_void s s' : same_val s s' -> m_void s' = m_void s. Proof. intros H. apply H. Qed.
Lemma sv_strong s s' : same_val s s' -> strong s' = strong s. Proof. intros H. apply H. Qed.
Lemma sv_held s s' : same_val s s' -> held s' = held s. Proof. intros H. apply H. Qed.

Lemma emit_shape s kind awaited v s' o :
  step s (OEmit kind awaited v) = (s', o) -> o_st o = 0 ->
  alive s = true /\ (awaited = true -> m_coro s = true) /\
  let s1 := set_chain (if Nat.eqb kind 2 then set_val s VExt (owned s) v else set_val s VOwned (Some v) (ext s)) [] in
  exists s2 e1 sp e2, walk (chain s) s1 = (s2, e1, sp) /\ dispose awaited sp s2 = (s', e2) /\
     o = mkObs 0 (zlen sp) 0 (frees (e1 ++ e2)) (e1 ++ e2).
Proof.
  intros E O. cbn [step step0] in E.
  destruct (negb (alive s) || (awaited && negb (m_coro s)) || (m_void s && negb (Nat.eqb kind 0)) || Nat.ltb 2 kind) eqn:R.
  - inversion E; subst. discriminate.
  - apply orb_false_iff in R. destruct R as (R & _). apply orb_false_iff in R. destruct R as (R & _).
    apply orb_false_iff in R. destruct R as (R1 & R2). apply negb_false_iff in R1.
    split; [exact R1|]. split.
    { intros ->. cbn in R2. apply negb_false_iff in R2. exact R2. }
    cbn zeta. unfold notify in E.
    assert (CH : chain (if Nat.eqb kind 2 then set_val s VExt (owned s) v else set_val s VOwned (Some v) (ext s)) = chain s)
      by (destruct (Nat.eqb kind 2); reflexivity).
    rewrite CH in E.
    destruct (walk (chain s) _) as [[s2 e1] sp] eqn:W.
    destruct (dispose awaited sp s2) as [s3 e2] eqn:D. inversion E; subst.
    exists s2, e1, sp, e2. repeat split. exact D.
Qed.

Lemma hold_shape s kind v s' o :
  step0 s (OEmitHold kind v) = (s', o) ->
  negb (alive s) || (m_void s && negb (Nat.eqb kind 0)) || Nat.ltb 2 kind = false ->
  alive s = true /\
  let s1 := set_chain (if Nat.eqb kind 2 then set_val s VExt (owned s) v else set_val s VOwned (Some v) (ext s)) [] in
  exists s2 e1 sp, walk (chain s) s1 = (s2, e1, sp) /\ s' = set_held s2 (held s2 ++ [sp]) /\
     o = mkObs 0 (zlen sp) 0 (frees e1) e1.
Proof.
  intros E R. cbn [step0] in E. rewrite R in E.
  apply orb_false_iff in R. destruct R as (R & _). apply orb_false_iff in R. destruct R as (R1 & _). apply negb_false_iff in R1.
  split; [exact R1|]. cbn zeta. unfold notify in E.
  assert (CH : chain (if Nat.eqb kind 2 then set_val s VExt (owned s) v else set_val s VOwned (Some v) (ext s)) = chain s)
    by (destruct (Nat.eqb kind 2); reflexivity).
  rewrite CH in E. destruct (walk (chain s) _) as [[s2 e1] sp] eqn:W. inversion E; subst.
  exists s2, e1, sp. repeat split.
Qed.

Theorem broadcast : forall s kind awaited v s' o,
  step s (OEmit kind awaited v) = (s', o) -> o_st o = 0 ->
  (m_coro s = false \/ awaited = true) -> not_ready (queue s) ->
  delivs (o_ev o) = map (fun i => (i, emitted s v)) (cbs (chain s) ++ sp_order (m_coro s) (cos (chain s)))
  /\ o_ret o = zlen (cos (chain s))
  /\ not_ready (queue s')
  /\ incl (freeds (o_ev o)) (cbs (chain s)).
Proof.
  intros s kind awaited v s' o E O M N.
  destruct (emit_shape _ _ _ _ _ _ E O) as (A & _ & s2 & e1 & sp & e2 & W & D & ->).
  cbn [o_ev o_ret].
  pose proof (emit_ar s kind v [] A) as AR.
  destruct (walk_live _ _ _ AR _ _ _ W) as (SV & Q & D1 & CE1 & SP & _ & Inc).
  assert (MC : m_coro s2 = m_coro s) by (rewrite (sv_coro _ _ SV); destruct (Nat.eqb kind 2); reflexivity).
  assert (AR2 : await_resume s2 = Some (emitted s v)) by (rewrite (same_val_ar _ _ SV); exact AR).
  assert (M2 : m_coro s2 = false \/ awaited = true) by (rewrite MC; exact M).
  assert (N2 : not_ready (queue s2)).
  { rewrite Q. destruct (Nat.eqb kind 2); exact N. }
  destruct (dispose_live _ _ _ _ AR2 M2 N2 _ _ D) as (SV3 & D2 & F2 & _ & _ & N3).
  split; [rewrite delivs_app, D1, D2, map_app, SP, MC; reflexivity|].
  split; [rewrite SP; reflexivity|].
  split; [exact N3|].
  rewrite freeds_app, F2, app_nil_r. exact Inc.
Qed.

(* ================= disconnect ================= *)
(* the log of a list of queued / collected coroutines that all find the state gone:
   one cancel script each, in order, nothing else *)
Inductive cancel_log : list (nat * bool) -> list ev -> Prop :=
| cl_nil : cancel_log [] []
| cl_cons : forall i (ready : bool) r t e, cancel_log t e ->
    cancel_log ((i, ready) :: t) ((if ready then dead_resumed r i else dead_await r i) ++ e).

Lemma dead_resumed_delivs r i : delivs (dead_resumed r i) = [].
Proof. unfold dead_resumed. destruct r; cbn; [reflexivity|]. apply dead_await_delivs. Qed.
Lemma dead_resumed_freeds r i : freeds (dead_resumed r i) = [].
Proof. unfold dead_resumed. destruct r; cbn; [reflexivity|]. apply dead_await_freeds. Qed.
Lemma dead_resumed_co_evs r i : co_evs (dead_resumed r i) = dead_resumed r i.
Proof.
  unfold dead_resumed. destruct r; cbn [dead_await tl]; [reflexivity|].
  change (co_evs (ECancel i (S r) :: dead_await r i)) with (ECancel i (S r) :: co_evs (dead_await r i)).
  rewrite dead_await_co_evs. reflexivity.
Qed.

Lemma cancel_log_props items e : cancel_log items e -> delivs e = [] /\ freeds e = [] /\ co_evs e = e.
Proof.
  induction 1 as [|i ready r t e H (D & F & C)]; [repeat split|].
  rewrite delivs_app, freeds_app, co_evs_app, D, F, C.
  destruct ready.
  - rewrite dead_resumed_delivs, dead_resumed_freeds, dead_resumed_co_evs. repeat split.
  - rewrite dead_await_delivs, dead_await_freeds, dead_await_co_evs. repeat split.
Qed.

Lemma run_item_dead inl it s : alive s = false ->
  exists s' r, run_item inl it s = (s', if snd it then dead_resumed r (fst it) else dead_await r (fst it))
               /\ same_val s s' /\ chain s' = chain s /\ queue s' = queue s.
Proof.
  intros A. destruct it as [i ready]. cbn [fst snd]. unfold run_item. destruct ready.
  - destruct (co_resumed_dead i s A) as (s' & E & SV & C & Q). rewrite E. exists s', (l_retry (getl s i)). repeat split; auto; apply SV.
  - destruct (co_await_e_dead (l_retry (getl s i)) i s A) as (s' & E & SV & C & Q). rewrite E.
    exists s', (l_retry (getl s i)). repeat split; auto; apply SV.
Qed.

Lemma drive_dead inl items : forall s, alive s = false ->
  exists s' e, drive inl items s = (s', e) /\ cancel_log items e
               /\ same_val s s' /\ chain s' = chain s /\ queue s' = queue s.
Proof.
  induction items as [|it t IH]; intros s A; cbn [drive].
  - exists s, []. split; [reflexivity|]. split; [constructor|]. split; [apply same_val_refl|]. split; reflexivity.
  - destruct (run_item_dead inl it s A) as (s1 & r & E1 & SV1 & C1 & Q1). rewrite E1.
    assert (A1 : alive s1 = false) by (rewrite (same_val_alive _ _ SV1); exact A).
    destruct (IH s1 A1) as (s2 & e2 & E2 & CL & SV2 & C2 & Q2). rewrite E2.
    eexists _, _. split; [reflexivity|]. split.
    { destruct it as [i ready]. cbn [fst snd]. constructor. exact CL. }
    split; [exact (same_val_trans _ _ _ SV1 SV2)|]. split; congruence.
Qed.

Lemma freeds_map_free l : freeds (map EFree l) = l.
Proof. induction l as [|x t IH]; cbn; [reflexivity|]. f_equal. exact IH. Qed.
Lemma delivs_map_free l : delivs (map EFree l) = [].
Proof. induction l as [|x t IH]; cbn; [reflexivity|]. exact IH. Qed.
Lemma co_evs_map_free l : co_evs (map EFree l) = [].
Proof. induction l as [|x t IH]; cbn; [reflexivity|]. exact IH. Qed.

Lemma drop_last_shape s s' o : strong s = 1%nat -> step s ODrop = (s', o) ->
  let s1 := set_chain (set_val (set_strong s 0) VNull (owned s) (ext s)) [] in
  exists s3 e2, dispose false (cos (chain s)) s1 = (s3, e2) /\
    s' = set_val s3 VNull None (ext s3) /\
    o = mkObs 0 0 0 (frees (map EFree (cbs (chain s)) ++ e2)) (map EFree (cbs (chain s)) ++ e2).
Proof.
  intros S1 E. cbn [step step0] in E. rewrite S1 in E. unfold notify in E.
  change (chain (set_val (set_strong s 0) VNull (owned s) (ext s))) with (chain s) in E.
  rewrite (walk_dead (chain s) (set_chain (set_val (set_strong s 0) VNull (owned s) (ext s)) []) eq_refl) in E.
  cbn zeta. destruct (dispose false (cos (chain s)) _) as [s3 e2] eqn:D. inversion E; subst.
  exists s3, e2. repeat split.
Qed.

Theorem disconnect : forall s s' o, strong s = 1%nat -> step s ODrop = (s', o) ->
  o_st o = 0 /\ strong s' = 0%nat /\ chain s' = [] /\
  freeds (o_ev o) = cbs (chain s) /\ delivs (o_ev o) = [] /\
  (m_coro s = false -> cancel_log (ready_items (cos (chain s))) (co_evs (o_ev o)) /\ queue s' = queue s) /\
  (m_coro s = true -> co_evs (o_ev o) = [] /\ queue s' = queue s ++ ready_items (cos (chain s))).
Proof.
  intros s s' o S1 E. destruct (drop_last_shape _ _ _ S1 E) as (s3 & e2 & D & -> & ->).
  cbn [o_st o_ev]. unfold dispose in D. cbn [m_coro set_chain set_val set_strong] in D.
  set (s1 := set_chain (set_val (set_strong s 0) VNull (owned s) (ext s)) []) in *.
  assert (A1 : alive s1 = false) by reflexivity.
  destruct (m_coro s) eqn:MC; cbn [negb] in D.
  - inversion D; subst. cbn [strong chain queue set_val set_queue s1 set_chain set_strong].
    rewrite app_nil_r, freeds_map_free, delivs_map_free, co_evs_map_free.
    repeat split; try discriminate; reflexivity.
  - destruct (drive_dead true (ready_items (cos (chain s))) s1 A1) as (s4 & e4 & E4 & CL & SV & C & Q).
    rewrite E4 in D. inversion D; subst.
    destruct (cancel_log_props _ _ CL) as (D4 & F4 & CE4).
    cbn [strong chain queue set_val]. rewrite freeds_app, delivs_app, co_evs_app, freeds_map_free, delivs_map_free, co_evs_map_free, D4, F4, CE4, app_nil_r.
    rewrite (sv_strong _ _ SV), C, Q.
    repeat split; try discriminate; try reflexivity. exact CL.
Qed.

(* queued coroutines (driver is a coroutine) get their cancel when the driver next suspends *)
Theorem disconnect_queued : forall s s' o, strong s = 0%nat -> m_coro s = true -> step s OPause = (s', o) ->
  cancel_log (queue s) (o_ev o) /\ queue s' = [] /\ chain s' = chain s /\ strong s' = 0%nat.
Proof.
  intros s s' o S0 MC E. cbn [step step0] in E. rewrite MC in E. cbn [negb] in E.
  assert (A : alive (set_queue s []) = false) by (unfold alive; cbn [strong set_queue]; rewrite S0; reflexivity).
  destruct (drive_dead false (queue s) (set_queue s []) A) as (s1 & e1 & E1 & CL & SV & C & Q).
  rewrite E1 in E. inversion E; subst. cbn [o_ev].
  split; [exact CL|]. split; [exact Q|]. split; [exact C|]. rewrite (sv_strong _ _ SV). exact S0.
Qed.

(* ================= awaiting / connecting after the disconnect ================= *)
Theorem await_disconnected : forall s i lim p r s' o, strong s = 0%nat -> get (tab s) i = None ->
  step s (OSpawn i lim p r) = (s', o) ->
  o_st o = 0 /\ o_ev o = dead_await r i /\ chain s' = chain s /\ queue s' = queue s /\ strong s' = 0%nat.
Proof.
  intros s i lim p r s' o S0 G E. cbn [step step0] in E. rewrite G in E.
  set (s1 := setl s i _) in E.
  assert (A : alive s1 = false) by (unfold alive; cbn [strong s1 setl set_tab]; rewrite S0; reflexivity).
  destruct (co_await_e_dead r i s1 A) as (s2 & E2 & SV & C & Q). rewrite E2 in E. inversion E; subst.
  cbn [o_st o_ev]. repeat split; auto. rewrite (sv_strong _ _ SV). exact S0.
Qed.

Theorem connect_disconnected : forall s i lim s' o, strong s = 0%nat -> get (tab s) i = None ->
  step s (OConnect i lim) = (s', o) ->
  o_ev o = [EFree i] /\ o_new o = 1 /\ o_del o = 1 /\ chain s' = chain s /\ queue s' = queue s.
Proof.
  intros s i lim s' o S0 G E. cbn [step step0] in E. rewrite G in E.
  assert (A : alive s = false) by (unfold alive; rewrite S0; reflexivity). rewrite A in E.
  rewrite cb_resume_dead in E by exact A. inversion E; subst. repeat split.
Qed.

(* ================= callback allocation balance ================= *)
(* frame facts that hold whatever the state of the value is *)
Lemma co_resumed_frame i s : forall s' e p, co_resumed i s = (s', e, p) ->
  same_val s s' /\ queue s' = queue s /\ freeds e = [] /\ co_grow (chain s) (chain s').
Proof.
  intros s' e p E. destruct (await_resume s) as [v|] eqn:AR.
  - destruct (co_resumed_live _ _ _ AR _ _ _ E) as (SV & Q & _ & F & _ & C & _).
    split; [exact SV|]. split; [exact Q|]. split; [exact F|].
    destruct C as [C|C]; rewrite C; [apply co_grow_refl|apply co_grow_cons].
  - unfold co_resumed in E. rewrite AR in E. destruct (l_retry (getl s i)) as [|r'].
    + inversion E; subst. split; [apply same_val_refl|]. repeat split. apply co_grow_refl.
    + set (s1 := setl s i _) in E. destruct (co_await_e r' i s1) as [s2 e2] eqn:E2. inversion E; subst.
      destruct (co_await_e_frame _ _ _ _ _ E2) as (SV & Q & _ & F & _ & C1 & C2).
      split; [exact (same_val_trans _ _ _ (same_val_setl _ _ _) SV)|]. split; [exact Q|]. split; [exact F|].
      destruct (alive s1); [rewrite (C1 eq_refl); apply co_grow_cons|rewrite (C2 eq_refl); apply co_grow_refl].
Qed.

Lemma co_await_e_grow r i s s' e : co_await_e r i s = (s', e) ->
  same_val s s' /\ queue s' = queue s /\ freeds e = [] /\ co_grow (chain s) (chain s').
Proof.
  intros E. destruct (co_await_e_frame _ _ _ _ _ E) as (SV & Q & _ & F & _ & C1 & C2).
  split; [exact SV|]. split; [exact Q|]. split; [exact F|].
  destruct (alive s); [rewrite (C1 eq_refl); apply co_grow_cons|rewrite (C2 eq_refl); apply co_grow_refl].
Qed.

Lemma run_item_frame inl it s : forall s' e, run_item inl it s = (s', e) ->
  same_val s s' /\ freeds e = [] /\ co_grow (chain s) (chain s').
Proof.
  intros s' e E. destruct it as [i ready]. unfold run_item in E. destruct ready.
  - destruct (co_resumed i s) as [[s1 e1] p] eqn:E1.
    destruct (co_resumed_frame _ _ _ _ _ E1) as (SV & Q & F & G).
    destruct p; [destruct inl|].
    + destruct (co_await_e _ i s1) as [s2 e2] eqn:E2. inversion E; subst.
      destruct (co_await_e_grow _ _ _ _ _ E2) as (SV2 & _ & F2 & G2).
      split; [exact (same_val_trans _ _ _ SV SV2)|]. split; [rewrite freeds_app, F, F2; reflexivity|].
      exact (co_grow_trans _ _ _ G G2).
    + inversion E; subst. split; [exact (same_val_trans _ _ _ SV (same_val_set_queue _ _))|]. split; [exact F|exact G].
    + inversion E; subst. split; [exact SV|]. split; [exact F|exact G].
  - destruct (co_await_e_grow _ _ _ _ _ E) as (SV2 & _ & F2 & G2). split; [exact SV2|]. split; [exact F2|exact G2].
Qed.

Lemma drive_frame inl items : forall s s' e, drive inl items s = (s', e) ->
  same_val s s' /\ freeds e = [] /\ co_grow (chain s) (chain s').
Proof.
  induction items as [|it t IH]; intros s s' e E; cbn [drive] in E.
  - inversion E; subst. split; [apply same_val_refl|]. split; [reflexivity|apply co_grow_refl].
  - destruct (run_item inl it s) as [s1 e1] eqn:E1. destruct (drive inl t s1) as [s2 e2] eqn:E2. inversion E; subst.
    destruct (run_item_frame _ _ _ _ _ E1) as (SV1 & F1 & G1). destruct (IH _ _ _ E2) as (SV2 & F2 & G2).
    split; [exact (same_val_trans _ _ _ SV1 SV2)|]. split; [rewrite freeds_app, F1, F2; reflexivity|].
    exact (co_grow_trans _ _ _ G1 G2).
Qed.

Lemma dispose_frame awaited sp s : forall s' e, dispose awaited sp s = (s', e) ->
  same_val s s' /\ freeds e = [] /\ co_grow (chain s) (chain s').
Proof.
  intros s' e E. unfold dispose in E. destruct (m_coro s); cbn [negb] in E.
  - destruct awaited; cbn [negb] in E.
    + destruct sp as [|x t].
      * inversion E; subst. split; [apply same_val_refl|]. split; [reflexivity|apply co_grow_refl].
      * destruct (drive_frame _ _ _ _ _ E) as (SV & F & G).
        split; [exact (same_val_trans _ _ _ (same_val_set_queue _ _) SV)|]. split; [exact F|exact G].
    + inversion E; subst. split; [apply same_val_set_queue|]. split; [reflexivity|apply co_grow_refl].
  - exact (drive_frame _ _ _ _ _ E).
Qed.

Definition ncb (s : st) : Z := zlen (cbs (chain s)).   (* callback objects alive = callbacks in the chain *)

Lemma step0_balance s x s' o : step0 s x = (s', o) -> ncb s' = ncb s + o_new o - o_del o.
Proof.
  intros E. unfold ncb. destruct x; cbn [step0] in E.
  - (* spawn *) destruct (get (tab s) i); [inversion E; subst; cbn [o_new o_del rejected chain set_strong]; lia|].
    destruct (co_await_e retry i _) as [s2 e] eqn:E2. inversion E; subst.
    destruct (co_await_e_grow _ _ _ _ _ E2) as (_ & _ & _ & G). rewrite (co_grow_cbs _ _ G). cbn [o_new o_del chain setl set_tab]. lia.
  - (* connect *) destruct (get (tab s) i); [inversion E; subst; cbn [o_new o_del rejected chain set_strong]; lia|].
    destruct (alive s) eqn:A.
    + inversion E; subst. cbn [o_new o_del chain subscribe set_chain setl set_tab]. rewrite cbs_cons_t. unfold zlen. cbn [length]. lia.
    + rewrite cb_resume_dead in E by exact A. inversion E; subst. cbn [o_new o_del chain setl set_tab].
      change (frees [EFree i]) with 1. lia.
  - (* emit *)
    destruct (negb (alive s) || (awaited && negb (m_coro s)) || (m_void s && negb (Nat.eqb kind 0)) || Nat.ltb 2 kind) eqn:R.
    + inversion E; subst. cbn [o_new o_del rejected chain set_strong]. lia.
    + assert (E' : step s (OEmit kind awaited v) = (s', o)) by (cbn [step step0]; rewrite R; exact E).
      assert (O : o_st o = 0).
      { destruct (notify _) as [[a b] c]. destruct (dispose awaited c a). inversion E; subst. reflexivity. }
      destruct (emit_shape _ _ _ _ _ _ E' O) as (A & _ & s2 & e1 & sp & e2 & W & D & ->).
      destruct (walk_live _ _ _ (emit_ar s kind v [] A) _ _ _ W) as (_ & _ & _ & _ & _ & (d & Cd & _ & Bal) & _).
      destruct (dispose_frame _ _ _ _ _ D) as (_ & F2 & G).
      rewrite (co_grow_cbs _ _ G), Cd. cbn [o_new o_del chain set_chain]. rewrite app_nil_r, frees_app, (frees_nil_of_freeds _ F2).
      rewrite <- Bal. ring.
  - (* copy *) destruct (alive s); inversion E; subst; cbn [o_new o_del rejected chain set_strong]; lia.
  - (* drop *) destruct (strong s) as [|[|k]] eqn:S.
    + inversion E; subst. cbn [o_new o_del rejected chain set_strong]. lia.
    + assert (E' : step s ODrop = (s', o)) by (cbn [step step0]; rewrite S; exact E).
      destruct (drop_last_shape _ _ _ S E') as (s3 & e2 & D & -> & ->).
      destruct (dispose_frame _ _ _ _ _ D) as (_ & F2 & G).
      cbn [o_new o_del chain set_val]. rewrite (co_grow_cbs _ _ G). cbn [chain set_chain].
      rewrite frees_app, (frees_nil_of_freeds _ F2), frees_freeds, freeds_map_free. cbn [cbs filter map]. unfold zlen. cbn [length]. lia.
    + inversion E; subst. cbn [o_new o_del rejected chain set_strong]. lia.
  - (* pause *) destruct (m_coro s); cbn [negb] in E; [|inversion E; subst; cbn [o_new o_del rejected chain set_strong]; lia].
    destruct (drive false (queue s) (set_queue s [])) as [s1 e] eqn:E1. inversion E; subst.
    destruct (drive_frame _ _ _ _ _ E1) as (_ & F & G). rewrite (co_grow_cbs _ _ G).
    cbn [o_new o_del chain set_queue]. rewrite (frees_nil_of_freeds _ F). lia.
  - (* hold *)
    destruct (negb (alive s) || (m_void s && negb (Nat.eqb kind 0)) || Nat.ltb 2 kind) eqn:R.
    + inversion E; subst. cbn [o_new o_del rejected chain set_strong]. lia.
    + assert (E' : step0 s (OEmitHold kind v) = (s', o)) by (cbn [step0]; rewrite R; exact E).
      destruct (hold_shape _ _ _ _ _ E' R) as (A & s2 & e1 & sp & W & -> & ->).
      destruct (walk_live _ _ _ (emit_ar s kind v [] A) _ _ _ W) as (_ & _ & _ & _ & _ & (d & Cd & _ & Bal) & _).
      cbn [o_new o_del chain set_held]. rewrite Cd. cbn [chain set_chain]. rewrite app_nil_r. rewrite <- Bal. ring.
  - (* release *) destruct (held s) as [|sp rest]; [inversion E; subst; cbn [o_new o_del rejected chain set_strong]; lia|].
    destruct (dispose false sp (set_held s rest)) as [s1 e] eqn:D. inversion E; subst.
    destruct (dispose_frame _ _ _ _ _ D) as (_ & F & G). rewrite (co_grow_cbs _ _ G).
    cbn [o_new o_del chain set_held]. rewrite (frees_nil_of_freeds _ F). lia.
  - (* await held *) destruct (m_coro s); cbn [negb] in E; [|inversion E; subst; cbn [o_new o_del rejected chain set_strong]; lia].
    destruct (held s) as [|sp rest]; [inversion E; subst; cbn [o_new o_del rejected chain set_strong]; lia|].
    destruct (dispose true sp (set_held s rest)) as [s1 e] eqn:D. inversion E; subst.
    destruct (dispose_frame _ _ _ _ _ D) as (_ & F & G). rewrite (co_grow_cbs _ _ G).
    cbn [o_new o_del chain set_held]. rewrite (frees_nil_of_freeds _ F). lia.
  - inversion E; subst. cbn [o_new o_del rejected chain set_strong]. lia.
  - inversion E; subst. cbn [o_new o_del rejected chain set_strong]. lia.
Qed.

(* the observation of a spawn never counts allocations; a drop never allocates *)
Lemma spawn_obs s i l p r s' o : step0 s (OSpawn i l p r) = (s', o) -> o_new o = 0 /\ o_del o = 0.
Proof.
  cbn [step0]. destruct (get (tab s) i); [intros E; inversion E; split; reflexivity|].
  destruct (co_await_e r i _) as [s2 e]. intros E; inversion E; split; reflexivity.
Qed.
Lemma drop_obs s s' o : step0 s ODrop = (s', o) -> o_new o = 0.
Proof.
  cbn [step0]. destruct (strong s) as [|[|k]]; [intros E; inversion E; reflexivity| |intros E; inversion E; reflexivity].
  destruct (notify _) as [[a b] c]. destruct (dispose false c a). intros E; inversion E; reflexivity.
Qed.

(* every step is a composition of single transitions (the hook-up step of several), whose allocation counts add up *)
Lemma step_cases s x s' o : step s x = (s', o) ->
  exists l os, run0 s l = (s', os) /\ o_new o = osum o_new os /\ o_del o = osum o_del os.
Proof.
  intros E.
  assert (G : forall y, step0 s y = (s', o) -> exists l os, run0 s l = (s', os) /\ o_new o = osum o_new os /\ o_del o = osum o_del os).
  { intros y E0. exists [y], [o]. cbn [run0 osum]. rewrite E0. repeat split; lia. }
  destruct x; try (apply (G _ E)).
  cbn [step] in E. destruct (step0 s (OSpawn i limit pause retry)) as [s1 o1] eqn:E1.
  destruct (negb (o_st o1 =? 0)).
  - inversion E; subst. apply (G _ E1).
  - destruct (run0 s1 (hook_tail keep emits)) as [s2 os] eqn:E2. inversion E; subst s' o.
    exists (OSpawn i limit pause retry :: hook_tail keep emits), (o1 :: os). cbn [run0]. rewrite E1, E2. repeat split.
Qed.

Lemma run0_balance l : forall s s' os, run0 s l = (s', os) -> ncb s' = ncb s + osum o_new os - osum o_del os.
Proof.
  induction l as [|x t IH]; intros s s' os E; cbn [run0] in E.
  - inversion E; subst. cbn [osum]. lia.
  - destruct (step0 s x) as [s1 o] eqn:E1. destruct (run0 s1 t) as [s2 os2] eqn:E2. inversion E; subst.
    rewrite (IH _ _ _ E2), (step0_balance _ _ _ _ E1). cbn [osum]. lia.
Qed.

Lemma step_balance s x s' o : step s x = (s', o) -> ncb s' = ncb s + o_new o - o_del o.
Proof.
  intros E. destruct (step_cases _ _ _ _ E) as (l & os & R & N & D). rewrite N, D. exact (run0_balance _ _ _ _ R).
Qed.

Fixpoint sum_new (l : list obs) : Z := match l with [] => 0 | o :: t => o_new o + sum_new t end.
Fixpoint sum_del (l : list obs) : Z := match l with [] => 0 | o :: t => o_del o + sum_del t end.

Lemma balance_run ops : forall s, let r := run_from s ops in
  ncb (snd r) = ncb s + sum_new (fst r) - sum_del (fst r).
Proof.
  induction ops as [|x t IH]; intros s; cbn [run_from]; [cbn; lia|].
  destruct (step s x) as [s1 o] eqn:E. specialize (IH s1). cbn zeta in IH.
  destruct (run_from s1 t) as [os s2]. cbn [fst snd sum_new sum_del] in *.
  rewrite IH, (step_balance _ _ _ _ E). lia.
Qed.

(* once the state is gone nothing is ever subscribed again *)
Definition dead_ok (s : st) : Prop := strong s = 0%nat -> chain s = [].

Lemma dispose_dead awaited sp s s' e : alive s = false -> dispose awaited sp s = (s', e) -> chain s' = chain s.
Proof.
  intros A E. unfold dispose in E. destruct (negb (m_coro s)).
  - destruct (drive_dead true (ready_items sp) s A) as (s1 & e1 & E1 & _ & _ & C & _). rewrite E1 in E. inversion E; subst. exact C.
  - destruct (negb awaited); [inversion E; subst; reflexivity|]. destruct sp as [|x t]; [inversion E; subst; reflexivity|].
    assert (A0 : alive (set_queue s []) = false) by exact A.
    destruct (drive_dead false ((last (x :: t) 0%nat, true) :: queue s ++ ready_items (removelast (x :: t))) (set_queue s []) A0)
      as (s1 & e1 & E1 & _ & _ & C & _).
    rewrite E1 in E. inversion E; subst. exact C.
Qed.

Lemma step0_dead_ok s x s' o : step0 s x = (s', o) -> dead_ok s -> dead_ok s'.
Proof.
  intros E OK S'. destruct (Nat.eq_dec (strong s) 0) as [S0|SN].
  - assert (A : alive s = false) by (unfold alive; rewrite S0; reflexivity).
    specialize (OK S0). destruct x; cbn [step0] in E.
    + destruct (get (tab s) i); [inversion E; subst; exact OK|].
      set (s1 := setl s i _) in E. destruct (co_await_e_dead retry i s1 A) as (s2 & E2 & _ & C & _).
      rewrite E2 in E. inversion E; subst. rewrite C. exact OK.
    + destruct (get (tab s) i); [inversion E; subst; exact OK|]. rewrite A in E.
      rewrite cb_resume_dead in E by exact A. inversion E; subst. exact OK.
    + rewrite A in E. cbn [negb orb] in E. inversion E; subst. exact OK.
    + rewrite A in E. inversion E; subst. exact OK.
    + rewrite S0 in E. inversion E; subst. exact OK.
    + destruct (m_coro s); cbn [negb] in E; [|inversion E; subst; exact OK].
      destruct (drive_dead false (queue s) (set_queue s []) A) as (s1 & e1 & E1 & _ & _ & C & _).
      rewrite E1 in E. inversion E; subst. rewrite C. exact OK.
    + rewrite A in E. cbn [negb orb] in E. inversion E; subst. exact OK.
    + destruct (held s) as [|sp rest]; [inversion E; subst; exact OK|].
      destruct (dispose false sp (set_held s rest)) as [s1 e] eqn:D. inversion E; subst.
      rewrite (dispose_dead _ _ (set_held s rest) _ _ A D). exact OK.
    + destruct (m_coro s); cbn [negb] in E; [|inversion E; subst; exact OK].
      destruct (held s) as [|sp rest]; [inversion E; subst; exact OK|].
      destruct (dispose true sp (set_held s rest)) as [s1 e] eqn:D. inversion E; subst.
      rewrite (dispose_dead _ _ (set_held s rest) _ _ A D). exact OK.
    + inversion E; subst. exact OK.
    + inversion E; subst. exact OK.
  - (* the state was alive: only the last drop kills it *)
    destruct x; cbn [step0] in E.
    + destruct (get (tab s) i); [inversion E; subst; contradiction|].
      destruct (co_await_e retry i _) as [s2 e] eqn:E2. inversion E; subst.
      destruct (co_await_e_grow _ _ _ _ _ E2) as (SV & _). rewrite (sv_strong _ _ SV) in S'. contradiction.
    + destruct (get (tab s) i); [inversion E; subst; contradiction|].
      destruct (alive s) eqn:A; [inversion E; subst; contradiction|].
      unfold alive in A. apply negb_false_iff, Nat.eqb_eq in A. contradiction.
    + destruct (negb (alive s) || (awaited && negb (m_coro s)) || (m_void s && negb (Nat.eqb kind 0)) || Nat.ltb 2 kind) eqn:R;
        [inversion E; subst; contradiction|].
      destruct (notify _) as [[s2 e1] sp] eqn:N. destruct (dispose awaited sp s2) as [s3 e2] eqn:D. inversion E; subst.
      unfold notify in N.
      assert (A : alive s = true) by (unfold alive; apply negb_true_iff, Nat.eqb_neq; exact SN).
      assert (CH : chain (if Nat.eqb kind 2 then set_val s VExt (owned s) v else set_val s VOwned (Some v) (ext s)) = chain s)
        by (destruct (Nat.eqb kind 2); reflexivity).
      rewrite CH in N.
      destruct (walk_live _ _ _ (emit_ar s kind v [] A) _ _ _ N) as (SV & _).
      destruct (dispose_frame _ _ _ _ _ D) as (SV2 & _).
      rewrite (sv_strong _ _ SV2), (sv_strong _ _ SV) in S'. destruct (Nat.eqb kind 2); cbn in S'; contradiction.
    + destruct (alive s); inversion E; subst; [cbn in S'; discriminate|contradiction].
    + destruct (strong s) as [|[|k]] eqn:S; [contradiction| |inversion E; subst; cbn in S'; discriminate].
      assert (E' : step s ODrop = (s', o)) by (cbn [step step0]; rewrite S; exact E).
      apply (disconnect _ _ _ S E').
    + destruct (m_coro s); cbn [negb] in E; [|inversion E; subst; contradiction].
      destruct (drive false (queue s) (set_queue s [])) as [s1 e] eqn:E1. inversion E; subst.
      destruct (drive_frame _ _ _ _ _ E1) as (SV & _). rewrite (sv_strong _ _ SV) in S'. contradiction.
    + destruct (negb (alive s) || (m_void s && negb (Nat.eqb kind 0)) || Nat.ltb 2 kind) eqn:R; [inversion E; subst; contradiction|].
      assert (E' : step0 s (OEmitHold kind v) = (s', o)) by (cbn [step0]; rewrite R; exact E).
      destruct (hold_shape _ _ _ _ _ E' R) as (A & s2 & e1 & sp & W & -> & _).
      destruct (walk_live _ _ _ (emit_ar s kind v [] A) _ _ _ W) as (SV & _).
      cbn [strong set_held] in S'. rewrite (sv_strong _ _ SV) in S'. destruct (Nat.eqb kind 2); cbn in S'; contradiction.
    + destruct (held s) as [|sp rest]; [inversion E; subst; contradiction|].
      destruct (dispose false sp (set_held s rest)) as [s1 e] eqn:D. inversion E; subst.
      destruct (dispose_frame _ _ _ _ _ D) as (SV & _). rewrite (sv_strong _ _ SV) in S'. contradiction.
    + destruct (m_coro s); cbn [negb] in E; [|inversion E; subst; contradiction].
      destruct (held s) as [|sp rest]; [inversion E; subst; contradiction|].
      destruct (dispose true sp (set_held s rest)) as [s1 e] eqn:D. inversion E; subst.
      destruct (dispose_frame _ _ _ _ _ D) as (SV & _). rewrite (sv_strong _ _ SV) in S'. contradiction.
    + inversion E; subst. contradiction.
    + inversion E; subst. contradiction.
Qed.

Lemma run0_dead_ok l : forall s s' os, run0 s l = (s', os) -> dead_ok s -> dead_ok s'.
Proof.
  induction l as [|x t IH]; intros s s' os E OK; cbn [run0] in E.
  - inversion E; subst. exact OK.
  - destruct (step0 s x) as [s1 o] eqn:E1. destruct (run0 s1 t) as [s2 os2] eqn:E2. inversion E; subst.
    exact (IH _ _ _ E2 (step0_dead_ok _ _ _ _ E1 OK)).
Qed.

Lemma step_dead_ok s x s' o : step s x = (s', o) -> dead_ok s -> dead_ok s'.
Proof.
  intros E OK. destruct (step_cases _ _ _ _ E) as (l & os & R & _). exact (run0_dead_ok _ _ _ _ R OK).
Qed.

Lemma run_dead_ok ops : forall s, dead_ok s -> dead_ok (snd (run_from s ops)).
Proof.
  induction ops as [|x t IH]; intros s OK; cbn [run_from]; [exact OK|].
  destruct (step s x) as [s1 o] eqn:E. specialize (IH s1 (step_dead_ok _ _ _ _ E OK)).
  destruct (run_from s1 t) as [os s2]. exact IH.
Qed.

Theorem callback_alloc_balance : forall coro vd ops,
  let r := run_from (st0 coro vd) ops in
  sum_new (fst r) - sum_del (fst r) = ncb (snd r) /\
  (strong (snd r) = 0%nat -> sum_new (fst r) = sum_del (fst r) /\ chain (snd r) = []).
Proof.
  intros coro vd ops r. pose proof (balance_run ops (st0 coro vd)) as B. cbn zeta in B. fold r in B.
  change (ncb (st0 coro vd)) with 0 in B. split; [lia|].
  intros S0. assert (OK : dead_ok (snd r)) by (apply run_dead_ok; intros H; discriminate).
  specialize (OK S0). unfold ncb in B. rewrite OK in B. cbn in B. split; [lia|exact OK].
Qed.

(* ================= cross-thread subscribe vs the collector's exchange ================= *)
Lemma set_nth_split {A} (l : list A) : forall j x y, nth_error l j = Some x ->
  l = firstn j l ++ x :: skipn (S j) l /\ set_nth l j y = firstn j l ++ y :: skipn (S j) l.
Proof.
  induction l as [|h t IH]; intros j x y H; destruct j; cbn in H; try discriminate.
  - inversion H; subst. split; reflexivity.
  - destruct (IH _ _ y H) as (E1 & E2). cbn [firstn skipn set_nth app]. split; f_equal; assumption.
Qed.

Definition cs_inv (c : cs) : Prop := Permutation (concat (c_rounds c) ++ c_head c) (published c).

Lemma cs_thread_inv c j : cs_inv c -> cs_inv (cs_thread c j) /\ map sid (c_subs (cs_thread c j)) = map sid (c_subs c).
Proof.
  intros I. unfold cs_thread. destruct (nth_error (c_subs c) j) as [x|] eqn:N.
  - destruct (spub x) eqn:P; [split; [exact I|reflexivity]|].
    destruct (oeq (sexp x) (head_id (c_head c))).
    + destruct (set_nth_split _ _ _ (mkSub (sid x) (sexp x) true) N) as (E1 & E2).
      remember (firstn j (c_subs c)) as a eqn:Ha. remember (skipn (S j) (c_subs c)) as b eqn:Hb. clear Ha Hb.
      unfold cs_inv, published in *. cbn [c_rounds c_head c_subs]. rewrite E2. rewrite E1 in I |- *. split.
      * rewrite filter_app, map_app in *. cbn [filter spub map sid] in *. rewrite P in I.
        apply Permutation_sym. apply Permutation_trans with (sid x :: map sid (filter spub a) ++ map sid (filter spub b)).
        { apply Permutation_sym, Permutation_middle. }
        apply Permutation_sym. change ((sid x :: c_head c)) with ([sid x] ++ c_head c).
        apply Permutation_trans with (sid x :: concat (c_rounds c) ++ c_head c).
        { apply Permutation_sym. apply (Permutation_middle (concat (c_rounds c)) (c_head c) (sid x)). }
        constructor. exact I.
      * rewrite !map_app. reflexivity.
    + destruct (set_nth_split _ _ _ (mkSub (sid x) (head_id (c_head c)) false) N) as (E1 & E2).
      remember (firstn j (c_subs c)) as a eqn:Ha. remember (skipn (S j) (c_subs c)) as b eqn:Hb. clear Ha Hb.
      unfold cs_inv, published in *. cbn [c_rounds c_head c_subs]. rewrite E2. rewrite E1 in I |- *. split.
      * rewrite filter_app, map_app in *. cbn [filter spub map sid] in *. rewrite P in I. exact I.
      * rewrite !map_app. reflexivity.
  - destruct (c_left c); [split; [exact I|reflexivity]|]. split; [|reflexivity].
    unfold cs_inv, published in *. cbn [c_rounds c_head c_subs]. rewrite concat_app. cbn [concat]. rewrite !app_nil_r. exact I.
Qed.

Lemma cs_run_inv sched : forall c, cs_inv c -> cs_inv (cs_run c sched) /\ map sid (c_subs (cs_run c sched)) = map sid (c_subs c).
Proof.
  induction sched as [|k t IH]; intros c I; cbn [cs_run fold_left]; [split; [exact I|reflexivity]|].
  assert (S : cs_inv (cs_step c k) /\ map sid (c_subs (cs_step c k)) = map sid (c_subs c)).
  { unfold cs_step. destruct (enabled c); [split; [exact I|reflexivity]|]. apply cs_thread_inv. exact I. }
  destruct S as (I1 & M1). destruct (IH _ I1) as (I2 & M2). split; [exact I2|]. unfold cs_run in M2. rewrite M2. exact M1.
Qed.

Lemma NoDup_filter_map (l : list sub) : NoDup (map sid l) -> NoDup (map sid (filter spub l)).
Proof.
  induction l as [|x t IH]; cbn [map filter]; intros H; [constructor|].
  inversion H as [|? ? NI ND]; subst. destruct (spub x); cbn [map]; [|apply IH; exact ND].
  constructor; [|apply IH; exact ND]. intros I. apply NI. apply in_map_iff in I. destruct I as (y & E & F).
  apply filter_In in F. apply in_map_iff. exists y. split; [exact E|apply F].
Qed.

(* for every number of subscribers, every number of exchanges, every schedule: the rounds taken by the collector
   together with what is still in the chain contain exactly the subscribers whose CAS succeeded — each once,
   nobody else; in particular right after an exchange (chain empty) every published subscriber is in a round *)
Theorem concurrent_subscribe : forall ids k sched, NoDup ids ->
  let c := cs_run (cs0 ids k) sched in
  Permutation (concat (c_rounds c) ++ c_head c) (published c) /\
  NoDup (concat (c_rounds c) ++ c_head c) /\
  incl (published c) ids /\
  (forall x, In x ids -> ~ In x (published c) -> ~ In x (concat (c_rounds c) ++ c_head c)).
Proof.
  intros ids k sched ND c.
  assert (I0 : cs_inv (cs0 ids k)).
  { unfold cs_inv, published, cs0. cbn [c_rounds c_head c_subs concat app].
    induction ids as [|a t IH]; cbn [map filter spub]; [constructor|]. apply IH. inversion ND; assumption. }
  destruct (cs_run_inv sched _ I0) as (I & M). fold c in I, M.
  assert (M0 : map sid (c_subs (cs0 ids k)) = ids).
  { unfold cs0. cbn [c_subs]. rewrite map_map. cbn [sid]. apply map_id. }
  rewrite M0 in M.
  assert (NP : NoDup (published c)) by (apply NoDup_filter_map; rewrite M; exact ND).
  split; [exact I|]. split.
  { apply (Permutation_NoDup (Permutation_sym I)). exact NP. }
  split.
  { intros x H. unfold published in H. apply in_map_iff in H. destruct H as (y & E & F). apply filter_In in F.
    rewrite <- M. apply in_map_iff. exists y. split; [exact E|apply F]. }
  intros x _ NI H. apply NI. apply (Permutation_in _ I). exact H.
Qed.

(* progress: while a subscriber has not published it stays enabled, and a subscriber that runs twice in a row
   without another thread in between publishes (the second attempt of its CAS loop succeeds) *)
Lemma cs_two_attempts c j x : nth_error (c_subs c) j = Some x -> spub x = false ->
  exists y, nth_error (c_subs (cs_thread (cs_thread c j) j)) j = Some y /\ spub y = true /\ sid y = sid x.
Proof.
  intros N P. unfold cs_thread at 2. rewrite N, P.
  assert (L : (j < length (c_subs c))%nat) by (apply nth_error_Some; rewrite N; discriminate).
  destruct (oeq (sexp x) (head_id (c_head c))) eqn:O.
  - unfold cs_thread. cbn [c_subs]. rewrite nth_error_set_nth_same by exact L. cbn [spub].
    cbn [c_subs]. rewrite nth_error_set_nth_same by exact L. eexists. split; [reflexivity|]. split; reflexivity.
  - unfold cs_thread. cbn [c_subs c_head]. rewrite nth_error_set_nth_same by exact L. cbn [spub sexp].
    assert (R : oeq (head_id (c_head c)) (head_id (c_head c)) = true).
    { destruct (head_id (c_head c)); cbn; [apply Nat.eqb_refl|reflexivity]. }
    rewrite R. cbn [c_subs].
    assert (L2 : (j < length (set_nth (c_subs c) j (mkSub (sid x) (head_id (c_head c)) false)))%nat).
    { apply nth_error_Some. rewrite nth_error_set_nth_same by exact L. discriminate. }
    rewrite nth_error_set_nth_same by exact L2. eexists. split; [reflexivity|]. split; reflexivity.
Qed.

(* ================= a listener that only re-awaits ================= *)
(* resumed with a value, a coroutine whose script is `for(;;) co_await e;` (no limit, no pause) logs the value and is
   back in the chain — at its head — before its resumption ends, i.e. before any other code (the collector
   included) can run; its script parameters are unchanged, so the same holds at the next value *)
Theorem reawait_rejoins : forall s g v, await_resume s = Some v ->
  l_limit (getl s g) = O -> l_pause (getl s g) = false ->
  exists s', co_resumed g s = (s', [ERecv g v; EAwait g], false) /\
     chain s' = (g, false) :: chain s /\ queue s' = queue s /\ same_val s s' /\
     l_limit (getl s' g) = O /\ l_pause (getl s' g) = false /\
     (forall inl, run_item inl (g, true) s = (s', [ERecv g v; EAwait g])).
Proof.
  intros s g v AR L P. pose proof (ar_alive _ _ AR) as A.
  assert (E : co_resumed g s = (subscribe (setl s g (mkLis (l_limit (getl s g)) (l_pause (getl s g)) (l_retry (getl s g)) (S (l_cnt (getl s g))))) g false,
                                [ERecv g v; EAwait g], false)).
  { unfold co_resumed. rewrite AR, L, P. cbn [Nat.eqb negb andb]. rewrite co_await_e_alive by exact A. reflexivity. }
  eexists. split; [exact E|]. split; [reflexivity|]. split; [reflexivity|].
  split; [apply (same_val_trans _ (setl s g (mkLis (l_limit (getl s g)) (l_pause (getl s g)) (l_retry (getl s g)) (S (l_cnt (getl s g))))));
          [apply same_val_setl|apply same_val_subscribe]|].
  change (getl (subscribe ?x g false) g) with (getl x g). rewrite getl_setl_same. cbn [l_limit l_pause].
  split; [exact L|]. split; [exact P|].
  intros inl. unfold run_item. rewrite E. reflexivity.
Qed.

(* ================= run level: a re-awaiting listener misses none ================= *)
Section Reawait.
Variable g : nat.

(* g is a known listener whose script is `for(;;) co_await e;` *)
Definition flags (s : st) : Prop :=
  get (tab s) g <> None /\ l_limit (getl s g) = O /\ l_pause (getl s g) = false.

Lemma flags_tab s s' : tab s' = tab s -> flags s -> flags s'.
Proof. intros T (N & L & P). unfold flags, getl in *. rewrite T. repeat split; assumption. Qed.

Lemma flags_setl s i l : l_limit l = l_limit (getl s i) -> l_pause l = l_pause (getl s i) -> flags s -> flags (setl s i l).
Proof.
  intros EL EP (N & L & P). destruct (Nat.eq_dec i g) as [->|NE]; unfold flags.
  - rewrite getl_setl_same. split; [|split; congruence].
    unfold setl, set_tab; cbn [tab]. rewrite get_put_same. discriminate.
  - rewrite getl_setl_other by exact NE. split; [|split; assumption].
    unfold setl, set_tab; cbn [tab]. rewrite get_put_other by exact NE. exact N.
Qed.
Ltac fs := apply flags_setl; [reflexivity | first [reflexivity | cbn [l_pause]; congruence] | assumption].

Lemma flags_setl_other s i l : i <> g -> flags s -> flags (setl s i l).
Proof.
  intros NE (N & L & P). unfold flags. rewrite getl_setl_other by exact NE. split; [|split; assumption].
  unfold setl, set_tab; cbn [tab]. rewrite get_put_other by exact NE. exact N.
Qed.

Lemma co_await_e_flags r : forall i s s' e, co_await_e r i s = (s', e) -> flags s -> flags s'.
Proof.
  induction r as [|r IH]; intros i s s' e E F; cbn [co_await_e] in E; destruct (alive s).
  - inversion E; subst. exact (flags_tab _ _ eq_refl F).
  - inversion E; subst. exact F.
  - inversion E; subst. exact (flags_tab _ _ eq_refl F).
  - destruct (co_await_e r i _) as [s2 e2] eqn:E2. inversion E; subst.
    refine (IH _ _ _ _ E2 _). fs.
Qed.

Lemma co_resumed_flags i s s' e p : co_resumed i s = (s', e, p) -> flags s -> flags s'.
Proof.
  intros E F. unfold co_resumed in E. destruct (await_resume s).
  - destruct (negb (Nat.eqb (l_limit (getl s i)) 0) && Nat.eqb (S (l_cnt (getl s i))) (l_limit (getl s i))).
    + inversion E; subst. fs.
    + destruct (l_pause (getl s i)) eqn:P.
      * inversion E; subst. fs.
      * destruct (co_await_e _ i _) as [s2 e2] eqn:E2. inversion E; subst.
        refine (co_await_e_flags _ _ _ _ _ E2 _). fs.
  - destruct (l_retry (getl s i)) as [|r'].
    + inversion E; subst. exact F.
    + destruct (co_await_e r' i _) as [s2 e2] eqn:E2. inversion E; subst.
      refine (co_await_e_flags _ _ _ _ _ E2 _). fs.
Qed.

Lemma run_item_flags inl it s s' e : run_item inl it s = (s', e) -> flags s -> flags s'.
Proof.
  intros E F. destruct it as [i ready]. unfold run_item in E. destruct ready.
  - destruct (co_resumed i s) as [[s1 e1] p] eqn:E1. pose proof (co_resumed_flags _ _ _ _ _ E1 F) as F1.
    destruct p; [destruct inl|].
    + destruct (co_await_e _ i s1) as [s2 e2] eqn:E2. inversion E; subst. exact (co_await_e_flags _ _ _ _ _ E2 F1).
    + inversion E; subst. exact (flags_tab _ _ eq_refl F1).
    + inversion E; subst. exact F1.
  - exact (co_await_e_flags _ _ _ _ _ E F).
Qed.

Lemma drive_flags inl items : forall s s' e, drive inl items s = (s', e) -> flags s -> flags s'.
Proof.
  induction items as [|it t IH]; intros s s' e E F; cbn [drive] in E.
  - inversion E; subst. exact F.
  - destruct (run_item inl it s) as [s1 e1] eqn:E1. destruct (drive inl t s1) as [s2 e2] eqn:E2. inversion E; subst.
    exact (IH _ _ _ E2 (run_item_flags _ _ _ _ _ E1 F)).
Qed.

Lemma cb_resume_flags i s s' e : cb_resume i s = (s', e) -> flags s -> flags s'.
Proof.
  intros E F. unfold cb_resume in E. destruct (negb (alive s)); [inversion E; subst; exact F|].
  destruct (await_resume s); [|inversion E; subst; exact F].
  destruct (Nat.eqb (l_limit (getl s i)) 0 || Nat.ltb (S (l_cnt (getl s i))) (l_limit (getl s i))); inversion E; subst.
  - apply (flags_tab _ (setl s i _) eq_refl). fs.
  - fs.
Qed.

Lemma walk_flags w : forall s s' e sp, walk w s = (s', e, sp) -> flags s -> flags s'.
Proof.
  induction w as [|[i cb] t IH]; intros s s' e sp E F; cbn [walk] in E.
  - inversion E; subst. exact F.
  - destruct cb.
    + destruct (cb_resume i s) as [s1 e1] eqn:E1. destruct (walk t s1) as [[s2 e2] sp2] eqn:E2. inversion E; subst.
      exact (IH _ _ _ _ E2 (cb_resume_flags _ _ _ _ E1 F)).
    + destruct (walk t s) as [[s2 e2] sp2] eqn:E2. inversion E; subst. exact (IH _ _ _ _ E2 F).
Qed.

Lemma dispose_flags awaited sp s s' e : dispose awaited sp s = (s', e) -> flags s -> flags s'.
Proof.
  intros E F. unfold dispose in E. destruct (negb (m_coro s)); [exact (drive_flags _ _ _ _ _ E F)|].
  destruct (negb awaited); [inversion E; subst; exact (flags_tab _ _ eq_refl F)|].
  destruct sp; [inversion E; subst; exact F|].
  exact (drive_flags _ _ _ _ _ E (flags_tab _ s eq_refl F)).
Qed.

Lemma in_cos_of c : In (g, false) c -> In g (cos c).
Proof.
  intros I. unfold cos. apply in_map_iff. exists (g, false). split; [reflexivity|]. apply filter_In. split; [exact I|reflexivity].
Qed.
Lemma co_grow_in c c' x : co_grow c c' -> In x (cos c) -> In x (cos c').
Proof. intros (d & -> & _) I. rewrite cos_app. apply in_or_app. right. exact I. Qed.
Lemma co_grow_in_raw c c' (x : nat * bool) : co_grow c c' -> In x c -> In x c'.
Proof. intros (d & -> & _) I. apply in_or_app. right. exact I. Qed.

(* when g's handle is among the resumed ones, g is back in the chain when they all have run *)
Lemma drive_rejoins inl items : forall s v s' e, await_resume s = Some v -> flags s -> In (g, true) items ->
  drive inl items s = (s', e) -> In (g, false) (chain s').
Proof.
  induction items as [|it t IH]; intros s v s' e AR F I E; [destruct I|].
  cbn [drive] in E. destruct (run_item inl it s) as [s1 e1] eqn:E1. destruct (drive inl t s1) as [s2 e2] eqn:E2.
  inversion E; subst. destruct I as [->|I].
  - destruct F as (_ & L & P). destruct (reawait_rejoins s g v AR L P) as (sx & _ & C & _ & _ & _ & _ & R).
    rewrite (R inl) in E1. inversion E1; subst.
    destruct (drive_frame _ _ _ _ _ E2) as (_ & _ & G). apply (co_grow_in_raw _ _ _ G). rewrite C. left. reflexivity.
  - destruct (run_item_live _ _ _ _ AR _ _ E1) as (SV & _).
    refine (IH _ v _ _ _ (run_item_flags _ _ _ _ _ E1 F) I E2). rewrite (same_val_ar _ _ SV). exact AR.
Qed.

Lemma in_sp_order b l x : In x l -> In x (sp_order b l).
Proof.
  intros I. unfold sp_order. destruct b; [|exact I]. destruct l as [|a t]; [destruct I|].
  assert (NE : a :: t <> []) by discriminate.
  rewrite (app_removelast_last O NE) in I. apply in_app_or in I. destruct I as [I|[<-|[]]]; [right; exact I|left; reflexivity].
Qed.

Lemma paused_items_queue inl items : forall s s' e, not_ready items -> drive inl items s = (s', e) -> queue s' = queue s.
Proof.
  induction items as [|[i r] t IH]; intros s s' e N E; cbn [drive] in E; [inversion E; reflexivity|].
  pose proof (N (i, r) (or_introl eq_refl)) as H. cbn in H. subst r. cbn [run_item] in E.
  destruct (co_await_e _ i s) as [s1 e1] eqn:E1. destruct (drive inl t s1) as [s2 e2] eqn:E2. inversion E; subst.
  destruct (co_await_e_grow _ _ _ _ _ E1) as (_ & Q & _).
  rewrite (IH _ _ _ (fun it I => N it (or_intror I)) E2). exact Q.
Qed.

Definition rinv (coro : bool) (s : st) : Prop :=
  m_coro s = coro /\ flags s /\ (alive s = true -> In g (cos (chain s)) /\ not_ready (queue s)).

(* the driver never discards the collector's result inside a coroutine *)
Definition disc_op (coro : bool) (x : op) : Prop :=
  match x with
  | OEmit _ awaited _ => coro = false \/ awaited = true
  | OEmitHold _ _ | OHookUp _ _ _ _ _ _ => False     (* nor keeps it in a variable; hook-up is a first op only *)
  | _ => True
  end.

Lemma step_held_nil coro s x s' o : step s x = (s', o) -> held s = [] -> disc_op coro x -> held s' = [].
Proof.
  intros E H D. destruct x; cbn [disc_op] in D; [| | | | | |destruct D| | |destruct D|]; cbn [step step0] in E.
  - destruct (get (tab s) i); [inversion E; subst; exact H|].
    destruct (co_await_e retry i _) as [s2 e] eqn:E2. inversion E; subst.
    destruct (co_await_e_grow _ _ _ _ _ E2) as (SV & _). rewrite (sv_held _ _ SV). exact H.
  - destruct (get (tab s) i); [inversion E; subst; exact H|]. destruct (alive s) eqn:A.
    + inversion E; subst. exact H.
    + rewrite cb_resume_dead in E by exact A. inversion E; subst. exact H.
  - destruct (o_st o =? 0) eqn:O.
    + apply Z.eqb_eq in O. assert (E' : step s (OEmit kind awaited v) = (s', o)) by exact E.
      destruct (emit_shape _ _ _ _ _ _ E' O) as (A & _ & s2 & e1 & sp & e2 & W & Di & _).
      destruct (walk_live _ _ _ (emit_ar s kind v [] A) _ _ _ W) as (SV & _).
      destruct (dispose_frame _ _ _ _ _ Di) as (SV2 & _).
      rewrite (sv_held _ _ SV2), (sv_held _ _ SV). destruct (Nat.eqb kind 2); exact H.
    + destruct (negb (alive s) || _ || _ || _); [inversion E; subst; exact H|].
      destruct (notify _) as [[a b] c]. destruct (dispose awaited c a). inversion E; subst. discriminate.
  - destruct (alive s); inversion E; subst; exact H.
  - destruct (strong s) as [|[|k]] eqn:S; [inversion E; subst; exact H| |inversion E; subst; exact H].
    assert (E' : step s ODrop = (s', o)) by (cbn [step step0]; rewrite S; exact E).
    destruct (drop_last_shape _ _ _ S E') as (s3 & e2 & Di & -> & _).
    destruct (dispose_frame _ _ _ _ _ Di) as (SV & _). cbn [held set_val]. rewrite (sv_held _ _ SV). exact H.
  - destruct (m_coro s); cbn [negb] in E; [|inversion E; subst; exact H].
    destruct (drive false (queue s) (set_queue s [])) as [s1 e] eqn:E1. inversion E; subst.
    destruct (drive_frame _ _ _ _ _ E1) as (SV & _). rewrite (sv_held _ _ SV). exact H.
  - rewrite H in E. inversion E; subst. exact H.
  - rewrite H in E. destruct (m_coro s); inversion E; subst; exact H.
  - inversion E; subst. exact H.
Qed.

Lemma alive_sv s s' : same_val s s' -> alive s' = true -> alive s = true.
Proof. intros SV A. rewrite <- (same_val_alive _ _ SV). exact A. Qed.

Lemma step_rinv coro s x s' o : step s x = (s', o) -> rinv coro s -> held s = [] -> disc_op coro x ->
  rinv coro s' /\
  match x with OEmit _ _ v => o_st o = 0 -> In (g, emitted s v) (delivs (o_ev o)) | _ => True end.
Proof.
  intros E (MC & F & I) HN D. destruct x; try (destruct D; fail).
  - (* spawn *) split; [|exact Logic.I]. cbn [step step0] in E. destruct (get (tab s) i) eqn:G; [inversion E; subst s' o; exact (conj MC (conj F I))|].
    assert (NE : i <> g) by (intros ->; destruct F as (N & _); contradiction).
    destruct (co_await_e retry i _) as [s2 e] eqn:E2. inversion E; subst s' o.
    destruct (co_await_e_grow _ _ _ _ _ E2) as (SV & Q & _ & Gr).
    split; [rewrite (sv_coro _ _ SV); exact MC|].
    split; [exact (co_await_e_flags _ _ _ _ _ E2 (flags_setl_other _ _ _ NE F))|].
    intros A. destruct (I (alive_sv _ _ SV A)) as (I1 & I2). split; [exact (co_grow_in _ _ _ Gr I1)|rewrite Q; exact I2].
  - (* connect *) split; [|exact Logic.I]. cbn [step step0] in E. destruct (get (tab s) i) eqn:G; [inversion E; subst s' o; exact (conj MC (conj F I))|].
    assert (NE : i <> g) by (intros ->; destruct F as (N & _); contradiction).
    destruct (alive s) eqn:A.
    + inversion E; subst s' o. split; [exact MC|]. split; [exact (flags_tab _ (setl s i _) eq_refl (flags_setl_other _ _ _ NE F))|].
      intros _. destruct (I eq_refl) as (I1 & I2). split; [|exact I2]. cbn [chain subscribe set_chain setl set_tab]. rewrite cos_cons_t. exact I1.
    + rewrite cb_resume_dead in E by exact A. inversion E; subst s' o.
      split; [exact MC|]. split; [exact (flags_setl_other _ _ _ NE F)|]. intros A'. change (alive s = true) in A'. congruence.
  - (* emit *)
    destruct (o_st o =? 0) eqn:O.
    + apply Z.eqb_eq in O. cbn [disc_op] in D.
      assert (M : m_coro s = false \/ awaited = true) by (rewrite MC; exact D).
      destruct (emit_shape _ _ _ _ _ _ E O) as (A & _ & s2 & e1 & sp & e2 & W & Di & Eo).
      destruct (I A) as (I1 & I2).
      destruct (broadcast _ _ _ _ _ _ E O M I2) as (B1 & _ & B3 & _).
      split.
      * pose proof (emit_ar s kind v [] A) as AR.
        destruct (walk_live _ _ _ AR _ _ _ W) as (SV & Q & _ & _ & SP & _ & _).
        assert (F2 : flags s2).
        { apply (walk_flags _ _ _ _ _ W). apply (flags_tab s); [destruct (Nat.eqb kind 2); reflexivity|exact F]. }
        assert (AR2 : await_resume s2 = Some (emitted s v)) by (rewrite (same_val_ar _ _ SV); exact AR).
        assert (MC2 : m_coro s2 = m_coro s) by (rewrite (sv_coro _ _ SV); destruct (Nat.eqb kind 2); reflexivity).
        assert (S2 : strong s2 = strong s) by (rewrite (sv_strong _ _ SV); destruct (Nat.eqb kind 2); reflexivity).
        destruct (dispose_frame _ _ _ _ _ Di) as (SV3 & _ & _).
        split; [rewrite (sv_coro _ _ SV3), MC2; exact MC|]. split; [exact (dispose_flags _ _ _ _ _ Di F2)|].
        intros _. split; [|exact B3]. apply in_cos_of.
        assert (Isp : In g sp) by (rewrite SP; exact I1).
        unfold dispose in Di. rewrite MC2 in Di. destruct (m_coro s) eqn:MS; cbn [negb] in Di.
        -- destruct M as [M|M]; [discriminate|]. subst awaited. cbn [negb] in Di.
           destruct sp as [|a t] eqn:SPE; [destruct Isp|]. rewrite <- SPE in *.
           assert (AR3 : await_resume (set_queue s2 []) = Some (emitted s v)) by exact AR2.
           refine (drive_rejoins _ _ _ _ _ _ AR3 (flags_tab _ s2 eq_refl F2) _ Di).
           assert (NE : sp <> []) by (rewrite SPE; discriminate).
           rewrite (app_removelast_last 0%nat NE) in Isp. apply in_app_or in Isp. destruct Isp as [Isp|[<-|[]]].
           ++ right. apply in_or_app. right. unfold ready_items. apply in_map_iff. exists g. split; [reflexivity|exact Isp].
           ++ left. reflexivity.
        -- refine (drive_rejoins _ _ _ _ _ _ AR2 F2 _ Di). unfold ready_items. apply in_map_iff. exists g. split; [reflexivity|exact Isp].
      * intros _. rewrite B1. apply in_map_iff. exists g. split; [reflexivity|]. apply in_or_app. right. apply in_sp_order. exact I1.
    + (* rejected *)
      assert (R : s' = s).
      { cbn [step step0] in E. destruct (negb (alive s) || _ || _ || _); [inversion E; reflexivity|].
        destruct (notify _) as [[a b] c]. destruct (dispose awaited c a). inversion E; subst s' o. discriminate. }
      subst s'. split; [exact (conj MC (conj F I))|]. intros O'. rewrite O' in O. discriminate.
  - (* copy *) split; [|exact Logic.I]. cbn [step step0] in E. destruct (alive s) eqn:A; inversion E; subst s' o.
    + split; [exact MC|]. split; [exact (flags_tab _ s eq_refl F)|]. intros _. exact (I eq_refl).
    + split; [exact MC|]. split; [exact F|]. intros A'. rewrite A in A'. discriminate.
  - (* drop *) split; [|exact Logic.I]. destruct (strong s) as [|[|k]] eqn:S.
    + cbn [step step0] in E. rewrite S in E. inversion E; subst s' o. exact (conj MC (conj F I)).
    + destruct (drop_last_shape _ _ _ S E) as (s3 & e2 & Di & -> & _).
      destruct (dispose_frame _ _ _ _ _ Di) as (SV & _).
      split; [cbn [m_coro set_val]; rewrite (sv_coro _ _ SV); exact MC|].
      split; [apply (flags_tab _ s3 eq_refl); apply (dispose_flags _ _ _ _ _ Di); exact (flags_tab _ s eq_refl F)|].
      intros A. exfalso. unfold alive in A. cbn [strong set_val] in A. rewrite (sv_strong _ _ SV) in A. discriminate.
    + cbn [step step0] in E. rewrite S in E. inversion E; subst s' o.
      split; [exact MC|]. split; [exact (flags_tab _ s eq_refl F)|]. intros _. apply I. unfold alive. rewrite S. reflexivity.
  - (* pause *) split; [|exact Logic.I]. cbn [step step0] in E. destruct (m_coro s) eqn:MS; cbn [negb] in E; [|inversion E; subst s' o; split; [rewrite MS; exact MC|split; [exact F|exact I]]].
    destruct (drive false (queue s) (set_queue s [])) as [s1 e] eqn:E1. inversion E; subst s' o.
    destruct (drive_frame _ _ _ _ _ E1) as (SV & _ & Gr).
    split; [rewrite (sv_coro _ _ SV); cbn [m_coro set_queue]; rewrite MS; exact MC|].
    split; [exact (drive_flags _ _ _ _ _ E1 (flags_tab _ s eq_refl F))|].
    intros A. assert (A0 : alive s = true) by exact (alive_sv _ _ SV A).
    destruct (I A0) as (I1 & I2). split; [exact (co_grow_in _ _ _ Gr I1)|].
    rewrite (paused_items_queue _ _ _ _ _ I2 E1). intros ? [].
  - cbn [step step0] in E. rewrite HN in E. inversion E; subst s' o. split; [exact (conj MC (conj F I))|exact Logic.I].
  - cbn [step step0] in E. rewrite HN in E. assert (s' = s) by (destruct (m_coro s); inversion E; reflexivity). subst s'.
    split; [exact (conj MC (conj F I))|exact Logic.I].
  - inversion E; subst s' o. split; [exact (conj MC (conj F I))|exact Logic.I].
Qed.

Fixpoint none_missed (s : st) (ops : list op) : Prop :=
  match ops with
  | [] => True
  | x :: t =>
      let r := step s x in
      match x with OEmit _ _ v => o_st (snd r) = 0 -> In (g, emitted s v) (delivs (o_ev (snd r))) | _ => True end
      /\ none_missed (fst r) t
  end.

Lemma reawait_run coro ops : forall s, rinv coro s -> held s = [] -> Forall (disc_op coro) ops -> none_missed s ops.
Proof.
  induction ops as [|x t IH]; intros s R HN D; cbn [none_missed]; [exact Logic.I|].
  inversion D as [|? ? D1 D2]; subst.
  destruct (step s x) as [s1 o] eqn:E. destruct (step_rinv _ _ _ _ _ E R HN D1) as (R1 & P).
  cbn [fst snd]. split; [destruct x; exact P|exact (IH _ R1 (step_held_nil _ _ _ _ _ E HN D1) D2)].
Qed.

(* subscription establishes the invariant *)
Lemma spawn_rinv s r s' o : alive s = true -> not_ready (queue s) -> get (tab s) g = None ->
  step s (OSpawn g 0 false r) = (s', o) -> rinv (m_coro s) s' /\ o_ev o = [EAwait g].
Proof.
  intros A N G E. cbn [step step0] in E. rewrite G in E.
  set (s1 := setl s g _) in E. assert (A1 : alive s1 = true) by exact A.
  rewrite (co_await_e_alive _ _ _ A1) in E. inversion E; subst. split; [|reflexivity].
  split; [reflexivity|]. split.
  - unfold flags. change (getl (subscribe s1 g false) g) with (getl s1 g). unfold s1. rewrite getl_setl_same.
    cbn [l_limit l_pause tab subscribe set_chain setl set_tab]. rewrite get_put_same. repeat split. discriminate.
  - intros _. split; [left; reflexivity|exact N].
Qed.
End Reawait.

(* A listener g that only re-awaits (`for(;;) co_await e;`), subscribed while the state is alive, and a driver that never
   discards the collector's result inside a coroutine: whatever the driver and the other listeners do afterwards (any op
   sequence, any scripts), every accepted collector call delivers its value to g in that very op. *)
Theorem reawait_misses_none : forall g s r ops,
  alive s = true -> not_ready (queue s) -> held s = [] -> get (tab s) g = None ->
  Forall (disc_op (m_coro s)) ops ->
  none_missed g (fst (step s (OSpawn g 0 false r))) ops.
Proof.
  intros g s r ops A N HN G D. destruct (step s (OSpawn g 0 false r)) as [s1 o] eqn:E.
  destruct (spawn_rinv g s r s1 o A N G E) as (R & _).
  exact (reawait_run g (m_coro s) ops s1 R (step_held_nil (m_coro s) _ _ _ _ E HN I) D).
Qed.

(* ================= run level: listener ids are unique across chain, ready queue and kept suspend points ================= *)
Definition cnt (x : nat) (l : list nat) : nat := count_occ Nat.eq_dec l x.
Arguments cnt : simpl never.
Lemma cnt_app x a b : cnt x (a ++ b) = (cnt x a + cnt x b)%nat. Proof. apply count_occ_app. Qed.
Lemma cnt_cons x a l : cnt x (a :: l) = (cnt x [a] + cnt x l)%nat. Proof. apply (count_occ_app Nat.eq_dec [a] l). Qed.
Lemma cnt_nil x : cnt x [] = 0%nat. Proof. reflexivity. Qed.
Lemma cnt_cons_map x a (c : list (nat * bool)) : cnt x (a :: map fst c) = (cnt x [a] + cnt x (map fst c))%nat. Proof. apply cnt_cons. Qed.
Lemma cnt_self x : cnt x [x] = 1%nat. Proof. unfold cnt. cbn. destruct (Nat.eq_dec x x); [reflexivity|contradiction]. Qed.
Lemma cnt_other x y : x <> y -> cnt x [y] = 0%nat. Proof. intros N. unfold cnt. cbn. destruct (Nat.eq_dec y x); [congruence|reflexivity]. Qed.
Lemma cnt_in x l : In x l <-> (0 < cnt x l)%nat. Proof. apply count_occ_In. Qed.
Lemma nodup_cnt l : NoDup l <-> forall x, (cnt x l <= 1)%nat. Proof. apply NoDup_count_occ. Qed.

Definition cids (c : list (nat * bool)) : list nat := map fst c.
Definition cq (s : st) : list nat := cids (chain s) ++ cids (queue s).
Definition ids (s : st) : list nat := cq s ++ concat (held s).

Lemma cids_app a b : cids (a ++ b) = cids a ++ cids b. Proof. apply map_app. Qed.

Lemma co_await_e_place r i s s' e : co_await_e r i s = (s', e) ->
  queue s' = queue s /\ held s' = held s /\ (chain s' = (i, false) :: chain s \/ chain s' = chain s).
Proof.
  intros E. destruct (co_await_e_frame _ _ _ _ _ E) as (SV & Q & _ & _ & _ & C1 & C2).
  split; [exact Q|]. split; [exact (sv_held _ _ SV)|]. destruct (alive s); [left; exact (C1 eq_refl)|right; exact (C2 eq_refl)].
Qed.

Lemma co_resumed_place i s s' e p : co_resumed i s = (s', e, p) ->
  queue s' = queue s /\ held s' = held s /\ ((chain s' = (i, false) :: chain s /\ p = false) \/ chain s' = chain s).
Proof.
  intros E. unfold co_resumed in E. destruct (await_resume s).
  - destruct (negb (Nat.eqb (l_limit (getl s i)) 0) && Nat.eqb (S (l_cnt (getl s i))) (l_limit (getl s i))).
    + inversion E; subst. repeat split. right. reflexivity.
    + destruct (l_pause (getl s i)).
      * inversion E; subst. repeat split. right. reflexivity.
      * destruct (co_await_e _ i _) as [s2 e2] eqn:E2. inversion E; subst.
        destruct (co_await_e_place _ _ _ _ _ E2) as (Q & H & C). split; [exact Q|]. split; [exact H|].
        destruct C as [C|C]; [left; split; [exact C|reflexivity]|right; exact C].
  - destruct (l_retry (getl s i)) as [|r'].
    + inversion E; subst. repeat split. right. reflexivity.
    + destruct (co_await_e r' i _) as [s2 e2] eqn:E2. inversion E; subst.
      destruct (co_await_e_place _ _ _ _ _ E2) as (Q & H & C). split; [exact Q|]. split; [exact H|].
      destruct C as [C|C]; [left; split; [exact C|reflexivity]|right; exact C].
Qed.

Ltac cnt_norm := unfold ids, cq, cids in *; cbn [map fst app concat chain queue held set_queue set_chain set_held] in *;
  repeat (rewrite ?map_app, ?cnt_app, ?concat_app in * ); cbn [map fst concat] in *;
  repeat (rewrite ?cnt_app, ?cnt_nil, ?(cnt_cons _ _ (_ :: _)), ?(cnt_cons _ _ (map _ _)), ?(cnt_cons _ _ (_ ++ _)) in * ).

(* conservation: what is handed to a function ends up in the chain, in the queue, or is dropped (finished / freed) *)
Lemma run_item_place inl it s s' e : run_item inl it s = (s', e) ->
  held s' = held s /\ exists d, forall x, (cnt x [fst it] + cnt x (cq s) = cnt x d + cnt x (cq s'))%nat.
Proof.
  intros E. destruct it as [i ready]. cbn [fst]. unfold run_item in E. destruct ready.
  - destruct (co_resumed i s) as [[s1 e1] p] eqn:E1. destruct (co_resumed_place _ _ _ _ _ E1) as (Q & H & C).
    destruct p; [destruct inl|].
    + destruct (co_await_e _ i s1) as [s2 e2] eqn:E2. inversion E; subst.
      destruct (co_await_e_place _ _ _ _ _ E2) as (Q2 & H2 & C2). split; [congruence|].
      destruct C as [(C & P)|C]; [discriminate|].
      destruct C2 as [C2|C2].
      * exists []. intros x. unfold cq, cids. rewrite Q2, Q, C2, C. cbn [map fst]. rewrite !cnt_app, cnt_cons_map, cnt_nil. lia.
      * exists [i]. intros x. unfold cq, cids. rewrite Q2, Q, C2, C. lia.
    + inversion E; subst. split; [exact H|]. destruct C as [(C & P)|C]; [discriminate|].
      exists []. intros x. unfold cq, cids. cbn [chain queue set_queue]. rewrite Q, C, map_app. cbn [map fst]. rewrite !cnt_app, cnt_nil. lia.
    + inversion E; subst. split; [exact H|]. destruct C as [(C & _)|C].
      * exists []. intros x. unfold cq, cids. rewrite Q, C. cbn [map fst]. rewrite !cnt_app, cnt_cons_map, cnt_nil. lia.
      * exists [i]. intros x. unfold cq, cids. rewrite Q, C. lia.
  - destruct (co_await_e_place _ _ _ _ _ E) as (Q & H & C). split; [exact H|]. destruct C as [C|C].
    + exists []. intros x. unfold cq, cids. rewrite Q, C. cbn [map fst]. rewrite !cnt_app, cnt_cons_map, cnt_nil. lia.
    + exists [i]. intros x. unfold cq, cids. rewrite Q, C. lia.
Qed.

Lemma drive_place inl items : forall s s' e, drive inl items s = (s', e) ->
  held s' = held s /\ exists d, forall x, (cnt x (cids items) + cnt x (cq s) = cnt x d + cnt x (cq s'))%nat.
Proof.
  induction items as [|it t IH]; intros s s' e E; cbn [drive] in E.
  - inversion E; subst. split; [reflexivity|]. exists []. intros x. reflexivity.
  - destruct (run_item inl it s) as [s1 e1] eqn:E1. destruct (drive inl t s1) as [s2 e2] eqn:E2. inversion E; subst.
    destruct (run_item_place _ _ _ _ _ E1) as (H1 & d1 & P1). destruct (IH _ _ _ E2) as (H2 & d2 & P2).
    split; [congruence|]. exists (d1 ++ d2). intros x. specialize (P1 x). specialize (P2 x).
    unfold cids in *. cbn [map]. rewrite cnt_cons_map, cnt_app. lia.
Qed.

Lemma cb_resume_place i s s' e : cb_resume i s = (s', e) ->
  queue s' = queue s /\ held s' = held s /\ (chain s' = (i, true) :: chain s \/ chain s' = chain s).
Proof.
  intros E. unfold cb_resume in E. destruct (negb (alive s)); [inversion E; subst; repeat split; right; reflexivity|].
  destruct (await_resume s); [|inversion E; subst; repeat split; right; reflexivity].
  destruct (Nat.eqb (l_limit (getl s i)) 0 || Nat.ltb (S (l_cnt (getl s i))) (l_limit (getl s i))); inversion E; subst; repeat split.
  - left. reflexivity.
  - right. reflexivity.
Qed.

Lemma walk_place w : forall s s' e sp, walk w s = (s', e, sp) ->
  queue s' = queue s /\ held s' = held s /\
  exists d, forall x, (cnt x (cids w) + cnt x (cids (chain s)) = cnt x d + cnt x sp + cnt x (cids (chain s')))%nat.
Proof.
  induction w as [|[i cb] t IH]; intros s s' e sp E; cbn [walk] in E.
  - inversion E; subst. repeat split. exists []. intros x. reflexivity.
  - destruct cb.
    + destruct (cb_resume i s) as [s1 e1] eqn:E1. destruct (walk t s1) as [[s2 e2] sp2] eqn:E2. inversion E; subst.
      destruct (cb_resume_place _ _ _ _ E1) as (Q1 & H1 & C1). destruct (IH _ _ _ _ E2) as (Q2 & H2 & d & P).
      split; [congruence|]. split; [congruence|]. destruct C1 as [C1|C1]; rewrite C1 in P.
      * exists d. intros x. specialize (P x). unfold cids in *. cbn [map fst] in *. rewrite !cnt_cons_map in *. lia.
      * exists (i :: d). intros x. specialize (P x). unfold cids in *. cbn [map fst] in *. rewrite (cnt_cons x i d), !cnt_cons_map. lia.
    + destruct (walk t s) as [[s2 e2] sp2] eqn:E2. inversion E; subst.
      destruct (IH _ _ _ _ E2) as (Q2 & H2 & d & P). split; [exact Q2|]. split; [exact H2|].
      exists d. intros x. specialize (P x). unfold cids in *. cbn [map fst] in *. rewrite (cnt_cons x i sp2), !cnt_cons_map. lia.
Qed.

Lemma cids_ready_items sp : cids (ready_items sp) = sp.
Proof. unfold cids, ready_items. rewrite map_map. cbn. apply map_id. Qed.

Lemma dispose_place awaited sp s s' e : dispose awaited sp s = (s', e) ->
  held s' = held s /\ exists d, forall x, (cnt x sp + cnt x (cq s) = cnt x d + cnt x (cq s'))%nat.
Proof.
  intros E. unfold dispose in E. destruct (negb (m_coro s)).
  - destruct (drive_place _ _ _ _ _ E) as (H & d & P). split; [exact H|]. exists d. intros x. rewrite <- (P x), cids_ready_items. reflexivity.
  - destruct (negb awaited).
    + inversion E; subst. split; [reflexivity|]. exists []. intros x. unfold cq. cbn [chain queue set_queue].
      rewrite cids_app, cids_ready_items, !cnt_app, cnt_nil. lia.
    + destruct sp as [|a t] eqn:SP.
      * inversion E; subst. split; [reflexivity|]. exists []. intros x. reflexivity.
      * rewrite <- SP in *. assert (NE : sp <> []) by (rewrite SP; discriminate).
        destruct (drive_place _ _ _ _ _ E) as (H & d & P). split; [exact H|]. exists d. intros x. rewrite <- (P x).
        unfold cq. cbn [chain queue set_queue].
        change (cids ((last sp 0%nat, true) :: queue s ++ ready_items (removelast sp)))
          with (last sp 0%nat :: cids (queue s ++ ready_items (removelast sp))).
        rewrite cids_app, cids_ready_items.
        rewrite (cnt_cons x (last sp 0%nat) (cids (queue s) ++ removelast sp)), !cnt_app. change (cids []) with (@nil nat). rewrite cnt_nil.
        rewrite (app_removelast_last 0%nat NE) at 1. rewrite cnt_app. lia.
Qed.

(* every listener placed somewhere is known to the table; the table only grows *)
Definition known (s : st) (i : nat) : Prop := get (tab s) i <> None.
Definition tab_mono (s s' : st) : Prop := forall i, known s i -> known s' i.
Lemma tab_mono_refl s : tab_mono s s. Proof. intros i H. exact H. Qed.
Lemma tab_mono_trans a b c : tab_mono a b -> tab_mono b c -> tab_mono a c.
Proof. intros H1 H2 i K. apply H2, H1, K. Qed.
Lemma tab_mono_tab s s' : tab s' = tab s -> tab_mono s s'. Proof. intros T i K. unfold known in *. rewrite T. exact K. Qed.
Lemma tab_mono_setl s i l : tab_mono s (setl s i l).
Proof.
  intros j K. unfold known, setl, set_tab in *. cbn [tab]. destruct (Nat.eq_dec i j) as [->|N].
  - rewrite get_put_same. discriminate.
  - rewrite get_put_other by exact N. exact K.
Qed.
Lemma known_setl s i l : known (setl s i l) i.
Proof. unfold known, setl, set_tab. cbn [tab]. rewrite get_put_same. discriminate. Qed.

Lemma co_await_e_mono r : forall i s s' e, co_await_e r i s = (s', e) -> tab_mono s s'.
Proof.
  induction r as [|r IH]; intros i s s' e E; cbn [co_await_e] in E; destruct (alive s).
  - inversion E; subst. apply tab_mono_tab. reflexivity.
  - inversion E; subst. apply tab_mono_refl.
  - inversion E; subst. apply tab_mono_tab. reflexivity.
  - destruct (co_await_e r i _) as [s2 e2] eqn:E2. inversion E; subst.
    exact (tab_mono_trans _ _ _ (tab_mono_setl _ _ _) (IH _ _ _ _ E2)).
Qed.
Lemma co_resumed_mono i s s' e p : co_resumed i s = (s', e, p) -> tab_mono s s'.
Proof.
  intros E. unfold co_resumed in E. destruct (await_resume s).
  - destruct (negb (Nat.eqb (l_limit (getl s i)) 0) && Nat.eqb (S (l_cnt (getl s i))) (l_limit (getl s i))).
    + inversion E; subst. apply tab_mono_setl.
    + destruct (l_pause (getl s i)).
      * inversion E; subst. apply tab_mono_setl.
      * destruct (co_await_e _ i _) as [s2 e2] eqn:E2. inversion E; subst.
        exact (tab_mono_trans _ _ _ (tab_mono_setl _ _ _) (co_await_e_mono _ _ _ _ _ E2)).
  - destruct (l_retry (getl s i)) as [|r'].
    + inversion E; subst. apply tab_mono_refl.
    + destruct (co_await_e r' i _) as [s2 e2] eqn:E2. inversion E; subst.
      exact (tab_mono_trans _ _ _ (tab_mono_setl _ _ _) (co_await_e_mono _ _ _ _ _ E2)).
Qed.
Lemma run_item_mono inl it s s' e : run_item inl it s = (s', e) -> tab_mono s s'.
Proof.
  intros E. destruct it as [i ready]. unfold run_item in E. destruct ready.
  - destruct (co_resumed i s) as [[s1 e1] p] eqn:E1. pose proof (co_resumed_mono _ _ _ _ _ E1) as M1.
    destruct p; [destruct inl|].
    + destruct (co_await_e _ i s1) as [s2 e2] eqn:E2. inversion E; subst. exact (tab_mono_trans _ _ _ M1 (co_await_e_mono _ _ _ _ _ E2)).
    + inversion E; subst. exact (tab_mono_trans _ _ _ M1 (tab_mono_tab _ _ eq_refl)).
    + inversion E; subst. exact M1.
  - exact (co_await_e_mono _ _ _ _ _ E).
Qed.
Lemma drive_mono inl items : forall s s' e, drive inl items s = (s', e) -> tab_mono s s'.
Proof.
  induction items as [|it t IH]; intros s s' e E; cbn [drive] in E.
  - inversion E; subst. apply tab_mono_refl.
  - destruct (run_item inl it s) as [s1 e1] eqn:E1. destruct (drive inl t s1) as [s2 e2] eqn:E2. inversion E; subst.
    exact (tab_mono_trans _ _ _ (run_item_mono _ _ _ _ _ E1) (IH _ _ _ E2)).
Qed.
Lemma cb_resume_mono i s s' e : cb_resume i s = (s', e) -> tab_mono s s'.
Proof.
  intros E. unfold cb_resume in E. destruct (negb (alive s)); [inversion E; subst; apply tab_mono_refl|].
  destruct (await_resume s); [|inversion E; subst; apply tab_mono_refl].
  destruct (Nat.eqb (l_limit (getl s i)) 0 || Nat.ltb (S (l_cnt (getl s i))) (l_limit (getl s i))); inversion E; subst.
  - exact (tab_mono_trans _ _ _ (tab_mono_setl _ _ _) (tab_mono_tab _ _ eq_refl)).
  - apply tab_mono_setl.
Qed.
Lemma walk_mono w : forall s s' e sp, walk w s = (s', e, sp) -> tab_mono s s'.
Proof.
  induction w as [|[i cb] t IH]; intros s s' e sp E; cbn [walk] in E.
  - inversion E; subst. apply tab_mono_refl.
  - destruct cb.
    + destruct (cb_resume i s) as [s1 e1] eqn:E1. destruct (walk t s1) as [[s2 e2] sp2] eqn:E2. inversion E; subst.
      exact (tab_mono_trans _ _ _ (cb_resume_mono _ _ _ _ E1) (IH _ _ _ _ E2)).
    + destruct (walk t s) as [[s2 e2] sp2] eqn:E2. inversion E; subst. exact (IH _ _ _ _ E2).
Qed.
Lemma dispose_mono awaited sp s s' e : dispose awaited sp s = (s', e) -> tab_mono s s'.
Proof.
  intros E. unfold dispose in E. destruct (negb (m_coro s)); [exact (drive_mono _ _ _ _ _ E)|].
  destruct (negb awaited); [inversion E; subst; apply tab_mono_tab; reflexivity|].
  destruct sp; [inversion E; subst; apply tab_mono_refl|].
  exact (tab_mono_trans _ _ _ (tab_mono_tab _ (set_queue s []) eq_refl) (drive_mono _ _ _ _ _ E)).
Qed.

(* the ids an op brings in *)
Definition new_ids (s : st) (x : op) : list nat :=
  match x with
  | OSpawn i _ _ _ | OConnect i _ => match get (tab s) i with None => [i] | Some _ => [] end
  | _ => []
  end.

Definition val_upd (s : st) (kind : nat) (v : Z) : st :=
  if Nat.eqb kind 2 then set_val s VExt (owned s) v else set_val s VOwned (Some v) (ext s).

Lemma notify_place s s' e sp : notify s = (s', e, sp) ->
  queue s' = queue s /\ held s' = held s /\ tab_mono s s' /\
  exists d, forall x, (cnt x (cids (chain s)) = cnt x d + cnt x sp + cnt x (cids (chain s')))%nat.
Proof.
  unfold notify. intros E. destruct (walk_place _ _ _ _ _ E) as (Q & H & d & P).
  split; [exact Q|]. split; [exact H|]. split; [exact (tab_mono_trans _ _ _ (tab_mono_tab _ (set_chain s []) eq_refl) (walk_mono _ _ _ _ _ E))|].
  exists d. intros x. rewrite <- (P x). cbn [chain set_chain]. change (cids []) with (@nil nat). rewrite cnt_nil. lia.
Qed.

Lemma step0_place s x s' o : step0 s x = (s', o) ->
  tab_mono s s' /\ (forall i, In i (new_ids s x) -> known s' i) /\
  exists d, forall y, (cnt y (new_ids s x) + cnt y (ids s) = cnt y d + cnt y (ids s'))%nat.
Proof.
  intros E. destruct x; cbn [step0] in E; cbn [new_ids].
  - (* spawn *) destruct (get (tab s) i) eqn:G.
    + inversion E; subst. split; [apply tab_mono_refl|]. split; [intros ? []|]. exists []. intros y. reflexivity.
    + set (s1 := setl s i _) in E. destruct (co_await_e retry i s1) as [s2 e] eqn:E2. inversion E; subst.
      pose proof (co_await_e_mono _ _ _ _ _ E2) as M2. destruct (co_await_e_place _ _ _ _ _ E2) as (Q & H & C).
      split; [exact (tab_mono_trans _ _ _ (tab_mono_setl _ _ _) M2)|].
      split; [intros j [<-|[]]; apply M2, known_setl|].
      destruct C as [C|C].
      * exists []. intros y. unfold ids, cq, cids. rewrite Q, H, C. cbn [map fst chain queue held s1 setl set_tab]. rewrite !cnt_app, cnt_cons_map, !cnt_nil. lia.
      * exists [i]. intros y. unfold ids, cq, cids. rewrite Q, H, C. cbn [map fst chain queue held s1 setl set_tab]. rewrite !cnt_app. lia.
  - (* connect *) destruct (get (tab s) i) eqn:G.
    + inversion E; subst. split; [apply tab_mono_refl|]. split; [intros ? []|]. exists []. intros y. reflexivity.
    + destruct (alive s) eqn:A.
      * inversion E; subst. split; [exact (tab_mono_trans _ _ _ (tab_mono_setl _ _ _) (tab_mono_tab _ _ eq_refl))|].
        split; [intros j [<-|[]]; apply known_setl|].
        exists []. intros y. unfold ids, cq, cids. cbn [map fst chain queue held subscribe set_chain setl set_tab]. rewrite !cnt_app, cnt_cons_map, !cnt_nil. lia.
      * rewrite cb_resume_dead in E by exact A. inversion E; subst. split; [apply tab_mono_setl|].
        split; [intros j [<-|[]]; apply known_setl|].
        exists [i]. intros y. unfold ids, cq, cids. cbn [map fst chain queue held setl set_tab]. rewrite !cnt_app. lia.
  - (* emit *)
    destruct (negb (alive s) || (awaited && negb (m_coro s)) || (m_void s && negb (Nat.eqb kind 0)) || Nat.ltb 2 kind).
    + inversion E; subst. split; [apply tab_mono_refl|]. split; [intros ? []|]. exists []. intros y. reflexivity.
    + fold (val_upd s kind v) in E. destruct (notify (val_upd s kind v)) as [[s2 e1] sp] eqn:N.
      destruct (dispose awaited sp s2) as [s3 e2] eqn:D. inversion E; subst.
      destruct (notify_place _ _ _ _ N) as (Q & H & M & d1 & P1). destruct (dispose_place _ _ _ _ _ D) as (H2 & d2 & P2).
      assert (V : chain (val_upd s kind v) = chain s /\ queue (val_upd s kind v) = queue s /\ held (val_upd s kind v) = held s /\ tab (val_upd s kind v) = tab s)
        by (unfold val_upd; destruct (Nat.eqb kind 2); repeat split).
      destruct V as (V1 & V2 & V3 & V4).
      split; [exact (tab_mono_trans _ _ _ (tab_mono_tab _ (val_upd s kind v) V4) (tab_mono_trans _ _ _ M (dispose_mono _ _ _ _ _ D)))|].
      split; [intros ? []|]. exists (d1 ++ d2). intros y. specialize (P1 y). specialize (P2 y).
      unfold ids, cq in *. rewrite H2, H, V3, Q, V2 in *. rewrite V1 in P1. rewrite !cnt_app in *. rewrite cnt_nil. lia.
  - (* copy *) destruct (alive s); inversion E; subst; (split; [apply tab_mono_tab; reflexivity|]); (split; [intros ? []|]); exists []; intros y; reflexivity.
  - (* drop *) destruct (strong s) as [|[|k]].
    + inversion E; subst. split; [apply tab_mono_refl|]. split; [intros ? []|]. exists []. intros y. reflexivity.
    + set (s1 := set_val (set_strong s 0) VNull (owned s) (ext s)) in E. destruct (notify s1) as [[s2 e1] sp] eqn:N.
      destruct (dispose false sp s2) as [s3 e2] eqn:D. inversion E; subst.
      destruct (notify_place _ _ _ _ N) as (Q & H & M & d1 & P1). destruct (dispose_place _ _ _ _ _ D) as (H2 & d2 & P2).
      split; [exact (tab_mono_trans _ _ _ (tab_mono_tab _ s1 eq_refl) (tab_mono_trans _ _ _ M (tab_mono_trans _ _ _ (dispose_mono _ _ _ _ _ D) (tab_mono_tab _ _ eq_refl))))|].
      split; [intros ? []|]. exists (d1 ++ d2). intros y. specialize (P1 y). specialize (P2 y).
      unfold ids, cq in *. cbn [chain queue held set_val] in *. rewrite H2, H, Q in *. cbn [chain queue held s1 set_val set_strong] in *.
      rewrite !cnt_app in *. rewrite cnt_nil. lia.
    + inversion E; subst. split; [apply tab_mono_tab; reflexivity|]. split; [intros ? []|]. exists []. intros y. reflexivity.
  - (* pause *) destruct (negb (m_coro s)).
    + inversion E; subst. split; [apply tab_mono_refl|]. split; [intros ? []|]. exists []. intros y. reflexivity.
    + destruct (drive false (queue s) (set_queue s [])) as [s1 e] eqn:E1. inversion E; subst.
      destruct (drive_place _ _ _ _ _ E1) as (H & d & P).
      split; [exact (tab_mono_trans _ _ _ (tab_mono_tab _ (set_queue s []) eq_refl) (drive_mono _ _ _ _ _ E1))|].
      split; [intros ? []|]. exists d. intros y. specialize (P y). unfold ids, cq in *. rewrite H. cbn [chain queue held set_queue] in *.
      change (cids []) with (@nil nat) in P. rewrite !cnt_app in *. rewrite cnt_nil in P. rewrite cnt_nil. lia.
  - (* hold *)
    destruct (negb (alive s) || (m_void s && negb (Nat.eqb kind 0)) || Nat.ltb 2 kind).
    + inversion E; subst. split; [apply tab_mono_refl|]. split; [intros ? []|]. exists []. intros y. reflexivity.
    + fold (val_upd s kind v) in E. destruct (notify (val_upd s kind v)) as [[s2 e1] sp] eqn:N. inversion E; subst.
      destruct (notify_place _ _ _ _ N) as (Q & H & M & d1 & P1).
      assert (V : chain (val_upd s kind v) = chain s /\ queue (val_upd s kind v) = queue s /\ held (val_upd s kind v) = held s /\ tab (val_upd s kind v) = tab s)
        by (unfold val_upd; destruct (Nat.eqb kind 2); repeat split).
      destruct V as (V1 & V2 & V3 & V4).
      split; [exact (tab_mono_trans _ _ _ (tab_mono_tab _ (val_upd s kind v) V4) (tab_mono_trans _ _ _ M (tab_mono_tab _ _ eq_refl)))|].
      split; [intros ? []|]. exists d1. intros y. specialize (P1 y). rewrite V1 in P1.
      unfold ids, cq in *. cbn [chain queue held set_held]. rewrite H, V3, Q, V2, concat_app. cbn [concat]. rewrite app_nil_r, !cnt_app, cnt_nil. lia.
  - (* release *) destruct (held s) as [|sp rest] eqn:HS.
    + inversion E; subst. split; [apply tab_mono_refl|]. split; [intros ? []|]. exists []. intros y. reflexivity.
    + destruct (dispose false sp (set_held s rest)) as [s1 e] eqn:D. inversion E; subst.
      destruct (dispose_place _ _ _ _ _ D) as (H & d & P).
      split; [exact (tab_mono_trans _ _ _ (tab_mono_tab _ (set_held s rest) eq_refl) (dispose_mono _ _ _ _ _ D))|].
      split; [intros ? []|]. exists d. intros y. specialize (P y). unfold ids, cq in *. rewrite H, HS. cbn [chain queue held set_held concat] in *.
      rewrite !cnt_app in *. rewrite cnt_nil. lia.
  - (* await held *) destruct (negb (m_coro s)).
    + inversion E; subst. split; [apply tab_mono_refl|]. split; [intros ? []|]. exists []. intros y. reflexivity.
    + destruct (held s) as [|sp rest] eqn:HS.
      * inversion E; subst. split; [apply tab_mono_refl|]. split; [intros ? []|]. exists []. intros y. reflexivity.
      * destruct (dispose true sp (set_held s rest)) as [s1 e] eqn:D. inversion E; subst.
        destruct (dispose_place _ _ _ _ _ D) as (H & d & P).
        split; [exact (tab_mono_trans _ _ _ (tab_mono_tab _ (set_held s rest) eq_refl) (dispose_mono _ _ _ _ _ D))|].
        split; [intros ? []|]. exists d. intros y. specialize (P y). unfold ids, cq in *. rewrite H, HS. cbn [chain queue held set_held concat] in *.
        rewrite !cnt_app in *. rewrite cnt_nil. lia.
  - inversion E; subst. split; [apply tab_mono_refl|]. split; [intros ? []|]. exists []. intros y. reflexivity.
  - inversion E; subst. split; [apply tab_mono_refl|]. split; [intros ? []|]. exists []. intros y. reflexivity.
Qed.

(* the invariant: no id twice among chain, queue and kept suspend points, and every such id is in the table *)
Definition uniq (s : st) : Prop := NoDup (ids s) /\ forall i, In i (ids s) -> known s i.

Lemma step0_uniq s x s' o : step0 s x = (s', o) -> uniq s -> uniq s'.
Proof.
  intros E (ND & K). destruct (step0_place _ _ _ _ E) as (M & NK & d & P). split.
  - apply nodup_cnt. intros y. specialize (P y). rewrite nodup_cnt in ND. specialize (ND y).
    assert (B : (cnt y (new_ids s x) + cnt y (ids s) <= 1)%nat).
    { destruct x; cbn [new_ids] in *; try (rewrite cnt_nil; lia);
        (destruct (get (tab s) i) eqn:G; [rewrite cnt_nil; lia|]);
        (destruct (Nat.eq_dec y i) as [->|NE]; [|rewrite (cnt_other _ _ NE); lia]);
        (destruct (cnt i (ids s)) eqn:C0; [rewrite cnt_self; lia|]);
        (exfalso; assert (I : In i (ids s)) by (apply cnt_in; lia); apply (K i I); exact G). }
    lia.
  - intros i I. apply cnt_in in I. specialize (P i).
    assert (H : (0 < cnt i (new_ids s x) + cnt i (ids s))%nat) by lia.
    destruct (cnt i (ids s)) eqn:C0.
    + apply NK. apply cnt_in. lia.
    + apply M, K. apply cnt_in. lia.
Qed.

Lemma run0_uniq l : forall s s' os, run0 s l = (s', os) -> uniq s -> uniq s'.
Proof.
  induction l as [|x t IH]; intros s s' os E U; cbn [run0] in E.
  - inversion E; subst. exact U.
  - destruct (step0 s x) as [s1 o] eqn:E1. destruct (run0 s1 t) as [s2 os2] eqn:E2. inversion E; subst.
    exact (IH _ _ _ E2 (step0_uniq _ _ _ _ E1 U)).
Qed.

Lemma step_uniq s x s' o : step s x = (s', o) -> uniq s -> uniq s'.
Proof.
  intros E U. destruct (step_cases _ _ _ _ E) as (l & os & R & _). exact (run0_uniq _ _ _ _ R U).
Qed.

Lemma run_uniq ops : forall s, uniq s -> uniq (snd (run_from s ops)).
Proof.
  induction ops as [|x t IH]; intros s U; cbn [run_from]; [exact U|].
  destruct (step s x) as [s1 o] eqn:E. specialize (IH s1 (step_uniq _ _ _ _ E U)).
  destruct (run_from s1 t) as [os s2]. exact IH.
Qed.

Theorem unique_ids : forall coro vd ops,
  NoDup (ids (snd (run_from (st0 coro vd) ops))).
Proof.
  intros coro vd ops. apply (run_uniq ops (st0 coro vd)). split; [constructor|intros i []].
Qed.

(* ... hence, at every collector call of a run (ordinary code or awaited, nothing pending), each listener waiting in
   the chain receives exactly that value exactly once, and nobody else receives anything *)
Lemma nodup_app_l {A} (a b : list A) : NoDup (a ++ b) -> NoDup a.
Proof. induction a as [|x a IH]; [constructor|]. cbn. intros H. inversion H; subst. constructor; [intros I; apply H2, in_or_app; left; exact I|apply IH; exact H3]. Qed.

Lemma cbs_cos_cnt c x : (cnt x (cbs c) + cnt x (cos c) = cnt x (cids c))%nat.
Proof.
  induction c as [|[i b] t IH]; [reflexivity|]. unfold cids in *. cbn [map fst].
  destruct b; [rewrite cbs_cons_t, cos_cons_t, (cnt_cons x i (cbs t))|rewrite cbs_cons_f, cos_cons_f, (cnt_cons x i (cos t))]; rewrite cnt_cons_map; lia.
Qed.

Lemma sp_order_cnt b l x : cnt x (sp_order b l) = cnt x l.
Proof.
  unfold sp_order. destruct b; [|reflexivity]. destruct l as [|a t]; [reflexivity|].
  assert (NE : a :: t <> []) by discriminate.
  change (cnt x (last (a :: t) 0%nat :: removelast (a :: t)) = cnt x (a :: t)).
  rewrite (cnt_cons x (last (a :: t) 0%nat) (removelast (a :: t))).
  rewrite (app_removelast_last 0%nat NE) at 3. rewrite cnt_app. lia.
Qed.

Theorem exactly_once : forall coro vd ops kind awaited v,
  let s := snd (run_from (st0 coro vd) ops) in
  let r := step s (OEmit kind awaited v) in
  o_st (snd r) = 0 -> (m_coro s = false \/ awaited = true) -> not_ready (queue s) ->
  NoDup (delivs (o_ev (snd r))) /\
  (forall i w, In (i, w) (delivs (o_ev (snd r))) <-> In i (cids (chain s)) /\ w = emitted s v).
Proof.
  intros coro vd ops kind awaited v s r O M N.
  destruct r as [s' o] eqn:E. cbn [snd] in *.
  destruct (broadcast _ _ _ _ _ _ E O M N) as (B & _).
  pose proof (unique_ids coro vd ops) as U. fold s in U. unfold ids, cq in U.
  apply nodup_app_l, nodup_app_l in U.
  assert (ND : NoDup (cbs (chain s) ++ sp_order (m_coro s) (cos (chain s)))).
  { apply nodup_cnt. intros x. rewrite nodup_cnt in U. specialize (U x).
    rewrite cnt_app, sp_order_cnt. pose proof (cbs_cos_cnt (chain s) x). lia. }
  rewrite B. split.
  - apply FinFun.Injective_map_NoDup; [|exact ND]. intros a b H. inversion H. reflexivity.
  - intros i w. rewrite in_map_iff. split.
    + intros (j & H & I). inversion H; subst. split; [|reflexivity].
      apply cnt_in. apply cnt_in in I. rewrite cnt_app, sp_order_cnt in I. pose proof (cbs_cos_cnt (chain s) i). lia.
    + intros (I & ->). exists i. split; [reflexivity|].
      apply cnt_in. apply cnt_in in I. rewrite cnt_app, sp_order_cnt. pose proof (cbs_cos_cnt (chain s) i). lia.
Qed.

(* ================= hook_up: what the registration function emits reaches the listener ================= *)
Lemma emit_void s kind awaited v s' o : step s (OEmit kind awaited v) = (s', o) -> m_void s' = m_void s.
Proof.
  intros E. destruct (o_st o =? 0) eqn:O.
  - apply Z.eqb_eq in O. destruct (emit_shape _ _ _ _ _ _ E O) as (A & _ & s2 & e1 & sp & e2 & W & Di & _).
    destruct (walk_live _ _ _ (emit_ar s kind v [] A) _ _ _ W) as (SV & _). destruct (dispose_frame _ _ _ _ _ Di) as (SV2 & _).
    rewrite (sv_void _ _ SV2), (sv_void _ _ SV). destruct (Nat.eqb kind 2); reflexivity.
  - cbn [step step0] in E. destruct (negb (alive s) || _ || _ || _); [inversion E; reflexivity|].
    destruct (notify _) as [[a b] c]. destruct (dispose awaited c a). inversion E; subst. discriminate.
Qed.

Lemma emit_accepts s v s' o : alive s = true -> step0 s (OEmit 0 false v) = (s', o) -> o_st o = 0.
Proof.
  intros A E. cbn [step0] in E. rewrite A in E. cbn [negb andb orb Nat.eqb Nat.ltb Nat.leb] in E. rewrite andb_false_r in E. cbn [orb] in E.
  destruct (notify _) as [[a b] c]. destruct (dispose false c a). inversion E; reflexivity.
Qed.

Lemma hook_emits_received g vd : forall (js : list nat) s tl s' os,
  rinv g false s -> held s = [] -> m_void s = vd -> alive s = true ->
  run0 s (map (fun j => OEmit 0 false (900 + Z.of_nat j)) js ++ tl) = (s', os) ->
  forall j, In j js -> In (g, if vd then 0 else 900 + Z.of_nat j) (delivs (flat_map o_ev os)).
Proof.
  induction js as [|a js IH]; intros s tl s' os R HN V A E j I; [destruct I|].
  cbn [map app run0] in E. destruct (step0 s (OEmit 0 false (900 + Z.of_nat a))) as [s1 o] eqn:E1.
  destruct (run0 s1 _) as [s2 os2] eqn:E2. inversion E; subst s' os. cbn [flat_map]. rewrite delivs_app. apply in_or_app.
  assert (Es : step s (OEmit 0 false (900 + Z.of_nat a)) = (s1, o)) by exact E1.
  destruct (step_rinv g false _ _ _ _ Es R HN (or_introl eq_refl)) as (R1 & P).
  pose proof (emit_accepts _ _ _ _ A E1) as O.
  destruct I as [<-|I].
  - left. specialize (P O). unfold emitted in P. rewrite V in P. exact P.
  - right. refine (IH s1 tl s2 os2 R1 (step_held_nil false _ _ _ _ Es HN (or_introl eq_refl)) _ _ E2 j I).
    + rewrite (emit_void _ _ _ _ _ _ Es). exact V.
    + destruct (emit_shape _ _ _ _ _ _ Es O) as (_ & _ & sa & ea & sp & eb & W & Di & _).
      destruct (walk_live _ _ _ (emit_ar s 0 (900 + Z.of_nat a) [] A) _ _ _ W) as (SV & _). destruct (dispose_frame _ _ _ _ _ Di) as (SV2 & _).
      rewrite (same_val_alive _ _ SV2), (same_val_alive _ _ SV). exact A.
Qed.

(* A listener hooked up from ordinary code with script `for(;;) co_await e;`: every value the registration function emits
   through the collector it was handed (any number of them) is delivered to the listener inside the hook-up itself —
   the coroutine is subscribed before the registration function runs. *)
Lemma get_tab0 c v (g : nat) : get (tab (st0 c v)) g = None.
Proof. unfold get. cbn [st0 tab]. destruct g; reflexivity. Qed.

Theorem hook_up_receives : forall vd g r keep k s' o,
  step (st0 false vd) (OHookUp g 0 false r keep k) = (s', o) ->
  forall j, (1 <= j <= k)%nat -> In (g, if vd then 0 else 900 + Z.of_nat j) (delivs (o_ev o)).
Proof.
  intros vd g r keep k s' o E j J. cbn [step] in E.
  destruct (step0 (st0 false vd) (OSpawn g 0 false r)) as [s1 o1] eqn:E1.
  assert (Es : step (st0 false vd) (OSpawn g 0 false r) = (s1, o1)) by exact E1.
  assert (N0 : not_ready (queue (st0 false vd))) by (intros ? []).
  destruct (spawn_rinv g (st0 false vd) r s1 o1 eq_refl N0 (get_tab0 _ _ _) Es) as (R & EV).
  cbn [step0] in E1. rewrite get_tab0 in E1. rewrite co_await_e_alive in E1 by reflexivity. inversion E1; subst s1 o1. clear E1.
  cbn [o_st Z.eqb negb] in E.
  destruct (run0 _ (hook_tail keep k)) as [s2 os] eqn:E2. inversion E; subst s' o. cbn [o_ev flat_map app].
  change (delivs (EAwait g :: flat_map o_ev os)) with (delivs (flat_map o_ev os)).
  unfold hook_tail in E2.
  refine (hook_emits_received g vd (seq 1 k) _ _ s2 os R (step_held_nil false _ _ _ _ Es eq_refl I) eq_refl eq_refl E2 j _).
  apply in_seq. lia.
Qed.

(* ================= a kept suspend point ================= *)
Lemma set_held_id s : set_held s (held s) = s. Proof. destruct s; reflexivity. Qed.
Lemma set_held_twice s a b : set_held (set_held s a) b = set_held s b. Proof. reflexivity. Qed.

(* keeping the collector's suspend point in a variable and destroying it with nothing in between is the same as
   discarding it at once: same final state, same events in the same order *)
Theorem hold_release : forall s kind v s1 o1 s2 o2 s' o,
  held s = [] ->
  step s (OEmitHold kind v) = (s1, o1) -> o_st o1 = 0 -> step s1 ORelease = (s2, o2) ->
  step s (OEmit kind false v) = (s', o) ->
  s2 = s' /\ o_st o = 0 /\ o_ev o1 ++ o_ev o2 = o_ev o /\ o_ret o1 = o_ret o.
Proof.
  intros s kind v s1 o1 s2 o2 s' o HN E1 O1 E2 E. cbn [step step0] in E1, E.
  destruct (negb (alive s) || (m_void s && negb (Nat.eqb kind 0)) || Nat.ltb 2 kind) eqn:R.
  - inversion E1; subst. discriminate.
  - assert (R' : negb (alive s) || (false && negb (m_coro s)) || (m_void s && negb (Nat.eqb kind 0)) || Nat.ltb 2 kind = false).
    { cbn [andb]. rewrite orb_false_r. exact R. }
    rewrite R' in E.
    destruct (notify _) as [[sa ea] sp] eqn:N. destruct (dispose false sp sa) as [sb eb] eqn:D.
    inversion E1; subst s1 o1. inversion E; subst s' o. clear E1 E.
    assert (HA : held sa = []).
    { destruct (notify_place _ _ _ _ N) as (_ & H & _). rewrite H. destruct (Nat.eqb kind 2); exact HN. }
    cbn [step step0] in E2. rewrite HA in E2. cbn [held set_held app] in E2. rewrite set_held_twice in E2.
    rewrite <- HA, set_held_id, D in E2. inversion E2; subst. repeat split.
Qed.

(* ================= the refuted case (finding F-C15) ================= *)
Lemma discard_overrun_witness :
  let ops := [OSpawn 1 0 false 0; OEmit 0 false 1; OEmit 0 false 2; OEmit 0 true 3; OPause] in
  let r := run_from (st0 true false) ops in
  cos (chain (snd (run_from (st0 true false) [OSpawn 1 0 false 0]))) = [1%nat] /\
  delivs (flat_map o_ev (fst r)) = [(1%nat, 3)] /\
  sg_oracle true false false [[0;1;0;0;0];[2;0;0;1];[2;0;0;2];[2;0;1;3];[5]]
            (sg_run true false [[0;1;0;0;0];[2;0;0;1];[2;0;0;2];[2;0;1;3];[5]]) = false.
Proof. vm_compute. repeat split. Qed.
